import Proofs.Lemmas.SafetyCommon
/-!
# Memory safety of the backtracking executor model (`Regress.VM.Bt`)

* `run_ruleE` / `run_rule`: a Hoare-style rule for `Bt.run` (invariant `I` of the `'nextinsn` loop,
  invariant `B` at a `break 'backtrack`, post-conditions `QM`/`QF`/`QE`, explicit ghost state for the
  nested look-around runs).
* `Inv`, `step_vc`, `back_vc`, `run_safe`: the safety invariant, generic in the position discipline
  `Spec prog inp A V` of `SafetyCommon`; needs `start ≤ end` only at `BackRef { icase: true }`.
* `step_frameS`, `step_pos`: what one instruction does to the groups / stack / position.
* `lookConfined`, `RInv`, `run_restores`, `attempt_groups_restored`: frame property and restoration
  of the capture groups after a failed run.
* `OInv`, `ostep_vc`, `obackLoop_vc`: the ordering certificate (`checkOrd`) is an invariant.
* `run_safe_ord`: all three together — safety without any restriction on the instructions.
-/

namespace Regress.VM.Bt

/-! ## A Hoare-style rule for `Bt.run` -/

/-- Post-condition of a run: `QM` on a match, `QF` on failure; running out of the tick budget is
always allowed, an `.error` never. -/
def Post (QM : Nat → State → Prop) (QF : State → Prop) : Outcome → Prop
  | .matched e st _ _ => QM e st
  | .failed st _ _ => QF st
  | .outOfFuel => True
  | .error _ => False

/-- What `tryBacktrack` must deliver. -/
def BtPost (I : Nat → Nat → State → Array BtInsn → Prop) (QF : State → Prop) : BtRes → Prop
  | .resumed ip pos st bts => I ip pos st bts
  | .exhausted st _ => QF st
  | .err _ => False

section Rule
variable {γ : Type} (prog : Prog) (inp : Input)
  (I : γ → Bool → Nat → Nat → State → Array BtInsn → Prop)
  (B : γ → Bool → State → Array BtInsn → Prop)
  (QM : γ → Bool → Nat → State → Prop)
  (QF : γ → Bool → State → Prop)
  (nest : γ → Nat → Nat → State → Nat → Nat → Nat → γ)

/-- Verification condition of one instruction. -/
def StepVC (g : γ) (fwd : Bool) (ip pos : Nat) (st : State) (bts : Array BtInsn) : Act → Prop
  | .err _ => False
  | .goal p st' => QM g fwd p st'
  | .cont ip' pos' st' bts' => I g fwd ip' pos' st' bts'
  | .back st' bts' => B g fwd st' bts'
  | .look d neg sg eg k st1 bts1 =>
    st1 = st ∧ bts1 = bts ∧ sg ≤ eg ∧ eg ≤ st.groups.size ∧
    I (nest g ip pos st sg eg k) d (ip + 1) pos st #[.exhausted] ∧
      (∀ e st', QM (nest g ip pos st sg eg k) d e st' →
        if neg = false then I g fwd k pos st' (pushSavedGroups (st.groups.extract sg eg).toList sg bts)
        else B g fwd { st' with groups := spliceGroups (st.groups.extract sg eg).toList sg st'.groups } bts) ∧
      (∀ st', QF (nest g ip pos st sg eg k) d st' →
        if neg = true then
          I g fwd k pos { st' with groups := spliceGroups (st.groups.extract sg eg).toList sg st'.groups } bts
        else B g fwd { st' with groups := spliceGroups (st.groups.extract sg eg).toList sg st'.groups } bts)

/-- The same with a post-condition `QE` for error results (`QE := True`: partial correctness,
errors are not excluded; `QE := False`: safety). -/
def StepVCE (QE : Prop) (g : γ) (fwd : Bool) (ip pos : Nat) (st : State) (bts : Array BtInsn) :
    Act → Prop
  | .err _ => QE
  | .goal p st' => QM g fwd p st'
  | .cont ip' pos' st' bts' => I g fwd ip' pos' st' bts'
  | .back st' bts' => B g fwd st' bts'
  | .look d neg sg eg k st1 bts1 =>
    st1 = st ∧ bts1 = bts ∧ (¬ (sg ≤ eg ∧ eg ≤ st.groups.size) → QE) ∧
    ((sg ≤ eg ∧ eg ≤ st.groups.size) → I (nest g ip pos st sg eg k) d (ip + 1) pos st #[.exhausted] ∧
      (∀ e st', QM (nest g ip pos st sg eg k) d e st' →
        if neg = false then I g fwd k pos st' (pushSavedGroups (st.groups.extract sg eg).toList sg bts)
        else B g fwd { st' with groups := spliceGroups (st.groups.extract sg eg).toList sg st'.groups } bts) ∧
      (∀ st', QF (nest g ip pos st sg eg k) d st' →
        if neg = true then
          I g fwd k pos { st' with groups := spliceGroups (st.groups.extract sg eg).toList sg st'.groups } bts
        else B g fwd { st' with groups := spliceGroups (st.groups.extract sg eg).toList sg st'.groups } bts))

def PostE (QE : Prop) (QM : Nat → State → Prop) (QF : State → Prop) : Outcome → Prop
  | .matched e st _ _ => QM e st
  | .failed st _ _ => QF st
  | .outOfFuel => True
  | .error _ => QE

def BtPostE (QE : Prop) (I : Nat → Nat → State → Array BtInsn → Prop) (QF : State → Prop) :
    BtRes → Prop
  | .resumed ip pos st bts => I ip pos st bts
  | .exhausted st _ => QF st
  | .err _ => QE

theorem run_ruleE (QE : Prop)
    (hstep : ∀ g fwd ip pos st bts, I g fwd ip pos st bts →
      StepVCE I B QM QF nest QE g fwd ip pos st bts (step prog inp ip pos fwd st bts))
    (hback : ∀ g fwd st bts, B g fwd st bts →
      BtPostE QE (I g fwd) (QF g fwd) (tryBacktrack prog inp fwd st bts))
    (limit : Nat) :
    ∀ sf g ip pos fwd st bts steps peak, I g fwd ip pos st bts →
      PostE QE (QM g fwd) (QF g fwd) (run prog inp limit sf ip pos fwd st bts steps peak) := by
  intro sf
  induction sf with
  | zero => intro g ip pos fwd st bts steps peak _; simp [run, PostE]
  | succ sf ih =>
    intro g ip pos fwd st bts steps peak hI
    have hbk : ∀ st' bts' steps' peak', B g fwd st' bts' →
        PostE QE (QM g fwd) (QF g fwd)
          (match tryBacktrack prog inp fwd st' bts' with
            | .err e => .error e
            | .exhausted st _ => .failed st steps' peak'
            | .resumed ip pos st bts => run prog inp limit sf ip pos fwd st bts steps' peak') := by
      intro st' bts' steps' peak' hB
      have h := hback g fwd st' bts' hB
      cases hr : tryBacktrack prog inp fwd st' bts' with
      | err e => rw [hr] at h; exact h
      | exhausted st'' b => rw [hr] at h; exact h
      | resumed ip' pos' st'' bts'' => rw [hr] at h; exact ih g ip' pos' fwd st'' bts'' _ _ h
    unfold run
    split
    · trivial
    · have hs := hstep g fwd ip pos st bts hI
      cases hact : step prog inp ip pos fwd st bts with
      | err e => rw [hact] at hs; exact hs
      | goal p st' => rw [hact] at hs; exact hs
      | cont ip' pos' st' bts' => rw [hact] at hs; exact ih _ _ _ _ _ _ _ _ hs
      | back st' bts' => rw [hact] at hs; exact hbk _ _ _ _ hs
      | look d neg sg eg k st1 bts1 =>
        rw [hact] at hs
        obtain ⟨hs1, hs2, h1, h2⟩ := hs
        rw [hs1, hs2]
        simp only
        split
        · rename_i hc
          apply h1
          simp only [Bool.or_eq_true, decide_eq_true_eq] at hc
          omega
        · rename_i hc
          obtain ⟨hI', hm, hf⟩ := h2 (by
            simp only [Bool.or_eq_true, decide_eq_true_eq] at hc; omega)
          have hin := ih (nest g ip pos st sg eg k) (ip + 1) pos d st #[.exhausted] (steps + 1)
            (if peak < bts.size then bts.size else peak) hI'
          cases hr : run prog inp limit sf (ip + 1) pos d st #[.exhausted] (steps + 1)
            (if peak < bts.size then bts.size else peak) with
          | error e => rw [hr] at hin; exact hin
          | outOfFuel => trivial
          | matched e st' s' p' =>
            rw [hr] at hin
            have := hm e st' hin
            cases neg with
            | false => simp only [Bool.not_false, if_true] at this ⊢; exact ih _ _ _ _ _ _ _ _ this
            | true =>
              simp only [Bool.not_true, Bool.false_eq_true, if_false] at this ⊢
              exact hbk _ _ _ _ this
          | failed st' s' p' =>
            rw [hr] at hin
            have := hf st' hin
            cases neg with
            | true => simp only [if_true] at this ⊢; exact ih _ _ _ _ _ _ _ _ this
            | false =>
              simp only [Bool.false_eq_true, if_false] at this ⊢
              exact hbk _ _ _ _ this

theorem run_rule
    (hstep : ∀ g fwd ip pos st bts, I g fwd ip pos st bts →
      StepVC I B QM QF nest g fwd ip pos st bts (step prog inp ip pos fwd st bts))
    (hback : ∀ g fwd st bts, B g fwd st bts →
      BtPost (I g fwd) (QF g fwd) (tryBacktrack prog inp fwd st bts))
    (limit : Nat) :
    ∀ sf g ip pos fwd st bts steps peak, I g fwd ip pos st bts →
      Post (QM g fwd) (QF g fwd) (run prog inp limit sf ip pos fwd st bts steps peak) := by
  intro sf g ip pos fwd st bts steps peak hI
  have := run_ruleE prog inp I B QM QF nest False
    (fun g fwd ip pos st bts h => by
      have h' := hstep g fwd ip pos st bts h
      cases hact : step prog inp ip pos fwd st bts with
      | look d neg sg eg k st1 bts1 =>
        rw [hact] at h'
        exact ⟨h'.1, h'.2.1, fun hn => hn ⟨h'.2.2.1, h'.2.2.2.1⟩, fun _ => h'.2.2.2.2⟩
      | err e => rw [hact] at h'; exact h'
      | goal p st' => rw [hact] at h'; exact h'
      | cont a b c d => rw [hact] at h'; exact h'
      | back a b => rw [hact] at h'; exact h')
    (fun g fwd st bts h => by
      have h' := hback g fwd st bts h
      cases hr : tryBacktrack prog inp fwd st bts with
      | err e => rw [hr] at h'; exact h'
      | exhausted a b => rw [hr] at h'; exact h'
      | resumed a b c d => rw [hr] at h'; exact h')
    limit sf g ip pos fwd st bts steps peak hI
  cases hr : run prog inp limit sf ip pos fwd st bts steps peak with
  | error e => rw [hr] at this; exact this
  | matched a b c d => rw [hr] at this; exact this
  | failed a b c => rw [hr] at this; exact this
  | outOfFuel => trivial

end Rule

/-! ## The safety invariant -/

open Regress.VM.Safety

section Inv
variable (prog : Prog) (inp : Input) (A : Bool → Nat → Nat → Prop) (V : Nat → Prop)

/-- Both ends of a capture group, when set, are storable positions. -/
def GroupOK (gd : GroupData) : Prop :=
  (∀ s, gd.start = some s → V s) ∧ (∀ e, gd.end_ = some e → V e)

/-- The matcher state has the shape the program expects and stores only valid positions. -/
structure StateOK (st : State) : Prop where
  loops : st.loops.size = prog.loops
  groups : st.groups.size = prog.groups
  gok : ∀ (g : Nat) (gd : GroupData), st.groups[g]? = some gd → GroupOK V gd

/-- A record of the backtrack stack other than the bottom `Exhausted`; `b` is the position at which
the current run was started (a lower bound of every position of a forward run, an upper bound for a
backward run), `fwd` the direction of the run that owns the stack. -/
def RecOK (b : Nat) (fwd : Bool) : BtInsn → Prop
  | .exhausted => False
  | .setPosition ip pos => A fwd ip pos ∧ MovedLe fwd b pos
  | .setLoopData id _ => id < prog.loops
  | .setCaptureGroup id d => id < prog.groups ∧ GroupOK V d
  | .enterNonGreedyLoop ip _ d =>
    (∃ id mn mx g ex, prog.insns[ip]? = some (.enterLoop id mn mx g ex)) ∧
      A fwd (ip + 1) d.entry ∧ MovedLe fwd b d.entry
  | .greedyLoop1Char k mn mx =>
    V mn ∧ V mx ∧ MovedLe fwd mn mx ∧ MovedLe fwd b mn ∧ ∀ p, V p → A fwd k p
  | .nonGreedyLoop1Char k mn mx =>
    V mn ∧ V mx ∧ MovedLe fwd mn mx ∧ MovedLe fwd b mn ∧ ∀ p, V p → A fwd k p

/-- `Exhausted` at the bottom and nowhere else; every other record is `RecOK`. -/
def StackOK (b : Nat) (fwd : Bool) (bts : Array BtInsn) : Prop :=
  bts[0]? = some .exhausted ∧ ∀ i r, 0 < i → bts[i]? = some r → RecOK prog A V b fwd r

/-- The invariant of the `'nextinsn` loop. -/
def Inv (b : Nat) (fwd : Bool) (ip pos : Nat) (st : State) (bts : Array BtInsn) : Prop :=
  A fwd ip pos ∧ MovedLe fwd b pos ∧ StateOK prog V st ∧ StackOK prog A V b fwd bts

/-- The invariant at a `break 'backtrack`. -/
def InvB (b : Nat) (fwd : Bool) (st : State) (bts : Array BtInsn) : Prop :=
  StateOK prog V st ∧ StackOK prog A V b fwd bts

variable {prog inp A V}

theorem stackOK_init (b : Nat) (fwd : Bool) : StackOK prog A V b fwd #[.exhausted] := by
  refine ⟨rfl, ?_⟩
  intro i r hi h
  have : i < (#[BtInsn.exhausted]).size := lt_of_getElem?_eq_some h
  simp at this; omega

theorem StackOK.size_pos {b fwd} {bts : Array BtInsn} (h : StackOK prog A V b fwd bts) : 0 < bts.size :=
  lt_of_getElem?_eq_some h.1

theorem StackOK.push {b fwd} {bts : Array BtInsn} {r : BtInsn} (h : StackOK prog A V b fwd bts)
    (hr : RecOK prog A V b fwd r) : StackOK prog A V b fwd (bts.push r) := by
  have hp := h.size_pos
  refine ⟨?_, ?_⟩
  · rw [Array.getElem?_push]; split
    · omega
    · exact h.1
  · intro i r' hi hg
    rw [Array.getElem?_push] at hg
    split at hg
    · cases hg; exact hr
    · exact h.2 i r' hi hg

theorem StackOK.pop {b fwd} {bts : Array BtInsn} (h : StackOK prog A V b fwd bts) (h1 : 1 < bts.size) :
    StackOK prog A V b fwd bts.pop := by
  refine ⟨?_, ?_⟩
  · rw [Array.getElem?_pop]; split
    · exact h.1
    · omega
  · intro i r hi hg
    rw [Array.getElem?_pop] at hg
    split at hg
    · exact h.2 i r hi hg
    · cases hg

theorem StackOK.setTop {b fwd} {bts : Array BtInsn} {r : BtInsn} (h : StackOK prog A V b fwd bts)
    (h1 : 1 < bts.size) (hr : RecOK prog A V b fwd r) :
    StackOK prog A V b fwd (bts.setIfInBounds (bts.size - 1) r) := by
  refine ⟨?_, ?_⟩
  · rw [Array.getElem?_setIfInBounds]; split
    · omega
    · exact h.1
  · intro i r' hi hg
    rw [Array.getElem?_setIfInBounds] at hg
    split at hg
    · split at hg
      · cases hg; exact hr
      · cases hg
    · exact h.2 i r' hi hg

/-- The top of a well-formed stack: either the bottom `Exhausted` or a good record. -/
theorem StackOK.back {b fwd} {bts : Array BtInsn} (h : StackOK prog A V b fwd bts) :
    (bts.back? = some .exhausted ∧ bts.size = 1) ∨
    (∃ r, bts.back? = some r ∧ RecOK prog A V b fwd r ∧ 1 < bts.size) := by
  have hp := h.size_pos
  by_cases h1 : bts.size = 1
  · left
    rw [Array.back?_eq_getElem?, h1]
    exact ⟨h.1, rfl⟩
  · right
    have hlt : bts.size - 1 < bts.size := by omega
    refine ⟨bts[bts.size - 1], ?_, ?_, by omega⟩
    · rw [Array.back?_eq_getElem?, Array.getElem?_eq_getElem hlt]
    · exact h.2 _ _ (by omega) (Array.getElem?_eq_getElem hlt)

theorem StateOK.setLoops {st : State} (h : StateOK prog V st) (id : Nat) (d : LoopData) :
    StateOK prog V { st with loops := st.loops.setIfInBounds id d } :=
  ⟨by simp [h.loops], h.groups, h.gok⟩

theorem StateOK.setGroup {st : State} (h : StateOK prog V st) (id : Nat) {d : GroupData}
    (hd : GroupOK V d) : StateOK prog V { st with groups := st.groups.setIfInBounds id d } := by
  refine ⟨h.loops, by simp [h.groups], ?_⟩
  intro g gd hg
  simp only [Array.getElem?_setIfInBounds] at hg
  split at hg
  · split at hg
    · cases hg; exact hd
    · cases hg
  · exact h.gok g gd hg

/-! ### `try_backtrack` -/

theorem backLoop_vc (hs : Spec prog inp A V) (hw : wfProg prog = true) (b : Nat) (fwd : Bool) :
    ∀ n st bts, bts.size ≤ n → StateOK prog V st → StackOK prog A V b fwd bts →
      BtPost (Inv prog A V b fwd) (StateOK prog V) (tryBacktrackLoop prog inp fwd n st bts) := by
  intro n
  induction n with
  | zero => intro st bts hn _ hsk; have := hsk.size_pos; omega
  | succ n ih =>
    intro st bts hn hst hsk
    unfold tryBacktrackLoop
    rcases hsk.back with ⟨hb, _⟩ | ⟨r, hb, hr, hsz⟩
    · rw [hb]; exact hst
    · rw [hb]
      have hpop := hsk.pop hsz
      have hpn : bts.pop.size ≤ n := by simp; omega
      cases r with
      | exhausted => exact hr.elim
      | setPosition ip pos => exact ⟨hr.1, hr.2, hst, hpop⟩
      | setLoopData id d =>
        have : id < st.loops.size := by rw [hst.loops]; exact hr
        simp only [this, if_true]
        exact ih _ _ hpn (hst.setLoops id d) hpop
      | setCaptureGroup id d =>
        have : id < st.groups.size := by rw [hst.groups]; exact hr.1
        simp only [this, if_true]
        exact ih _ _ hpn (hst.setGroup id hr.2) hpop
      | enterNonGreedyLoop lip orig d =>
        obtain ⟨⟨id, mn, mx, g, ex, hi⟩, hA, hb'⟩ := hr
        have hwi := wf_insn hw hi
        simp only [wfInsn, Bool.and_eq_true, decide_eq_true_eq] at hwi
        have : id < st.loops.size := by rw [hst.loops]; exact hwi.1.1
        simp only [hi, this, if_true, prepareToEnterLoop]
        refine ⟨hA, hb', hst.setLoops _ _, ?_⟩
        exact (hsk.setTop hsz (r := .setLoopData id _) hwi.1.1).push (r := .setLoopData id d) hwi.1.1
      | greedyLoop1Char k mn mx =>
        obtain ⟨hmn, hmx, hle, hbm, hk⟩ := hr
        by_cases heq : mx = mn
        · simp only [heq, beq_self_eq_true, if_true]
          exact ih _ _ hpn hst hpop
        · have hne : (mx == mn) = false := by simpa using heq
          simp only [hne, Bool.false_eq_true, if_false]
          cases fwd with
          | true =>
            have hlt : mn < mx := by have := hle.1 rfl; omega
            obtain ⟨p, hp, h1, h2, hv⟩ := hs.stepL hmn hmx hlt
            simp only [if_true, hp]
            refine ⟨hk p hv, (MovedLe.fwd ?_), hst, ?_⟩
            · have := hbm.1 rfl; omega
            · exact hsk.setTop hsz (r := .greedyLoop1Char k mn p)
                ⟨hmn, hv, MovedLe.fwd h1, hbm, hk⟩
          | false =>
            have hlt : mx < mn := by have := hle.2 rfl; omega
            obtain ⟨p, hp, h1, h2, hv⟩ := hs.stepR hmx hmn hlt
            simp only [Bool.false_eq_true, if_false, hp]
            refine ⟨hk p hv, (MovedLe.bwd ?_), hst, ?_⟩
            · have := hbm.2 rfl; omega
            · exact hsk.setTop hsz (r := .greedyLoop1Char k mn p)
                ⟨hmn, hv, MovedLe.bwd h2, hbm, hk⟩
      | nonGreedyLoop1Char k mn mx =>
        obtain ⟨hmn, hmx, hle, hbm, hk⟩ := hr
        by_cases heq : mx = mn
        · simp only [heq, beq_self_eq_true, if_true]
          exact ih _ _ hpn hst hpop
        · have hne : (mx == mn) = false := by simpa using heq
          simp only [hne, Bool.false_eq_true, if_false]
          cases fwd with
          | true =>
            have hlt : mn < mx := by have := hle.1 rfl; omega
            obtain ⟨p, hp, h1, h2, hv⟩ := hs.stepR hmn hmx hlt
            simp only [if_true, hp]
            refine ⟨hk p hv, (MovedLe.fwd ?_), hst, ?_⟩
            · have := hbm.1 rfl; omega
            · exact hsk.setTop hsz (r := .nonGreedyLoop1Char k p mx)
                ⟨hv, hmx, MovedLe.fwd h2,
                  MovedLe.fwd (by have := hbm.1 rfl; omega), hk⟩
          | false =>
            have hlt : mx < mn := by have := hle.2 rfl; omega
            obtain ⟨p, hp, h1, h2, hv⟩ := hs.stepL hmx hmn hlt
            simp only [Bool.false_eq_true, if_false, hp]
            refine ⟨hk p hv, (MovedLe.bwd ?_), hst, ?_⟩
            · have := hbm.2 rfl; omega
            · exact hsk.setTop hsz (r := .nonGreedyLoop1Char k p mx)
                ⟨hv, hmx, MovedLe.bwd h1,
                  MovedLe.bwd (by have := hbm.2 rfl; omega), hk⟩

theorem back_vc (hs : Spec prog inp A V) (hw : wfProg prog = true) (b : Nat) (fwd : Bool)
    {st : State} {bts : Array BtInsn} (h : InvB prog A V b fwd st bts) :
    BtPost (Inv prog A V b fwd) (StateOK prog V) (tryBacktrack prog inp fwd st bts) :=
  backLoop_vc hs hw b fwd _ st bts (Nat.le_succ _) h.1 h.2

/-! ### Single-char loops -/

/-- A single-char matcher that is safe on storable positions and moves strictly. -/
def MOK (inp : Input) (V : Nat → Prop) (m : Scm) (fwd : Bool) : Prop :=
  ∀ p, V p → ∃ r, m.matches inp fwd p = .ok r ∧ ∀ p', r = some p' → V p' ∧ Moved fwd p p'

theorem scmExactly_ok {m : Scm} {fwd : Bool} (hm : MOK inp V m fwd) :
    ∀ n pos, V pos → ∃ r, scmExactly m inp fwd n pos = .ok r ∧
      ∀ p', r = some p' → V p' ∧ MovedLe fwd pos p' := by
  intro n
  induction n with
  | zero =>
    intro pos hv
    exact ⟨some pos, rfl, fun p' h => by cases h; exact ⟨hv, MovedLe.refl _ _⟩⟩
  | succ n ih =>
    intro pos hv
    unfold scmExactly
    obtain ⟨r, hr, hp⟩ := hm pos hv
    rw [hr]
    cases r with
    | none => exact ⟨none, rfl, fun p' h => by cases h⟩
    | some p =>
      obtain ⟨hvp, hmv⟩ := hp p rfl
      obtain ⟨r', hr', hp'⟩ := ih p hvp
      exact ⟨r', hr', fun p' h => ⟨(hp' p' h).1, hmv.le.trans (hp' p' h).2⟩⟩

theorem scmUpTo_ok (hs : Spec prog inp A V) {m : Scm} {fwd : Bool} (hm : MOK inp V m fwd) :
    ∀ fuel limit pos, V pos → (fwd = true → inp.len - pos < fuel) → (fwd = false → pos < fuel) →
      ∃ p', scmUpTo m inp fwd fuel limit pos = .ok p' ∧ V p' ∧ MovedLe fwd pos p' := by
  intro fuel
  induction fuel with
  | zero =>
    intro limit pos _ h1 h2
    cases fwd with
    | true => have := h1 rfl; omega
    | false => have := h2 rfl; omega
  | succ fuel ih =>
    intro limit pos hv h1 h2
    unfold scmUpTo
    split
    · exact ⟨pos, rfl, hv, MovedLe.refl _ _⟩
    · obtain ⟨r, hr, hp⟩ := hm pos hv
      rw [hr]
      cases r with
      | none => exact ⟨pos, rfl, hv, MovedLe.refl _ _⟩
      | some p =>
        obtain ⟨hvp, hmv⟩ := hp p rfl
        have hle := hs.v_le hvp
        obtain ⟨p', hr', hv', hm'⟩ := ih (limit.map (· - 1)) p hvp
          (fun f => by have := h1 f; have := hmv.1 f; omega)
          (fun f => by have := h2 f; have := hmv.2 f; omega)
        exact ⟨p', hr', hv', hmv.le.trans hm'⟩

theorem scmUpTo_ok' (hs : Spec prog inp A V) {m : Scm} {fwd : Bool} (hm : MOK inp V m fwd)
    (limit : Option Nat) {pos : Nat} (hv : V pos) :
    ∃ p', scmUpTo m inp fwd (inp.len + 1) limit pos = .ok p' ∧ V p' ∧ MovedLe fwd pos p' :=
  scmUpTo_ok hs hm _ _ _ hv (fun _ => by omega) (fun _ => by have := hs.v_le hv; omega)

theorem runScmLoopImpl_ok (hs : Spec prog inp A V) {m : Scm} {fwd : Bool} (hm : MOK inp V m fwd)
    {pos mn : Nat} {mx : Option Nat} (hv : V pos) (hle : leMax mn mx = true) :
    ∃ r, runScmLoopImpl m inp fwd pos mn mx = .ok r ∧
      ∀ a c, r = some (a, c) → V a ∧ V c ∧ MovedLe fwd pos a ∧ MovedLe fwd a c := by
  unfold runScmLoopImpl
  obtain ⟨r, hr, hp⟩ := scmExactly_ok hm mn pos hv
  rw [hr]
  cases r with
  | none => exact ⟨none, rfl, fun a c h => by cases h⟩
  | some a =>
    obtain ⟨hva, hma⟩ := hp a rfl
    cases mx with
    | none =>
      obtain ⟨c, hc, hvc, hmc⟩ := scmUpTo_ok' hs hm none hva
      simp only [hc]
      exact ⟨_, rfl, fun a' c' h => by cases h; exact ⟨hva, hvc, hma, hmc⟩⟩
    | some mxv =>
      have : ¬ mxv < mn := by simp [leMax] at hle; omega
      obtain ⟨c, hc, hvc, hmc⟩ := scmUpTo_ok' hs hm (some (mxv - mn)) hva
      simp only [this, if_false, hc]
      exact ⟨_, rfl, fun a' c' h => by cases h; exact ⟨hva, hvc, hma, hmc⟩⟩

/-- The five element matchers, from `Spec.elem` transported to storable positions. -/
theorem mok_elem {fwd : Bool} (f : Nat → Bool)
    (hn : ∀ p, V p → ∃ r, Cursor.next inp fwd p = .ok r ∧
      ∀ c p', r = some (c, p') → V p' ∧ Moved fwd p p')
    {m : Scm} (hm : ∀ p, m.matches inp fwd p =
      match Cursor.next inp fwd p with
      | .error e => .error e
      | .ok none => .ok none
      | .ok (some (c, p')) => .ok (if f c then some p' else none)) :
    MOK inp V m fwd := by
  intro p hv
  obtain ⟨r, hr, hp⟩ := hn p hv
  rw [hm, hr]
  cases r with
  | none => exact ⟨none, rfl, fun p' h => by cases h⟩
  | some cp =>
    obtain ⟨c, p'⟩ := cp
    refine ⟨_, rfl, ?_⟩
    intro q hq
    split at hq
    · cases hq; exact hp c _ rfl
    · cases hq

theorem mok_byte {fwd : Bool} (f : Nat → Bool) (bs : List Nat)
    (hn : ∀ p, V p → ∃ r, Cursor.nextByte inp fwd p = .ok r ∧
      ∀ b p', r = some (b, p') → b ∈ bs → V p' ∧ Moved fwd p p')
    (hf : ∀ b, f b = true → b ∈ bs)
    {m : Scm} (hm : ∀ p, m.matches inp fwd p =
      match Cursor.nextByte inp fwd p with
      | .error e => .error e
      | .ok none => .ok none
      | .ok (some (b, p')) => .ok (if f b then some p' else none)) :
    MOK inp V m fwd := by
  intro p hv
  obtain ⟨r, hr, hp⟩ := hn p hv
  rw [hm, hr]
  cases r with
  | none => exact ⟨none, rfl, fun p' h => by cases h⟩
  | some cp =>
    obtain ⟨c, p'⟩ := cp
    refine ⟨_, rfl, ?_⟩
    intro q hq
    split at hq
    · rename_i hfc; cases hq; exact hp c _ rfl (hf c hfc)
    · cases hq

theorem mem_of_byteArraySetContains {bs : List Nat} {b : Nat} (h : byteArraySetContains bs b = true) :
    b ∈ bs := by
  simp only [byteArraySetContains, List.any_eq_true, beq_iff_eq] at h
  obtain ⟨x, hx, rfl⟩ := h; exact hx

theorem mem_of_asciiBitmapContains {bs : List Nat} {b : Nat} (h : asciiBitmapContains bs b = true) :
    b ∈ bs := by
  simp only [asciiBitmapContains, Bool.and_eq_true, List.contains_iff_mem] at h
  exact h.2

/-- The matcher selected for the body of a `loop1` is safe. -/
theorem scmSelect_ok (hs : Spec prog inp A V) (hw : wfProg prog = true) {fwd : Bool} {ip pos : Nat}
    {mn : Nat} {mx : Option Nat} {g : Bool} (hA : A fwd ip pos)
    (hi : prog.insns[ip]? = some (.loop1 mn mx g)) :
    (∃ m, scmSelect prog inp.kind ip = .scm m ∧ MOK inp V m fwd) ∨
      scmSelect prog inp.kind ip = .charNone := by
  have hwi := wf_insn hw hi
  simp only [wfInsn, Bool.and_eq_true, decide_eq_true_eq] at hwi
  obtain ⟨⟨_, _⟩, hbody⟩ := hwi
  have hl := hs.loop1 hA hi
  -- transport of the per-instruction facts at `ip + 1` to `V`
  have hA1 : ∀ p, V p → A fwd (ip + 1) p := fun p hv => ((hl p).2 hv).1
  have hV2 : ∀ p, A fwd (ip + 1 + 1) p → V p := fun p h => (hl p).1.mp h
  cases hb : prog.insns[ip + 1]? with
  | none => rw [hb] at hbody; cases hbody
  | some body =>
    rw [hb] at hbody
    simp only [Bool.and_eq_true] at hbody
    have hwb := wf_insn hw hb
    have hnext : isElem body = true → ∀ p, V p → ∃ r, Cursor.next inp fwd p = .ok r ∧
        ∀ c p', r = some (c, p') → V p' ∧ Moved fwd p p' := by
      intro he p hv
      obtain ⟨r, hr, hp⟩ := hs.elem (hA1 p hv) hb he
      exact ⟨r, hr, fun c p' h => ⟨hV2 _ (hp c p' h).1, (hp c p' h).2⟩⟩
    have hbyte : ∀ bs, (body = .byteSet bs ∨ body = .asciiBracket bs) → ∀ p, V p →
        ∃ r, Cursor.nextByte inp fwd p = .ok r ∧
          ∀ b p', r = some (b, p') → b ∈ bs → V p' ∧ Moved fwd p p' := by
      intro bs hbs p hv
      obtain ⟨r, hr, hp⟩ := hs.byte (bs := bs) (hA1 p hv) (by rcases hbs with h | h <;> simp [hb, h])
      exact ⟨r, hr, fun c p' h hm => ⟨hV2 _ (hp c p' h hm).1, (hp c p' h hm).2⟩⟩
    unfold scmSelect
    rw [hb]
    cases body with
    | char c =>
      simp only
      cases hc : elementTryFrom inp.kind c with
      | none => right; rfl
      | some c' =>
        left
        exact ⟨_, rfl, mok_elem (fun c2 => c2 == c') (hnext rfl) (fun p => rfl)⟩
    | bracket idx =>
      simp only [wfInsn, decide_eq_true_eq] at hwb
      simp only [Array.getElem?_eq_getElem hwb]
      left
      exact ⟨_, rfl, mok_elem (fun c => bracketTest prog.brackets[idx] c) (hnext rfl) (fun p => rfl)⟩
    | asciiBracket bm =>
      left
      exact ⟨_, rfl, mok_byte (fun b => asciiBitmapContains bm b) bm (hbyte bm (Or.inr rfl))
        (fun b h => mem_of_asciiBitmapContains h) (fun p => rfl)⟩
    | matchAny =>
      left
      refine ⟨_, rfl, mok_elem (fun _ => true) (hnext rfl) (fun p => ?_)⟩
      simp only [Scm.matches, if_true]
      cases Cursor.next inp fwd p with
      | error e => rfl
      | ok r =>
        cases r with
        | none => rfl
        | some cp => rfl
    | matchAnyExceptLineTerminator =>
      left
      exact ⟨_, rfl, mok_elem (fun c => !isLineTerminator c) (hnext rfl) (fun p => rfl)⟩
    | charSet cs =>
      left
      exact ⟨_, rfl, mok_elem (fun c => charsetContains cs c) (hnext rfl) (fun p => rfl)⟩
    | byteSet bs =>
      left
      exact ⟨_, rfl, mok_byte (fun b => byteArraySetContains bs b) bs (hbyte bs (Or.inl rfl))
        (fun b h => mem_of_byteArraySetContains h) (fun p => rfl)⟩
    | byteSeq bs =>
      have h6 : 1 ≤ bs.length ∧ bs.length ≤ 6 := by
        have := hbody.1; simp [scmAccepted] at this; exact this
      simp only [h6, and_self, if_true]
      left
      refine ⟨_, rfl, ?_⟩
      intro p hv
      refine ⟨_, rfl, ?_⟩
      intro p' hp'
      have := hs.seq (hA1 p hv) hb hp'
      exact ⟨hV2 _ this.1, this.2⟩
    | _ => simp [scmAccepted] at hbody

theorem withScmLoopImpl_ok (hs : Spec prog inp A V) {fwd : Bool} {ip : Nat}
    (hsel : (∃ m, scmSelect prog inp.kind ip = .scm m ∧ MOK inp V m fwd) ∨
      scmSelect prog inp.kind ip = .charNone)
    {pos mn : Nat} {mx : Option Nat} (hv : V pos) (hle : leMax mn mx = true) :
    ∃ r, withScmLoopImpl prog inp fwd pos mn mx ip = .ok r ∧
      ∀ a c, r = some (a, c) → V a ∧ V c ∧ MovedLe fwd pos a ∧ MovedLe fwd a c := by
  unfold withScmLoopImpl
  rcases hsel with ⟨m, hm, hmok⟩ | hm
  · rw [hm]; exact runScmLoopImpl_ok hs hmok hv hle
  · rw [hm]
    simp only
    split
    · exact ⟨_, rfl, fun a c h => by cases h; exact ⟨hv, hv, MovedLe.refl _ _, MovedLe.refl _ _⟩⟩
    · exact ⟨_, rfl, fun a c h => by cases h⟩

theorem withScmComputeMax_ok (hs : Spec prog inp A V) {fwd : Bool} {ip : Nat}
    (hsel : (∃ m, scmSelect prog inp.kind ip = .scm m ∧ MOK inp V m fwd) ∨
      scmSelect prog inp.kind ip = .charNone)
    {pos : Nat} (limit : Option Nat) (hv : V pos) :
    ∃ p', withScmComputeMax prog inp fwd pos limit ip = .ok p' ∧ V p' ∧ MovedLe fwd pos p' := by
  unfold withScmComputeMax
  rcases hsel with ⟨m, hm, hmok⟩ | hm
  · rw [hm]; exact scmUpTo_ok' hs hmok limit hv
  · rw [hm]; exact ⟨pos, rfl, hv, MovedLe.refl _ _⟩

theorem leMax_self (n : Nat) : leMax n (some n) = true := by simp [leMax]

theorem runScmLoop_ok (hs : Spec prog inp A V) (hw : wfProg prog = true) {b : Nat} {fwd : Bool}
    {ip pos : Nat} {st : State} {bts : Array BtInsn} (h : Inv prog A V b fwd ip pos st bts)
    {mn : Nat} {mx : Option Nat} {g : Bool} (hi : prog.insns[ip]? = some (.loop1 mn mx g)) :
    ∃ r, runScmLoop prog inp fwd bts pos mn mx ip g = .ok r ∧
      ∀ k p bts', r = some (k, p, bts') → Inv prog A V b fwd k p st bts' := by
  obtain ⟨hA, hb, hst, hsk⟩ := h
  have hv : V pos := hs.adm_v hA hi (by intro bs; simp)
  have hsel := scmSelect_ok hs hw hA hi
  have hwi := wf_insn hw hi
  simp only [wfInsn, Bool.and_eq_true, decide_eq_true_eq] at hwi
  have hle := hwi.1.1
  have hl := hs.loop1 hA hi
  unfold runScmLoop
  generalize hmmeq : (if g = true then withScmLoopImpl prog inp fwd pos mn mx ip else _) = mm
  -- the `(min_pos, max_pos)` pair
  have hmm : ∃ r, mm = (.ok r : Except String (Option (Nat × Nat))) ∧
      ∀ a c, r = some (a, c) → V a ∧ V c ∧ MovedLe fwd pos a ∧ MovedLe fwd a c := by
    subst hmmeq
    cases g with
    | true => simp only [if_true]; exact withScmLoopImpl_ok hs hsel hv hle
    | false =>
      simp only [Bool.false_eq_true, if_false]
      obtain ⟨r, hr, hp⟩ := withScmLoopImpl_ok hs hsel hv (leMax_self mn)
      rw [hr]
      cases r with
      | none => exact ⟨none, rfl, fun a c h => by cases h⟩
      | some ac =>
        obtain ⟨a, c0⟩ := ac
        obtain ⟨hva, _, hma, _⟩ := hp a c0 rfl
        simp only
        split
        · obtain ⟨c, hc, hvc, hmc⟩ := withScmComputeMax_ok hs hsel (mx.map (· - mn)) hva
          rw [hc]
          exact ⟨_, rfl, fun a' c' h => by cases h; exact ⟨hva, hvc, hma, hmc⟩⟩
        · exact ⟨_, rfl, fun a' c' h => by cases h; exact ⟨hva, hva, hma, MovedLe.refl _ _⟩⟩
  obtain ⟨r, rfl, hp⟩ := hmm
  cases r with
  | none => exact ⟨none, rfl, fun k p bts' h => by cases h⟩
  | some ac =>
    obtain ⟨a, c⟩ := ac
    obtain ⟨hva, hvc, hma, hmc⟩ := hp a c rfl
    refine ⟨_, rfl, ?_⟩
    intro k p bts' hk
    simp only [Option.some.injEq, Prod.mk.injEq] at hk
    obtain ⟨rfl, rfl, rfl⟩ := hk
    have hk2 : ∀ p, V p → A fwd (ip + 2) p := fun p hv => (hl p).1.mpr hv
    refine ⟨?_, ?_, hst, ?_⟩
    · split
      · exact hk2 _ hvc
      · exact hk2 _ hva
    · split
      · exact hb.trans (hma.trans hmc)
      · exact hb.trans hma
    · split
      · apply hsk.push
        split
        · exact ⟨hva, hvc, hmc, hb.trans hma, hk2⟩
        · exact ⟨hva, hvc, hmc, hb.trans hma, hk2⟩
      · exact hsk

/-! ### One instruction -/

/-- Post-condition of a successful run: the end is a storable position on the right side of the
start, and the state is good. -/
def QMs (prog : Prog) (V : Nat → Prop) (b : Nat) (fwd : Bool) (e : Nat) (st : State) : Prop :=
  V e ∧ MovedLe fwd b e ∧ StateOK prog V st

/-- The verification condition of `run_rule` for the safety invariant. -/
abbrev SVC (prog : Prog) (A : Bool → Nat → Nat → Prop) (V : Nat → Prop) :=
  StepVC (Inv prog A V) (InvB prog A V) (QMs prog V) (fun _ _ st => StateOK prog V st)
    (fun _ _ pos _ _ _ _ => pos)

theorem nextOrBt_vc {b : Nat} {fwd : Bool} {ip pos : Nat} {st : State} {bts : Array BtInsn}
    (h : Inv prog A V b fwd ip pos st bts) {r : Except Unit (Option Nat)} (site : String)
    (hr : ∃ r', r = .ok r' ∧ ∀ p, r' = some p → A fwd (ip + 1) p ∧ MovedLe fwd pos p) :
    SVC prog A V b fwd ip pos st bts (nextOrBt r site ip st bts) := by
  obtain ⟨r', rfl, hp⟩ := hr
  cases r' with
  | none => exact ⟨h.2.2.1, h.2.2.2⟩
  | some p => exact ⟨(hp p rfl).1, h.2.1.trans (hp p rfl).2, h.2.2.1, h.2.2.2⟩

theorem peekIs_ok {r : Except Unit (Option Nat)} (f : Nat → Bool) (h : ∃ r', r = .ok r') :
    ∃ v, peekIs r f = .ok v := by
  obtain ⟨r', rfl⟩ := h
  cases r' with
  | none => exact ⟨_, rfl⟩
  | some c => exact ⟨_, rfl⟩

theorem getElem?_of_lt {α} {a : Array α} {i : Nat} (h : i < a.size) : ∃ x, a[i]? = some x :=
  ⟨a[i], Array.getElem?_eq_getElem h⟩

theorem groupAct_vc {b : Nat} {fwd : Bool} {ip pos : Nat} {st : State} {bts : Array BtInsn}
    (h : Inv prog A V b fwd ip pos st bts) {g : Nat} (hg : g < prog.groups) (site : String)
    (hA' : A fwd (ip + 1) pos) {upd : GroupData → GroupData}
    (hupd : ∀ cg, GroupOK V cg → GroupOK V (upd cg)) :
    SVC prog A V b fwd ip pos st bts (groupAct g upd site ip pos st bts) := by
  obtain ⟨hA, hb, hst, hsk⟩ := h
  obtain ⟨cg, hcg⟩ := getElem?_of_lt (a := st.groups) (i := g) (by rw [hst.groups]; exact hg)
  unfold groupAct
  rw [hcg]
  have hok := hst.gok g cg hcg
  exact ⟨hA', hb, hst.setGroup g (hupd cg hok), hsk.push (r := .setCaptureGroup g cg) ⟨hg, hok⟩⟩

theorem runLoop_vc {b : Nat} {fwd : Bool} {pos : Nat} {st : State} {bts : Array BtInsn}
    (hst : StateOK prog V st) (hsk : StackOK prog A V b fwd bts) (hb : MovedLe fwd b pos)
    {lip id mn : Nat} {mx : Option Nat} {gr : Bool} {exit : Nat}
    (hi : prog.insns[lip]? = some (.enterLoop id mn mx gr exit)) (hid : id < prog.loops)
    (hA1 : A fwd (lip + 1) pos) (hA2 : A fwd exit pos) (ip0 : Nat) (st0 : State)
    (bts0 : Array BtInsn) :
    SVC prog A V b fwd ip0 pos st0 bts0
      (match runLoop st bts id mn mx gr exit pos lip with
        | .err e => .err e
        | .ok (some nextIp) st bts => .cont nextIp pos st bts
        | .ok none st bts => .back st bts) := by
  obtain ⟨ld, hld⟩ := getElem?_of_lt (a := st.loops) (i := id) (by rw [hst.loops]; exact hid)
  unfold runLoop
  simp only [hld]
  cases h1 : (ld.entry == pos && decide (ld.iters > mn)) with
  | true => simp only [if_true]; exact ⟨hst, hsk⟩
  | false =>
    simp only [Bool.false_eq_true, if_false]
    cases hT : ltMax ld.iters mx <;> cases hN : decide (ld.iters ≥ mn) <;> simp only []
    · exact ⟨hst, hsk⟩
    · exact ⟨hA2, hb, hst, hsk⟩
    · simp only [prepareToEnterLoop]
      exact ⟨hA1, hb, hst.setLoops _ _, hsk.push (r := .setLoopData id ld) hid⟩
    · cases gr with
      | false =>
        simp only [Bool.not_false, if_true]
        exact ⟨hA2, hb, hst.setLoops _ _,
          hsk.push (r := .enterNonGreedyLoop lip ld.entry { ld with entry := pos })
            ⟨⟨_, _, _, _, _, hi⟩, hA1, hb⟩⟩
      | true =>
        simp only [Bool.not_true, Bool.false_eq_true, if_false, prepareToEnterLoop]
        exact ⟨hA1, hb, hst.setLoops _ _,
          (hsk.push (r := .setPosition exit pos) ⟨hA2, hb⟩).push (r := .setLoopData id ld) hid⟩

theorem pushSavedGroups_ok {b : Nat} {fwd : Bool} :
    ∀ (saved : List GroupData) (id : Nat) (bts : Array BtInsn),
      (∀ cg ∈ saved, GroupOK V cg) → id + saved.length ≤ prog.groups →
      StackOK prog A V b fwd bts → StackOK prog A V b fwd (pushSavedGroups saved id bts) := by
  intro saved
  induction saved with
  | nil => intro id bts _ _ h; exact h
  | cons cg rest ih =>
    intro id bts hok hlen h
    unfold pushSavedGroups
    simp only [List.length_cons] at hlen
    exact ih (id + 1) _ (fun c hc => hok c (by simp [hc])) (by omega)
      (h.push (r := .setCaptureGroup id cg) ⟨by omega, hok cg (by simp)⟩)

theorem spliceGroups_ok :
    ∀ (saved : List GroupData) (id : Nat) (gs : Array GroupData),
      (∀ cg ∈ saved, GroupOK V cg) → (∀ (g : Nat) (gd : GroupData), gs[g]? = some gd → GroupOK V gd) →
      (spliceGroups saved id gs).size = gs.size ∧
      ∀ (g : Nat) (gd : GroupData), (spliceGroups saved id gs)[g]? = some gd → GroupOK V gd := by
  intro saved
  induction saved with
  | nil => intro id gs _ h; exact ⟨rfl, h⟩
  | cons cg rest ih =>
    intro id gs hok h
    unfold spliceGroups
    have := ih (id + 1) (gs.setIfInBounds id cg) (fun c hc => hok c (by simp [hc])) (by
      intro g gd hg
      simp only [Array.getElem?_setIfInBounds] at hg
      split at hg
      · split at hg
        · cases hg; exact hok cg (by simp)
        · cases hg
      · exact h g gd hg)
    exact ⟨by rw [this.1]; simp, this.2⟩

theorem StateOK.splice {st st' : State} (h : StateOK prog V st) (h' : StateOK prog V st')
    (sg eg : Nat) :
    StateOK prog V { st' with groups := spliceGroups (st.groups.extract sg eg).toList sg st'.groups } := by
  have hsaved : ∀ cg ∈ (st.groups.extract sg eg).toList, GroupOK V cg := by
    intro cg hcg
    rw [Array.mem_toList_iff, Array.mem_iff_getElem?] at hcg
    obtain ⟨i, hi⟩ := hcg
    rw [Array.getElem?_extract] at hi
    split at hi
    · exact h.gok _ _ hi
    · cases hi
  have := spliceGroups_ok (V := V) _ sg st'.groups hsaved h'.gok
  exact ⟨h'.loops, by rw [← h'.groups]; exact this.1, this.2⟩

/-- The hypothesis under which the `backref_icase` site is safe at a configuration: the referenced
range is not inverted. -/
def IcaseOrdered (prog : Prog) (ip : Nat) (st : State) : Prop :=
  ∀ (g : Nat) (gd : GroupData) (rs re : Nat), prog.insns[ip]? = some (.backRef g true) →
    st.groups[g]? = some gd → gd.asRange = some (rs, re) → rs ≤ re

theorem step_vc (hs : Spec prog inp A V) (hw : wfProg prog = true) {b : Nat} {fwd : Bool}
    {ip pos : Nat} {st : State} {bts : Array BtInsn} (h : Inv prog A V b fwd ip pos st bts)
    (hord : IcaseOrdered prog ip st) :
    SVC prog A V b fwd ip pos st bts (step prog inp ip pos fwd st bts) := by
  have hI := h
  obtain ⟨hA, hb, hst, hsk⟩ := h
  obtain ⟨insn, hi⟩ := getElem?_of_lt (hs.ip_lt hA)
  have hwi := wf_insn hw hi
  have hctrl := hs.ctrl hA hi
  have hB : InvB prog A V b fwd st bts := ⟨hst, hsk⟩
  have helem : isElem insn = true → ∀ (f : Nat → Bool) (site : String),
      SVC prog A V b fwd ip pos st bts (nextOrBt
        (match Cursor.next inp fwd pos with
          | .error e => .error e
          | .ok none => .ok none
          | .ok (some (c, p)) => .ok (if f c then some p else none)) site ip st bts) := by
    intro he f site
    apply nextOrBt_vc hI
    obtain ⟨r, hr, hp⟩ := hs.elem hA hi he
    rw [hr]
    cases r with
    | none => exact ⟨none, rfl, fun p h => by cases h⟩
    | some cp =>
      obtain ⟨c, p⟩ := cp
      refine ⟨_, rfl, ?_⟩
      intro q hq
      split at hq
      · cases hq; exact ⟨(hp c _ rfl).1, (hp c _ rfl).2.le⟩
      · cases hq
  have hbyte : ∀ bs, (insn = .byteSet bs ∨ insn = .asciiBracket bs) → ∀ (f : Nat → Bool) (site : String),
      (∀ x, f x = true → x ∈ bs) →
      SVC prog A V b fwd ip pos st bts (nextOrBt
        (match Cursor.nextByte inp fwd pos with
          | .error e => .error e
          | .ok none => .ok none
          | .ok (some (c, p)) => .ok (if f c then some p else none)) site ip st bts) := by
    intro bs hbs f site hf
    apply nextOrBt_vc hI
    obtain ⟨r, hr, hp⟩ := hs.byte (bs := bs) hA (by rcases hbs with h | h <;> simp [hi, h])
    rw [hr]
    cases r with
    | none => exact ⟨none, rfl, fun p h => by cases h⟩
    | some cp =>
      obtain ⟨c, p⟩ := cp
      refine ⟨_, rfl, ?_⟩
      intro q hq
      split at hq
      · rename_i hfc; cases hq; exact ⟨(hp c _ rfl (hf c hfc)).1, (hp c _ rfl (hf c hfc)).2.le⟩
      · cases hq
  have hpeek : (∀ bs, insn ≠ .byteSeq bs) →
      (∃ r, inp.peekLeft pos = .ok r) ∧ (∃ r, inp.peekRight pos = .ok r) :=
    fun hn => hs.peek (hs.adm_v hA hi hn)
  unfold step
  rw [hi]
  cases insn with
  | goal => exact ⟨hs.adm_v hA hi (by intro bs; simp), hb, hst⟩
  | justFail => exact hB
  | char c =>
    simp only
    cases hc : elementTryFrom inp.kind c with
    | none => exact hB
    | some c' => exact helem rfl (fun c2 => c2 == c') _
  | charSet cs => exact helem rfl (fun c => charsetContains cs c) _
  | matchAny =>
    have := helem rfl (fun _ => true) "try_at_pos: MatchAny input read out of range"
    simp only [if_true] at this
    simp only [Scm.matches]
    exact this
  | matchAnyExceptLineTerminator => exact helem rfl (fun c => !isLineTerminator c) _
  | bracket idx =>
    simp only [wfInsn, decide_eq_true_eq] at hwi
    simp only [Array.getElem?_eq_getElem hwi]
    exact helem rfl (fun c => bracketTest prog.brackets[idx] c) _
  | byteSet bs =>
    exact hbyte bs (Or.inl rfl) (fun x => byteArraySetContains bs x) _ (fun x h => mem_of_byteArraySetContains h)
  | asciiBracket bm =>
    exact hbyte bm (Or.inr rfl) (fun x => asciiBitmapContains bm x) _ (fun x h => mem_of_asciiBitmapContains h)
  | byteSeq bs =>
    apply nextOrBt_vc hI
    refine ⟨_, rfl, ?_⟩
    intro p hp
    have := hs.seq hA hi hp
    exact ⟨this.1, this.2.le⟩
  | wordBoundary inv =>
    obtain ⟨⟨l, hl⟩, ⟨r, hr⟩⟩ := hpeek (by intro bs; simp)
    simp only [wordBoundaryAct]
    obtain ⟨v1, h1⟩ := peekIs_ok isWordChar ⟨l, hl⟩
    obtain ⟨v2, h2⟩ := peekIs_ok isWordChar ⟨r, hr⟩
    rw [h1, h2]
    simp only
    split
    · exact ⟨hctrl _ (by simp [ctrlSuccs]), hb, hst, hsk⟩
    · exact hB
  | wordBoundaryUnicodeICase inv =>
    obtain ⟨⟨l, hl⟩, ⟨r, hr⟩⟩ := hpeek (by intro bs; simp)
    simp only [wordBoundaryAct]
    obtain ⟨v1, h1⟩ := peekIs_ok isWordCharUnicodeIcase ⟨l, hl⟩
    obtain ⟨v2, h2⟩ := peekIs_ok isWordCharUnicodeIcase ⟨r, hr⟩
    rw [h1, h2]
    simp only
    split
    · exact ⟨hctrl _ (by simp [ctrlSuccs]), hb, hst, hsk⟩
    · exact hB
  | startOfLine ml =>
    obtain ⟨⟨l, hl⟩, _⟩ := hpeek (by intro bs; simp)
    simp only [lineAct, hl]
    have hn : A fwd (ip + 1) pos := hctrl _ (by simp [ctrlSuccs])
    cases l with
    | none => exact ⟨hn, hb, hst, hsk⟩
    | some c =>
      simp only
      split
      · exact ⟨hn, hb, hst, hsk⟩
      · exact hB
  | endOfLine ml =>
    obtain ⟨_, ⟨l, hl⟩⟩ := hpeek (by intro bs; simp)
    simp only [lineAct, hl]
    have hn : A fwd (ip + 1) pos := hctrl _ (by simp [ctrlSuccs])
    cases l with
    | none => exact ⟨hn, hb, hst, hsk⟩
    | some c =>
      simp only
      split
      · exact ⟨hn, hb, hst, hsk⟩
      · exact hB
  | jump t => exact ⟨hctrl _ (by simp [ctrlSuccs]), hb, hst, hsk⟩
  | beginCaptureGroup g =>
    simp only [wfInsn, decide_eq_true_eq] at hwi
    have hv := hs.adm_v hA hi (by intro bs; simp)
    refine groupAct_vc hI hwi _ (hctrl _ (by simp [ctrlSuccs])) ?_
    intro cg hcg
    split
    · exact ⟨fun s h => by cases h; exact hv, hcg.2⟩
    · exact ⟨hcg.1, fun s h => by cases h; exact hv⟩
  | endCaptureGroup g =>
    simp only [wfInsn, decide_eq_true_eq] at hwi
    have hv := hs.adm_v hA hi (by intro bs; simp)
    refine groupAct_vc hI hwi _ (hctrl _ (by simp [ctrlSuccs])) ?_
    intro cg hcg
    split
    · exact ⟨hcg.1, fun s h => by cases h; exact hv⟩
    · exact ⟨fun s h => by cases h; exact hv, hcg.2⟩
  | resetCaptureGroup g =>
    simp only [wfInsn, decide_eq_true_eq] at hwi
    refine groupAct_vc hI hwi _ (hctrl _ (by simp [ctrlSuccs])) ?_
    intro cg _
    exact ⟨fun s h => (by cases h), fun s h => (by cases h)⟩
  | backRef g ic =>
    simp only [wfInsn, decide_eq_true_eq] at hwi
    obtain ⟨cg, hcg⟩ := getElem?_of_lt (a := st.groups) (i := g) (by rw [hst.groups]; exact hwi)
    simp only [hcg]
    have hok := hst.gok g cg hcg
    cases hr : cg.asRange with
    | none => exact ⟨hctrl _ (by simp [ctrlSuccs]), hb, hst, hsk⟩
    | some rr =>
      obtain ⟨rs, re⟩ := rr
      have hrs : V rs ∧ V re := by
        unfold GroupData.asRange at hr
        split at hr
        · rename_i s e h1 h2; cases hr; exact ⟨hok.1 _ h1, hok.2 _ h2⟩
        · cases hr
      simp only
      cases ic with
      | true =>
        simp only [if_true]
        apply nextOrBt_vc hI
        exact hs.backrefI hA hi hrs.1 hrs.2 (hord g cg rs re hi hcg hr)
      | false =>
        simp only [Bool.false_eq_true, if_false]
        apply nextOrBt_vc hI
        exact ⟨_, rfl, fun p hp => hs.backref hA hi hrs.1 hrs.2 hp⟩
  | lookahead neg sg eg k =>
    simp only [wfInsn] at hwi
    obtain ⟨h1, h2, _, _⟩ := wfLook_spec hwi
    refine ⟨rfl, rfl, h1, by rw [hst.groups]; exact h2,
      ⟨(hs.look hA).1 hi, MovedLe.refl _ _, hst, stackOK_init _ _⟩, ?_, ?_⟩
    · intro e st' hq
      have hk : A fwd k pos := hctrl _ (by simp [ctrlSuccs])
      cases neg with
      | false =>
        simp only [if_true]
        refine ⟨hk, hb, hq.2.2, pushSavedGroups_ok _ _ _ ?_ ?_ hsk⟩
        · intro cg hcg
          rw [Array.mem_toList_iff, Array.mem_iff_getElem?] at hcg
          obtain ⟨i, hi'⟩ := hcg
          rw [Array.getElem?_extract] at hi'
          split at hi'
          · exact hst.gok _ _ hi'
          · cases hi'
        · simp only [Array.length_toList, Array.size_extract, hst.groups]; omega
      | true =>
        simp only [Bool.true_eq_false, if_false]
        exact ⟨hst.splice hq.2.2 sg eg, hsk⟩
    · intro st' hq
      have hk : A fwd k pos := hctrl _ (by simp [ctrlSuccs])
      cases neg with
      | true => simp only [if_true]; exact ⟨hk, hb, hst.splice hq sg eg, hsk⟩
      | false => simp only [Bool.false_eq_true, if_false]; exact ⟨hst.splice hq sg eg, hsk⟩
  | lookbehind neg sg eg k =>
    simp only [wfInsn] at hwi
    obtain ⟨h1, h2, _, _⟩ := wfLook_spec hwi
    refine ⟨rfl, rfl, h1, by rw [hst.groups]; exact h2,
      ⟨(hs.look hA).2 hi, MovedLe.refl _ _, hst, stackOK_init _ _⟩, ?_, ?_⟩
    · intro e st' hq
      have hk : A fwd k pos := hctrl _ (by simp [ctrlSuccs])
      cases neg with
      | false =>
        simp only [if_true]
        refine ⟨hk, hb, hq.2.2, pushSavedGroups_ok _ _ _ ?_ ?_ hsk⟩
        · intro cg hcg
          rw [Array.mem_toList_iff, Array.mem_iff_getElem?] at hcg
          obtain ⟨i, hi'⟩ := hcg
          rw [Array.getElem?_extract] at hi'
          split at hi'
          · exact hst.gok _ _ hi'
          · cases hi'
        · simp only [Array.length_toList, Array.size_extract, hst.groups]; omega
      | true =>
        simp only [Bool.true_eq_false, if_false]
        exact ⟨hst.splice hq.2.2 sg eg, hsk⟩
    · intro st' hq
      have hk : A fwd k pos := hctrl _ (by simp [ctrlSuccs])
      cases neg with
      | true => simp only [if_true]; exact ⟨hk, hb, hst.splice hq sg eg, hsk⟩
      | false => simp only [Bool.false_eq_true, if_false]; exact ⟨hst.splice hq sg eg, hsk⟩
  | alt s =>
    exact ⟨hctrl _ (by simp [ctrlSuccs]), hb, hst,
      hsk.push (r := .setPosition s pos) ⟨hctrl _ (by simp [ctrlSuccs]), hb⟩⟩
  | enterLoop id mn mx gr exit =>
    simp only [wfInsn, Bool.and_eq_true, decide_eq_true_eq] at hwi
    obtain ⟨ld, hld⟩ := getElem?_of_lt (a := st.loops) (i := id) (by rw [hst.loops]; exact hwi.1.1)
    simp only [hld]
    exact runLoop_vc (hst.setLoops _ _) (hsk.push (r := .setLoopData id ld) hwi.1.1) hb hi hwi.1.1
      (hctrl _ (by simp [ctrlSuccs])) (hctrl _ (by simp [ctrlSuccs])) ip st bts
  | loopAgain bg =>
    simp only [wfInsn] at hwi
    cases hbg : prog.insns[bg]? with
    | none => rw [hbg] at hwi; cases hwi
    | some bi =>
      cases bi with
      | enterLoop id mn mx gr exit =>
        simp only [hbg]
        have hwb := wf_insn hw hbg
        simp only [wfInsn, Bool.and_eq_true, decide_eq_true_eq] at hwb
        exact runLoop_vc hst hsk hb hbg hwb.1.1
          (hctrl _ (by simp [ctrlSuccs, hbg])) (hctrl _ (by simp [ctrlSuccs, hbg])) ip st bts
      | _ => rw [hbg] at hwi; cases hwi
  | loop1 mn mx g =>
    obtain ⟨r, hr, hp⟩ := runScmLoop_ok hs hw hI hi
    simp only [hr]
    cases r with
    | none => exact hB
    | some t =>
      obtain ⟨k, p, bts'⟩ := t
      exact hp k p bts' rfl

/-- **Safety of the backtracking executor, generic form.** From any configuration satisfying the
invariant, `run` never reaches an error site; a match ends at a storable position weakly after the
start position `b` (in the direction of the run) and leaves a good state; a failure leaves a good
state. -/
theorem run_safe (hs : Spec prog inp A V) (hw : wfProg prog = true)
    (hnb : noIcaseBackref prog = true) (limit : Nat) :
    ∀ sf b ip pos fwd st bts steps peak, Inv prog A V b fwd ip pos st bts →
      Post (QMs prog V b fwd) (StateOK prog V) (run prog inp limit sf ip pos fwd st bts steps peak) :=
  run_rule prog inp (Inv prog A V) (InvB prog A V) (QMs prog V) (fun _ _ st => StateOK prog V st)
    (fun _ _ pos _ _ _ _ => pos)
    (fun _ _ ip _ _ _ h => step_vc hs hw h
      (fun g' _ _ _ hi => absurd hi (noIcaseBackref_spec hnb ip g')))
    (fun g fwd _ _ h => back_vc hs hw g fwd h) limit

end Inv

/-! ## Frame property and restoration of the capture groups after a failed attempt -/

section Frame

/-- Undo the capture-group records of a stack (top first). -/
def unwindG : List BtInsn → Array GroupData → Array GroupData
  | [], gs => gs
  | .setCaptureGroup id d :: rest, gs => unwindG rest (gs.setIfInBounds id d)
  | _ :: rest, gs => unwindG rest gs

theorem unwindG_append (l1 l2 : List BtInsn) (gs : Array GroupData) :
    unwindG (l1 ++ l2) gs = unwindG l2 (unwindG l1 gs) := by
  induction l1 generalizing gs with
  | nil => rfl
  | cons r l1 ih => cases r <;> simp only [List.cons_append, unwindG, ih]

theorem unwindG_size (l : List BtInsn) (gs : Array GroupData) : (unwindG l gs).size = gs.size := by
  induction l generalizing gs with
  | nil => rfl
  | cons r l ih => cases r <;> simp only [unwindG, ih, Array.size_setIfInBounds]

/-- The records an instruction may push. -/
def RecFrom (prog : Prog) (ip : Nat) (insn : Insn) : BtInsn → Prop
  | .exhausted => False
  | .setPosition t _ => t ∈ allSuccs prog ip insn
  | .setLoopData _ _ => True
  | .setCaptureGroup id _ => groupOf insn = some id
  | .enterNonGreedyLoop lip _ _ => lip + 1 ∈ allSuccs prog ip insn
  | .greedyLoop1Char c _ _ => c ∈ allSuccs prog ip insn
  | .nonGreedyLoop1Char c _ _ => c ∈ allSuccs prog ip insn

/-- `(st', bts')` extends `(st, bts)` by records whose undoing restores the groups of `st`. -/
def Ext (prog : Prog) (ip : Nat) (insn : Insn) (st : State) (bts : Array BtInsn) (st' : State)
    (bts' : Array BtInsn) : Prop :=
  ∃ recs, bts'.toList = bts.toList ++ recs ∧ unwindG recs.reverse st'.groups = st.groups ∧
    st'.groups.size = st.groups.size ∧
    (∀ g : Nat, groupOf insn ≠ some g → st'.groups[g]? = st.groups[g]?) ∧
    ∀ r ∈ recs, RecFrom prog ip insn r

theorem Ext.refl (prog : Prog) (ip : Nat) (insn : Insn) (st : State) (bts : Array BtInsn) :
    Ext prog ip insn st bts st bts :=
  ⟨[], by simp, rfl, rfl, fun _ _ => rfl, fun r h => by cases h⟩

/-- What one instruction does to the groups and to the stack. -/
def StepFrame (prog : Prog) (ip : Nat) (insn : Insn) (st : State) (bts : Array BtInsn) : Act → Prop
  | .err _ => True
  | .goal _ st' => st' = st
  | .cont ip' _ st' bts' => ip' ∈ allSuccs prog ip insn ∧ Ext prog ip insn st bts st' bts'
  | .back st' bts' => Ext prog ip insn st bts st' bts'
  | .look _ neg sg eg k _ _ => insn = .lookahead neg sg eg k ∨ insn = .lookbehind neg sg eg k

variable {prog : Prog} {inp : Input}

theorem nextOrBt_frameS {ip : Nat} {insn : Insn} (h1 : ip + 1 ∈ allSuccs prog ip insn)
    (r : Except Unit (Option Nat)) (site : String) (st : State) (bts : Array BtInsn) :
    StepFrame prog ip insn st bts (nextOrBt r site ip st bts) := by
  unfold nextOrBt
  split
  · trivial
  · exact Ext.refl _ _ _ _ _
  · exact ⟨h1, Ext.refl _ _ _ _ _⟩

theorem setIfInBounds_self {α} (a : Array α) (i : Nat) (x y : α) (h : a[i]? = some y) :
    (a.setIfInBounds i x).setIfInBounds i y = a := by
  apply Array.ext_getElem?
  intro j
  simp only [Array.getElem?_setIfInBounds, Array.size_setIfInBounds]
  split
  · rename_i hij; subst hij
    have hlt := lt_of_getElem?_eq_some h
    rw [if_pos hlt, h]
  · rfl

theorem groupAct_frameS {ip : Nat} {insn : Insn} (h1 : ip + 1 ∈ allSuccs prog ip insn) {g : Nat}
    (hg : groupOf insn = some g) (upd : GroupData → GroupData) (site : String) (pos : Nat)
    (st : State) (bts : Array BtInsn) :
    StepFrame prog ip insn st bts (groupAct g upd site ip pos st bts) := by
  unfold groupAct
  cases hcg : st.groups[g]? with
  | none => trivial
  | some cg =>
    refine ⟨h1, [.setCaptureGroup g cg], by simp, ?_, by simp, ?_, ?_⟩
    · simp only [List.reverse_cons, List.reverse_nil, List.nil_append, unwindG]
      exact setIfInBounds_self _ _ _ _ hcg
    · intro g' hg'
      have : g ≠ g' := fun h => hg' (h ▸ hg)
      simp [this]
    · intro r hr
      simp only [List.mem_singleton] at hr
      subst hr
      exact hg

theorem runLoop_frameS {ip : Nat} {insn : Insn} (st : State) (bts : Array BtInsn) (id mn : Nat)
    (mx : Option Nat) (gr : Bool) (exit pos lip : Nat) (_hn : groupOf insn = none)
    (h1 : lip + 1 ∈ allSuccs prog ip insn) (h2 : exit ∈ allSuccs prog ip insn)
    (st0 : State) (bts0 : Array BtInsn) (hext : Ext prog ip insn st0 bts0 st bts) :
    StepFrame prog ip insn st0 bts0
      (match runLoop st bts id mn mx gr exit pos lip with
        | .err e => .err e
        | .ok (some nextIp) st bts => .cont nextIp pos st bts
        | .ok none st bts => .back st bts) := by
  obtain ⟨recs, hr1, hr2, hr3, hr4, hr5⟩ := hext
  -- pushing records that do not touch the groups
  have push : ∀ (st' : State) (new : List BtInsn), st'.groups = st.groups →
      (∀ r ∈ new, RecFrom prog ip insn r ∧ ∀ id d, r ≠ .setCaptureGroup id d) →
      ∀ bts' : Array BtInsn, bts'.toList = bts.toList ++ new →
      Ext prog ip insn st0 bts0 st' bts' := by
    intro st' new hg hnew bts' hb
    refine ⟨recs ++ new, by rw [hb, hr1, List.append_assoc], ?_, by rw [hg]; exact hr3,
      by rw [hg]; exact hr4, ?_⟩
    · rw [List.reverse_append, unwindG_append, hg]
      have : unwindG new.reverse st.groups = st.groups := by
        have hnr : ∀ r ∈ new.reverse, ∀ id d, r ≠ .setCaptureGroup id d :=
          fun r hr => (hnew r (List.mem_reverse.mp hr)).2
        generalize new.reverse = l at hnr
        induction l with
        | nil => rfl
        | cons r l ih =>
          have hl := ih (fun r' hr' => hnr r' (List.mem_cons_of_mem _ hr'))
          cases r <;> first
            | exact absurd rfl (hnr _ (List.mem_cons_self) _ _)
            | (simp only [unwindG]; exact hl)
      rw [this]; exact hr2
    · intro r hr
      rcases List.mem_append.mp hr with h | h
      · exact hr5 r h
      · exact (hnew r h).1
  unfold runLoop
  cases hld : st.loops[id]? with
  | none => trivial
  | some ld =>
    simp only
    cases (ld.entry == pos && decide (ld.iters > mn)) with
    | true => simp only [if_true]; exact push st [] rfl (fun r h => by cases h) bts (by simp)
    | false =>
      simp only [Bool.false_eq_true, if_false]
      cases ltMax ld.iters mx <;> cases decide (ld.iters ≥ mn) <;> simp only []
      · exact push st [] rfl (fun r h => by cases h) bts (by simp)
      · exact ⟨h2, push st [] rfl (fun r h => by cases h) bts (by simp)⟩
      · simp only [prepareToEnterLoop]
        refine ⟨h1, push _ [.setLoopData id ld] rfl ?_ _ (by simp)⟩
        intro r hr; simp only [List.mem_singleton] at hr; subst hr
        exact ⟨trivial, fun _ _ h => by cases h⟩
      · cases gr with
        | false =>
          simp only [Bool.not_false, if_true]
          refine ⟨h2, push _ [.enterNonGreedyLoop lip ld.entry { ld with entry := pos }] rfl ?_ _
            (by simp)⟩
          intro r hr; simp only [List.mem_singleton] at hr; subst hr
          exact ⟨h1, fun _ _ h => by cases h⟩
        | true =>
          simp only [Bool.not_true, Bool.false_eq_true, if_false, prepareToEnterLoop]
          refine ⟨h1, push _ [.setPosition exit pos, .setLoopData id ld] rfl ?_ _ (by simp)⟩
          intro r hr
          simp only [List.mem_cons, List.not_mem_nil, or_false] at hr
          rcases hr with rfl | rfl
          · exact ⟨h2, fun _ _ h => by cases h⟩
          · exact ⟨trivial, fun _ _ h => by cases h⟩

theorem step_frameS {ip : Nat} {insn : Insn} (hi : prog.insns[ip]? = some insn) (pos : Nat)
    (fwd : Bool) (st : State) (bts : Array BtInsn) :
    StepFrame prog ip insn st bts (step prog inp ip pos fwd st bts) := by
  unfold step
  rw [hi]
  cases insn with
  | goal => rfl
  | justFail => exact Ext.refl _ _ _ _ _
  | char c =>
    simp only
    split
    · exact nextOrBt_frameS (by simp [allSuccs]) _ _ _ _
    · exact Ext.refl _ _ _ _ _
  | charSet cs => exact nextOrBt_frameS (by simp [allSuccs]) _ _ _ _
  | byteSet bs => exact nextOrBt_frameS (by simp [allSuccs]) _ _ _ _
  | byteSeq bs => exact nextOrBt_frameS (by simp [allSuccs]) _ _ _ _
  | asciiBracket bm => exact nextOrBt_frameS (by simp [allSuccs]) _ _ _ _
  | bracket idx =>
    simp only
    split
    · trivial
    · exact nextOrBt_frameS (by simp [allSuccs]) _ _ _ _
  | matchAny => exact nextOrBt_frameS (by simp [allSuccs]) _ _ _ _
  | matchAnyExceptLineTerminator => exact nextOrBt_frameS (by simp [allSuccs]) _ _ _ _
  | wordBoundary inv =>
    simp only [wordBoundaryAct]
    split
    · trivial
    · split
      · trivial
      · split
        · exact ⟨by simp [allSuccs], Ext.refl _ _ _ _ _⟩
        · exact Ext.refl _ _ _ _ _
  | wordBoundaryUnicodeICase inv =>
    simp only [wordBoundaryAct]
    split
    · trivial
    · split
      · trivial
      · split
        · exact ⟨by simp [allSuccs], Ext.refl _ _ _ _ _⟩
        · exact Ext.refl _ _ _ _ _
  | startOfLine ml =>
    simp only [lineAct]
    split
    · trivial
    · exact ⟨by simp [allSuccs], Ext.refl _ _ _ _ _⟩
    · split
      · exact ⟨by simp [allSuccs], Ext.refl _ _ _ _ _⟩
      · exact Ext.refl _ _ _ _ _
  | endOfLine ml =>
    simp only [lineAct]
    split
    · trivial
    · exact ⟨by simp [allSuccs], Ext.refl _ _ _ _ _⟩
    · split
      · exact ⟨by simp [allSuccs], Ext.refl _ _ _ _ _⟩
      · exact Ext.refl _ _ _ _ _
  | jump t => exact ⟨by simp [allSuccs], Ext.refl _ _ _ _ _⟩
  | beginCaptureGroup g => exact groupAct_frameS (by simp [allSuccs]) rfl _ _ _ _ _
  | endCaptureGroup g => exact groupAct_frameS (by simp [allSuccs]) rfl _ _ _ _ _
  | resetCaptureGroup g => exact groupAct_frameS (by simp [allSuccs]) rfl _ _ _ _ _
  | backRef g ic =>
    simp only
    split
    · trivial
    · split
      · split
        · exact nextOrBt_frameS (by simp [allSuccs]) _ _ _ _
        · exact nextOrBt_frameS (by simp [allSuccs]) _ _ _ _
      · exact ⟨by simp [allSuccs], Ext.refl _ _ _ _ _⟩
  | lookahead neg sg eg k => exact Or.inl rfl
  | lookbehind neg sg eg k => exact Or.inr rfl
  | alt sec =>
    refine ⟨by simp [allSuccs], [.setPosition sec pos], by simp, rfl, rfl, fun _ _ => rfl, ?_⟩
    intro r hr; simp only [List.mem_singleton] at hr; subst hr
    simp [RecFrom, allSuccs]
  | enterLoop id mn mx gr exit =>
    simp only
    cases hld : st.loops[id]? with
    | none => trivial
    | some ld =>
      simp only
      refine runLoop_frameS _ _ id mn mx gr exit pos ip rfl (by simp [allSuccs]) (by simp [allSuccs])
        st bts ⟨[.setLoopData id ld], by simp, rfl, rfl, fun _ _ => rfl, ?_⟩
      intro r hr; simp only [List.mem_singleton] at hr; subst hr; trivial
  | loopAgain bg =>
    simp only
    cases hbg : prog.insns[bg]? with
    | none => trivial
    | some bi =>
      cases bi <;> first
        | trivial
        | exact runLoop_frameS st bts _ _ _ _ _ pos bg rfl (by simp [allSuccs, hbg])
            (by simp [allSuccs, hbg]) st bts (Ext.refl _ _ _ _ _)
  | loop1 mn mx g =>
    simp only
    cases hr : runScmLoop prog inp fwd bts pos mn mx ip g with
    | error e => trivial
    | ok r =>
      cases r with
      | none => exact Ext.refl _ _ _ _ _
      | some t =>
        obtain ⟨k, p, bts'⟩ := t
        simp only
        unfold runScmLoop at hr
        simp only at hr
        split at hr
        · cases hr
        · cases hr
        · rename_i mnp mxp heq
          simp only [Except.ok.injEq, Option.some.injEq, Prod.mk.injEq] at hr
          obtain ⟨rfl, _, rfl⟩ := hr
          refine ⟨by simp [allSuccs], ?_⟩
          split
          · refine ⟨[if g = true then .greedyLoop1Char (ip + 2) mnp mxp
                else .nonGreedyLoop1Char (ip + 2) mnp mxp], by simp, ?_, rfl, fun _ _ => rfl, ?_⟩
            · cases g <;> rfl
            · intro r hr; simp only [List.mem_singleton] at hr; subst hr
              cases g <;> simp [RecFrom, allSuccs]
          · exact Ext.refl _ _ _ _ _

/-! ### Positions: every instruction moves weakly in the direction of the run -/

theorem scmExactly_moves {m : Scm} {fwd : Bool} :
    ∀ n pos p, scmExactly m inp fwd n pos = .ok (some p) → MovedLe fwd pos p := by
  intro n
  induction n with
  | zero => intro pos p h; simp only [scmExactly, Except.ok.injEq, Option.some.injEq] at h; subst h; exact MovedLe.refl _ _
  | succ n ih =>
    intro pos p h
    unfold scmExactly at h
    split at h
    · cases h
    · cases h
    · rename_i hm; exact (scm_moves hm).trans (ih _ _ h)

theorem scmUpTo_moves {m : Scm} {fwd : Bool} :
    ∀ fuel limit pos p, scmUpTo m inp fwd fuel limit pos = .ok p → MovedLe fwd pos p := by
  intro fuel
  induction fuel with
  | zero => intro limit pos p h; simp [scmUpTo] at h
  | succ fuel ih =>
    intro limit pos p h
    unfold scmUpTo at h
    split at h
    · simp only [Except.ok.injEq] at h; subst h; exact MovedLe.refl _ _
    · split at h
      · cases h
      · simp only [Except.ok.injEq] at h; subst h; exact MovedLe.refl _ _
      · rename_i hm; exact (scm_moves hm).trans (ih _ _ _ h)

theorem runScmLoopImpl_moves {m : Scm} {fwd : Bool} {pos mn : Nat} {mx : Option Nat} {a c : Nat}
    (h : runScmLoopImpl m inp fwd pos mn mx = .ok (some (a, c))) :
    MovedLe fwd pos a ∧ MovedLe fwd a c := by
  unfold runScmLoopImpl at h
  split at h
  · cases h
  · cases h
  · rename_i minPos he
    simp only at h
    split at h
    · cases h
    · split at h
      · cases h
      · rename_i maxPos hu
        simp only [Except.ok.injEq, Option.some.injEq, Prod.mk.injEq] at h
        obtain ⟨rfl, rfl⟩ := h
        exact ⟨scmExactly_moves _ _ _ he, scmUpTo_moves _ _ _ _ hu⟩

theorem withScmLoopImpl_moves {fwd : Bool} {pos mn : Nat} {mx : Option Nat} {ip a c : Nat}
    (h : withScmLoopImpl prog inp fwd pos mn mx ip = .ok (some (a, c))) :
    MovedLe fwd pos a ∧ MovedLe fwd a c := by
  unfold withScmLoopImpl at h
  split at h
  · exact runScmLoopImpl_moves h
  · split at h
    · simp only [Except.ok.injEq, Option.some.injEq, Prod.mk.injEq] at h
      obtain ⟨rfl, rfl⟩ := h
      exact ⟨MovedLe.refl _ _, MovedLe.refl _ _⟩
    · cases h
  · cases h
  · cases h
  · cases h

theorem withScmComputeMax_moves {fwd : Bool} {pos : Nat} {limit : Option Nat} {ip p : Nat}
    (h : withScmComputeMax prog inp fwd pos limit ip = .ok p) : MovedLe fwd pos p := by
  unfold withScmComputeMax at h
  split at h
  · exact scmUpTo_moves _ _ _ _ h
  · simp only [Except.ok.injEq] at h; subst h; exact MovedLe.refl _ _
  · cases h
  · cases h
  · cases h

/-- Shape of a successful `run_scm_loop`. -/
theorem runScmLoop_shape {fwd : Bool} {bts : Array BtInsn} {pos mn : Nat} {mx : Option Nat}
    {ip : Nat} {g : Bool} {k p : Nat} {bts' : Array BtInsn}
    (h : runScmLoop prog inp fwd bts pos mn mx ip g = .ok (some (k, p, bts'))) :
    k = ip + 2 ∧ MovedLe fwd pos p ∧
      (bts' = bts ∨ ∃ a c, MovedLe fwd pos a ∧
        (bts' = bts.push (.greedyLoop1Char (ip + 2) a c) ∨
         bts' = bts.push (.nonGreedyLoop1Char (ip + 2) a c))) := by
  unfold runScmLoop at h
  simp only at h
  split at h
  · cases h
  · cases h
  · rename_i a c hmm
    simp only [Except.ok.injEq, Option.some.injEq, Prod.mk.injEq] at h
    obtain ⟨rfl, rfl, rfl⟩ := h
    have hac : MovedLe fwd pos a ∧ MovedLe fwd a c := by
      cases g with
      | true => simp only [if_true] at hmm; exact withScmLoopImpl_moves hmm
      | false =>
        simp only [Bool.false_eq_true, if_false] at hmm
        split at hmm
        · cases hmm
        · cases hmm
        · rename_i a0 c0 hw
          have h1 := (withScmLoopImpl_moves hw).1
          split at hmm
          · split at hmm
            · cases hmm
            · rename_i mp hc
              simp only [Except.ok.injEq, Option.some.injEq, Prod.mk.injEq] at hmm
              obtain ⟨rfl, rfl⟩ := hmm
              exact ⟨h1, withScmComputeMax_moves hc⟩
          · simp only [Except.ok.injEq, Option.some.injEq, Prod.mk.injEq] at hmm
            obtain ⟨rfl, rfl⟩ := hmm
            exact ⟨h1, MovedLe.refl _ _⟩
    refine ⟨rfl, ?_, ?_⟩
    · cases g
      · simp only [Bool.false_eq_true, if_false]; exact hac.1
      · simp only [if_true]; exact hac.1.trans hac.2
    · split
      · right
        refine ⟨a, c, hac.1, ?_⟩
        cases g
        · right; simp
        · left; simp
      · left; rfl

/-- Positional content of a freshly pushed record. -/
def RecPos (fwd : Bool) (pos : Nat) : BtInsn → Prop
  | .setPosition _ p => p = pos
  | .enterNonGreedyLoop _ _ d => d.entry = pos
  | .greedyLoop1Char _ mn _ => MovedLe fwd pos mn
  | .nonGreedyLoop1Char _ mn _ => MovedLe fwd pos mn
  | _ => True

/-- All records by which `bts'` extends `bts` satisfy `RecPos`. -/
def NewRecs (fwd : Bool) (pos : Nat) (bts bts' : Array BtInsn) : Prop :=
  ∀ recs, bts'.toList = bts.toList ++ recs → ∀ r ∈ recs, RecPos fwd pos r

theorem NewRecs.of {fwd : Bool} {pos : Nat} {bts bts' : Array BtInsn} (l : List BtInsn)
    (h : bts'.toList = bts.toList ++ l) (hl : ∀ r ∈ l, RecPos fwd pos r) : NewRecs fwd pos bts bts' := by
  intro recs hr r hmem
  rw [h] at hr
  have := List.append_cancel_left hr
  subst this
  exact hl r hmem

theorem NewRecs.refl (fwd : Bool) (pos : Nat) (bts : Array BtInsn) : NewRecs fwd pos bts bts :=
  NewRecs.of [] (by simp) (fun r h => by cases h)

/-- Positional effect of one instruction. -/
def StepPos (fwd : Bool) (pos : Nat) (bts : Array BtInsn) : Act → Prop
  | .cont _ pos' _ bts' => MovedLe fwd pos pos' ∧ NewRecs fwd pos bts bts'
  | .back _ bts' => NewRecs fwd pos bts bts'
  | _ => True

theorem nextOrBt_pos {fwd : Bool} {pos : Nat} {r : Except Unit (Option Nat)}
    (hr : ∀ p, r = .ok (some p) → MovedLe fwd pos p) (site : String) (ip : Nat) (st : State)
    (bts : Array BtInsn) : StepPos fwd pos bts (nextOrBt r site ip st bts) := by
  unfold nextOrBt
  split
  · trivial
  · exact NewRecs.refl _ _ _
  · exact ⟨hr _ rfl, NewRecs.refl _ _ _⟩

theorem runLoop_pos {fwd : Bool} (st : State) (bts : Array BtInsn) (id mn : Nat) (mx : Option Nat)
    (gr : Bool) (exit pos lip : Nat) (bts0 : Array BtInsn) (l0 : List BtInsn)
    (h0 : bts.toList = bts0.toList ++ l0) (hl0 : ∀ r ∈ l0, RecPos fwd pos r) :
    StepPos fwd pos bts0
      (match runLoop st bts id mn mx gr exit pos lip with
        | .err e => .err e
        | .ok (some nextIp) st bts => .cont nextIp pos st bts
        | .ok none st bts => .back st bts) := by
  have ext : ∀ (new : List BtInsn) (bts' : Array BtInsn), bts'.toList = bts.toList ++ new →
      (∀ r ∈ new, RecPos fwd pos r) → NewRecs fwd pos bts0 bts' := by
    intro new bts' hb hn
    refine NewRecs.of (l0 ++ new) (by rw [hb, h0, List.append_assoc]) ?_
    intro r hr
    rcases List.mem_append.mp hr with h | h
    · exact hl0 r h
    · exact hn r h
  unfold runLoop
  cases hld : st.loops[id]? with
  | none => trivial
  | some ld =>
    simp only
    cases (ld.entry == pos && decide (ld.iters > mn)) with
    | true => simp only [if_true]; exact ext [] bts (by simp) (fun r h => by cases h)
    | false =>
      simp only [Bool.false_eq_true, if_false]
      cases ltMax ld.iters mx <;> cases decide (ld.iters ≥ mn) <;> simp only []
      · exact ext [] bts (by simp) (fun r h => by cases h)
      · exact ⟨MovedLe.refl _ _, ext [] bts (by simp) (fun r h => by cases h)⟩
      · simp only [prepareToEnterLoop]
        refine ⟨MovedLe.refl _ _, ext [.setLoopData id ld] _ (by simp) ?_⟩
        intro r hr; simp only [List.mem_singleton] at hr; subst hr; trivial
      · cases gr with
        | false =>
          simp only [Bool.not_false, if_true]
          refine ⟨MovedLe.refl _ _,
            ext [.enterNonGreedyLoop lip ld.entry { ld with entry := pos }] _ (by simp) ?_⟩
          intro r hr; simp only [List.mem_singleton] at hr; subst hr; rfl
        | true =>
          simp only [Bool.not_true, Bool.false_eq_true, if_false, prepareToEnterLoop]
          refine ⟨MovedLe.refl _ _, ext [.setPosition exit pos, .setLoopData id ld] _ (by simp) ?_⟩
          intro r hr
          simp only [List.mem_cons, List.not_mem_nil, or_false] at hr
          rcases hr with rfl | rfl
          · rfl
          · trivial

theorem step_pos (ip pos : Nat) (fwd : Bool) (st : State) (bts : Array BtInsn) :
    StepPos fwd pos bts (step prog inp ip pos fwd st bts) := by
  have same : MovedLe fwd pos pos ∧ NewRecs fwd pos bts bts := ⟨MovedLe.refl _ _, NewRecs.refl _ _ _⟩
  unfold step
  cases hi : prog.insns[ip]? with
  | none => trivial
  | some insn =>
    cases insn with
    | goal => trivial
    | justFail => exact NewRecs.refl _ _ _
    | char c =>
      simp only
      split
      · exact nextOrBt_pos (fun p h => scm_moves h) _ _ _ _
      · exact NewRecs.refl _ _ _
    | charSet cs => exact nextOrBt_pos (fun p h => scm_moves h) _ _ _ _
    | byteSet bs => exact nextOrBt_pos (fun p h => scm_moves h) _ _ _ _
    | byteSeq bs =>
      refine nextOrBt_pos (fun p h => ?_) _ _ _ _
      simp only [Except.ok.injEq, Cursor.tryMatchLit, Input.matchBytes] at h
      exact matchBytes_moves h
    | asciiBracket bm => exact nextOrBt_pos (fun p h => scm_moves h) _ _ _ _
    | bracket idx =>
      simp only
      split
      · trivial
      · exact nextOrBt_pos (fun p h => scm_moves h) _ _ _ _
    | matchAny => exact nextOrBt_pos (fun p h => scm_moves h) _ _ _ _
    | matchAnyExceptLineTerminator => exact nextOrBt_pos (fun p h => scm_moves h) _ _ _ _
    | wordBoundary inv =>
      simp only [wordBoundaryAct]
      split
      · trivial
      · split
        · trivial
        · split
          · exact same
          · exact NewRecs.refl _ _ _
    | wordBoundaryUnicodeICase inv =>
      simp only [wordBoundaryAct]
      split
      · trivial
      · split
        · trivial
        · split
          · exact same
          · exact NewRecs.refl _ _ _
    | startOfLine ml =>
      simp only [lineAct]
      split
      · trivial
      · exact same
      · split
        · exact same
        · exact NewRecs.refl _ _ _
    | endOfLine ml =>
      simp only [lineAct]
      split
      · trivial
      · exact same
      · split
        · exact same
        · exact NewRecs.refl _ _ _
    | jump t => exact same
    | beginCaptureGroup g =>
      simp only [groupAct]
      split
      · trivial
      · rename_i cg _
        exact ⟨MovedLe.refl _ _, NewRecs.of [.setCaptureGroup g cg] (by simp) (fun r hr => by
          simp only [List.mem_singleton] at hr; subst hr; trivial)⟩
    | endCaptureGroup g =>
      simp only [groupAct]
      split
      · trivial
      · rename_i cg _
        exact ⟨MovedLe.refl _ _, NewRecs.of [.setCaptureGroup g cg] (by simp) (fun r hr => by
          simp only [List.mem_singleton] at hr; subst hr; trivial)⟩
    | resetCaptureGroup g =>
      simp only [groupAct]
      split
      · trivial
      · rename_i cg _
        exact ⟨MovedLe.refl _ _, NewRecs.of [.setCaptureGroup g cg] (by simp) (fun r hr => by
          simp only [List.mem_singleton] at hr; subst hr; trivial)⟩
    | backRef g ic =>
      simp only
      split
      · trivial
      · split
        · split
          · exact nextOrBt_pos (fun p h => backrefIcase_moves h) _ _ _ _
          · refine nextOrBt_pos (fun p h => ?_) _ _ _ _
            simp only [Except.ok.injEq] at h
            exact backref_moves h
        · exact same
    | lookahead neg sg eg k => trivial
    | lookbehind neg sg eg k => trivial
    | alt sec =>
      exact ⟨MovedLe.refl _ _, NewRecs.of [.setPosition sec pos] (by simp) (fun r hr => by
        simp only [List.mem_singleton] at hr; subst hr; rfl)⟩
    | enterLoop id mn mx gr exit =>
      simp only
      cases hld : st.loops[id]? with
      | none => trivial
      | some ld =>
        simp only
        exact runLoop_pos _ _ id mn mx gr exit pos ip bts [.setLoopData id ld] (by simp)
          (fun r hr => by simp only [List.mem_singleton] at hr; subst hr; trivial)
    | loopAgain bg =>
      simp only
      cases hbg : prog.insns[bg]? with
      | none => trivial
      | some bi =>
        cases bi <;> first
          | trivial
          | exact runLoop_pos st bts _ _ _ _ _ pos bg bts [] (by simp) (fun r hr => by cases hr)
    | loop1 mn mx g =>
      simp only
      cases hr : runScmLoop prog inp fwd bts pos mn mx ip g with
      | error e => trivial
      | ok r =>
        cases r with
        | none => exact NewRecs.refl _ _ _
        | some t =>
          obtain ⟨k, p, bts'⟩ := t
          obtain ⟨_, hmv, hb⟩ := runScmLoop_shape hr
          refine ⟨hmv, ?_⟩
          rcases hb with rfl | ⟨a, c, hma, rfl | rfl⟩
          · exact NewRecs.refl _ _ _
          · exact NewRecs.of [.greedyLoop1Char (ip + 2) a c] (by simp) (fun r hr => by
              simp only [List.mem_singleton] at hr; subst hr; exact hma)
          · exact NewRecs.of [.nonGreedyLoop1Char (ip + 2) a c] (by simp) (fun r hr => by
              simp only [List.mem_singleton] at hr; subst hr; exact hma)

/-! ### Regions: a look-around body and the capture groups it owns -/

/-- Instructions `[lo, hi)`, groups `[gs, ge)`. -/
structure SRegion where
  lo : Nat
  hi : Nat
  gs : Nat
  ge : Nat

/-- `none` is the top-level run (no restriction). -/
def InR : Option SRegion → Nat → Prop
  | none, _ => True
  | some r, ip => r.lo ≤ ip ∧ ip < r.hi

def GInR : Option SRegion → Nat → Prop
  | none, _ => True
  | some r, g => r.gs ≤ g ∧ g < r.ge

/-- Instruction `j` of a region keeps the run inside the region and writes only groups of the
region (also through nested look-arounds). -/
def insnClosed (prog : Prog) (r : SRegion) (j : Nat) (insn : Insn) : Bool :=
  (allSuccs prog j insn).all (fun t => r.lo ≤ t && t < r.hi) &&
  (match groupOf insn with
   | some g => r.gs ≤ g && g < r.ge
   | none => true) &&
  (match insn with
   | .lookahead _ sg eg _ => r.gs ≤ sg && eg ≤ r.ge
   | .lookbehind _ sg eg _ => r.gs ≤ sg && eg ≤ r.ge
   | _ => true)

def bodyClosed (prog : Prog) (r : SRegion) : Bool :=
  (List.range (r.hi - r.lo)).all (fun d =>
    match prog.insns[r.lo + d]? with
    | some insn => insnClosed prog r (r.lo + d) insn
    | none => true)

/-- **`lookConfined`**: the body `(ip, continuation)` of every look-around is non-empty, closed
under control flow, and writes only the groups `start_group..end_group` of the look-around. -/
def lookConfined (prog : Prog) : Bool :=
  (List.range prog.insns.size).all (fun ip =>
    match prog.insns[ip]? with
    | some (.lookahead _ sg eg k) => ip + 1 < k && bodyClosed prog ⟨ip + 1, k, sg, eg⟩
    | some (.lookbehind _ sg eg k) => ip + 1 < k && bodyClosed prog ⟨ip + 1, k, sg, eg⟩
    | _ => true)

def RClosed (prog : Prog) : Option SRegion → Prop
  | none => True
  | some r => bodyClosed prog r = true

theorem rclosed_spec {R : Option SRegion} (hc : RClosed prog R) {ip : Nat} {insn : Insn}
    (hin : InR R ip) (hi : prog.insns[ip]? = some insn) :
    (∀ t ∈ allSuccs prog ip insn, InR R t) ∧ (∀ g, groupOf insn = some g → GInR R g) ∧
    (∀ neg sg eg k, (insn = .lookahead neg sg eg k ∨ insn = .lookbehind neg sg eg k) →
      ∀ g, sg ≤ g → g < eg → GInR R g) := by
  cases R with
  | none => exact ⟨fun _ _ => trivial, fun _ _ => trivial, fun _ _ _ _ _ _ _ _ => trivial⟩
  | some r =>
    simp only [RClosed, bodyClosed, List.all_eq_true, List.mem_range] at hc
    obtain ⟨h1, h2⟩ := hin
    have := hc (ip - r.lo) (by omega)
    rw [show r.lo + (ip - r.lo) = ip by omega, hi] at this
    simp only [insnClosed, Bool.and_eq_true, List.all_eq_true, decide_eq_true_eq] at this
    obtain ⟨⟨hs, hg⟩, hl⟩ := this
    refine ⟨fun t ht => hs t ht, ?_, ?_⟩
    · intro g hgo; rw [hgo] at hg; simp only [Bool.and_eq_true, decide_eq_true_eq] at hg; exact hg
    · intro neg sg eg k hins g h1 h2
      rcases hins with rfl | rfl <;> (simp only [Bool.and_eq_true, decide_eq_true_eq] at hl; exact ⟨by omega, by omega⟩)

theorem lookConfined_spec (hlc : lookConfined prog = true) {ip : Nat} {neg : Bool} {sg eg k : Nat}
    {insn : Insn} (hi : prog.insns[ip]? = some insn)
    (hins : insn = .lookahead neg sg eg k ∨ insn = .lookbehind neg sg eg k) :
    ip + 1 < k ∧ RClosed prog (some ⟨ip + 1, k, sg, eg⟩) := by
  simp only [lookConfined, List.all_eq_true, List.mem_range] at hlc
  have := hlc ip (lt_of_getElem?_eq_some hi)
  rw [hi] at this
  rcases hins with rfl | rfl <;>
    (simp only [Bool.and_eq_true, decide_eq_true_eq] at this; exact this)

/-! ### The restoration invariant -/

def recInS (R : Option SRegion) : BtInsn → Prop
  | .exhausted => False
  | .setPosition ip _ => InR R ip
  | .setLoopData _ _ => True
  | .setCaptureGroup id _ => GInR R id
  | .enterNonGreedyLoop ip _ _ => InR R (ip + 1)
  | .greedyLoop1Char c _ _ => InR R c
  | .nonGreedyLoop1Char c _ _ => InR R c

/-- `gs` has the size of `G0` and agrees with it on the groups not owned by the region. -/
def AgreeOut (R : Option SRegion) (gs G0 : Array GroupData) : Prop :=
  gs.size = G0.size ∧ ∀ g : Nat, ¬ GInR R g → gs[g]? = G0[g]?

/-- Stack shape and contents for the restoration proof: undoing the whole stack yields the groups
`G0` with which the run was started. -/
def RStack (R : Option SRegion) (G0 : Array GroupData) (st : State) (bts : Array BtInsn) : Prop :=
  ∃ rest, bts.toList = .exhausted :: rest ∧ (∀ r ∈ rest, recInS R r) ∧
    unwindG rest.reverse st.groups = G0 ∧ AgreeOut R st.groups G0

def RInv (prog : Prog) (γ : Option SRegion × Array GroupData) (_fwd : Bool) (ip _pos : Nat)
    (st : State) (bts : Array BtInsn) : Prop :=
  RClosed prog γ.1 ∧ InR γ.1 ip ∧ RStack γ.1 γ.2 st bts

def RInvB (prog : Prog) (γ : Option SRegion × Array GroupData) (_fwd : Bool)
    (st : State) (bts : Array BtInsn) : Prop :=
  RClosed prog γ.1 ∧ RStack γ.1 γ.2 st bts

theorem RStack.ext {R : Option SRegion} {G0 : Array GroupData} {st st' : State}
    {bts bts' : Array BtInsn} {ip : Nat} {insn : Insn} (h : RStack R G0 st bts)
    (hext : Ext prog ip insn st bts st' bts')
    (hs : ∀ t ∈ allSuccs prog ip insn, InR R t) (hg : ∀ g, groupOf insn = some g → GInR R g) :
    RStack R G0 st' bts' := by
  obtain ⟨rest, hb, hrec, hun, hag⟩ := h
  obtain ⟨recs, h1, h2, h3, h4, h5⟩ := hext
  refine ⟨rest ++ recs, by rw [h1, hb]; rfl, ?_, ?_, ?_⟩
  · intro r hr
    rcases List.mem_append.mp hr with h | h
    · exact hrec r h
    · have := h5 r h
      cases r with
      | exhausted => exact this
      | setPosition t _ => exact hs t this
      | setLoopData _ _ => trivial
      | setCaptureGroup id _ => exact hg id this
      | enterNonGreedyLoop lip _ _ => exact hs _ this
      | greedyLoop1Char c _ _ => exact hs c this
      | nonGreedyLoop1Char c _ _ => exact hs c this
  · rw [List.reverse_append, unwindG_append, h2]; exact hun
  · refine ⟨by rw [h3]; exact hag.1, ?_⟩
    intro g hgn
    rw [h4 g (fun hh => hgn (hg g hh))]
    exact hag.2 g hgn

/-! `restoreG`: the effect of undoing the records pushed by `pushSavedGroups`. -/

def restoreG : List GroupData → Nat → Array GroupData → Array GroupData
  | [], _, gs => gs
  | cg :: rest, id, gs => (restoreG rest (id + 1) gs).setIfInBounds id cg

theorem pushSavedGroups_toList : ∀ (saved : List GroupData) (id : Nat) (bts : Array BtInsn),
    ∃ recs, (pushSavedGroups saved id bts).toList = bts.toList ++ recs ∧
      (∀ r ∈ recs, ∃ i d, r = .setCaptureGroup i d ∧ id ≤ i ∧ i < id + saved.length) ∧
      ∀ gs, unwindG recs.reverse gs = restoreG saved id gs := by
  intro saved
  induction saved with
  | nil => intro id bts; exact ⟨[], by simp [pushSavedGroups], fun r h => (by cases h), fun gs => rfl⟩
  | cons cg rest ih =>
    intro id bts
    obtain ⟨recs, h1, h2, h3⟩ := ih (id + 1) (bts.push (.setCaptureGroup id cg))
    refine ⟨.setCaptureGroup id cg :: recs, by simp [pushSavedGroups, h1], ?_, ?_⟩
    · intro r hr
      rcases List.mem_cons.mp hr with rfl | hr
      · exact ⟨id, cg, rfl, Nat.le_refl _, by simp⟩
      · obtain ⟨i, d, rfl, ha, hb⟩ := h2 r hr
        exact ⟨i, d, rfl, by omega, by simp only [List.length_cons]; omega⟩
    · intro gs
      rw [List.reverse_cons, unwindG_append, h3]
      rfl

theorem restoreG_getElem? : ∀ (saved : List GroupData) (id : Nat) (gs : Array GroupData) (g : Nat),
    (restoreG saved id gs)[g]? =
      if id ≤ g ∧ g < id + saved.length ∧ g < gs.size then saved[g - id]? else gs[g]? := by
  intro saved
  induction saved with
  | nil => intro id gs g; simp [restoreG]; omega
  | cons cg rest ih =>
    intro id gs g
    have hsz : ∀ (l : List GroupData) (i : Nat), (restoreG l i gs).size = gs.size := by
      intro l
      induction l with
      | nil => intro i; rfl
      | cons c l ihl => intro i; simp [restoreG, ihl]
    simp only [restoreG, Array.getElem?_setIfInBounds, hsz, ih, List.length_cons]
    by_cases h : id = g
    · subst h
      by_cases h2 : id < gs.size
      · simp [h2]
      · simp only [h2, if_false, if_true]
        rw [Array.getElem?_eq_none (by omega)]
        simp
    · simp only [h, if_false]
      by_cases h3 : id + 1 ≤ g ∧ g < id + 1 + rest.length ∧ g < gs.size
      · have : id ≤ g ∧ g < id + (rest.length + 1) ∧ g < gs.size := by omega
        simp only [h3, this, and_self, if_true]
        rw [show g - id = (g - (id + 1)) + 1 by omega, List.getElem?_cons_succ]
      · have : ¬ (id ≤ g ∧ g < id + (rest.length + 1) ∧ g < gs.size) := by omega
        simp only [h3, this, if_false]

theorem spliceGroups_getElemS? : ∀ (saved : List GroupData) (id : Nat) (gs : Array GroupData) (g : Nat),
    (spliceGroups saved id gs)[g]? =
      if id ≤ g ∧ g < id + saved.length ∧ g < gs.size then saved[g - id]? else gs[g]? := by
  intro saved
  induction saved with
  | nil => intro id gs g; simp [spliceGroups]; omega
  | cons cg rest ih =>
    intro id gs g
    simp only [spliceGroups, ih, Array.size_setIfInBounds, Array.getElem?_setIfInBounds,
      List.length_cons]
    by_cases h : id = g
    · subst h
      have : ¬ (id + 1 ≤ id ∧ id < id + 1 + rest.length ∧ id < gs.size) := by omega
      simp only [this, if_false, if_true]
      by_cases h2 : id < gs.size
      · simp [h2]
      · simp [h2]
    · simp only [h, if_false]
      by_cases h3 : id + 1 ≤ g ∧ g < id + 1 + rest.length ∧ g < gs.size
      · have : id ≤ g ∧ g < id + (rest.length + 1) ∧ g < gs.size := by omega
        simp only [h3, this, and_self, if_true]
        rw [show g - id = (g - (id + 1)) + 1 by omega, List.getElem?_cons_succ]
      · have : ¬ (id ≤ g ∧ g < id + (rest.length + 1) ∧ g < gs.size) := by omega
        simp only [h3, this, if_false]

/-- Writing back the saved slice into an array that differs from the original only inside the slice
gives back the original. -/
theorem restore_eq {G gs : Array GroupData} {sg eg : Nat} (hle : sg ≤ eg) (heg : eg ≤ G.size)
    (hsz : gs.size = G.size) (hag : ∀ g : Nat, ¬ (sg ≤ g ∧ g < eg) → gs[g]? = G[g]?)
    (f : List GroupData → Nat → Array GroupData → Array GroupData)
    (hf : ∀ saved id gs g, (f saved id gs)[g]? =
      if id ≤ g ∧ g < id + saved.length ∧ g < gs.size then saved[g - id]? else gs[g]?) :
    f (G.extract sg eg).toList sg gs = G := by
  apply Array.ext_getElem?
  intro g
  rw [hf]
  have hlen : (G.extract sg eg).toList.length = eg - sg := by simp; omega
  rw [hlen]
  by_cases h : sg ≤ g ∧ g < sg + (eg - sg) ∧ g < gs.size
  · simp only [h, and_self, if_true, Array.getElem?_toList, Array.getElem?_extract]
    have : g - sg < min eg G.size - sg := by omega
    simp only [this, if_true]
    congr 1; omega
  · simp only [h, if_false]
    by_cases h2 : g < gs.size
    · exact hag g (by omega)
    · rw [Array.getElem?_eq_none (by omega), Array.getElem?_eq_none (by omega)]

theorem arr_snoc {α} {bts : Array α} {l : List α} {top : α} (h : bts.toList = l ++ [top]) :
    bts.back? = some top ∧ bts.pop.toList = l ∧
    ∀ x, (bts.setIfInBounds (bts.size - 1) x).toList = l ++ [x] := by
  have : bts = (l ++ [top]).toArray := by rw [← h]
  subst this
  refine ⟨by simp, by simp, ?_⟩
  intro x
  simp

/-- The ghost state of a nested look-around run: its body region and the groups at its start. -/
def rnest (_ : Option SRegion × Array GroupData) (ip _pos : Nat) (st : State) (sg eg k : Nat) :
    Option SRegion × Array GroupData :=
  (some ⟨ip + 1, k, sg, eg⟩, st.groups)

def RQM (γ : Option SRegion × Array GroupData) (_fwd : Bool) (_e : Nat) (st : State) : Prop :=
  AgreeOut γ.1 st.groups γ.2

def RQF (γ : Option SRegion × Array GroupData) (_fwd : Bool) (st : State) : Prop := st.groups = γ.2

theorem RStack.congr {R : Option SRegion} {G0 : Array GroupData} {st st' : State} {bts : Array BtInsn}
    (h : RStack R G0 st bts) (hg : st'.groups = st.groups) : RStack R G0 st' bts := by
  obtain ⟨rest, h1, h2, h3, h4⟩ := h
  exact ⟨rest, h1, h2, by rw [hg]; exact h3, by rw [hg]; exact h4⟩

theorem rstep_vc (hlc : lookConfined prog = true) {γ : Option SRegion × Array GroupData} {fwd : Bool}
    {ip pos : Nat} {st : State} {bts : Array BtInsn} (h : RInv prog γ fwd ip pos st bts) :
    StepVCE (RInv prog) (RInvB prog) RQM RQF rnest True γ fwd ip pos st bts
      (step prog inp ip pos fwd st bts) := by
  obtain ⟨hc, hin, hstk⟩ := h
  cases hi : prog.insns[ip]? with
  | none => unfold step; rw [hi]; trivial
  | some insn =>
    have hf := step_frameS (inp := inp) hi pos fwd st bts
    obtain ⟨hs, hg, hl⟩ := rclosed_spec hc hin hi
    cases hact : step prog inp ip pos fwd st bts with
    | err e => trivial
    | goal p st' =>
      rw [hact] at hf
      obtain ⟨rest, _, _, _, hag⟩ := hstk
      have : st' = st := hf
      subst this
      exact hag
    | cont ip' pos' st' bts' =>
      rw [hact] at hf
      exact ⟨hc, hs _ hf.1, hstk.ext hf.2 hs hg⟩
    | back st' bts' =>
      rw [hact] at hf
      exact ⟨hc, hstk.ext hf hs hg⟩
    | look d neg sg eg k st1 bts1 =>
      rw [hact] at hf
      have hsb : st1 = st ∧ bts1 = bts := by
        unfold step at hact
        rw [hi] at hact
        rcases hf with rfl | rfl <;> (simp only [Act.look.injEq] at hact; exact ⟨hact.2.2.2.2.2.1.symm, hact.2.2.2.2.2.2.symm⟩)
      refine ⟨hsb.1, hsb.2, fun _ => trivial, fun hguard => ?_⟩
      obtain ⟨hlt, hc'⟩ := lookConfined_spec hlc hi hf
      have hk : InR γ.1 k := hs k (by rcases hf with rfl | rfl <;> simp [allSuccs])
      have hgr : ∀ g, sg ≤ g → g < eg → GInR γ.1 g := hl neg sg eg k hf
      have hlen : (st.groups.extract sg eg).toList.length = eg - sg := by simp; omega
      refine ⟨⟨hc', ⟨Nat.le_refl _, hlt⟩,
        [], rfl, fun r hr => (by cases hr), rfl, rfl, fun _ _ => rfl⟩, ?_, ?_⟩
      · intro e st' hq
        obtain ⟨hsz, hag'⟩ := hq
        have hag'' : ∀ g : Nat, ¬ (sg ≤ g ∧ g < eg) → st'.groups[g]? = st.groups[g]? := hag'
        cases neg with
        | false =>
          simp only [if_true]
          refine ⟨hc, hk, ?_⟩
          obtain ⟨rest, hb, hrec, hun, hag⟩ := hstk
          obtain ⟨recs, h1, h2, h3⟩ := pushSavedGroups_toList (st.groups.extract sg eg).toList sg bts
          refine ⟨rest ++ recs, by rw [h1, hb]; rfl, ?_, ?_, ?_⟩
          · intro r hr
            rcases List.mem_append.mp hr with h | h
            · exact hrec r h
            · obtain ⟨i, dd, rfl, ha, hb'⟩ := h2 r h
              exact hgr i ha (by omega)
          · rw [List.reverse_append, unwindG_append, h3,
              restore_eq hguard.1 hguard.2 hsz hag'' restoreG restoreG_getElem?]
            exact hun
          · refine ⟨by rw [hsz]; exact hag.1, ?_⟩
            intro g hgn
            rw [hag'' g (fun hh => hgn (hgr g hh.1 hh.2))]
            exact hag.2 g hgn
        | true =>
          simp only [Bool.true_eq_false, if_false]
          exact ⟨hc, hstk.congr
            (restore_eq hguard.1 hguard.2 hsz hag'' spliceGroups spliceGroups_getElemS?)⟩
      · intro st' hq
        have hq' : st'.groups = st.groups := hq
        have hre : spliceGroups (st.groups.extract sg eg).toList sg st'.groups = st.groups :=
          restore_eq hguard.1 hguard.2 (by rw [hq']) (fun g _ => by rw [hq']) spliceGroups
            spliceGroups_getElemS?
        cases neg with
        | true => simp only [if_true]; exact ⟨hc, hk, hstk.congr hre⟩
        | false => simp only [Bool.false_eq_true, if_false]; exact ⟨hc, hstk.congr hre⟩

theorem rbackLoop_vc (γ : Option SRegion × Array GroupData) (fwd : Bool) (hc : RClosed prog γ.1) :
    ∀ n st bts, RStack γ.1 γ.2 st bts →
      BtPostE True (RInv prog γ fwd) (RQF γ fwd) (tryBacktrackLoop prog inp fwd n st bts) := by
  intro n
  induction n with
  | zero => intro st bts _; trivial
  | succ n ih =>
    intro st bts hstk
    obtain ⟨rest, hb, hrec, hun, hag⟩ := hstk
    unfold tryBacktrackLoop
    rcases List.eq_nil_or_concat rest with rfl | ⟨rest', top, hrt⟩
    · -- only `Exhausted` is left
      have := (arr_snoc (l := []) (by simpa using hb)).1
      rw [this]
      exact hun
    · rw [List.concat_eq_append] at hrt
      subst hrt
      have hsn : bts.toList = (.exhausted :: rest') ++ [top] := by rw [hb]; simp
      obtain ⟨hbk, hpop, hset⟩ := arr_snoc hsn
      rw [hbk]
      have hrec' : ∀ r ∈ rest', recInS γ.1 r := fun r hr => hrec r (by simp [hr])
      have htop : recInS γ.1 top := hrec top (by simp)
      -- the stack below the top, for a state with the same groups
      have below : ∀ st' : State, st'.groups = st.groups → (∀ id d, top ≠ .setCaptureGroup id d) →
          ∀ new : List BtInsn, (∀ r ∈ new, recInS γ.1 r ∧ ∀ id d, r ≠ .setCaptureGroup id d) →
          ∀ bts' : Array BtInsn, bts'.toList = .exhausted :: (rest' ++ new) →
          RStack γ.1 γ.2 st' bts' := by
        intro st' hg' hnt new hnew bts' hb'
        refine ⟨rest' ++ new, hb', ?_, ?_, by rw [hg']; exact hag⟩
        · intro r hr
          rcases List.mem_append.mp hr with h | h
          · exact hrec' r h
          · exact (hnew r h).1
        · have h1 : unwindG rest'.reverse st.groups = γ.2 := by
            rw [List.reverse_append, List.reverse_singleton, List.singleton_append] at hun
            cases top <;> first
              | exact absurd rfl (hnt _ _)
              | exact hun
          have h2 : unwindG new.reverse st.groups = st.groups := by
            have hnr : ∀ r ∈ new.reverse, ∀ id d, r ≠ .setCaptureGroup id d :=
              fun r hr => (hnew r (List.mem_reverse.mp hr)).2
            generalize new.reverse = l at hnr
            induction l with
            | nil => rfl
            | cons r l ihl =>
              have hl := ihl (fun r' hr' => hnr r' (List.mem_cons_of_mem _ hr'))
              cases r <;> first
                | exact absurd rfl (hnr _ (List.mem_cons_self) _ _)
                | (simp only [unwindG]; exact hl)
          rw [hg', List.reverse_append, unwindG_append, h2]
          exact h1
      cases top with
      | exhausted => exact htop.elim
      | setPosition ip pos =>
        exact ⟨hc, htop, below st rfl (fun _ _ h => by cases h) [] (fun r h => by cases h) _
          (by rw [hpop]; simp)⟩
      | setLoopData id d =>
        simp only
        split
        · exact ih _ _ (below _ rfl (fun _ _ h => by cases h) [] (fun r h => by cases h) _
            (by rw [hpop]; simp))
        · trivial
      | setCaptureGroup id d =>
        simp only
        split
        · apply ih
          refine ⟨rest', by rw [hpop], hrec', ?_, ?_⟩
          · rw [List.reverse_append, List.reverse_singleton, List.singleton_append] at hun
            exact hun
          · refine ⟨by simp [hag.1], ?_⟩
            intro g hgn
            have : id ≠ g := fun hh => hgn (hh ▸ htop)
            simp only [Array.getElem?_setIfInBounds, this, if_false]
            exact hag.2 g hgn
        · trivial
      | enterNonGreedyLoop lip orig d =>
        simp only
        split
        · trivial
        · split
          · rename_i _ lid _ _ _ _ _ _
            simp only [prepareToEnterLoop]
            refine ⟨hc, htop, below _ rfl (fun _ _ h => by cases h)
              [.setLoopData lid { d with entry := orig }, .setLoopData lid d] ?_ _ ?_⟩
            · intro r hr
              simp only [List.mem_cons, List.not_mem_nil, or_false] at hr
              rcases hr with rfl | rfl <;> exact ⟨trivial, fun _ _ h => by cases h⟩
            · rw [Array.toList_push, hset]; simp
          · trivial
        · trivial
      | greedyLoop1Char k mn mx =>
        simp only
        split
        · exact ih _ _ (below _ rfl (fun _ _ h => by cases h) [] (fun r h => by cases h) _
            (by rw [hpop]; simp))
        · generalize (if fwd = true then inp.nextLeftPos mx else inp.nextRightPos mx) = nm
          cases nm with
          | error e => trivial
          | ok r =>
            cases r with
            | none => trivial
            | some newmax =>
              refine ⟨hc, htop, below st rfl (fun _ _ h => by cases h)
                [.greedyLoop1Char k mn newmax] ?_ _ (by rw [hset]; simp)⟩
              intro r hr
              simp only [List.mem_singleton] at hr; subst hr
              exact ⟨htop, fun _ _ h => by cases h⟩
      | nonGreedyLoop1Char k mn mx =>
        simp only
        split
        · exact ih _ _ (below _ rfl (fun _ _ h => by cases h) [] (fun r h => by cases h) _
            (by rw [hpop]; simp))
        · generalize (if fwd = true then inp.nextRightPos mn else inp.nextLeftPos mn) = nm
          cases nm with
          | error e => trivial
          | ok r =>
            cases r with
            | none => trivial
            | some newmin =>
              refine ⟨hc, htop, below st rfl (fun _ _ h => by cases h)
                [.nonGreedyLoop1Char k newmin mx] ?_ _ (by rw [hset]; simp)⟩
              intro r hr
              simp only [List.mem_singleton] at hr; subst hr
              exact ⟨htop, fun _ _ h => by cases h⟩

/-- **Frame + restoration.** For a program whose look-around bodies are confined (`lookConfined`), a
run started with the stack `[Exhausted]`:
* if it fails, the capture groups are exactly those it was started with;
* if it matches inside a region (look-around body), only the groups of the region may differ.
(Errors are not excluded here: `PostE True`.) -/
theorem run_restores (hlc : lookConfined prog = true) (limit : Nat) :
    ∀ sf (γ : Option SRegion × Array GroupData) ip pos fwd st bts steps peak,
      RInv prog γ fwd ip pos st bts →
      PostE True (RQM γ fwd) (RQF γ fwd) (run prog inp limit sf ip pos fwd st bts steps peak) :=
  run_ruleE prog inp (RInv prog) (RInvB prog) RQM RQF rnest True
    (fun _ _ _ _ _ _ h => rstep_vc hlc h)
    (fun γ fwd st bts h => rbackLoop_vc γ fwd h.1 _ st bts h.2) limit

/-- **`attempt_state_restored`** (groups): when a run from a fresh stack fails, the capture groups
are those of the initial state. -/
theorem attempt_groups_restored (hlc : lookConfined prog = true) (limit sf ip pos : Nat) (fwd : Bool)
    (st : State) (steps peak : Nat) {st' : State} {s p : Nat}
    (h : run prog inp limit sf ip pos fwd st #[.exhausted] steps peak = .failed st' s p) :
    st'.groups = st.groups := by
  have := run_restores (inp := inp) hlc limit sf (none, st.groups) ip pos fwd st #[.exhausted] steps peak
    ⟨trivial, trivial, [], rfl, fun r hr => (by cases hr), rfl, rfl, fun _ _ => rfl⟩
  rw [h] at this
  exact this

/-! ### Ordering of the capture ranges: the invariant -/

/-- The ordering certificate holds for every configuration that the stack can resume (top first),
with the groups as they will be when it is resumed. -/
def OStack (c : OrdCert) (fwd : Bool) : List BtInsn → Array GroupData → Prop
  | [], _ => True
  | .setPosition ip pos :: rest, gs => OrdAt c fwd ip pos gs ∧ OStack c fwd rest gs
  | .setCaptureGroup id d :: rest, gs => OStack c fwd rest (gs.setIfInBounds id d)
  | .enterNonGreedyLoop lip _ d :: rest, gs => OrdAt c fwd (lip + 1) d.entry gs ∧ OStack c fwd rest gs
  | .greedyLoop1Char k mn _ :: rest, gs => OrdAt c fwd k mn gs ∧ OStack c fwd rest gs
  | .nonGreedyLoop1Char k mn _ :: rest, gs => OrdAt c fwd k mn gs ∧ OStack c fwd rest gs
  | .setLoopData _ _ :: rest, gs => OStack c fwd rest gs
  | .exhausted :: rest, gs => OStack c fwd rest gs

/-- What a non-capture record needs. -/
def RecOrd (c : OrdCert) (fwd : Bool) (gs : Array GroupData) : BtInsn → Prop
  | .setPosition ip pos => OrdAt c fwd ip pos gs
  | .enterNonGreedyLoop lip _ d => OrdAt c fwd (lip + 1) d.entry gs
  | .greedyLoop1Char k mn _ => OrdAt c fwd k mn gs
  | .nonGreedyLoop1Char k mn _ => OrdAt c fwd k mn gs
  | .setCaptureGroup _ _ => False
  | _ => True

theorem OStack.append_plain {c : OrdCert} {fwd : Bool} {gs : Array GroupData} :
    ∀ (l l2 : List BtInsn), (∀ r ∈ l, RecOrd c fwd gs r) → OStack c fwd l2 gs →
      OStack c fwd (l ++ l2) gs := by
  intro l
  induction l with
  | nil => intro l2 _ h; exact h
  | cons r l ih =>
    intro l2 hl h2
    have hr := hl r (by simp)
    have ht := ih l2 (fun r' hr' => hl r' (by simp [hr'])) h2
    cases r with
    | setCaptureGroup id d => exact hr.elim
    | setPosition ip pos => exact ⟨hr, ht⟩
    | enterNonGreedyLoop lip o d => exact ⟨hr, ht⟩
    | greedyLoop1Char k mn mx => exact ⟨hr, ht⟩
    | nonGreedyLoop1Char k mn mx => exact ⟨hr, ht⟩
    | setLoopData id d => exact ht
    | exhausted => exact ht

theorem OStack.append_caps {c : OrdCert} {fwd : Bool} :
    ∀ (l l2 : List BtInsn) (gs : Array GroupData), (∀ r ∈ l, ∃ id d, r = .setCaptureGroup id d) →
      OStack c fwd l2 (unwindG l gs) → OStack c fwd (l ++ l2) gs := by
  intro l
  induction l with
  | nil => intro l2 gs _ h; exact h
  | cons r l ih =>
    intro l2 gs hl h2
    obtain ⟨id, d, rfl⟩ := hl r (by simp)
    exact ih l2 _ (fun r' hr' => hl r' (by simp [hr'])) h2

/-- The stack part of the ordering invariant. -/
def OStk (c : OrdCert) (fwd : Bool) (st : State) (bts : Array BtInsn) : Prop :=
  ∃ rest, bts.toList = .exhausted :: rest ∧ OStack c fwd rest.reverse st.groups

theorem OStk.congr {c : OrdCert} {fwd : Bool} {st st' : State} {bts : Array BtInsn}
    (h : OStk c fwd st bts) (hg : st'.groups = st.groups) : OStk c fwd st' bts := by
  obtain ⟨rest, h1, h2⟩ := h
  exact ⟨rest, h1, by rw [hg]; exact h2⟩

def OInv (prog : Prog) (c : OrdCert) (γ : Option SRegion × Array GroupData) (fwd : Bool) (ip pos : Nat)
    (st : State) (bts : Array BtInsn) : Prop :=
  RInv prog γ fwd ip pos st bts ∧ OrdAt c fwd ip pos st.groups ∧ OStk c fwd st bts

def OInvB (prog : Prog) (c : OrdCert) (γ : Option SRegion × Array GroupData) (fwd : Bool)
    (st : State) (bts : Array BtInsn) : Prop :=
  RInvB prog γ fwd st bts ∧ OStk c fwd st bts

def OQM (γ : Option SRegion × Array GroupData) (fwd : Bool) (e : Nat) (st : State) : Prop :=
  RQM γ fwd e st ∧ ∀ (g : Nat) (gd : GroupData), st.groups[g]? = some gd → Ordered gd

theorem outVec_plain {insn : Insn} (h : groupOf insn = none) (v : Array Nat) : outVec insn v = v := by
  cases insn <;> first | rfl | (simp [groupOf] at h)

theorem ordEdges_plain {prog : Prog} {ip : Nat} {insn : Insn} (v : Array Nat)
    (hl : ∀ neg sg eg k, insn ≠ .lookahead neg sg eg k ∧ insn ≠ .lookbehind neg sg eg k) {t : Nat}
    (ht : t ∈ allSuccs prog ip insn) : (t, outVec insn v) ∈ ordEdges prog ip insn v := by
  cases insn <;> first
    | exact absurd rfl (hl _ _ _ _).1
    | exact absurd rfl (hl _ _ _ _).2
    | (simp only [ordEdges, List.mem_map]; exact ⟨t, ht, rfl⟩)

/-- Extending the stack by the records of a non-capture instruction. -/
theorem OStk.ext_plain {c : OrdCert} {fwd : Bool} {prog : Prog} (hchk : checkOrd prog c = true)
    {ip pos : Nat} {insn : Insn} {st st' : State} {bts bts' : Array BtInsn} {v : Array Nat}
    (hi : prog.insns[ip]? = some insn) (hv : c[ip]? = some (some v)) (hvec : VecOK fwd pos v st.groups)
    (hgo : groupOf insn = none)
    (hl : ∀ neg sg eg k, insn ≠ .lookahead neg sg eg k ∧ insn ≠ .lookbehind neg sg eg k)
    (h : OStk c fwd st bts) (hext : Ext prog ip insn st bts st' bts')
    (hpos : NewRecs fwd pos bts bts') :
    st'.groups = st.groups ∧ OStk c fwd st' bts' ∧
      ∀ t ∈ allSuccs prog ip insn, ∀ p, MovedLe fwd pos p → OrdAt c fwd t p st.groups := by
  obtain ⟨rest, hb, hstk⟩ := h
  obtain ⟨recs, h1, h2, h3, h4, h5⟩ := hext
  have hgs : st'.groups = st.groups := by
    apply Array.ext_getElem?
    intro g
    exact h4 g (by rw [hgo]; simp)
  have hedge : ∀ t ∈ allSuccs prog ip insn, ∀ p, MovedLe fwd pos p → OrdAt c fwd t p st.groups := by
    intro t ht p hp
    obtain ⟨vt, hvt, hw⟩ := (checkOrd_spec hchk hi hv).2.2 t _ (ordEdges_plain v hl ht)
    rw [outVec_plain hgo] at hw
    exact ⟨vt, hvt, (hvec.mono hp).weaken hw⟩
  refine ⟨hgs, ⟨rest ++ recs, by rw [h1, hb]; rfl, ?_⟩, hedge⟩
  rw [List.reverse_append, hgs]
  apply OStack.append_plain _ _ _ hstk
  intro r hr
  have hr' := List.mem_reverse.mp hr
  have hfrom := h5 r hr'
  have hp := hpos recs h1 r hr'
  cases r with
  | exhausted => exact hfrom.elim
  | setLoopData _ _ => trivial
  | setCaptureGroup id d =>
    have : groupOf insn = some id := hfrom
    rw [hgo] at this; cases this
  | setPosition t p =>
    have : p = pos := hp
    subst this
    exact hedge t hfrom p (MovedLe.refl _ _)
  | enterNonGreedyLoop lip o d =>
    have : d.entry = pos := hp
    show OrdAt c fwd (lip + 1) d.entry st.groups
    rw [this]
    exact hedge _ hfrom pos (MovedLe.refl _ _)
  | greedyLoop1Char k mn mx => exact hedge k hfrom mn hp
  | nonGreedyLoop1Char k mn mx => exact hedge k hfrom mn hp

theorem not_look_of_cont {ip : Nat} {insn : Insn} (hi : prog.insns[ip]? = some insn) {pos : Nat}
    {fwd : Bool} {st : State} {bts : Array BtInsn} {a : Act}
    (hact : step prog inp ip pos fwd st bts = a) (ha : ∀ d n sg eg k s b, a ≠ .look d n sg eg k s b) :
    ∀ neg sg eg k, insn ≠ .lookahead neg sg eg k ∧ insn ≠ .lookbehind neg sg eg k := by
  intro neg sg eg k
  constructor <;>
  · intro h
    subst h
    unfold step at hact
    rw [hi] at hact
    exact ha _ _ _ _ _ _ _ hact.symm

/-- The three capture group instructions. -/
theorem ogroup_vc {c : OrdCert} (hchk : checkOrd prog c = true) (hlc : lookConfined prog = true)
    {γ : Option SRegion × Array GroupData} {fwd : Bool} {ip pos : Nat} {st : State}
    {bts : Array BtInsn} (h : OInv prog c γ fwd ip pos st bts) {insn : Insn}
    (hi : prog.insns[ip]? = some insn) {g : Nat} (upd : GroupData → GroupData) (site : String)
    (hstep : step prog inp ip pos fwd st bts = groupAct g upd site ip pos st bts)
    (hgo : groupOf insn = some g) (ka : Nat) (hout : ∀ v, outVec insn v = v.setIfInBounds g ka)
    (hsem : ∀ v cg, c[ip]? = some (some v) → (∃ k, v[g]? = some k ∧ Sem fwd pos k cg) →
      Sem fwd pos ka (upd cg)) :
    StepVCE (OInv prog c) (OInvB prog c) OQM RQF rnest True γ fwd ip pos st bts
      (step prog inp ip pos fwd st bts) := by
  obtain ⟨hR, ⟨v, hv, hvec⟩, hstk⟩ := h
  have hRvc := rstep_vc (inp := inp) hlc hR
  rw [hstep] at hRvc ⊢
  unfold groupAct at hRvc ⊢
  cases hcg : st.groups[g]? with
  | none => trivial
  | some cg =>
    rw [hcg] at hRvc
    refine ⟨hRvc, ?_, ?_⟩
    · have hs1 : ip + 1 ∈ allSuccs prog ip insn := by
        cases insn <;> simp [groupOf] at hgo <;> simp [allSuccs]
      have hedge : (ip + 1, outVec insn v) ∈ ordEdges prog ip insn v := by
        cases insn <;> simp [groupOf] at hgo <;> simp [ordEdges, allSuccs]
      obtain ⟨vt, hvt, hw⟩ := (checkOrd_spec hchk hi hv).2.2 _ _ hedge
      rw [hout] at hw
      exact ⟨vt, hvt, (hvec.setGroup g ka (hsem v cg hv (hvec g cg hcg))).weaken hw⟩
    · obtain ⟨rest, hb, hs⟩ := hstk
      refine ⟨rest ++ [.setCaptureGroup g cg], by simp [hb], ?_⟩
      rw [List.reverse_append, List.reverse_singleton, List.singleton_append]
      show OStack c fwd rest.reverse ((st.groups.setIfInBounds g (upd cg)).setIfInBounds g cg)
      rw [setIfInBounds_self _ _ _ _ hcg]
      exact hs

theorem ostep_vc {c : OrdCert} (hchk : checkOrd prog c = true) (hlc : lookConfined prog = true)
    {γ : Option SRegion × Array GroupData} {fwd : Bool} {ip pos : Nat} {st : State}
    {bts : Array BtInsn} (h : OInv prog c γ fwd ip pos st bts) :
    StepVCE (OInv prog c) (OInvB prog c) OQM RQF rnest True γ fwd ip pos st bts
      (step prog inp ip pos fwd st bts) := by
  have hO := h
  obtain ⟨hR, ⟨v, hv, hvec⟩, hstk⟩ := h
  have hRvc := rstep_vc (inp := inp) hlc hR
  cases hi : prog.insns[ip]? with
  | none => unfold step; rw [hi]; trivial
  | some insn =>
    have hf := step_frameS (inp := inp) hi pos fwd st bts
    have hp := step_pos (prog := prog) (inp := inp) ip pos fwd st bts
    have hspec := checkOrd_spec hchk hi hv
    cases hgo : groupOf insn with
    | some g =>
      cases insn with
      | beginCaptureGroup g' =>
        refine ogroup_vc hchk hlc hO hi _ _ (by unfold step; rw [hi]) rfl 2 (fun _ => rfl) ?_
        intro v' cg hv' hk
        rw [hv] at hv'; cases hv'
        obtain ⟨k, hk1, hk2⟩ := hk
        rw [hspec.1 _ rfl] at hk1; cases hk1
        exact sem_begin hk2
      | endCaptureGroup g' =>
        refine ogroup_vc hchk hlc hO hi _ _ (by unfold step; rw [hi]) rfl 0 (fun _ => rfl) ?_
        intro v' cg hv' hk
        rw [hv] at hv'; cases hv'
        obtain ⟨k, hk1, hk2⟩ := hk
        rw [hspec.2.1 _ rfl] at hk1; cases hk1
        exact sem_end hk2
      | resetCaptureGroup g' =>
        refine ogroup_vc hchk hlc hO hi _ _ (by unfold step; rw [hi]) rfl 1 (fun _ => rfl) ?_
        intro v' cg _ _
        exact sem_reset _ _
      | _ => simp [groupOf] at hgo
    | none =>
      cases hact : step prog inp ip pos fwd st bts with
      | err e => trivial
      | goal p st' =>
        rw [hact] at hRvc hf
        have : st' = st := hf
        subst this
        exact ⟨hRvc, hvec.ordered⟩
      | cont ip' pos' st' bts' =>
        rw [hact] at hRvc hf hp
        have hl := not_look_of_cont hi hact (fun _ _ _ _ _ _ _ h => by cases h)
        obtain ⟨hgs, hstk', hedge⟩ := OStk.ext_plain hchk hi hv hvec hgo hl hstk hf.2 hp.2
        exact ⟨hRvc, by rw [hgs]; exact hedge ip' hf.1 pos' hp.1, hstk'⟩
      | back st' bts' =>
        rw [hact] at hRvc hf hp
        have hl := not_look_of_cont hi hact (fun _ _ _ _ _ _ _ h => by cases h)
        obtain ⟨hgs, hstk', hedge⟩ := OStk.ext_plain hchk hi hv hvec hgo hl hstk hf hp
        exact ⟨hRvc, hstk'⟩
      | look d neg sg eg k st1 bts1 =>
        rw [hact] at hRvc hf
        obtain ⟨hs1, hs2, _, hRg⟩ := hRvc
        refine ⟨hs1, hs2, fun _ => trivial, fun hguard => ?_⟩
        obtain ⟨hRi, hRm, hRf⟩ := hRg hguard
        -- the two edges of the look-around
        have hedges : (ip + 1, lookBodyVec v) ∈ ordEdges prog ip insn v ∧
            (k, lookContVec neg sg eg v) ∈ ordEdges prog ip insn v := by
          rcases hf with rfl | rfl <;> simp [ordEdges]
        obtain ⟨vb, hvb, hwb⟩ := hspec.2.2 _ _ hedges.1
        obtain ⟨vk, hvk, hwk⟩ := hspec.2.2 _ _ hedges.2
        have hre := fun (gs : Array GroupData) hsz hag f hfp =>
          restore_eq (G := st.groups) (gs := gs) (sg := sg) (eg := eg) hguard.1 hguard.2 hsz hag f hfp
        refine ⟨⟨hRi, ⟨vb, hvb, hvec.lookBody.weaken hwb⟩, [], rfl, trivial⟩, ?_, ?_⟩
        · intro e st' hq
          obtain ⟨hq1, hq2⟩ := hq
          have hR' := hRm e st' hq1
          obtain ⟨hsz, hag'⟩ := hq1
          have hag'' : ∀ g : Nat, ¬ (sg ≤ g ∧ g < eg) → st'.groups[g]? = st.groups[g]? := hag'
          cases neg with
          | false =>
            simp only [if_true] at hR' ⊢
            refine ⟨hR', ⟨vk, hvk, (hvec.lookCont hsz hag'' hq2).weaken hwk⟩, ?_⟩
            obtain ⟨rest, hb, hs⟩ := hstk
            obtain ⟨recs, h1, h2, h3⟩ := pushSavedGroups_toList (st.groups.extract sg eg).toList sg bts
            refine ⟨rest ++ recs, by rw [h1, hb]; rfl, ?_⟩
            rw [List.reverse_append]
            apply OStack.append_caps
            · intro r hr
              obtain ⟨i, dd, rfl, _, _⟩ := h2 r (List.mem_reverse.mp hr)
              exact ⟨i, dd, rfl⟩
            · rw [h3, hre _ hsz hag'' restoreG restoreG_getElem?]
              exact hs
          | true =>
            simp only [Bool.true_eq_false, if_false] at hR' ⊢
            exact ⟨hR', hstk.congr (hre _ hsz hag'' spliceGroups spliceGroups_getElemS?)⟩
        · intro st' hq
          have hR' := hRf st' hq
          have hq' : st'.groups = st.groups := hq
          have hsp : spliceGroups (st.groups.extract sg eg).toList sg st'.groups = st.groups :=
            hre _ (by rw [hq']) (fun g _ => by rw [hq']) spliceGroups spliceGroups_getElemS?
          cases neg with
          | true =>
            simp only [if_true] at hR' ⊢
            refine ⟨hR', ⟨vk, hvk, ?_⟩, hstk.congr hsp⟩
            show VecOK fwd pos vk (spliceGroups (st.groups.extract sg eg).toList sg st'.groups)
            rw [hsp]
            exact hvec.lookContNeg.weaken hwk
          | false =>
            simp only [Bool.false_eq_true, if_false] at hR' ⊢
            exact ⟨hR', hstk.congr hsp⟩

theorem OrdAt.mono {c : OrdCert} {fwd : Bool} {ip pos pos' : Nat} {gs : Array GroupData}
    (h : OrdAt c fwd ip pos gs) (hm : MovedLe fwd pos pos') : OrdAt c fwd ip pos' gs := by
  obtain ⟨v, hv, hvec⟩ := h
  exact ⟨v, hv, hvec.mono hm⟩

/-- `try_backtrack` for the ordering invariant; the safety invariant of the stack provides the
bounds on the positions resumed from `Loop1Char` records. -/
theorem obackLoop_vc {A : Bool → Nat → Nat → Prop} {V : Nat → Prop} (hs : Spec prog inp A V)
    {c : OrdCert} (b : Nat) (fwd : Bool) :
    ∀ n st bts, StackOK prog A V b fwd bts → OStk c fwd st bts →
      BtPostE True (fun ip pos st bts => OrdAt c fwd ip pos st.groups ∧ OStk c fwd st bts)
        (fun _ => True) (tryBacktrackLoop prog inp fwd n st bts) := by
  intro n
  induction n with
  | zero => intro st bts _ _; trivial
  | succ n ih =>
    intro st bts hsk hstk
    obtain ⟨rest, hb, hos⟩ := hstk
    unfold tryBacktrackLoop
    rcases List.eq_nil_or_concat rest with rfl | ⟨rest', top, hrt⟩
    · have := (arr_snoc (l := []) (by simpa using hb)).1
      rw [this]
      trivial
    · rw [List.concat_eq_append] at hrt
      subst hrt
      have hsn : bts.toList = (.exhausted :: rest') ++ [top] := by rw [hb]; simp
      obtain ⟨hbk, hpop, hset⟩ := arr_snoc hsn
      rw [hbk]
      rw [List.reverse_append, List.reverse_singleton, List.singleton_append] at hos
      -- the safety facts about the top record
      have hsz : 1 < bts.size := by
        have := congrArg List.length hsn
        simp at this; omega
      have htop : RecOK prog A V b fwd top := by
        rcases hsk.back with ⟨h1, h2⟩ | ⟨r, h1, h2, _⟩
        · omega
        · rw [hbk] at h1; cases h1; exact h2
      have hskp := hsk.pop hsz
      have hpopstk : ∀ st' : State, OStack c fwd rest'.reverse st'.groups → OStk c fwd st' bts.pop :=
        fun st' h => ⟨rest', hpop, h⟩
      cases top with
      | exhausted => exact htop.elim
      | setPosition ip pos => exact ⟨hos.1, hpopstk st hos.2⟩
      | setLoopData id d =>
        simp only
        split
        · exact ih _ _ hskp (hpopstk _ hos)
        · trivial
      | setCaptureGroup id d =>
        simp only
        split
        · exact ih _ _ hskp (hpopstk _ hos)
        · trivial
      | enterNonGreedyLoop lip orig d =>
        simp only
        split
        · trivial
        · split
          · rename_i _ lid _ _ _ _ _ _
            simp only [prepareToEnterLoop]
            refine ⟨hos.1, rest' ++ [.setLoopData lid { d with entry := orig }, .setLoopData lid d], ?_, ?_⟩
            · rw [Array.toList_push, hset]; simp
            · rw [List.reverse_append]
              exact hos.2
          · trivial
        · trivial
      | greedyLoop1Char k mn mx =>
        obtain ⟨hmn, hmx, hle, _, _⟩ := htop
        simp only
        by_cases heq : mx = mn
        · simp only [heq, beq_self_eq_true, if_true]
          exact ih _ _ hskp (hpopstk _ hos.2)
        · have hne : (mx == mn) = false := by simpa using heq
          simp only [hne, Bool.false_eq_true, if_false]
          have fin : ∀ p, MovedLe fwd mn p →
              OrdAt c fwd k p st.groups ∧
              OStk c fwd st (bts.setIfInBounds (bts.size - 1) (.greedyLoop1Char k mn p)) := by
            intro p hp
            refine ⟨OrdAt.mono hos.1 hp, rest' ++ [.greedyLoop1Char k mn p], by rw [hset]; simp, ?_⟩
            rw [List.reverse_append, List.reverse_singleton, List.singleton_append]
            exact hos
          cases fwd with
          | true =>
            have hlt : mn < mx := by have := hle.1 rfl; omega
            obtain ⟨p, hp, h1, h2, hv⟩ := hs.stepL hmn hmx hlt
            simp only [if_true, hp]
            exact fin p (MovedLe.fwd h1)
          | false =>
            have hlt : mx < mn := by have := hle.2 rfl; omega
            obtain ⟨p, hp, h1, h2, hv⟩ := hs.stepR hmx hmn hlt
            simp only [Bool.false_eq_true, if_false, hp]
            exact fin p (MovedLe.bwd h2)
      | nonGreedyLoop1Char k mn mx =>
        obtain ⟨hmn, hmx, hle, _, _⟩ := htop
        simp only
        by_cases heq : mx = mn
        · simp only [heq, beq_self_eq_true, if_true]
          exact ih _ _ hskp (hpopstk _ hos.2)
        · have hne : (mx == mn) = false := by simpa using heq
          simp only [hne, Bool.false_eq_true, if_false]
          have fin : ∀ p, MovedLe fwd mn p →
              OrdAt c fwd k p st.groups ∧
              OStk c fwd st (bts.setIfInBounds (bts.size - 1) (.nonGreedyLoop1Char k p mx)) := by
            intro p hp
            refine ⟨OrdAt.mono hos.1 hp, rest' ++ [.nonGreedyLoop1Char k p mx], by rw [hset]; simp, ?_⟩
            rw [List.reverse_append, List.reverse_singleton, List.singleton_append]
            exact ⟨OrdAt.mono hos.1 hp, hos.2⟩
          cases fwd with
          | true =>
            have hlt : mn < mx := by have := hle.1 rfl; omega
            obtain ⟨p, hp, h1, h2, hv⟩ := hs.stepR hmn hmx hlt
            simp only [if_true, hp]
            exact fin p (MovedLe.fwd (Nat.le_of_lt h1))
          | false =>
            have hlt : mx < mn := by have := hle.2 rfl; omega
            obtain ⟨p, hp, h1, h2, hv⟩ := hs.stepL hmx hmn hlt
            simp only [Bool.false_eq_true, if_false, hp]
            exact fin p (MovedLe.bwd (Nat.le_of_lt h2))

/-! ### Safety + frame + ordering together -/

section Total
variable {A : Bool → Nat → Nat → Prop} {V : Nat → Prop}

abbrev TGhost := Nat × (Option SRegion × Array GroupData)

def TInv (prog : Prog) (A : Bool → Nat → Nat → Prop) (V : Nat → Prop) (c : OrdCert) (γ : TGhost)
    (fwd : Bool) (ip pos : Nat) (st : State) (bts : Array BtInsn) : Prop :=
  Inv prog A V γ.1 fwd ip pos st bts ∧ OInv prog c γ.2 fwd ip pos st bts

def TInvB (prog : Prog) (A : Bool → Nat → Nat → Prop) (V : Nat → Prop) (c : OrdCert) (γ : TGhost)
    (fwd : Bool) (st : State) (bts : Array BtInsn) : Prop :=
  InvB prog A V γ.1 fwd st bts ∧ OInvB prog c γ.2 fwd st bts

def TQM (prog : Prog) (V : Nat → Prop) (γ : TGhost) (fwd : Bool) (e : Nat) (st : State) : Prop :=
  QMs prog V γ.1 fwd e st ∧ OQM γ.2 fwd e st

def TQF (prog : Prog) (V : Nat → Prop) (γ : TGhost) (fwd : Bool) (st : State) : Prop :=
  StateOK prog V st ∧ RQF γ.2 fwd st

def tnest (γ : TGhost) (ip pos : Nat) (st : State) (sg eg k : Nat) : TGhost :=
  (pos, rnest γ.2 ip pos st sg eg k)

theorem icaseOrdered_of_ordAt {c : OrdCert} {fwd : Bool} {ip pos : Nat} {st : State}
    (h : OrdAt c fwd ip pos st.groups) : IcaseOrdered prog ip st := by
  intro g gd rs re _ hg hr
  obtain ⟨v, _, hvec⟩ := h
  have ho := hvec.ordered g gd hg
  unfold GroupData.asRange at hr
  split at hr
  · rename_i s e h1 h2; cases hr; exact ho _ _ h1 h2
  · cases hr

theorem tstep_vc (hs : Spec prog inp A V) (hw : wfProg prog = true) {c : OrdCert}
    (hchk : checkOrd prog c = true) (hlc : lookConfined prog = true) {γ : TGhost} {fwd : Bool}
    {ip pos : Nat} {st : State} {bts : Array BtInsn} (h : TInv prog A V c γ fwd ip pos st bts) :
    StepVC (TInv prog A V c) (TInvB prog A V c) (TQM prog V) (TQF prog V) tnest γ fwd ip pos st bts
      (step prog inp ip pos fwd st bts) := by
  have h1 := step_vc hs hw h.1 (icaseOrdered_of_ordAt h.2.2.1)
  have h2 := ostep_vc (inp := inp) hchk hlc h.2
  cases hact : step prog inp ip pos fwd st bts with
  | err e => rw [hact] at h1; exact h1
  | goal p st' => rw [hact] at h1 h2; exact ⟨h1, h2⟩
  | cont ip' pos' st' bts' => rw [hact] at h1 h2; exact ⟨h1, h2⟩
  | back st' bts' => rw [hact] at h1 h2; exact ⟨h1, h2⟩
  | look d neg sg eg k st1 bts1 =>
    rw [hact] at h1 h2
    obtain ⟨e1, e2, hle, hsz, hI1, hm1, hf1⟩ := h1
    obtain ⟨_, _, _, hg2⟩ := h2
    obtain ⟨hI2, hm2, hf2⟩ := hg2 ⟨hle, hsz⟩
    refine ⟨e1, e2, hle, hsz, ⟨hI1, hI2⟩, ?_, ?_⟩
    · intro e st' hq
      have a1 := hm1 e st' hq.1
      have a2 := hm2 e st' hq.2
      cases neg with
      | false => simp only [if_true] at a1 a2 ⊢; exact ⟨a1, a2⟩
      | true => simp only [Bool.true_eq_false, if_false] at a1 a2 ⊢; exact ⟨a1, a2⟩
    · intro st' hq
      have a1 := hf1 st' hq.1
      have a2 := hf2 st' hq.2
      cases neg with
      | true => simp only [if_true] at a1 a2 ⊢; exact ⟨a1, a2⟩
      | false => simp only [Bool.false_eq_true, if_false] at a1 a2 ⊢; exact ⟨a1, a2⟩

theorem tback_vc (hs : Spec prog inp A V) (hw : wfProg prog = true) {c : OrdCert} {γ : TGhost}
    {fwd : Bool} {st : State} {bts : Array BtInsn} (h : TInvB prog A V c γ fwd st bts) :
    BtPost (TInv prog A V c γ fwd) (TQF prog V γ fwd) (tryBacktrack prog inp fwd st bts) := by
  have h1 := back_vc hs hw γ.1 fwd h.1
  have h2 := rbackLoop_vc (inp := inp) γ.2 fwd h.2.1.1 (bts.size + 1) st bts h.2.1.2
  have h3 := obackLoop_vc hs (c := c) γ.1 fwd (bts.size + 1) st bts h.1.2 h.2.2
  unfold tryBacktrack at h1 ⊢
  cases hr : tryBacktrackLoop prog inp fwd (bts.size + 1) st bts with
  | err e => rw [hr] at h1; exact h1
  | exhausted st' b => rw [hr] at h1 h2; exact ⟨h1, h2⟩
  | resumed ip pos st' bts' => rw [hr] at h1 h2 h3; exact ⟨h1, h2, h3.1, h3.2⟩

/-- **Safety of the backtracking executor without the `noIcaseBackref` restriction**: under the
ordering certificate and the confinement of the look-around bodies, no error site is reachable, and
in addition every capture range of the final state has `start ≤ end`, a failed run restores the
groups. -/
theorem run_safe_ord (hs : Spec prog inp A V) (hw : wfProg prog = true) {c : OrdCert}
    (hchk : checkOrd prog c = true) (hlc : lookConfined prog = true) (limit : Nat) :
    ∀ sf (γ : TGhost) ip pos fwd st bts steps peak, TInv prog A V c γ fwd ip pos st bts →
      Post (TQM prog V γ fwd) (TQF prog V γ fwd) (run prog inp limit sf ip pos fwd st bts steps peak) :=
  run_rule prog inp (TInv prog A V c) (TInvB prog A V c) (TQM prog V) (TQF prog V) tnest
    (fun _ _ _ _ _ _ h => tstep_vc hs hw hchk hlc h)
    (fun _ _ _ _ h => tback_vc hs hw h) limit

/-- The initial configuration of an attempt: all groups unset. -/
theorem tinv_init (_hw0 : 0 < prog.insns.size) {c : OrdCert} (hchk : checkOrd prog c = true)
    {pos : Nat} (hA : A true 0 pos) {st : State} (hst : StateOK prog V st)
    (hclean : ∀ (g : Nat) (gd : GroupData), st.groups[g]? = some gd → gd = ⟨none, none⟩) :
    TInv prog A V c (pos, (none, st.groups)) true 0 pos st #[.exhausted] := by
  refine ⟨⟨hA, MovedLe.refl _ _, hst, stackOK_init _ _⟩,
    ⟨trivial, trivial, [], rfl, fun r hr => (by cases hr), rfl, rfl, fun _ _ => rfl⟩, ?_,
    ⟨[], rfl, trivial⟩⟩
  simp only [checkOrd, Bool.and_eq_true, beq_iff_eq] at hchk
  refine ⟨_, hchk.1, ?_⟩
  intro g gd hg
  have hlt : g < prog.groups := by rw [← hst.groups]; exact lt_of_getElem?_eq_some hg
  refine ⟨1, by simp [hlt], ?_⟩
  rw [hclean g gd hg]
  exact sem_reset _ _

end Total

end Frame

end Regress.VM.Bt
