import Proofs.Lemmas.Closure2Find
import Proofs.Lemmas.Closure2PkShift
/-!
# Closure 2, part 4 (C09): the running search of the PikeVM

`VM.findIter .pk` models `backends::find::<PikeVMExecutor>`: `next_match(pos)` builds its initial state
ONCE (`LoopData::new(pos)`: every loop slot has `entry = pos`), and the standard branch then advances
only `state.pos` after a failed attempt — so the attempt at a later position `q` runs on loop slots
whose `entry` is the stale `pos`, not `q` as in `pikevm::verif_attempt` = `Pk.attempt` =
`(searchEnvPk …).attempt`.  One global tick budget, as for the backtracker.

* `attemptAt_entry_sim` — **slot insensitivity**: the initial `entry` values are dead (at address 0 no
  loop slot is live, `Sim.StRel` only constrains live slots), so `Pk.attemptAt prog inp fuel q e` is
  related to the backtracker's attempt at `q` by the stuttering simulation of C02Full for every `e`.
* `pkAttempt_env` — one attempt of the running search is the environment's attempt (through the
  backtracker: `Pk(entry = e) ~ Bt ~ Pk(entry = q)`; the environment's budget is `≥ Pk.lookBound`, the
  running search's budget is arbitrary).
* `findIter_pk_eq_collect_partial` — `findIter .pk … = .ok ms → ms = collectK (searchEnvPk prog inp fuel) …`.
-/
namespace Regress.Closure2

section Sim
open Regress.VM Regress.VM.Bt Regress.VM.Safety Regress.VM.Sim Regress.VM.L1

variable {prog : Prog} {inp : Input} {A : Bool → Nat → Nat → Prop} {V : Nat → Prop}

/-- `L1.attempt_sim1` for a PikeVM attempt whose loop slots were initialised with any `entry`. -/
theorem attemptAt_sim1 (hs : loopsStructured prog = true) (hl : looksStructured prog = true)
    (hok : inpOK inp = true) (hsp : Spec prog inp A V) (hw : wfProg prog = true)
    (h1 : Loop1OK prog inp A V) (fB fP pos entry : Nat) (hf : fP ≤ fB) (hA : A true 0 pos) :
    OutSim2 prog none 0 0 (Bt.attempt prog inp fB pos) (Pk.attemptAt prog inp fP pos entry) := by
  have hrel : StRel prog (Pk.initState prog pos entry).ip (freshState prog 0) (Pk.initState prog pos entry) :=
    ⟨rfl, by simp [Pk.initState, freshState], fun id h => by simp [Pk.initState, live_zero] at h⟩
  exact run_sim1 hs hl hok hsp hw h1 fB fP (fP + 1) (fP + 1) (Nat.le_refl _) fB true (freshState prog 0)
    #[.exhausted] [] (Pk.initState prog pos entry) 0 0 0 0 none pos hrel rfl (.bottom #[] _) (by omega)
    (by omega) rfl (by intro r hr; simp at hr; subst hr; rfl)
    ⟨hA, MovedLe.refl _ _, stateOK_of_fresh_groups rfl (by simp [freshState]), stackOK_init _ _⟩

/-- **Slot insensitivity of the PikeVM's initial state** (UTF-8 input): for every `entry`, the attempt
at the char boundary `pos` on loop slots initialised with `entry` corresponds to the backtracker's
attempt at `pos` (budgets `fP ≤ fB`), exactly as `Pk.attempt` (`entry = pos`) does in `C02_loop1`. -/
theorem attemptAt_entry_sim (hs : loopsStructured prog = true) (hl : looksStructured prog = true)
    (hw : wfProgUtf8 prog = true) {cs : List Nat} (ht : Utf8Text inp cs) {pos : Nat} (hp : VUtf8 inp pos)
    (entry fB fP : Nat) (hf : fP ≤ fB) :
    C02Full.AttemptSim (Bt.attempt prog inp fB pos) (Pk.attemptAt prog inp fP pos entry) := by
  simp only [wfProgUtf8, Bool.and_eq_true] at hw
  obtain ⟨hw, hc⟩ := hw
  exact C02Full.attemptSim_of_outSim2 (attemptAt_sim1 hs hl (C02Full.inpOK_of_utf8 ht) (specUtf8Cert hw hc ht) hw
    (C02Full.loop1OK_utf8 hw ht _) fB fP pos entry hf (C06.cert_start hw hc ht hp))

end Sim

open Regress.Api Regress.VM Regress.VM.Safety Regress.C06 Regress.Closure

/-- What the drain argument needs to know about one attempt of the running PikeVM search, on the
initial state built for position `q` by a `next_match` that was entered at `e` (global budget `L`),
compared with the environment whose attempts have the budget `F`. -/
def PkAttemptOK (prog : Prog) (inp : Input) (L F : Nat) : Prop :=
  ∀ {q : Nat}, VUtf8 inp q → ∀ (e : Nat) (acc : Acc),
    match pkAttempt prog inp L (Pk.initState prog q e) acc with
    | .matched _ st _ _ => (searchEnvPk prog inp F).attempt q = some (st.pos, Pk.capsOf st)
    | .failed _ _ => (searchEnvPk prog inp F).attempt q = none
    | .outOfFuel => True
    | .error _ => False

/-- **One attempt of the running PikeVM search is the environment's attempt**, whatever position the
enclosing `next_match` was entered at. -/
theorem pkAttempt_env {prog : Prog} {inp : Input} {cs : List Nat} (H : FindHyp2 prog inp cs) {L F : Nat}
    (hLF : L ≤ F) (hL : Pk.lookBound prog inp.len ≤ F) : PkAttemptOK prog inp L F := by
  intro q hq e acc
  obtain ⟨h1, h2, h3, h4⟩ := wfFull_parts H.wf
  rcases Nat.lt_or_ge L acc.steps with hgt | hle
  · have h0 : L - acc.steps = 0 := by omega
    have hge : acc.steps ≥ L := by omega
    unfold pkAttempt
    rw [h0]
    simp [Pk.runStates, hge]
  have hsh := PkShift.pkAttempt_shift prog inp L (Pk.initState prog q e) acc hle
  have hwu : wfProgUtf8 prog = true := by simp [wfProgUtf8, h1, h2]
  have hv : C02Full.ValidAt inp q := .utf8 cs H.text hq
  -- the attempt with the remaining budget extends to the budget `L`
  have hmono : Pk.tryAtPos prog inp (L - acc.steps) (Pk.initState prog q e) true ≠ .outOfFuel →
      Pk.attemptAt prog inp F q e = Pk.tryAtPos prog inp (L - acc.steps) (Pk.initState prog q e) true :=
    fun hne => Pk.tryAtPos_fuel_mono prog inp (Nat.le_trans (Nat.sub_le _ _) hLF) _ _ hne
  have hsafe := pk_safe_utf8_full h1 h2 h4 h3 H.text hq e F
  have hsim := attemptAt_entry_sim H.loops H.looks hwu H.text hq e F F (Nat.le_refl _)
  have hfresh := C02Full.C02_loop1_full prog H.loops H.looks H.wf inp q hv F F (Nat.le_refl _)
  have hfine := pk_attempt_fine H hL hq
  have henv : (searchEnvPk prog inp F).attempt q =
      match Pk.attempt prog inp F q with
      | .matched e st _ _ => some (e, Pk.capsOf st)
      | _ => none := rfl
  have hBerr := C02Full.bt_attempt_no_error H.wf hv F
  cases hb : pkAttempt prog inp L (Pk.initState prog q e) acc with
  | matched e1 st s k =>
    rw [hb] at hsh
    cases ho : Pk.tryAtPos prog inp (L - acc.steps) (Pk.initState prog q e) true with
    | matched e2 st2 s2 k2 =>
      rw [ho] at hsh
      simp only [PkShift.Shifted] at hsh
      obtain ⟨rfl, rfl, _⟩ := hsh
      have hfull := hmono (by rw [ho]; intro hc; cases hc)
      rw [ho] at hfull
      rw [hfull] at hsafe hsim
      simp only at hsafe
      -- the backtracker's attempt matches with the same end and captures
      cases hbt : Bt.attempt prog inp F q with
      | error x => exact absurd hbt (hBerr x)
      | outOfFuel => rw [hbt] at hsim; simp only [C02Full.AttemptSim] at hsim
      | failed _ _ _ => rw [hbt] at hsim; simp only [C02Full.AttemptSim] at hsim
      | matched eb stb sb kb =>
        rw [hbt] at hsim hfresh
        simp only [C02Full.AttemptSim] at hsim
        rw [henv]
        rcases hfine with ⟨e', st', s', k', hpk⟩ | ⟨s', k', hpk⟩
        · rw [hpk] at hfresh ⊢
          simp only at hfresh ⊢
          rw [← hsafe.2.2.1, ← hsim.1, hfresh.1, ← hsim.2.1, hfresh.2.1]
        · rw [hpk] at hfresh; exact hfresh.elim
    | failed _ _ => rw [ho] at hsh; simp [PkShift.Shifted] at hsh
    | outOfFuel => rw [ho] at hsh; simp [PkShift.Shifted] at hsh
    | error _ => rw [ho] at hsh; simp [PkShift.Shifted] at hsh
  | failed s k =>
    rw [hb] at hsh
    cases ho : Pk.tryAtPos prog inp (L - acc.steps) (Pk.initState prog q e) true with
    | failed s2 k2 =>
      have hfull := hmono (by rw [ho]; intro hc; cases hc)
      rw [ho] at hfull
      rw [hfull] at hsim
      cases hbt : Bt.attempt prog inp F q with
      | error x => exact absurd hbt (hBerr x)
      | outOfFuel => rw [hbt] at hsim; simp only [C02Full.AttemptSim] at hsim
      | matched _ _ _ _ => rw [hbt] at hsim; simp only [C02Full.AttemptSim] at hsim
      | failed stb sb kb =>
        rw [hbt] at hfresh
        rw [henv]
        rcases hfine with ⟨e', st', s', k', hpk⟩ | ⟨s', k', hpk⟩
        · rw [hpk] at hfresh; exact hfresh.elim
        · rw [hpk]
    | matched _ _ _ _ => rw [ho] at hsh; simp [PkShift.Shifted] at hsh
    | outOfFuel => rw [ho] at hsh; simp [PkShift.Shifted] at hsh
    | error _ => rw [ho] at hsh; simp [PkShift.Shifted] at hsh
  | outOfFuel => trivial
  | error a =>
    rw [hb] at hsh
    cases ho : Pk.tryAtPos prog inp (L - acc.steps) (Pk.initState prog q e) true with
    | error b =>
      have hfull := hmono (by rw [ho]; intro hc; cases hc)
      rw [ho] at hfull
      rw [hfull] at hsafe
      exact hsafe
    | matched _ _ _ _ => rw [ho] at hsh; simp [PkShift.Shifted] at hsh
    | outOfFuel => rw [ho] at hsh; simp [PkShift.Shifted] at hsh
    | failed _ _ => rw [ho] at hsh; simp [PkShift.Shifted] at hsh

/-! ## One `next_match`, draining -/

section Generic
variable {prog : Prog} {inp : Input} {cs : List Nat} {L F : Nat}
  (hw : wfProgFull prog = true) (ht : Utf8Text inp cs) (hatt : PkAttemptOK prog inp L F)

theorem pkSuccess_ok {start : Nat} {st : Pk.State} {acc acc' : Acc} {steps peak : Nat}
    {r : Option (MatchR × Option Nat)} (F : Nat)
    (h : pkSuccess prog inp start st acc steps peak = .ok (r, acc')) :
    r = some ((searchEnvPk prog inp F).successfulMatch start st.pos (Pk.capsOf st),
          (searchEnvPk prog inp F).nextStart start st.pos) := by
  unfold pkSuccess at h
  cases hn : VM.nextStart inp start st.pos with
  | error _ => rw [hn] at h; cases h
  | ok ns =>
    rw [hn] at h
    simp only [Except.ok.injEq, Prod.mk.injEq] at h
    obtain ⟨rfl, _⟩ := h
    rw [nextStart_ok hn prog F]
    rfl

include ht hatt

theorem pkNextMatchStd_ok : ∀ (n : Nat) {q : Nat}, VUtf8 inp q → ∀ (e : Nat) {acc acc' : Acc}
    {r : Option (MatchR × Option Nat)},
    pkNextMatchStd prog inp L n (Pk.initState prog q e) acc = .ok (r, acc') →
    r = pikeNextMatchStdFuel (searchEnvPk prog inp F) n q := by
  intro n
  induction n with
  | zero => intro q _ e acc acc' r h; simp [pkNextMatchStd] at h
  | succ n ih =>
    intro q hq e acc acc' r h
    simp only [pkNextMatchStd] at h
    simp only [pikeNextMatchStdFuel]
    have ha := hatt hq e acc
    cases hb : pkAttempt prog inp L (Pk.initState prog q e) acc with
    | error _ => rw [hb] at h; cases h
    | outOfFuel => rw [hb] at h; cases h
    | matched e1 st s k =>
      rw [hb] at h ha
      simp only at h ha
      rw [ha]
      exact pkSuccess_ok F h
    | failed s k =>
      rw [hb] at h ha
      simp only at h ha
      rw [ha]
      simp only
      have hnr : (searchEnvPk prog inp F).nextRightPos q = nextRightPosOpt inp q := rfl
      rw [hnr]
      have hpos : (Pk.initState prog q e).pos = q := rfl
      rw [hpos] at h
      unfold nextRightPosOpt
      cases hr : inp.nextRightPos q with
      | error _ => rw [hr] at h; cases h
      | ok o =>
        rw [hr] at h
        cases o with
        | none =>
          simp only [Except.ok.injEq, Prod.mk.injEq] at h
          exact h.1.symm
        | some q' =>
          simp only at h ⊢
          have hq' : nextRightPosOpt inp q = some q' := by simp [nextRightPosOpt, hr]
          exact ih (nextRightPosOpt_utf8 ht hq hq').2 e h

/-- One `next_match` of the running `PikeVMExecutor` is one `next_match` of the pure protocol. -/
theorem nextMatchX_pk_ok {pos : Nat} (hp : VUtf8 inp pos) {acc acc' : Acc}
    {r : Option (MatchR × Option Nat)} (h : nextMatchX .pk prog inp L pos acc = .ok (r, acc')) :
    r = nextMatch (searchEnvPk prog inp F) (kindOf prog .pk) pos := by
  simp only [nextMatchX, pkNextMatch] at h
  simp only [kindOf, nextMatch, pikeNextMatch]
  split at h
  · next ha =>
    simp only [ha, if_true]
    have hat := hatt hp pos acc
    cases hb : pkAttempt prog inp L (Pk.initState prog pos pos) acc with
    | error _ => rw [hb] at h; cases h
    | outOfFuel => rw [hb] at h; cases h
    | matched e1 st s k =>
      rw [hb] at h hat
      simp only at h hat
      rw [hat]
      exact pkSuccess_ok F h
    | failed s k =>
      rw [hb] at h hat
      simp only [Except.ok.injEq, Prod.mk.injEq] at h hat
      rw [hat]
      exact h.1.symm
  · next ha =>
    simp only [ha, Bool.false_eq_true, if_false]
    exact pkNextMatchStd_ok ht hatt _ hp pos h

include hw

theorem drain_pk_ok :
    ∀ (n : Nat) (position : Option Nat), (∀ c, position = some c → VUtf8 inp c) →
    ∀ (acc : Acc) (out ms : List MatchR) (acc' : Acc),
    drain .pk prog inp L n position acc out = .ok (ms, acc') →
    ms = out.reverse ++
      Matches.collectFuel (searchEnvPk prog inp F) (kindOf prog .pk) n ⟨position⟩ := by
  intro n
  induction n with
  | zero => intro position _ acc out ms acc' h; simp [drain] at h
  | succ n ih =>
    intro position hpos acc out ms acc' h
    cases position with
    | none =>
      simp only [drain, Except.ok.injEq, Prod.mk.injEq] at h
      rw [C09.collectFuel_none]
      simp [h.1]
    | some pos =>
      simp only [drain] at h
      have hv := hpos pos rfl
      rw [C09.collectFuel_succ_some]
      cases hx : nextMatchX .pk prog inp L pos acc with
      | error _ => rw [hx] at h; cases h
      | ok ra =>
        obtain ⟨r, acc1⟩ := ra
        rw [hx] at h
        have hr := nextMatchX_pk_ok ht hatt hv hx
        rw [← hr]
        cases r with
        | none =>
          simp only [Except.ok.injEq, Prod.mk.injEq] at h
          simp [h.1]
        | some mn =>
          obtain ⟨m, ns⟩ := mn
          simp only at h ⊢
          have hclosed : ∀ c, ns = some c → VUtf8 inp c := by
            intro c hc
            have := (nextMatch_closed (envOKOn_pk hw ht F) (kindOf prog .pk)
              (vb_iff.mpr hv) hr.symm).2.2.2.2.2.2.2 c hc
            exact vb_iff.mp this
          have := ih ns hclosed acc1 (m :: out) ms acc' h
          rw [this]
          simp

/-- The drain argument for the PikeVM. -/
theorem findIter_pk_eq_collect_of {start : Nat} (hs : VUtf8 inp start ∨ inp.len < start) {ms : List MatchR}
    (h : findIter .pk prog inp start L = .ok ms) :
    ms = collectK (searchEnvPk prog inp F) (kindOf prog .pk) start := by
  unfold findIter findIterStats at h
  simp only at h
  cases hd : drain .pk prog inp L (inp.len + 3) (inp.tryMoveRight 0 start)
      { st := Bt.freshState prog 0, steps := 0, peak := 0 } [] with
  | error _ => rw [hd] at h; cases h
  | ok r =>
    obtain ⟨ms', acc'⟩ := r
    rw [hd] at h
    simp only [Except.ok.injEq] at h
    subst h
    have hOn := envOKOn_pk hw ht F
    have hpos : inp.tryMoveRight 0 start = if start ≤ inp.len then some start else none := by
      simp only [Input.tryMoveRight, Utf8.tryMoveRight, Input.len]
      by_cases hle : start ≤ inp.bytes.size
      · simp [hle]
      · simp [hle]
    have hvalid : ∀ c, inp.tryMoveRight 0 start = some c → VUtf8 inp c := by
      intro c hc
      rw [hpos] at hc
      split at hc
      · cases hc
        rcases hs with hs | hs
        · exact hs
        · omega
      · cases hc
    have := drain_pk_ok hw ht hatt (inp.len + 3) _ hvalid _ [] ms' acc' hd
    rw [this]
    simp only [List.reverse_nil, List.nil_append]
    unfold collectK Matches.collect Matches.new
    rw [C09.initialPosition_eq, hpos]
    show Matches.collectFuel _ _ (inp.len + 3) ⟨if start ≤ inp.len then some start else none⟩ =
      Matches.collectFuel _ _ (inp.len + 2) ⟨if start ≤ inp.len then some start else none⟩
    split
    · next hle =>
      have hvs : vb inp start = true := by
        rcases hs with hs | hs
        · exact vb_iff.mpr hs
        · omega
      rw [← restrict_collectFuel hOn _ _ _ hvs, ← restrict_collectFuel hOn _ _ _ hvs]
      have hlen : (restrictEnv (vb inp) (searchEnvPk prog inp F)).len = inp.len := rfl
      rw [C09.collect_fuel_suffices (restrict_ok hOn) _ (c := start) (by rw [hlen]; exact hle)
        (by rw [hlen]; omega)]
      rfl
    · rw [C09.collectFuel_none, C09.collectFuel_none]

end Generic

/-- **`findIter_eq_collect` for the PikeVM.**  If the running search of the `PikeVMExecutor` (initial
state built once per `next_match`, only `pos` advanced between attempts; one global tick budget `fuel`,
ANY) returns a list of matches, that list is the drained pure iterator over the environment whose
attempts are `pikevm::verif_attempt` with a budget `F ≥ fuel`, `F ≥ Pk.lookBound prog |haystack|` each —
anchored or not.

`_partial`: the full statement has the SAME budget `fuel` on both sides, for every `fuel`, and does not
need `Pk.lookLoopProg` (of `FindHyp2` only `wf`, `loops`, `looks`, `text`).  What is missing for it: that the stale `entry` does not
change the NUMBER of ticks of an attempt (here the two PikeVM attempts are compared through the
backtracker, by a simulation that compares ticks with `≤` only). -/
theorem findIter_pk_eq_collect_partial {prog : Prog} {inp : Input} {cs : List Nat} (H : FindHyp2 prog inp cs)
    {fuel F : Nat} (hF : fuel ≤ F) (hB : Pk.lookBound prog inp.len ≤ F) {start : Nat}
    (hs : VUtf8 inp start ∨ inp.len < start) {ms : List MatchR}
    (h : findIter .pk prog inp start fuel = .ok ms) :
    ms = collectK (searchEnvPk prog inp F) (kindOf prog .pk) start :=
  findIter_pk_eq_collect_of H.wf H.text (pkAttempt_env H hF hB) hs h

end Regress.Closure2
