import Proofs.Lemmas.LowerStruct
/-!
# ES specification: the normal form of an AST has the same Matcher

`normalize` (flatten a `cat` directly in a `cat`, drop an `empty` in a `cat`, flatten an `alt`
directly in an `alt` — the shapes the pattern text cannot express) does not change the number of
capture groups, the named groups, nor the Matcher that `compileNode` builds.
-/
namespace Regress.Lower

open Regress Regress.ES

theorem Matcher.ext' {m1 m2 : Matcher} (h : ∀ fuel x c, m1.run fuel x c = m2.run fuel x c) : m1 = m2 := by
  cases m1; cases m2
  congr 1
  funext fuel x c
  exact h fuel x c

/-! ## Counting and naming groups -/

theorem countParensList_append (xs ys : List Node) :
    countParensList (xs ++ ys) = countParensList xs + countParensList ys := by
  induction xs with
  | nil => simp [countParensList]
  | cons x xs ih => simp [countParensList, ih]; omega

theorem namedGroupsList_append (xs ys : List Node) (pi : Nat) :
    namedGroupsList (xs ++ ys) pi = namedGroupsList xs pi ++ namedGroupsList ys (pi + countParensList xs) := by
  induction xs generalizing pi with
  | nil => simp [namedGroupsList, countParensList]
  | cons x xs ih =>
    simp only [List.cons_append, namedGroupsList, countParensList, ih, List.append_assoc]
    rw [Nat.add_assoc]

theorem normalize_counts (n : Node) :
    countParens (normalize n) = countParens n ∧ ∀ pi, namedGroups (normalize n) pi = namedGroups n pi := by
  induction n using Node.rec
    (motive_2 := fun ns =>
      (countParensList (normCat ns) = countParensList ns ∧
        ∀ pi, namedGroupsList (normCat ns) pi = namedGroupsList ns pi) ∧
      (countParensList (normAlt ns) = countParensList ns ∧
        ∀ pi, namedGroupsList (normAlt ns) pi = namedGroupsList ns pi)) with
  | cat ns ih => exact ⟨by simp [normalize, countParens, ih.1.1], fun pi => by simp [normalize, namedGroups, ih.1.2]⟩
  | alt ns ih => exact ⟨by simp [normalize, countParens, ih.2.1], fun pi => by simp [normalize, namedGroups, ih.2.2]⟩
  | group idx name n ih =>
    exact ⟨by simp [normalize, countParens, ih.1], fun pi => by simp [normalize, namedGroups, ih.2]⟩
  | nc n ih => exact ⟨by simp [normalize, countParens, ih.1], fun pi => by simp [normalize, namedGroups, ih.2]⟩
  | mod add rem n ih =>
    exact ⟨by simp [normalize, countParens, ih.1], fun pi => by simp [normalize, namedGroups, ih.2]⟩
  | look ahead neg n ih =>
    exact ⟨by simp [normalize, countParens, ih.1], fun pi => by simp [normalize, namedGroups, ih.2]⟩
  | quant min max greedy n ih =>
    exact ⟨by simp [normalize, countParens, ih.1], fun pi => by simp [normalize, namedGroups, ih.2]⟩
  | nil => simp [normCat, normAlt]
  | cons a as iha ihas =>
    refine ⟨?_, ?_⟩
    · -- normCat
      have hX : countParensList (catItems (normalize a)) = countParens a ∧
          ∀ pi, namedGroupsList (catItems (normalize a)) pi = namedGroups a pi := by
        rw [← iha.1]
        have hng := iha.2
        cases h : normalize a <;> simp only [h, catItems] at hng ⊢ <;>
          first
            | exact ⟨by simp [countParens, countParensList], fun pi => by
                rw [← hng pi]; simp [namedGroups, namedGroupsList]⟩
      simp only [normCat, countParensList_append, namedGroupsList_append, hX.1, hX.2, ihas.1.1, ihas.1.2,
        countParensList, namedGroupsList, and_self, implies_true]
    · have hX : countParensList (altItems (normalize a)) = countParens a ∧
          ∀ pi, namedGroupsList (altItems (normalize a)) pi = namedGroups a pi := by
        rw [← iha.1]
        have hng := iha.2
        cases h : normalize a <;> simp only [h, altItems] at hng ⊢ <;>
          first
            | exact ⟨by simp [countParens, countParensList], fun pi => by
                rw [← hng pi]; simp [namedGroups, namedGroupsList]⟩
      simp only [normAlt, countParensList_append, namedGroupsList_append, hX.1, hX.2, ihas.2.1, ihas.2.2,
        countParensList, namedGroupsList, and_self, implies_true]
  | _ => simp [normalize]

theorem groupSpecifiers_normalize (a : Node) (name : List Nat) :
    groupSpecifiersThatMatch (normalize a) name = groupSpecifiersThatMatch a name := by
  simp only [groupSpecifiersThatMatch, (normalize_counts a).2]


/-! ## Matcher algebra -/

def failMatcher : Matcher := ⟨fun _ _ _ => .failure⟩

theorem seq_empty_right (acc : Matcher) (d : Direction) : matchSequence acc emptyMatcher d = acc := by
  apply Matcher.ext'
  intro fuel x c
  cases d <;> simp [matchSequence, emptyMatcher]

theorem twoAlt_fail_left (m : Matcher) : matchTwoAlternatives failMatcher m = m := by
  apply Matcher.ext'
  intro fuel x c
  simp [matchTwoAlternatives, failMatcher]

theorem twoAlt_fail_right (m : Matcher) : matchTwoAlternatives m failMatcher = m := by
  apply Matcher.ext'
  intro fuel x c
  simp only [matchTwoAlternatives, failMatcher]
  cases m.run fuel x c <;> rfl

theorem CA_append (input : Array Nat) (p : Node) : ∀ (xs ys : List Node) (acc : Matcher) (rer : RER)
    (d : Direction) (pi : Nat),
    compileAlternative input p acc (xs ++ ys) rer d pi =
      compileAlternative input p (compileAlternative input p acc xs rer d pi) ys rer d (pi + countParensList xs)
  | [], ys, acc, rer, d, pi => by simp [compileAlternative, countParensList]
  | x :: xs, ys, acc, rer, d, pi => by
    simp only [List.cons_append, compileAlternative, countParensList]
    rw [CA_append input p xs ys, Nat.add_assoc]

/-- `compileAlternative` from an accumulator is the sequence of the accumulator and the rest. -/
theorem CA_seq (input : Array Nat) (p : Node) (ms : List Node) (acc : Matcher) (rer : RER) (d : Direction) (pi : Nat) :
    compileAlternative input p acc ms rer d pi =
      matchSequence acc (compileAlternative input p emptyMatcher ms rer d pi) d := by
  apply Matcher.ext'
  intro fuel x c
  cases d with
  | forward => rw [compileAlternative_fwd]; simp [matchSequence]
  | backward => rw [compileAlternative_bwd]; simp [matchSequence]

theorem CD_nil (input : Array Nat) (p : Node) (rer : RER) (d : Direction) (pi : Nat) :
    compileDisjunction input p [] rer d pi = failMatcher := by
  simp [compileDisjunction, failMatcher]

theorem CD_append (input : Array Nat) (p : Node) : ∀ (xs ys : List Node) (rer : RER) (d : Direction) (pi : Nat),
    compileDisjunction input p (xs ++ ys) rer d pi =
      matchTwoAlternatives (compileDisjunction input p xs rer d pi)
        (compileDisjunction input p ys rer d (pi + countParensList xs))
  | [], ys, rer, d, pi => by simp [CD_nil, twoAlt_fail_left, countParensList]
  | [a], ys, rer, d, pi => by
    cases ys with
    | nil =>
      simp only [List.append_nil, compileDisjunction]
      exact (twoAlt_fail_right _).symm
    | cons y ys => simp [compileDisjunction, countParensList]
  | a :: b :: xs, ys, rer, d, pi => by
    have ih := CD_append input p (b :: xs) ys rer d (pi + countParens a)
    simp only [List.cons_append] at ih ⊢
    simp only [compileDisjunction, ih, matchTwoAlternatives_assoc, countParensList, Nat.add_assoc]

/-! ## The Matcher of the normal form -/

theorem normalize_compile (input : Array Nat) (p : Node) (n : Node) :
    ∀ rer d pi, compileNode input p (normalize n) rer d pi = compileNode input p n rer d pi := by
  induction n using Node.rec
    (motive_2 := fun ns =>
      (∀ acc rer d pi, compileAlternative input p acc (normCat ns) rer d pi =
          compileAlternative input p acc ns rer d pi) ∧
      (∀ rer d pi, compileDisjunction input p (normAlt ns) rer d pi =
          compileDisjunction input p ns rer d pi)) with
  | cat ns ih => intro rer d pi; simp only [normalize, compileNode, ih.1]
  | alt ns ih => intro rer d pi; simp only [normalize, compileNode, ih.2]
  | group idx name n ih => intro rer d pi; simp only [normalize, compileNode, ih]
  | nc n ih => intro rer d pi; simp only [normalize, compileNode, ih]
  | mod add rem n ih => intro rer d pi; simp only [normalize, compileNode, ih]
  | look ahead neg n ih => intro rer d pi; simp only [normalize, compileNode, ih]
  | quant min max greedy n ih =>
    intro rer d pi
    simp only [normalize, compileNode, ih, (normalize_counts n).1]
  | nil => exact ⟨fun _ _ _ _ => by simp [normCat], fun _ _ _ => by simp [normAlt]⟩
  | cons a as iha ihas =>
    have hcnt := (normalize_counts a).1
    refine ⟨fun acc rer d pi => ?_, fun rer d pi => ?_⟩
    · simp only [normCat, CA_append, ihas.1, compileAlternative]
      have hX : compileAlternative input p acc (catItems (normalize a)) rer d pi =
            matchSequence acc (compileNode input p a rer d pi) d ∧
          countParensList (catItems (normalize a)) = countParens a := by
        rw [← iha rer d pi, ← hcnt]
        cases h : normalize a <;> simp only [catItems]
        case cat ms =>
          exact ⟨by rw [CA_seq]; simp [compileNode], by simp [countParens]⟩
        case empty =>
          exact ⟨by simp [compileAlternative, compileNode, seq_empty_right], by simp [countParens, countParensList]⟩
        all_goals exact ⟨by simp [compileAlternative], by simp [countParensList]⟩
      rw [hX.1, hX.2]
    · simp only [normAlt, CD_append, ihas.2]
      have hX : compileDisjunction input p (altItems (normalize a)) rer d pi = compileNode input p a rer d pi ∧
          countParensList (altItems (normalize a)) = countParens a := by
        rw [← iha rer d pi, ← hcnt]
        cases h : normalize a <;> simp only [altItems]
        case alt ms => exact ⟨by simp [compileNode], by simp [countParens]⟩
        all_goals exact ⟨by simp [compileDisjunction], by simp [countParensList]⟩
      rw [hX.1, hX.2]
      cases as with
      | nil =>
        simp only [compileDisjunction]
        exact twoAlt_fail_right _
      | cons b bs => simp [compileDisjunction]
  | _ => intro rer d pi; simp only [normalize]

/-- One anchored attempt of the specification on the normal form and on the AST itself. -/
theorem matchAt_normalize (input : Array Nat) (a : Node) (f : Flags) (fuel i : Nat) :
    matchAt input (normalize a) (RER.ofFlags f (countParens (normalize a))) fuel i =
      matchAt input a (RER.ofFlags f (countParens a)) fuel i := by
  simp only [matchAt, (normalize_counts a).1]
  rw [normalize_compile input (normalize a) a,
    compileNode_congr_pattern input (normalize a) a (groupSpecifiers_normalize a) a]

end Regress.Lower
