import Proofs.Lemmas.TotalOpt1
/-!
# Totality of the optimizer, part 2: the invariants, and that the passes keep them / do not panic

* `All P n`: the node-local predicate `P` holds at every node of the tree `n`.
* `lookP`: a look-around encloses no capture group iff its group range is empty (the parser
  guarantees it; `WF` has the analogous fact for loops only).
* `setsP`: `CharSet` / `ByteSet` have at most `MAX_CHAR_SET_LENGTH` = 4 elements.
* `noesP`: no empty `ByteSequence`.
* `OptIn n := WF n ∧ All lookP n`: what the optimizer needs of its input.
* `*_keeps`: every pass keeps `All P` (for the `P`s above), `*_total`: no pass panics on `OptIn` trees.
-/
namespace Regress.IR

/-! ## `All P` -/

mutual
/-- `P` holds at every node of the tree. -/
def All (P : Node → Prop) : Node → Prop
  | .cat ns => P (.cat ns) ∧ AllList P ns
  | .alt l r => P (.alt l r) ∧ All P l ∧ All P r
  | .group i nm c => P (.group i nm c) ∧ All P c
  | .look a b sg eg c => P (.look a b sg eg c) ∧ All P c
  | .loop b q g0 g1 => P (.loop b q g0 g1) ∧ All P b
  | .loop1 b q => P (.loop1 b q) ∧ All P b
  | .empty => P .empty
  | .goal => P .goal
  | .char c => P (.char c)
  | .byteSeq bs => P (.byteSeq bs)
  | .byteSet bs => P (.byteSet bs)
  | .charSet cs => P (.charSet cs)
  | .matchAny => P .matchAny
  | .matchAnyExceptLT => P .matchAnyExceptLT
  | .anchor a b => P (.anchor a b)
  | .wordBoundary a b => P (.wordBoundary a b)
  | .backRef a b => P (.backRef a b)
  | .bracket bc => P (.bracket bc)
  | .stringSet a b => P (.stringSet a b)
def AllList (P : Node → Prop) : List Node → Prop
  | [] => True
  | n :: ns => All P n ∧ AllList P ns
end

theorem AllList_iff (P : Node → Prop) (ns : List Node) : AllList P ns ↔ ∀ n ∈ ns, All P n := by
  induction ns with
  | nil => simp [AllList]
  | cons x xs ih => simp [AllList, ih]

theorem AllList_append (P : Node → Prop) (xs ys : List Node) :
    AllList P (xs ++ ys) ↔ AllList P xs ∧ AllList P ys := by
  simp only [AllList_iff, List.mem_append]
  exact ⟨fun h => ⟨fun n hn => h n (.inl hn), fun n hn => h n (.inr hn)⟩,
    fun h n hn => hn.elim (h.1 n) (h.2 n)⟩

theorem All_leaf (P : Node → Prop) (n : Node) (hl : n.isLeaf = true) : All P n ↔ P n := by
  cases n <;> first | exact Iff.rfl | simp [Node.isLeaf] at hl

/-- `P` at the root. -/
theorem All.root {P : Node → Prop} {n : Node} (h : All P n) : P n := by
  cases n <;> first | exact h | exact h.1

/-- The node-local predicates we use: trivially true on `Cat`, `Alt`, `Group`, `Loop`,
`Loop1CharBody`, `Empty` and the always-failing `CharSet []`; on a look-around they may look at the
number of groups of the contents. -/
structure LocalCongr (P : Node → Prop) : Prop where
  cat : ∀ ns, P (.cat ns)
  alt : ∀ l r, P (.alt l r)
  group : ∀ i nm c, P (.group i nm c)
  loop : ∀ b q g0 g1, P (.loop b q g0 g1)
  loop1 : ∀ b q, P (.loop1 b q)
  look : ∀ {a b sg eg c c'}, numGroups c' = numGroups c → P (.look a b sg eg c) → P (.look a b sg eg c')
  empty : P .empty
  fails : P (.charSet [])

theorem All_invCongr {P : Node → Prop} (hP : LocalCongr P) : InvCongr (All P) where
  cat ns := by simp only [All, AllList_iff]; exact ⟨fun h => h.2, fun h => ⟨hP.cat ns, h⟩⟩
  alt l r := by simp only [All]; exact ⟨fun h => h.2, fun h => ⟨hP.alt l r, h⟩⟩
  group_sub h := h.2
  group_re _ h' _ := ⟨hP.group _ _ _, h'⟩
  look_sub h := h.2
  look_re h h' e := ⟨hP.look e h.1, h'⟩
  loop_sub h := h.2
  loop_re _ h' _ := ⟨hP.loop _ _ _ _, h'⟩
  loop1_sub h := h.2
  loop1_re _ h' _ := ⟨hP.loop1 _ _, h'⟩

theorem WF_invCongr : InvCongr WF where
  cat ns := by simp only [WF]; exact WFList_iff ns
  alt l r := by simp only [WF]
  group_sub h := by simpa only [WF] using h
  group_re _ h' _ := by simpa only [WF] using h'
  look_sub h := by simpa only [WF] using h
  look_re _ h' _ := by simpa only [WF] using h'
  loop_sub h := by simp only [WF] at h; exact h.1
  loop_re h h' e := by simp only [WF] at h ⊢; rw [e]; exact ⟨h', h.2⟩
  loop1_sub h := by simp only [WF] at h; exact h.1
  loop1_re h h' e := by simp only [WF] at h ⊢; rw [e]; exact ⟨h', h.2⟩

/-! ## The predicates -/

/-- A look-around encloses no capture group iff its group range is empty. -/
def lookP : Node → Prop
  | .look _ _ sg eg c => numGroups c = 0 ↔ eg ≤ sg
  | _ => True

/-- `CharSet` / `ByteSet` have at most 4 elements. -/
def setsP : Node → Prop
  | .charSet cs => cs.length ≤ 4
  | .byteSet bs => bs.length ≤ 4
  | _ => True

/-- No empty `ByteSequence`. -/
def noesP : Node → Prop
  | .byteSeq bs => bs ≠ []
  | _ => True

theorem lookP_congr : LocalCongr lookP where
  cat _ := trivial
  alt _ _ := trivial
  group _ _ _ := trivial
  loop _ _ _ _ := trivial
  loop1 _ _ := trivial
  look e h := by simp only [lookP] at h ⊢; rw [e]; exact h
  empty := trivial
  fails := trivial

theorem setsP_congr : LocalCongr setsP where
  cat _ := trivial
  alt _ _ := trivial
  group _ _ _ := trivial
  loop _ _ _ _ := trivial
  loop1 _ _ := trivial
  look _ _ := trivial
  empty := trivial
  fails := by simp [setsP]

theorem noesP_congr : LocalCongr noesP where
  cat _ := trivial
  alt _ _ := trivial
  group _ _ _ := trivial
  loop _ _ _ _ := trivial
  loop1 _ _ := trivial
  look _ _ := trivial
  empty := trivial
  fails := trivial

/-- **What the optimizer needs of its input** (and keeps): `WF`, and the group range of every
look-around is empty iff the look-around contains no capture group. -/
def OptIn (n : Node) : Prop := WF n ∧ All lookP n

theorem OptIn_invCongr : InvCongr OptIn := InvCongr.and WF_invCongr (All_invCongr lookP_congr)

/-! ### Executable checks -/

mutual
def allB (p : Node → Bool) : Node → Bool
  | .cat ns => p (.cat ns) && allListB p ns
  | .alt l r => p (.alt l r) && allB p l && allB p r
  | .group i nm c => p (.group i nm c) && allB p c
  | .look a b sg eg c => p (.look a b sg eg c) && allB p c
  | .loop b q g0 g1 => p (.loop b q g0 g1) && allB p b
  | .loop1 b q => p (.loop1 b q) && allB p b
  | .empty => p .empty
  | .goal => p .goal
  | .char c => p (.char c)
  | .byteSeq bs => p (.byteSeq bs)
  | .byteSet bs => p (.byteSet bs)
  | .charSet cs => p (.charSet cs)
  | .matchAny => p .matchAny
  | .matchAnyExceptLT => p .matchAnyExceptLT
  | .anchor a b => p (.anchor a b)
  | .wordBoundary a b => p (.wordBoundary a b)
  | .backRef a b => p (.backRef a b)
  | .bracket bc => p (.bracket bc)
  | .stringSet a b => p (.stringSet a b)
def allListB (p : Node → Bool) : List Node → Bool
  | [] => true
  | n :: ns => allB p n && allListB p ns
end

mutual
theorem allB_sound {p : Node → Bool} {P : Node → Prop} (hp : ∀ n, p n = true → P n) :
    ∀ n : Node, allB p n = true → All P n
  | .cat ns, h => by
    simp only [allB, Bool.and_eq_true] at h; exact ⟨hp _ h.1, allListB_sound hp ns h.2⟩
  | .alt l r, h => by
    simp only [allB, Bool.and_eq_true] at h; exact ⟨hp _ h.1.1, allB_sound hp l h.1.2, allB_sound hp r h.2⟩
  | .group _ _ c, h => by simp only [allB, Bool.and_eq_true] at h; exact ⟨hp _ h.1, allB_sound hp c h.2⟩
  | .look _ _ _ _ c, h => by simp only [allB, Bool.and_eq_true] at h; exact ⟨hp _ h.1, allB_sound hp c h.2⟩
  | .loop b _ _ _, h => by simp only [allB, Bool.and_eq_true] at h; exact ⟨hp _ h.1, allB_sound hp b h.2⟩
  | .loop1 b _, h => by simp only [allB, Bool.and_eq_true] at h; exact ⟨hp _ h.1, allB_sound hp b h.2⟩
  | .empty, h => hp _ h
  | .goal, h => hp _ h
  | .char _, h => hp _ h
  | .byteSeq _, h => hp _ h
  | .byteSet _, h => hp _ h
  | .charSet _, h => hp _ h
  | .matchAny, h => hp _ h
  | .matchAnyExceptLT, h => hp _ h
  | .anchor _ _, h => hp _ h
  | .wordBoundary _ _, h => hp _ h
  | .backRef _ _, h => hp _ h
  | .bracket _, h => hp _ h
  | .stringSet _ _, h => hp _ h
theorem allListB_sound {p : Node → Bool} {P : Node → Prop} (hp : ∀ n, p n = true → P n) :
    ∀ ns : List Node, allListB p ns = true → AllList P ns
  | [], _ => trivial
  | n :: ns, h => by
    simp only [allListB, Bool.and_eq_true] at h; exact ⟨allB_sound hp n h.1, allListB_sound hp ns h.2⟩
end

def lookB : Node → Bool
  | .look _ _ sg eg c => decide (numGroups c = 0) == decide (eg ≤ sg)
  | _ => true

def setsB : Node → Bool
  | .charSet cs => decide (cs.length ≤ 4)
  | .byteSet bs => decide (bs.length ≤ 4)
  | _ => true

def noesB : Node → Bool
  | .byteSeq bs => !bs.isEmpty
  | _ => true

theorem lookB_sound (n : Node) (h : lookB n = true) : lookP n := by
  cases n <;> try trivial
  simp only [lookB, beq_iff_eq] at h
  simp only [lookP]
  rename_i sg eg c
  by_cases h1 : numGroups c = 0 <;> by_cases h2 : eg ≤ sg <;> simp_all

theorem setsB_sound (n : Node) (h : setsB n = true) : setsP n := by
  cases n <;> try trivial
  all_goals simpa [setsB, setsP] using h

theorem noesB_sound (n : Node) (h : noesB n = true) : noesP n := by
  cases n <;> try trivial
  simpa [noesB, noesP] using h

/-- Executable version of `OptIn`. -/
def optInB (n : Node) : Bool := wfNode n && allB lookB n

theorem optInB_sound {n : Node} (h : optInB n = true) : OptIn n := by
  simp only [optInB, Bool.and_eq_true] at h
  exact ⟨wfNode_sound n h.1, allB_sound lookB_sound n h.2⟩

/-! ## Every pass keeps `All P` -/

/-- The pass keeps `All P`. -/
def PassKeeps (f : PassFn) (P : Node → Prop) : Prop :=
  ∀ n w a, All P n → f n w = .ok a → All P (a.result n)

theorem decatLoop_all {P : Node → Prop} (rest : List Node) :
    ∀ acc, AllList P acc → AllList P rest → AllList P (decatLoop rest acc) := by
  induction rest with
  | nil => intro acc h _; simpa [decatLoop] using h
  | cons x rest ih =>
    intro acc ha hr
    simp only [AllList] at hr
    have hgen : AllList P (decatLoop rest (acc ++ [x])) :=
      ih _ ((AllList_append _ _ _).2 ⟨ha, by simp [AllList, hr.1]⟩) hr.2
    cases x <;> try (simpa [decatLoop] using hgen)
    case cat nn =>
      simp only [decatLoop]
      exact ih _ ((AllList_append _ _ _).2 ⟨ha, hr.1.2⟩) hr.2

theorem decat_keeps {P : Node → Prop} (hP : LocalCongr P) : PassKeeps decat P := by
  intro n w a hn h
  unfold decat at h
  split at h
  · rename_i nodes
    split at h
    · cases h; exact hP.empty
    · rename_i x; cases h; exact hn.2.1
    · split at h
      · cases h
        exact ⟨hP.cat _, decatLoop_all _ _ trivial hn.2⟩
      · cases h; exact hn
  · cases h; exact hn

theorem filter_all {P : Node → Prop} (ns : List Node) (p : Node → Bool) (h : AllList P ns) :
    AllList P (ns.filter p) := by
  rw [AllList_iff] at *
  intro n hn
  exact h n (List.mem_filter.1 hn).1

theorem removeEmpties_keeps {P : Node → Prop} (hP : LocalCongr P) : PassKeeps removeEmpties P := by
  intro n w a hn h
  unfold removeEmpties at h
  split at h
  all_goals try (cases h; exact hn)
  · split at h
    · cases h; exact hP.empty
    · cases h; exact hn
  · rename_i nodes
    dsimp only at h
    have hf := filter_all nodes (fun nn => !nn.isEmpty) hn.2
    split at h
    · cases h; exact hn
    · split at h
      · cases h; exact hP.empty
      · rename_i x heq; cases h; rw [heq] at hf; exact hf.1
      · cases h; exact ⟨hP.cat _, hf⟩
  · split at h
    · cases h; exact hP.empty
    · cases h; exact hn
  · split at h
    · cases h; exact hP.empty
    · cases h; exact hn
  · split at h
    · cases h; exact hP.empty
    · cases h; exact hn

theorem propagateEarlyFails_keeps {P : Node → Prop} (hP : LocalCongr P) : PassKeeps propagateEarlyFails P := by
  intro n w a hn h
  unfold propagateEarlyFails at h
  split at h
  · cases h; exact hn
  · split at h
    · split at h
      · cases h; exact hP.fails
      · cases h; exact hn
    · dsimp only at h
      split at h
      · cases h; exact hP.fails
      · cases h; exact hn
      · cases h; exact hn.2.2
      · cases h; exact hn.2.1
    · split at h
      · cases h; exact hn
      · split at h
        · cases h; exact hP.fails
        · cases h; exact hn
    · cases h; exact hn

theorem promote1CharLoops_keeps {P : Node → Prop} (hP : LocalCongr P) : PassKeeps promote1CharLoops P := by
  intro n w a hn h
  unfold promote1CharLoops at h
  split at h
  · split at h
    · cases h; exact hn
    · split at h
      · cases h
      · cases h; exact ⟨hP.loop1 _ _, hn.2⟩
  · cases h; exact hn

theorem AllList_replicate {P : Node → Prop} (k : Nat) (b : Node) (h : All P b) : AllList P (List.replicate k b) := by
  rw [AllList_iff]; intro n hn; rw [List.eq_of_mem_replicate hn]; exact h

theorem unrollLoops_keeps {P : Node → Prop} (hP : LocalCongr P) : PassKeeps unrollLoops P := by
  intro n w a hn h
  unfold unrollLoops at h
  split at h
  · rename_i loopee quant g0 g1
    split at h
    · cases h; exact hn
    · split at h
      · cases h; exact hn
      · split at h
        · cases h; exact hn
        · split at h
          · cases h
          · cases h; exact hn
          · rename_i unrolled hdup
            cases h
            have hu := unrollDup_eq loopee quant.min [] unrolled hdup
            have hul : unrolled = List.replicate quant.min loopee := by simpa using hu.1
            subst hul
            simp only [PassAction.result]
            refine ⟨hP.cat _, ?_⟩
            split
            · rw [AllList_append]
              exact ⟨AllList_replicate _ _ hn.2, ⟨hP.loop _ _ _ _, hn.2⟩, trivial⟩
            · exact AllList_replicate _ _ hn.2
  · cases h; exact hn

theorem flatMap_ivCodepoints_length (ivs : List (Nat × Nat)) :
    (ivs.flatMap ivCodepoints).length ≤ ivs.foldl (fun acc iv => acc + (iv.2 - iv.1 + 1)) 0 := by
  have gen : ∀ (l : List (Nat × Nat)) (a : Nat),
      a + (l.flatMap ivCodepoints).length ≤ l.foldl (fun acc iv => acc + (iv.2 - iv.1 + 1)) a := by
    intro l
    induction l with
    | nil => intro a; simp
    | cons x xs ih =>
      intro a
      simp only [List.flatMap_cons, List.length_append, List.foldl_cons]
      have := ih (a + (x.2 - x.1 + 1))
      have hx : (ivCodepoints x).length ≤ x.2 - x.1 + 1 := by simp [ivCodepoints]; omega
      omega
  simpa using gen ivs 0

theorem tryReduceBracket_some {bc : Bracket} {n : Node} (h : tryReduceBracket bc = some n) :
    ∃ cs, n = .charSet cs ∧ cs.length ≤ 4 := by
  unfold tryReduceBracket at h
  split at h
  · cases h
  · dsimp only at h
    split at h
    · cases h
    · rename_i hc
      cases h
      refine ⟨_, rfl, ?_⟩
      have := flatMap_ivCodepoints_length bc.ivs
      simp only [Regress.Gen.MAX_CHAR_SET_LENGTH] at hc
      omega

theorem simplifyBrackets_keeps {P : Node → Prop} (h1 : ∀ bc, P (.bracket bc))
    (h2 : ∀ cs : List Nat, cs.length ≤ 4 → P (.charSet cs)) : PassKeeps simplifyBrackets P := by
  intro n w a hn h
  unfold simplifyBrackets at h
  split at h
  · split at h
    · rename_i newNode hred
      cases h
      obtain ⟨cs, rfl, hcs⟩ := tryReduceBracket_some hred
      exact h2 cs hcs
    · dsimp only at h
      split at h
      · cases h; exact h1 _
      · cases h; exact hn
  · cases h; exact hn

theorem mergeLiteralBytes_all {P : Node → Prop} (h1 : ∀ bs, P (.byteSeq bs)) (lb : Bool) :
    ∀ (rest : List Node) (prev : Node), All P prev → AllList P rest →
      AllList P (mergeLiteralBytes lb prev rest).1 := by
  intro rest
  induction rest with
  | nil => intro prev hp _; simp only [mergeLiteralBytes, AllList]; exact ⟨hp, trivial⟩
  | cons curr rest ih =>
    intro prev hp hr
    simp only [AllList] at hr
    unfold mergeLiteralBytes
    split
    · split
      · exact ⟨h1 _, ih _ (h1 _) hr.2⟩
      · exact ⟨hp, ih _ hr.1 hr.2⟩
    · exact ⟨hp, ih _ hr.1 hr.2⟩

theorem formLiteralBytes_keeps {P : Node → Prop} (hP : LocalCongr P) (h1 : ∀ bs, P (.byteSeq bs))
    (h2 : ∀ cs, P (.charSet cs) → P (.byteSet cs)) : PassKeeps formLiteralBytes P := by
  intro n w a hn h
  unfold formLiteralBytes at h
  split at h
  · split at h
    · cases h; exact h1 _
    · cases h; exact hn
  · split at h
    · cases h; exact h2 _ hn
    · cases h; exact hn
  · split at h
    · cases h; exact hn
    · rename_i first rest
      dsimp only at h
      split at h
      · cases h
        exact ⟨hP.cat _, mergeLiteralBytes_all h1 _ rest first hn.2.1 hn.2.2⟩
      · cases h; exact hn
  · cases h; exact hn

/-! ## No pass panics on `OptIn` trees -/

mutual
/-- `try_duplicate` does not panic on a tree without capture groups. -/
theorem tryDuplicate_total : ∀ (n : Node) (d : Nat), WF n → All lookP n → numGroups n = 0 →
    ∃ o, Node.tryDuplicate d n = .ok o
  | .empty, d, _, _, _ => by simp only [Node.tryDuplicate]; split <;> exact ⟨_, rfl⟩
  | .goal, d, _, _, _ => by simp only [Node.tryDuplicate]; split <;> exact ⟨_, rfl⟩
  | .char _, d, _, _, _ => by simp only [Node.tryDuplicate]; split <;> exact ⟨_, rfl⟩
  | .byteSeq _, d, _, _, _ => by simp only [Node.tryDuplicate]; split <;> exact ⟨_, rfl⟩
  | .byteSet _, d, _, _, _ => by simp only [Node.tryDuplicate]; split <;> exact ⟨_, rfl⟩
  | .charSet _, d, _, _, _ => by simp only [Node.tryDuplicate]; split <;> exact ⟨_, rfl⟩
  | .stringSet _ _, d, _, _, _ => by simp only [Node.tryDuplicate]; exact ⟨_, rfl⟩
  | .matchAny, d, _, _, _ => by simp only [Node.tryDuplicate]; split <;> exact ⟨_, rfl⟩
  | .matchAnyExceptLT, d, _, _, _ => by simp only [Node.tryDuplicate]; split <;> exact ⟨_, rfl⟩
  | .anchor _ _, d, _, _, _ => by simp only [Node.tryDuplicate]; split <;> exact ⟨_, rfl⟩
  | .wordBoundary _ _, d, _, _, _ => by simp only [Node.tryDuplicate]; split <;> exact ⟨_, rfl⟩
  | .backRef _ _, d, _, _, _ => by simp only [Node.tryDuplicate]; split <;> exact ⟨_, rfl⟩
  | .bracket _, d, _, _, _ => by simp only [Node.tryDuplicate]; split <;> exact ⟨_, rfl⟩
  | .group _ _ _, d, _, _, hg => by simp [numGroups] at hg
  | .cat ns, d, hw, hl, hg => by
    simp only [Node.tryDuplicate]
    split
    · exact ⟨_, rfl⟩
    · obtain ⟨o, ho⟩ := tryDuplicateList_total ns (d + 1) (by simpa only [WF] using hw) hl.2
        (by simpa only [numGroups] using hg)
      rw [ho]; cases o <;> exact ⟨_, rfl⟩
  | .alt l r, d, hw, hl, hg => by
    simp only [WF] at hw
    simp only [numGroups] at hg
    simp only [Node.tryDuplicate]
    split
    · exact ⟨_, rfl⟩
    · obtain ⟨o1, ho1⟩ := tryDuplicate_total l (d + 1) hw.1 hl.2.1 (by omega)
      obtain ⟨o2, ho2⟩ := tryDuplicate_total r (d + 1) hw.2 hl.2.2 (by omega)
      rw [ho1]
      cases o1 with
      | none => exact ⟨_, rfl⟩
      | some l' =>
        simp only []
        rw [ho2]
        cases o2 <;> exact ⟨_, rfl⟩
  | .loop b q g0 g1, d, hw, hl, hg => by
    simp only [WF] at hw
    simp only [numGroups] at hg
    simp only [Node.tryDuplicate]
    split
    · exact ⟨_, rfl⟩
    · have hge : g0 ≥ g1 := hw.2.2.1 hg
      obtain ⟨o1, ho1⟩ := tryDuplicate_total b (d + 1) hw.1 hl.2 hg
      simp only [hge, decide_true, Bool.not_true, Bool.false_eq_true, if_false]
      rw [ho1]
      cases o1 <;> exact ⟨_, rfl⟩
  | .loop1 b q, d, hw, hl, hg => by
    simp only [WF] at hw
    simp only [numGroups] at hg
    simp only [Node.tryDuplicate]
    split
    · exact ⟨_, rfl⟩
    · obtain ⟨o1, ho1⟩ := tryDuplicate_total b (d + 1) hw.1 hl.2 hg
      rw [ho1]
      cases o1 <;> exact ⟨_, rfl⟩
  | .look ng bw sg eg c, d, hw, hl, hg => by
    simp only [WF] at hw
    simp only [numGroups] at hg
    simp only [Node.tryDuplicate]
    split
    · exact ⟨_, rfl⟩
    · have hge : sg ≥ eg := hl.1.1 hg
      obtain ⟨o1, ho1⟩ := tryDuplicate_total c (d + 1) hw hl.2 hg
      simp only [hge, decide_true, Bool.not_true, Bool.false_eq_true, if_false]
      rw [ho1]
      cases o1 <;> exact ⟨_, rfl⟩
theorem tryDuplicateList_total : ∀ (ns : List Node) (d : Nat), WFList ns → AllList lookP ns →
    numGroupsList ns = 0 → ∃ o, tryDuplicateList d ns = .ok o
  | [], d, _, _, _ => ⟨_, rfl⟩
  | n :: ns, d, hw, hl, hg => by
    simp only [WFList] at hw
    simp only [numGroupsList] at hg
    obtain ⟨o1, ho1⟩ := tryDuplicate_total n d hw.1 hl.1 (by omega)
    obtain ⟨o2, ho2⟩ := tryDuplicateList_total ns d hw.2 hl.2 (by omega)
    simp only [tryDuplicateList]
    rw [ho1]
    cases o1 with
    | none => exact ⟨_, rfl⟩
    | some n' =>
      simp only []
      rw [ho2]
      cases o2 <;> exact ⟨_, rfl⟩
end

theorem unrollDup_total (loopee : Node) (h : ∃ o, loopee.tryDuplicate 0 = .ok o) :
    ∀ (k : Nat) (acc : List Node), ∃ o, unrollDup loopee k acc = .ok o := by
  obtain ⟨o, ho⟩ := h
  intro k
  induction k with
  | zero => intro acc; exact ⟨_, rfl⟩
  | succ k ih =>
    intro acc
    unfold unrollDup
    rw [ho]
    cases o with
    | none => exact ⟨_, rfl⟩
    | some node => exact ih _

/-- **`unroll_loops` never reaches a panic site of `Node::try_duplicate`.** -/
theorem unrollLoops_total (n : Node) (w : Walk) (hn : OptIn n) : ∃ a, unrollLoops n w = .ok a := by
  unfold unrollLoops
  split
  · rename_i loopee quant g0 g1
    split
    · exact ⟨_, rfl⟩
    · rename_i hg
      split
      · exact ⟨_, rfl⟩
      · split
        · exact ⟨_, rfl⟩
        · have hw := hn.1
          simp only [WF] at hw
          have hng : numGroups loopee = 0 := hw.2.2.2 (by omega)
          obtain ⟨o, ho⟩ := unrollDup_total loopee (tryDuplicate_total loopee 0 hw.1 hn.2.2 hng) quant.min []
          rw [ho]
          cases o <;> exact ⟨_, rfl⟩
  · exact ⟨_, rfl⟩

theorem matchesExactlyOneChar_groups {n : Node} (h : n.matchesExactlyOneChar = true) : numGroups n = 0 := by
  cases n <;> simp_all [Node.matchesExactlyOneChar, numGroups]

/-- **The `assert!` of `promote_1char_loops` never fails.** -/
theorem promote1CharLoops_total (n : Node) (w : Walk) (hn : WF n) : ∃ a, promote1CharLoops n w = .ok a := by
  unfold promote1CharLoops
  split
  · rename_i loopee quant g0 g1
    split
    · exact ⟨_, rfl⟩
    · rename_i hone
      simp only [WF] at hn
      have hge : g0 ≥ g1 := hn.2.2.1 (matchesExactlyOneChar_groups (by simpa using hone))
      simp only [hge, decide_true, Bool.not_true, Bool.false_eq_true, if_false]
      exact ⟨_, rfl⟩
  · exact ⟨_, rfl⟩

theorem decat_total (n : Node) (w : Walk) : ∃ a, decat n w = .ok a := by
  unfold decat
  repeat' split
  all_goals first | exact ⟨_, rfl⟩ | (dsimp only; repeat' split) <;> exact ⟨_, rfl⟩

theorem removeEmpties_total (n : Node) (w : Walk) : ∃ a, removeEmpties n w = .ok a := by
  unfold removeEmpties
  repeat' split
  all_goals first | exact ⟨_, rfl⟩ | (dsimp only; repeat' split) <;> exact ⟨_, rfl⟩

theorem propagateEarlyFails_total (n : Node) (w : Walk) : ∃ a, propagateEarlyFails n w = .ok a := by
  unfold propagateEarlyFails
  repeat' split
  all_goals first | exact ⟨_, rfl⟩ | (dsimp only; repeat' split) <;> exact ⟨_, rfl⟩

theorem formLiteralBytes_total (n : Node) (w : Walk) : ∃ a, formLiteralBytes n w = .ok a := by
  unfold formLiteralBytes
  repeat' split
  all_goals first | exact ⟨_, rfl⟩ | (dsimp only; repeat' split) <;> exact ⟨_, rfl⟩

theorem simplifyBrackets_total (n : Node) (w : Walk) : ∃ a, simplifyBrackets n w = .ok a := by
  unfold simplifyBrackets
  repeat' split
  all_goals first | exact ⟨_, rfl⟩ | (dsimp only; repeat' split) <;> exact ⟨_, rfl⟩

end Regress.IR
