import Proofs.Lemmas.LowerIcaseSets
/-!
# ES specification ⇒ IR semantics: class sets under `i` with `v`

Under `v` with `i` the specification works with *folded* CharSets — sets of class representatives
(`MaybeSimpleCaseFolding`, `AllCharacters` = the representatives) — while the crate works with code
point sets and closes operands under "same fold" before `&&`, `--` and complement.

* `RDen R s` — the closure of `s` is `{ch | R (scfRep ch)}` and `R` only holds of representatives.
* `CDen R s` — the same for an `s` that is already closed: `s = {ch | R (scfRep ch)}`.
-/
namespace Regress.Lower

open Regress Regress.IR Regress.VM Regress.Parse Regress.CPS Regress.Fold

/-- `R` holds only of class representatives `≤ 0x10FFFF`. -/
def Reps (R : Nat → Bool) : Prop := ∀ a, R a = true → C10.scfRep a = a ∧ a ≤ 0x10FFFF

/-- the closure of `s` denotes the folded set `R` -/
def RDen (R : Nat → Bool) (s : IvList) : Prop :=
  WF s ∧ Reps R ∧ ∀ ch, ch ≤ 0x10FFFF → ((∃ d, mem s d ∧ C10.scfRep ch = C10.scfRep d) ↔ R (C10.scfRep ch) = true)

/-- the closed set `s` denotes the folded set `R` -/
def CDen (R : Nat → Bool) (s : IvList) : Prop :=
  WF s ∧ Closed s ∧ Reps R ∧ ∀ ch, ch ≤ 0x10FFFF → (mem s ch ↔ R (C10.scfRep ch) = true)

theorem CDen.rden {R : Nat → Bool} {s : IvList} (h : CDen R s) : RDen R s := by
  obtain ⟨hw, hc, hr, hm⟩ := h
  refine ⟨hw, hr, fun ch hch => ?_⟩
  rw [← hm ch hch]
  constructor
  · rintro ⟨d, hd, hcd⟩; exact (hc ch d hcd).2 hd
  · intro h; exact ⟨ch, h, rfl⟩

theorem RDen.closure {R : Nat → Bool} {s : IvList} (h : RDen R s) : CDen R (addIcaseCodePoints s) := by
  obtain ⟨hw, hr, hm⟩ := h
  refine ⟨C10.add_icase_wf hw, closed_closure hw, hr, fun ch hch => ?_⟩
  rw [mem_closure hw, hm ch hch]

theorem RDen.congr {R Q : Nat → Bool} {s : IvList} (h : RDen R s) (hq : ∀ a, R a = Q a) : RDen Q s := by
  have : R = Q := funext hq
  subst this; exact h

theorem CDen.congr {R Q : Nat → Bool} {s : IvList} (h : CDen R s) (hq : ∀ a, R a = Q a) : CDen Q s := by
  have : R = Q := funext hq
  subst this; exact h

/-- Matching a folded CharSet under `i`+`v` is membership in the closure. -/
theorem match_rden {rer : ES.RER} (hic : rer.ignoreCase = true) (hu : rer.hasEitherUnicodeFlag = true)
    {A : ES.CharSet} {s : IvList} (hd : RDen A.chars s) {ch : Nat} (hch : ch ≤ 0x10FFFF) :
    ES.existsCanonMember rer A ch = true ↔ mem (addIcaseCodePoints s) ch := by
  rw [existsCanonMember_icase hic hu, mem_closure hd.1, hd.2.2 ch hch]
  constructor
  · rintro ⟨a, ha, hA⟩
    have := (hd.2.1 a hA).1
    rw [← ha, this]; exact hA
  · intro h; exact ⟨C10.scfRep ch, scfRep_idem ch, h⟩

theorem match_cden {rer : ES.RER} (hic : rer.ignoreCase = true) (hu : rer.hasEitherUnicodeFlag = true)
    {A : ES.CharSet} {s : IvList} (hd : CDen A.chars s) {ch : Nat} (hch : ch ≤ 0x10FFFF) :
    ES.existsCanonMember rer A ch = true ↔ mem s ch := by
  rw [match_rden hic hu hd.rden hch, mem_closure_of_closed hd.1 hd.2.1]

/-! ## Set operations -/

theorem rden_empty : RDen (fun _ => false) [] := by
  unfold RDen Reps
  refine ⟨trivial, fun _ h => absurd h (by simp), fun ch _ => ?_⟩
  simp [mem]

theorem rden_union {R Q : Nat → Bool} {s t : IvList} (hs : RDen R s) (ht : RDen Q t) :
    RDen (fun c => R c || Q c) (addSet s t) := by
  refine ⟨C12.addSet_wf hs.1 ht.1, fun a ha => ?_, fun ch hch => ?_⟩
  · simp only [Bool.or_eq_true] at ha
    rcases ha with h | h
    · exact hs.2.1 a h
    · exact ht.2.1 a h
  · simp only [Bool.or_eq_true, ← hs.2.2 ch hch, ← ht.2.2 ch hch, C12.addSet_mem hs.1 ht.1]
    constructor
    · rintro ⟨d, hd | hd, hcd⟩
      · exact Or.inl ⟨d, hd, hcd⟩
      · exact Or.inr ⟨d, hd, hcd⟩
    · rintro (⟨d, hd, hcd⟩ | ⟨d, hd, hcd⟩)
      · exact ⟨d, Or.inl hd, hcd⟩
      · exact ⟨d, Or.inr hd, hcd⟩

theorem msf_chars_iff {rer : ES.RER} (hic : rer.ignoreCase = true) (hus : rer.unicodeSets = true) (X : ES.CharSet)
    (c : Nat) : (ES.maybeSimpleCaseFolding rer X).chars c = true ↔
      C10.scfRep c = c ∧ ∃ b, C10.scfRep b = c ∧ X.chars b = true := by
  simp only [ES.maybeSimpleCaseFolding, hic, hus, Bool.not_true, Bool.or_self, Bool.false_eq_true, if_false,
    Bool.and_eq_true, beq_iff_eq, es_scfRep_eq, List.any_eq_true, mem_scf_fibre]

/-- the folded set of a raw set: `MaybeSimpleCaseFolding` -/
theorem rden_msf {rer : ES.RER} (hic : rer.ignoreCase = true) (hus : rer.unicodeSets = true) {X : ES.CharSet}
    {s : IvList} (hd : Den X.chars s) (hb : ∀ b, X.chars b = true → b ≤ 0x10FFFF) :
    RDen (ES.maybeSimpleCaseFolding rer X).chars s := by
  unfold RDen Reps
  refine ⟨hd.1, fun a ha => ?_, fun ch hch => ?_⟩
  · obtain ⟨h1, b, hb1, hb2⟩ := (msf_chars_iff hic hus X a).1 ha
    exact ⟨h1, by rw [← hb1]; exact scfRep_le (hb b hb2)⟩
  · rw [msf_chars_iff hic hus]
    simp only [scfRep_idem, true_and]
    constructor
    · rintro ⟨d, hd', hcd⟩
      exact ⟨d, hcd.symm, (hd.2 d (mem_le_of_wf hd.1 hd')).2 hd'⟩
    · rintro ⟨b, hb1, hb2⟩
      exact ⟨b, (hd.2 b (hb b hb2)).1 hb2, hb1.symm⟩

theorem cden_inter {R Q : Nat → Bool} {s t : IvList} (hs : CDen R s) (ht : CDen Q t) :
    CDen (fun c => R c && Q c) (intersect s t) := by
  obtain ⟨hw1, hc1, hr1, hm1⟩ := hs
  obtain ⟨hw2, hc2, _, hm2⟩ := ht
  refine ⟨C12.intersect_wf hw1 hw2, fun a b hab => ?_, fun a ha => ?_, fun ch hch => ?_⟩
  · rw [C12.intersect_mem hw1 hw2, C12.intersect_mem hw1 hw2, hc1 a b hab, hc2 a b hab]
  · simp only [Bool.and_eq_true] at ha; exact hr1 a ha.1
  · rw [C12.intersect_mem hw1 hw2, hm1 ch hch, hm2 ch hch]; simp

theorem cden_sub {R Q : Nat → Bool} {s t : IvList} (hs : CDen R s) (ht : CDen Q t) :
    CDen (fun c => R c && !Q c) (remove s t) := by
  obtain ⟨hw1, hc1, hr1, hm1⟩ := hs
  obtain ⟨hw2, hc2, _, hm2⟩ := ht
  refine ⟨C12.remove_wf hw1 hw2, fun a b hab => ?_, fun a ha => ?_, fun ch hch => ?_⟩
  · rw [C12.remove_mem hw1 hw2, C12.remove_mem hw1 hw2, hc1 a b hab, hc2 a b hab]
  · simp only [Bool.and_eq_true] at ha; exact hr1 a ha.1
  · rw [C12.remove_mem hw1 hw2, hm1 ch hch, hm2 ch hch]; simp

theorem cden_union {R Q : Nat → Bool} {s t : IvList} (hs : CDen R s) (ht : CDen Q t) :
    CDen (fun c => R c || Q c) (addSet s t) := by
  obtain ⟨hw1, hc1, hr1, hm1⟩ := hs
  obtain ⟨hw2, hc2, hr2, hm2⟩ := ht
  refine ⟨C12.addSet_wf hw1 hw2, fun a b hab => ?_, fun a ha => ?_, fun ch hch => ?_⟩
  · rw [C12.addSet_mem hw1 hw2, C12.addSet_mem hw1 hw2, hc1 a b hab, hc2 a b hab]
  · simp only [Bool.or_eq_true] at ha
    rcases ha with h | h
    · exact hr1 a h
    · exact hr2 a h
  · rw [C12.addSet_mem hw1 hw2, hm1 ch hch, hm2 ch hch]; simp

theorem cden_empty : CDen (fun _ => false) [] := by
  unfold CDen Reps Closed
  refine ⟨trivial, fun _ _ _ => by simp [mem], fun _ h => absurd h (by simp), fun ch _ => ?_⟩
  simp [mem]

/-- complement relative to the representatives -/
theorem cden_complement {R : Nat → Bool} {s : IvList} (hs : CDen R s) :
    CDen (fun c => decide (c ≤ 0x10FFFF) && decide (C10.scfRep c = c) && !R c) (inverted s) := by
  obtain ⟨hw, hc, _, hm⟩ := hs
  refine ⟨C12.inverted_wf hw, closed_inverted hw hc, fun a ha => ?_, fun ch hch => ?_⟩
  · simp only [Bool.and_eq_true, decide_eq_true_eq] at ha; exact ⟨ha.1.2, ha.1.1⟩
  · rw [C12.inverted_mem hw hch, hm ch hch]
    simp [scfRep_le hch, scfRep_idem]


theorem CDen.of_rden {R : Nat → Bool} {s : IvList} (h : RDen R s) (hc : Closed s) : CDen R s := by
  obtain ⟨hw, hr, hm⟩ := h
  refine ⟨hw, hc, hr, fun ch hch => ?_⟩
  rw [← hm ch hch]
  constructor
  · intro h; exact ⟨ch, h, rfl⟩
  · rintro ⟨d, hd, hcd⟩; exact (hc ch d hcd).2 hd

/-- union with a set given by its membership -/
theorem rden_or_of_mem {R Q : Nat → Bool} {s t u : IvList} (hs : RDen R s) (ht : RDen Q t) (hu : WF u)
    (hm : ∀ x, mem u x ↔ mem s x ∨ mem t x) : RDen (fun c => R c || Q c) u := by
  refine ⟨hu, fun a ha => ?_, fun ch hch => ?_⟩
  · simp only [Bool.or_eq_true] at ha
    rcases ha with h | h
    · exact hs.2.1 a h
    · exact ht.2.1 a h
  · simp only [Bool.or_eq_true, ← hs.2.2 ch hch, ← ht.2.2 ch hch, hm]
    constructor
    · rintro ⟨d, hd | hd, hcd⟩
      · exact Or.inl ⟨d, hd, hcd⟩
      · exact Or.inr ⟨d, hd, hcd⟩
    · rintro (⟨d, hd, hcd⟩ | ⟨d, hd, hcd⟩)
      · exact ⟨d, Or.inl hd, hcd⟩
      · exact ⟨d, Or.inr hd, hcd⟩

/-- a raw set whose members take part in no class is its own folded set -/
theorem rden_trivial {P : Nat → Bool} {s : IvList} (hd : Den P s)
    (htriv : ∀ a b, C10.scfRep a = C10.scfRep b → P a = true → a = b) (hb : ∀ a, P a = true → a ≤ 0x10FFFF) :
    RDen P s := by
  refine ⟨hd.1, fun a ha => ⟨(htriv a _ (scfRep_idem a).symm ha).symm, hb a ha⟩, fun ch hch => ?_⟩
  constructor
  · rintro ⟨d, hd', hcd⟩
    have hP := (hd.2 d (mem_le_of_wf hd.1 hd')).2 hd'
    have : d = C10.scfRep ch := htriv d _ (by rw [scfRep_idem]; exact hcd.symm) hP
    rw [← this]; exact hP
  · intro h
    exact ⟨C10.scfRep ch, (hd.2 _ (scfRep_le hch)).1 h, (scfRep_idem ch).symm⟩

/-! ## `\d \s \w` and their complements, `v`-mode with `i` -/

theorem digit_le {a : Nat} (h : ES.isDigit a = true) : a ≤ 0x10FFFF := by
  simp only [ES.isDigit, Bool.and_eq_true, decide_eq_true_eq] at h; omega

theorem ws_le {a : Nat} (h : ES.isWhiteSpaceOrLT a = true) : a ≤ 0x10FFFF := by
  simp only [ES.isWhiteSpaceOrLT, Bool.or_eq_true, Bool.and_eq_true, decide_eq_true_eq, beq_iff_eq] at h; omega

theorem allCharacters_vi {rer : ES.RER} (hic : rer.ignoreCase = true) (hus : rer.unicodeSets = true) (c : Nat) :
    (ES.allCharacters rer).chars c = (decide (c ≤ 0x10FFFF) && decide (C10.scfRep c = c)) := by
  simp only [ES.allCharacters, hic, hus, Bool.and_self, if_true, es_scfRep_eq]
  cases h1 : decide (c ≤ 0x10FFFF) <;> by_cases h2 : C10.scfRep c = c <;> simp [h2]

theorem wordChars_bounded {rer : ES.RER} (hic : rer.ignoreCase = true) (hu : rer.hasEitherUnicodeFlag = true) (b : Nat)
    (h : (ES.wordCharacters rer).chars b = true) : b ≤ 0x10FFFF := by
  simp only [ES.wordCharacters, canonicalize_icase hic hu, Bool.or_eq_true] at h
  rcases h with h | h
  · have := basic_lt h; omega
  · have := basic_lt h
    exact class_le (a := b) (ch := C10.scfRep b) (scfRep_idem b).symm (by omega)

/-- `codepoints_from_class(.., icase = true)` against `CompileToCharSet` of the class escape, for a
RegExp Record with `i` and `v` (`P` abstract, as in `den_classEscape_ui`). -/
theorem cden_classEscape_vi {rer : ES.RER} (hic : rer.ignoreCase = true) (hu : rer.hasEitherUnicodeFlag = true)
    (hus : rer.unicodeSets = true) (e : ES.ClassEsc) (P : IvList) (hP : Den (escPred e) P) :
    CDen (ES.classEscape rer e).chars
      (if (classOfEsc e).2 then addIcaseCodePoints P else inverted (addIcaseCodePoints P)) := by
  have hall := allCharacters_vi hic hus
  have hwd : Den (ES.wordCharacters rer).chars (addIcaseCodePoints P) → 
      CDen (ES.maybeSimpleCaseFolding rer (ES.wordCharacters rer)).chars (addIcaseCodePoints P) := fun hd =>
    CDen.of_rden (rden_msf hic hus hd (wordChars_bounded hic hu)) (closed_closure hP.1)
  have hwc : ∀ c, (ES.wordCharacters rer).chars c = (ES.isBasicWordChar c || ES.isBasicWordChar (C10.scfRep c)) := by
    intro c; simp [ES.wordCharacters, canonicalize_icase hic hu]
  cases e
  · have := (rden_trivial hP (fun a b hab ha => digit_trivial hab ha) (fun a => digit_le)).closure
    simpa [classOfEsc, ES.classEscape, escPred] using this
  · have := (rden_trivial hP (fun a b hab ha => digit_trivial hab ha) (fun a => digit_le)).closure
    exact (cden_complement this).congr (fun c => by
      simp [ES.classEscape, ES.characterComplement, hall, escPred])
  · have hd : Den (ES.wordCharacters rer).chars (addIcaseCodePoints P) :=
      (den_closure_words hP).congr (fun c _ => (hwc c).symm)
    simpa [classOfEsc, ES.classEscape] using hwd hd
  · have hd : Den (ES.wordCharacters rer).chars (addIcaseCodePoints P) :=
      (den_closure_words hP).congr (fun c _ => (hwc c).symm)
    exact (cden_complement (hwd hd)).congr (fun c => by
      simp [ES.classEscape, ES.characterComplement, hall])
  · have := (rden_trivial hP (fun a b hab ha => ws_trivial hab ha) (fun a => ws_le)).closure
    simpa [classOfEsc, ES.classEscape, escPred] using this
  · have := (rden_trivial hP (fun a b hab ha => ws_trivial hab ha) (fun a => ws_le)).closure
    exact (cden_complement this).congr (fun c => by
      simp [ES.classEscape, ES.characterComplement, hall, escPred])

/-! ## `\p{…}` / `\P{…}`, `v`-mode with `i` -/

theorem rden_propEscape_vi {rer : ES.RER} (hic : rer.ignoreCase = true) (hus : rer.unicodeSets = true) {us : Bool}
    {kind name : Nat} {cps : IvList} (h : lowerProp us kind name = .ok (.charClass cps)) :
    RDen (ES.propEscape rer false kind name).chars cps ∧
      CDen (ES.propEscape rer true kind name).chars (inverted (addIcaseCodePoints cps)) ∧
      (∀ neg, (ES.propEscape rer neg kind name).strs = []) := by
  obtain ⟨ivs, hl, rfl, hw⟩ := lowerProp_charClass h
  have hden : Den (ES.CharSet.ofIntervals ivs).chars (ivsOfPairs ivs) :=
    (den_table hw).congr (fun c _ => by simp [ES.CharSet.ofIntervals, Packed.mem])
  have hb : ∀ b, (ES.CharSet.ofIntervals ivs).chars b = true → b ≤ 0x10FFFF := by
    intro b hb
    have : mem (ivsOfPairs ivs) b := by
      rw [mem_ivsOfPairs]; simpa [ES.CharSet.ofIntervals, Packed.mem] using hb
    exact mem_le_of_wf hden.1 this
  have hpos : RDen (ES.propEscape rer false kind name).chars (ivsOfPairs ivs) := by
    have := rden_msf hic hus hden hb
    simpa [ES.propEscape, ES.propCharSet, hl] using this
  refine ⟨hpos, ?_, ?_⟩
  · exact (cden_complement hpos.closure).congr (fun c => by
      simp [ES.propEscape, ES.characterComplement, allCharacters_vi hic hus])
  · intro neg
    cases neg <;>
      simp [ES.propEscape, ES.propCharSet, hl, ES.maybeSimpleCaseFolding, hic, hus, ES.CharSet.ofIntervals,
        ES.characterComplement]


/-! ## Class sets -/

/-- folded CharSet (no strings) against a `ClassSet` whose closure denotes it -/
structure VRDen (A : ES.CharSet) (s : ClassSet) : Prop where
  den : RDen A.chars s.cps
  strs : A.strs = []
  alts : s.alts = []

/-- the same for an already closed `ClassSet` -/
structure VCDen (A : ES.CharSet) (s : ClassSet) : Prop where
  den : CDen A.chars s.cps
  strs : A.strs = []
  alts : s.alts = []

theorem VCDen.vrden {A : ES.CharSet} {s : ClassSet} (h : VCDen A s) : VRDen A s := ⟨h.den.rden, h.strs, h.alts⟩

def OpRDen (A : ES.CharSet) : Operand → Prop
  | .char c => c ≤ 0x10FFFF ∧ (∀ x, A.chars x = (x == C10.scfRep c)) ∧ A.strs = []
  | .esc cps => RDen A.chars cps ∧ A.strs = []
  | .cls s => VRDen A s
  | .strs _ => False

def OpCDen (A : ES.CharSet) : Operand → Prop
  | .esc cps => CDen A.chars cps ∧ A.strs = []
  | .cls s => VCDen A s
  | _ => False

theorem mem_single_iff (c x : Nat) : mem [⟨c, c⟩] x ↔ x = c := by
  simp only [mem, List.mem_singleton, exists_eq_left]; omega

theorem rden_single {c : Nat} (hc : c ≤ 0x10FFFF) : RDen (fun x => x == C10.scfRep c) [⟨c, c⟩] := by
  refine ⟨⟨Nat.le_refl _, hc⟩, fun a ha => ?_, fun ch _ => ?_⟩
  · simp only [beq_iff_eq] at ha; subst ha; exact ⟨scfRep_idem c, scfRep_le hc⟩
  · simp only [mem, List.mem_singleton, exists_eq_left, beq_iff_eq]
    constructor
    · rintro ⟨d, ⟨h1, h2⟩, hcd⟩
      have : d = c := by omega
      subst this; exact hcd
    · intro h; exact ⟨c, ⟨Nat.le_refl _, Nat.le_refl _⟩, h⟩

theorem opRDen_strs {A : ES.CharSet} {op : Operand} (h : OpRDen A op) : A.strs = [] := by
  cases op with
  | char _ => exact h.2.2
  | esc _ => exact h.2
  | cls _ => exact h.strs
  | strs _ => exact h.elim

theorem vrden_unionOperand {A B : ES.CharSet} {s : ClassSet} {op : Operand} (hs : VRDen A s) (ho : OpRDen B op) :
    VRDen (A.union B) (s.unionOperand op) := by
  refine ⟨?_, union_strs_nil hs.strs (opRDen_strs ho), ?_⟩
  · cases op with
    | char c =>
      obtain ⟨hc, hb, _⟩ := ho
      have := rden_or_of_mem hs.den (rden_single hc) (C12.addOne_wf hs.den.1 hc) (fun x => by
        rw [C12.addOne_mem hs.den.1 hc, mem_single_iff])
      exact this.congr (fun x => by simp [ES.CharSet.union, hb])
    | esc cps => exact (rden_union hs.den ho.1).congr (fun x => by simp [ES.CharSet.union])
    | cls c => exact (rden_union hs.den ho.den).congr (fun x => by simp [ES.CharSet.union])
    | strs _ => exact ho.elim
  · cases op with
    | char c => exact hs.alts
    | esc cps => exact hs.alts
    | cls c => simp [ClassSet.unionOperand, hs.alts, ho.alts]
    | strs _ => exact ho.elim

theorem vrden_empty : VRDen ES.CharSet.empty ({} : ClassSet) := ⟨rden_empty, rfl, rfl⟩

/-- `close_class_set_operand` under `i` -/
theorem opCDen_close {A : ES.CharSet} {op : Operand} (h : OpRDen A op) :
    OpCDen A (closeClassSetOperand true op) := by
  cases op with
  | char c =>
    obtain ⟨hc, hb, hs⟩ := h
    simp only [closeClassSetOperand, Bool.not_true, Bool.false_eq_true, if_false, OpCDen]
    refine ⟨?_, hs⟩
    have h1 : RDen A.chars (addOne [] c) := by
      have := rden_or_of_mem rden_empty (rden_single hc) (C12.addOne_wf (s := []) trivial hc) (fun x => by
        rw [C12.addOne_mem (s := []) trivial hc, mem_single_iff])
      exact this.congr (fun x => by simp [hb])
    exact h1.closure
  | esc cps =>
    simp only [closeClassSetOperand, Bool.not_true, Bool.false_eq_true, if_false, OpCDen]
    exact ⟨h.1.closure, h.2⟩
  | cls s =>
    simp only [closeClassSetOperand, Bool.not_true, Bool.false_eq_true, if_false, OpCDen]
    exact ⟨h.den.closure, h.strs, by show foldAlternativeStrings s.alts = []; rw [h.alts]; rfl⟩
  | strs _ => exact h.elim

theorem vcden_first {B : ES.CharSet} {op : Operand} (ho : OpCDen B op) : VCDen B (({} : ClassSet).unionOperand op) := by
  cases op with
  | esc cps =>
    exact ⟨(cden_union cden_empty ho.1).congr (fun x => by simp), ho.2, rfl⟩
  | cls c =>
    exact ⟨(cden_union cden_empty ho.den).congr (fun x => by simp), ho.strs, by simp [ClassSet.unionOperand, ho.alts]⟩
  | char _ => exact ho.elim
  | strs _ => exact ho.elim

theorem vcden_intersectOperand {A B : ES.CharSet} {s : ClassSet} {op : Operand} (hs : VCDen A s) (ho : OpCDen B op) :
    VCDen (A.inter B) (s.intersectOperand op) := by
  have hstr : (A.inter B).strs = [] := by simp [ES.CharSet.inter, hs.strs]
  cases op with
  | esc cps =>
    exact ⟨(cden_inter hs.den ho.1).congr (fun x => by simp [ES.CharSet.inter]), hstr,
      by simp [ClassSet.intersectOperand, hs.alts]⟩
  | cls c =>
    refine ⟨?_, hstr, by simp [ClassSet.intersectOperand, hs.alts]⟩
    simp only [ClassSet.intersectOperand, ho.alts, collectSingles_nil]
    exact (cden_union (cden_inter hs.den ho.den) cden_empty).congr (fun x => by simp [ES.CharSet.inter])
  | char _ => exact ho.elim
  | strs _ => exact ho.elim

theorem vcden_subtractOperand {A B : ES.CharSet} {s : ClassSet} {op : Operand} (hs : VCDen A s) (ho : OpCDen B op) :
    VCDen (A.sub B) (s.subtractOperand op) := by
  have hstr : (A.sub B).strs = [] := by simp [ES.CharSet.sub, hs.strs]
  cases op with
  | esc cps =>
    exact ⟨(cden_sub hs.den ho.1).congr (fun x => by simp [ES.CharSet.sub]), hstr,
      by simp [ClassSet.subtractOperand, hs.alts]⟩
  | cls c =>
    refine ⟨?_, hstr, by simp [ClassSet.subtractOperand, hs.alts]⟩
    simp only [ClassSet.subtractOperand, ho.alts, collectSingles_nil]
    exact (cden_sub (cden_sub hs.den cden_empty) ho.den).congr (fun x => by simp [ES.CharSet.sub])
  | char _ => exact ho.elim
  | strs _ => exact ho.elim

theorem vrden_assoc {A B C : ES.CharSet} {r : ClassSet} (h : VRDen ((A.union B).union C) r)
    (ha : A.strs = []) (hb : B.strs = []) : VRDen (A.union (B.union C)) r := by
  have hc : C.strs = [] := strs_of_union_nil (by simp [ES.CharSet.union, ha, hb]) h.strs
  exact ⟨h.den.congr (fun x => by simp [ES.CharSet.union, Bool.or_assoc]),
    by simp [ES.CharSet.union, ha, hb, hc], h.alts⟩

section
variable {rer : ES.RER} (hic : rer.ignoreCase = true) (hu : rer.hasEitherUnicodeFlag = true)
  (hus : rer.unicodeSets = true) (fl : IR.Flags) (hfi : fl.icase = true)
include hic hu hus hfi

theorem opRDen_nested {negateSet : Bool} {A : ES.CharSet} {result : ClassSet} (h : VRDen A result) :
    OpRDen (if negateSet then ES.characterComplement rer A else A)
      (.cls (if negateSet then
          { result with cps := inverted (if fl.icase then Fold.addIcaseCodePoints result.cps else result.cps) }
        else result)) := by
  cases negateSet with
  | false => simpa [OpRDen] using h
  | true =>
    simp only [if_true, hfi, OpRDen]
    exact ⟨((cden_complement h.den.closure).congr (fun c => by
      simp [ES.characterComplement, allCharacters_vi hic hus])).rden, rfl, h.alts⟩

theorem msf_single_chars (cp x : Nat) :
    (ES.maybeSimpleCaseFolding rer (ES.CharSet.single cp)).chars x = (x == C10.scfRep cp) := by
  apply bool_eq_of_iff
  rw [msf_chars_iff hic hus]
  simp only [ES.CharSet.single, beq_iff_eq]
  constructor
  · rintro ⟨_, b, hb, rfl⟩; exact hb.symm
  · intro h; subst h; exact ⟨scfRep_idem cp, cp, rfl, rfl⟩

theorem msf_strs_nil (X : ES.CharSet) (h : X.strs = []) : (ES.maybeSimpleCaseFolding rer X).strs = [] := by
  simp [ES.maybeSimpleCaseFolding, hic, hus, h]

mutual
theorem den_vOperand_i : ∀ (o : ES.VOp) (op : Operand), vopOK fl.unicodeSets o = true →
    lowerVOperand fl o = .ok op → OpRDen (ES.vOpCharSet rer o) op
  | .c cp, op, hok, hl => by
    simp only [lowerVOperand, Except.ok.injEq] at hl; subst hl
    simp only [vopOK, decide_eq_true_eq] at hok
    exact ⟨hok, fun x => by simp only [ES.vOpCharSet]; exact msf_single_chars hic hu hus fl hfi cp x,
      by simp only [ES.vOpCharSet]; exact msf_strs_nil hic hu hus fl hfi _ rfl⟩
  | .r _ _, op, hok, hl => by simp [lowerVOperand] at hl
  | .esc e, op, hok, hl => by
    simp only [lowerVOperand, hfi, Except.ok.injEq] at hl; subst hl
    rw [codepointsFromClass_true]
    exact ⟨by simpa [ES.vOpCharSet] using (cden_classEscape_vi hic hu hus e _ (den_escPositive e)).rden,
      by simp [ES.vOpCharSet, classEscape_strs_icase]⟩
  | .prop pneg kind name, op, hok, hl => by
    simp only [lowerVOperand] at hl
    simp only [vopOK, propIsCharClass] at hok
    cases hp : lowerProp fl.unicodeSets kind name with
    | error e => rw [hp] at hl; cases hl
    | ok k =>
      cases k with
      | stringSet strs => simp [hp] at hok
      | charClass ivs =>
        rw [hp] at hl
        obtain ⟨hpos, hneg, hstrs⟩ := rden_propEscape_vi hic hus hp
        cases pneg with
        | false =>
          simp only [Bool.false_eq_true, if_false, Except.ok.injEq] at hl; subst hl
          exact ⟨by simpa [ES.vOpCharSet] using hpos, by simp [ES.vOpCharSet, hstrs]⟩
        | true =>
          simp only [if_true, hfi, Except.ok.injEq] at hl; subst hl
          exact ⟨by simpa [ES.vOpCharSet] using hneg.rden, by simp [ES.vOpCharSet, hstrs]⟩
  | .q _, op, hok, hl => by simp [vopOK] at hok
  | .cls negateSet vop ops, op, hok, hl => by
    simp only [vopOK] at hok
    simp only [lowerVOperand] at hl
    cases vop with
    | union =>
      simp only at hl
      cases hr : lowerVUnion fl ops {} with
      | error e => rw [hr] at hl; cases hl
      | ok result =>
        rw [hr] at hl
        simp only at hl
        split at hl
        · cases hl
        simp only [Except.ok.injEq] at hl; subst hl
        have h0 := den_vUnion_i ops {} result ES.CharSet.empty vrden_empty hok hr
        have h1 : VRDen (ES.vUnion rer ops) result :=
          ⟨h0.den.congr (fun x => by simp [ES.CharSet.union, ES.CharSet.empty]),
            strs_of_union_nil rfl h0.strs, h0.alts⟩
        simp only [ES.vOpCharSet, absorb_nil h1.alts]
        have hn := opRDen_nested hic hu hus fl hfi h1 (negateSet := negateSet)
        simpa only [hfi, if_true] using hn
    | inter =>
      simp only at hl
      cases hr : lowerVInterStart fl ops with
      | error e => rw [hr] at hl; cases hl
      | ok result =>
        rw [hr] at hl
        simp only at hl
        split at hl
        · cases hl
        simp only [Except.ok.injEq] at hl; subst hl
        have h1 := (den_vInterStart_i ops result hok hr).vrden
        simp only [ES.vOpCharSet, absorb_nil h1.alts]
        have hn := opRDen_nested hic hu hus fl hfi h1 (negateSet := negateSet)
        simpa only [hfi, if_true] using hn
    | sub =>
      simp only at hl
      cases hr : lowerVSubStart fl ops with
      | error e => rw [hr] at hl; cases hl
      | ok result =>
        rw [hr] at hl
        simp only at hl
        split at hl
        · cases hl
        simp only [Except.ok.injEq] at hl; subst hl
        have h1 := (den_vSubStart_i ops result hok hr).vrden
        simp only [ES.vOpCharSet, absorb_nil h1.alts]
        have hn := opRDen_nested hic hu hus fl hfi h1 (negateSet := negateSet)
        simpa only [hfi, if_true] using hn
theorem den_vInterStart_i : ∀ (ops : List ES.VOp) (result : ClassSet),
    vopsOK fl.unicodeSets ops = true → lowerVInterStart fl ops = .ok result → VCDen (ES.vInter rer ops) result
  | [], result, hok, hl => by simp [lowerVInterStart] at hl
  | [_], result, hok, hl => by simp [lowerVInterStart] at hl
  | o :: o2 :: os, result, hok, hl => by
    simp only [vopsOK, Bool.and_eq_true] at hok
    simp only [lowerVInterStart] at hl
    cases hf : lowerVOperand fl o with
    | error e => rw [hf] at hl; cases hl
    | ok first =>
      rw [hf] at hl
      simp only [hfi] at hl
      have h1 := den_vOperand_i o first hok.1 hf
      simp only [ES.vInter]
      exact den_vInter_i (o2 :: os) _ result _ (vcden_first (opCDen_close h1)) (by simp [vopsOK, hok.2]) hl
theorem den_vSubStart_i : ∀ (ops : List ES.VOp) (result : ClassSet),
    vopsOK fl.unicodeSets ops = true → lowerVSubStart fl ops = .ok result → VCDen (ES.vSub rer ops) result
  | [], result, hok, hl => by simp [lowerVSubStart] at hl
  | [_], result, hok, hl => by simp [lowerVSubStart] at hl
  | o :: o2 :: os, result, hok, hl => by
    simp only [vopsOK, Bool.and_eq_true] at hok
    simp only [lowerVSubStart] at hl
    cases hf : lowerVOperand fl o with
    | error e => rw [hf] at hl; cases hl
    | ok first =>
      rw [hf] at hl
      simp only [hfi] at hl
      have h1 := den_vOperand_i o first hok.1 hf
      simp only [ES.vSub]
      exact den_vSub_i (o2 :: os) _ result _ (vcden_first (opCDen_close h1)) (by simp [vopsOK, hok.2]) hl
theorem den_vUnion_i : ∀ (ops : List ES.VOp) (acc result : ClassSet) (A : ES.CharSet), VRDen A acc →
    vopsOK fl.unicodeSets ops = true → lowerVUnion fl ops acc = .ok result →
    VRDen (A.union (ES.vUnion rer ops)) result
  | [], acc, result, A, ha, hok, hl => by
    simp only [lowerVUnion, Except.ok.injEq] at hl; subst hl
    exact ⟨ha.den.congr (fun x => by simp [ES.CharSet.union, ES.vUnion, ES.CharSet.empty]),
      by simp [ES.CharSet.union, ES.vUnion, ES.CharSet.empty, ha.strs], ha.alts⟩
  | o :: os, acc, result, A, ha, hok, hl => by
    simp only [vopsOK, Bool.and_eq_true] at hok
    by_cases hr : ∃ lo hi, o = .r lo hi
    · obtain ⟨lo, hi, rfl⟩ := hr
      simp only [vopOK, Bool.and_eq_true, decide_eq_true_eq] at hok
      have : ¬ lo > hi := by omega
      simp only [lowerVUnion, this, if_false] at hl
      have hrange : Den (ES.CharSet.range lo hi).chars [⟨lo, hi⟩] := by
        refine ⟨⟨hok.1.1, hok.1.2⟩, fun c _ => ?_⟩
        simp [ES.CharSet.range, mem]
      have hrd : RDen (ES.vOpCharSet rer (.r lo hi)).chars [⟨lo, hi⟩] := by
        have := rden_msf hic hus hrange (fun b hb => by
          simp only [ES.CharSet.range, Bool.and_eq_true, decide_eq_true_eq] at hb; omega)
        simpa [ES.vOpCharSet] using this
      have hstep : VRDen (A.union (ES.vOpCharSet rer (.r lo hi))) { acc with cps := add acc.cps ⟨lo, hi⟩ } :=
        ⟨(rden_or_of_mem ha.den hrd (C12.add_wf ha.den.1 ⟨hok.1.1, hok.1.2⟩) (fun x => by
            rw [C12.add_mem ha.den.1 ⟨hok.1.1, hok.1.2⟩]
            simp [mem])).congr (fun x => by simp [ES.CharSet.union]),
          union_strs_nil ha.strs (by simp only [ES.vOpCharSet]; exact msf_strs_nil hic hu hus fl hfi _ rfl),
          ha.alts⟩
      have := den_vUnion_i os _ result _ hstep hok.2 hl
      simp only [ES.vUnion]
      exact vrden_assoc this ha.strs (by simp only [ES.vOpCharSet]; exact msf_strs_nil hic hu hus fl hfi _ rfl)
    · have hne : ∀ lo hi, o ≠ .r lo hi := fun lo hi h => hr ⟨lo, hi, h⟩
      rw [lowerVUnion_cons hne] at hl
      cases hf : lowerVOperand fl o with
      | error e => rw [hf] at hl; cases hl
      | ok x =>
        rw [hf] at hl
        have h1 := den_vOperand_i o x hok.1 hf
        have hstep := vrden_unionOperand ha h1
        have := den_vUnion_i os _ result _ hstep hok.2 hl
        simp only [ES.vUnion]
        exact vrden_assoc this ha.strs (opRDen_strs h1)
theorem den_vInter_i : ∀ (ops : List ES.VOp) (acc result : ClassSet) (A : ES.CharSet), VCDen A acc →
    vopsOK fl.unicodeSets ops = true → lowerVInter fl ops acc = .ok result →
    VCDen (ES.vInterFrom rer A ops) result
  | [], acc, result, A, ha, hok, hl => by
    simp only [lowerVInter, Except.ok.injEq] at hl; subst hl
    simpa [ES.vInterFrom] using ha
  | o :: os, acc, result, A, ha, hok, hl => by
    simp only [vopsOK, Bool.and_eq_true] at hok
    simp only [lowerVInter] at hl
    cases hf : lowerVOperand fl o with
    | error e => rw [hf] at hl; cases hl
    | ok x =>
      rw [hf] at hl
      simp only [hfi] at hl
      have h1 := den_vOperand_i o x hok.1 hf
      simp only [ES.vInterFrom]
      exact den_vInter_i os _ result _ (vcden_intersectOperand ha (opCDen_close h1)) hok.2 hl
theorem den_vSub_i : ∀ (ops : List ES.VOp) (acc result : ClassSet) (A : ES.CharSet), VCDen A acc →
    vopsOK fl.unicodeSets ops = true → lowerVSub fl ops acc = .ok result →
    VCDen (ES.vSubFrom rer A ops) result
  | [], acc, result, A, ha, hok, hl => by
    simp only [lowerVSub, Except.ok.injEq] at hl; subst hl
    simpa [ES.vSubFrom] using ha
  | o :: os, acc, result, A, ha, hok, hl => by
    simp only [vopsOK, Bool.and_eq_true] at hok
    simp only [lowerVSub] at hl
    cases hf : lowerVOperand fl o with
    | error e => rw [hf] at hl; cases hl
    | ok x =>
      rw [hf] at hl
      simp only [hfi] at hl
      have h1 := den_vOperand_i o x hok.1 hf
      simp only [ES.vSubFrom]
      exact den_vSub_i os _ result _ (vcden_subtractOperand ha (opCDen_close h1)) hok.2 hl
end

end


/-! ## Class nodes under `i` with `v` -/

/-- Class-like atoms covered under `i` + `v`. -/
def classSupportedIV (fl : IR.Flags) : ES.Node → Bool
  | .esc _ => true
  | .prop _ kind name => propIsCharClass fl.unicodeSets kind name
  | .vcls _ _ ops => vopsOK fl.unicodeSets ops
  | _ => false

theorem node_noalts_icase (s : ClassSet) (neg : Bool) (h : s.alts = []) :
    s.node true neg = mkBracket neg (addIcaseCodePoints s.cps) := by
  simp [ClassSet.node, absorb_nil h, ClassSet.nonemptyNode, h]

/-- The node of a `v`-mode class without strings under `i`, from the denotation of its set. -/
theorem vcls_node_iv {inp : Input} {cs : List Nat} (ht : Utf8Text inp cs) (pattern : ES.Node) (total : Nat)
    (rer : ES.RER) (pi : Nat) (back : Bool) (hic : rer.ignoreCase = true) (hu : rer.hasEitherUnicodeFlag = true)
    (hus : rer.unicodeSets = true) (neg : Bool) (op : ES.VSetOp) (ops : List ES.VOp) (r : ClassSet)
    (hv : VRDen (ES.vExprCharSet rer op ops) r) :
    ∃ ir', Parse.reverseCats back (r.node true neg) = .ok ir' ∧
      NodeSim inp cs total pattern (.vcls neg op ops) rer pi back (r.node true neg) ir' := by
  rw [node_noalts_icase r neg hv.alts]
  apply NodeSim.leaf (reverseCats_mkBracket _ _ _) rfl (numGroups_mkBracket _ _)
    (inRange_mkBracket _ _ _ _)
  simp only [ES.compileNode]
  cases neg with
  | false =>
    have hcc : ES.compileVCharacterClass rer false op ops = (ES.vExprCharSet rer op ops, false) := by
      simp [ES.compileVCharacterClass]
    rw [hcc]
    apply sim_bracket_gen ht total rer _ false false _ back _ _ (Or.inr hv.strs)
    intro ch hch
    rw [bracketTest_mem]
    exact bne_congr_iff (match_rden hic hu hv.den hch) false
  | true =>
    have hcc : ES.compileVCharacterClass rer true op ops =
        (ES.characterComplement rer (ES.vExprCharSet rer op ops), false) := by
      simp [ES.compileVCharacterClass, hus]
    rw [hcc]
    apply sim_bracket_gen ht total rer _ false true _ back _ _ (Or.inr rfl)
    intro ch hch
    rw [bracketTest_mem]
    have hcomp : CDen (ES.characterComplement rer (ES.vExprCharSet rer op ops)).chars
        (inverted (addIcaseCodePoints r.cps)) :=
      (cden_complement hv.den.closure).congr (fun c => by
        simp [ES.characterComplement, allCharacters_vi hic hus])
    have h1 := match_cden hic hu hcomp hch
    rw [C12.inverted_mem hv.den.closure.1 hch] at h1
    have : ES.existsCanonMember rer (ES.characterComplement rer (ES.vExprCharSet rer op ops)) ch =
        !decide (mem (addIcaseCodePoints r.cps) ch) := by
      apply bool_eq_of_iff
      rw [h1]; simp
    rw [this]
    cases decide (mem (addIcaseCodePoints r.cps) ch) <;> rfl

theorem lower_class_node_iv {inp : Input} {cs : List Nat} (ht : Utf8Text inp cs) (pattern : ES.Node) (total : Nat) :
    ∀ (n : ES.Node) (fl : IR.Flags) (rer : ES.RER) (pi : Nat) (back : Bool) (ir : Node),
      FlagsRel rer fl → fl.icase = true → fl.unicode = true → fl.unicodeSets = true →
      classSupportedIV fl n = true → lowerNode pattern total n fl pi = .ok ir →
      ∃ ir', Parse.reverseCats back ir = .ok ir' ∧ NodeSim inp cs total pattern n rer pi back ir ir' := by
  intro n fl rer pi back ir hfl hfi hfu hfus hs hl
  have hic : rer.ignoreCase = true := by rw [hfl.icase]; exact hfi
  have hu : rer.hasEitherUnicodeFlag = true := by rw [hfl.unicode]; exact hfu
  have hus : rer.unicodeSets = true := by rw [hfl.unicodeSets]; exact hfus
  cases n with
  | esc e =>
    simp only [lowerNode, hfi, makeBracketClass_icase, Except.ok.injEq] at hl; subst hl
    apply NodeSim.leaf (reverseCats_mkBracket _ _ _) rfl (numGroups_mkBracket _ _) (inRange_mkBracket _ _ _ _)
    simp only [ES.compileNode]
    have hden := cden_classEscape_vi hic hu hus e _ (den_escPositive e)
    apply sim_bracket_gen ht total rer _ false false _ back _ _ (Or.inr (classEscape_strs_icase e))
    intro ch hch
    rw [bracketTest_mem]
    exact bne_congr_iff (match_cden hic hu hden hch) false
  | prop neg kind name =>
    simp only [classSupportedIV, propIsCharClass] at hs
    simp only [lowerNode, lowerPropAtom] at hl
    split at hl
    · cases hl
    · cases hp : lowerProp fl.unicodeSets kind name with
      | error e => simp [hp] at hs
      | ok k =>
        cases k with
        | stringSet _ => simp [hp] at hs
        | charClass cps =>
          rw [hp] at hl
          simp only [hfi, hfus, Bool.and_true, if_true] at hl
          obtain ⟨hpos, hneg, hstrs⟩ := rden_propEscape_vi hic hus hp
          cases neg with
          | false =>
            simp only [Bool.false_eq_true, if_false, Except.ok.injEq] at hl; subst hl
            apply NodeSim.leaf (reverseCats_mkBracket _ _ _) rfl (numGroups_mkBracket _ _)
              (inRange_mkBracket _ _ _ _)
            simp only [ES.compileNode]
            apply sim_bracket_gen ht total rer _ false false _ back _ _ (Or.inr (hstrs false))
            intro ch hch
            rw [bracketTest_mem]
            exact bne_congr_iff (match_rden hic hu hpos hch) false
          | true =>
            simp only [if_true, Except.ok.injEq] at hl; subst hl
            apply NodeSim.leaf (reverseCats_mkBracket _ _ _) rfl (numGroups_mkBracket _ _)
              (inRange_mkBracket _ _ _ _)
            simp only [ES.compileNode]
            apply sim_bracket_gen ht total rer _ false false _ back _ _ (Or.inr (hstrs true))
            intro ch hch
            rw [bracketTest_mem]
            exact bne_congr_iff (match_cden hic hu hneg hch) false
  | vcls neg op ops =>
    simp only [classSupportedIV] at hs
    simp only [lowerNode, hfus, Bool.not_true, Bool.false_eq_true, if_false, lowerVClass] at hl
    have fin : ∀ r, VRDen (ES.vExprCharSet rer op ops) r → ir = r.node fl.icase neg →
        ∃ ir', Parse.reverseCats back ir = .ok ir' ∧
          NodeSim inp cs total pattern (.vcls neg op ops) rer pi back ir ir' := by
      intro r hv hir
      subst hir
      rw [hfi]
      exact vcls_node_iv ht pattern total rer pi back hic hu hus neg op ops r hv
    cases op with
    | union =>
      simp only at hl
      cases hr : lowerVUnion fl ops {} with
      | error e => rw [hr] at hl; cases hl
      | ok r =>
        rw [hr] at hl
        simp only at hl
        split at hl
        · cases hl
        simp only [Except.ok.injEq] at hl
        have h0 := den_vUnion_i hic hu hus fl hfi ops {} r ES.CharSet.empty vrden_empty hs hr
        exact fin r ⟨h0.den.congr (fun x => by simp [ES.vExprCharSet, ES.CharSet.union, ES.CharSet.empty]),
          strs_of_union_nil rfl h0.strs, h0.alts⟩ hl.symm
    | inter =>
      simp only at hl
      cases hr : lowerVInterStart fl ops with
      | error e => rw [hr] at hl; cases hl
      | ok r =>
        rw [hr] at hl
        simp only at hl
        split at hl
        · cases hl
        simp only [Except.ok.injEq] at hl
        exact fin r (den_vInterStart_i hic hu hus fl hfi ops r hs hr).vrden hl.symm
    | sub =>
      simp only at hl
      cases hr : lowerVSubStart fl ops with
      | error e => rw [hr] at hl; cases hl
      | ok r =>
        rw [hr] at hl
        simp only at hl
        split at hl
        · cases hl
        simp only [Except.ok.injEq] at hl
        exact fin r (den_vSubStart_i hic hu hus fl hfi ops r hs hr).vrden hl.symm
  | _ => simp [classSupportedIV] at hs

end Regress.Lower
