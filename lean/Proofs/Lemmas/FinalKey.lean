import Proofs.Lemmas.FinalOpt
import Proofs.EndToEnd
/-!
# Final, part 3: the keystone lemma and `compile_correct_pk` with `fits` instead of `maxOK`

* `fitsPred L` — `Final.fitsQ L` is closed under `unroll_loops` (a `QPred`);
* `kokF_unsat` / `rootOKF_unsat` — `kokP`/`rootOKP` for `fitsQ L` give `Keystone.kok`/`rootOK` of the
  tree with the saturated maxima removed (`unsat`), and `fits L` of the tree itself;
* `keystone_attempt_fits` — `Keystone.keystone_attempt` with `rootOKF inp.len r.node` in place of
  `rootOK r.node`: the emitted program is also the code of `unsat r.node` (`code_unsat`), whose first
  match is that of `r.node` (`firstMatch_unsat`);
* `parse_rootOKF` — the parser's output satisfies `rootOKF L` whenever it `fits L`;
* `compiled_tree_fits`, `compile_correct_pk_fits` — `EndToEnd.compiled_tree` /
  `EndToEnd.compile_correct_pk_partial` with `fits inp.len re.node` in place of `maxOK re.node`.
-/
namespace Regress.Final

open Regress Regress.IR Regress.VM Regress.VM.Pk Regress.Parse Regress.Keystone Regress.C07 Regress.E2E
open Regress.Gen

/-! ## The instance -/

theorem fitsQ_unroll (L : Nat) (q : Quant) (h : fitsQ L q = true) (hq : quantOk q = true) :
    fitsQ L { min := 0, max := q.max.map (fun v => usizeSub v q.min), greedy := q.greedy } = true := by
  unfold fitsQ at *
  unfold quantOk at hq
  cases hm : q.max with
  | none => rfl
  | some m =>
    rw [hm] at h hq
    simp only [Option.map_some, Bool.or_eq_true, Bool.and_eq_true, decide_eq_true_eq, beq_iff_eq] at h hq ⊢
    unfold usizeSub USIZE_MOD
    unfold Regress.VM.USIZE_MAX at *
    rw [if_pos hq]
    rcases h with h | ⟨h1, h2⟩
    · left; omega
    · by_cases h0 : q.min = 0
      · right; constructor <;> omega
      · left; omega

/-- `fitsQ L` as a quantifier clause. -/
@[reducible] def fitsPred (L : Nat) : QPred := ⟨fitsQ L, fitsQ_unroll L⟩

/-- `kok` with the quantifier clause `fitsQ L`. -/
def kokF (L : Nat) (n : Node) : Bool := @kokP (fitsPred L) n
def kokFList (L : Nat) (ns : List Node) : Bool := @kokPList (fitsPred L) ns
/-- `rootOK` with the quantifier clause `fitsQ L`. -/
def rootOKF (L : Nat) (n : Node) : Bool := @rootOKP (fitsPred L) n
def rootOKFList (L : Nat) (ns : List Node) : Bool := @rootOKPList (fitsPred L) ns

/-! ## From `kokF` to `kok ∘ unsat` -/

theorem oneInsn_unsat {b : Node} (h : oneInsnBody b = true) (P : Quant → Bool) :
    unsat b = b ∧ allQ P b = true := by
  cases b <;> simp [oneInsnBody] at h <;> exact ⟨rfl, rfl⟩

mutual
theorem kokF_unsat (L : Nat) : ∀ n : Node, kokF L n = true → kok (unsat n) = true ∧ fits L n = true
  | .goal, h => by simp [kokF, kokP] at h
  | .cat ns, h => by
    have := kokFList_unsat L ns (by simp only [kokF, kokP] at h; exact h)
    simpa only [unsat, kok, fits, allQ] using this
  | .alt l r, h => by
    simp only [kokF, kokP, Bool.and_eq_true] at h
    have h1 := kokF_unsat L l h.1
    have h2 := kokF_unsat L r h.2
    simp only [fits] at h1 h2
    simp only [unsat, kok, fits, allQ, Bool.and_eq_true]
    exact ⟨⟨h1.1, h2.1⟩, h1.2, h2.2⟩
  | .group _ _ c, h => by
    have := kokF_unsat L c (by simp only [kokF, kokP] at h; exact h)
    simpa only [unsat, kok, fits, allQ] using this
  | .look _ _ _ _ c, h => by
    have := kokF_unsat L c (by simp only [kokF, kokP] at h; exact h)
    simpa only [unsat, kok, fits, allQ] using this
  | .loop b q _ _, h => by
    simp only [kokF, kokP, Bool.and_eq_true] at h
    have h1 := kokF_unsat L b h.1
    have h2 : fitsQ L q = true := h.2
    simp only [fits] at h1
    simp only [unsat, kok, fits, allQ, Bool.and_eq_true]
    exact ⟨⟨h1.1, quantBounded_unsatQ h2⟩, h1.2, h2⟩
  | .loop1 b q, h => by
    simp only [kokF, kokP, Bool.and_eq_true] at h
    have h2 : fitsQ L q = true := h.2
    obtain ⟨e1, e2⟩ := oneInsn_unsat h.1 (fitsQ L)
    simp only [unsat, kok, fits, allQ, Bool.and_eq_true, e1, e2]
    exact ⟨⟨h.1, quantBounded_unsatQ h2⟩, trivial, h2⟩
  | .backRef g i, h => by
    simp only [kokF, kokP] at h
    simp only [unsat, kok, fits, allQ]
    exact ⟨h, trivial⟩
  | .empty, _ => ⟨rfl, rfl⟩
  | .char _, _ => ⟨rfl, rfl⟩
  | .byteSeq _, _ => ⟨rfl, rfl⟩
  | .byteSet _, _ => ⟨rfl, rfl⟩
  | .charSet _, _ => ⟨rfl, rfl⟩
  | .matchAny, _ => ⟨rfl, rfl⟩
  | .matchAnyExceptLT, _ => ⟨rfl, rfl⟩
  | .anchor _ _, _ => ⟨rfl, rfl⟩
  | .wordBoundary _ _, _ => ⟨rfl, rfl⟩
  | .bracket _, _ => ⟨rfl, rfl⟩
  | .stringSet _ _, _ => ⟨rfl, rfl⟩
theorem kokFList_unsat (L : Nat) : ∀ ns : List Node, kokFList L ns = true →
    kokList (unsatList ns) = true ∧ allQList (fitsQ L) ns = true
  | [], _ => ⟨rfl, rfl⟩
  | n :: ns, h => by
    simp only [kokFList, kokPList, Bool.and_eq_true] at h
    have h1 := kokF_unsat L n h.1
    have h2 := kokFList_unsat L ns h.2
    simp only [fits] at h1
    simp only [unsatList, kokList, allQList, Bool.and_eq_true]
    exact ⟨⟨h1.1, h2.1⟩, h1.2, h2.2⟩
end

theorem unsatList_isEmpty (ns : List Node) : (unsatList ns).isEmpty = ns.isEmpty := by
  cases ns <;> rfl

mutual
theorem rootOKF_unsat (L : Nat) : ∀ n : Node, rootOKF L n = true → rootOK (unsat n) = true ∧ fits L n = true
  | .cat ns, h => by
    have := rootOKFList_unsat L ns (by simp only [rootOKF, rootOKP] at h; exact h)
    simpa only [unsat, rootOK, fits, allQ] using this
  | .alt l r, h => by
    have := kokF_unsat L (.alt l r) (by simp only [rootOKF, rootOKP] at h; exact h)
    simpa only [unsat, rootOK] using this
  | .group i nm c, h => by
    have := kokF_unsat L (.group i nm c) (by simp only [rootOKF, rootOKP] at h; exact h)
    simpa only [unsat, rootOK] using this
  | .look a b c d e, h => by
    have := kokF_unsat L (.look a b c d e) (by simp only [rootOKF, rootOKP] at h; exact h)
    simpa only [unsat, rootOK] using this
  | .loop b q g0 g1, h => by
    have := kokF_unsat L (.loop b q g0 g1) (by simp only [rootOKF, rootOKP] at h; exact h)
    simpa only [unsat, rootOK] using this
  | .loop1 b q, h => by
    have := kokF_unsat L (.loop1 b q) (by simp only [rootOKF, rootOKP] at h; exact h)
    simpa only [unsat, rootOK] using this
  | .backRef g i, h => by
    have := kokF_unsat L (.backRef g i) (by simp only [rootOKF, rootOKP] at h; exact h)
    simpa only [unsat, rootOK] using this
  | .stringSet a i, _ => ⟨rfl, rfl⟩
  | .goal, _ => ⟨rfl, rfl⟩
  | .empty, _ => ⟨rfl, rfl⟩
  | .char _, _ => ⟨rfl, rfl⟩
  | .byteSeq _, _ => ⟨rfl, rfl⟩
  | .byteSet _, _ => ⟨rfl, rfl⟩
  | .charSet _, _ => ⟨rfl, rfl⟩
  | .matchAny, _ => ⟨rfl, rfl⟩
  | .matchAnyExceptLT, _ => ⟨rfl, rfl⟩
  | .anchor _ _, _ => ⟨rfl, rfl⟩
  | .wordBoundary _ _, _ => ⟨rfl, rfl⟩
  | .bracket _, _ => ⟨rfl, rfl⟩
theorem rootOKFList_unsat (L : Nat) : ∀ ns : List Node, rootOKFList L ns = true →
    rootOKList (unsatList ns) = true ∧ allQList (fitsQ L) ns = true
  | [], _ => ⟨rfl, rfl⟩
  | [n], h => by
    have h' : rootOKF L n = true := by
      simp only [rootOKFList, rootOKPList, List.isEmpty_nil, if_true] at h; exact h
    have h1 := rootOKF_unsat L n h'
    simp only [fits] at h1
    simp only [unsatList, rootOKList, allQList, List.isEmpty_nil, if_true, Bool.and_true]
    exact h1
  | n :: m :: ns, h => by
    have h' : kokF L n = true ∧ rootOKFList L (m :: ns) = true := by
      simp only [rootOKFList, rootOKPList, List.isEmpty_cons, Bool.false_eq_true, if_false,
        Bool.and_eq_true] at h
      exact h
    have h1 := kokF_unsat L n h'.1
    have h2 := rootOKFList_unsat L (m :: ns) h'.2
    simp only [fits] at h1
    simp only [unsatList, allQList, Bool.and_eq_true] at h2 ⊢
    rw [rootOKList]
    simp only [List.isEmpty_cons, Bool.false_eq_true, if_false, Bool.and_eq_true]
    exact ⟨⟨h1.1, h2.1⟩, h1.2, h2.2⟩
end

/-! ## The parser -/

mutual
theorem kokF_of_kp (L : Nat) : ∀ (n : Node), kp n = true → fits L n = true → kokF L n = true
  | .cat ns, h, hm => by
    simp only [kp] at h; simp only [fits, allQ] at hm; simp only [kokF, kokP]
    exact kokFList_of_kp L ns h hm
  | .alt l r, h, hm => by
    simp only [kp, Bool.and_eq_true] at h; simp only [fits, allQ, Bool.and_eq_true] at hm
    simp only [kokF, kokP, Bool.and_eq_true]; exact ⟨kokF_of_kp L l h.1 hm.1, kokF_of_kp L r h.2 hm.2⟩
  | .group _ _ c, h, hm => by
    simp only [kp] at h; simp only [fits, allQ] at hm; simp only [kokF, kokP]; exact kokF_of_kp L c h hm
  | .look _ _ _ _ c, h, hm => by
    simp only [kp] at h; simp only [fits, allQ] at hm; simp only [kokF, kokP]; exact kokF_of_kp L c h hm
  | .loop b q _ _, h, hm => by
    simp only [kp] at h; simp only [fits, allQ, Bool.and_eq_true] at hm
    simp only [kokF, kokP, Bool.and_eq_true]; exact ⟨kokF_of_kp L b h hm.1, hm.2⟩
  | .loop1 _ _, h, _ => by simp [kp] at h
  | .goal, h, _ => by simp [kp] at h
  | .backRef _ _, h, _ => by simpa [kp, kokF, kokP] using h
  | .empty, _, _ => rfl
  | .char _, _, _ => rfl
  | .byteSeq _, _, _ => rfl
  | .byteSet _, _, _ => rfl
  | .charSet _, _, _ => rfl
  | .matchAny, _, _ => rfl
  | .matchAnyExceptLT, _, _ => rfl
  | .anchor _ _, _, _ => rfl
  | .wordBoundary _ _, _, _ => rfl
  | .bracket _, _, _ => rfl
  | .stringSet _ _, _, _ => rfl
theorem kokFList_of_kp (L : Nat) : ∀ (ns : List Node), kpList ns = true → allQList (fitsQ L) ns = true →
    kokFList L ns = true
  | [], _, _ => rfl
  | n :: ns, h, hm => by
    simp only [kpList, Bool.and_eq_true] at h; simp only [allQList, Bool.and_eq_true] at hm
    simp only [kokFList, kokPList, Bool.and_eq_true]
    exact ⟨kokF_of_kp L n h.1 hm.1, kokFList_of_kp L ns h.2 hm.2⟩
end

/-- **The parser's output satisfies `rootOKF L` whenever it `fits L`** (cf. `E2E.parse_side`). -/
theorem parse_rootOKF {pat : List Nat} {fl : IR.Flags} {re : Regex} (hb : ∀ c ∈ pat, c ≤ 0x10FFFF)
    (hp : parse pat fl = .ok re) {L : Nat} (hf : fits L re.node = true) : rootOKF L re.node = true := by
  obtain ⟨body, hn, hk, _, _⟩ := parse_shape hb hp
  rw [hn] at hf ⊢
  simp only [fits, allQ, allQList, Bool.and_true] at hf
  have := kokF_of_kp L body hk hf
  simp only [kokF] at this
  simp [rootOKF, rootOKP, rootOKPList, this]

mutual
/-- `maxOK` is the special case "every maximum is below `usize::MAX`". -/
theorem fits_of_maxOK (L : Nat) : ∀ n : Node, maxOK n = true → fits L n = true
  | .cat ns, h => by simp only [maxOK] at h; simp only [fits, allQ]; exact fitsList_of_maxOK L ns h
  | .alt l r, h => by
    simp only [maxOK, Bool.and_eq_true] at h
    have h1 := fits_of_maxOK L l h.1; have h2 := fits_of_maxOK L r h.2
    simp only [fits] at h1 h2
    simp only [fits, allQ, Bool.and_eq_true]; exact ⟨h1, h2⟩
  | .group _ _ c, h => by
    simp only [maxOK] at h; have := fits_of_maxOK L c h; simpa only [fits, allQ] using this
  | .look _ _ _ _ c, h => by
    simp only [maxOK] at h; have := fits_of_maxOK L c h; simpa only [fits, allQ] using this
  | .loop b q _ _, h => by
    simp only [maxOK, Bool.and_eq_true] at h
    have h1 := fits_of_maxOK L b h.1
    simp only [fits] at h1
    simp only [fits, allQ, Bool.and_eq_true]; exact ⟨h1, quantBounded_fitsQ L h.2⟩
  | .loop1 b q, h => by
    simp only [maxOK, Bool.and_eq_true] at h
    have h1 := fits_of_maxOK L b h.1
    simp only [fits] at h1
    simp only [fits, allQ, Bool.and_eq_true]; exact ⟨h1, quantBounded_fitsQ L h.2⟩
  | .empty, _ => rfl
  | .goal, _ => rfl
  | .char _, _ => rfl
  | .byteSeq _, _ => rfl
  | .byteSet _, _ => rfl
  | .charSet _, _ => rfl
  | .matchAny, _ => rfl
  | .matchAnyExceptLT, _ => rfl
  | .anchor _ _, _ => rfl
  | .wordBoundary _ _, _ => rfl
  | .backRef _ _, _ => rfl
  | .bracket _, _ => rfl
  | .stringSet _ _, _ => rfl
theorem fitsList_of_maxOK (L : Nat) : ∀ ns : List Node, maxOKList ns = true → allQList (fitsQ L) ns = true
  | [], _ => rfl
  | n :: ns, h => by
    simp only [maxOKList, Bool.and_eq_true] at h
    have h1 := fits_of_maxOK L n h.1
    simp only [fits] at h1
    simp only [allQList, Bool.and_eq_true]; exact ⟨h1, fitsList_of_maxOK L ns h.2⟩
end

/-! ## The keystone lemma -/

/-- **`Keystone.keystone_attempt` with `rootOKF |haystack|` instead of `rootOK`.** -/
theorem keystone_attempt_fits {r : Regex} {prog : Prog} {inp : Input} {cs : List Nat} {p : Nat}
    (he : emit r = .ok prog) (hu : r.flags.unicode = inp.unicode) (hroot : rootOKF inp.len r.node = true)
    (hw : WF r.node) (hng : numGroups r.node < 4294967296) (hnl : numLoops r.node ≤ 65536)
    (ht : Utf8Text inp cs) (hb : AtBoundary cs p) (fuel : Nat)
    (hf : Fine (Pk.attempt prog inp fuel p)) :
    match firstMatch inp r.node p with
    | none => ∃ steps peak, Pk.attempt prog inp fuel p = .failed steps peak
    | some σ => ∃ st steps peak, Pk.attempt prog inp fuel p = .matched σ.pos st steps peak ∧
        capsOfState st = σ.caps := by
  obtain ⟨hroot', hfits⟩ := rootOKF_unsat inp.len r.node hroot
  obtain ⟨hcode, hgroups⟩ := emit_code he
  rw [Nat.mod_eq_of_lt hng] at hgroups
  have hcode' := code_unsat r.node false 0 prog.insns.size 0 hcode
  have hw' := wf_unsat r.node hw
  have hrel : Rel (initSt (unsat r.node) p) (initState prog p p) := by
    refine ⟨rfl, ?_, rfl⟩
    simp [capsOfState, initState, initSt, hgroups, capOf, numGroups_unsat]
  have hgood := Regress.C03.good_initSt cs (unsat r.node) hb
  have hrun : Pk.attempt prog inp fuel p =
      runStates prog inp fuel (fuel + 1) ((#[] : Array State).push (initState prog p p)) true 0 0 := rfl
  rw [← firstMatch_unsat ht hw hfits hb]
  unfold firstMatch
  rw [hrun] at hf ⊢
  have := fragT_node (limit := fuel) ht r.flags.unicode hu (unsat r.node) true 0 prog.insns.size 0 hroot' hw'
    (by rw [numLoops_unsat]; exact hnl) hcode'
    (initState prog p p) (initSt (unsat r.node) p) hrel hgood rfl #[] (fuel + 1) 0 0 hf
  cases hsem : sem inp (unsat r.node) true (initSt (unsat r.node) p) with
  | nil =>
    rw [hsem] at this
    obtain ⟨sf, steps, peak, ho⟩ := this
    rw [ho] at hf ⊢
    exact ⟨steps, peak, fine_empty prog inp fuel hf⟩
  | cons σ rs =>
    rw [hsem] at this
    obtain ⟨pend, sf, steps, peak, t, ⟨hrt, hip⟩, ho, _⟩ := this
    rw [ho] at hf ⊢
    obtain ⟨sf', rfl, hstep⟩ := fine_step prog inp fuel hf
    rw [hstep] at hf ⊢
    rcases hip with hgoal | hend
    · unfold tryMatchState at hf ⊢
      unfold At at hgoal
      rw [hgoal] at hf ⊢
      exact ⟨t, _, _, by rw [← hrt.pos]; rfl, hrt.caps⟩
    · exfalso
      unfold tryMatchState at hf
      rw [hend, Array.getElem?_eq_none (Nat.le_refl _)] at hf
      exact hf

/-! ## The compiled tree -/

/-- `EndToEnd.Compiled` with `rootOKF L` (from `fits L re.node`) instead of `rootOK` (from `maxOK`). -/
structure CompiledF (L : Nat) (re : Regex) (prog : Prog) (re' : Regex) : Prop where
  emit : VM.emit re' = .ok prog
  flags : re'.flags = re.flags
  pflags : prog.flags.unicode = re.flags.unicode
  wf : WF re.node
  wf' : WF re'.node
  root : rootOKF L re'.node = true
  groups : numGroups re'.node ≤ 65535
  loops : numLoops re'.node ≤ 65535
  sem : ∀ {inp : Input} {cs : List Nat}, Utf8Text inp cs → ∀ {p : Nat}, AtBoundary cs p →
    firstMatch inp re'.node p = firstMatch inp re.node p

/-- **`EndToEnd.compiled_tree` with `fits` instead of `maxOK`.** -/
theorem compiled_tree_fits {pat : List Nat} {fl : IR.Flags} {re : Regex} {prog : Prog} {ofuel : Nat}
    (hb : ∀ c ∈ pat, c ≤ 0x10FFFF) (hp : parse pat fl = .ok re) (hc : compile ofuel pat fl = .ok prog)
    {L : Nat} (hfit : fits L re.node = true) : ∃ re', CompiledF L re prog re' := by
  have ho := parse_output hb hp
  have hin := POut_optIn ho
  obtain ⟨_, hloops, hgroups⟩ := parse_side hb hp
  have hroot := parse_rootOKF hb hp hfit
  unfold compile at hc
  rw [hp] at hc
  simp only at hc
  cases hno : fl.noOpt with
  | true =>
    simp only [hno, Bool.not_true, Bool.false_eq_true, if_false] at hc
    split at hc
    · cases hc
    · rename_i p he
      cases hc
      exact ⟨re, he, rfl, EndToEnd.emit_flags he, hin.1, hin.1, hroot, hgroups, hloops, fun _ _ _ => rfl⟩
  | false =>
    simp only [hno, Bool.not_false, if_true] at hc
    split at hc
    · cases hc
    · rename_i re' hopt
      split at hc
      · cases hc
      · rename_i p he
        cases hc
        have hout := optimize_out hin (POut_sets ho) hopt
        have hside := optimize_side hin hopt
        have hsideP := @optimize_sideP (fitsPred L) _ _ _ hin hopt
        exact ⟨re', he, hout.2.2, by rw [EndToEnd.emit_flags he, hout.2.2], hin.1, hout.1.1.1, hsideP.2 hroot,
          by rw [hout.2.1]; exact hgroups,
          Nat.le_trans hside.2.2.1 hloops, fun ht _ hbd => C03.optimize_same_attempt ht hopt hin.1 hbd⟩

/-- **`EndToEnd.compile_correct_pk_partial` with `fits |haystack| re.node` instead of `maxOK re.node`.** -/
theorem compile_correct_pk_fits {pat : List Nat} {fl : IR.Flags} {re : Regex} {prog : Prog} {ofuel : Nat}
    (hb : ∀ c ∈ pat, c ≤ 0x10FFFF) (hp : parse pat fl = .ok re) (hc : compile ofuel pat fl = .ok prog)
    {inp : Input} {cs : List Nat} (ht : Utf8Text inp cs) (hfit : fits inp.len re.node = true)
    (hu : prog.flags.unicode = inp.unicode)
    {p : Nat} (hbd : AtBoundary cs p) (fuel : Nat) (hf : Fine (Pk.attempt prog inp fuel p)) :
    EndToEnd.PkAgrees (Pk.attempt prog inp fuel p) (firstMatch inp re.node p) := by
  obtain ⟨re', C⟩ := compiled_tree_fits hb hp hc hfit
  have := keystone_attempt_fits C.emit (by rw [C.flags, ← C.pflags]; exact hu) C.root C.wf'
    (by have := C.groups; omega) (by have := C.loops; omega) ht hbd fuel hf
  rw [C.sem ht hbd] at this
  unfold EndToEnd.PkAgrees
  split <;> rename_i heq <;> rw [heq] at this <;> exact this

end Regress.Final
