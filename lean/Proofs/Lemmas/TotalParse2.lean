import Proofs.Lemmas.TotalParse1
/-!
# Totality of the parser model, part 2: property escapes, legacy brackets, class sets

Besides "no panic", the lemmas here establish that every code point set the parser builds is a
well-formed `CodePointSet` (`CPS.WF`), given that the pattern's code points are `≤ 0x10FFFF`.
-/
namespace Regress.Parse
open Regress Regress.IR

open Regress Regress.IR

/-! ## Generated tables are well-formed code point sets -/

theorem wfFrom_WF : ∀ (l : List (Nat × Nat)) (lo : Nat), Packed.wfFrom lo l = true →
    CPS.WF (ivsOfPairs l) ∧ ∀ iv ∈ l, lo ≤ iv.1 := by
  intro l
  induction l with
  | nil => intro lo _; simp [ivsOfPairs, CPS.WF]
  | cons x xs ih =>
    intro lo h
    obtain ⟨a, b⟩ := x
    simp only [Packed.wfFrom, Bool.and_eq_true, decide_eq_true_eq] at h
    obtain ⟨⟨⟨h1, h2⟩, h3⟩, h4⟩ := h
    have := ih (b + 2) h4
    refine ⟨?_, ?_⟩
    · cases xs with
      | nil => simp [ivsOfPairs, CPS.WF, CPS.ivOk]; omega
      | cons y ys =>
        have hy := this.2 y (by simp)
        simp only [ivsOfPairs, List.map_cons, CPS.WF, CPS.ivOk] at *
        exact ⟨⟨h2, h3⟩, by omega, this.1⟩
    · intro iv hiv
      simp only [List.mem_cons] at hiv
      rcases hiv with rfl | hiv
      · exact h1
      · have := this.2 iv hiv; omega

theorem packed_wf_WF {l : List (Nat × Nat)} (h : Packed.wf l = true) : CPS.WF (ivsOfPairs l) :=
  (wfFrom_WF l 0 h).1

set_option maxHeartbeats 4000000 in
/-- Every table a property name can resolve to is well-formed (kernel evaluation, ≈ 25 s). -/
theorem names_wf :
    (Gen.gcNames ++ Gen.scriptNames ++ Gen.scriptExtNames ++ Gen.binaryNames).all
      (fun e => Packed.wf (Packed.decode e.2.2 e.2.1)) = true := by decide +kernel

theorem stringNames_lt : Gen.stringNames.all (fun e => decide (e.2 < 7)) = true := by decide +kernel

theorem lookup3_wf {tbl : List (Nat × Nat × Nat)} {nm : Nat} {t : Nat × Nat}
    (htbl : ∀ e ∈ tbl, e ∈ Gen.gcNames ++ Gen.scriptNames ++ Gen.scriptExtNames ++ Gen.binaryNames)
    (h : Props.lookup3 tbl nm = some t) : CPS.WF (ivsOfPairs (Packed.decode t.2 t.1)) := by
  have hm := htbl _ (C11.lookup3_some_mem h)
  have := List.all_eq_true.mp names_wf _ hm
  exact packed_wf_WF this

theorem lookup2_mem {tbl : List (Nat × Nat)} {nm i : Nat} (h : Props.lookup2 tbl nm = some i) :
    ∃ e ∈ tbl, e.2 = i := by
  unfold Props.lookup2 at h
  split at h
  · rename_i e he
    cases h
    exact ⟨e, List.mem_of_find?_eq_some he, rfl⟩
  · cases h

/-- What `propertyFromStr` returns is a well-formed table or a valid string-table index. -/
def KindOK : Props.Kind → Prop
  | .charClass p len => CPS.WF (ivsOfPairs (Packed.decode len p))
  | .stringSet idx => idx < 7

theorem propertyFromStr_ok {s : Nat} {name : Option Nat} {us : Bool} {k : Props.Kind}
    (h : Props.propertyFromStr s name us = some k) : KindOK k := by
  unfold Props.propertyFromStr at h
  split at h
  · simp only [Option.map_eq_some_iff] at h
    obtain ⟨t, ht, rfl⟩ := h
    exact lookup3_wf (by intro e he; simp [he]) ht
  · simp only [Option.map_eq_some_iff] at h
    obtain ⟨t, ht, rfl⟩ := h
    exact lookup3_wf (by intro e he; simp [he]) ht
  · simp only [Option.map_eq_some_iff] at h
    obtain ⟨t, ht, rfl⟩ := h
    exact lookup3_wf (by intro e he; simp [he]) ht
  · split at h
    · rename_i t ht
      cases h
      exact lookup3_wf (by intro e he; simp [he]) ht
    · split at h
      · rename_i i hi
        cases h
        split at hi
        · obtain ⟨e, he, rfl⟩ := lookup2_mem hi
          have := List.all_eq_true.mp stringNames_lt _ he
          simpa [KindOK] using this
        · cases hi
      · simp only [Option.map_eq_some_iff] at h
        obtain ⟨t, ht, rfl⟩ := h
        exact lookup3_wf (by intro e he; simp [he]) ht

theorem consumeEscapeLoop_ok (us : Bool) (inp : List Nat) : ∀ (buf : Nat) (name : Option Nat)
    (k : Props.Kind) (rest : List Nat),
    Props.consumeEscapeLoop us inp buf name = some (k, rest) → KindOK k ∧ SSuf rest inp := by
  induction inp with
  | nil => intro buf name k rest h; simp [Props.consumeEscapeLoop] at h
  | cons c tl ih =>
    intro buf name k rest h
    unfold Props.consumeEscapeLoop at h
    split at h
    · split at h
      · rename_i k' hk
        cases h
        exact ⟨propertyFromStr_ok hk, SSuf.of_tail _ (suf_refl _)⟩
      · cases h
    · split at h
      · split at h
        · have := ih _ _ _ _ h
          exact ⟨this.1, SSuf.of_tail _ this.2.1⟩
        · cases h
      · split at h
        · have := ih _ _ _ _ h
          exact ⟨this.1, SSuf.of_tail _ this.2.1⟩
        · cases h

/-- Every string of every property of strings has code points `≤ 0x10FFFF` (kernel evaluation). -/
theorem stringTables_bnd :
    Gen.stringTables.all (fun t => (Packed.decodeStrings t.2 t.1).all
      (fun s => s.all (fun c => decide (c ≤ 0x10FFFF)))) = true := by decide +kernel

/-- All strings have code points `≤ 0x10FFFF`. -/
def AltsBnd (alts : List (List Nat)) : Prop := ∀ a ∈ alts, Bnd a

theorem stringTable_bnd {idx : Nat} {t : Nat × Nat} (h : Gen.stringTables[idx]? = some t) :
    AltsBnd (Packed.decodeStrings t.2 t.1) := by
  have hm : t ∈ Gen.stringTables := List.mem_of_getElem? h
  have h1 := List.all_eq_true.mp stringTables_bnd t hm
  intro a ha c hc
  have h2 := List.all_eq_true.mp h1 a ha
  have h3 := List.all_eq_true.mp h2 c hc
  simpa using h3

/-- Postcondition of `propertyEscape`. -/
def PropOK : PropKind → Prop
  | .charClass ivs => CPS.WF ivs
  | .stringSet strs => AltsBnd strs

/-- `try_consume_unicode_property_escape`: the `string_property_sets` index is in range. -/
theorem propertyEscape_ens (us : Bool) (inp : List Nat) :
    Ens (propertyEscape us inp) (fun p => PropOK p.1 ∧ SSuf p.2 inp) := by
  unfold propertyEscape
  split
  · simp
  · rename_i p len rest h
    unfold Props.consumePropertyEscape at h
    split at h
    · have := consumeEscapeLoop_ok us _ _ _ _ _ h
      exact ⟨this.1, SSuf.of_tail _ this.2.1⟩
    · cases h
  · rename_i idx rest h
    unfold Props.consumePropertyEscape at h
    split at h
    · have := consumeEscapeLoop_ok us _ _ _ _ _ h
      have hlt : idx < 7 := this.1
      split
      · rename_i p len hget
        simp only [Ens_ok, PropOK]
        exact ⟨stringTable_bnd hget, SSuf.of_tail _ this.2.1⟩
      · rename_i hnone
        exfalso
        have : idx < Gen.stringTables.length := by simpa [Gen.stringTables] using hlt
        simp at hnone
        omega
    · cases h

open Regress Regress.IR

/-! ## Character classes -/

theorem ccDigits_wf : CPS.WF ccDigits := (CPS.wf_iff_WF _).1 (by decide +kernel)
theorem ccWordChars_wf : CPS.WF ccWordChars := (CPS.wf_iff_WF _).1 (by decide +kernel)
theorem ccSpaces_wf : CPS.WF (ccLineTerminator.foldl CPS.add ccWhitespace) :=
  (CPS.wf_iff_WF _).1 (by decide +kernel)

theorem codepointsFromClassPositive_wf (ct : ClassType) : CPS.WF (codepointsFromClassPositive ct) := by
  cases ct
  · exact ccDigits_wf
  · exact ccSpaces_wf
  · exact ccWordChars_wf

theorem icase_wf {s : CPS.IvList} (b : Bool) (hs : CPS.WF s) :
    CPS.WF (if b then Fold.addIcaseCodePoints s else s) := by
  cases b
  · exact hs
  · exact C10.add_icase_wf hs

theorem codepointsFromClass_wf (ct : ClassType) (positive icase : Bool) :
    CPS.WF (codepointsFromClass ct positive icase) := by
  unfold codepointsFromClass
  have h := icase_wf icase (codepointsFromClassPositive_wf ct)
  simp only
  split
  · exact h
  · exact C12.inverted_wf h

theorem toIv_pairsOfIvs (cps : CPS.IvList) :
    ((pairsOfIvs cps).map fun iv => ({ first := iv.1, last := iv.2 } : CPS.Interval)) = cps := by
  unfold pairsOfIvs
  induction cps with
  | nil => rfl
  | cons x xs ih => simp only [List.map_cons, ih]

theorem mkBracket_leaf {cps : CPS.IvList} (invert : Bool) (h : CPS.WF cps) : Leaf (mkBracket invert cps) := by
  simp only [Leaf, mkBracket, POut, numGroups, toIv_pairsOfIvs, and_true]
  exact h

theorem makeBracketClass_leaf (ct : ClassType) (positive icase : Bool) :
    Leaf (makeBracketClass ct positive icase) := by
  unfold makeBracketClass
  apply mkBracket_leaf
  have h := icase_wf icase (codepointsFromClassPositive_wf ct)
  cases positive
  · exact C12.inverted_wf h
  · exact h

open Regress Regress.IR

/-! ## Legacy brackets -/

def AtomOK : ClassAtom → Prop
  | .codePoint c => c ≤ 0x10FFFF
  | .charClass _ _ => True
  | .range iv _ => CPS.WF iv

theorem addClassAtom_wf (icase : Bool) {cps : CPS.IvList} (h : CPS.WF cps) {a : ClassAtom}
    (ha : AtomOK a) : CPS.WF (addClassAtom icase cps a) := by
  cases a with
  | codePoint c => exact C12.addOne_wf h ha
  | charClass ct positive => exact C12.addSet_wf h (codepointsFromClass_wf _ _ _)
  | range iv negate =>
    simp only [addClassAtom]
    split
    · exact C12.addSet_wf h (C12.inverted_wf ha)
    · exact C12.addSet_wf h ha

/-- Postcondition of `bracketClassAtom`. -/
def AtomPost (inp : List Nat) (p : Option ClassAtom × List Nat) : Prop :=
  match p.1 with
  | none => p.2 = inp ∧ (inp = [] ∨ ∃ r, inp = 0x5D :: r)
  | some a => AtomOK a ∧ SSuf p.2 inp

theorem bracketClassAtom_ens (fl : Flags) (hn : Bool) (inp : List Nat) (hb : Bnd inp) :
    Ens (bracketClassAtom fl hn inp) (AtomPost inp) := by
  fun_cases bracketClassAtom fl hn inp
  all_goals try simp only [*]
  all_goals try (simp [AtomPost, AtomOK]; done)
  all_goals try (simp only [Ens_ok, AtomPost, AtomOK]; refine ⟨by first | trivial | omega, by ssuf_tac⟩; done)
  · simp at *; simp_all [AtomPost]
  · exact (propertyEscape_ens _ _).error_of_eq ‹_›
  · have := (propertyEscape_ens _ _).ok_of_eq ‹propertyEscape _ _ = _›
    exact ⟨this.1, SSuf.of_tail _ (suf_cons _ this.2.1)⟩
  · exact (characterEscape_ens _ _ _ _ hb.tail).error_of_eq ‹_›
  · have := (characterEscape_ens _ _ _ _ hb.tail).ok_of_eq ‹characterEscape _ _ _ = _›
    exact ⟨this.2, SSuf.of_tail _ this.1.1⟩
  · exact ⟨hb.head, by ssuf_tac⟩

open Regress Regress.IR

theorem bracketLoop_ens (fl : Flags) (hn : Bool) (invert : Bool) (fuel : Nat) (inp : List Nat) (cps : CPS.IvList)
    (hf : inp.length < fuel) (hb : Bnd inp) (hw : CPS.WF cps) :
    Ens (bracketLoop fl hn invert fuel inp cps) (fun p => Leaf p.1 ∧ SSuf p.2 inp) := by
  fun_induction bracketLoop fl hn invert fuel inp cps
  all_goals try simp only [*]
  all_goals try (simp; done)
  · simp at hf
  · rename_i cps0 _ _ _ _
    exact ⟨mkBracket_leaf _ (icase_wf _ hw), by ssuf_tac⟩
  · exact (bracketClassAtom_ens _ _ _ hb).error_of_eq ‹_›
  · -- the atom is `none` only at `]` or at the end of input: impossible here
    have h := (bracketClassAtom_ens _ _ _ hb).ok_of_eq ‹bracketClassAtom _ _ _ = _›
    simp [AtomPost] at h
    simp_all
  · have h1 := (bracketClassAtom_ens _ _ _ hb).ok_of_eq ‹bracketClassAtom _ _ (_ :: _) = _›
    simp only [AtomPost] at h1
    have hb2 : Bnd _ := (hb.suf h1.2.1).tail
    exact (bracketClassAtom_ens _ _ _ hb2).error_of_eq ‹_›
  · rename_i ec rest1 _ second inp2 inp3 _ _ ih
    have h1 := (bracketClassAtom_ens _ _ _ hb).ok_of_eq ‹bracketClassAtom _ _ (_ :: _) = _›
    simp only [AtomPost] at h1
    have hb2 : Bnd _ := (hb.suf h1.2.1).tail
    have h2 := (bracketClassAtom_ens _ _ _ hb2).ok_of_eq ‹bracketClassAtom _ _ _ = Except.ok (none, _)›
    simp only [AtomPost] at h2
    have hs : SSuf inp3 (ec :: rest1) := by
      rw [h2.1]; exact SSuf.suf_trans (suf_cons 45 (suf_refl _)) h1.2
    refine (ih (by have := hs.2; simp only [List.length_cons] at hf this; omega) (hb.suf hs.1)
      (addClassAtom_wf _ (addClassAtom_wf _ hw h1.1) (by simp [AtomOK]))).mono ?_
    exact fun p hp => ⟨hp.1, hp.2.trans hs⟩
  · rename_i ih
    have h1 := (bracketClassAtom_ens _ _ _ hb).ok_of_eq ‹bracketClassAtom _ _ (_ :: _) = _›
    simp only [AtomPost] at h1
    have hb2 : Bnd _ := (hb.suf h1.2.1).tail
    have h2 := (bracketClassAtom_ens _ _ _ hb2).ok_of_eq ‹bracketClassAtom _ _ _ = Except.ok (some _, _)›
    simp only [AtomPost] at h2
    have hs : SSuf _ _ := SSuf.trans h2.2 (SSuf.suf_trans (suf_cons _ (suf_refl _)) h1.2)
    simp only [if_false]
    refine (ih (by have := hs.2; simp only [List.length_cons] at hf this; omega) (hb.suf hs.1)
      (C12.add_wf hw ⟨by simp only; omega, h2.1⟩)).mono ?_
    exact fun p hp => ⟨hp.1, hp.2.trans hs⟩
  · rename_i ih
    have h1 := (bracketClassAtom_ens _ _ _ hb).ok_of_eq ‹bracketClassAtom _ _ (_ :: _) = _›
    simp only [AtomPost] at h1
    have hb2 : Bnd _ := (hb.suf h1.2.1).tail
    have h2 := (bracketClassAtom_ens _ _ _ hb2).ok_of_eq ‹bracketClassAtom _ _ _ = Except.ok (some _, _)›
    simp only [AtomPost] at h2
    have hs : SSuf _ _ := SSuf.trans h2.2 (SSuf.suf_trans (suf_cons _ (suf_refl _)) h1.2)
    simp only [Bool.false_eq_true, if_false]
    refine (ih (by have := hs.2; simp only [List.length_cons] at hf this; omega) (hb.suf hs.1)
      (addClassAtom_wf _ (addClassAtom_wf _ (addClassAtom_wf _ hw h1.1) (by simp [AtomOK])) h2.1)).mono ?_
    exact fun p hp => ⟨hp.1, hp.2.trans hs⟩
  · rename_i ih
    have h1 := (bracketClassAtom_ens _ _ _ hb).ok_of_eq ‹bracketClassAtom _ _ (_ :: _) = _›
    simp only [AtomPost] at h1
    refine (ih (by have := h1.2.2; simp only [List.length_cons] at hf this; omega) (hb.suf h1.2.1)
      (addClassAtom_wf _ hw h1.1)).mono ?_
    exact fun p hp => ⟨hp.1, hp.2.trans h1.2⟩

/-- `consume_bracket`: the `consume('[')` unwrap is safe on non-empty input. -/
theorem consumeBracket_ens (fl : Flags) (hn : Bool) (c : Nat) (rest : List Nat) (hb : Bnd (c :: rest)) :
    Ens (consumeBracket fl hn (c :: rest)) (fun p => Leaf p.1 ∧ SSuf p.2 (c :: rest)) := by
  have key : ∀ invert (rest' : List Nat), rest' <:+ rest →
      Ens (bracketLoop fl hn invert (rest'.length + 2) rest' []) (fun p => Leaf p.1 ∧ SSuf p.2 (c :: rest)) := by
    intro invert rest' hs
    refine (bracketLoop_ens fl hn invert _ rest' [] (by omega) (hb.tail.suf hs) (by simp [CPS.WF])).mono ?_
    exact fun p hp => ⟨hp.1, SSuf.of_tail _ (hp.2.1.trans hs)⟩
  simp only [consumeBracket]
  split
  · exact key _ _ (suf_cons _ (suf_refl _))
  · exact key _ _ (suf_refl _)

open Regress Regress.IR

/-! ## Class sets (`v` mode): the set operations preserve well-formedness -/

theorem contains_le {s : CPS.IvList} (hs : CPS.WF s) {c : Nat} (h : CPS.contains s c = true) :
    c ≤ 0x10FFFF := by
  obtain ⟨iv, hiv, _, h2⟩ := (CPS.contains_iff_mem s c).1 h
  have := ((CPS.WF_iff s).1 hs).1 iv hiv
  simp only [CPS.ivOk] at this
  omega

theorem single_wf {c : Nat} (h : c ≤ 0x10FFFF) : CPS.WF [{ first := c, last := c }] := by
  simp [CPS.WF, CPS.ivOk]; exact h

theorem nil_wf : CPS.WF [] := by simp [CPS.WF]

theorem collectSingles_wf (alts : List (List Nat)) {set : CPS.IvList} (hs : CPS.WF set) :
    CPS.WF (collectSingles alts set) := by
  unfold collectSingles
  suffices h : ∀ acc, CPS.WF acc → CPS.WF (alts.foldl (fun acc a => match single? a with
      | some c => if CPS.contains set c then CPS.addOne acc c else acc
      | none => acc) acc) from h [] nil_wf
  induction alts with
  | nil => intro acc h; exact h
  | cons a as ih =>
    intro acc h
    simp only [List.foldl_cons]
    apply ih
    split
    · split
      · exact C12.addOne_wf h (contains_le hs ‹_›)
      · exact h
    · exact h

/-- A class set whose code point part is well-formed and whose strings are in range. -/
def CSOK (cs : ClassSet) : Prop := CPS.WF cs.cps ∧ AltsBnd cs.alts

def OperandOK : Operand → Prop
  | .char c => c ≤ 0x10FFFF
  | .esc cps => CPS.WF cps
  | .cls cs => CSOK cs
  | .strs s => AltsBnd s

theorem csok_empty : CSOK {} := ⟨nil_wf, by simp [AltsBnd]⟩

theorem AltsBnd.filter {l : List (List Nat)} (h : AltsBnd l) (p : List Nat → Bool) :
    AltsBnd (l.filter p) := fun a ha => h a (List.mem_filter.mp ha).1

theorem AltsBnd.append {l l' : List (List Nat)} (h : AltsBnd l) (h' : AltsBnd l') :
    AltsBnd (l ++ l') := by
  intro a ha
  rcases List.mem_append.mp ha with ha | ha
  · exact h a ha
  · exact h' a ha

theorem AltsBnd.single {c : Nat} (h : c ≤ 0x10FFFF) : AltsBnd [[c]] := by
  intro a ha d hd
  simp only [List.mem_singleton] at ha
  subst ha
  simp only [List.mem_singleton] at hd
  subst hd
  exact h

theorem foldAlternativeStrings_bnd {alts : List (List Nat)} (h : AltsBnd alts) :
    AltsBnd (foldAlternativeStrings alts) := by
  unfold foldAlternativeStrings
  suffices hs : ∀ acc, AltsBnd acc → AltsBnd (alts.foldl (fun folded string =>
      let string := string.map Fold.fold
      if !folded.contains string then folded ++ [string] else folded) acc) from hs [] (by simp [AltsBnd])
  induction alts with
  | nil => intro acc ha; exact ha
  | cons a as ih =>
    intro acc ha
    simp only [List.foldl_cons]
    apply ih (fun x hx => h x (by simp [hx]))
    split
    · refine ha.append ?_
      intro x hx d hd
      simp only [List.mem_singleton] at hx
      subst hx
      obtain ⟨e, he, rfl⟩ := List.mem_map.mp hd
      exact C10.fold_le_max (h a (by simp) e he)
    · exact ha

theorem unionOperand_ok {self : ClassSet} {o : Operand} (hs : CSOK self) (ho : OperandOK o) :
    CSOK (self.unionOperand o) := by
  cases o with
  | char c => exact ⟨C12.addOne_wf hs.1 ho, hs.2⟩
  | esc cps => exact ⟨C12.addSet_wf hs.1 ho, hs.2⟩
  | cls c => exact ⟨C12.addSet_wf hs.1 ho.1, hs.2.append ho.2⟩
  | strs s => exact ⟨hs.1, hs.2.append ho⟩

theorem intersectOperand_ok {self : ClassSet} {o : Operand} (hs : CSOK self) (ho : OperandOK o) :
    CSOK (self.intersectOperand o) := by
  cases o with
  | char c =>
    simp only [ClassSet.intersectOperand, CSOK]
    refine ⟨?_, ?_⟩
    · split
      · exact single_wf ho
      · exact nil_wf
    · split
      · exact AltsBnd.single ho
      · simp [AltsBnd]
  | esc cps => exact ⟨C12.intersect_wf hs.1 ho, hs.2.filter _⟩
  | cls c =>
    exact ⟨C12.addSet_wf (C12.intersect_wf hs.1 ho.1) (collectSingles_wf _ hs.1),
      (hs.2.filter _).append (hs.2.filter _)⟩
  | strs s => exact ⟨collectSingles_wf _ hs.1, hs.2.filter _⟩

theorem subtractOperand_ok {self : ClassSet} {o : Operand} (hs : CSOK self) (ho : OperandOK o) :
    CSOK (self.subtractOperand o) := by
  cases o with
  | char c => exact ⟨C12.remove_wf hs.1 (single_wf ho), hs.2.filter _⟩
  | esc cps => exact ⟨C12.remove_wf hs.1 ho, hs.2.filter _⟩
  | cls c =>
    exact ⟨C12.remove_wf (C12.remove_wf hs.1 (collectSingles_wf _ hs.1)) ho.1, (hs.2.filter _).filter _⟩
  | strs s => exact ⟨C12.remove_wf hs.1 (collectSingles_wf _ hs.1), hs.2.filter _⟩

theorem closeClassSetOperand_ok (icase : Bool) {o : Operand} (ho : OperandOK o) :
    OperandOK (closeClassSetOperand icase o) := by
  unfold closeClassSetOperand
  split
  · exact ho
  · cases o with
    | char c => exact C10.add_icase_wf (C12.addOne_wf nil_wf ho)
    | esc cps => exact C10.add_icase_wf ho
    | cls c => exact ⟨C10.add_icase_wf ho.1, foldAlternativeStrings_bnd ho.2⟩
    | strs s => exact foldAlternativeStrings_bnd ho

theorem foldl_addOne_wf (l : List Nat) (hl : ∀ c ∈ l, c ≤ 0x10FFFF) :
    ∀ {s : CPS.IvList}, CPS.WF s → CPS.WF (l.foldl CPS.addOne s) := by
  induction l with
  | nil => intro s hs; exact hs
  | cons c cs ih =>
    intro s hs
    simp only [List.foldl_cons]
    exact ih (fun d hd => hl d (by simp [hd])) (C12.addOne_wf hs (hl c (by simp)))

theorem single?_some {a : List Nat} {c : Nat} (h : single? a = some c) : a = [c] := by
  unfold single? at h
  split at h
  · cases h; rfl
  · cases h

/-- `absorb_single_characters` keeps the set well-formed (the absorbed characters are in range). -/
theorem absorbSingleCharacters_ok {self : ClassSet} (hs : CSOK self) :
    CSOK self.absorbSingleCharacters := by
  refine ⟨foldl_addOne_wf _ ?_ hs.1, hs.2.filter _⟩
  intro c hc
  obtain ⟨a, ha, hac⟩ := List.mem_filterMap.mp hc
  have := single?_some hac
  subst this
  exact hs.2 _ ha c (by simp)

/-- The node of a class set: `POut`, no groups. -/
theorem altsIntoNode_leaf (alts : List (List Nat)) (icase : Bool) : Leaf (altsIntoNode alts icase) := by
  simp [Leaf, altsIntoNode, POut, numGroups]

theorem makeAlt_pair_leaf {a b : Node} (ha : Leaf a) (hb : Leaf b) : Leaf (makeAlt [a, b]) := by
  refine ⟨makeAlt_POut ⟨ha.1, hb.1, trivial⟩, ?_⟩
  rw [makeAlt_numGroups]
  simp [numGroupsList, ha.2, hb.2]

theorem nonemptyNode_leaf {self : ClassSet} (hs : CPS.WF self.cps) (icase negateSet : Bool) :
    Leaf (self.nonemptyNode icase negateSet) := by
  unfold ClassSet.nonemptyNode
  generalize hcp : (if icase then Fold.addIcaseCodePoints self.cps else self.cps) = cp
  have hb : Leaf (mkBracket negateSet cp) := mkBracket_leaf _ (hcp ▸ icase_wf _ hs)
  simp only
  split
  · exact hb
  · split
    · exact altsIntoNode_leaf _ _
    · exact makeAlt_pair_leaf (altsIntoNode_leaf _ _) hb

theorem classSetNode_leaf {self : ClassSet} (hs : CSOK self) (icase negateSet : Bool) :
    Leaf (self.node icase negateSet) := by
  unfold ClassSet.node
  have ha := absorbSingleCharacters_ok hs
  generalize self.absorbSingleCharacters = s at ha
  have h : Leaf (ClassSet.nonemptyNode { s with alts := s.alts.filter (fun s => !s.isEmpty) }
      icase negateSet) :=
    nonemptyNode_leaf (self := { s with alts := s.alts.filter (fun s => !s.isEmpty) }) ha.1 _ _
  simp only
  split
  · exact makeAlt_pair_leaf h (by simp [Leaf, POut, numGroups])
  · exact h

open Regress Regress.IR

theorem classSetCharacter_ens (unicode hn : Bool) (inp : List Nat) (hb : Bnd inp) :
    Ens (classSetCharacter unicode hn inp) (fun p => p.1 ≤ 0x10FFFF ∧ SSuf p.2 inp) := by
  fun_cases classSetCharacter unicode hn inp
  all_goals try simp only [*]
  all_goals try (simp; done)
  · exact ⟨by simp, by ssuf_tac⟩
  · exact ⟨hb.tail.head, by ssuf_tac⟩
  · refine (characterEscape_ens _ _ _ _ hb.tail).mono ?_
    exact fun p hp => ⟨hp.2, SSuf.of_tail _ hp.1.1⟩
  · exact ⟨hb.head, by ssuf_tac⟩

theorem classStringLoop_ens (unicode hn : Bool) (fuel : Nat) (inp : List Nat) (alts : List (List Nat))
    (alt : List Nat) (hf : inp.length < fuel) (hb : Bnd inp) (ha : ∀ a ∈ alts, Bnd a) (ha' : Bnd alt) :
    Ens (classStringLoop unicode hn fuel inp alts alt) (fun p => (∀ a ∈ p.1, Bnd a) ∧ SSuf p.2 inp) := by
  fun_induction classStringLoop unicode hn fuel inp alts alt
  all_goals try simp only [*]
  all_goals try (simp; done)
  · simp at hf
  · refine ⟨?_, by ssuf_tac⟩
    intro a h
    simp only [List.mem_append, List.mem_singleton] at h
    rcases h with h | rfl
    · exact ha a h
    · exact ha'
  · rename_i ih
    simp only [List.length_cons] at hf
    refine (ih (by omega) hb.tail ?_ (by simp [Bnd])).mono (fun p hp => ⟨hp.1, SSuf.of_tail _ hp.2.1⟩)
    intro a h
    simp only [List.mem_append, List.mem_singleton] at h
    rcases h with h | rfl
    · exact ha a h
    · exact ha'
  · exact (classSetCharacter_ens _ _ _ hb).error_of_eq ‹_›
  · rename_i ih
    have h1 := (classSetCharacter_ens _ _ _ hb).ok_of_eq ‹classSetCharacter _ _ _ = _›
    have := h1.2.2
    simp only [List.length_cons] at hf this
    refine (ih (by omega) (hb.suf h1.2.1) ha ?_).mono (fun p hp => ⟨hp.1, hp.2.trans h1.2⟩)
    intro c h
    simp only [List.mem_append, List.mem_singleton] at h
    rcases h with h | rfl
    · exact ha' c h
    · exact h1.1

theorem classStringSet_ok (alts : List (List Nat)) (set : ClassSet)
    (ha : ∀ a ∈ alts, Bnd a) (hs : CSOK set) : CSOK (classStringSet alts set) := by
  induction alts generalizing set with
  | nil => simpa [classStringSet] using hs
  | cons a rest ih =>
    have hr : ∀ a ∈ rest, Bnd a := fun a h => ha a (by simp [h])
    unfold classStringSet
    split
    · rename_i c
      exact ih _ hr ⟨C12.addOne_wf hs.1 (ha [c] (by simp) c (by simp)), hs.2⟩
    · simp only
      split
      · refine ih _ hr ⟨hs.1, hs.2.append ?_⟩
        intro x hx
        simp only [List.mem_singleton] at hx
        subst hx
        exact ha _ (by simp)
      · exact ih _ hr hs

open Regress Regress.IR

def CSPost (st : CSt) (p : ClassSet × CSt) : Prop :=
  CSOK p.1 ∧ SSuf p.2.inp st.inp ∧ p.2.depth = st.depth
def OpPost (st : CSt) (p : Operand × CSt) : Prop :=
  OperandOK p.1 ∧ SSuf p.2.inp st.inp ∧ p.2.depth = st.depth

def CSPre (fuel : Nat) (k : Nat) (st : CSt) : Prop :=
  2 * st.inp.length + k ≤ fuel ∧ Bnd st.inp ∧ st.depth ≤ Gen.MAX_NESTING_DEPTH

structure ClassSetIH (fl : Flags) (hn : Bool) (fuel : Nat) : Prop where
  expr : ∀ st, CSPre fuel 2 st → Ens (classSetExpression fl hn fuel st) (CSPost st)
  union : ∀ st r, CSPre fuel 2 st → CSOK r → Ens (classSetUnion fl hn fuel st r) (CSPost st)
  inter : ∀ st r, CSPre fuel 2 st → CSOK r → Ens (classSetIntersection fl hn fuel st r) (CSPost st)
  sub : ∀ st r, CSPre fuel 2 st → CSOK r → Ens (classSetSubtraction fl hn fuel st r) (CSPost st)
  operand : ∀ st, CSPre fuel 1 st → Ens (classSetOperand fl hn fuel st) (OpPost st)

theorem classSetOperand_step (fl : Flags) (hn : Bool) (fuel : Nat) (ih : ClassSetIH fl hn fuel) (st : CSt)
    (hp : CSPre (fuel + 1) 1 st) : Ens (classSetOperand fl hn (fuel + 1) st) (OpPost st) := by
  obtain ⟨hf, hb, hd⟩ := hp
  generalize hfu : fuel + 1 = f
  fun_cases classSetOperand fl hn f st
  all_goals try simp only [*]
  all_goals try (simp; done)
  all_goals try (simp at hfu; done)
  all_goals try (cases hfu)
  all_goals (have hinp := ‹st.inp = _›; rw [hinp] at hb hf)
  all_goals try (
    simp only [Ens_ok, OpPost, OperandOK, hinp]
    refine ⟨by first | exact codepointsFromClass_wf _ _ _ | exact hb.tail.head | trivial, by ssuf_tac, by first | rfl | trivial⟩
    done)
  -- `[`: nested class
  · rename_i ec rest1 _ invert rest hm _ _ _ _ _
    have hs : rest <:+ rest1 := by
      split at hm <;> cases hm
      · exact suf_cons _ (suf_refl _)
      · exact suf_refl _
    have hd' : st.depth + 1 ≤ Gen.MAX_NESTING_DEPTH := by simp_all; omega
    have hl := hs.length_le
    simp only [List.length_cons] at hf
    exact (ih.expr ⟨rest, st.depth + 1⟩ ⟨by show 2 * rest.length + 2 ≤ fuel; omega, hb.tail.suf hs, hd'⟩).error_of_eq ‹_›
  · rename_i ec rest1 _ invert rest hm result st1 _ _ _ _ _ _
    have hs : rest <:+ rest1 := by
      split at hm <;> cases hm
      · exact suf_cons _ (suf_refl _)
      · exact suf_refl _
    have hd' : st.depth + 1 ≤ Gen.MAX_NESTING_DEPTH := by simp_all; omega
    have hl := hs.length_le
    simp only [List.length_cons] at hf
    have h1 := (ih.expr ⟨rest, st.depth + 1⟩ ⟨by show 2 * rest.length + 2 ≤ fuel; omega, hb.tail.suf hs, hd'⟩).ok_of_eq
      ‹classSetExpression _ _ _ _ = _›
    simp only [CSPost] at h1
    simp only [Ens_ok, OpPost, OperandOK, hinp]
    refine ⟨?_, SSuf.of_tail _ (h1.2.1.1.trans hs), by rw [h1.2.2]; show st.depth + 1 - 1 = st.depth; omega⟩
    show CSOK (if invert = true then _ else result)
    split
    · have ha := absorbSingleCharacters_ok h1.1
      exact ⟨C12.inverted_wf (icase_wf _ ha.1), ha.2⟩
    · exact h1.1
  -- `\q{`
  · have hb' : Bnd _ := hb.tail.tail.tail
    refine Ens.error_of_eq (classStringLoop_ens _ _ _ _ [] [] ?_ hb' ?_ ?_) ‹_›
    · omega
    · simp
    · simp [Bnd]
  · have hb' : Bnd _ := hb.tail.tail.tail
    have h1 := Ens.ok_of_eq (classStringLoop_ens _ _ _ _ [] [] (Nat.lt_succ_self _) hb'
      (by simp) (by simp [Bnd])) ‹classStringLoop _ _ _ _ _ _ = _›
    have h2 : CSOK (classStringSet _ {}) := classStringSet_ok _ {} h1.1 csok_empty
    simp only [Ens_ok, OpPost, OperandOK, hinp]
    exact ⟨h2, SSuf.of_tail _ (suf_cons _ (suf_cons _ h1.2.1)), trivial⟩
  -- `\p`
  · exact (propertyEscape_ens _ _).error_of_eq ‹_›
  · have h1 := (propertyEscape_ens _ _).ok_of_eq ‹propertyEscape _ _ = _›
    simp only [Ens_ok, OpPost, OperandOK, hinp]
    exact ⟨h1.1, SSuf.of_tail _ (suf_cons _ h1.2.1), trivial⟩
  · have h1 := (propertyEscape_ens _ _).ok_of_eq ‹propertyEscape _ _ = _›
    simp only [Ens_ok, OpPost, OperandOK, hinp]
    exact ⟨h1.1, SSuf.of_tail _ (suf_cons _ h1.2.1), trivial⟩
  -- `\P`
  · exact (propertyEscape_ens _ _).error_of_eq ‹_›
  · have h1 := (propertyEscape_ens _ _).ok_of_eq ‹propertyEscape _ _ = _›
    simp only [Ens_ok, OpPost, OperandOK, hinp]
    exact ⟨C12.inverted_wf (icase_wf _ h1.1), SSuf.of_tail _ (suf_cons _ h1.2.1), trivial⟩
  -- other escapes
  · exact (characterEscape_ens _ _ _ _ hb.tail).error_of_eq ‹_›
  · have h1 := (characterEscape_ens _ _ _ _ hb.tail).ok_of_eq ‹characterEscape _ _ _ = _›
    simp only [Ens_ok, OpPost, OperandOK, hinp]
    exact ⟨h1.2, SSuf.of_tail _ h1.1.1, trivial⟩
  -- plain characters
  · have hx := ‹classSetCharacter _ _ _ = _›
    rw [hinp] at hx
    exact (classSetCharacter_ens _ _ _ hb).error_of_eq hx
  · have hx := ‹classSetCharacter _ _ _ = _›
    rw [hinp] at hx
    have h1 := (classSetCharacter_ens _ _ _ hb).ok_of_eq hx
    simp only [Ens_ok, OpPost, OperandOK, hinp]
    exact ⟨h1.1, h1.2, trivial⟩

open Regress Regress.IR

theorem CSPost.trans {st st' : CSt} {p : ClassSet × CSt} (h : CSPost st' p)
    (hs : st'.inp <:+ st.inp) (hd : st'.depth = st.depth) : CSPost st p :=
  ⟨h.1, h.2.1.trans_suf hs, h.2.2.trans hd⟩

theorem CSPre.operand {fuel : Nat} {st : CSt} (h : CSPre (fuel + 1) 2 st) : CSPre fuel 1 st :=
  ⟨by have := h.1; omega, h.2.1, h.2.2⟩

theorem CSPre.step {fuel : Nat} {st st' : CSt} (h : CSPre (fuel + 1) 2 st)
    (hs : SSuf st'.inp st.inp) (hd : st'.depth = st.depth) : CSPre fuel 2 st' :=
  ⟨by have := h.1; have := hs.2; omega, h.2.1.suf hs.1, hd ▸ h.2.2⟩

theorem CSPre.le {fuel : Nat} {st : CSt} (h : CSPre fuel 2 st) : CSPre fuel 1 st :=
  ⟨by have := h.1; omega, h.2.1, h.2.2⟩

theorem range_ok {r : ClassSet} (hr : CSOK r) {f l : Nat} (hl : l ≤ 0x10FFFF) (hfl : ¬ f > l) :
    CSOK { r with cps := CPS.add r.cps { first := f, last := l } } :=
  ⟨C12.add_wf hr.1 ⟨by simp only; omega, hl⟩, hr.2⟩

theorem classSetUnion_step (fl : Flags) (hn : Bool) (fuel : Nat) (ih : ClassSetIH fl hn fuel) (st : CSt)
    (r : ClassSet) (hp : CSPre (fuel + 1) 2 st) (hr : CSOK r) :
    Ens (classSetUnion fl hn (fuel + 1) st r) (CSPost st) := by
  generalize hfu : fuel + 1 = f
  fun_cases classSetUnion fl hn f st r
  all_goals try simp only [*]
  all_goals try (simp; done)
  all_goals try (simp at hfu; done)
  all_goals try (cases hfu)
  all_goals (have hinp := ‹st.inp = _›)
  · simp only [Ens_ok, CSPost, hinp]
    exact ⟨hr, by ssuf_tac, trivial⟩
  · exact (ih.operand _ hp.operand).error_of_eq ‹_›
  · rename_i st1 inp2 hst1 _ _ _ _ _
    have h1 := (ih.operand st hp.operand).ok_of_eq ‹classSetOperand fl hn fuel st = _›
    simp only [OpPost] at h1
    have hs : SSuf inp2 st.inp := SSuf.suf_trans (hst1 ▸ suf_cons _ (suf_refl _)) h1.2.1
    exact (ih.operand ⟨inp2, st1.depth⟩ (hp.step (st' := ⟨inp2, st1.depth⟩) hs h1.2.2).le).error_of_eq ‹_›
  · rename_i st1 inp2 hst1 f l st2 hfl _ _ _
    have h1 := (ih.operand st hp.operand).ok_of_eq ‹classSetOperand fl hn fuel st = _›
    simp only [OpPost] at h1
    have hs : SSuf inp2 st.inp := SSuf.suf_trans (hst1 ▸ suf_cons _ (suf_refl _)) h1.2.1
    have hp2 := hp.step (st' := ⟨inp2, st1.depth⟩) hs h1.2.2
    have h2 := (ih.operand ⟨inp2, st1.depth⟩ hp2.le).ok_of_eq ‹classSetOperand fl hn fuel ⟨_, _⟩ = _›
    simp only [OpPost, OperandOK] at h2
    have hs2 : SSuf st2.inp st.inp := h2.2.1.trans hs
    have hd2 : st2.depth = st.depth := h2.2.2.trans h1.2.2
    refine (ih.union st2 _ (hp.step hs2 hd2) (range_ok hr h2.1 hfl)).mono ?_
    exact fun p hp' => hp'.trans hs2.1 hd2
  · have h1 := (ih.operand st hp.operand).ok_of_eq ‹classSetOperand fl hn fuel st = _›
    simp only [OpPost] at h1
    refine (ih.union _ _ (hp.step h1.2.1 h1.2.2) (unionOperand_ok hr h1.1)).mono ?_
    exact fun p hp' => hp'.trans h1.2.1.1 h1.2.2

open Regress Regress.IR

theorem classSetIntersection_step (fl : Flags) (hn : Bool) (fuel : Nat) (ih : ClassSetIH fl hn fuel) (st : CSt)
    (r : ClassSet) (hp : CSPre (fuel + 1) 2 st) (hr : CSOK r) :
    Ens (classSetIntersection fl hn (fuel + 1) st r) (CSPost st) := by
  generalize hfu : fuel + 1 = f
  fun_cases classSetIntersection fl hn f st r
  all_goals try simp only [*]
  all_goals try (simp; done)
  all_goals try (simp at hfu; done)
  all_goals try (cases hfu)
  · exact (ih.operand _ hp.operand).error_of_eq ‹_›
  · rename_i first st1 ec rest1 hst1 _ _ _ _
    have h1 := (ih.operand st hp.operand).ok_of_eq ‹classSetOperand fl hn fuel st = _›
    simp only [OpPost] at h1
    simp only [Ens_ok, CSPost]
    refine ⟨intersectOperand_ok hr (closeClassSetOperand_ok _ h1.1), ?_, h1.2.2⟩
    exact SSuf.suf_trans (hst1 ▸ suf_cons _ (suf_refl _)) h1.2.1
  · rename_i first st1 ec _ _ rest2 hst1 _ _ _
    have h1 := (ih.operand st hp.operand).ok_of_eq ‹classSetOperand fl hn fuel st = _›
    simp only [OpPost] at h1
    have hs : SSuf rest2 st.inp :=
      SSuf.suf_trans (hst1 ▸ suf_cons _ (suf_cons _ (suf_refl _))) h1.2.1
    refine (ih.inter ⟨rest2, st1.depth⟩ _ (hp.step (st' := ⟨rest2, st1.depth⟩) hs h1.2.2)
      (intersectOperand_ok hr (closeClassSetOperand_ok _ h1.1))).mono ?_
    exact fun p hp' => hp'.trans hs.1 h1.2.2

theorem classSetSubtraction_step (fl : Flags) (hn : Bool) (fuel : Nat) (ih : ClassSetIH fl hn fuel) (st : CSt)
    (r : ClassSet) (hp : CSPre (fuel + 1) 2 st) (hr : CSOK r) :
    Ens (classSetSubtraction fl hn (fuel + 1) st r) (CSPost st) := by
  generalize hfu : fuel + 1 = f
  fun_cases classSetSubtraction fl hn f st r
  all_goals try simp only [*]
  all_goals try (simp; done)
  all_goals try (simp at hfu; done)
  all_goals try (cases hfu)
  · exact (ih.operand _ hp.operand).error_of_eq ‹_›
  · rename_i first st1 ec rest1 hst1 _ _ _
    have h1 := (ih.operand st hp.operand).ok_of_eq ‹classSetOperand fl hn fuel st = _›
    simp only [OpPost] at h1
    simp only [Ens_ok, CSPost]
    refine ⟨subtractOperand_ok hr (closeClassSetOperand_ok _ h1.1), ?_, h1.2.2⟩
    exact SSuf.suf_trans (hst1 ▸ suf_cons _ (suf_refl _)) h1.2.1
  · rename_i first st1 ec _ _ rest2 hst1 _ _
    have h1 := (ih.operand st hp.operand).ok_of_eq ‹classSetOperand fl hn fuel st = _›
    simp only [OpPost] at h1
    have hs : SSuf rest2 st.inp :=
      SSuf.suf_trans (hst1 ▸ suf_cons _ (suf_cons _ (suf_refl _))) h1.2.1
    refine (ih.sub ⟨rest2, st1.depth⟩ _ (hp.step (st' := ⟨rest2, st1.depth⟩) hs h1.2.2)
      (subtractOperand_ok hr (closeClassSetOperand_ok _ h1.1))).mono ?_
    exact fun p hp' => hp'.trans hs.1 h1.2.2

open Regress Regress.IR

theorem classSetExpression_step (fl : Flags) (hn : Bool) (fuel : Nat) (ih : ClassSetIH fl hn fuel) (st : CSt)
    (hp : CSPre (fuel + 1) 2 st) :
    Ens (classSetExpression fl hn (fuel + 1) st) (CSPost st) := by
  generalize hfu : fuel + 1 = f
  fun_cases classSetExpression fl hn f st
  all_goals try simp only [*]
  all_goals try (simp; done)
  all_goals try (simp at hfu; done)
  all_goals try (cases hfu)
  · simp only [Ens_ok, CSPost, ‹st.inp = _›]
    exact ⟨csok_empty, by ssuf_tac, trivial⟩
  · exact (ih.operand _ hp.operand).error_of_eq ‹_›
  · rename_i _ _ _ _ first st1 ec rest1 hst1 _ _ _
    have h1 := (ih.operand st hp.operand).ok_of_eq ‹classSetOperand fl hn fuel st = _›
    simp only [OpPost] at h1
    simp only [Ens_ok, CSPost]
    refine ⟨unionOperand_ok csok_empty h1.1, ?_, h1.2.2⟩
    exact SSuf.suf_trans (hst1 ▸ suf_cons _ (suf_refl _)) h1.2.1
  · rename_i _ _ _ _ first st1 ec _ _ rest2 hst1 _ _
    have h1 := (ih.operand st hp.operand).ok_of_eq ‹classSetOperand fl hn fuel st = _›
    simp only [OpPost] at h1
    have hs : SSuf rest2 st.inp :=
      SSuf.suf_trans (hst1 ▸ suf_cons _ (suf_cons _ (suf_refl _))) h1.2.1
    refine (ih.inter ⟨rest2, st1.depth⟩ _ (hp.step (st' := ⟨rest2, st1.depth⟩) hs h1.2.2)
      (unionOperand_ok csok_empty (closeClassSetOperand_ok _ h1.1))).mono ?_
    exact fun p hp' => hp'.trans hs.1 h1.2.2
  · -- a single `&` after the first operand: not consumed, the union loop reads it
    have h1 := (ih.operand st hp.operand).ok_of_eq ‹classSetOperand fl hn fuel st = _›
    simp only [OpPost] at h1
    refine (ih.union _ _ (hp.step h1.2.1 h1.2.2)
      (unionOperand_ok csok_empty h1.1)).mono ?_
    exact fun p hp' => hp'.trans h1.2.1.1 h1.2.2
  · rename_i _ _ _ _ first st1 ec _ _ _ inp2 hst1 _ _
    have h1 := (ih.operand st hp.operand).ok_of_eq ‹classSetOperand fl hn fuel st = _›
    simp only [OpPost] at h1
    have hs : SSuf inp2 st.inp :=
      SSuf.suf_trans (hst1 ▸ suf_cons _ (suf_cons _ (suf_refl _))) h1.2.1
    refine (ih.sub ⟨inp2, st1.depth⟩ _ (hp.step (st' := ⟨inp2, st1.depth⟩) hs h1.2.2)
      (unionOperand_ok csok_empty (closeClassSetOperand_ok _ h1.1))).mono ?_
    exact fun p hp' => hp'.trans hs.1 h1.2.2
  · rename_i _ _ _ _ st1 ec rest1 hst1 _ _ _ f e _ _ _ _
    have h1 := (ih.operand st hp.operand).ok_of_eq ‹classSetOperand fl hn fuel st = _›
    simp only [OpPost] at h1
    have hs : SSuf rest1 st.inp := SSuf.suf_trans (hst1 ▸ suf_cons _ (suf_refl _)) h1.2.1
    exact (ih.operand ⟨rest1, st1.depth⟩
      (hp.step (st' := ⟨rest1, st1.depth⟩) hs h1.2.2).le).error_of_eq ‹_›
  · rename_i _ _ _ _ st1 ec rest1 hst1 _ _ _ f l st2 hfl _ _ _ _
    have h1 := (ih.operand st hp.operand).ok_of_eq ‹classSetOperand fl hn fuel st = _›
    simp only [OpPost] at h1
    have hs : SSuf rest1 st.inp := SSuf.suf_trans (hst1 ▸ suf_cons _ (suf_refl _)) h1.2.1
    have hp2 := hp.step (st' := ⟨rest1, st1.depth⟩) hs h1.2.2
    have h2 := (ih.operand ⟨rest1, st1.depth⟩ hp2.le).ok_of_eq
      ‹classSetOperand fl hn fuel ⟨_, _⟩ = _›
    simp only [OpPost, OperandOK] at h2
    have hs2 : SSuf st2.inp st.inp := h2.2.1.trans hs
    have hd2 : st2.depth = st.depth := h2.2.2.trans h1.2.2
    simp only [if_false]
    refine (ih.union st2 _ (hp.step hs2 hd2)
      (range_ok csok_empty h2.1 hfl)).mono ?_
    exact fun p hp' => hp'.trans hs2.1 hd2
  · rename_i _ _ _ _ first st1 _ _ _ _ _ _ _ _
    have h1 := (ih.operand st hp.operand).ok_of_eq ‹classSetOperand fl hn fuel st = _›
    simp only [OpPost] at h1
    refine (ih.union _ _ (hp.step h1.2.1 h1.2.2)
      (unionOperand_ok csok_empty h1.1)).mono ?_
    exact fun p hp' => hp'.trans h1.2.1.1 h1.2.2

/-- The class-set functions never panic and never run out of fuel, for `fuel ≥ 2·len + 2`
(`2·len + 1` for an operand); the sets they build are well-formed; `depth` is restored. -/
theorem classSet_all (fl : Flags) (hn : Bool) (fuel : Nat) : ClassSetIH fl hn fuel := by
  induction fuel with
  | zero =>
    refine ⟨?_, ?_, ?_, ?_, ?_⟩
    · intro st hp; have := hp.1; omega
    · intro st r hp; have := hp.1; omega
    · intro st r hp; have := hp.1; omega
    · intro st r hp; have := hp.1; omega
    · intro st hp; have := hp.1; omega
  | succ fuel ih =>
    exact ⟨classSetExpression_step fl hn fuel ih, classSetUnion_step fl hn fuel ih,
      classSetIntersection_step fl hn fuel ih, classSetSubtraction_step fl hn fuel ih,
      classSetOperand_step fl hn fuel ih⟩

end Regress.Parse
