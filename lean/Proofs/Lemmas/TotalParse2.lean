import Proofs.Lemmas.TotalParse1
/-!
# Totality of the parser model, part 2: property escapes, legacy brackets, class sets

Besides "no panic", the lemmas here establish that every code point set the parser builds is a
well-formed `CodePointSet` (`CPS.WF`), given that the pattern's code points are `≤ 0x10FFFF`.
-/
namespace Regress.Parse
open Regress Regress.IR

open Regress Regress.IR

/-! ## Generated tables are well-formed code point sets -/

theorem wfFrom_WF : ∀ (l : List (Nat × Nat)) (lo : Nat), Packed.wfFrom lo l = true →
    CPS.WF (ivsOfPairs l) ∧ ∀ iv ∈ l, lo ≤ iv.1 := by
  intro l
  induction l with
  | nil => intro lo _; simp [ivsOfPairs, CPS.WF]
  | cons x xs ih =>
    intro lo h
    obtain ⟨a, b⟩ := x
    simp only [Packed.wfFrom, Bool.and_eq_true, decide_eq_true_eq] at h
    obtain ⟨⟨⟨h1, h2⟩, h3⟩, h4⟩ := h
    have := ih (b + 2) h4
    refine ⟨?_, ?_⟩
    · cases xs with
      | nil => simp [ivsOfPairs, CPS.WF, CPS.ivOk]; omega
      | cons y ys =>
        have hy := this.2 y (by simp)
        simp only [ivsOfPairs, List.map_cons, CPS.WF, CPS.ivOk] at *
        exact ⟨⟨h2, h3⟩, by omega, this.1⟩
    · intro iv hiv
      simp only [List.mem_cons] at hiv
      rcases hiv with rfl | hiv
      · exact h1
      · have := this.2 iv hiv; omega

theorem packed_wf_WF {l : List (Nat × Nat)} (h : Packed.wf l = true) : CPS.WF (ivsOfPairs l) :=
  (wfFrom_WF l 0 h).1

set_option maxHeartbeats 4000000 in
/-- Every table a property name can resolve to is well-formed (kernel evaluation, ≈ 25 s). -/
theorem names_wf :
    (Gen.gcNames ++ Gen.scriptNames ++ Gen.scriptExtNames ++ Gen.binaryNames).all
      (fun e => Packed.wf (Packed.decode e.2.2 e.2.1)) = true := by decide +kernel

theorem stringNames_lt : Gen.stringNames.all (fun e => decide (e.2 < 7)) = true := by decide +kernel

theorem lookup3_wf {tbl : List (Nat × Nat × Nat)} {nm : Nat} {t : Nat × Nat}
    (htbl : ∀ e ∈ tbl, e ∈ Gen.gcNames ++ Gen.scriptNames ++ Gen.scriptExtNames ++ Gen.binaryNames)
    (h : Props.lookup3 tbl nm = some t) : CPS.WF (ivsOfPairs (Packed.decode t.2 t.1)) := by
  have hm := htbl _ (C11.lookup3_some_mem h)
  have := List.all_eq_true.mp names_wf _ hm
  exact packed_wf_WF this

theorem lookup2_mem {tbl : List (Nat × Nat)} {nm i : Nat} (h : Props.lookup2 tbl nm = some i) :
    ∃ e ∈ tbl, e.2 = i := by
  unfold Props.lookup2 at h
  split at h
  · rename_i e he
    cases h
    exact ⟨e, List.mem_of_find?_eq_some he, rfl⟩
  · cases h

/-- What `propertyFromStr` returns is a well-formed table or a valid string-table index. -/
def KindOK : Props.Kind → Prop
  | .charClass p len => CPS.WF (ivsOfPairs (Packed.decode len p))
  | .stringSet idx => idx < 7

theorem propertyFromStr_ok {s : Nat} {name : Option Nat} {us : Bool} {k : Props.Kind}
    (h : Props.propertyFromStr s name us = some k) : KindOK k := by
  unfold Props.propertyFromStr at h
  split at h
  · simp only [Option.map_eq_some_iff] at h
    obtain ⟨t, ht, rfl⟩ := h
    exact lookup3_wf (by intro e he; simp [he]) ht
  · simp only [Option.map_eq_some_iff] at h
    obtain ⟨t, ht, rfl⟩ := h
    exact lookup3_wf (by intro e he; simp [he]) ht
  · simp only [Option.map_eq_some_iff] at h
    obtain ⟨t, ht, rfl⟩ := h
    exact lookup3_wf (by intro e he; simp [he]) ht
  · split at h
    · rename_i t ht
      cases h
      exact lookup3_wf (by intro e he; simp [he]) ht
    · split at h
      · rename_i i hi
        cases h
        split at hi
        · obtain ⟨e, he, rfl⟩ := lookup2_mem hi
          have := List.all_eq_true.mp stringNames_lt _ he
          simpa [KindOK] using this
        · cases hi
      · simp only [Option.map_eq_some_iff] at h
        obtain ⟨t, ht, rfl⟩ := h
        exact lookup3_wf (by intro e he; simp [he]) ht

theorem consumeEscapeLoop_ok (us : Bool) (inp : List Nat) : ∀ (buf : Nat) (name : Option Nat)
    (k : Props.Kind) (rest : List Nat),
    Props.consumeEscapeLoop us inp buf name = some (k, rest) → KindOK k ∧ SSuf rest inp := by
  induction inp with
  | nil => intro buf name k rest h; simp [Props.consumeEscapeLoop] at h
  | cons c tl ih =>
    intro buf name k rest h
    unfold Props.consumeEscapeLoop at h
    split at h
    · split at h
      · rename_i k' hk
        cases h
        exact ⟨propertyFromStr_ok hk, SSuf.of_tail _ (suf_refl _)⟩
      · cases h
    · split at h
      · split at h
        · have := ih _ _ _ _ h
          exact ⟨this.1, SSuf.of_tail _ this.2.1⟩
        · cases h
      · split at h
        · have := ih _ _ _ _ h
          exact ⟨this.1, SSuf.of_tail _ this.2.1⟩
        · cases h

/-- Postcondition of `propertyEscape`. -/
def PropOK : PropKind → Prop
  | .charClass ivs => CPS.WF ivs
  | .stringSet _ => True

/-- `try_consume_unicode_property_escape`: the `string_property_sets` index is in range. -/
theorem propertyEscape_ens (us : Bool) (inp : List Nat) :
    Ens (propertyEscape us inp) (fun p => PropOK p.1 ∧ SSuf p.2 inp) := by
  unfold propertyEscape
  split
  · simp
  · rename_i p len rest h
    unfold Props.consumePropertyEscape at h
    split at h
    · have := consumeEscapeLoop_ok us _ _ _ _ _ h
      exact ⟨this.1, SSuf.of_tail _ this.2.1⟩
    · cases h
  · rename_i idx rest h
    unfold Props.consumePropertyEscape at h
    split at h
    · have := consumeEscapeLoop_ok us _ _ _ _ _ h
      have hlt : idx < 7 := this.1
      split
      · simp only [Ens_ok, PropOK, true_and]
        exact SSuf.of_tail _ this.2.1
      · rename_i hnone
        exfalso
        have : idx < Gen.stringTables.length := by simpa [Gen.stringTables] using hlt
        simp at hnone
        omega
    · cases h

open Regress Regress.IR

/-! ## Character classes -/

theorem ccDigits_wf : CPS.WF ccDigits := (CPS.wf_iff_WF _).1 (by decide +kernel)
theorem ccWordChars_wf : CPS.WF ccWordChars := (CPS.wf_iff_WF _).1 (by decide +kernel)
theorem ccSpaces_wf : CPS.WF (ccLineTerminator.foldl CPS.add ccWhitespace) :=
  (CPS.wf_iff_WF _).1 (by decide +kernel)

theorem codepointsFromClassPositive_wf (ct : ClassType) : CPS.WF (codepointsFromClassPositive ct) := by
  cases ct
  · exact ccDigits_wf
  · exact ccSpaces_wf
  · exact ccWordChars_wf

theorem icase_wf {s : CPS.IvList} (b : Bool) (hs : CPS.WF s) :
    CPS.WF (if b then Fold.addIcaseCodePoints s else s) := by
  cases b
  · exact hs
  · exact C10.add_icase_wf hs

theorem codepointsFromClass_wf (ct : ClassType) (positive icase : Bool) :
    CPS.WF (codepointsFromClass ct positive icase) := by
  unfold codepointsFromClass
  have h := icase_wf icase (codepointsFromClassPositive_wf ct)
  simp only
  split
  · exact h
  · exact C12.inverted_wf h

theorem toIv_pairsOfIvs (cps : CPS.IvList) :
    ((pairsOfIvs cps).map fun iv => ({ first := iv.1, last := iv.2 } : CPS.Interval)) = cps := by
  unfold pairsOfIvs
  induction cps with
  | nil => rfl
  | cons x xs ih => simp only [List.map_cons, ih]

theorem mkBracket_leaf {cps : CPS.IvList} (invert : Bool) (h : CPS.WF cps) : Leaf (mkBracket invert cps) := by
  simp only [Leaf, mkBracket, POut, numGroups, toIv_pairsOfIvs, and_true]
  exact h

theorem makeBracketClass_leaf (ct : ClassType) (positive icase : Bool) :
    Leaf (makeBracketClass ct positive icase) := by
  unfold makeBracketClass
  apply mkBracket_leaf
  have h := icase_wf icase (codepointsFromClassPositive_wf ct)
  cases positive
  · exact C12.inverted_wf h
  · exact h

open Regress Regress.IR

/-! ## Legacy brackets -/

def AtomOK : ClassAtom → Prop
  | .codePoint c => c ≤ 0x10FFFF
  | .charClass _ _ => True
  | .range iv _ => CPS.WF iv

theorem addClassAtom_wf (icase : Bool) {cps : CPS.IvList} (h : CPS.WF cps) {a : ClassAtom}
    (ha : AtomOK a) : CPS.WF (addClassAtom icase cps a) := by
  cases a with
  | codePoint c => exact C12.addOne_wf h ha
  | charClass ct positive => exact C12.addSet_wf h (codepointsFromClass_wf _ _ _)
  | range iv negate =>
    simp only [addClassAtom]
    split
    · exact C12.addSet_wf h (C12.inverted_wf ha)
    · exact C12.addSet_wf h ha

/-- Postcondition of `bracketClassAtom`. -/
def AtomPost (inp : List Nat) (p : Option ClassAtom × List Nat) : Prop :=
  match p.1 with
  | none => p.2 = inp ∧ (inp = [] ∨ ∃ r, inp = 0x5D :: r)
  | some a => AtomOK a ∧ SSuf p.2 inp

theorem bracketClassAtom_ens (fl : Flags) (hn : Bool) (inp : List Nat) (hb : Bnd inp) :
    Ens (bracketClassAtom fl hn inp) (AtomPost inp) := by
  fun_cases bracketClassAtom fl hn inp
  all_goals try simp only [*]
  all_goals try (simp [AtomPost, AtomOK]; done)
  all_goals try (simp only [Ens_ok, AtomPost, AtomOK]; refine ⟨by first | trivial | omega, by ssuf_tac⟩; done)
  · simp at *; simp_all [AtomPost]
  · exact (propertyEscape_ens _ _).error_of_eq ‹_›
  · have := (propertyEscape_ens _ _).ok_of_eq ‹propertyEscape _ _ = _›
    exact ⟨this.1, SSuf.of_tail _ (suf_cons _ this.2.1)⟩
  · exact (characterEscape_ens _ _ _ _ hb.tail).error_of_eq ‹_›
  · have := (characterEscape_ens _ _ _ _ hb.tail).ok_of_eq ‹characterEscape _ _ _ = _›
    exact ⟨this.2, SSuf.of_tail _ this.1.1⟩
  · exact ⟨hb.head, by ssuf_tac⟩

open Regress Regress.IR

theorem bracketLoop_ens (fl : Flags) (hn : Bool) (invert : Bool) (fuel : Nat) (inp : List Nat) (cps : CPS.IvList)
    (hf : inp.length < fuel) (hb : Bnd inp) (hw : CPS.WF cps) :
    Ens (bracketLoop fl hn invert fuel inp cps) (fun p => Leaf p.1 ∧ SSuf p.2 inp) := by
  fun_induction bracketLoop fl hn invert fuel inp cps
  all_goals try simp only [*]
  all_goals try (simp; done)
  · simp at hf
  · rename_i cps0 _ _ _ _
    exact ⟨mkBracket_leaf _ (icase_wf _ hw), by ssuf_tac⟩
  · exact (bracketClassAtom_ens _ _ _ hb).error_of_eq ‹_›
  · -- the atom is `none` only at `]` or at the end of input: impossible here
    have h := (bracketClassAtom_ens _ _ _ hb).ok_of_eq ‹bracketClassAtom _ _ _ = _›
    simp [AtomPost] at h
    simp_all
  · have h1 := (bracketClassAtom_ens _ _ _ hb).ok_of_eq ‹bracketClassAtom _ _ (_ :: _) = _›
    simp only [AtomPost] at h1
    have hb2 : Bnd _ := (hb.suf h1.2.1).tail
    exact (bracketClassAtom_ens _ _ _ hb2).error_of_eq ‹_›
  · rename_i ec rest1 _ second inp2 inp3 _ _ ih
    have h1 := (bracketClassAtom_ens _ _ _ hb).ok_of_eq ‹bracketClassAtom _ _ (_ :: _) = _›
    simp only [AtomPost] at h1
    have hb2 : Bnd _ := (hb.suf h1.2.1).tail
    have h2 := (bracketClassAtom_ens _ _ _ hb2).ok_of_eq ‹bracketClassAtom _ _ _ = Except.ok (none, _)›
    simp only [AtomPost] at h2
    have hs : SSuf inp3 (ec :: rest1) := by
      rw [h2.1]; exact SSuf.suf_trans (suf_cons 45 (suf_refl _)) h1.2
    refine (ih (by have := hs.2; simp only [List.length_cons] at hf this; omega) (hb.suf hs.1)
      (addClassAtom_wf _ (addClassAtom_wf _ hw h1.1) (by simp [AtomOK]))).mono ?_
    exact fun p hp => ⟨hp.1, hp.2.trans hs⟩
  · rename_i ih
    have h1 := (bracketClassAtom_ens _ _ _ hb).ok_of_eq ‹bracketClassAtom _ _ (_ :: _) = _›
    simp only [AtomPost] at h1
    have hb2 : Bnd _ := (hb.suf h1.2.1).tail
    have h2 := (bracketClassAtom_ens _ _ _ hb2).ok_of_eq ‹bracketClassAtom _ _ _ = Except.ok (some _, _)›
    simp only [AtomPost] at h2
    have hs : SSuf _ _ := SSuf.trans h2.2 (SSuf.suf_trans (suf_cons _ (suf_refl _)) h1.2)
    simp only [if_false]
    refine (ih (by have := hs.2; simp only [List.length_cons] at hf this; omega) (hb.suf hs.1)
      (C12.add_wf hw ⟨by simp only; omega, h2.1⟩)).mono ?_
    exact fun p hp => ⟨hp.1, hp.2.trans hs⟩
  · rename_i ih
    have h1 := (bracketClassAtom_ens _ _ _ hb).ok_of_eq ‹bracketClassAtom _ _ (_ :: _) = _›
    simp only [AtomPost] at h1
    have hb2 : Bnd _ := (hb.suf h1.2.1).tail
    have h2 := (bracketClassAtom_ens _ _ _ hb2).ok_of_eq ‹bracketClassAtom _ _ _ = Except.ok (some _, _)›
    simp only [AtomPost] at h2
    have hs : SSuf _ _ := SSuf.trans h2.2 (SSuf.suf_trans (suf_cons _ (suf_refl _)) h1.2)
    simp only [Bool.false_eq_true, if_false]
    refine (ih (by have := hs.2; simp only [List.length_cons] at hf this; omega) (hb.suf hs.1)
      (addClassAtom_wf _ (addClassAtom_wf _ (addClassAtom_wf _ hw h1.1) (by simp [AtomOK])) h2.1)).mono ?_
    exact fun p hp => ⟨hp.1, hp.2.trans hs⟩
  · rename_i ih
    have h1 := (bracketClassAtom_ens _ _ _ hb).ok_of_eq ‹bracketClassAtom _ _ (_ :: _) = _›
    simp only [AtomPost] at h1
    refine (ih (by have := h1.2.2; simp only [List.length_cons] at hf this; omega) (hb.suf h1.2.1)
      (addClassAtom_wf _ hw h1.1)).mono ?_
    exact fun p hp => ⟨hp.1, hp.2.trans h1.2⟩

/-- `consume_bracket`: the `consume('[')` unwrap is safe on non-empty input. -/
theorem consumeBracket_ens (fl : Flags) (hn : Bool) (c : Nat) (rest : List Nat) (hb : Bnd (c :: rest)) :
    Ens (consumeBracket fl hn (c :: rest)) (fun p => Leaf p.1 ∧ SSuf p.2 (c :: rest)) := by
  have key : ∀ invert (rest' : List Nat), rest' <:+ rest →
      Ens (bracketLoop fl hn invert (rest'.length + 2) rest' []) (fun p => Leaf p.1 ∧ SSuf p.2 (c :: rest)) := by
    intro invert rest' hs
    refine (bracketLoop_ens fl hn invert _ rest' [] (by omega) (hb.tail.suf hs) (by simp [CPS.WF])).mono ?_
    exact fun p hp => ⟨hp.1, SSuf.of_tail _ (hp.2.1.trans hs)⟩
  simp only [consumeBracket]
  split
  · exact key _ _ (suf_cons _ (suf_refl _))
  · exact key _ _ (suf_refl _)

open Regress Regress.IR

/-! ## Class sets (`v` mode): the set operations preserve well-formedness -/

theorem contains_le {s : CPS.IvList} (hs : CPS.WF s) {c : Nat} (h : CPS.contains s c = true) :
    c ≤ 0x10FFFF := by
  obtain ⟨iv, hiv, _, h2⟩ := (CPS.contains_iff_mem s c).1 h
  have := ((CPS.WF_iff s).1 hs).1 iv hiv
  simp only [CPS.ivOk] at this
  omega

theorem single_wf {c : Nat} (h : c ≤ 0x10FFFF) : CPS.WF [{ first := c, last := c }] := by
  simp [CPS.WF, CPS.ivOk]; exact h

theorem nil_wf : CPS.WF [] := by simp [CPS.WF]

theorem collectSingles_wf (alts : List (List Nat)) {set : CPS.IvList} (hs : CPS.WF set) :
    CPS.WF (collectSingles alts set) := by
  unfold collectSingles
  suffices h : ∀ acc, CPS.WF acc → CPS.WF (alts.foldl (fun acc a => match single? a with
      | some c => if CPS.contains set c then CPS.addOne acc c else acc
      | none => acc) acc) from h [] nil_wf
  induction alts with
  | nil => intro acc h; exact h
  | cons a as ih =>
    intro acc h
    simp only [List.foldl_cons]
    apply ih
    split
    · split
      · exact C12.addOne_wf h (contains_le hs ‹_›)
      · exact h
    · exact h

/-- A class set whose code point part is well-formed. -/
def CSOK (cs : ClassSet) : Prop := CPS.WF cs.cps

def OperandOK : Operand → Prop
  | .char c => c ≤ 0x10FFFF
  | .esc cps => CPS.WF cps
  | .cls cs => CSOK cs
  | .strs _ => True

theorem unionOperand_ok {self : ClassSet} {o : Operand} (hs : CSOK self) (ho : OperandOK o) :
    CSOK (self.unionOperand o) := by
  cases o with
  | char c => exact C12.addOne_wf hs ho
  | esc cps => exact C12.addSet_wf hs ho
  | cls c => exact C12.addSet_wf hs ho
  | strs s => exact hs

theorem intersectOperand_ok {self : ClassSet} {o : Operand} (hs : CSOK self) (ho : OperandOK o) :
    CSOK (self.intersectOperand o) := by
  cases o with
  | char c =>
    simp only [ClassSet.intersectOperand, CSOK]
    split
    · exact single_wf ho
    · exact nil_wf
  | esc cps => exact C12.intersect_wf hs ho
  | cls c =>
    exact C12.addSet_wf (C12.intersect_wf hs ho) (collectSingles_wf _ hs)
  | strs s => exact collectSingles_wf _ hs

theorem subtractOperand_ok {self : ClassSet} {o : Operand} (hs : CSOK self) (ho : OperandOK o) :
    CSOK (self.subtractOperand o) := by
  cases o with
  | char c => exact C12.remove_wf hs (single_wf ho)
  | esc cps => exact C12.remove_wf hs ho
  | cls c => exact C12.remove_wf (C12.remove_wf hs (collectSingles_wf _ hs)) ho
  | strs s => exact C12.remove_wf hs (collectSingles_wf _ hs)

theorem closeClassSetOperand_ok (icase : Bool) {o : Operand} (ho : OperandOK o) :
    OperandOK (closeClassSetOperand icase o) := by
  unfold closeClassSetOperand
  split
  · exact ho
  · cases o with
    | char c => exact C10.add_icase_wf (C12.addOne_wf nil_wf ho)
    | esc cps => exact C10.add_icase_wf ho
    | cls c => exact C10.add_icase_wf ho
    | strs s => trivial

/-- The node of a class set: `POut`, no groups. -/
theorem altsIntoNode_leaf (alts : List (List Nat)) (icase : Bool) : Leaf (altsIntoNode alts icase) := by
  simp [Leaf, altsIntoNode, POut, numGroups]

theorem makeAlt_pair_leaf {a b : Node} (ha : Leaf a) (hb : Leaf b) : Leaf (makeAlt [a, b]) := by
  refine ⟨makeAlt_POut ⟨ha.1, hb.1, trivial⟩, ?_⟩
  rw [makeAlt_numGroups]
  simp [numGroupsList, ha.2, hb.2]

theorem nonemptyNode_leaf {self : ClassSet} (hs : CSOK self) (icase negateSet : Bool) :
    Leaf (self.nonemptyNode icase negateSet) := by
  unfold ClassSet.nonemptyNode
  generalize hcp : (if icase then Fold.addIcaseCodePoints self.cps else self.cps) = cp
  have hb : Leaf (mkBracket negateSet cp) := mkBracket_leaf _ (hcp ▸ icase_wf _ hs)
  simp only
  split
  · exact hb
  · split
    · exact altsIntoNode_leaf _ _
    · exact makeAlt_pair_leaf (altsIntoNode_leaf _ _) hb

theorem classSetNode_leaf {self : ClassSet} (hs : CSOK self) (icase negateSet : Bool) :
    Leaf (self.node icase negateSet) := by
  unfold ClassSet.node
  have h : Leaf (ClassSet.nonemptyNode { cps := self.cps, alts := self.alts.filter (fun s => !s.isEmpty) }
      icase negateSet) :=
    nonemptyNode_leaf (show CSOK { cps := self.cps, alts := self.alts.filter (fun s => !s.isEmpty) } from hs) _ _
  simp only
  split
  · exact makeAlt_pair_leaf h (by simp [Leaf, POut, numGroups])
  · exact h

open Regress Regress.IR

theorem classSetCharacter_ens (unicode hn : Bool) (inp : List Nat) (hb : Bnd inp) :
    Ens (classSetCharacter unicode hn inp) (fun p => p.1 ≤ 0x10FFFF ∧ SSuf p.2 inp) := by
  fun_cases classSetCharacter unicode hn inp
  all_goals try simp only [*]
  all_goals try (simp; done)
  · exact ⟨by simp, by ssuf_tac⟩
  · exact ⟨hb.tail.head, by ssuf_tac⟩
  · refine (characterEscape_ens _ _ _ _ hb.tail).mono ?_
    exact fun p hp => ⟨hp.2, SSuf.of_tail _ hp.1.1⟩
  · exact ⟨hb.head, by ssuf_tac⟩

theorem classStringLoop_ens (unicode hn : Bool) (fuel : Nat) (inp : List Nat) (alts : List (List Nat))
    (alt : List Nat) (hf : inp.length < fuel) (hb : Bnd inp) (ha : ∀ a ∈ alts, Bnd a) (ha' : Bnd alt) :
    Ens (classStringLoop unicode hn fuel inp alts alt) (fun p => (∀ a ∈ p.1, Bnd a) ∧ SSuf p.2 inp) := by
  fun_induction classStringLoop unicode hn fuel inp alts alt
  all_goals try simp only [*]
  all_goals try (simp; done)
  · simp at hf
  · refine ⟨?_, by ssuf_tac⟩
    intro a h
    simp only [List.mem_append, List.mem_singleton] at h
    rcases h with h | rfl
    · exact ha a h
    · exact ha'
  · rename_i ih
    simp only [List.length_cons] at hf
    refine (ih (by omega) hb.tail ?_ (by simp [Bnd])).mono (fun p hp => ⟨hp.1, SSuf.of_tail _ hp.2.1⟩)
    intro a h
    simp only [List.mem_append, List.mem_singleton] at h
    rcases h with h | rfl
    · exact ha a h
    · exact ha'
  · exact (classSetCharacter_ens _ _ _ hb).error_of_eq ‹_›
  · rename_i ih
    have h1 := (classSetCharacter_ens _ _ _ hb).ok_of_eq ‹classSetCharacter _ _ _ = _›
    have := h1.2.2
    simp only [List.length_cons] at hf this
    refine (ih (by omega) (hb.suf h1.2.1) ha ?_).mono (fun p hp => ⟨hp.1, hp.2.trans h1.2⟩)
    intro c h
    simp only [List.mem_append, List.mem_singleton] at h
    rcases h with h | rfl
    · exact ha' c h
    · exact h1.1

theorem classStringSet_ens (neg : Bool) (alts : List (List Nat)) (set : ClassSet)
    (ha : ∀ a ∈ alts, Bnd a) (hs : CSOK set) : Ens (classStringSet neg alts set) CSOK := by
  fun_induction classStringSet neg alts set
  all_goals try simp only [*]
  all_goals try (simp; done)
  · exact hs
  · rename_i c ih
    refine ih (fun a h => ha a (by simp [h])) ?_
    exact C12.addOne_wf hs (ha [c] (by simp) c (by simp))
  · rename_i ih
    simp only [if_true]
    have : neg = false := by cases neg <;> simp_all
    subst this
    exact ih (fun a h => ha a (by simp [h])) hs
  · rename_i ih
    simp only [Bool.false_eq_true, if_false]
    have : neg = false := by cases neg <;> simp_all
    subst this
    exact ih (fun a h => ha a (by simp [h])) hs

open Regress Regress.IR

def CSPost (st : CSt) (p : ClassSet × CSt) : Prop :=
  CSOK p.1 ∧ SSuf p.2.inp st.inp ∧ p.2.depth = st.depth
def OpPost (st : CSt) (p : Operand × CSt) : Prop :=
  OperandOK p.1 ∧ SSuf p.2.inp st.inp ∧ p.2.depth = st.depth

def CSPre (fuel : Nat) (k : Nat) (st : CSt) : Prop :=
  2 * st.inp.length + k ≤ fuel ∧ Bnd st.inp ∧ st.depth ≤ Gen.MAX_NESTING_DEPTH

structure ClassSetIH (fl : Flags) (hn : Bool) (fuel : Nat) : Prop where
  expr : ∀ neg st, CSPre fuel 2 st → Ens (classSetExpression fl hn fuel neg st) (CSPost st)
  union : ∀ neg st r, CSPre fuel 2 st → CSOK r → Ens (classSetUnion fl hn fuel neg st r) (CSPost st)
  inter : ∀ neg st r, CSPre fuel 2 st → CSOK r → Ens (classSetIntersection fl hn fuel neg st r) (CSPost st)
  sub : ∀ neg st r, CSPre fuel 2 st → CSOK r → Ens (classSetSubtraction fl hn fuel neg st r) (CSPost st)
  operand : ∀ neg st, CSPre fuel 1 st → Ens (classSetOperand fl hn fuel neg st) (OpPost st)

theorem classSetOperand_step (fl : Flags) (hn : Bool) (fuel : Nat) (ih : ClassSetIH fl hn fuel) (neg : Bool) (st : CSt)
    (hp : CSPre (fuel + 1) 1 st) : Ens (classSetOperand fl hn (fuel + 1) neg st) (OpPost st) := by
  obtain ⟨hf, hb, hd⟩ := hp
  generalize hfu : fuel + 1 = f
  fun_cases classSetOperand fl hn f neg st
  all_goals try simp only [*]
  all_goals try (simp; done)
  all_goals try (simp at hfu; done)
  all_goals try (cases hfu)
  all_goals (have hinp := ‹st.inp = _›; rw [hinp] at hb hf)
  all_goals try (
    simp only [Ens_ok, OpPost, OperandOK, hinp]
    refine ⟨by first | exact codepointsFromClass_wf _ _ _ | exact hb.tail.head | trivial, by ssuf_tac, by first | rfl | trivial⟩
    done)
  -- `[`: nested class
  · rename_i ec rest1 _ invert rest hm _ _ _ _ _
    have hs : rest <:+ rest1 := by
      split at hm <;> cases hm
      · exact suf_cons _ (suf_refl _)
      · exact suf_refl _
    have hd' : st.depth + 1 ≤ Gen.MAX_NESTING_DEPTH := by simp_all; omega
    have hl := hs.length_le
    simp only [List.length_cons] at hf
    exact (ih.expr (invert || neg) ⟨rest, st.depth + 1⟩ ⟨by show 2 * rest.length + 2 ≤ fuel; omega, hb.tail.suf hs, hd'⟩).error_of_eq ‹_›
  · rename_i ec rest1 _ invert rest hm result st1 _ _ _ _ _
    have hs : rest <:+ rest1 := by
      split at hm <;> cases hm
      · exact suf_cons _ (suf_refl _)
      · exact suf_refl _
    have hd' : st.depth + 1 ≤ Gen.MAX_NESTING_DEPTH := by simp_all; omega
    have hl := hs.length_le
    simp only [List.length_cons] at hf
    have h1 := (ih.expr (invert || neg) ⟨rest, st.depth + 1⟩ ⟨by show 2 * rest.length + 2 ≤ fuel; omega, hb.tail.suf hs, hd'⟩).ok_of_eq
      ‹classSetExpression _ _ _ _ _ = _›
    simp only [CSPost] at h1
    simp only [Ens_ok, OpPost, OperandOK, hinp]
    refine ⟨?_, SSuf.of_tail _ (h1.2.1.1.trans hs), by rw [h1.2.2]; show st.depth + 1 - 1 = st.depth; omega⟩
    show CSOK (if invert = true then _ else result)
    split
    · exact C12.inverted_wf (icase_wf _ h1.1)
    · exact h1.1
  -- `\q{`
  · have hb' : Bnd _ := hb.tail.tail.tail
    refine Ens.error_of_eq (classStringLoop_ens _ _ _ _ [] [] ?_ hb' ?_ ?_) ‹_›
    · omega
    · simp
    · simp [Bnd]
  · have hb' : Bnd _ := hb.tail.tail.tail
    have h1 := Ens.ok_of_eq (classStringLoop_ens _ _ _ _ [] [] (Nat.lt_succ_self _) hb'
      (by simp) (by simp [Bnd])) ‹classStringLoop _ _ _ _ _ _ = _›
    exact (classStringSet_ens neg _ {} h1.1 nil_wf).error_of_eq ‹_›
  · have hb' : Bnd _ := hb.tail.tail.tail
    have h1 := Ens.ok_of_eq (classStringLoop_ens _ _ _ _ [] [] (Nat.lt_succ_self _) hb'
      (by simp) (by simp [Bnd])) ‹classStringLoop _ _ _ _ _ _ = _›
    have h2 := (classStringSet_ens neg _ {} h1.1 nil_wf).ok_of_eq ‹classStringSet _ _ _ = _›
    simp only [Ens_ok, OpPost, OperandOK, hinp]
    exact ⟨h2, SSuf.of_tail _ (suf_cons _ (suf_cons _ h1.2.1)), trivial⟩
  -- `\p`
  · exact (propertyEscape_ens _ _).error_of_eq ‹_›
  · have h1 := (propertyEscape_ens _ _).ok_of_eq ‹propertyEscape _ _ = _›
    simp only [Ens_ok, OpPost, OperandOK, hinp]
    exact ⟨h1.1, SSuf.of_tail _ (suf_cons _ h1.2.1), trivial⟩
  · have h1 := (propertyEscape_ens _ _).ok_of_eq ‹propertyEscape _ _ = _›
    simp only [Ens_ok, OpPost, OperandOK, hinp]
    exact ⟨trivial, SSuf.of_tail _ (suf_cons _ h1.2.1), trivial⟩
  -- `\P`
  · exact (propertyEscape_ens _ _).error_of_eq ‹_›
  · have h1 := (propertyEscape_ens _ _).ok_of_eq ‹propertyEscape _ _ = _›
    simp only [Ens_ok, OpPost, OperandOK, hinp]
    exact ⟨C12.inverted_wf (icase_wf _ h1.1), SSuf.of_tail _ (suf_cons _ h1.2.1), trivial⟩
  -- other escapes
  · exact (characterEscape_ens _ _ _ _ hb.tail).error_of_eq ‹_›
  · have h1 := (characterEscape_ens _ _ _ _ hb.tail).ok_of_eq ‹characterEscape _ _ _ = _›
    simp only [Ens_ok, OpPost, OperandOK, hinp]
    exact ⟨h1.2, SSuf.of_tail _ h1.1.1, trivial⟩
  -- plain characters
  · have hx := ‹classSetCharacter _ _ _ = _›
    rw [hinp] at hx
    exact (classSetCharacter_ens _ _ _ hb).error_of_eq hx
  · have hx := ‹classSetCharacter _ _ _ = _›
    rw [hinp] at hx
    have h1 := (classSetCharacter_ens _ _ _ hb).ok_of_eq hx
    simp only [Ens_ok, OpPost, OperandOK, hinp]
    exact ⟨h1.1, h1.2, trivial⟩

open Regress Regress.IR

theorem CSPost.trans {st st' : CSt} {p : ClassSet × CSt} (h : CSPost st' p)
    (hs : st'.inp <:+ st.inp) (hd : st'.depth = st.depth) : CSPost st p :=
  ⟨h.1, h.2.1.trans_suf hs, h.2.2.trans hd⟩

theorem CSPre.operand {fuel : Nat} {st : CSt} (h : CSPre (fuel + 1) 2 st) : CSPre fuel 1 st :=
  ⟨by have := h.1; omega, h.2.1, h.2.2⟩

theorem CSPre.step {fuel : Nat} {st st' : CSt} (h : CSPre (fuel + 1) 2 st)
    (hs : SSuf st'.inp st.inp) (hd : st'.depth = st.depth) : CSPre fuel 2 st' :=
  ⟨by have := h.1; have := hs.2; omega, h.2.1.suf hs.1, hd ▸ h.2.2⟩

theorem CSPre.le {fuel : Nat} {st : CSt} (h : CSPre fuel 2 st) : CSPre fuel 1 st :=
  ⟨by have := h.1; omega, h.2.1, h.2.2⟩

theorem range_ok {r : ClassSet} (hr : CSOK r) {f l : Nat} (hl : l ≤ 0x10FFFF) (hfl : ¬ f > l) :
    CSOK { cps := CPS.add r.cps { first := f, last := l }, alts := r.alts } :=
  C12.add_wf hr ⟨by simp only; omega, hl⟩

theorem classSetUnion_step (fl : Flags) (hn : Bool) (fuel : Nat) (ih : ClassSetIH fl hn fuel) (neg : Bool) (st : CSt)
    (r : ClassSet) (hp : CSPre (fuel + 1) 2 st) (hr : CSOK r) :
    Ens (classSetUnion fl hn (fuel + 1) neg st r) (CSPost st) := by
  generalize hfu : fuel + 1 = f
  fun_cases classSetUnion fl hn f neg st r
  all_goals try simp only [*]
  all_goals try (simp; done)
  all_goals try (simp at hfu; done)
  all_goals try (cases hfu)
  all_goals (have hinp := ‹st.inp = _›)
  · simp only [Ens_ok, CSPost, hinp]
    exact ⟨hr, by ssuf_tac, trivial⟩
  · exact (ih.operand _ _ hp.operand).error_of_eq ‹_›
  · rename_i st1 inp2 hst1 _ _ _ _ _
    have h1 := (ih.operand neg st hp.operand).ok_of_eq ‹classSetOperand fl hn fuel neg st = _›
    simp only [OpPost] at h1
    have hs : SSuf inp2 st.inp := SSuf.suf_trans (hst1 ▸ suf_cons _ (suf_refl _)) h1.2.1
    exact (ih.operand neg ⟨inp2, st1.depth⟩ (hp.step (st' := ⟨inp2, st1.depth⟩) hs h1.2.2).le).error_of_eq ‹_›
  · rename_i st1 inp2 hst1 f l st2 hfl _ _ _
    have h1 := (ih.operand neg st hp.operand).ok_of_eq ‹classSetOperand fl hn fuel neg st = _›
    simp only [OpPost] at h1
    have hs : SSuf inp2 st.inp := SSuf.suf_trans (hst1 ▸ suf_cons _ (suf_refl _)) h1.2.1
    have hp2 := hp.step (st' := ⟨inp2, st1.depth⟩) hs h1.2.2
    have h2 := (ih.operand neg ⟨inp2, st1.depth⟩ hp2.le).ok_of_eq ‹classSetOperand fl hn fuel neg ⟨_, _⟩ = _›
    simp only [OpPost, OperandOK] at h2
    have hs2 : SSuf st2.inp st.inp := h2.2.1.trans hs
    have hd2 : st2.depth = st.depth := h2.2.2.trans h1.2.2
    refine (ih.union neg st2 _ (hp.step hs2 hd2) (range_ok hr h2.1 hfl)).mono ?_
    exact fun p hp' => hp'.trans hs2.1 hd2
  · have h1 := (ih.operand neg st hp.operand).ok_of_eq ‹classSetOperand fl hn fuel neg st = _›
    simp only [OpPost] at h1
    refine (ih.union neg _ _ (hp.step h1.2.1 h1.2.2) (unionOperand_ok hr h1.1)).mono ?_
    exact fun p hp' => hp'.trans h1.2.1.1 h1.2.2

open Regress Regress.IR

theorem classSetIntersection_step (fl : Flags) (hn : Bool) (fuel : Nat) (ih : ClassSetIH fl hn fuel) (neg : Bool) (st : CSt)
    (r : ClassSet) (hp : CSPre (fuel + 1) 2 st) (hr : CSOK r) :
    Ens (classSetIntersection fl hn (fuel + 1) neg st r) (CSPost st) := by
  generalize hfu : fuel + 1 = f
  fun_cases classSetIntersection fl hn f neg st r
  all_goals try simp only [*]
  all_goals try (simp; done)
  all_goals try (simp at hfu; done)
  all_goals try (cases hfu)
  · exact (ih.operand _ _ hp.operand).error_of_eq ‹_›
  · rename_i first st1 ec rest1 hst1 _ _ _ _
    have h1 := (ih.operand neg st hp.operand).ok_of_eq ‹classSetOperand fl hn fuel neg st = _›
    simp only [OpPost] at h1
    simp only [Ens_ok, CSPost]
    refine ⟨intersectOperand_ok hr (closeClassSetOperand_ok _ h1.1), ?_, h1.2.2⟩
    exact SSuf.suf_trans (hst1 ▸ suf_cons _ (suf_refl _)) h1.2.1
  · rename_i first st1 ec _ _ rest2 hst1 _ _ _
    have h1 := (ih.operand neg st hp.operand).ok_of_eq ‹classSetOperand fl hn fuel neg st = _›
    simp only [OpPost] at h1
    have hs : SSuf rest2 st.inp :=
      SSuf.suf_trans (hst1 ▸ suf_cons _ (suf_cons _ (suf_refl _))) h1.2.1
    refine (ih.inter neg ⟨rest2, st1.depth⟩ _ (hp.step (st' := ⟨rest2, st1.depth⟩) hs h1.2.2)
      (intersectOperand_ok hr (closeClassSetOperand_ok _ h1.1))).mono ?_
    exact fun p hp' => hp'.trans hs.1 h1.2.2

theorem classSetSubtraction_step (fl : Flags) (hn : Bool) (fuel : Nat) (ih : ClassSetIH fl hn fuel) (neg : Bool) (st : CSt)
    (r : ClassSet) (hp : CSPre (fuel + 1) 2 st) (hr : CSOK r) :
    Ens (classSetSubtraction fl hn (fuel + 1) neg st r) (CSPost st) := by
  generalize hfu : fuel + 1 = f
  fun_cases classSetSubtraction fl hn f neg st r
  all_goals try simp only [*]
  all_goals try (simp; done)
  all_goals try (simp at hfu; done)
  all_goals try (cases hfu)
  · exact (ih.operand _ _ hp.operand).error_of_eq ‹_›
  · rename_i first st1 ec rest1 hst1 _ _ _
    have h1 := (ih.operand neg st hp.operand).ok_of_eq ‹classSetOperand fl hn fuel neg st = _›
    simp only [OpPost] at h1
    simp only [Ens_ok, CSPost]
    refine ⟨subtractOperand_ok hr (closeClassSetOperand_ok _ h1.1), ?_, h1.2.2⟩
    exact SSuf.suf_trans (hst1 ▸ suf_cons _ (suf_refl _)) h1.2.1
  · rename_i first st1 ec _ _ rest2 hst1 _ _
    have h1 := (ih.operand neg st hp.operand).ok_of_eq ‹classSetOperand fl hn fuel neg st = _›
    simp only [OpPost] at h1
    have hs : SSuf rest2 st.inp :=
      SSuf.suf_trans (hst1 ▸ suf_cons _ (suf_cons _ (suf_refl _))) h1.2.1
    refine (ih.sub neg ⟨rest2, st1.depth⟩ _ (hp.step (st' := ⟨rest2, st1.depth⟩) hs h1.2.2)
      (subtractOperand_ok hr (closeClassSetOperand_ok _ h1.1))).mono ?_
    exact fun p hp' => hp'.trans hs.1 h1.2.2

open Regress Regress.IR

theorem classSetExpression_step (fl : Flags) (hn : Bool) (fuel : Nat) (ih : ClassSetIH fl hn fuel) (neg : Bool) (st : CSt)
    (hp : CSPre (fuel + 1) 2 st) :
    Ens (classSetExpression fl hn (fuel + 1) neg st) (CSPost st) := by
  generalize hfu : fuel + 1 = f
  fun_cases classSetExpression fl hn f neg st
  all_goals try simp only [*]
  all_goals try (simp; done)
  all_goals try (simp at hfu; done)
  all_goals try (cases hfu)
  · simp only [Ens_ok, CSPost, ‹st.inp = _›]
    exact ⟨nil_wf, by ssuf_tac, trivial⟩
  · exact (ih.operand _ _ hp.operand).error_of_eq ‹_›
  · rename_i _ _ _ _ first st1 ec rest1 hst1 _ _ _
    have h1 := (ih.operand neg st hp.operand).ok_of_eq ‹classSetOperand fl hn fuel neg st = _›
    simp only [OpPost] at h1
    simp only [Ens_ok, CSPost]
    refine ⟨unionOperand_ok (show CSOK {} from nil_wf) h1.1, ?_, h1.2.2⟩
    exact SSuf.suf_trans (hst1 ▸ suf_cons _ (suf_refl _)) h1.2.1
  · rename_i _ _ _ _ first st1 ec _ _ rest2 hst1 _ _
    have h1 := (ih.operand neg st hp.operand).ok_of_eq ‹classSetOperand fl hn fuel neg st = _›
    simp only [OpPost] at h1
    have hs : SSuf rest2 st.inp :=
      SSuf.suf_trans (hst1 ▸ suf_cons _ (suf_cons _ (suf_refl _))) h1.2.1
    refine (ih.inter neg ⟨rest2, st1.depth⟩ _ (hp.step (st' := ⟨rest2, st1.depth⟩) hs h1.2.2)
      (unionOperand_ok (show CSOK {} from nil_wf) (closeClassSetOperand_ok _ h1.1))).mono ?_
    exact fun p hp' => hp'.trans hs.1 h1.2.2
  · -- a single `&` after the first operand: not consumed, the union loop reads it
    have h1 := (ih.operand neg st hp.operand).ok_of_eq ‹classSetOperand fl hn fuel neg st = _›
    simp only [OpPost] at h1
    refine (ih.union neg _ _ (hp.step h1.2.1 h1.2.2)
      (unionOperand_ok (show CSOK {} from nil_wf) h1.1)).mono ?_
    exact fun p hp' => hp'.trans h1.2.1.1 h1.2.2
  · rename_i _ _ _ _ first st1 ec _ _ _ inp2 hst1 _ _
    have h1 := (ih.operand neg st hp.operand).ok_of_eq ‹classSetOperand fl hn fuel neg st = _›
    simp only [OpPost] at h1
    have hs : SSuf inp2 st.inp :=
      SSuf.suf_trans (hst1 ▸ suf_cons _ (suf_cons _ (suf_refl _))) h1.2.1
    refine (ih.sub neg ⟨inp2, st1.depth⟩ _ (hp.step (st' := ⟨inp2, st1.depth⟩) hs h1.2.2)
      (unionOperand_ok (show CSOK {} from nil_wf) (closeClassSetOperand_ok _ h1.1))).mono ?_
    exact fun p hp' => hp'.trans hs.1 h1.2.2
  · rename_i _ _ _ _ st1 ec rest1 hst1 _ _ _ f e _ _ _ _
    have h1 := (ih.operand neg st hp.operand).ok_of_eq ‹classSetOperand fl hn fuel neg st = _›
    simp only [OpPost] at h1
    have hs : SSuf rest1 st.inp := SSuf.suf_trans (hst1 ▸ suf_cons _ (suf_refl _)) h1.2.1
    exact (ih.operand neg ⟨rest1, st1.depth⟩
      (hp.step (st' := ⟨rest1, st1.depth⟩) hs h1.2.2).le).error_of_eq ‹_›
  · rename_i _ _ _ _ st1 ec rest1 hst1 _ _ _ f l st2 hfl _ _ _ _
    have h1 := (ih.operand neg st hp.operand).ok_of_eq ‹classSetOperand fl hn fuel neg st = _›
    simp only [OpPost] at h1
    have hs : SSuf rest1 st.inp := SSuf.suf_trans (hst1 ▸ suf_cons _ (suf_refl _)) h1.2.1
    have hp2 := hp.step (st' := ⟨rest1, st1.depth⟩) hs h1.2.2
    have h2 := (ih.operand neg ⟨rest1, st1.depth⟩ hp2.le).ok_of_eq
      ‹classSetOperand fl hn fuel neg ⟨_, _⟩ = _›
    simp only [OpPost, OperandOK] at h2
    have hs2 : SSuf st2.inp st.inp := h2.2.1.trans hs
    have hd2 : st2.depth = st.depth := h2.2.2.trans h1.2.2
    simp only [if_false]
    refine (ih.union neg st2 _ (hp.step hs2 hd2)
      (range_ok (show CSOK {} from nil_wf) h2.1 hfl)).mono ?_
    exact fun p hp' => hp'.trans hs2.1 hd2
  · rename_i _ _ _ _ first st1 _ _ _ _ _ _ _ _
    have h1 := (ih.operand neg st hp.operand).ok_of_eq ‹classSetOperand fl hn fuel neg st = _›
    simp only [OpPost] at h1
    refine (ih.union neg _ _ (hp.step h1.2.1 h1.2.2)
      (unionOperand_ok (show CSOK {} from nil_wf) h1.1)).mono ?_
    exact fun p hp' => hp'.trans h1.2.1.1 h1.2.2

/-- The class-set functions never panic and never run out of fuel, for `fuel ≥ 2·len + 2`
(`2·len + 1` for an operand); the sets they build are well-formed; `depth` is restored. -/
theorem classSet_all (fl : Flags) (hn : Bool) (fuel : Nat) : ClassSetIH fl hn fuel := by
  induction fuel with
  | zero =>
    refine ⟨?_, ?_, ?_, ?_, ?_⟩
    · intro neg st hp; have := hp.1; omega
    · intro neg st r hp; have := hp.1; omega
    · intro neg st r hp; have := hp.1; omega
    · intro neg st r hp; have := hp.1; omega
    · intro neg st hp; have := hp.1; omega
  | succ fuel ih =>
    exact ⟨classSetExpression_step fl hn fuel ih, classSetUnion_step fl hn fuel ih,
      classSetIntersection_step fl hn fuel ih, classSetSubtraction_step fl hn fuel ih,
      classSetOperand_step fl hn fuel ih⟩

end Regress.Parse
