import Proofs.Lemmas.ClosureIter
import Proofs.Lemmas.SemSearch
import Proofs.C06
/-!
# Closure, part 2: the executor environments satisfy `EnvOKOn` / `EnvOK`

* `vb inp` — the char boundaries `p ≤ len` of a UTF-8 haystack (`VUtf8 inp`, as a `Bool`).
* `envOKOn_bt`, `envOKOn_pk` — UTF-8 input: `EnvOKOn (vb inp) (searchEnv… prog inp fuel)` for every
  `fuel` (an attempt that runs out of fuel is `none` in the environment, and `EnvOK` only constrains
  successful attempts, so no fuel hypothesis is needed).
* `envOK_bt_ascii`, `envOK_pk_ascii` — ASCII input: plain `EnvOK`.
* `attempt_bt_ok`, … — what a successful attempt reports: `pos ≤ e`, `e` valid, exactly
  `prog.groups` capture slots, every capture `(s, e')` valid with `s ≤ e'`.

Hypotheses: `wfProgFull prog` (C06, decidable), `LeadsSP prog.startPred` (the start predicate's bytes
are UTF-8 lead bytes — `C04Sem.start_pred_lead_bytes` for emitted programs; decidable), for the
backtracker; the PikeVM never calls `find_bytes`, so `LeadsSP` is not needed for it.
-/
namespace Regress.Closure
open Regress.Api Regress.VM Regress.VM.Safety Regress.C06

instance (sp : StartPred) : Decidable (IR.LeadsSP sp) := by
  cases sp <;> unfold IR.LeadsSP <;> infer_instance

/-- The valid positions of a UTF-8 haystack: in range and on a char boundary. -/
def vb (inp : Input) (p : Nat) : Bool := decide (VUtf8 inp p)

theorem vb_iff {inp : Input} {p : Nat} : vb inp p = true ↔ VUtf8 inp p := by simp [vb]

/-- The valid positions of an ASCII haystack: all of `0..=len`. -/
def va (inp : Input) (p : Nat) : Bool := decide (p ≤ inp.len)

/-- The captures reported by a successful attempt. -/
structure CapsOK (V : Nat → Prop) (groups : Nat) (c : Caps) : Prop where
  length : c.length = groups
  ok : ∀ s e, some (s, e) ∈ c → V s ∧ V e ∧ s ≤ e

theorem wfFull_parts {prog : Prog} (hw : wfProgFull prog = true) :
    wfProg prog = true ∧ checkCert prog (mkCert prog) = true ∧ Bt.lookConfined prog = true ∧
      checkOrd prog (mkOrd prog) = true := by
  simp only [wfProgFull, Bool.and_eq_true] at hw
  exact ⟨hw.1.1.1, hw.1.1.2, hw.1.2, hw.2⟩

/-! ## `next_right_pos` -/

theorem nextRightPosOpt_utf8 {inp : Input} {cs : List Nat} (ht : Utf8Text inp cs) {p q : Nat}
    (hp : VUtf8 inp p) (hq : nextRightPosOpt inp p = some q) : p < q ∧ VUtf8 inp q := by
  obtain ⟨k, hk, rfl⟩ := (vutf8_iff ht).mp hp
  by_cases hlt : k < cs.length
  · have : nextRightPosOpt inp (Utf8.off cs k) = some (Utf8.off cs (k + 1)) := by
      simp only [nextRightPosOpt, Input.nextRightPos, ht.kind, ht.bytes,
        Utf8.nextRightPos_roundtrip ht.scalar hlt]
    rw [this] at hq; cases hq
    exact ⟨Utf8.off_lt_succ hlt, (vutf8_iff ht).mpr ⟨k + 1, by omega, rfl⟩⟩
  · have : k = cs.length := by omega
    subst this
    have : nextRightPosOpt inp (Utf8.off cs cs.length) = none := by
      simp only [nextRightPosOpt, Input.nextRightPos, ht.kind, ht.bytes,
        Utf8.nextRightPos_roundtrip_end]
    rw [this] at hq; cases hq

/-- At a boundary below the end `next_right_pos` is `Some` (not needed by `EnvOK`, used by C20). -/
theorem nextRightPosOpt_utf8_some {inp : Input} {cs : List Nat} (ht : Utf8Text inp cs) {p : Nat}
    (hp : VUtf8 inp p) (hlt : p < inp.len) : ∃ q, nextRightPosOpt inp p = some q := by
  obtain ⟨k, hk, rfl⟩ := (vutf8_iff ht).mp hp
  by_cases hlt' : k < cs.length
  · exact ⟨Utf8.off cs (k + 1), by
      simp only [nextRightPosOpt, Input.nextRightPos, ht.kind, ht.bytes,
        Utf8.nextRightPos_roundtrip ht.scalar hlt']⟩
  · have : k = cs.length := by omega
    subst this
    unfold Input.len at hlt
    rw [ht.bytes, Utf8.off_length] at hlt
    omega

theorem nextRightPosOpt_ascii {inp : Input} (hk : inp.kind = .ascii) (p : Nat) :
    nextRightPosOpt inp p = if p < inp.len then some (p + 1) else none := by
  simp only [nextRightPosOpt, Input.nextRightPos, hk, Input.tryMoveRight, Utf8.tryMoveRight, Input.len]
  by_cases h : p < inp.bytes.size
  · have : ¬ inp.bytes.size - p < 1 := by omega
    simp [this, h]
  · have : inp.bytes.size - p < 1 := by omega
    simp [this, h]

/-! ## `find_bytes` -/

theorem findSeq_range (bytes : Array Nat) (needle : List Nat) : ∀ fuel i q,
    findSeq bytes needle fuel i = some q → i ≤ q ∧ q + needle.length ≤ bytes.size := by
  intro fuel
  induction fuel with
  | zero => intro i q h; simp [findSeq] at h
  | succ n ih =>
    intro i q h
    simp only [findSeq] at h
    split at h
    · cases h
    · split at h
      · cases h; omega
      · have := ih _ _ h; omega

theorem findBytesPred_range (sp : StartPred) (bytes : Array Nat) {p q : Nat} (hp : p ≤ bytes.size)
    (h : findBytesPred sp bytes p = some q) : p ≤ q ∧ q ≤ bytes.size := by
  unfold findBytesPred at h
  split at h
  · cases h; omega
  · cases h; omega
  · rename_i bs
    have := C04.findFirst_spec bytes (fun b => bs.contains b) (bytes.size - p) p (Nat.le_refl _)
    rw [h] at this
    omega
  · have := findSeq_range _ _ _ _ _ h
    omega

/-- With a start predicate made of lead bytes, the byte scan started anywhere lands on a char
boundary. -/
theorem findBytesPred_boundary {sp : StartPred} (hl : IR.LeadsSP sp) (inp : Input) {p q : Nat}
    (hp : VUtf8 inp p) (h : findBytesPred sp inp.bytes p = some q) : p ≤ q ∧ VUtf8 inp q := by
  have hr := findBytesPred_range sp inp.bytes hp.1 h
  refine ⟨hr.1, hr.2, ?_⟩
  unfold findBytesPred at h
  split at h
  · cases h; exact hp.2
  · cases h; exact hp.2
  · rename_i bs
    have := C04.findFirst_spec inp.bytes (fun b => bs.contains b) (inp.bytes.size - p) p (Nat.le_refl _)
    rw [h] at this
    obtain ⟨_, _, ⟨b, hb, hpb⟩, _⟩ := this
    exact IR.boundary_of_lead hb (hl b (by simpa using hpb))
  · rename_i needle
    have := IR.findSeq_spec inp.bytes needle hl.1 (inp.bytes.size - p + 1) p (Nat.le_refl _)
    rw [h] at this
    obtain ⟨_, _, ⟨t, ht'⟩, _⟩ := this
    cases hn : needle with
    | nil => exact absurd hn hl.1
    | cons b nt =>
      rw [hn] at ht'
      have hb : inp.bytes[q]? = some b := by
        have : (inp.bytes.toList.drop q).head? = some b := by rw [← ht']; rfl
        rw [List.head?_drop] at this
        simpa using this
      exact IR.boundary_of_lead hb (hl.2 b (by rw [hn]; rfl))

/-! ## Attempts: the backtracking executor -/

theorem capsOf_length_bt {prog : Prog} {V : Nat → Prop} {st : Bt.State} (h : Bt.StateOK prog V st) :
    (Bt.capsOf st).length = prog.groups := by
  simp [Bt.capsOf, h.groups]

theorem capsOf_length_pk {prog : Prog} {V : Nat → Prop} {st : Pk.State} (h : Pk.DataOK prog V st) :
    (Pk.capsOf st).length = prog.groups := by
  simp [Pk.capsOf, h.groups]

/-- One attempt of the backtracking executor on a fresh matcher, UTF-8: what the environment sees. -/
theorem attempt_bt_ok {prog : Prog} {inp : Input} {cs : List Nat} (hw : wfProgFull prog = true)
    (ht : Utf8Text inp cs) (fuel : Nat) {p e : Nat} {c : Caps} (hp : VUtf8 inp p)
    (ha : (searchEnvBt prog inp fuel).attempt p = some (e, c)) :
    p ≤ e ∧ VUtf8 inp e ∧ CapsOK (VUtf8 inp) prog.groups c := by
  obtain ⟨h1, h2, h3, h4⟩ := wfFull_parts hw
  have hs := bt_safe_utf8_full h1 h2 h4 h3 ht hp (freshState_ok prog _ 0) (freshState_clean prog 0)
    fuel fuel
  simp only [searchEnvBt] at ha
  change (match Bt.run prog inp fuel fuel 0 p true (Bt.freshState prog 0) #[.exhausted] 0 0 with
    | .matched e st _ _ => some (e, Bt.capsOf st) | _ => none) = some (e, c) at ha
  split at ha
  · next e' st' s' k' heq =>
    rw [heq] at hs
    simp only [Option.some.injEq, Prod.mk.injEq] at ha
    obtain ⟨rfl, rfl⟩ := ha
    exact ⟨hs.1, hs.2.1, ⟨capsOf_length_bt hs.2.2.1, hs.2.2.2⟩⟩
  · cases ha

theorem attempt_bt_ok_ascii {prog : Prog} {inp : Input} (hw : wfProgFull prog = true)
    (hk : inp.kind = .ascii) (fuel : Nat) {p e : Nat} {c : Caps} (hp : p ≤ inp.len)
    (ha : (searchEnvBt prog inp fuel).attempt p = some (e, c)) :
    p ≤ e ∧ e ≤ inp.len ∧ CapsOK (· ≤ inp.len) prog.groups c := by
  obtain ⟨h1, _, h3, h4⟩ := wfFull_parts hw
  have hs := bt_safe_ascii_full h1 h4 h3 hk hp (freshState_ok prog _ 0) (freshState_clean prog 0)
    fuel fuel
  simp only [searchEnvBt] at ha
  change (match Bt.run prog inp fuel fuel 0 p true (Bt.freshState prog 0) #[.exhausted] 0 0 with
    | .matched e st _ _ => some (e, Bt.capsOf st) | _ => none) = some (e, c) at ha
  split at ha
  · next e' st' s' k' heq =>
    rw [heq] at hs
    simp only [Option.some.injEq, Prod.mk.injEq] at ha
    obtain ⟨rfl, rfl⟩ := ha
    exact ⟨hs.1, hs.2.1, ⟨capsOf_length_bt hs.2.2.1, hs.2.2.2⟩⟩
  · cases ha

/-- **`envOK_bt`** (UTF-8): the backtracking executor's environment is well-behaved on char
boundaries, and the boundaries are closed under everything the iterator does. Any `fuel`. -/
theorem envOKOn_bt {prog : Prog} {inp : Input} {cs : List Nat} (hw : wfProgFull prog = true)
    (hl : IR.LeadsSP prog.startPred) (ht : Utf8Text inp cs) (fuel : Nat) :
    EnvOKOn (vb inp) (searchEnvBt prog inp fuel) where
  v_le := by intro p hp; exact (vb_iff.mp hp).1
  attempt_range := by
    intro p e c hp ha
    have := attempt_bt_ok hw ht fuel (vb_iff.mp hp) ha
    exact ⟨this.1, vb_iff.mpr this.2.1⟩
  next_gt := by
    intro p q hp hq
    have := nextRightPosOpt_utf8 ht (vb_iff.mp hp) hq
    exact ⟨this.1, vb_iff.mpr this.2⟩
  find_range := by
    intro p q hp hq
    have := findBytesPred_boundary hl inp (vb_iff.mp hp) hq
    exact ⟨this.1, vb_iff.mpr this.2⟩

/-- **`envOK_bt`** (ASCII): plain `EnvOK`, every position `p ≤ len`. Any `fuel`. -/
theorem envOK_bt_ascii {prog : Prog} {inp : Input} (hw : wfProgFull prog = true)
    (hk : inp.kind = .ascii) (fuel : Nat) : EnvOK (searchEnvBt prog inp fuel) where
  attempt_range := by
    intro p e c hp ha
    have := attempt_bt_ok_ascii hw hk fuel hp ha
    exact ⟨this.1, this.2.1⟩
  next_gt := by
    intro p q _ hq
    change nextRightPosOpt inp p = some q at hq
    rw [nextRightPosOpt_ascii hk] at hq
    show p < q ∧ q ≤ inp.len
    split at hq
    · cases hq; omega
    · cases hq
  find_range := by
    intro p q hp hq
    exact findBytesPred_range _ _ hp hq

/-! ## Attempts: the PikeVM -/

/-- `C06.pk_safe_of_spec_ord`, keeping the shape of the final thread (`DataOK`). -/
theorem pk_safe_of_spec_ord' {prog : Prog} {inp : Input} {A : Bool → Nat → Nat → Prop} {V : Nat → Prop}
    (hs : Spec prog inp A V) (hw : wfProg prog = true) {c : OrdCert} (hchk : checkOrd prog c = true)
    (hlc : Bt.lookConfined prog = true) {pos : Nat} (hA : A true 0 pos) (entry fuel : Nat) :
    match Pk.attemptAt prog inp fuel pos entry with
    | .error _ => False
    | .matched e st _ _ => pos ≤ e ∧ V e ∧ Pk.DataOK prog V st ∧
        ∀ s e', some (s, e') ∈ Pk.capsOf st → V s ∧ V e' ∧ s ≤ e'
    | _ => True := by
  have hinit : Pk.PT prog A V c (pos, (none, (Pk.initState prog pos entry).groups)) true
      (Pk.initState prog pos entry) := by
    refine ⟨⟨hA, MovedLe.refl _ _, initState_ok prog _ pos entry⟩, trivial, ⟨rfl, fun _ _ => rfl⟩, ?_⟩
    simp only [checkOrd, Bool.and_eq_true, beq_iff_eq] at hchk
    refine ⟨_, hchk.1, ?_⟩
    intro g gd hg
    simp only [Pk.initState, Array.getElem?_replicate] at hg
    split at hg
    · cases hg
      rename_i hlt
      exact ⟨1, by simp [hlt], sem_reset _ _⟩
    · cases hg
  have := Pk.runStates_safe_ord hs hw hchk hlc fuel (fuel + 1) #[Pk.initState prog pos entry] true 0 0
    (pos, (none, (Pk.initState prog pos entry).groups)) trivial (by
      intro i s hi
      have : i = 0 := by
        have := lt_of_getElem?_eq_some hi; simp at this; omega
      subst this
      simp at hi; subst hi
      exact hinit)
  unfold Pk.attemptAt Pk.tryAtPos
  cases hr : Pk.runStates prog inp fuel (fuel + 1) #[Pk.initState prog pos entry] true 0 0 with
  | error e => rw [hr] at this; exact this.1
  | matched e st _ _ =>
    rw [hr] at this
    obtain ⟨⟨h1, h2, h3, h4⟩, _, hord⟩ := this
    have hcaps : ∀ s e', some (s, e') ∈ Pk.capsOf st → s ≤ e' :=
      caps_ordered (st := { loops := st.loops, groups := st.groups }) hord
    exact ⟨h3.1 rfl, h2, h4, fun s e' hm =>
      ⟨(pk_caps_ok h4 s e' hm).1, (pk_caps_ok h4 s e' hm).2, hcaps s e' hm⟩⟩
  | failed _ _ => trivial
  | outOfFuel => trivial

theorem attempt_pk_ok {prog : Prog} {inp : Input} {cs : List Nat} (hw : wfProgFull prog = true)
    (ht : Utf8Text inp cs) (fuel : Nat) {p e : Nat} {c : Caps} (hp : VUtf8 inp p)
    (ha : (searchEnvPk prog inp fuel).attempt p = some (e, c)) :
    p ≤ e ∧ VUtf8 inp e ∧ CapsOK (VUtf8 inp) prog.groups c := by
  obtain ⟨h1, h2, h3, h4⟩ := wfFull_parts hw
  have hs := pk_safe_of_spec_ord' (specUtf8Cert h1 h2 ht) h1 h4 h3 (cert_start h1 h2 ht hp) p fuel
  simp only [searchEnvPk] at ha
  change (match Pk.attemptAt prog inp fuel p p with
    | .matched e st _ _ => some (e, Pk.capsOf st) | _ => none) = some (e, c) at ha
  split at ha
  · next e' st' s' k' heq =>
    rw [heq] at hs
    simp only [Option.some.injEq, Prod.mk.injEq] at ha
    obtain ⟨rfl, rfl⟩ := ha
    exact ⟨hs.1, hs.2.1, ⟨capsOf_length_pk hs.2.2.1, hs.2.2.2⟩⟩
  · cases ha

theorem attempt_pk_ok_ascii {prog : Prog} {inp : Input} (hw : wfProgFull prog = true)
    (hk : inp.kind = .ascii) (fuel : Nat) {p e : Nat} {c : Caps} (hp : p ≤ inp.len)
    (ha : (searchEnvPk prog inp fuel).attempt p = some (e, c)) :
    p ≤ e ∧ e ≤ inp.len ∧ CapsOK (· ≤ inp.len) prog.groups c := by
  obtain ⟨h1, _, h3, h4⟩ := wfFull_parts hw
  have hs := pk_safe_of_spec_ord' (specAscii h1 hk) h1 h4 h3 ⟨wf_size_pos h1, hp⟩ p fuel
  simp only [searchEnvPk] at ha
  change (match Pk.attemptAt prog inp fuel p p with
    | .matched e st _ _ => some (e, Pk.capsOf st) | _ => none) = some (e, c) at ha
  split at ha
  · next e' st' s' k' heq =>
    rw [heq] at hs
    simp only [Option.some.injEq, Prod.mk.injEq] at ha
    obtain ⟨rfl, rfl⟩ := ha
    exact ⟨hs.1, hs.2.1, ⟨capsOf_length_pk hs.2.2.1, hs.2.2.2⟩⟩
  · cases ha

/-- **`envOK_pk`** (UTF-8). Any `fuel`; no hypothesis on the start predicate (`find_bytes = Some`). -/
theorem envOKOn_pk {prog : Prog} {inp : Input} {cs : List Nat} (hw : wfProgFull prog = true)
    (ht : Utf8Text inp cs) (fuel : Nat) : EnvOKOn (vb inp) (searchEnvPk prog inp fuel) where
  v_le := by intro p hp; exact (vb_iff.mp hp).1
  attempt_range := by
    intro p e c hp ha
    have := attempt_pk_ok hw ht fuel (vb_iff.mp hp) ha
    exact ⟨this.1, vb_iff.mpr this.2.1⟩
  next_gt := by
    intro p q hp hq
    have := nextRightPosOpt_utf8 ht (vb_iff.mp hp) hq
    exact ⟨this.1, vb_iff.mpr this.2⟩
  find_range := by
    intro p q hp hq
    cases hq
    exact ⟨Nat.le_refl _, hp⟩

/-- **`envOK_pk`** (ASCII). -/
theorem envOK_pk_ascii {prog : Prog} {inp : Input} (hw : wfProgFull prog = true)
    (hk : inp.kind = .ascii) (fuel : Nat) : EnvOK (searchEnvPk prog inp fuel) where
  attempt_range := by
    intro p e c hp ha
    have := attempt_pk_ok_ascii hw hk fuel hp ha
    exact ⟨this.1, this.2.1⟩
  next_gt := by
    intro p q _ hq
    change nextRightPosOpt inp p = some q at hq
    rw [nextRightPosOpt_ascii hk] at hq
    show p < q ∧ q ≤ inp.len
    split at hq
    · cases hq; omega
    · cases hq
  find_range := by
    intro p q hp hq
    cases hq
    exact ⟨Nat.le_refl _, hp⟩

end Regress.Closure
