import Proofs.Lemmas.CertsEmit
import Proofs.Lemmas.CertsNest2
import Proofs.Lemmas.Frame
import Proofs.Lemmas.SafetyBt
/-!
# Certificates, part 9: look-around bodies are closed

For every emitted program (`Root r prog sk`):

* `Root.lookClosed` : `Bt.lookClosed prog = true` (Frame.lean) — the body `(ip, k)` of every look-around
  is non-empty, closed under control flow, writes only loop slots of loops inside the body and only
  capture groups in `[start_group, end_group)`;
* `Root.lookConfined` : `Bt.lookConfined prog = true` (SafetyBt.lean) — the same in terms of
  `Safety.allSuccs` / `Safety.groupOf`.

Both follow from `LookBody`: a look-around instruction at `ip` with fields `(sg, eg, k)` is the head of
a look occurrence `Look; body; Goal`, the body is laid out at `[ip + 1, k - 1)`, scoped by `[sg, eg)`,
and the `Goal` sits at `k - 1` (`look_body`).  The reusable facts about the instructions of a body are
`LookBody.succ` (successors stay in `(ip, k)`), `LookBody.groups` (written groups in `[sg, eg)`),
`LookBody.nested` (a nested look-around: its range is inside `[sg, eg]`, its body start and continuation
are inside `(ip, k)`), `LookBody.enter` / `LookBody.again` (loop ids are ids of `EnterLoop`s of the body).

No extra static hypothesis on the skeleton is needed (only `Lay`, `Sk.ok`, `Sk.gsc`).
-/
namespace Regress.Certs

open Regress.VM Regress.IR Regress.Keystone Regress.VM.Safety

/-- The body of the look-around at `ip` with fields `(sg, eg, k)`: `Look; body; Goal` with `body` laid
out at `ip + 1`, `k = ip + body.size + 2`. -/
structure LookBody (prog : Prog) (G nb L : Nat) (ip sg eg k : Nat) (body : Sk) : Prop where
  lay : Lay prog.insns body (ip + 1)
  ok : body.ok G nb L = true
  gsc : body.gsc sg eg = true
  le : sg ≤ eg
  k_eq : k = ip + body.size + 2
  goal : At prog.insns (ip + 1 + body.size) .goal

/-- A look-around instruction of a layout heads a look occurrence; the occurrence is inside the layout
and its group range inside the scope of the layout. -/
theorem look_body {prog : Prog} {G nb L : Nat} {sk : Sk} {b lo hi : Nat} (hl : Lay prog.insns sk b)
    (hok : sk.ok G nb L = true) (hg : sk.gsc lo hi = true) {x : Nat} {i : Insn} {sg eg k : Nat}
    (h1 : b ≤ x) (h2 : x < b + sk.size) (hat : At prog.insns x i) (hlk : Bt.lookOf i = some (sg, eg, k)) :
    ∃ body, LookBody prog G nb L x sg eg k body ∧ k ≤ b + sk.size ∧ lo ≤ sg ∧ eg ≤ hi := by
  obtain ⟨neg, bw, body, hs, hk, _⟩ := Lay.look_inv hl hok h1 h2 hat hlk
  have hlay := hs.lay hl
  simp only [Lay] at hlay
  have hok' := hs.ok hok
  simp only [Sk.ok, Bool.and_eq_true, decide_eq_true_eq] at hok'
  obtain ⟨lo', hi', hg', h3, h4⟩ := hs.gsc hg
  simp only [Sk.gsc, Bool.and_eq_true, decide_eq_true_eq] at hg'
  have hr := hs.range
  simp only [Sk.size] at hr
  exact ⟨body, ⟨hlay.2.1, hok'.2, hg'.2, hg'.1.1.2, hk, hlay.2.2⟩, by omega, by omega, by omega⟩

namespace LookBody

variable {prog : Prog} {G nb L : Nat} {ip sg eg k : Nat} {body : Sk}

theorem lt (B : LookBody prog G nb L ip sg eg k body) : ip + 1 < k := by
  have := B.k_eq; omega

/-- The instruction at `x ∈ (ip, k)` is an instruction of the body, or the final `Goal`. -/
theorem split (B : LookBody prog G nb L ip sg eg k body) {x : Nat} {i : Insn} (h1 : ip < x) (h2 : x < k)
    (hat : At prog.insns x i) : (ip + 1 ≤ x ∧ x < ip + 1 + body.size) ∨ i = .goal := by
  have := B.k_eq
  by_cases hx : x < ip + 1 + body.size
  · exact Or.inl ⟨h1, hx⟩
  · have : x = ip + 1 + body.size := by omega
    subst this
    exact Or.inr (at_inj hat B.goal)

/-- **Successors of body instructions stay in the body.** -/
theorem succ (B : LookBody prog G nb L ip sg eg k body) {x : Nat} {i : Insn} (h1 : ip < x) (h2 : x < k)
    (hat : At prog.insns x i) : ∀ s ∈ allSuccs prog x i, ip < s ∧ s < k := by
  intro s hs
  have := B.k_eq
  rcases B.split h1 h2 hat with ⟨h3, h4⟩ | rfl
  · have := Lay.succ_in B.lay B.ok x h3 h4 i hat s hs
    omega
  · simp [allSuccs] at hs

/-- **Groups written in the body are groups of the look-around.** -/
theorem groups (B : LookBody prog G nb L ip sg eg k body) {x : Nat} {i : Insn} (h1 : ip < x) (h2 : x < k)
    (hat : At prog.insns x i) {g : Nat} (hg : groupOf i = some g) : sg ≤ g ∧ g < eg := by
  rcases B.split h1 h2 hat with ⟨h3, h4⟩ | rfl
  · exact Lay.groups_in B.lay B.ok B.gsc x h3 h4 i g hat hg
  · simp [groupOf] at hg

/-- **A nested look-around**: its group range is inside the range of the enclosing one, its body start
and its continuation are inside the enclosing body. -/
theorem nested (B : LookBody prog G nb L ip sg eg k body) {x : Nat} {i : Insn} (h1 : ip < x) (h2 : x < k)
    (hat : At prog.insns x i) {sg' eg' k' : Nat} (hlk : Bt.lookOf i = some (sg', eg', k')) :
    sg ≤ sg' ∧ sg' ≤ eg' ∧ eg' ≤ eg ∧ x + 1 < k' ∧ k' < k := by
  have := B.k_eq
  rcases B.split h1 h2 hat with ⟨h3, h4⟩ | rfl
  · obtain ⟨body', B', h5, h6, h7⟩ := look_body B.lay B.ok B.gsc h3 h4 hat hlk
    have := B'.lt
    have := B'.le
    omega
  · simp [Bt.lookOf] at hlk

/-- An `EnterLoop` of the body is a body loop. -/
theorem enter (_B : LookBody prog G nb L ip sg eg k body) {x : Nat} (h1 : ip < x) (h2 : x < k)
    {id mn : Nat} {mx : Option Nat} {gr : Bool} {ex : Nat} (hat : At prog.insns x (.enterLoop id mn mx gr ex)) :
    Bt.bodyLoop prog ip k id = true := by
  unfold At at hat
  simp only [Bt.bodyLoop, List.any_eq_true, List.mem_range]
  refine ⟨x - (ip + 1), by omega, ?_⟩
  rw [show ip + 1 + (x - (ip + 1)) = x by omega, hat]
  simp

/-- The `EnterLoop` of a `LoopAgain` of the body is in the body. -/
theorem again (B : LookBody prog G nb L ip sg eg k body) {x : Nat} (h1 : ip < x) (h2 : x < k) {b0 : Nat}
    (hat : At prog.insns x (.loopAgain b0)) : ip < b0 ∧ b0 < x := by
  rcases B.split h1 h2 hat with ⟨h3, h4⟩ | h
  · obtain ⟨id, mn, mx, gr, g0, cnt, body', hs, hx⟩ := Lay.again_inv B.lay B.ok h3 h4 hat
    have := hs.range
    omega
  · cases h

/-- **`Bt.insnIn` for the instructions of a look-around body.** -/
theorem insnIn (B : LookBody prog G nb L ip sg eg k body) {x : Nat} {i : Insn} (h1 : ip < x) (h2 : x < k)
    (hat : At prog.insns x i) :
    Bt.insnIn prog (Bt.inBody ip k) (Bt.inBody ip k) (Bt.bodyLoop prog ip k) (Bt.inRange sg eg) x i = true := by
  have R : ∀ s ∈ allSuccs prog x i, Bt.inBody ip k s = true := by
    intro s hs
    simp only [Bt.inBody, Bool.and_eq_true, decide_eq_true_eq]
    exact B.succ h1 h2 hat s hs
  have Gr : ∀ g, groupOf i = some g → Bt.inRange sg eg g = true := by
    intro g hg
    simp only [Bt.inRange, Bool.and_eq_true, decide_eq_true_eq]
    exact B.groups h1 h2 hat hg
  have Lk : ∀ sg' eg' k', Bt.lookOf i = some (sg', eg', k') →
      (Bt.inBody ip k (x + 1) && Bt.inBody ip k k' &&
        (List.range (eg' - sg')).all (fun d => Bt.inRange sg eg (sg' + d))) = true := by
    intro sg' eg' k' hlk
    have := B.nested h1 h2 hat hlk
    simp only [Bt.inBody, Bt.inRange, Bool.and_eq_true, decide_eq_true_eq, List.all_eq_true, List.mem_range]
    refine ⟨⟨⟨by omega, by omega⟩, by omega, by omega⟩, ?_⟩
    intro d hd
    omega
  cases i with
  | goal => rfl
  | justFail => rfl
  | jump t => simp only [Bt.insnIn]; exact R t (by simp [allSuccs])
  | alt s =>
    simp only [Bt.insnIn, Bool.and_eq_true]
    exact ⟨R _ (by simp [allSuccs]), R _ (by simp [allSuccs])⟩
  | enterLoop id mn mx gr ex =>
    simp only [Bt.insnIn, Bool.and_eq_true]
    exact ⟨⟨R _ (by simp [allSuccs]), R _ (by simp [allSuccs])⟩, B.enter h1 h2 hat⟩
  | loopAgain b0 =>
    simp only [Bt.insnIn]
    split
    · rename_i id mn mx gr ex heq
      have hb := B.again h1 h2 hat
      simp only [Bool.and_eq_true]
      exact ⟨⟨R _ (by simp [allSuccs, heq]), R _ (by simp [allSuccs, heq])⟩,
        B.enter hb.1 (by omega) heq⟩
    · rfl
  | loop1 mn mx gr => simp only [Bt.insnIn]; exact R _ (by simp [allSuccs])
  | lookahead neg sg' eg' k' => simp only [Bt.insnIn]; exact Lk sg' eg' k' rfl
  | lookbehind neg sg' eg' k' => simp only [Bt.insnIn]; exact Lk sg' eg' k' rfl
  | beginCaptureGroup g =>
    simp only [Bt.insnIn, Bool.and_eq_true]; exact ⟨R _ (by simp [allSuccs]), Gr g rfl⟩
  | endCaptureGroup g =>
    simp only [Bt.insnIn, Bool.and_eq_true]; exact ⟨R _ (by simp [allSuccs]), Gr g rfl⟩
  | resetCaptureGroup g =>
    simp only [Bt.insnIn, Bool.and_eq_true]; exact ⟨R _ (by simp [allSuccs]), Gr g rfl⟩
  | _ => simp only [Bt.insnIn]; exact R _ (by simp [allSuccs])

/-- **`Bt.insnClosed` for the instructions of a look-around body.** -/
theorem insnClosed (B : LookBody prog G nb L ip sg eg k body) {x : Nat} {i : Insn} (h1 : ip < x) (h2 : x < k)
    (hat : At prog.insns x i) : Bt.insnClosed prog ⟨ip + 1, k, sg, eg⟩ x i = true := by
  simp only [Bt.insnClosed, Bool.and_eq_true, List.all_eq_true, decide_eq_true_eq]
  refine ⟨⟨?_, ?_⟩, ?_⟩
  · intro s hs
    have := B.succ h1 h2 hat s hs
    omega
  · cases hg : groupOf i with
    | none => trivial
    | some g =>
      have := B.groups h1 h2 hat hg
      simp only [Bool.and_eq_true, decide_eq_true_eq]
      exact this
  · cases i with
    | lookahead neg sg' eg' k' =>
      have := B.nested h1 h2 hat (sg' := sg') (eg' := eg') (k' := k') rfl
      simp only [Bool.and_eq_true, decide_eq_true_eq]
      omega
    | lookbehind neg sg' eg' k' =>
      have := B.nested h1 h2 hat (sg' := sg') (eg' := eg') (k' := k') rfl
      simp only [Bool.and_eq_true, decide_eq_true_eq]
      omega
    | _ => trivial

end LookBody

/-! ## The certificates -/

section Cert
variable {prog : Prog} {G nb L : Nat} {sk : Sk} {lo hi : Nat}

/-- `Bt.lookClosed` from the layout of a root skeleton. -/
theorem Lay.lookClosed (hl : Lay prog.insns sk 0) (hsz : prog.insns.size = sk.size)
    (hok : sk.ok G nb L = true) (hg : sk.gsc lo hi = true) : Bt.lookClosed prog = true := by
  simp only [Bt.lookClosed, List.all_eq_true, List.mem_range]
  intro ip hip
  obtain ⟨i, hi⟩ := hl.get ip (Nat.zero_le _) (by omega)
  rw [hi, Option.bind_some]
  cases hlk : Bt.lookOf i with
  | none => trivial
  | some t =>
    obtain ⟨sg, eg, k⟩ := t
    obtain ⟨body, B, _⟩ := look_body hl hok hg (Nat.zero_le _) (by omega) hi hlk
    simp only [Bool.and_eq_true, decide_eq_true_eq, List.all_eq_true, List.mem_range]
    refine ⟨B.lt, ?_⟩
    intro d hd
    cases hj : prog.insns[ip + 1 + d]? with
    | none => trivial
    | some j => exact B.insnIn (by omega) (by omega) hj

/-- `Bt.lookConfined` from the layout of a root skeleton. -/
theorem Lay.lookConfined (hl : Lay prog.insns sk 0) (hsz : prog.insns.size = sk.size)
    (hok : sk.ok G nb L = true) (hg : sk.gsc lo hi = true) : Bt.lookConfined prog = true := by
  simp only [Bt.lookConfined, List.all_eq_true, List.mem_range]
  intro ip hip
  obtain ⟨i, hi⟩ := hl.get ip (Nat.zero_le _) (by omega)
  have key : ∀ sg eg k, Bt.lookOf i = some (sg, eg, k) →
      (decide (ip + 1 < k) && Bt.bodyClosed prog ⟨ip + 1, k, sg, eg⟩) = true := by
    intro sg eg k hlk
    obtain ⟨body, B, _⟩ := look_body hl hok hg (Nat.zero_le _) (by omega) hi hlk
    simp only [Bt.bodyClosed, Bool.and_eq_true, decide_eq_true_eq, List.all_eq_true, List.mem_range]
    refine ⟨B.lt, ?_⟩
    intro d hd
    cases hj : prog.insns[ip + 1 + d]? with
    | none => trivial
    | some j => exact B.insnClosed (by omega) (by omega) hj
  rw [hi]
  cases i with
  | lookahead neg sg eg k => exact key sg eg k rfl
  | lookbehind neg sg eg k => exact key sg eg k rfl
  | _ => trivial

end Cert

/-- **`lookClosed` of every emitted program.** -/
theorem Root.lookClosed {r : Regex} {prog : Prog} {sk : Sk} (R : Root r prog sk) :
    Bt.lookClosed prog = true :=
  Lay.lookClosed R.lay R.size R.ok R.gsc

/-- **`lookConfined` of every emitted program.** -/
theorem Root.lookConfined {r : Regex} {prog : Prog} {sk : Sk} (R : Root r prog sk) :
    Bt.lookConfined prog = true :=
  Lay.lookConfined R.lay R.size R.ok R.gsc

/-! ## Non-vacuity: the layout of `(?=(a)(?!b))` -/

/-- `Lookahead; Begin 0; 'a'; End 0; NegLookahead; 'b'; Goal; Goal; Goal`. -/
def exProg : Prog :=
  { insns := #[.lookahead false 0 1 8, .beginCaptureGroup 0, .char 97, .endCaptureGroup 0,
      .lookahead true 1 1 7, .char 98, .goal, .goal, .goal],
    brackets := #[], loops := 0, groups := 1, flags := {}, names := [], startPred := .arbitrary }

def exSk : Sk :=
  .seq (.look false false 0 1 (.seq (.group 0 (.one (.char 97))) (.look true false 1 1 (.one (.char 98)))))
    (.one .goal)

example : Lay exProg.insns exSk 0 ∧ exProg.insns.size = exSk.size ∧ exSk.ok 1 0 0 = true ∧
    exSk.gsc 0 1 = true := by
  refine ⟨?_, rfl, by decide, by decide⟩
  simp [exSk, exProg, Lay, At, lookI, Sk.size]

example : Bt.lookClosed exProg = true ∧ Bt.lookConfined exProg = true := by
  have hl : Lay exProg.insns exSk 0 := by simp [exSk, exProg, Lay, At, lookI, Sk.size]
  exact ⟨Lay.lookClosed (G := 1) (nb := 0) (L := 0) (lo := 0) (hi := 1) hl rfl (by decide) (by decide),
    Lay.lookConfined (G := 1) (nb := 0) (L := 0) (lo := 0) (hi := 1) hl rfl (by decide) (by decide)⟩

end Regress.Certs

#print axioms Regress.Certs.Root.lookClosed
#print axioms Regress.Certs.Root.lookConfined
