import Proofs.Lemmas.ClosureEnv
/-!
# Closure, part 2b: admissibility of the byte scan for the executor's attempts

`C09.iter_is_unfold` / `prefilter_transparent` need `PrefilterAdmissible`: the prefix search skips only
positions at which the match attempt fails. For the IR semantics this is `C04Sem.byte_scan_admissible`.
For the *executors* it reduces (this file) to one semantic fact about the compiled program,
`StartPredSound`: an attempt of the executor can only succeed at a position whose following bytes
the start predicate admits. For an emitted program that is `C04Sem.predicate_for_re_sound` composed
with "a VM match is an IR match" (emitter correctness, C07) — not assumed here, kept as a hypothesis.
-/
namespace Regress.Closure
open Regress.Api Regress.VM Regress.VM.Safety Regress.C09

/-- An attempt can only succeed where the start predicate admits the rest of the haystack. -/
def StartPredSound (sp : StartPred) (inp : Input) (env : SearchEnv) : Prop :=
  ∀ r, VUtf8 inp r → env.attempt r ≠ none → IR.admitsSP sp (IR.restBytes inp r)

theorem nextRightPosOpt_off {inp : Input} {cs : List Nat} (ht : Utf8Text inp cs) {k : Nat}
    (hk : k < cs.length) : nextRightPosOpt inp (Utf8.off cs k) = some (Utf8.off cs (k + 1)) := by
  simp only [nextRightPosOpt, Input.nextRightPos, ht.kind, ht.bytes,
    Utf8.nextRightPos_roundtrip ht.scalar hk]

/-- Consecutive boundaries are linked by `next_right_pos`. -/
theorem reach_offs {inp : Input} {cs : List Nat} (ht : Utf8Text inp cs) {env : SearchEnv}
    (hnr : env.nextRightPos = nextRightPosOpt inp) :
    ∀ (d k : Nat), k + d ≤ cs.length → Reach env (Utf8.off cs k) (Utf8.off cs (k + d)) := by
  intro d
  induction d with
  | zero => intro k _; exact Reach.refl _
  | succ d ih =>
    intro k hk
    have hstep : env.nextRightPos (Utf8.off cs k) = some (Utf8.off cs (k + 1)) := by
      rw [hnr]; exact nextRightPosOpt_off ht (by omega)
    have := ih (k + 1) (by omega)
    rw [show k + 1 + d = k + (d + 1) by omega] at this
    exact Reach.step hstep this

theorem reach_boundaries_vm {inp : Input} {cs : List Nat} (ht : Utf8Text inp cs) {env : SearchEnv}
    (hnr : env.nextRightPos = nextRightPosOpt inp) {p q : Nat} (hp : VUtf8 inp p) (hq : VUtf8 inp q)
    (hpq : p ≤ q) : Reach env p q := by
  obtain ⟨k, hk, rfl⟩ := (vutf8_iff ht).mp hp
  obtain ⟨j, hj, rfl⟩ := (vutf8_iff ht).mp hq
  have hkj : k ≤ j := by
    apply Classical.byContradiction
    intro hcon
    have := Utf8.off_strict_mono (cs := cs) (k := j) (j := k) (by omega) hk
    omega
  have := reach_offs ht hnr (j - k) k (by omega)
  rwa [show k + (j - k) = j by omega] at this

/-- **The byte scan of the start predicate is admissible for the executor**, given `StartPredSound`. -/
theorem admissibleOn_vm {inp : Input} {cs : List Nat} (ht : Utf8Text inp cs) {sp : StartPred}
    (hl : IR.LeadsSP sp) {env : SearchEnv} (hnr : env.nextRightPos = nextRightPosOpt inp)
    (hfb : env.findBytes = findBytesPred sp inp.bytes) (hon : EnvOKOn (vb inp) env)
    (hs : StartPredSound sp inp env) : PrefilterAdmissibleOn (vb inp) env := by
  have fails : ∀ r, VUtf8 inp r → ¬ IR.admitsSP sp (IR.restBytes inp r) → env.attempt r = none := by
    intro r hr hno
    apply Classical.byContradiction
    intro hne
    exact hno (hs r hr hne)
  have reach_le : ∀ p r, vb inp p = true → Reach env p r → p ≤ r ∧ VUtf8 inp r := by
    intro p r hp hr
    have := reach_restrict hon hp hr
    exact ⟨(this.1.le (restrict_ok hon) (hon.v_le p hp)).1, vb_iff.mp this.2⟩
  refine { some_reach := ?_, some_skip := ?_, none_skip := ?_ }
  · intro p q hp hq
    rw [hfb] at hq
    have := findBytesPred_boundary hl inp (vb_iff.mp hp) hq
    exact reach_boundaries_vm ht hnr (vb_iff.mp hp) this.2 this.1
  · intro p q r hp hq hr hlt
    obtain ⟨hpr, hvr⟩ := reach_le p r hp hr
    apply fails r hvr
    rw [hfb] at hq
    unfold findBytesPred at hq
    split at hq
    · cases hq; omega
    · cases hq; omega
    · rename_i bs
      have := C04.findFirst_spec inp.bytes (fun b => bs.contains b) (inp.bytes.size - p) p (Nat.le_refl _)
      rw [hq] at this
      obtain ⟨b, hb, hpb⟩ := this.2.2.2 r hpr hlt
      rintro ⟨h0, hh, hm⟩
      rw [IR.restBytes_head hb] at hh
      cases hh
      simp at hpb
      exact hpb hm
    · rename_i needle
      have := IR.findSeq_spec inp.bytes needle hl.1 (inp.bytes.size - p + 1) p (Nat.le_refl _)
      rw [hq] at this
      exact this.2.2.2 r hpr hlt
  · intro p r hp hq hr
    obtain ⟨hpr, hvr⟩ := reach_le p r hp hr
    apply fails r hvr
    rw [hfb] at hq
    unfold findBytesPred at hq
    split at hq
    · cases hq
    · cases hq
    · rename_i bs
      have := C04.findFirst_spec inp.bytes (fun b => bs.contains b) (inp.bytes.size - p) p (Nat.le_refl _)
      rw [hq] at this
      rintro ⟨h0, hh, hm⟩
      by_cases hrs : r < inp.bytes.size
      · obtain ⟨b, hb, hpb⟩ := this r hpr hrs
        rw [IR.restBytes_head hb] at hh
        cases hh
        simp at hpb
        exact hpb hm
      · simp only [IR.restBytes] at hh
        rw [List.drop_eq_nil_of_le (by simp; omega)] at hh
        cases hh
    · rename_i needle
      have := IR.findSeq_spec inp.bytes needle hl.1 (inp.bytes.size - p + 1) p (Nat.le_refl _)
      rw [hq] at this
      exact this r hpr

end Regress.Closure
