import RegressModel.VM.Pike
import RegressModel.VM.WfProg
import Proofs.Lemmas.Utf8
/-!
# Memory safety of the two interpreters: the position discipline shared by both proofs

`Spec prog inp A V` is the interface between the interpreter proofs (`SafetyBt`, `SafetyPk`) and the
input kinds: `A fwd ip pos` = "position `pos` is admissible when instruction `ip` is about to be
executed in direction `fwd`", `V p` = "`p` is a position that may be stored in a capture group / a
`Loop1Char` backtrack record" (`p ≤ len`; for UTF-8 input moreover a char boundary).
The instances:

* `specAscii`  (ASCII input, from `wfProg`),
* `specUtf8`   (UTF-8 input, from `wfProg` and a *phase certificate* for the `byteSeq` chunks).
-/
namespace Regress.VM.Safety
open Regress.VM

/-- `q` lies strictly after `p` in direction `fwd`. -/
def Moved (fwd : Bool) (p q : Nat) : Prop := (fwd = true → p < q) ∧ (fwd = false → q < p)
/-- `q` lies weakly after `p` in direction `fwd`. -/
def MovedLe (fwd : Bool) (p q : Nat) : Prop := (fwd = true → p ≤ q) ∧ (fwd = false → q ≤ p)

theorem Moved.le {fwd : Bool} {p q : Nat} (h : Moved fwd p q) : MovedLe fwd p q :=
  ⟨fun f => Nat.le_of_lt (h.1 f), fun f => Nat.le_of_lt (h.2 f)⟩
theorem MovedLe.refl (fwd : Bool) (p : Nat) : MovedLe fwd p p := ⟨fun _ => Nat.le_refl _, fun _ => Nat.le_refl _⟩
theorem MovedLe.trans {fwd : Bool} {p q r : Nat} (h1 : MovedLe fwd p q) (h2 : MovedLe fwd q r) :
    MovedLe fwd p r :=
  ⟨fun f => Nat.le_trans (h1.1 f) (h2.1 f), fun f => Nat.le_trans (h2.2 f) (h1.2 f)⟩

theorem MovedLe.fwd {p q : Nat} (h : p ≤ q) : MovedLe true p q := ⟨fun _ => h, fun f => Bool.noConfusion f⟩
theorem MovedLe.bwd {p q : Nat} (h : q ≤ p) : MovedLe false p q := ⟨fun f => Bool.noConfusion f, fun _ => h⟩
theorem Moved.fwd {p q : Nat} (h : p < q) : Moved true p q := ⟨fun _ => h, fun f => Bool.noConfusion f⟩
theorem Moved.bwd {p q : Nat} (h : q < p) : Moved false p q := ⟨fun f => Bool.noConfusion f, fun _ => h⟩

/-- The instructions that consume one element with `cursor::next`. -/
def isElem : Insn → Bool
  | .char _ | .charSet _ | .bracket _ | .matchAny | .matchAnyExceptLineTerminator => true
  | _ => false

/-- The control successors of an instruction that are entered at the *same* position and in the same
direction. -/
def ctrlSuccs (prog : Prog) (ip : Nat) : Insn → List Nat
  | .startOfLine _ | .endOfLine _ | .wordBoundary _ | .wordBoundaryUnicodeICase _ => [ip + 1]
  | .beginCaptureGroup _ | .endCaptureGroup _ | .resetCaptureGroup _ | .backRef _ _ => [ip + 1]
  | .jump t => [t]
  | .alt s => [ip + 1, s]
  | .enterLoop _ _ _ _ exit => [ip + 1, exit]
  | .loopAgain b =>
    match prog.insns[b]? with
    | some (.enterLoop _ _ _ _ exit) => [b + 1, exit]
    | _ => []
  | .lookahead _ _ _ k | .lookbehind _ _ _ k => [k]
  | .loop1 _ _ _ => [ip + 2]
  | _ => []

/-- The position discipline of a program on an input. -/
structure Spec (prog : Prog) (inp : Input) (A : Bool → Nat → Nat → Prop) (V : Nat → Prop) : Prop where
  ip_lt : ∀ {fwd ip pos}, A fwd ip pos → ip < prog.insns.size
  v_le : ∀ {p}, V p → p ≤ inp.len
  adm_v : ∀ {fwd ip pos insn}, A fwd ip pos → prog.insns[ip]? = some insn →
    (∀ bs, insn ≠ .byteSeq bs) → V pos
  ctrl : ∀ {fwd ip pos insn}, A fwd ip pos → prog.insns[ip]? = some insn →
    ∀ t ∈ ctrlSuccs prog ip insn, A fwd t pos
  elem : ∀ {fwd ip pos insn}, A fwd ip pos → prog.insns[ip]? = some insn → isElem insn = true →
    ∃ r, Cursor.next inp fwd pos = .ok r ∧ ∀ c p, r = some (c, p) → A fwd (ip + 1) p ∧ Moved fwd pos p
  byte : ∀ {fwd ip pos bs}, A fwd ip pos →
    (prog.insns[ip]? = some (.byteSet bs) ∨ prog.insns[ip]? = some (.asciiBracket bs)) →
    ∃ r, Cursor.nextByte inp fwd pos = .ok r ∧
      ∀ b p, r = some (b, p) → b ∈ bs → A fwd (ip + 1) p ∧ Moved fwd pos p
  seq : ∀ {fwd ip pos bs p}, A fwd ip pos → prog.insns[ip]? = some (.byteSeq bs) →
    inp.matchBytes fwd pos bs = some p → A fwd (ip + 1) p ∧ Moved fwd pos p
  peek : ∀ {p}, V p → (∃ r, inp.peekLeft p = .ok r) ∧ (∃ r, inp.peekRight p = .ok r)
  backref : ∀ {fwd ip pos g ic rs re p}, A fwd ip pos → prog.insns[ip]? = some (.backRef g ic) →
    V rs → V re → backref inp fwd rs re pos = some p → A fwd (ip + 1) p ∧ MovedLe fwd pos p
  backrefI : ∀ {fwd ip pos g ic rs re}, A fwd ip pos → prog.insns[ip]? = some (.backRef g ic) →
    V rs → V re → rs ≤ re →
    ∃ r, backrefIcase inp fwd rs re pos = .ok r ∧ ∀ p, r = some p → A fwd (ip + 1) p ∧ MovedLe fwd pos p
  look : ∀ {fwd ip pos neg sg eg k}, A fwd ip pos →
    (prog.insns[ip]? = some (.lookahead neg sg eg k) → A true (ip + 1) pos) ∧
    (prog.insns[ip]? = some (.lookbehind neg sg eg k) → A false (ip + 1) pos)
  loop1 : ∀ {fwd ip pos mn mx g}, A fwd ip pos → prog.insns[ip]? = some (.loop1 mn mx g) →
    ∀ p, (A fwd (ip + 2) p ↔ V p) ∧ (V p → A fwd (ip + 1) p ∧ A fwd ip p)
  stepL : ∀ {mn mx}, V mn → V mx → mn < mx →
    ∃ p, inp.nextLeftPos mx = .ok (some p) ∧ mn ≤ p ∧ p < mx ∧ V p
  stepR : ∀ {mn mx}, V mn → V mx → mn < mx →
    ∃ p, inp.nextRightPos mn = .ok (some p) ∧ mn < p ∧ p ≤ mx ∧ V p

/-! ## Consequences of `wfProg` -/

theorem wf_insn {p : Prog} (h : wfProg p = true) {ip : Nat} {insn : Insn}
    (hi : p.insns[ip]? = some insn) : wfInsn p ip insn = true := by
  simp only [wfProg, Bool.and_eq_true, List.all_eq_true, List.mem_range] at h
  obtain ⟨⟨_, h5⟩, _⟩ := h
  have hlt : ip < p.insns.size := by
    by_cases hlt : ip < p.insns.size
    · exact hlt
    · rw [Array.getElem?_eq_none (by omega)] at hi; cases hi
  have := h5 ip hlt
  rw [hi] at this
  exact this

theorem wf_succ {p : Prog} (h : wfProg p = true) {ip : Nat} {insn : Insn}
    (hi : p.insns[ip]? = some insn) (hg : insn ≠ .goal) (hf : insn ≠ .justFail) :
    ip + 1 < p.insns.size := by
  simp only [wfProg, Bool.and_eq_true, Bool.or_eq_true, beq_iff_eq] at h
  obtain ⟨⟨⟨⟨⟨⟨h1, _⟩, _⟩, _⟩, _⟩, _⟩, _⟩ := h
  have hlt : ip < p.insns.size := by
    by_cases hlt : ip < p.insns.size
    · exact hlt
    · rw [Array.getElem?_eq_none (by omega)] at hi; cases hi
  by_cases hl : ip + 1 < p.insns.size
  · exact hl
  · exfalso
    have : ip = p.insns.size - 1 := by omega
    rw [Array.back?_eq_getElem?, ← this, hi] at h1
    rcases h1 with h1 | h1 <;> simp at h1 <;> contradiction

theorem lt_of_getElem?_eq_some {α} {a : Array α} {i : Nat} {x : α} (h : a[i]? = some x) : i < a.size := by
  by_cases hlt : i < a.size
  · exact hlt
  · rw [Array.getElem?_eq_none (by omega)] at h; cases h

theorem getElem?_of_lt' {α} {a : Array α} {i : Nat} (h : i < a.size) : ∃ x, a[i]? = some x :=
  ⟨a[i], Array.getElem?_eq_getElem h⟩

/-- No `BackRef { icase: true }` instruction. -/
def noIcaseBackref (prog : Prog) : Bool :=
  prog.insns.all (fun i => match i with | .backRef _ true => false | _ => true)

theorem noIcaseBackref_spec {prog : Prog} (h : noIcaseBackref prog = true) (ip g : Nat) :
    prog.insns[ip]? ≠ some (.backRef g true) := by
  intro hi
  have hlt := lt_of_getElem?_eq_some hi
  simp only [noIcaseBackref, Array.all_eq_true] at h
  have := h ip hlt
  rw [Array.getElem?_eq_getElem hlt] at hi
  have heq : prog.insns[ip] = .backRef g true := by simpa using hi
  rw [heq] at this
  simp at this

/-! ## Kind-independent facts about the byte-level primitives -/

theorem nextByte_ok (inp : Input) (fwd : Bool) {pos : Nat} (hp : pos ≤ inp.len) :
    ∃ r, Cursor.nextByte inp fwd pos = .ok r ∧ ∀ b p, r = some (b, p) →
      Moved fwd pos p ∧ p ≤ inp.len ∧
      (fwd = true → p = pos + 1 ∧ inp.bytes[pos]? = some b) ∧
      (fwd = false → p + 1 = pos ∧ inp.bytes[p]? = some b) := by
  unfold Input.len at hp ⊢
  cases fwd with
  | true =>
    simp only [Cursor.nextByte, if_true, Input.peekByteRight, Utf8.peekByteRight]
    have : ¬ pos > inp.bytes.size := by omega
    simp only [this, if_false]
    by_cases he : pos = inp.bytes.size
    · simp only [he, beq_self_eq_true, if_true]
      exact ⟨none, rfl, fun b p h => by cases h⟩
    · have hne : (pos == inp.bytes.size) = false := by simpa using he
      have hlt : pos < inp.bytes.size := by omega
      simp only [hne, Bool.false_eq_true, if_false, Array.getElem?_eq_getElem hlt]
      refine ⟨_, rfl, ?_⟩
      intro b p h
      simp only [Option.some.injEq, Prod.mk.injEq] at h
      obtain ⟨rfl, rfl⟩ := h
      exact ⟨Moved.fwd (by omega), by omega, fun _ => ⟨rfl, rfl⟩, fun f => Bool.noConfusion f⟩
  | false =>
    simp only [Cursor.nextByte, Bool.false_eq_true, if_false, Input.peekByteLeft, Utf8.peekByteLeft]
    have : ¬ pos > inp.bytes.size := by omega
    simp only [this, if_false]
    by_cases he : pos = 0
    · simp only [he, beq_self_eq_true, if_true]
      exact ⟨none, rfl, fun b p h => by cases h⟩
    · have hne : (pos == 0) = false := by simpa using he
      have hlt : pos - 1 < inp.bytes.size := by omega
      simp only [hne, Bool.false_eq_true, if_false, Array.getElem?_eq_getElem hlt]
      refine ⟨_, rfl, ?_⟩
      intro b p h
      simp only [Option.some.injEq, Prod.mk.injEq] at h
      obtain ⟨rfl, rfl⟩ := h
      exact ⟨Moved.bwd (by omega), by omega, fun f => absurd f (by simp),
        fun _ => ⟨by omega, (Array.getElem?_eq_getElem hlt)⟩⟩

theorem matchBytes_range {bytes : Array Nat} {fwd : Bool} {pos p : Nat} {lit : List Nat}
    (hp : pos ≤ bytes.size) (h : Utf8.matchBytes bytes fwd pos lit = some p) :
    p ≤ bytes.size ∧ (fwd = true → p = pos + lit.length) ∧ (fwd = false → p + lit.length = pos) := by
  unfold Utf8.matchBytes at h
  cases fwd with
  | true =>
    simp only [if_true, Utf8.tryMoveRight] at h
    split at h
    · cases h
    · rename_i e he
      split at he
      · cases he
      · cases he
        split at h
        · cases h; exact ⟨by omega, fun _ => rfl, fun f => Bool.noConfusion f⟩
        · cases h
  | false =>
    simp only [Bool.false_eq_true, if_false, Utf8.tryMoveLeft] at h
    split at h
    · cases h
    · rename_i e he
      split at he
      · cases he
      · cases he
        split at h
        · cases h; exact ⟨by omega, fun f => Bool.noConfusion f, fun _ => by omega⟩
        · cases h

theorem matchBytes_moved {bytes : Array Nat} {fwd : Bool} {pos p : Nat} {lit : List Nat}
    (hp : pos ≤ bytes.size) (h : Utf8.matchBytes bytes fwd pos lit = some p) :
    MovedLe fwd pos p ∧ (0 < lit.length → Moved fwd pos p) := by
  obtain ⟨_, h1, h2⟩ := matchBytes_range hp h
  exact ⟨⟨fun f => by have := h1 f; omega, fun f => by have := h2 f; omega⟩,
    fun hl => ⟨fun f => by have := h1 f; omega, fun f => by have := h2 f; omega⟩⟩

/-- The loop of `backref_icase`, for any pair of position predicates closed under `cursor::next`. -/
theorem backrefIcaseLoop_ok {inp ref : Input} {fwd : Bool} (Gr Gi : Nat → Prop)
    (hr : ∀ p, Gr p → ∃ r, Cursor.next ref fwd p = .ok r ∧
      ∀ c p', r = some (c, p') → Gr p' ∧ Moved fwd p p' ∧ p' ≤ ref.len)
    (hi : ∀ p, Gi p → ∃ r, Cursor.next inp fwd p = .ok r ∧
      ∀ c p', r = some (c, p') → Gi p' ∧ Moved fwd p p') :
    ∀ fuel refPos pos, Gr refPos → Gi pos → (fwd = true → ref.len - refPos < fuel) →
      (fwd = false → refPos < fuel) →
      ∃ r, backrefIcaseLoop inp ref fwd fuel refPos pos = .ok r ∧
        ∀ p, r = some p → Gi p ∧ MovedLe fwd pos p := by
  intro fuel
  induction fuel with
  | zero =>
    intro refPos pos _ _ h1 h2
    cases fwd with
    | true => have := h1 rfl; omega
    | false => have := h2 rfl; omega
  | succ fuel ih =>
    intro refPos pos hgr hgi h1 h2
    unfold backrefIcaseLoop
    obtain ⟨r1, hr1, hp1⟩ := hr refPos hgr
    rw [hr1]
    cases r1 with
    | none => exact ⟨some pos, rfl, fun p h => by cases h; exact ⟨hgi, MovedLe.refl _ _⟩⟩
    | some cp1 =>
      obtain ⟨c1, refPos'⟩ := cp1
      obtain ⟨hgr', hm1, hle1⟩ := hp1 c1 refPos' rfl
      obtain ⟨r2, hr2, hp2⟩ := hi pos hgi
      simp only [hr2]
      cases r2 with
      | none => exact ⟨none, rfl, fun p h => by cases h⟩
      | some cp2 =>
        obtain ⟨c2, pos'⟩ := cp2
        obtain ⟨hgi', hm2⟩ := hp2 c2 pos' rfl
        simp only
        split
        · obtain ⟨r, hr', hp'⟩ := ih refPos' pos' hgr' hgi'
            (fun f => by have := h1 f; have := hm1.1 f; omega)
            (fun f => by have := h2 f; have := hm1.2 f; omega)
          exact ⟨r, hr', fun p h => ⟨(hp' p h).1, hm2.le.trans (hp' p h).2⟩⟩
        · exact ⟨none, rfl, fun p h => by cases h⟩

/-! ## The ASCII instance -/

/-- `cursor::next` on ASCII input is total on `[0, len]`. -/
theorem next_ascii {inp : Input} (hk : inp.kind = .ascii) (fwd : Bool) {pos : Nat} (hp : pos ≤ inp.len) :
    ∃ r, Cursor.next inp fwd pos = .ok r ∧ ∀ c p, r = some (c, p) → p ≤ inp.len ∧ Moved fwd pos p := by
  unfold Input.len at hp ⊢
  cases fwd with
  | true =>
    simp only [Cursor.next, if_true, Input.nextRight, hk]
    by_cases he : pos = inp.bytes.size
    · simp only [he, beq_self_eq_true, if_true]
      exact ⟨none, rfl, fun c p h => by cases h⟩
    · have hlt : pos < inp.bytes.size := by omega
      have hne : (pos == inp.bytes.size) = false := by simpa using he
      simp only [hne, Bool.false_eq_true, if_false, Array.getElem?_eq_getElem hlt]
      refine ⟨_, rfl, ?_⟩
      intro c p h
      simp only [Option.some.injEq, Prod.mk.injEq] at h
      obtain ⟨rfl, rfl⟩ := h
      exact ⟨by omega, Moved.fwd (by omega)⟩
  | false =>
    simp only [Cursor.next, Bool.false_eq_true, if_false, Input.nextLeft, hk]
    by_cases he : pos = 0
    · simp only [he, beq_self_eq_true, if_true]
      exact ⟨none, rfl, fun c p h => by cases h⟩
    · have hlt : pos - 1 < inp.bytes.size := by omega
      have hne : (pos == 0) = false := by simpa using he
      simp only [hne, Bool.false_eq_true, if_false, Array.getElem?_eq_getElem hlt]
      refine ⟨_, rfl, ?_⟩
      intro c p h
      simp only [Option.some.injEq, Prod.mk.injEq] at h
      obtain ⟨rfl, rfl⟩ := h
      exact ⟨by omega, Moved.bwd (by omega)⟩

theorem backrefIcase_ascii {inp : Input} (hk : inp.kind = .ascii) (fwd : Bool) {rs re pos : Nat}
    (h1 : rs ≤ re) (h2 : re ≤ inp.len) (hp : pos ≤ inp.len) :
    ∃ r, backrefIcase inp fwd rs re pos = .ok r ∧ ∀ p, r = some p → p ≤ inp.len ∧ MovedLe fwd pos p := by
  unfold backrefIcase
  have hc : ¬ (decide (rs > re) || decide (re > inp.bytes.size)) = true := by
    unfold Input.len at h2; simp; omega
  simp only [hc, if_false]
  apply backrefIcaseLoop_ok (fun p => p ≤ (inp.bytes.extract rs re).size) (fun p => p ≤ inp.len)
  · intro p hp
    obtain ⟨r, hr, hq⟩ := next_ascii (inp := ⟨inp.kind, inp.bytes.extract rs re, inp.unicode⟩)
      hk fwd (pos := p) hp
    exact ⟨r, hr, fun c p' h => ⟨(hq c p' h).1, (hq c p' h).2, (hq c p' h).1⟩⟩
  · intro p hp; exact next_ascii hk fwd hp
  · cases fwd <;> simp
  · exact hp
  · intro f; subst f; simp [Input.len]
  · intro f; subst f; simp

/-- Admissibility for ASCII input: any instruction, any position up to the end. -/
def AsciiA (prog : Prog) (inp : Input) (_fwd : Bool) (ip pos : Nat) : Prop :=
  ip < prog.insns.size ∧ pos ≤ inp.len

theorem ctrlSuccs_lt {prog : Prog} (hw : wfProg prog = true) {ip : Nat} {insn : Insn}
    (hi : prog.insns[ip]? = some insn) : ∀ t ∈ ctrlSuccs prog ip insn, t < prog.insns.size := by
  intro t ht
  have hwi := wf_insn hw hi
  have hsucc : insn ≠ .goal → insn ≠ .justFail → ip + 1 < prog.insns.size := wf_succ hw hi
  cases insn <;> simp only [ctrlSuccs, List.mem_cons, List.not_mem_nil, or_false] at ht
  case startOfLine => subst ht; exact hsucc (by simp) (by simp)
  case endOfLine => subst ht; exact hsucc (by simp) (by simp)
  case wordBoundary => subst ht; exact hsucc (by simp) (by simp)
  case wordBoundaryUnicodeICase => subst ht; exact hsucc (by simp) (by simp)
  case beginCaptureGroup => subst ht; exact hsucc (by simp) (by simp)
  case endCaptureGroup => subst ht; exact hsucc (by simp) (by simp)
  case resetCaptureGroup => subst ht; exact hsucc (by simp) (by simp)
  case backRef => subst ht; exact hsucc (by simp) (by simp)
  case jump => subst ht; simpa [wfInsn] using hwi
  case alt =>
    rcases ht with rfl | rfl
    · exact hsucc (by simp) (by simp)
    · simpa [wfInsn] using hwi
  case enterLoop =>
    rcases ht with rfl | rfl
    · exact hsucc (by simp) (by simp)
    · simp only [wfInsn, Bool.and_eq_true, decide_eq_true_eq] at hwi; exact hwi.1.2
  case loopAgain b =>
    cases hb : prog.insns[b]? with
    | none => rw [hb] at ht; simp at ht
    | some bi =>
      rw [hb] at ht
      cases bi <;> simp only [List.mem_cons, List.not_mem_nil, or_false] at ht
      case enterLoop =>
        have hwb := wf_insn hw hb
        rcases ht with rfl | rfl
        · exact wf_succ hw hb (by simp) (by simp)
        · simp only [wfInsn, Bool.and_eq_true, decide_eq_true_eq] at hwb; exact hwb.1.2
  case lookahead =>
    subst ht
    simp only [wfInsn, wfLook, Bool.and_eq_true, decide_eq_true_eq] at hwi; exact hwi.1.1.2
  case lookbehind =>
    subst ht
    simp only [wfInsn, wfLook, Bool.and_eq_true, decide_eq_true_eq] at hwi; exact hwi.1.1.2
  case loop1 =>
    subst ht
    simp only [wfInsn, Bool.and_eq_true, decide_eq_true_eq] at hwi; exact hwi.1.2

theorem specAscii {prog : Prog} {inp : Input} (hw : wfProg prog = true) (hk : inp.kind = .ascii) :
    Spec prog inp (AsciiA prog inp) (fun p => p ≤ inp.len) where
  ip_lt h := h.1
  v_le h := h
  adm_v h _ _ := h.2
  ctrl h hi t ht := ⟨ctrlSuccs_lt hw hi t ht, h.2⟩
  elem := by
    intro fwd ip pos insn h hi he
    obtain ⟨r, hr, hp⟩ := next_ascii hk fwd h.2
    refine ⟨r, hr, fun c p hcp => ⟨⟨wf_succ hw hi ?_ ?_, (hp c p hcp).1⟩, (hp c p hcp).2⟩⟩ <;>
      (intro hh; subst hh; simp [isElem] at he)
  byte := by
    intro fwd ip pos bs h hi
    obtain ⟨r, hr, hp⟩ := nextByte_ok inp fwd h.2
    refine ⟨r, hr, fun b p hbp _ => ⟨⟨?_, (hp b p hbp).2.1⟩, (hp b p hbp).1⟩⟩
    rcases hi with hi | hi <;> exact wf_succ hw hi (by simp) (by simp)
  seq := by
    intro fwd ip pos bs p h hi hm
    have hwi := wf_insn hw hi
    simp only [wfInsn, Bool.and_eq_true, decide_eq_true_eq] at hwi
    have := matchBytes_range (bytes := inp.bytes) h.2 hm
    exact ⟨⟨wf_succ hw hi (by simp) (by simp), this.1⟩, (matchBytes_moved (bytes := inp.bytes) h.2 hm).2 (by omega)⟩
  peek := by
    intro p hp
    obtain ⟨r1, h1, _⟩ := next_ascii hk false hp
    obtain ⟨r2, h2, _⟩ := next_ascii hk true hp
    simp only [Cursor.next, Bool.false_eq_true, if_false, if_true] at h1 h2
    constructor
    · unfold Input.peekLeft; rw [h1]; cases r1 with
      | none => exact ⟨_, rfl⟩
      | some cp => exact ⟨_, rfl⟩
    · unfold Input.peekRight; rw [h2]; cases r2 with
      | none => exact ⟨_, rfl⟩
      | some cp => exact ⟨_, rfl⟩
  backref := by
    intro fwd ip pos g ic rs re p h hi _ _ hm
    unfold backref Input.subrangeEq at hm
    split at hm
    · cases hm
    · have := matchBytes_range (bytes := inp.bytes) h.2 hm
      exact ⟨⟨wf_succ hw hi (by simp) (by simp), this.1⟩, (matchBytes_moved (bytes := inp.bytes) h.2 hm).1⟩
  backrefI := by
    intro fwd ip pos g ic rs re h hi _ hre hle
    obtain ⟨r, hr, hp⟩ := backrefIcase_ascii hk fwd hle hre h.2
    exact ⟨r, hr, fun p hp' => ⟨⟨wf_succ hw hi (by simp) (by simp), (hp p hp').1⟩, (hp p hp').2⟩⟩
  look := by
    intro fwd ip pos neg sg eg k h
    exact ⟨fun hi => ⟨wf_succ hw hi (by simp) (by simp), h.2⟩,
      fun hi => ⟨wf_succ hw hi (by simp) (by simp), h.2⟩⟩
  loop1 := by
    intro fwd ip pos mn mx g h hi p
    have hwi := wf_insn hw hi
    simp only [wfInsn, Bool.and_eq_true, decide_eq_true_eq] at hwi
    have := hwi.1.2
    exact ⟨⟨fun h => h.2, fun h => ⟨by omega, h⟩⟩, fun hv => ⟨⟨by omega, hv⟩, ⟨by omega, hv⟩⟩⟩
  stepL := by
    intro mn mx _ hmx hlt
    refine ⟨mx - 1, ?_, by omega, by omega, by omega⟩
    simp only [Input.nextLeftPos, hk, Input.tryMoveLeft, Utf8.tryMoveLeft]
    have : ¬ mx < 1 := by omega
    simp [this]
  stepR := by
    intro mn mx _ hmx hlt
    refine ⟨mn + 1, ?_, by omega, by omega, by omega⟩
    simp only [Input.nextRightPos, hk, Input.tryMoveRight, Utf8.tryMoveRight]
    have : ¬ inp.bytes.size - mn < 1 := by unfold Input.len at hmx; omega
    simp [this]

end Regress.VM.Safety
