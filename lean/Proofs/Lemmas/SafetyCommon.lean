import RegressModel.VM.Pike
import RegressModel.VM.WfProg
import Proofs.Lemmas.Utf8
/-!
# Memory safety of the two interpreters: the position discipline shared by both proofs

`Spec prog inp A V` is the interface between the interpreter proofs (`SafetyBt`, `SafetyPk`) and the
input kinds: `A fwd ip pos` = "position `pos` is admissible when instruction `ip` is about to be
executed in direction `fwd`", `V p` = "`p` is a position that may be stored in a capture group / a
`Loop1Char` backtrack record" (`p ≤ len`; for UTF-8 input moreover a char boundary).
The instances:

* `specAscii`  (ASCII input, from `wfProg`),
* `specUtf8`   (UTF-8 input, from `wfProg` and a *phase certificate* for the `byteSeq` chunks).
-/
namespace Regress.VM.Safety
open Regress.VM

/-- `q` lies strictly after `p` in direction `fwd`. -/
def Moved (fwd : Bool) (p q : Nat) : Prop := (fwd = true → p < q) ∧ (fwd = false → q < p)
/-- `q` lies weakly after `p` in direction `fwd`. -/
def MovedLe (fwd : Bool) (p q : Nat) : Prop := (fwd = true → p ≤ q) ∧ (fwd = false → q ≤ p)

theorem Moved.le {fwd : Bool} {p q : Nat} (h : Moved fwd p q) : MovedLe fwd p q :=
  ⟨fun f => Nat.le_of_lt (h.1 f), fun f => Nat.le_of_lt (h.2 f)⟩
theorem MovedLe.refl (fwd : Bool) (p : Nat) : MovedLe fwd p p := ⟨fun _ => Nat.le_refl _, fun _ => Nat.le_refl _⟩
theorem MovedLe.trans {fwd : Bool} {p q r : Nat} (h1 : MovedLe fwd p q) (h2 : MovedLe fwd q r) :
    MovedLe fwd p r :=
  ⟨fun f => Nat.le_trans (h1.1 f) (h2.1 f), fun f => Nat.le_trans (h2.2 f) (h1.2 f)⟩

theorem MovedLe.fwd {p q : Nat} (h : p ≤ q) : MovedLe true p q := ⟨fun _ => h, fun f => Bool.noConfusion f⟩
theorem MovedLe.bwd {p q : Nat} (h : q ≤ p) : MovedLe false p q := ⟨fun f => Bool.noConfusion f, fun _ => h⟩
theorem Moved.fwd {p q : Nat} (h : p < q) : Moved true p q := ⟨fun _ => h, fun f => Bool.noConfusion f⟩
theorem Moved.bwd {p q : Nat} (h : q < p) : Moved false p q := ⟨fun f => Bool.noConfusion f, fun _ => h⟩

/-- The instructions that consume one element with `cursor::next`. -/
def isElem : Insn → Bool
  | .char _ | .charSet _ | .bracket _ | .matchAny | .matchAnyExceptLineTerminator => true
  | _ => false

/-- The control successors of an instruction that are entered at the *same* position and in the same
direction. -/
def ctrlSuccs (prog : Prog) (ip : Nat) : Insn → List Nat
  | .startOfLine _ | .endOfLine _ | .wordBoundary _ | .wordBoundaryUnicodeICase _ => [ip + 1]
  | .beginCaptureGroup _ | .endCaptureGroup _ | .resetCaptureGroup _ | .backRef _ _ => [ip + 1]
  | .jump t => [t]
  | .alt s => [ip + 1, s]
  | .enterLoop _ _ _ _ exit => [ip + 1, exit]
  | .loopAgain b =>
    match prog.insns[b]? with
    | some (.enterLoop _ _ _ _ exit) => [b + 1, exit]
    | _ => []
  | .lookahead _ _ _ k | .lookbehind _ _ _ k => [k]
  | .loop1 _ _ _ => [ip + 2]
  | _ => []

/-- The position discipline of a program on an input. -/
structure Spec (prog : Prog) (inp : Input) (A : Bool → Nat → Nat → Prop) (V : Nat → Prop) : Prop where
  ip_lt : ∀ {fwd ip pos}, A fwd ip pos → ip < prog.insns.size
  v_le : ∀ {p}, V p → p ≤ inp.len
  adm_v : ∀ {fwd ip pos insn}, A fwd ip pos → prog.insns[ip]? = some insn →
    (∀ bs, insn ≠ .byteSeq bs) → V pos
  ctrl : ∀ {fwd ip pos insn}, A fwd ip pos → prog.insns[ip]? = some insn →
    ∀ t ∈ ctrlSuccs prog ip insn, A fwd t pos
  elem : ∀ {fwd ip pos insn}, A fwd ip pos → prog.insns[ip]? = some insn → isElem insn = true →
    ∃ r, Cursor.next inp fwd pos = .ok r ∧ ∀ c p, r = some (c, p) → A fwd (ip + 1) p ∧ Moved fwd pos p
  byte : ∀ {fwd ip pos bs}, A fwd ip pos →
    (prog.insns[ip]? = some (.byteSet bs) ∨ prog.insns[ip]? = some (.asciiBracket bs)) →
    ∃ r, Cursor.nextByte inp fwd pos = .ok r ∧
      ∀ b p, r = some (b, p) → b ∈ bs → A fwd (ip + 1) p ∧ Moved fwd pos p
  seq : ∀ {fwd ip pos bs p}, A fwd ip pos → prog.insns[ip]? = some (.byteSeq bs) →
    inp.matchBytes fwd pos bs = some p → A fwd (ip + 1) p ∧ Moved fwd pos p
  peek : ∀ {p}, V p → (∃ r, inp.peekLeft p = .ok r) ∧ (∃ r, inp.peekRight p = .ok r)
  backref : ∀ {fwd ip pos g ic rs re p}, A fwd ip pos → prog.insns[ip]? = some (.backRef g ic) →
    V rs → V re → backref inp fwd rs re pos = some p → A fwd (ip + 1) p ∧ MovedLe fwd pos p
  backrefI : ∀ {fwd ip pos g ic rs re}, A fwd ip pos → prog.insns[ip]? = some (.backRef g ic) →
    V rs → V re → rs ≤ re →
    ∃ r, backrefIcase inp fwd rs re pos = .ok r ∧ ∀ p, r = some p → A fwd (ip + 1) p ∧ MovedLe fwd pos p
  look : ∀ {fwd ip pos neg sg eg k}, A fwd ip pos →
    (prog.insns[ip]? = some (.lookahead neg sg eg k) → A true (ip + 1) pos) ∧
    (prog.insns[ip]? = some (.lookbehind neg sg eg k) → A false (ip + 1) pos)
  loop1 : ∀ {fwd ip pos mn mx g}, A fwd ip pos → prog.insns[ip]? = some (.loop1 mn mx g) →
    ∀ p, (A fwd (ip + 2) p ↔ V p) ∧ (V p → A fwd (ip + 1) p ∧ A fwd ip p)
  stepL : ∀ {mn mx}, V mn → V mx → mn < mx →
    ∃ p, inp.nextLeftPos mx = .ok (some p) ∧ mn ≤ p ∧ p < mx ∧ V p
  stepR : ∀ {mn mx}, V mn → V mx → mn < mx →
    ∃ p, inp.nextRightPos mn = .ok (some p) ∧ mn < p ∧ p ≤ mx ∧ V p

/-! ## Consequences of `wfProg` -/

theorem wf_insn {p : Prog} (h : wfProg p = true) {ip : Nat} {insn : Insn}
    (hi : p.insns[ip]? = some insn) : wfInsn p ip insn = true := by
  simp only [wfProg, Bool.and_eq_true, List.all_eq_true, List.mem_range] at h
  obtain ⟨⟨_, h5⟩, _⟩ := h
  have hlt : ip < p.insns.size := by
    by_cases hlt : ip < p.insns.size
    · exact hlt
    · rw [Array.getElem?_eq_none (by omega)] at hi; cases hi
  have := h5 ip hlt
  rw [hi] at this
  exact this

theorem wf_succ {p : Prog} (h : wfProg p = true) {ip : Nat} {insn : Insn}
    (hi : p.insns[ip]? = some insn) (hg : insn ≠ .goal) (hf : insn ≠ .justFail) :
    ip + 1 < p.insns.size := by
  simp only [wfProg, Bool.and_eq_true, Bool.or_eq_true, beq_iff_eq] at h
  obtain ⟨⟨⟨⟨⟨⟨h1, _⟩, _⟩, _⟩, _⟩, _⟩, _⟩ := h
  have hlt : ip < p.insns.size := by
    by_cases hlt : ip < p.insns.size
    · exact hlt
    · rw [Array.getElem?_eq_none (by omega)] at hi; cases hi
  by_cases hl : ip + 1 < p.insns.size
  · exact hl
  · exfalso
    have : ip = p.insns.size - 1 := by omega
    rw [Array.back?_eq_getElem?, ← this, hi] at h1
    rcases h1 with h1 | h1 <;> simp at h1 <;> contradiction

/-- The numeric clauses of `wfLook` (robust against further clauses being appended). -/
theorem wfLook_spec {p : Prog} {ip sg eg k : Nat} (h : wfLook p ip sg eg k = true) :
    sg ≤ eg ∧ eg ≤ p.groups ∧ k < p.insns.size ∧ ip + 1 < k := by
  simp only [wfLook, Bool.and_eq_true, decide_eq_true_eq] at h
  refine ⟨?_, ?_, ?_, ?_⟩ <;> omega

theorem lt_of_getElem?_eq_some {α} {a : Array α} {i : Nat} {x : α} (h : a[i]? = some x) : i < a.size := by
  by_cases hlt : i < a.size
  · exact hlt
  · rw [Array.getElem?_eq_none (by omega)] at h; cases h

theorem getElem?_of_lt' {α} {a : Array α} {i : Nat} (h : i < a.size) : ∃ x, a[i]? = some x :=
  ⟨a[i], Array.getElem?_eq_getElem h⟩

/-- No `BackRef { icase: true }` instruction. -/
def noIcaseBackref (prog : Prog) : Bool :=
  prog.insns.all (fun i => match i with | .backRef _ true => false | _ => true)

theorem noIcaseBackref_spec {prog : Prog} (h : noIcaseBackref prog = true) (ip g : Nat) :
    prog.insns[ip]? ≠ some (.backRef g true) := by
  intro hi
  have hlt := lt_of_getElem?_eq_some hi
  simp only [noIcaseBackref, Array.all_eq_true] at h
  have := h ip hlt
  rw [Array.getElem?_eq_getElem hlt] at hi
  have heq : prog.insns[ip] = .backRef g true := by simpa using hi
  rw [heq] at this
  simp at this

/-- Every instruction at which the same run can continue after instruction `ip`. -/
def allSuccs (prog : Prog) (ip : Nat) : Insn → List Nat
  | .goal | .justFail => []
  | .jump t => [t]
  | .alt s => [ip + 1, s]
  | .enterLoop _ _ _ _ exit => [ip + 1, exit]
  | .loopAgain b =>
    match prog.insns[b]? with
    | some (.enterLoop _ _ _ _ exit) => [b + 1, exit]
    | _ => []
  | .lookahead _ _ _ k | .lookbehind _ _ _ k => [k]
  | .loop1 _ _ _ => [ip + 2]
  | _ => [ip + 1]

/-- The capture group written by an instruction. -/
def groupOf : Insn → Option Nat
  | .beginCaptureGroup g | .endCaptureGroup g | .resetCaptureGroup g => some g
  | _ => none


/-! ## Ordering of capture ranges (`start ≤ end`): the certificate

`backref_icase` slices the haystack with the unchecked range `start..end` of a group. That
`start ≤ end` holds whenever both are set is a consequence of the emitter's discipline (a group is
reset at the start of every iteration of an enclosing loop), which the structural check `wfProg`
does not capture. It is captured by a data-flow certificate: for every reachable instruction and
every group one of the facts

* `1` (*clean*): the group is `(None, None)`;
* `2` (*open*): `begin` has been executed in the current run, `end` not yet — forwards:
  `end = None` and `start ≤ pos`; backwards: `start = None` and `pos ≤ end`;
* `0` (*unknown*): `start ≤ end` if both are set.

`checkOrd` checks the certificate locally: `begin g` needs *clean*, `end g` needs *open*, and the fact
at every successor follows from the fact after the instruction. -/

open Regress.VM.Bt (GroupData)

abbrev OrdCert := Array (Option (Array Nat))

def Ordered (gd : GroupData) : Prop := ∀ s e, gd.start = some s → gd.end_ = some e → s ≤ e

/-- The meaning of a fact `k` about one group at position `pos` of a run in direction `fwd`. -/
def Sem (fwd : Bool) (pos k : Nat) (gd : GroupData) : Prop :=
  if k = 1 then gd.start = none ∧ gd.end_ = none
  else if k = 2 then
    (if fwd = true then gd.end_ = none ∧ ∀ s, gd.start = some s → s ≤ pos
     else gd.start = none ∧ ∀ e, gd.end_ = some e → pos ≤ e)
  else Ordered gd

def VecOK (fwd : Bool) (pos : Nat) (v : Array Nat) (gs : Array GroupData) : Prop :=
  ∀ (g : Nat) (gd : GroupData), gs[g]? = some gd → ∃ k, v[g]? = some k ∧ Sem fwd pos k gd

/-- The certificate holds at a configuration. -/
def OrdAt (c : OrdCert) (fwd : Bool) (ip pos : Nat) (gs : Array GroupData) : Prop :=
  ∃ v, c[ip]? = some (some v) ∧ VecOK fwd pos v gs

/-- `vt` claims at most what `w` claims. -/
def weaker (vt w : Array Nat) : Bool :=
  (List.range (max vt.size w.size)).all (fun g => vt[g]? == some 0 || vt[g]? == w[g]?)

/-- The facts after a capture group instruction. -/
def outVec (insn : Insn) (v : Array Nat) : Array Nat :=
  match insn with
  | .beginCaptureGroup g => v.setIfInBounds g 2
  | .endCaptureGroup g => v.setIfInBounds g 0
  | .resetCaptureGroup g => v.setIfInBounds g 1
  | _ => v

/-- Facts at the start of a look-around body (another direction: *open* facts are forgotten). -/
def lookBodyVec (v : Array Nat) : Array Nat := v.map (fun x => if x == 2 then 0 else x)

/-- Facts at the continuation of a look-around: the groups of a positive look-around are unknown. -/
def lookContVec (neg : Bool) (sg eg : Nat) (v : Array Nat) : Array Nat :=
  v.mapIdx (fun g x => if !neg && decide (sg ≤ g) && decide (g < eg) then 0 else x)

def ordEdges (prog : Prog) (ip : Nat) (insn : Insn) (v : Array Nat) : List (Nat × Array Nat) :=
  match insn with
  | .lookahead neg sg eg k => [(ip + 1, lookBodyVec v), (k, lookContVec neg sg eg v)]
  | .lookbehind neg sg eg k => [(ip + 1, lookBodyVec v), (k, lookContVec neg sg eg v)]
  | _ => (allSuccs prog ip insn).map (fun t => (t, outVec insn v))

def checkOrdInsn (prog : Prog) (c : OrdCert) (ip : Nat) (insn : Insn) : Bool :=
  match c[ip]? with
  | some (some v) =>
    (match insn with
     | .beginCaptureGroup g => v[g]? == some 1
     | .endCaptureGroup g => v[g]? == some 2
     | _ => true) &&
    (ordEdges prog ip insn v).all (fun tw =>
      match c[tw.1]? with
      | some (some vt) => weaker vt tw.2
      | _ => false)
  | some none => true
  | none => false

/-- **The ordering clause of `wfProg'`.** -/
def checkOrd (prog : Prog) (c : OrdCert) : Bool :=
  c[0]? == some (some (Array.replicate prog.groups 1)) &&
  (List.range prog.insns.size).all (fun ip =>
    match prog.insns[ip]? with
    | some insn => checkOrdInsn prog c ip insn
    | none => false)

/-! The canonical ordering certificate: a forward data-flow analysis (untrusted; `checkOrd`
validates the result). -/

/-- Meet of two fact vectors: keep a fact only where both agree. -/
def meetVec (a b : Array Nat) : Array Nat :=
  (a.zip b).map (fun xy => if xy.1 == xy.2 then xy.1 else 0)

def ordPropagate (c : OrdCert) (t : Nat) (w : Array Nat) : OrdCert :=
  match c[t]? with
  | some none => c.setIfInBounds t (some w)
  | some (some vt) => c.setIfInBounds t (some (meetVec vt w))
  | none => c

def ordStepIp (prog : Prog) (c : OrdCert) (ip : Nat) : OrdCert :=
  match prog.insns[ip]?, c[ip]? with
  | some insn, some (some v) =>
    (ordEdges prog ip insn v).foldl (fun c tw => ordPropagate c tw.1 tw.2) c
  | _, _ => c

def ordSweep (prog : Prog) (c : OrdCert) : OrdCert :=
  (List.range prog.insns.size).foldl (ordStepIp prog) c

def mkOrdLoop (prog : Prog) : Nat → OrdCert → OrdCert
  | 0, c => c
  | k + 1, c =>
    let c' := ordSweep prog c
    if c' == c then c else mkOrdLoop prog k c'

def mkOrd (prog : Prog) : OrdCert :=
  mkOrdLoop prog (2 * prog.insns.size + 2)
    ((Array.replicate prog.insns.size none).setIfInBounds 0 (some (Array.replicate prog.groups 1)))

theorem checkOrd_spec {prog : Prog} {c : OrdCert} (h : checkOrd prog c = true) {ip : Nat}
    {insn : Insn} {v : Array Nat} (hi : prog.insns[ip]? = some insn) (hv : c[ip]? = some (some v)) :
    (∀ g, insn = .beginCaptureGroup g → v[g]? = some 1) ∧
    (∀ g, insn = .endCaptureGroup g → v[g]? = some 2) ∧
    ∀ t w, (t, w) ∈ ordEdges prog ip insn v → ∃ vt, c[t]? = some (some vt) ∧ weaker vt w = true := by
  simp only [checkOrd, Bool.and_eq_true, List.all_eq_true, List.mem_range] at h
  have := h.2 ip (lt_of_getElem?_eq_some hi)
  rw [hi] at this
  simp only [checkOrdInsn, hv, Bool.and_eq_true, List.all_eq_true] at this
  obtain ⟨h1, h2⟩ := this
  refine ⟨?_, ?_, ?_⟩
  · intro g hg; subst hg; simpa using h1
  · intro g hg; subst hg; simpa using h1
  · intro t w htw
    have := h2 (t, w) htw
    simp only at this
    cases hc : c[t]? with
    | none => rw [hc] at this; cases this
    | some o =>
      cases o with
      | none => rw [hc] at this; cases this
      | some vt => rw [hc] at this; exact ⟨vt, rfl, this⟩

theorem sem_ordered {fwd : Bool} {pos k : Nat} {gd : GroupData} (h : Sem fwd pos k gd) : Ordered gd := by
  unfold Sem at h
  intro s e hs he
  split at h
  · rw [h.1] at hs; cases hs
  · split at h
    · split at h
      · rw [h.1] at he; cases he
      · rw [h.1] at hs; cases hs
    · exact h s e hs he

theorem sem_mono {fwd : Bool} {pos pos' k : Nat} {gd : GroupData} (h : Sem fwd pos k gd)
    (hm : MovedLe fwd pos pos') : Sem fwd pos' k gd := by
  unfold Sem at h ⊢
  split
  · rename_i hk; simpa [hk] using h
  · rename_i hk1
    simp only [hk1, if_false] at h
    split
    · rename_i hk2
      simp only [hk2, if_true] at h
      cases fwd with
      | true =>
        simp only [if_true] at h ⊢
        exact ⟨h.1, fun s hs => Nat.le_trans (h.2 s hs) (hm.1 rfl)⟩
      | false =>
        simp only [Bool.false_eq_true, if_false] at h ⊢
        exact ⟨h.1, fun e he => Nat.le_trans (hm.2 rfl) (h.2 e he)⟩
    · rename_i hk2; simpa [hk2] using h

theorem sem_zero {fwd : Bool} {pos : Nat} {gd : GroupData} (h : Ordered gd) : Sem fwd pos 0 gd := by
  simp [Sem]; exact h

theorem VecOK.mono {fwd : Bool} {pos pos' : Nat} {v : Array Nat} {gs : Array GroupData}
    (h : VecOK fwd pos v gs) (hm : MovedLe fwd pos pos') : VecOK fwd pos' v gs := by
  intro g gd hg
  obtain ⟨k, hk, hs⟩ := h g gd hg
  exact ⟨k, hk, sem_mono hs hm⟩

theorem VecOK.weaken {fwd : Bool} {pos : Nat} {vt w : Array Nat} {gs : Array GroupData}
    (h : VecOK fwd pos w gs) (hw : weaker vt w = true) : VecOK fwd pos vt gs := by
  intro g gd hg
  obtain ⟨k, hk, hs⟩ := h g gd hg
  simp only [weaker, List.all_eq_true, List.mem_range, Bool.or_eq_true, beq_iff_eq] at hw
  have hlt : g < max vt.size w.size := by
    have := lt_of_getElem?_eq_some hk; omega
  rcases hw g hlt with h0 | h1
  · exact ⟨0, h0, sem_zero (sem_ordered hs)⟩
  · exact ⟨k, by rw [h1, hk], hs⟩

theorem VecOK.ordered {fwd : Bool} {pos : Nat} {v : Array Nat} {gs : Array GroupData}
    (h : VecOK fwd pos v gs) : ∀ (g : Nat) (gd : GroupData), gs[g]? = some gd → Ordered gd := by
  intro g gd hg
  obtain ⟨k, _, hs⟩ := h g gd hg
  exact sem_ordered hs

theorem VecOK.setGroup {fwd : Bool} {pos : Nat} {v : Array Nat} {gs : Array GroupData}
    (h : VecOK fwd pos v gs) (g k : Nat) {gd' : GroupData} (hs : Sem fwd pos k gd') :
    VecOK fwd pos (v.setIfInBounds g k) (gs.setIfInBounds g gd') := by
  intro g' gd hg
  simp only [Array.getElem?_setIfInBounds] at hg ⊢
  by_cases hgg : g = g'
  · subst hgg
    simp only [if_true] at hg ⊢
    split at hg
    · rename_i hlt
      cases hg
      obtain ⟨k0, hk0, _⟩ := h g gs[g] (Array.getElem?_eq_getElem hlt)
      have := lt_of_getElem?_eq_some hk0
      exact ⟨k, by simp [this], hs⟩
    · cases hg
  · simp only [hgg, if_false] at hg ⊢
    exact h g' gd hg

theorem VecOK.lookBody {fwd d : Bool} {pos : Nat} {v : Array Nat} {gs : Array GroupData}
    (h : VecOK fwd pos v gs) : VecOK d pos (lookBodyVec v) gs := by
  intro g gd hg
  obtain ⟨k, hk, hs⟩ := h g gd hg
  refine ⟨if k == 2 then 0 else k, by simp [lookBodyVec, hk], ?_⟩
  by_cases h2 : k = 2
  · simp only [h2, beq_self_eq_true, if_true]; exact sem_zero (sem_ordered hs)
  · have : (k == 2) = false := by simpa using h2
    simp only [this, Bool.false_eq_true, if_false]
    unfold Sem at hs ⊢
    simp only [h2, if_false] at hs ⊢
    exact hs

theorem VecOK.lookContNeg {fwd : Bool} {pos : Nat} {v : Array Nat} {gs : Array GroupData} {sg eg : Nat}
    (h : VecOK fwd pos v gs) : VecOK fwd pos (lookContVec true sg eg v) gs := by
  intro g gd hg
  obtain ⟨k, hk, hs⟩ := h g gd hg
  exact ⟨k, by simp [lookContVec, hk], hs⟩

theorem VecOK.lookCont {fwd : Bool} {pos : Nat} {v : Array Nat} {gs gs' : Array GroupData}
    {sg eg : Nat} (h : VecOK fwd pos v gs) (hsz : gs'.size = gs.size)
    (hag : ∀ g : Nat, ¬ (sg ≤ g ∧ g < eg) → gs'[g]? = gs[g]?)
    (hord : ∀ (g : Nat) (gd : GroupData), gs'[g]? = some gd → Ordered gd) :
    VecOK fwd pos (lookContVec false sg eg v) gs' := by
  intro g gd hg
  have hlt : g < gs.size := by have := lt_of_getElem?_eq_some hg; omega
  obtain ⟨k, hk, hs⟩ := h g gs[g] (Array.getElem?_eq_getElem hlt)
  by_cases hin : sg ≤ g ∧ g < eg
  · exact ⟨0, by simp [lookContVec, hk, hin.1, hin.2], sem_zero (hord g gd hg)⟩
  · rw [hag g hin, Array.getElem?_eq_getElem hlt] at hg
    cases hg
    refine ⟨k, ?_, hs⟩
    have : (decide (sg ≤ g) && decide (g < eg)) = false := by
      simp only [Bool.and_eq_false_imp, decide_eq_true_eq, decide_eq_false_iff_not]; omega
    simp only [lookContVec, Array.getElem?_mapIdx, hk, Option.map_some, Bool.not_false, Bool.true_and,
      this, Bool.false_eq_true, if_false]

theorem sem_begin {fwd : Bool} {pos : Nat} {cg : GroupData} (h : Sem fwd pos 1 cg) :
    Sem fwd pos 2 (if fwd = true then { cg with start := some pos } else { cg with end_ := some pos }) := by
  simp only [Sem, if_true] at h
  cases fwd with
  | true => simp [Sem, h.2]
  | false => simp [Sem, h.1]

theorem sem_end {fwd : Bool} {pos : Nat} {cg : GroupData} (h : Sem fwd pos 2 cg) :
    Sem fwd pos 0 (if fwd = true then { cg with end_ := some pos } else { cg with start := some pos }) := by
  apply sem_zero
  cases fwd with
  | true =>
    simp [Sem] at h
    intro s e hs he
    simp only [if_true] at hs he
    cases he
    exact h.2 s hs
  | false =>
    simp [Sem] at h
    intro s e hs he
    simp only [Bool.false_eq_true, if_false] at hs he
    cases hs
    exact h.2 e he

theorem sem_reset (fwd : Bool) (pos : Nat) : Sem fwd pos 1 { start := none, end_ := none } := by
  simp [Sem]


/-! ## Kind-independent facts about the byte-level primitives -/

theorem nextByte_ok (inp : Input) (fwd : Bool) {pos : Nat} (hp : pos ≤ inp.len) :
    ∃ r, Cursor.nextByte inp fwd pos = .ok r ∧ ∀ b p, r = some (b, p) →
      Moved fwd pos p ∧ p ≤ inp.len ∧
      (fwd = true → p = pos + 1 ∧ inp.bytes[pos]? = some b) ∧
      (fwd = false → p + 1 = pos ∧ inp.bytes[p]? = some b) := by
  unfold Input.len at hp ⊢
  cases fwd with
  | true =>
    simp only [Cursor.nextByte, if_true, Input.peekByteRight, Utf8.peekByteRight]
    have : ¬ pos > inp.bytes.size := by omega
    simp only [this, if_false]
    by_cases he : pos = inp.bytes.size
    · simp only [he, beq_self_eq_true, if_true]
      exact ⟨none, rfl, fun b p h => by cases h⟩
    · have hne : (pos == inp.bytes.size) = false := by simpa using he
      have hlt : pos < inp.bytes.size := by omega
      simp only [hne, Bool.false_eq_true, if_false, Array.getElem?_eq_getElem hlt]
      refine ⟨_, rfl, ?_⟩
      intro b p h
      simp only [Option.some.injEq, Prod.mk.injEq] at h
      obtain ⟨rfl, rfl⟩ := h
      exact ⟨Moved.fwd (by omega), by omega, fun _ => ⟨rfl, rfl⟩, fun f => Bool.noConfusion f⟩
  | false =>
    simp only [Cursor.nextByte, Bool.false_eq_true, if_false, Input.peekByteLeft, Utf8.peekByteLeft]
    have : ¬ pos > inp.bytes.size := by omega
    simp only [this, if_false]
    by_cases he : pos = 0
    · simp only [he, beq_self_eq_true, if_true]
      exact ⟨none, rfl, fun b p h => by cases h⟩
    · have hne : (pos == 0) = false := by simpa using he
      have hlt : pos - 1 < inp.bytes.size := by omega
      simp only [hne, Bool.false_eq_true, if_false, Array.getElem?_eq_getElem hlt]
      refine ⟨_, rfl, ?_⟩
      intro b p h
      simp only [Option.some.injEq, Prod.mk.injEq] at h
      obtain ⟨rfl, rfl⟩ := h
      exact ⟨Moved.bwd (by omega), by omega, fun f => absurd f (by simp),
        fun _ => ⟨by omega, (Array.getElem?_eq_getElem hlt)⟩⟩

theorem matchBytes_range {bytes : Array Nat} {fwd : Bool} {pos p : Nat} {lit : List Nat}
    (hp : pos ≤ bytes.size) (h : Utf8.matchBytes bytes fwd pos lit = some p) :
    p ≤ bytes.size ∧ (fwd = true → p = pos + lit.length) ∧ (fwd = false → p + lit.length = pos) := by
  unfold Utf8.matchBytes at h
  cases fwd with
  | true =>
    simp only [if_true, Utf8.tryMoveRight] at h
    split at h
    · cases h
    · rename_i e he
      split at he
      · cases he
      · cases he
        split at h
        · cases h; exact ⟨by omega, fun _ => rfl, fun f => Bool.noConfusion f⟩
        · cases h
  | false =>
    simp only [Bool.false_eq_true, if_false, Utf8.tryMoveLeft] at h
    split at h
    · cases h
    · rename_i e he
      split at he
      · cases he
      · cases he
        split at h
        · cases h; exact ⟨by omega, fun f => Bool.noConfusion f, fun _ => by omega⟩
        · cases h

theorem matchBytes_moved {bytes : Array Nat} {fwd : Bool} {pos p : Nat} {lit : List Nat}
    (hp : pos ≤ bytes.size) (h : Utf8.matchBytes bytes fwd pos lit = some p) :
    MovedLe fwd pos p ∧ (0 < lit.length → Moved fwd pos p) := by
  obtain ⟨_, h1, h2⟩ := matchBytes_range hp h
  exact ⟨⟨fun f => by have := h1 f; omega, fun f => by have := h2 f; omega⟩,
    fun hl => ⟨fun f => by have := h1 f; omega, fun f => by have := h2 f; omega⟩⟩

/-- The loop of `backref_icase`, for any pair of position predicates closed under `cursor::next`. -/
theorem backrefIcaseLoop_ok {inp ref : Input} {fwd : Bool} (Gr Gi : Nat → Prop)
    (hr : ∀ p, Gr p → ∃ r, Cursor.next ref fwd p = .ok r ∧
      ∀ c p', r = some (c, p') → Gr p' ∧ Moved fwd p p' ∧ p' ≤ ref.len)
    (hi : ∀ p, Gi p → ∃ r, Cursor.next inp fwd p = .ok r ∧
      ∀ c p', r = some (c, p') → Gi p' ∧ Moved fwd p p') :
    ∀ fuel refPos pos, Gr refPos → Gi pos → (fwd = true → ref.len - refPos < fuel) →
      (fwd = false → refPos < fuel) →
      ∃ r, backrefIcaseLoop inp ref fwd fuel refPos pos = .ok r ∧
        ∀ p, r = some p → Gi p ∧ MovedLe fwd pos p := by
  intro fuel
  induction fuel with
  | zero =>
    intro refPos pos _ _ h1 h2
    cases fwd with
    | true => have := h1 rfl; omega
    | false => have := h2 rfl; omega
  | succ fuel ih =>
    intro refPos pos hgr hgi h1 h2
    unfold backrefIcaseLoop
    obtain ⟨r1, hr1, hp1⟩ := hr refPos hgr
    rw [hr1]
    cases r1 with
    | none => exact ⟨some pos, rfl, fun p h => by cases h; exact ⟨hgi, MovedLe.refl _ _⟩⟩
    | some cp1 =>
      obtain ⟨c1, refPos'⟩ := cp1
      obtain ⟨hgr', hm1, hle1⟩ := hp1 c1 refPos' rfl
      obtain ⟨r2, hr2, hp2⟩ := hi pos hgi
      simp only [hr2]
      cases r2 with
      | none => exact ⟨none, rfl, fun p h => by cases h⟩
      | some cp2 =>
        obtain ⟨c2, pos'⟩ := cp2
        obtain ⟨hgi', hm2⟩ := hp2 c2 pos' rfl
        simp only
        split
        · obtain ⟨r, hr', hp'⟩ := ih refPos' pos' hgr' hgi'
            (fun f => by have := h1 f; have := hm1.1 f; omega)
            (fun f => by have := h2 f; have := hm1.2 f; omega)
          exact ⟨r, hr', fun p h => ⟨(hp' p h).1, hm2.le.trans (hp' p h).2⟩⟩
        · exact ⟨none, rfl, fun p h => by cases h⟩

/-! ## Monotonicity of the primitives (no well-formedness needed)

Whenever a primitive returns a new position, it lies weakly after the old one in the direction of
the run. -/

theorem nextRight_moves {bytes : Array Nat} {p c p' : Nat}
    (h : Utf8.nextRight bytes p = .ok (some (c, p'))) : p ≤ p' := by
  unfold Utf8.nextRight at h
  split at h
  · cases h
  · split at h
    · cases h
    · rename_i b0 _
      split at h
      · simp at h; omega
      · simp only at h
        generalize (if (Utf8.seqLen b0 == 2) = true then _ else _ : Option Nat) = cp at h
        cases cp with
        | none => cases h
        | some cc =>
          simp only at h
          split at h
          · simp at h; omega
          · cases h

theorem ite_ok_some {α} {c : Prop} [Decidable c] {x y : α}
    (h : (if c then (Except.ok (some x) : Except Unit (Option α)) else Except.error ()) = Except.ok (some y)) :
    x = y := by
  split at h
  · simpa using h
  · cases h

theorem nextLeft_moves {bytes : Array Nat} {p c p' : Nat}
    (h : Utf8.nextLeft bytes p = .ok (some (c, p'))) : p' ≤ p := by
  unfold Utf8.nextLeft at h
  (repeat' split at h) <;> (try (have := ite_ok_some h; simp only [Prod.mk.injEq] at this)) <;>
    (try simp at h) <;> (try omega)

theorem next_moves {inp : Input} {fwd : Bool} {p c p' : Nat}
    (h : Cursor.next inp fwd p = .ok (some (c, p'))) : MovedLe fwd p p' := by
  unfold Cursor.next at h
  cases fwd with
  | true =>
    simp only [if_true, Input.nextRight] at h
    refine MovedLe.fwd ?_
    split at h
    · exact nextRight_moves h
    · (repeat' split at h) <;> (try simp at h) <;> (try omega)
  | false =>
    simp only [Bool.false_eq_true, if_false, Input.nextLeft] at h
    refine MovedLe.bwd ?_
    split at h
    · exact nextLeft_moves h
    · (repeat' split at h) <;> (try simp at h) <;> (try omega)

theorem nextByte_moves {inp : Input} {fwd : Bool} {p b p' : Nat}
    (h : Cursor.nextByte inp fwd p = .ok (some (b, p'))) : MovedLe fwd p p' := by
  unfold Cursor.nextByte at h
  cases fwd with
  | true =>
    simp only [if_true] at h
    refine MovedLe.fwd ?_
    (repeat' split at h) <;> (try simp at h) <;> (try omega)
  | false =>
    simp only [Bool.false_eq_true, if_false] at h
    refine MovedLe.bwd ?_
    (repeat' split at h) <;> (try simp at h) <;> (try omega)

theorem matchBytes_moves {bytes : Array Nat} {fwd : Bool} {pos p : Nat} {lit : List Nat}
    (h : Utf8.matchBytes bytes fwd pos lit = some p) : MovedLe fwd pos p := by
  unfold Utf8.matchBytes Utf8.tryMoveRight Utf8.tryMoveLeft at h
  cases fwd with
  | true =>
    simp only [if_true] at h
    refine MovedLe.fwd ?_
    (repeat' split at h) <;> (try simp at h) <;> (try simp_all) <;> (try omega)
  | false =>
    simp only [Bool.false_eq_true, if_false] at h
    refine MovedLe.bwd ?_
    (repeat' split at h) <;> (try simp at h) <;> (try simp_all) <;> (try omega)

theorem backref_moves {inp : Input} {fwd : Bool} {rs re pos p : Nat}
    (h : backref inp fwd rs re pos = some p) : MovedLe fwd pos p := by
  unfold backref Input.subrangeEq at h
  split at h
  · cases h
  · exact matchBytes_moves h

theorem backrefIcaseLoop_moves {inp ref : Input} {fwd : Bool} :
    ∀ fuel refPos pos p, backrefIcaseLoop inp ref fwd fuel refPos pos = .ok (some p) →
      MovedLe fwd pos p := by
  intro fuel
  induction fuel with
  | zero => intro refPos pos p h; simp [backrefIcaseLoop] at h
  | succ fuel ih =>
    intro refPos pos p h
    unfold backrefIcaseLoop at h
    split at h
    · cases h
    · simp only [Except.ok.injEq, Option.some.injEq] at h; subst h; exact MovedLe.refl _ _
    · split at h
      · cases h
      · cases h
      · rename_i hn
        split at h
        · exact (next_moves hn).trans (ih _ _ _ h)
        · cases h

theorem backrefIcase_moves {inp : Input} {fwd : Bool} {rs re pos p : Nat}
    (h : backrefIcase inp fwd rs re pos = .ok (some p)) : MovedLe fwd pos p := by
  unfold backrefIcase at h
  split at h
  · cases h
  · exact backrefIcaseLoop_moves _ _ _ _ h

theorem scm_moves {m : Scm} {inp : Input} {fwd : Bool} {pos p : Nat}
    (h : m.matches inp fwd pos = .ok (some p)) : MovedLe fwd pos p := by
  unfold Scm.matches at h
  cases m <;> simp only at h
  case byteSeq bs =>
    simp only [Except.ok.injEq, Cursor.tryMatchLit, Input.matchBytes] at h
    exact matchBytes_moves h
  all_goals
    split at h
    · cases h
    · cases h
    · rename_i hn
      first
        | (simp only [Except.ok.injEq, Option.some.injEq] at h; subst h; first | exact next_moves hn | exact nextByte_moves hn)
        | (split at h
           · simp only [Except.ok.injEq, Option.some.injEq] at h; subst h
             first | exact next_moves hn | exact nextByte_moves hn
           · cases h)

/-! ## The ASCII instance -/

/-- `cursor::next` on ASCII input is total on `[0, len]`. -/
theorem next_ascii {inp : Input} (hk : inp.kind = .ascii) (fwd : Bool) {pos : Nat} (hp : pos ≤ inp.len) :
    ∃ r, Cursor.next inp fwd pos = .ok r ∧ ∀ c p, r = some (c, p) → p ≤ inp.len ∧ Moved fwd pos p := by
  unfold Input.len at hp ⊢
  cases fwd with
  | true =>
    simp only [Cursor.next, if_true, Input.nextRight, hk]
    by_cases he : pos = inp.bytes.size
    · simp only [he, beq_self_eq_true, if_true]
      exact ⟨none, rfl, fun c p h => by cases h⟩
    · have hlt : pos < inp.bytes.size := by omega
      have hne : (pos == inp.bytes.size) = false := by simpa using he
      simp only [hne, Bool.false_eq_true, if_false, Array.getElem?_eq_getElem hlt]
      refine ⟨_, rfl, ?_⟩
      intro c p h
      simp only [Option.some.injEq, Prod.mk.injEq] at h
      obtain ⟨rfl, rfl⟩ := h
      exact ⟨by omega, Moved.fwd (by omega)⟩
  | false =>
    simp only [Cursor.next, Bool.false_eq_true, if_false, Input.nextLeft, hk]
    by_cases he : pos = 0
    · simp only [he, beq_self_eq_true, if_true]
      exact ⟨none, rfl, fun c p h => by cases h⟩
    · have hlt : pos - 1 < inp.bytes.size := by omega
      have hne : (pos == 0) = false := by simpa using he
      simp only [hne, Bool.false_eq_true, if_false, Array.getElem?_eq_getElem hlt]
      refine ⟨_, rfl, ?_⟩
      intro c p h
      simp only [Option.some.injEq, Prod.mk.injEq] at h
      obtain ⟨rfl, rfl⟩ := h
      exact ⟨by omega, Moved.bwd (by omega)⟩

theorem backrefIcase_ascii {inp : Input} (hk : inp.kind = .ascii) (fwd : Bool) {rs re pos : Nat}
    (h1 : rs ≤ re) (h2 : re ≤ inp.len) (hp : pos ≤ inp.len) :
    ∃ r, backrefIcase inp fwd rs re pos = .ok r ∧ ∀ p, r = some p → p ≤ inp.len ∧ MovedLe fwd pos p := by
  unfold backrefIcase
  have hc : ¬ (decide (rs > re) || decide (re > inp.bytes.size)) = true := by
    unfold Input.len at h2; simp; omega
  simp only [hc]
  apply backrefIcaseLoop_ok (fun p => p ≤ (inp.bytes.extract rs re).size) (fun p => p ≤ inp.len)
  · intro p hp
    obtain ⟨r, hr, hq⟩ := next_ascii (inp := ⟨inp.kind, inp.bytes.extract rs re, inp.unicode⟩)
      hk fwd (pos := p) hp
    exact ⟨r, hr, fun c p' h => ⟨(hq c p' h).1, (hq c p' h).2, (hq c p' h).1⟩⟩
  · intro p hp; exact next_ascii hk fwd hp
  · cases fwd <;> simp
  · exact hp
  · intro f; subst f; simp [Input.len]
  · intro f; subst f; simp

/-- Admissibility for ASCII input: any instruction, any position up to the end. -/
def AsciiA (prog : Prog) (inp : Input) (_fwd : Bool) (ip pos : Nat) : Prop :=
  ip < prog.insns.size ∧ pos ≤ inp.len

theorem ctrlSuccs_lt {prog : Prog} (hw : wfProg prog = true) {ip : Nat} {insn : Insn}
    (hi : prog.insns[ip]? = some insn) : ∀ t ∈ ctrlSuccs prog ip insn, t < prog.insns.size := by
  intro t ht
  have hwi := wf_insn hw hi
  have hsucc : insn ≠ .goal → insn ≠ .justFail → ip + 1 < prog.insns.size := wf_succ hw hi
  cases insn <;> simp only [ctrlSuccs, List.mem_cons, List.not_mem_nil, or_false] at ht
  case startOfLine => subst ht; exact hsucc (by simp) (by simp)
  case endOfLine => subst ht; exact hsucc (by simp) (by simp)
  case wordBoundary => subst ht; exact hsucc (by simp) (by simp)
  case wordBoundaryUnicodeICase => subst ht; exact hsucc (by simp) (by simp)
  case beginCaptureGroup => subst ht; exact hsucc (by simp) (by simp)
  case endCaptureGroup => subst ht; exact hsucc (by simp) (by simp)
  case resetCaptureGroup => subst ht; exact hsucc (by simp) (by simp)
  case backRef => subst ht; exact hsucc (by simp) (by simp)
  case jump => subst ht; simpa [wfInsn] using hwi
  case alt =>
    rcases ht with rfl | rfl
    · exact hsucc (by simp) (by simp)
    · simpa [wfInsn] using hwi
  case enterLoop =>
    rcases ht with rfl | rfl
    · exact hsucc (by simp) (by simp)
    · simp only [wfInsn, Bool.and_eq_true, decide_eq_true_eq] at hwi; exact hwi.1.2
  case loopAgain b =>
    cases hb : prog.insns[b]? with
    | none => rw [hb] at ht; simp at ht
    | some bi =>
      rw [hb] at ht
      cases bi <;> simp only [List.mem_cons, List.not_mem_nil, or_false] at ht
      case enterLoop =>
        have hwb := wf_insn hw hb
        rcases ht with rfl | rfl
        · exact wf_succ hw hb (by simp) (by simp)
        · simp only [wfInsn, Bool.and_eq_true, decide_eq_true_eq] at hwb; exact hwb.1.2
  case lookahead =>
    subst ht
    simp only [wfInsn] at hwi; exact (wfLook_spec hwi).2.2.1
  case lookbehind =>
    subst ht
    simp only [wfInsn] at hwi; exact (wfLook_spec hwi).2.2.1
  case loop1 =>
    subst ht
    simp only [wfInsn, Bool.and_eq_true, decide_eq_true_eq] at hwi; exact hwi.1.2

theorem specAscii {prog : Prog} {inp : Input} (hw : wfProg prog = true) (hk : inp.kind = .ascii) :
    Spec prog inp (AsciiA prog inp) (fun p => p ≤ inp.len) where
  ip_lt h := h.1
  v_le h := h
  adm_v h _ _ := h.2
  ctrl h hi t ht := ⟨ctrlSuccs_lt hw hi t ht, h.2⟩
  elem := by
    intro fwd ip pos insn h hi he
    obtain ⟨r, hr, hp⟩ := next_ascii hk fwd h.2
    refine ⟨r, hr, fun c p hcp => ⟨⟨wf_succ hw hi ?_ ?_, (hp c p hcp).1⟩, (hp c p hcp).2⟩⟩ <;>
      (intro hh; subst hh; simp [isElem] at he)
  byte := by
    intro fwd ip pos bs h hi
    obtain ⟨r, hr, hp⟩ := nextByte_ok inp fwd h.2
    refine ⟨r, hr, fun b p hbp _ => ⟨⟨?_, (hp b p hbp).2.1⟩, (hp b p hbp).1⟩⟩
    rcases hi with hi | hi <;> exact wf_succ hw hi (by simp) (by simp)
  seq := by
    intro fwd ip pos bs p h hi hm
    have hwi := wf_insn hw hi
    simp only [wfInsn, Bool.and_eq_true, decide_eq_true_eq] at hwi
    have := matchBytes_range (bytes := inp.bytes) h.2 hm
    exact ⟨⟨wf_succ hw hi (by simp) (by simp), this.1⟩, (matchBytes_moved (bytes := inp.bytes) h.2 hm).2 (by omega)⟩
  peek := by
    intro p hp
    obtain ⟨r1, h1, _⟩ := next_ascii hk false hp
    obtain ⟨r2, h2, _⟩ := next_ascii hk true hp
    simp only [Cursor.next, Bool.false_eq_true, if_false, if_true] at h1 h2
    constructor
    · unfold Input.peekLeft; rw [h1]; cases r1 with
      | none => exact ⟨_, rfl⟩
      | some cp => exact ⟨_, rfl⟩
    · unfold Input.peekRight; rw [h2]; cases r2 with
      | none => exact ⟨_, rfl⟩
      | some cp => exact ⟨_, rfl⟩
  backref := by
    intro fwd ip pos g ic rs re p h hi _ _ hm
    unfold backref Input.subrangeEq at hm
    split at hm
    · cases hm
    · have := matchBytes_range (bytes := inp.bytes) h.2 hm
      exact ⟨⟨wf_succ hw hi (by simp) (by simp), this.1⟩, (matchBytes_moved (bytes := inp.bytes) h.2 hm).1⟩
  backrefI := by
    intro fwd ip pos g ic rs re h hi _ hre hle
    obtain ⟨r, hr, hp⟩ := backrefIcase_ascii hk fwd hle hre h.2
    exact ⟨r, hr, fun p hp' => ⟨⟨wf_succ hw hi (by simp) (by simp), (hp p hp').1⟩, (hp p hp').2⟩⟩
  look := by
    intro fwd ip pos neg sg eg k h
    exact ⟨fun hi => ⟨wf_succ hw hi (by simp) (by simp), h.2⟩,
      fun hi => ⟨wf_succ hw hi (by simp) (by simp), h.2⟩⟩
  loop1 := by
    intro fwd ip pos mn mx g h hi p
    have hwi := wf_insn hw hi
    simp only [wfInsn, Bool.and_eq_true, decide_eq_true_eq] at hwi
    have := hwi.1.2
    exact ⟨⟨fun h => h.2, fun h => ⟨by omega, h⟩⟩, fun hv => ⟨⟨by omega, hv⟩, ⟨by omega, hv⟩⟩⟩
  stepL := by
    intro mn mx _ hmx hlt
    refine ⟨mx - 1, ?_, by omega, by omega, by omega⟩
    simp only [Input.nextLeftPos, hk, Input.tryMoveLeft, Utf8.tryMoveLeft]
    have : ¬ mx < 1 := by omega
    simp [this]
  stepR := by
    intro mn mx _ hmx hlt
    refine ⟨mn + 1, ?_, by omega, by omega, by omega⟩
    simp only [Input.nextRightPos, hk, Input.tryMoveRight, Utf8.tryMoveRight]
    have : ¬ inp.bytes.size - mn < 1 := by unfold Input.len at hmx; omega
    simp [this]

/-! ## UTF-8 input: facts at char boundaries -/

open Regress.Utf8 in
/-- `inp` is the UTF-8 haystack holding the scalar values `cs`. -/
structure Utf8Text (inp : Input) (cs : List Nat) : Prop where
  kind : inp.kind = .utf8
  bytes : inp.bytes = text cs
  scalar : AllScalar cs

/-- Storable position of a UTF-8 haystack: in range and a char boundary. -/
def VUtf8 (inp : Input) (p : Nat) : Prop := p ≤ inp.len ∧ Utf8.isBoundary inp.bytes p = true

instance (inp : Input) (p : Nat) : Decidable (VUtf8 inp p) := by unfold VUtf8; infer_instance

section Utf8
open Regress.Utf8
variable {inp : Input} {cs : List Nat}

theorem vutf8_iff (h : Utf8Text inp cs) {p : Nat} :
    VUtf8 inp p ↔ ∃ k, k ≤ cs.length ∧ p = off cs k := by
  unfold VUtf8 Input.len
  rw [h.bytes]
  constructor
  · rintro ⟨h1, h2⟩; exact (isBoundary_iff cs h1).mp h2
  · rintro ⟨k, hk, rfl⟩; exact ⟨off_le_size _ _, isBoundary_off cs hk⟩

theorem next_utf8 (h : Utf8Text inp cs) (fwd : Bool) {p : Nat} (hv : VUtf8 inp p) :
    ∃ r, Cursor.next inp fwd p = .ok r ∧
      ∀ c p', r = some (c, p') → VUtf8 inp p' ∧ Moved fwd p p' := by
  obtain ⟨h1, h2⟩ := hv
  unfold VUtf8
  unfold Input.len at h1 ⊢
  rw [h.bytes] at h1 h2 ⊢
  obtain ⟨⟨r, hr, _, hq⟩, _, ⟨r', hr', _, hq'⟩, _⟩ := decoders_safe h.scalar h1 h2
  cases fwd with
  | true =>
    refine ⟨r, by simp only [Cursor.next, if_true, Input.nextRight, h.kind, h.bytes]; exact hr, ?_⟩
    intro c p' hcp
    obtain ⟨_, a, _, b, c'⟩ := hq c p' hcp
    exact ⟨⟨b, c'⟩, Moved.fwd a⟩
  | false =>
    have e : Cursor.next inp false p = nextLeft (text cs) p := by
      simp only [Cursor.next, Bool.false_eq_true, if_false, Input.nextLeft, h.kind, h.bytes]
    refine ⟨r', e ▸ hr', ?_⟩
    intro c p' hcp
    obtain ⟨_, a, _, c'⟩ := hq' c p' hcp
    exact ⟨⟨by omega, c'⟩, Moved.bwd a⟩

theorem peek_utf8 (h : Utf8Text inp cs) {p : Nat} (hv : VUtf8 inp p) :
    (∃ r, inp.peekLeft p = .ok r) ∧ (∃ r, inp.peekRight p = .ok r) := by
  obtain ⟨r1, h1, _⟩ := next_utf8 h false hv
  obtain ⟨r2, h2, _⟩ := next_utf8 h true hv
  simp only [Cursor.next, Bool.false_eq_true, if_false, if_true] at h1 h2
  constructor
  · unfold Input.peekLeft; rw [h1]; cases r1 with
    | none => exact ⟨_, rfl⟩
    | some cp => exact ⟨_, rfl⟩
  · unfold Input.peekRight; rw [h2]; cases r2 with
    | none => exact ⟨_, rfl⟩
    | some cp => exact ⟨_, rfl⟩

/-- `cursor::next_byte` from a boundary: fine if the byte read is ASCII. -/
theorem nextByte_utf8 (h : Utf8Text inp cs) (fwd : Bool) {p : Nat} (hv : VUtf8 inp p) :
    ∃ r, Cursor.nextByte inp fwd p = .ok r ∧
      ∀ b p', r = some (b, p') → b < 128 → VUtf8 inp p' ∧ Moved fwd p p' := by
  obtain ⟨r, hr, hp⟩ := nextByte_ok inp fwd hv.1
  refine ⟨r, hr, ?_⟩
  intro b p' hbp hb
  obtain ⟨hm, hle, hf, hbk⟩ := hp b p' hbp
  refine ⟨⟨hle, ?_⟩, hm⟩
  obtain ⟨h1, h2⟩ := hv
  unfold Input.len at h1
  rw [h.bytes] at h1 h2 hf hbk ⊢
  obtain ⟨⟨r1, hr1, _, hq1⟩, _, ⟨r2, hr2, _, hq2⟩, _⟩ := decoders_safe h.scalar h1 h2
  cases fwd with
  | true =>
    obtain ⟨rfl, hb0⟩ := hf rfl
    have hlt := lt_of_getElem?_eq_some hb0
    have hne : (p == (text cs).size) = false := beq_eq_false_iff_ne.mpr (Nat.ne_of_lt hlt)
    have : nextRight (text cs) p = .ok (some (b, p + 1)) := by
      unfold nextRight
      simp only [hne, Bool.false_eq_true, if_false, hb0, hb, if_true]
    rw [this] at hr1
    cases hr1
    exact (hq1 b (p + 1) rfl).2.2.2.2
  | false =>
    obtain ⟨hpp, hb0⟩ := hbk rfl
    have : p - 1 = p' := by omega
    have hne : (p == 0) = false := beq_eq_false_iff_ne.mpr (by omega)
    have : nextLeft (text cs) p = .ok (some (b, p')) := by
      unfold nextLeft
      simp only [hne, Bool.false_eq_true, if_false, this, hb0, hb, if_true]
    rw [this] at hr2
    cases hr2
    exact (hq2 b p' rfl).2.2.2

/-- The bytes between two boundaries are the encoding of a list of scalars. -/
theorem slice_boundaries (h : Utf8Text inp cs) {rs re : Nat} (h1 : VUtf8 inp rs) (h2 : VUtf8 inp re)
    (hle : rs ≤ re) : ∃ ds, AllScalar ds ∧ Utf8.slice (text cs) rs re = encodeAll ds := by
  obtain ⟨i, hi, rfl⟩ := (vutf8_iff h).mp h1
  obtain ⟨j, hj, rfl⟩ := (vutf8_iff h).mp h2
  have hij : i ≤ j := by
    by_cases hij : i ≤ j
    · exact hij
    · have := off_strict_mono (cs := cs) (k := j) (j := i) (by omega) hi; omega
  refine ⟨(cs.drop i).take (j - i), (h.scalar.drop i).take (j - i), ?_⟩
  have hpre : (cs.drop i).take (j - i) <+: cs.drop i := List.take_prefix _ _
  have hlen : ((cs.drop i).take (j - i)).length = j - i := by simp; omega
  have hoff := off_add_of_prefix hpre
  rw [hlen, show i + (j - i) = j by omega] at hoff
  have hsplit : encodeAll (cs.drop i) =
      encodeAll ((cs.drop i).take (j - i)) ++ encodeAll ((cs.drop i).drop (j - i)) := by
    rw [← encodeAll_append, List.take_append_drop]
  rw [slice_eq]
  simp only [text]
  rw [drop_off, hoff, Nat.add_sub_cancel_left, hsplit, List.take_left']
  rfl

theorem matchBytes_utf8 (h : Utf8Text inp cs) (fwd : Bool) {pos p : Nat} {ds : List Nat}
    (hds : AllScalar ds) (hv : VUtf8 inp pos)
    (hm : inp.matchBytes fwd pos (encodeAll ds) = some p) : VUtf8 inp p := by
  obtain ⟨h1, h2⟩ := hv
  unfold VUtf8
  unfold Input.len at h1 ⊢
  unfold Input.matchBytes at hm
  rw [h.bytes] at h1 h2 hm ⊢
  cases fwd with
  | true =>
    obtain ⟨a, b, _⟩ := matchBytes_boundary h.scalar hds h1 h2 hm
    exact ⟨a, b⟩
  | false =>
    obtain ⟨a, b, _⟩ := matchBytes_boundary_back h2 hm
    exact ⟨by omega, b⟩

theorem backref_utf8 (h : Utf8Text inp cs) (fwd : Bool) {rs re pos p : Nat} (h1 : VUtf8 inp rs)
    (h2 : VUtf8 inp re) (hv : VUtf8 inp pos) (hm : backref inp fwd rs re pos = some p) :
    VUtf8 inp p ∧ MovedLe fwd pos p := by
  have hmv : MovedLe fwd pos p := by
    unfold backref Input.subrangeEq at hm
    split at hm
    · cases hm
    · exact (matchBytes_moved (bytes := inp.bytes) hv.1 hm).1
  refine ⟨?_, hmv⟩
  unfold backref Input.subrangeEq at hm
  split at hm
  · cases hm
  · obtain ⟨ds, hds, hsl⟩ := slice_boundaries h h1 h2 (by omega)
    unfold Utf8.subrangeEq at hm
    rw [h.bytes, hsl, ← h.bytes] at hm
    exact matchBytes_utf8 h fwd hds hv hm

theorem backrefIcase_utf8 (h : Utf8Text inp cs) (fwd : Bool) {rs re pos : Nat} (h1 : VUtf8 inp rs)
    (h2 : VUtf8 inp re) (hle : rs ≤ re) (hv : VUtf8 inp pos) :
    ∃ r, backrefIcase inp fwd rs re pos = .ok r ∧ ∀ p, r = some p → VUtf8 inp p ∧ MovedLe fwd pos p := by
  unfold backrefIcase
  have hc : ¬ (decide (rs > re) || decide (re > inp.bytes.size)) = true := by
    have := h2.1; unfold Input.len at this; simp; omega
  simp only [hc]
  obtain ⟨ds, hds, hsl⟩ := slice_boundaries h h1 h2 hle
  have hext : inp.bytes.extract rs re = text ds := by
    have : (inp.bytes.extract rs re).toList = encodeAll ds := by rw [h.bytes]; exact hsl
    unfold text; rw [← this]
  have href : Utf8Text ⟨inp.kind, inp.bytes.extract rs re, inp.unicode⟩ ds := ⟨h.kind, hext, hds⟩
  apply backrefIcaseLoop_ok (VUtf8 ⟨inp.kind, inp.bytes.extract rs re, inp.unicode⟩) (VUtf8 inp)
  · intro p hp
    obtain ⟨r, hr, hq⟩ := next_utf8 href fwd hp
    exact ⟨r, hr, fun c p' hh => ⟨(hq c p' hh).1, (hq c p' hh).2, (hq c p' hh).1.1⟩⟩
  · intro p hp; exact next_utf8 h fwd hp
  · refine (vutf8_iff href).mpr ?_
    cases fwd with
    | true => exact ⟨0, Nat.zero_le _, by simp⟩
    | false => exact ⟨ds.length, Nat.le_refl _, by simp [off_length, hext]⟩
  · exact hv
  · intro f; subst f; simp [Input.len]
  · intro f; subst f; simp

theorem stepL_utf8 (h : Utf8Text inp cs) {mn mx : Nat} (h1 : VUtf8 inp mn) (h2 : VUtf8 inp mx)
    (hlt : mn < mx) : ∃ p, inp.nextLeftPos mx = .ok (some p) ∧ mn ≤ p ∧ p < mx ∧ VUtf8 inp p := by
  obtain ⟨i, hi, rfl⟩ := (vutf8_iff h).mp h1
  obtain ⟨j, hj, rfl⟩ := (vutf8_iff h).mp h2
  have hij : i < j := (off_lt_iff hi hj).mp hlt
  refine ⟨off cs (j - 1), ?_, off_mono (by omega) (by omega), ?_, (vutf8_iff h).mpr ⟨j - 1, by omega, rfl⟩⟩
  · simp only [Input.nextLeftPos, h.kind, h.bytes]
    exact nextLeftPos_roundtrip h.scalar (by omega) hj
  · have := off_lt_succ (cs := cs) (k := j - 1) (by omega)
    rwa [show j - 1 + 1 = j by omega] at this

theorem stepR_utf8 (h : Utf8Text inp cs) {mn mx : Nat} (h1 : VUtf8 inp mn) (h2 : VUtf8 inp mx)
    (hlt : mn < mx) : ∃ p, inp.nextRightPos mn = .ok (some p) ∧ mn < p ∧ p ≤ mx ∧ VUtf8 inp p := by
  obtain ⟨i, hi, rfl⟩ := (vutf8_iff h).mp h1
  obtain ⟨j, hj, rfl⟩ := (vutf8_iff h).mp h2
  have hij : i < j := (off_lt_iff hi hj).mp hlt
  refine ⟨off cs (i + 1), ?_, off_lt_succ (by omega), off_mono (by omega) hj,
    (vutf8_iff h).mpr ⟨i + 1, by omega, rfl⟩⟩
  simp only [Input.nextRightPos, h.kind, h.bytes]
  exact nextRightPos_roundtrip h.scalar (by omega)

end Utf8

/-! ## Stage 2: UTF-8 input, every `byteSeq` chunk a whole number of characters -/

/-- The code point of a 1..4 byte sequence (no validation). -/
def decodeCp : List Nat → Nat
  | [a] => a
  | [a, b] => Utf8.w2 a b
  | [a, b, c] => Utf8.w3 a b c
  | [a, b, c, d] => Utf8.w4 a b c d
  | _ => 0

/-- Decode the first UTF-8 sequence of `bs` (validated by re-encoding). -/
def decodeOne (bs : List Nat) : Option (Nat × List Nat) :=
  match bs with
  | [] => none
  | b0 :: _ =>
    let n := Utf8.seqLen b0
    let c := decodeCp (bs.take n)
    if Utf8.isScalar c && Utf8.encode c == bs.take n then some (c, bs.drop n) else none

/-- `some ds` iff `bs` is the UTF-8 encoding of the scalar values `ds` (`fuel ≥ bs.length`). -/
def decodeAllUtf8? : Nat → List Nat → Option (List Nat)
  | _, [] => some []
  | 0, _ :: _ => none
  | fuel + 1, b :: bs =>
    match decodeOne (b :: bs) with
    | none => none
    | some (c, rest) => (decodeAllUtf8? fuel rest).map (c :: ·)

/-- `bs` is the UTF-8 encoding of a list of scalar values. -/
def isUtf8Chunk (bs : List Nat) : Bool := (decodeAllUtf8? bs.length bs).isSome

/-- Every `byteSeq` instruction is by itself the encoding of a list of scalar values. -/
def noSplitChunks (prog : Prog) : Bool :=
  prog.insns.all (fun i => match i with | .byteSeq bs => isUtf8Chunk bs | _ => true)

theorem decodeOne_sound {bs : List Nat} {c : Nat} {rest : List Nat} (h : decodeOne bs = some (c, rest)) :
    Utf8.isScalar c = true ∧ Utf8.encode c ++ rest = bs := by
  unfold decodeOne at h
  cases bs with
  | nil => cases h
  | cons b0 tl =>
    simp only at h
    split at h
    · rename_i hc
      simp only [Bool.and_eq_true, beq_iff_eq] at hc
      cases h
      exact ⟨hc.1, by rw [hc.2, List.take_append_drop]⟩
    · cases h

theorem decodeAllUtf8?_sound : ∀ (fuel : Nat) (bs ds : List Nat), decodeAllUtf8? fuel bs = some ds →
    Utf8.AllScalar ds ∧ Utf8.encodeAll ds = bs := by
  intro fuel
  induction fuel with
  | zero =>
    intro bs ds h
    cases bs with
    | nil => simp only [decodeAllUtf8?] at h; cases h; exact ⟨fun c hc => (by cases hc), rfl⟩
    | cons b bs => simp [decodeAllUtf8?] at h
  | succ fuel ih =>
    intro bs ds h
    cases bs with
    | nil => simp only [decodeAllUtf8?] at h; cases h; exact ⟨fun c hc => (by cases hc), rfl⟩
    | cons b bs =>
      simp only [decodeAllUtf8?] at h
      split at h
      · cases h
      · rename_i c rest hone
        obtain ⟨hc, henc⟩ := decodeOne_sound hone
        cases hr : decodeAllUtf8? fuel rest with
        | none => rw [hr] at h; cases h
        | some ds' =>
          rw [hr] at h
          cases h
          obtain ⟨h1, h2⟩ := ih rest ds' hr
          refine ⟨?_, by rw [Utf8.encodeAll_cons, h2, henc]⟩
          intro x hx
          rcases List.mem_cons.mp hx with rfl | hx
          · exact hc
          · exact h1 x hx

theorem noSplitChunks_spec {prog : Prog} (h : noSplitChunks prog = true) {ip : Nat} {bs : List Nat}
    (hi : prog.insns[ip]? = some (.byteSeq bs)) : ∃ ds, Utf8.AllScalar ds ∧ bs = Utf8.encodeAll ds := by
  have hlt := lt_of_getElem?_eq_some hi
  simp only [noSplitChunks, Array.all_eq_true] at h
  have := h ip hlt
  rw [Array.getElem?_eq_getElem hlt] at hi
  have heq : prog.insns[ip] = .byteSeq bs := by simpa using hi
  rw [heq] at this
  simp only [isUtf8Chunk, Option.isSome_iff_exists] at this
  obtain ⟨ds, hds⟩ := this
  obtain ⟨h1, h2⟩ := decodeAllUtf8?_sound _ _ _ hds
  exact ⟨ds, h1, h2.symm⟩

/-- Admissibility for Stage 2: any instruction, at a char boundary. -/
def Utf8A (prog : Prog) (inp : Input) (_fwd : Bool) (ip pos : Nat) : Prop :=
  ip < prog.insns.size ∧ VUtf8 inp pos

theorem mem_lt_of_all {bs : List Nat} {n b : Nat} (h : bs.all (· < n) = true) (hb : b ∈ bs) : b < n := by
  simp only [List.all_eq_true, decide_eq_true_eq] at h
  exact h b hb

theorem specUtf8Plain {prog : Prog} {inp : Input} {cs : List Nat} (hw : wfProg prog = true)
    (hns : noSplitChunks prog = true) (h : Utf8Text inp cs) :
    Spec prog inp (Utf8A prog inp) (VUtf8 inp) where
  ip_lt h := h.1
  v_le h := h.1
  adm_v h _ _ := h.2
  ctrl h hi t ht := ⟨ctrlSuccs_lt hw hi t ht, h.2⟩
  elem := by
    intro fwd ip pos insn ha hi he
    obtain ⟨r, hr, hp⟩ := next_utf8 h fwd ha.2
    refine ⟨r, hr, fun c p hcp => ⟨⟨wf_succ hw hi ?_ ?_, (hp c p hcp).1⟩, (hp c p hcp).2⟩⟩ <;>
      (intro hh; subst hh; simp [isElem] at he)
  byte := by
    intro fwd ip pos bs ha hi
    obtain ⟨r, hr, hp⟩ := nextByte_utf8 h fwd ha.2
    refine ⟨r, hr, fun b p hbp hmem => ?_⟩
    have hb : b < 128 := by
      rcases hi with hi | hi
      · have := wf_insn hw hi
        simp only [wfInsn, Bool.and_eq_true] at this
        exact mem_lt_of_all this.2 hmem
      · have := wf_insn hw hi
        simp only [wfInsn] at this
        exact mem_lt_of_all this hmem
    have hsucc : ip + 1 < prog.insns.size := by
      rcases hi with hi | hi <;> exact wf_succ hw hi (by simp) (by simp)
    exact ⟨⟨hsucc, (hp b p hbp hb).1⟩, (hp b p hbp hb).2⟩
  seq := by
    intro fwd ip pos bs p ha hi hm
    have hwi := wf_insn hw hi
    simp only [wfInsn, Bool.and_eq_true, decide_eq_true_eq] at hwi
    obtain ⟨ds, hds, rfl⟩ := noSplitChunks_spec hns hi
    exact ⟨⟨wf_succ hw hi (by simp) (by simp), matchBytes_utf8 h fwd hds ha.2 hm⟩,
      (matchBytes_moved (bytes := inp.bytes) ha.2.1 hm).2 (by omega)⟩
  peek hv := peek_utf8 h hv
  backref := by
    intro fwd ip pos g ic rs re p ha hi h1 h2 hm
    have := backref_utf8 h fwd h1 h2 ha.2 hm
    exact ⟨⟨wf_succ hw hi (by simp) (by simp), this.1⟩, this.2⟩
  backrefI := by
    intro fwd ip pos g ic rs re ha hi h1 h2 hle
    obtain ⟨r, hr, hp⟩ := backrefIcase_utf8 h fwd h1 h2 hle ha.2
    exact ⟨r, hr, fun p hp' => ⟨⟨wf_succ hw hi (by simp) (by simp), (hp p hp').1⟩, (hp p hp').2⟩⟩
  look := by
    intro fwd ip pos neg sg eg k ha
    exact ⟨fun hi => ⟨wf_succ hw hi (by simp) (by simp), ha.2⟩,
      fun hi => ⟨wf_succ hw hi (by simp) (by simp), ha.2⟩⟩
  loop1 := by
    intro fwd ip pos mn mx g ha hi p
    have hwi := wf_insn hw hi
    simp only [wfInsn, Bool.and_eq_true, decide_eq_true_eq] at hwi
    have := hwi.1.2
    exact ⟨⟨fun h => h.2, fun h => ⟨by omega, h⟩⟩, fun hv => ⟨⟨by omega, hv⟩, ⟨by omega, hv⟩⟩⟩
  stepL h1 h2 hlt := stepL_utf8 h h1 h2 hlt
  stepR h1 h2 hlt := stepR_utf8 h h1 h2 hlt

/-! ## Stage 3: `byteSeq` chunks that split a character — phases

The *phase* of a position of a well-formed text is its distance to the next char boundary
(`0` on a boundary, otherwise `1..3`). Matching a byte that is really in the text changes the phase in
a way that depends only on the class of the byte (ASCII / lead byte of length `n` / continuation),
both left-to-right (`fwdStep`) and right-to-left (`bwdStep`). -/

/-- Phase after reading byte `b` left to right at phase `k`; `none`: such a byte cannot occur here in
well-formed UTF-8 (the match then fails). -/
def fwdStep (k b : Nat) : Option Nat :=
  if k = 0 then
    (if b < 0x80 then some 0 else if Utf8.isCont b then none else some (Utf8.seqLen b - 1))
  else (if Utf8.isCont b then some (k - 1) else none)

/-- Phase after reading byte `b` right to left (the byte just before the position) at phase `k`. -/
def bwdStep (k b : Nat) : Option Nat :=
  if Utf8.isCont b then some (k + 1)
  else if b < 0x80 then (if k = 0 then some 0 else none)
  else (if Utf8.seqLen b = k + 1 then some 0 else none)

def transWith (step : Nat → Nat → Option Nat) : Nat → List Nat → Option Nat
  | k, [] => some k
  | k, b :: bs =>
    match step k b with
    | none => none
    | some k' => transWith step k' bs

/-- Phase after matching the chunk `bs` forwards from phase `k`. -/
def transF (k : Nat) (bs : List Nat) : Option Nat := transWith fwdStep k bs
/-- Phase after matching the chunk `bs` backwards (its last byte first) from phase `k`. -/
def transB (k : Nat) (bs : List Nat) : Option Nat := transWith bwdStep k bs.reverse

section Phase
open Regress.Utf8

/-- `pos` is `k` bytes before the next char boundary of `text cs`. -/
def Ph (cs : List Nat) (pos k : Nat) : Prop :=
  (k = 0 ∧ ∃ i, i ≤ cs.length ∧ pos = off cs i) ∨
  (0 < k ∧ ∃ i, ∃ hi : i < cs.length, ∃ j, 0 < j ∧ j + k = (encode cs[i]).length ∧ pos = off cs i + j)

theorem Ph.le_size {cs : List Nat} {pos k : Nat} (h : Ph cs pos k) : pos + k ≤ (text cs).size := by
  rcases h with ⟨rfl, i, hi, rfl⟩ | ⟨_, i, hi, j, _, hj, rfl⟩
  · exact off_le_size _ _
  · have := off_succ hi
    have := off_le_size cs (i + 1)
    omega

theorem head_facts {c : Nat} (hc : c ≤ 0x10FFFF) :
    ∃ b, (encode c)[0]? = some b ∧ isCont b = false ∧ seqLen b = (encode c).length ∧
      (b < 0x80 ↔ (encode c).length = 1) := by
  refine ⟨firstByte c, ?_, ?_, seqLen_firstByte c, ?_⟩
  · have := firstByte_eq_head hc
    rw [List.head?_eq_getElem?] at this; exact this
  · cases h : isCont (firstByte c) with
    | false => rfl
    | true =>
      have := isSeqStart_of_isCont h
      rw [isSeqStart_firstByte] at this; cases this
  · rw [encode_length]
    unfold firstByte
    split
    · simp; omega
    · split
      · simp <;> omega
      · split <;> simp <;> omega

theorem byteAt {cs : List Nat} {i : Nat} (hi : i < cs.length) {j : Nat}
    (hj : j < (encode cs[i]).length) : (text cs)[off cs i + j]? = (encode cs[i])[j]? :=
  hasAt_text hi j hj

theorem isCont_not_ascii {b : Nat} (h : isCont b = true) : ¬ b < 0x80 := by
  simp [isCont] at h; omega

theorem fwdStep_ok {cs : List Nat} (hcs : AllScalar cs) {pos k b : Nat} (hph : Ph cs pos k)
    (hb : (text cs)[pos]? = some b) : ∃ k', fwdStep k b = some k' ∧ Ph cs (pos + 1) k' := by
  have hlt := lt_of_getElem?_eq_some hb
  rcases hph with ⟨rfl, i, hi, rfl⟩ | ⟨hk, i, hi, j, hj0, hjk, rfl⟩
  · -- on a boundary: `b` is the first byte of the `i`-th scalar
    have hi' : i < cs.length := by
      by_cases h : i < cs.length
      · exact h
      · have : i = cs.length := by omega
        subst this; rw [off_length] at hlt; omega
    obtain ⟨b0, h0, hnc, hsl, hasc⟩ := head_facts (isScalar_le (hcs _ (List.getElem_mem hi')))
    have := byteAt hi' (j := 0) (encode_length_pos _)
    rw [Nat.add_zero, hb, h0] at this
    cases this
    unfold fwdStep
    simp only [if_true]
    by_cases hl : (encode cs[i]).length = 1
    · have hb' : b < 0x80 := hasc.mpr hl
      simp only [hb', if_true]
      exact ⟨0, rfl, Or.inl ⟨rfl, i + 1, hi', by rw [off_succ hi', hl]⟩⟩
    · have hb' : ¬ b < 0x80 := fun h => hl (hasc.mp h)
      simp only [hb', if_false, hnc, Bool.false_eq_true]
      have hpos := encode_length_pos cs[i]
      refine ⟨_, rfl, Or.inr ⟨by omega, i, hi', 1, by omega, by omega, rfl⟩⟩
  · -- inside the `i`-th scalar: `b` is a continuation byte
    have hjl : j < (encode cs[i]).length := by omega
    have := byteAt hi hjl
    rw [hb] at this
    have hc := isCont_of_pos_index hj0 this.symm
    unfold fwdStep
    have hk0 : ¬ k = 0 := by omega
    simp only [hk0, if_false, hc, if_true]
    refine ⟨_, rfl, ?_⟩
    by_cases hk1 : k = 1
    · exact Or.inl ⟨by omega, i + 1, hi, by rw [off_succ hi]; omega⟩
    · exact Or.inr ⟨by omega, i, hi, j + 1, by omega, by omega, by omega⟩

theorem bwdStep_ok {cs : List Nat} (hcs : AllScalar cs) {pos k b : Nat} (hph : Ph cs pos k)
    (hp : 0 < pos) (hb : (text cs)[pos - 1]? = some b) :
    ∃ k', bwdStep k b = some k' ∧ Ph cs (pos - 1) k' := by
  rcases hph with ⟨rfl, i, hi, rfl⟩ | ⟨hk, i, hi, j, hj0, hjk, rfl⟩
  · -- on a boundary: `b` is the last byte of the previous scalar
    have hi0 : 0 < i := by
      by_cases h : 0 < i
      · exact h
      · have : i = 0 := by omega
        subst this; simp at hp
    have hi' : i - 1 < cs.length := by omega
    have hoff := off_succ hi'
    rw [show i - 1 + 1 = i by omega] at hoff
    have hpos := encode_length_pos cs[i - 1]
    have hbyte := byteAt hi' (j := (encode cs[i - 1]).length - 1) (by omega)
    rw [show off cs (i - 1) + ((encode cs[i - 1]).length - 1) = off cs i - 1 by omega, hb] at hbyte
    obtain ⟨b0, h0, hnc, hsl, hasc⟩ := head_facts (isScalar_le (hcs _ (List.getElem_mem hi')))
    unfold bwdStep
    by_cases hl : (encode cs[i - 1]).length = 1
    · rw [hl, Nat.sub_self, h0] at hbyte
      cases hbyte
      have hb' : b < 0x80 := hasc.mpr hl
      simp only [hnc, Bool.false_eq_true, if_false, hb', if_true]
      exact ⟨0, rfl, Or.inl ⟨rfl, i - 1, by omega, by omega⟩⟩
    · have hc := isCont_of_pos_index (i := (encode cs[i - 1]).length - 1) (by omega) hbyte.symm
      simp only [hc, if_true]
      exact ⟨_, rfl, Or.inr ⟨by omega, i - 1, hi', (encode cs[i - 1]).length - 1, by omega, by omega,
        by omega⟩⟩
  · -- inside the `i`-th scalar
    have hjl : j - 1 < (encode cs[i]).length := by omega
    have hbyte := byteAt hi hjl
    rw [show off cs i + (j - 1) = off cs i + j - 1 by omega, hb] at hbyte
    unfold bwdStep
    by_cases hj1 : j = 1
    · subst hj1
      obtain ⟨b0, h0, hnc, hsl, hasc⟩ := head_facts (isScalar_le (hcs _ (List.getElem_mem hi)))
      rw [Nat.sub_self, h0] at hbyte
      cases hbyte
      have hb' : ¬ b < 0x80 := fun h => by have := hasc.mp h; omega
      have hs : seqLen b = k + 1 := by omega
      simp only [hnc, Bool.false_eq_true, if_false, hb', hs, if_true]
      exact ⟨0, rfl, Or.inl ⟨rfl, i, by omega, by omega⟩⟩
    · have hc := isCont_of_pos_index (i := j - 1) (by omega) hbyte.symm
      simp only [hc, if_true]
      exact ⟨_, rfl, Or.inr ⟨by omega, i, hi, j - 1, by omega, by omega, by omega⟩⟩

theorem transF_ok {cs : List Nat} (hcs : AllScalar cs) :
    ∀ (bs : List Nat) (pos k : Nat), Ph cs pos k →
      (∀ t, t < bs.length → (text cs)[pos + t]? = bs[t]?) →
      ∃ k', transF k bs = some k' ∧ Ph cs (pos + bs.length) k' := by
  intro bs
  induction bs with
  | nil => intro pos k h _; exact ⟨k, rfl, h⟩
  | cons b bs ih =>
    intro pos k h hb
    have h0 := hb 0 (by simp)
    simp only [Nat.add_zero, List.getElem?_cons_zero] at h0
    obtain ⟨k1, hk1, hph1⟩ := fwdStep_ok hcs h h0
    obtain ⟨k', hk', hph'⟩ := ih (pos + 1) k1 hph1 (by
      intro t ht
      have := hb (t + 1) (by simp; omega)
      simp only [List.getElem?_cons_succ] at this
      rw [← this]; congr 1; omega)
    refine ⟨k', ?_, ?_⟩
    · simp only [transF, transWith, hk1]; exact hk'
    · simp only [List.length_cons]; rw [show pos + (bs.length + 1) = pos + 1 + bs.length by omega]
      exact hph'

theorem transWith_bwd_ok {cs : List Nat} (hcs : AllScalar cs) :
    ∀ (rb : List Nat) (pos k : Nat), Ph cs pos k → rb.length ≤ pos →
      (∀ t, t < rb.length → (text cs)[pos - 1 - t]? = rb[t]?) →
      ∃ k', transWith bwdStep k rb = some k' ∧ Ph cs (pos - rb.length) k' := by
  intro rb
  induction rb with
  | nil => intro pos k h _ _; exact ⟨k, rfl, h⟩
  | cons b rb ih =>
    intro pos k h hlen hb
    simp only [List.length_cons] at hlen
    have h0 := hb 0 (by simp)
    simp only [Nat.sub_zero, List.getElem?_cons_zero] at h0
    obtain ⟨k1, hk1, hph1⟩ := bwdStep_ok hcs h (by omega) h0
    obtain ⟨k', hk', hph'⟩ := ih (pos - 1) k1 hph1 (by omega) (by
      intro t ht
      have := hb (t + 1) (by simp; omega)
      simp only [List.getElem?_cons_succ] at this
      rw [← this]; congr 1; omega)
    refine ⟨k', ?_, ?_⟩
    · simp only [transWith, hk1]; exact hk'
    · simp only [List.length_cons]; rw [show pos - (rb.length + 1) = pos - 1 - rb.length by omega]
      exact hph'

theorem slice_getElem {bytes : Array Nat} {s e : Nat} {l : List Nat} (h : Utf8.slice bytes s e = l) :
    ∀ t, t < l.length → bytes[s + t]? = l[t]? := by
  intro t ht
  subst h
  unfold Utf8.slice at ht ⊢
  simp only [Array.length_toList, Array.size_extract] at ht
  rw [Array.getElem?_toList, Array.getElem?_extract]
  simp [ht]

/-- A successful `match_bytes` from a position of phase `k` ends at the phase computed statically. -/
theorem matchBytes_phase {cs : List Nat} (hcs : AllScalar cs) {fwd : Bool} {pos p k : Nat}
    {bs : List Nat} (hph : Ph cs pos k) (hm : Utf8.matchBytes (text cs) fwd pos bs = some p) :
    ∃ k', (if fwd then transF k bs else transB k bs) = some k' ∧ Ph cs p k' := by
  unfold Utf8.matchBytes at hm
  cases fwd with
  | true =>
    simp only [if_true, Utf8.tryMoveRight] at hm ⊢
    split at hm
    · cases hm
    · rename_i e he
      split at he
      · cases he
      · cases he
        split at hm
        · rename_i heq
          cases hm
          exact transF_ok hcs bs pos k hph (slice_getElem (eq_of_beq heq))
        · cases hm
  | false =>
    simp only [Bool.false_eq_true, if_false, Utf8.tryMoveLeft] at hm ⊢
    split at hm
    · cases hm
    · rename_i e he
      split at he
      · cases he
      · rename_i hlen
        cases he
        split at hm
        · rename_i heq
          cases hm
          have hsl := slice_getElem (eq_of_beq heq)
          have := transWith_bwd_ok hcs bs.reverse pos k hph (by simp; omega) (by
            intro t ht
            simp only [List.length_reverse] at ht
            rw [List.getElem?_reverse ht, ← hsl (bs.length - 1 - t) (by omega)]
            congr 1; omega)
          simpa [transB] using this
        · cases hm

theorem ph_zero_iff {inp : Input} {cs : List Nat} (h : Utf8Text inp cs) {p : Nat} :
    Ph cs p 0 ↔ VUtf8 inp p := by
  rw [vutf8_iff h]
  constructor
  · rintro (⟨_, i, hi, rfl⟩ | ⟨hk, _⟩)
    · exact ⟨i, hi, rfl⟩
    · omega
  · rintro ⟨i, hi, rfl⟩; exact Or.inl ⟨rfl, i, hi, rfl⟩

end Phase

/-! ### The phase certificate -/

/-- Per instruction: the direction in which it is executed (`false` inside a look-behind body) and
the phase of the position at which it is entered. -/
structure Cert where
  dir : Array Bool
  ph : Array Nat
deriving Repr, DecidableEq

def Cert.at (c : Cert) (ip : Nat) : Option (Bool × Nat) :=
  match c.dir[ip]?, c.ph[ip]? with
  | some d, some k => some (d, k)
  | _, _ => none

/-- `byteSet` / `asciiBracket`. -/
def isByteInsn : Insn → Bool
  | .byteSet _ | .asciiBracket _ => true
  | _ => false

/-- All successors of a non-`byteSeq` instruction that are entered in the same direction on a
boundary. -/
def plainSuccs (prog : Prog) (ip : Nat) (insn : Insn) : List Nat :=
  ctrlSuccs prog ip insn ++ (if isElem insn || isByteInsn insn then [ip + 1] else []) ++
    (match insn with | .loop1 _ _ _ => [ip + 1] | _ => [])

/-- The first instruction of a look-around body runs in the direction of the look-around. -/
def lookOK (c : Cert) (ip : Nat) : Insn → Bool
  | .lookahead _ _ _ _ => c.at (ip + 1) == some (true, 0)
  | .lookbehind _ _ _ _ => c.at (ip + 1) == some (false, 0)
  | _ => true

/-- Local consistency of the certificate at one instruction. -/
def checkInsn (prog : Prog) (c : Cert) (ip : Nat) (insn : Insn) : Bool :=
  match c.at ip with
  | none => false
  | some (d, k) =>
    match insn with
    | .byteSeq bs =>
      (match (if d then transF k bs else transB k bs) with
       | none => true
       | some k' => c.at (ip + 1) == some (d, k'))
    | _ => k == 0 && (plainSuccs prog ip insn).all (fun t => c.at t == some (d, 0)) && lookOK c ip insn

/-- **The Stage 3 clause of `wfProg'`**: instruction 0 is entered forwards on a boundary, and the
certificate is locally consistent everywhere. In particular
(a) along every maximal run of consecutive `byteSeq` chunks, executed in the direction of the
enclosing look-around, the byte classes (ASCII / lead / continuation) are those of well-formed UTF-8;
(b) every other instruction, every jump / alternation / loop / continuation target and every
look-around body start is entered on a boundary (phase `0`), so none of them lies strictly inside a
run that splits a character. -/
def checkCert (prog : Prog) (c : Cert) : Bool :=
  c.at 0 == some (true, 0) &&
  (List.range prog.insns.size).all (fun ip =>
    match prog.insns[ip]? with
    | some insn => checkInsn prog c ip insn
    | none => false)

/-- The canonical certificate (untrusted: `checkCert` validates it). One left-to-right pass; `stack`
holds the continuations and directions of the enclosing look-arounds. -/
def mkCertLoop (prog : Prog) : List Nat → Bool → Nat → List (Nat × Bool) → Cert → Cert
  | [], _, _, _, c => c
  | ip :: rest, d, k, stack, c =>
    -- leave the look-around bodies that end here
    let (d, k, stack) := match stack with
      | (cont, od) :: st => if cont == ip then (od, 0, st) else (d, k, stack)
      | [] => (d, k, stack)
    let c : Cert := { dir := c.dir.push d, ph := c.ph.push k }
    match prog.insns[ip]? with
    | some (.lookahead _ _ _ cont) => mkCertLoop prog rest true 0 ((cont, d) :: stack) c
    | some (.lookbehind _ _ _ cont) => mkCertLoop prog rest false 0 ((cont, d) :: stack) c
    | some (.byteSeq bs) =>
      mkCertLoop prog rest d ((if d then transF k bs else transB k bs).getD 0) stack c
    | _ => mkCertLoop prog rest d 0 stack c

def mkCert (prog : Prog) : Cert :=
  mkCertLoop prog (List.range prog.insns.size) true 0 [] { dir := #[], ph := #[] }

/-- `wfProg' = wfProg ∧ checkCert (mkCert _)` — the decidable hypothesis of Stage 3. -/
def wfProgUtf8 (prog : Prog) : Bool := wfProg prog && checkCert prog (mkCert prog)

theorem checkCert_insn {prog : Prog} {c : Cert} (h : checkCert prog c = true) {ip : Nat} {insn : Insn}
    (hi : prog.insns[ip]? = some insn) : checkInsn prog c ip insn = true := by
  simp only [checkCert, Bool.and_eq_true, List.all_eq_true, List.mem_range] at h
  have := h.2 ip (lt_of_getElem?_eq_some hi)
  rw [hi] at this
  exact this

theorem checkInsn_plain {prog : Prog} {c : Cert} {ip : Nat} {insn : Insn}
    (h : checkInsn prog c ip insn = true) (hn : ∀ bs, insn ≠ .byteSeq bs) :
    ∃ d, c.at ip = some (d, 0) ∧ (∀ t ∈ plainSuccs prog ip insn, c.at t = some (d, 0)) ∧
      lookOK c ip insn = true := by
  unfold checkInsn at h
  cases hc : c.at ip with
  | none => rw [hc] at h; cases h
  | some dk =>
    obtain ⟨d, k⟩ := dk
    rw [hc] at h
    cases insn <;> first
      | exact absurd rfl (hn _)
      | (simp only [Bool.and_eq_true, beq_iff_eq, List.all_eq_true] at h
         obtain ⟨⟨rfl, h2⟩, h3⟩ := h
         exact ⟨d, rfl, h2, h3⟩)

theorem checkInsn_seq {prog : Prog} {c : Cert} {ip : Nat} {bs : List Nat}
    (h : checkInsn prog c ip (.byteSeq bs) = true) :
    ∃ d k, c.at ip = some (d, k) ∧
      ∀ k', (if d then transF k bs else transB k bs) = some k' → c.at (ip + 1) = some (d, k') := by
  unfold checkInsn at h
  cases hc : c.at ip with
  | none => rw [hc] at h; cases h
  | some dk =>
    obtain ⟨d, k⟩ := dk
    rw [hc] at h
    refine ⟨d, k, rfl, ?_⟩
    intro k' hk'
    simp only [hk', beq_iff_eq] at h
    exact h

/-- Admissibility for Stage 3: the certificate gives the direction, and the position has the
certified phase. -/
def CertA (prog : Prog) (c : Cert) (cs : List Nat) (fwd : Bool) (ip pos : Nat) : Prop :=
  ip < prog.insns.size ∧ ∃ k, c.at ip = some (fwd, k) ∧ Ph cs pos k

theorem specUtf8Cert {prog : Prog} {inp : Input} {cs : List Nat} {c : Cert} (hw : wfProg prog = true)
    (hc : checkCert prog c = true) (h : Utf8Text inp cs) :
    Spec prog inp (CertA prog c cs) (VUtf8 inp) := by
  -- a non-`byteSeq` instruction is entered on a boundary, and so are its plain successors
  have plain : ∀ {fwd ip pos insn}, CertA prog c cs fwd ip pos → prog.insns[ip]? = some insn →
      (∀ bs, insn ≠ .byteSeq bs) →
      VUtf8 inp pos ∧ c.at ip = some (fwd, 0) ∧
        (∀ t ∈ plainSuccs prog ip insn, c.at t = some (fwd, 0)) ∧ lookOK c ip insn = true := by
    intro fwd ip pos insn ha hi hn
    obtain ⟨_, k, hk, hph⟩ := ha
    obtain ⟨d, h1, h2, h3⟩ := checkInsn_plain (checkCert_insn hc hi) hn
    rw [hk] at h1
    cases h1
    exact ⟨(ph_zero_iff h).mp hph, hk, h2, h3⟩
  have mk : ∀ {fwd t p}, t < prog.insns.size → c.at t = some (fwd, 0) → VUtf8 inp p →
      CertA prog c cs fwd t p :=
    fun ht hc' hv => ⟨ht, 0, hc', (ph_zero_iff h).mpr hv⟩
  refine
    { ip_lt := fun ha => ha.1
      v_le := fun hv => hv.1
      adm_v := fun ha hi hn => (plain ha hi hn).1
      ctrl := ?_, elem := ?_, byte := ?_, seq := ?_
      peek := fun hv => peek_utf8 h hv
      backref := ?_, backrefI := ?_, look := ?_, loop1 := ?_
      stepL := fun h1 h2 hlt => stepL_utf8 h h1 h2 hlt
      stepR := fun h1 h2 hlt => stepR_utf8 h h1 h2 hlt }
  · -- ctrl
    intro fwd ip pos insn ha hi t ht
    by_cases hn : ∀ bs, insn ≠ .byteSeq bs
    · obtain ⟨hv, _, hs, _⟩ := plain ha hi hn
      exact mk (ctrlSuccs_lt hw hi t ht) (hs t (by simp [plainSuccs, ht])) hv
    · have : ∃ bs, insn = .byteSeq bs := by
        by_cases hh : ∃ bs, insn = .byteSeq bs
        · exact hh
        · exact absurd (fun bs hb => hh ⟨bs, hb⟩) hn
      obtain ⟨bs, rfl⟩ := this
      simp [ctrlSuccs] at ht
  · -- elem
    intro fwd ip pos insn ha hi he
    have hn : ∀ bs, insn ≠ .byteSeq bs := by intro bs hh; subst hh; simp [isElem] at he
    obtain ⟨hv, _, hs, _⟩ := plain ha hi hn
    obtain ⟨r, hr, hp⟩ := next_utf8 h fwd hv
    have hsucc : ip + 1 < prog.insns.size := by
      apply wf_succ hw hi <;> (intro hh; subst hh; simp [isElem] at he)
    exact ⟨r, hr, fun c' p hcp => ⟨mk hsucc (hs _ (by simp [plainSuccs, he])) (hp c' p hcp).1,
      (hp c' p hcp).2⟩⟩
  · -- byte
    intro fwd ip pos bs ha hi
    have hbi : ∃ insn, prog.insns[ip]? = some insn ∧ isByteInsn insn = true ∧
        (∀ b ∈ bs, b < 128) := by
      rcases hi with hi | hi
      · have := wf_insn hw hi
        simp only [wfInsn, Bool.and_eq_true] at this
        exact ⟨_, hi, rfl, fun b hb => mem_lt_of_all this.2 hb⟩
      · have := wf_insn hw hi
        simp only [wfInsn] at this
        exact ⟨_, hi, rfl, fun b hb => mem_lt_of_all this hb⟩
    obtain ⟨insn, hi', hbyte, hlt⟩ := hbi
    have hn : ∀ bs', insn ≠ .byteSeq bs' := by intro bs' hh; subst hh; simp [isByteInsn] at hbyte
    obtain ⟨hv, _, hs, _⟩ := plain ha hi' hn
    obtain ⟨r, hr, hp⟩ := nextByte_utf8 h fwd hv
    have hsucc : ip + 1 < prog.insns.size := by
      apply wf_succ hw hi' <;> (intro hh; subst hh; simp [isByteInsn] at hbyte)
    exact ⟨r, hr, fun b p hbp hmem =>
      ⟨mk hsucc (hs _ (by simp [plainSuccs, hbyte])) (hp b p hbp (hlt b hmem)).1,
        (hp b p hbp (hlt b hmem)).2⟩⟩
  · -- seq
    intro fwd ip pos bs p ha hi hm
    obtain ⟨_, k, hk, hph⟩ := ha
    obtain ⟨d, k0, h1, h2⟩ := checkInsn_seq (checkCert_insn hc hi)
    rw [hk] at h1
    cases h1
    have hwi := wf_insn hw hi
    simp only [wfInsn, Bool.and_eq_true, decide_eq_true_eq] at hwi
    have hm' := hm
    unfold Input.matchBytes at hm'
    rw [h.bytes] at hm'
    obtain ⟨k', hk', hph'⟩ := matchBytes_phase h.scalar hph hm'
    have hle : pos ≤ inp.bytes.size := by
      have := hph.le_size; rw [h.bytes]; omega
    exact ⟨⟨wf_succ hw hi (by simp) (by simp), k', h2 k' hk', hph'⟩,
      (matchBytes_moved (bytes := inp.bytes) hle hm).2 (by omega)⟩
  · -- backref
    intro fwd ip pos g ic rs re p ha hi h1 h2 hm
    obtain ⟨hv, _, hs, _⟩ := plain ha hi (by intro bs; simp)
    have := backref_utf8 h fwd h1 h2 hv hm
    exact ⟨mk (wf_succ hw hi (by simp) (by simp)) (hs _ (by simp [plainSuccs, ctrlSuccs])) this.1,
      this.2⟩
  · -- backrefI
    intro fwd ip pos g ic rs re ha hi h1 h2 hle
    obtain ⟨hv, _, hs, _⟩ := plain ha hi (by intro bs; simp)
    obtain ⟨r, hr, hp⟩ := backrefIcase_utf8 h fwd h1 h2 hle hv
    exact ⟨r, hr, fun p hp' =>
      ⟨mk (wf_succ hw hi (by simp) (by simp)) (hs _ (by simp [plainSuccs, ctrlSuccs])) (hp p hp').1,
        (hp p hp').2⟩⟩
  · -- look
    intro fwd ip pos neg sg eg k ha
    constructor
    · intro hi
      obtain ⟨hv, _, _, hl⟩ := plain ha hi (by intro bs; simp)
      simp only [lookOK, beq_iff_eq] at hl
      exact mk (wf_succ hw hi (by simp) (by simp)) hl hv
    · intro hi
      obtain ⟨hv, _, _, hl⟩ := plain ha hi (by intro bs; simp)
      simp only [lookOK, beq_iff_eq] at hl
      exact mk (wf_succ hw hi (by simp) (by simp)) hl hv
  · -- loop1
    intro fwd ip pos mn mx g ha hi p
    obtain ⟨hv, h0, hs, _⟩ := plain ha hi (by intro bs; simp)
    have hwi := wf_insn hw hi
    simp only [wfInsn, Bool.and_eq_true, decide_eq_true_eq] at hwi
    have hlt := hwi.1.2
    have h2 : c.at (ip + 2) = some (fwd, 0) := hs _ (by simp [plainSuccs, ctrlSuccs])
    have h1 : c.at (ip + 1) = some (fwd, 0) := hs _ (by simp [plainSuccs, ctrlSuccs])
    refine ⟨⟨?_, fun hv' => mk hlt h2 hv'⟩, fun hv' => ⟨mk (by omega) h1 hv', mk ha.1 h0 hv'⟩⟩
    rintro ⟨_, k, hk, hph⟩
    rw [h2] at hk
    cases hk
    exact (ph_zero_iff h).mp hph

end Regress.VM.Safety
