import Proofs.Lemmas.C08FragMods
/-!
# C08 on a fragment: Annex B escapes (neither `u` nor `v`)

The crate's `consume_character_escape` without `unicode` against the grammar's `charEscapeLegacy`
(Annex B `CharacterEscape[~UnicodeMode]`: control escapes, `\cX`, legacy octal escapes, `\xHH`,
`\uHHHH`, identity escapes — nothing is an error), values included.  Excluded lexically
(`uOkL`): `\u{` (finding F30: the crate reads a code point escape, the grammar `u` and a quantifier)
and a `\uHHHH` lead surrogate directly followed by `\u` (the crate joins a surrogate pair of escapes
into one atom, the grammar reads two atoms: finding F29).
-/
namespace Regress.C08Frag
open Regress Regress.IR Regress.Parse Regress.ESG

/-- `hex4` against `take4` + `from_str_radix`, without any assumption on the characters (a non-scalar
value is not a hex digit). -/
theorem hex4_simG (s : List Nat) :
    hex4 s = match take4 s with
      | none => none
      | some (d, rest) =>
        match hexDigitsRadix16 d with
        | none => none
        | some u => some (u, rest) := by
  rcases s with _ | ⟨a, _ | ⟨b, _ | ⟨c, _ | ⟨d, r⟩⟩⟩⟩
  · rfl
  · rfl
  · rfl
  · rfl
  · by_cases hc : Parse.isChar a = true ∧ Parse.isChar b = true ∧ Parse.isChar c = true ∧ Parse.isChar d = true
    · -- as in `hex4_sim`
      have := hex4_sim [a, b, c, d] (by
        intro y hy
        simp only [List.mem_cons, List.not_mem_nil, or_false] at hy
        rcases hy with rfl | rfl | rfl | rfl
        · exact hc.1
        · exact hc.2.1
        · exact hc.2.2.1
        · exact hc.2.2.2)
      simp only [hex4, take4, hc.1, hc.2.1, hc.2.2.1, hc.2.2.2, Bool.and_self, if_true] at this ⊢
      cases hh : (ESG.isHex a && ESG.isHex b && ESG.isHex c && ESG.isHex d) with
      | true =>
        rw [hh] at this
        simp only [if_true] at this ⊢
        cases hd : hexDigitsRadix16 [a, b, c, d] with
        | none => rw [hd] at this; cases this
        | some u =>
          rw [hd] at this
          simp only [Option.some.injEq, Prod.mk.injEq] at this
          simp only [this.1]
      | false =>
        rw [hh] at this
        simp only [Bool.false_eq_true, if_false] at this ⊢
        cases hd : hexDigitsRadix16 [a, b, c, d] with
        | none => rfl
        | some u => rw [hd] at this; cases this
    · -- some character is not a scalar value, hence not a hex digit
      have hhex : ∀ y, ESG.isHex y = true → Parse.isChar y = true := by
        intro y hy
        simp only [ESG.isHex, ESG.isDigit, Bool.or_eq_true, Bool.and_eq_true, decide_eq_true_eq] at hy
        simp only [Parse.isChar, Bool.or_eq_true, Bool.and_eq_true, decide_eq_true_eq]
        omega
      have h1 : (ESG.isHex a && ESG.isHex b && ESG.isHex c && ESG.isHex d) = false := by
        cases h : (ESG.isHex a && ESG.isHex b && ESG.isHex c && ESG.isHex d) with
        | false => rfl
        | true =>
          simp only [Bool.and_eq_true] at h
          exact absurd ⟨hhex a h.1.1.1, hhex b h.1.1.2, hhex c h.1.2, hhex d h.2⟩ hc
      have h2 : (Parse.isChar a && Parse.isChar b && Parse.isChar c && Parse.isChar d) = false := by
        cases h : (Parse.isChar a && Parse.isChar b && Parse.isChar c && Parse.isChar d) with
        | false => rfl
        | true =>
          simp only [Bool.and_eq_true] at h
          exact absurd ⟨h.1.1.1, h.1.1.2, h.1.2, h.2⟩ hc
      simp only [hex4, take4, h1, h2, Bool.false_eq_true, if_false]

/-- Under `uOkL` the crate's `try_escape_unicode_sequence` is `Hex4Digits`. -/
theorem tEUS_legacy (r : List Nat) (h : uOkL r = true) :
    tryEscapeUnicodeSequence r = match hex4 r with
      | some (v, r') => (some v, r')
      | none => (none, r) := by
  simp only [uOkL, Bool.and_eq_true] at h
  obtain ⟨h1, h2⟩ := h
  have hnb : ∀ rest, r ≠ 0x7B :: rest := by
    intro rest e; subst e; simp at h1
  have e1 : tryEscapeUnicodeSequence r =
      match take4 r with
      | none => (none, r)
      | some (s, rest) =>
        match hexDigitsRadix16 s with
        | none => (none, r)
        | some u =>
          if 0xD800 ≤ u && u ≤ 0xDBFF then
            match rest with
            | 0x5C :: 0x75 :: rest2 =>
              match take4 rest2 with
              | none => (some u, rest)
              | some (s2, rest3) =>
                match hexDigitsRadix16 s2 with
                | none => (some u, rest)
                | some uu =>
                  if 0xDC00 ≤ uu && uu ≤ 0xDFFF then
                    (some (0x10000 + (u - 0xD800) * 0x400 + (uu - 0xDC00)), rest3)
                  else (some u, rest)
            | _ => (some u, rest)
          else (some u, rest) := by
    unfold tryEscapeUnicodeSequence
    split
    · rename_i rest; exact absurd rfl (hnb rest)
    · rfl
  rw [e1]
  have e2 := hex4_simG r
  cases ht : take4 r with
  | none => rw [ht] at e2; rw [e2]
  | some p =>
    obtain ⟨s, rest⟩ := p
    rw [ht] at e2
    simp only at e2 ⊢
    cases hd : hexDigitsRadix16 s with
    | none => rw [hd] at e2; rw [e2]
    | some u =>
      rw [hd] at e2
      simp only at e2 ⊢
      rw [e2] at h2 ⊢
      simp only
      by_cases hl : (0xD800 ≤ u && u ≤ 0xDBFF) = true
      · rw [if_pos hl]
        split
        · rename_i rest2
          simp only [isLead] at h2
          rw [hl] at h2
          cases h2
        · rfl
      · rw [if_neg hl]

theorem legacyOctal_sim (hn : Bool) (x : Nat) (r : List Nat) (hx : 0x30 ≤ x ∧ x ≤ 0x37) :
    characterEscape false hn (x :: r) = .ok (legacyOctal x r) := by
  have n1 : x ≠ 0x66 := by omega
  have n2 : x ≠ 0x6E := by omega
  have n3 : x ≠ 0x72 := by omega
  have n4 : x ≠ 0x74 := by omega
  have n5 : x ≠ 0x76 := by omega
  have n6 : x ≠ 0x63 := by omega
  have n7 : x ≠ 0x78 := by omega
  have n8 : x ≠ 0x75 := by omega
  have ho : isOctalDigit x = true := by simp [isOctalDigit]; omega
  unfold characterEscape
  simp only [beq_iff_eq, n1, n2, n3, n4, n5, n6, n7, n8, if_false, ho, Bool.not_false, Bool.and_true, if_true]
  rcases r with _ | ⟨c1, rest1⟩
  · by_cases h0 : x = 0x30
    · subst h0; simp [legacyOctal]
    · simp [h0, legacyOctal]
  · by_cases hd1 : 0x30 ≤ c1 ∧ c1 ≤ 0x39
    · -- a digit follows
      have hdig : isAsciiDigit c1 = true := by simp [isAsciiDigit]; omega
      simp only [hdig, Bool.not_true, Bool.and_false, Bool.false_eq_true, if_false]
      by_cases h89 : c1 = 0x38 ∨ c1 = 0x39
      · have hno : ESG.isOctal c1 = false := by
          simp only [ESG.isOctal, Bool.and_eq_false_iff, decide_eq_false_iff_not]; omega
        have hno' : isOctalDigit c1 = false := by
          simp only [isOctalDigit, Bool.and_eq_false_iff, decide_eq_false_iff_not]; omega
        simp only [legacyOctal, hno, Bool.false_eq_true, if_false]
        by_cases h0 : x = 0x30
        · subst h0
          rcases h89 with rfl | rfl <;> simp
        · have : ¬ (x = 0x30 ∧ (c1 = 0x38 ∨ c1 = 0x39)) := fun h => h0 h.1
          simp [h0, hno']
      · have ho1 : ESG.isOctal c1 = true := by
          simp only [ESG.isOctal, Bool.and_eq_true, decide_eq_true_eq]; omega
        have ho1' : isOctalDigit c1 = true := by
          simp only [isOctalDigit, Bool.and_eq_true, decide_eq_true_eq]; omega
        have hn89 : ¬ (x = 0x30 ∧ (c1 = 0x38 ∨ c1 = 0x39)) := fun h => h89 h.2
        simp only [legacyOctal, ho1, if_true, ho1', Bool.not_true, Bool.false_eq_true, if_false,
          Bool.and_eq_true, beq_iff_eq, Bool.or_eq_true, hn89, decide_eq_true_eq]
        by_cases h47 : 0x34 ≤ x ∧ x ≤ 0x37
        · have : ¬ x ≤ 0x33 := by omega
          simp only [h47, and_self, if_true, this, if_false]
          congr 2; omega
        · have hle : x ≤ 0x33 := by omega
          have h03 : 0x30 ≤ x ∧ x ≤ 0x33 := by omega
          simp only [h47, if_false, hle, if_true, h03, and_self]
          rcases rest1 with _ | ⟨c2, rest2⟩
          · simp only; congr 2; omega
          · simp only
            by_cases ho2 : 0x30 ≤ c2 ∧ c2 ≤ 0x37
            · have a1 : ESG.isOctal c2 = true := by
                simp only [ESG.isOctal, Bool.and_eq_true, decide_eq_true_eq]; omega
              have a2 : isOctalDigit c2 = true := by
                simp only [isOctalDigit, Bool.and_eq_true, decide_eq_true_eq]; omega
              simp only [a1, a2, if_true]; congr 2; omega
            · have a1 : ESG.isOctal c2 = false := by
                simp only [ESG.isOctal, Bool.and_eq_false_iff, decide_eq_false_iff_not]; omega
              have a2 : isOctalDigit c2 = false := by
                simp only [isOctalDigit, Bool.and_eq_false_iff, decide_eq_false_iff_not]; omega
              simp only [a1, a2, Bool.false_eq_true, if_false]; congr 2; omega
    · -- no digit follows
      have hdig : isAsciiDigit c1 = false := by
        simp only [isAsciiDigit, Bool.and_eq_false_iff, decide_eq_false_iff_not]; omega
      have hno : ESG.isOctal c1 = false := by
        simp only [ESG.isOctal, Bool.and_eq_false_iff, decide_eq_false_iff_not]; omega
      have hno' : isOctalDigit c1 = false := by
        simp only [isOctalDigit, Bool.and_eq_false_iff, decide_eq_false_iff_not]; omega
      simp only [hdig, Bool.not_false, Bool.and_true, legacyOctal, hno, Bool.false_eq_true, if_false]
      by_cases h0 : x = 0x30
      · subst h0; simp
      · have hn89 : ¬ (x = 0x30 ∧ (c1 = 0x38 ∨ c1 = 0x39)) := fun h => h0 h.1
        simp [h0, hno']

/-- **Annex B character escapes** other than `\\c`: the two readers agree, values included.  Neither
can fail. -/
theorem charEscL_sim (n hn ic : Bool) (x : Nat) (r : List Nat) (hx : x ≠ 0x63) (hu : x = 0x75 → uOkL r = true)
    (hk : x = 0x6B → n = false ∧ hn = false) :
    ∃ v r', charEscapeLegacy n ic x r = some (v, r') ∧ characterEscape false hn (x :: r) = .ok (v, r') := by
  by_cases hoct : 0x30 ≤ x ∧ x ≤ 0x37
  · refine ⟨(legacyOctal x r).1, (legacyOctal x r).2, ?_, legacyOctal_sim hn x r hoct⟩
    have ho : ESG.isOctal x = true := by simp [ESG.isOctal]; omega
    have hc : controlEscape x = none := by
      unfold controlEscape
      have : x ≠ 0x66 ∧ x ≠ 0x6E ∧ x ≠ 0x72 ∧ x ≠ 0x74 ∧ x ≠ 0x76 := by omega
      simp [this]
    unfold charEscapeLegacy
    simp [hc, hx, ho]
  have hno : ESG.isOctal x = false := by
    simp only [ESG.isOctal, Bool.and_eq_false_iff, decide_eq_false_iff_not]; omega
  have hno' : isOctalDigit x = false := by
    simp only [isOctalDigit, Bool.and_eq_false_iff, decide_eq_false_iff_not]; omega
  have h30 : x ≠ 0x30 := by omega
  unfold charEscapeLegacy characterEscape controlEscape
  by_cases h1 : x = 0x66
  · subst h1; exact ⟨0xC, r, by simp, by simp⟩
  by_cases h2 : x = 0x6E
  · subst h2; exact ⟨0xA, r, by simp, by simp⟩
  by_cases h3 : x = 0x72
  · subst h3; exact ⟨0xD, r, by simp, by simp⟩
  by_cases h4 : x = 0x74
  · subst h4; exact ⟨0x9, r, by simp, by simp⟩
  by_cases h5 : x = 0x76
  · subst h5; exact ⟨0xB, r, by simp, by simp⟩
  simp only [h1, h2, h3, h4, h5, hx, h30, beq_iff_eq, if_false, hno, hno', Bool.false_eq_true, false_and,
    Bool.false_and]
  by_cases h6 : x = 0x78
  · -- `\\xHH`
    subst h6
    simp only [if_true]
    rcases r with _ | ⟨a, _ | ⟨b, r'⟩⟩
    · exact ⟨_, _, rfl, by simp⟩
    · refine ⟨_, _, rfl, ?_⟩
      simp only [hexDigit?_eq]
      cases ESG.isHex a <;> simp
    · simp only [hexDigit?_eq]
      cases ha : ESG.isHex a <;> cases hb : ESG.isHex b <;> simp
  by_cases h7 : x = 0x75
  · -- `\\uHHHH`
    subst h7
    simp only [Nat.reduceEqDiff, if_false, if_true, tEUS_legacy r (hu rfl)]
    cases hex4 r with
    | none => exact ⟨_, _, rfl, by simp⟩
    | some p => obtain ⟨v, r'⟩ := p; exact ⟨_, _, rfl, by simp⟩
  -- identity escapes
  simp only [h6, h7, if_false]
  have hkn : (x == 0x6B && n) = false := by
    by_cases hk' : x = 0x6B
    · rw [(hk hk').1]; simp
    · simp [hk']
  have hkh : (x == 0x6B && hn) = false := by
    by_cases hk' : x = 0x6B
    · rw [(hk hk').2]; simp
    · simp [hk']
  refine ⟨x, r, by simp [hkn], ?_⟩
  have e0 : (x == 0x30) = false := by simp [h30]
  simp only [e0, Bool.false_and, Bool.false_eq_true, if_false, Bool.not_false, Bool.and_true, hkh, if_true]
  split <;> rfl

/-! ## What a legacy escape consumes -/

theorem isOctal_plain {c : Nat} (h : ESG.isOctal c = true) : Plain c := by
  simp only [ESG.isOctal, Bool.and_eq_true, decide_eq_true_eq] at h
  refine ⟨?_, ?_, ?_, ?_, ?_, ?_⟩ <;> omega

theorem legacyOctal_neutral (F : Feat) (m : Nat) (d : Nat) (r : List Nat) :
    ∃ t, r = t ++ (legacyOctal d r).2 ∧ NeutralM F m t := by
  unfold legacyOctal
  rcases r with _ | ⟨d2, r2⟩
  · exact ⟨[], rfl, neutralM_nil F m⟩
  · simp only
    cases h2 : ESG.isOctal d2 with
    | false => exact ⟨[], rfl, neutralM_nil F m⟩
    | true =>
      simp only [if_true]
      have p2 := isOctal_plain h2
      by_cases hd : d ≤ 0x33
      · simp only [hd, if_true]
        rcases r2 with _ | ⟨d3, r3⟩
        · exact ⟨[d2], rfl, neutralM_plain F m p2⟩
        · simp only
          cases h3 : ESG.isOctal d3 with
          | false => exact ⟨[d2], rfl, neutralM_plain F m p2⟩
          | true =>
            refine ⟨[d2, d3], rfl, neutralM_plains F m ?_⟩
            intro y hy
            simp only [List.mem_cons, List.not_mem_nil, or_false] at hy
            rcases hy with rfl | rfl
            · exact p2
            · exact isOctal_plain h3
      · simp only [hd, if_false]
        exact ⟨[d2], rfl, neutralM_plain F m p2⟩

/-- What an Annex B character escape consumes after `\\x` (not `\\c`). -/
theorem charEscapeLegacy_neutral (F : Feat) (m : Nat) {n ic : Bool} {x : Nat} {r r' : List Nat} {v : Nat}
    (hx : x ≠ 0x63) (h : charEscapeLegacy n ic x r = some (v, r')) : ∃ t, r = t ++ r' ∧ NeutralM F m t := by
  unfold charEscapeLegacy at h
  split at h
  · cases h; exact ⟨[], rfl, neutralM_nil F m⟩
  · have e1 : (x == 0x63) = false := by simp [hx]
    simp only [e1, Bool.false_eq_true, if_false] at h
    split at h
    · simp only [Option.some.injEq] at h
      have := legacyOctal_neutral F m x r
      rw [h] at this
      exact this
    · split at h
      · split at h
        · rename_i a b r1
          split at h
          · rename_i hh
            simp only [Bool.and_eq_true] at hh
            cases h
            refine ⟨[a, b], rfl, neutralM_plains F m ?_⟩
            intro y hy
            simp only [List.mem_cons, List.not_mem_nil, or_false] at hy
            rcases hy with rfl | rfl
            · exact isHex_plain hh.1
            · exact isHex_plain hh.2
          · cases h; exact ⟨[], rfl, neutralM_nil F m⟩
        · cases h; exact ⟨[], rfl, neutralM_nil F m⟩
      · split at h
        · split at h
          · rename_i v1 r1 h4
            cases h
            exact hex4_neutral F m h4
          · cases h; exact ⟨[], rfl, neutralM_nil F m⟩
        · split at h
          · cases h
          · cases h; exact ⟨[], rfl, neutralM_nil F m⟩

/-! ## Escapes as atoms, Annex B mode -/

theorem takeDigits_single {x : Nat} {r : List Nat} (hdx : ESG.isDigit x = true)
    (hnd : ∀ d r2, r = d :: r2 → ESG.isDigit d = false) : takeDigits (x :: r) 0 0 = (x - 0x30, 1, r) := by
  rw [takeDigits_eq]
  have h1 : (x :: r).takeWhile ESG.isDigit = [x] := by
    rw [List.takeWhile_cons_of_pos hdx]
    rcases r with _ | ⟨d, r2⟩
    · rfl
    · rw [List.takeWhile_cons_of_neg (by rw [hnd d r2 rfl]; simp)]
  have h2 : (x :: r).dropWhile ESG.isDigit = r := by
    rw [List.dropWhile_cons_of_pos hdx]
    rcases r with _ | ⟨d, r2⟩
    · rfl
    · rw [List.dropWhile_cons_of_neg (by rw [hnd d r2 rfl]; simp)]
  rw [h1, h2]
  simp [dval]

theorem legacyOctal_single {x : Nat} {r : List Nat} (hnd : ∀ d r2, r = d :: r2 → ESG.isDigit d = false) :
    (legacyOctal x r).2 = r := by
  unfold legacyOctal
  rcases r with _ | ⟨d, r2⟩
  · rfl
  · have h := hnd d r2 rfl
    have : ESG.isOctal d = false := by
      simp only [ESG.isDigit, Bool.and_eq_false_iff, decide_eq_false_iff_not] at h
      simp only [ESG.isOctal, Bool.and_eq_false_iff, decide_eq_false_iff_not]; omega
    simp [this]

theorem atomEscape_L (c : Cfg) (hcu : c.u = false) (x : Nat) (r : List Nat) (est : ESG.St)
    (hk : x = 0x6B → c.n = false) :
    atomEscape c (x :: r) est =
      if ESG.isClassEscLetter x then .ok (r, est)
      else match charEscapeLegacy c.n false x r with
        | some (_, r') => .ok (r', est)
        | none => .bad := by
  unfold atomEscape
  have : (x == 0x6B && c.n) = false := by
    by_cases hk' : x = 0x6B
    · rw [hk hk']; simp
    · simp [hk']
  simp only [hcu, this, Bool.false_eq_true, if_false]
  rfl

/-- An escape that is not `\\b` / `\\B`, Annex B mode without named groups: the crate's backslash arm
against the grammar's `AtomEscape`.  Neither fails. -/
theorem backslash_L (F : Feat) (c : Cfg) (hcu : c.u = false) (st : PState)
    (hu : st.flags.unicode = false) (hv : st.flags.unicodeSets = false)
    (acc : List Node) {x : Nat} {r : List Nat} (hin : st.input = 0x5C :: x :: r)
    (hwb : x ≠ 0x62 ∧ x ≠ 0x42) (hok : legEscOk x r = true) (hk : x = 0x6B → c.n = false ∧ st.named = [])
    (est : ESG.St) :
    ∃ r' nd p, atomEscape c (x :: r) est = .ok (r', est) ∧
      atomBackslashA st acc = .ok ⟨acc ++ [nd], { st with input := r' }, acc.length, true⟩ ∧
      0x5C :: x :: r = p ++ r' ∧ Neutral F p := by
  rw [atomEscape_L c hcu x r est (fun h => (hk h).1)]
  have e1 : (x == 0x62) = false := by simp [hwb.1]
  have e2 : (x == 0x42) = false := by simp [hwb.2]
  by_cases hc : x = 0x63
  · -- `\\cX`
    subst hc
    simp only [legEscOk, beq_self_eq_true, if_true] at hok
    rcases r with _ | ⟨l, r2⟩
    · cases hok
    · simp only at hok
      have hal : Parse.isAsciiAlpha l = true := by rw [isAsciiAlpha_eq]; exact hok
      have hch : Parse.isChar l = true := by
        simp only [ESG.isAsciiLetter, Bool.or_eq_true, Bool.and_eq_true, decide_eq_true_eq] at hok
        simp only [Parse.isChar, Bool.or_eq_true, Bool.and_eq_true, decide_eq_true_eq]; omega
      obtain ⟨nd, hnd⟩ := charNode_ok st.flags (l % 32)
      refine ⟨r2, nd, [0x5C, 0x63, l], ?_, ?_, rfl, ?_⟩
      · simp [ESG.isClassEscLetter, charEscapeLegacy, controlEscape, hok]
      · unfold atomBackslashA
        rw [consume_eq hin]
        simp only [Nat.reduceBEq, Bool.false_eq_true, if_false, beq_self_eq_true, hu, Bool.not_false, Bool.and_self,
          if_true, hch, hal, hnd]
      · exact neutral_append (p := [0x5C, 0x63]) (neutral_esc F 0x63) (neutral_plain F (isAsciiLetter_plain hok))
  have hab : atomBackslashA st acc =
      match consumeAtomEscape { st with input := x :: r } with
      | .error e => .error e
      | .ok (nd, st') => .ok ⟨acc ++ [nd], st', acc.length, true⟩ := by
    unfold atomBackslashA
    rw [consume_eq hin]
    have e3 : (x == 0x63) = false := by simp [hc]
    simp only [e1, e2, e3, Bool.false_and, Bool.false_eq_true, if_false]
    rfl
  rw [hab]
  by_cases hcl : ESG.isClassEscLetter x = true
  · -- class escapes
    rw [if_pos hcl]
    simp only [ESG.isClassEscLetter, Bool.or_eq_true, beq_iff_eq] at hcl
    refine ⟨r, ?_⟩
    have : ∃ nd, consumeAtomEscape { st with input := x :: r } = .ok (nd, { st with input := r }) := by
      unfold consumeAtomEscape
      rcases hcl with ((((h | h) | h) | h) | h) | h <;> subst h <;> exact ⟨_, rfl⟩
    obtain ⟨nd, hnd⟩ := this
    exact ⟨nd, [0x5C, x], rfl, by rw [hnd], rfl, neutral_esc F x⟩
  have hcl' : ESG.isClassEscLetter x = false := by simpa using hcl
  rw [if_neg hcl]
  have hu' : x = 0x75 → uOkL r = true := by
    intro hxu
    subst hxu
    simpa [legEscOk] using hok
  obtain ⟨v, r', hes, hce⟩ := charEscL_sim c.n (!st.named.isEmpty) false x r hc hu'
    (fun h => ⟨(hk h).1, by rw [(hk h).2]; rfl⟩)
  rw [hes]
  obtain ⟨t, ht, hnt⟩ := charEscapeLegacy_neutral F 0 hc hes
  obtain ⟨nd, hnd⟩ := charNode_ok st.flags v
  simp only [ESG.isClassEscLetter, Bool.or_eq_false_iff, beq_eq_false_iff_ne] at hcl'
  obtain ⟨⟨⟨⟨⟨c1, c2⟩, c3⟩, c4⟩, c5⟩, c6⟩ := hcl'
  have d1 : (x == 0x64 || x == 0x44) = false := by simp [c1, c2]
  have d2 : (x == 0x73 || x == 0x53) = false := by simp [c3, c4]
  have d3 : (x == 0x77 || x == 0x57) = false := by simp [c5, c6]
  have hneu : Neutral F ([0x5C, x] ++ t) := neutral_append (neutral_esc F x) hnt
  have hsplit : 0x5C :: x :: r = ([0x5C, x] ++ t) ++ r' := by rw [ht]; simp
  by_cases hdg : 0x31 ≤ x ∧ x ≤ 0x39
  · -- a single decimal digit: a back-reference if there are enough groups, else octal / identity
    have hnd1 : ∀ d r2, r = d :: r2 → ESG.isDigit d = false := by
      intro d r2 hr
      have : (decide (0x31 ≤ x) && decide (x ≤ 0x39)) = true := by simp; omega
      have hok' := hok
      rw [hr] at hok'
      simpa [legEscOk, hc, this] using hok'
    have hdx : ESG.isDigit x = true := by simp [ESG.isDigit]; omega
    have htd := takeDigits_single hdx hnd1
    -- the escape consumes just the digit on the grammar's side as well
    have hr' : r' = r := by
      have := hes
      unfold charEscapeLegacy at this
      have hce0 : controlEscape x = none := by
        unfold controlEscape
        have : x ≠ 0x66 ∧ x ≠ 0x6E ∧ x ≠ 0x72 ∧ x ≠ 0x74 ∧ x ≠ 0x76 := by omega
        simp [this]
      have e3 : (x == 0x63) = false := by simp [hc]
      have e4 : (x == 0x78) = false := by simp; omega
      have e5 : (x == 0x75) = false := by simp; omega
      have e6 : (x == 0x6B) = false := by simp; omega
      simp only [hce0, e3, e4, e5, e6, Bool.false_eq_true, if_false, Bool.false_and] at this
      by_cases ho : ESG.isOctal x = true
      · simp only [ho, if_true, Option.some.injEq] at this
        have h2 := congrArg Prod.snd this
        simp only at h2
        rw [← h2]
        exact legacyOctal_single hnd1
      · have ho' : ESG.isOctal x = false := by simpa using ho
        simp only [ho', Bool.false_eq_true, if_false, Option.some.injEq, Prod.mk.injEq] at this
        exact this.2.symm
    have hrs := hr'.symm
    subst hrs
    have d4 : (decide (0x31 ≤ x) && decide (x ≤ 0x39)) = true := by simp; omega
    have hkd : (takeDigits (x :: r) 0 0).2.1 > 0 := by rw [htd]; exact Nat.one_pos
    have hcae : consumeAtomEscape { st with input := x :: r } =
        if min (x - 0x30) USIZE_MAX ≤ st.groupCountMax then
          .ok (.backRef (min (x - 0x30) USIZE_MAX) st.flags.icase, { st with input := r })
        else .ok (nd, { st with input := r }) := by
      unfold consumeAtomEscape
      have d0 : (x == 0x70 || x == 0x50) = false := by simp; omega
      simp only [d1, d2, d3, d0, d4, hu, Bool.false_and, Bool.and_false, Bool.false_eq_true, if_false,
        if_true, decimalLiteral_eq, hkd, htd, hce, hnd, gt_iff_lt, Nat.zero_lt_one]
    rw [hcae]
    by_cases hle : min (x - 0x30) USIZE_MAX ≤ st.groupCountMax
    · rw [if_pos hle]; exact ⟨r, _, _, rfl, rfl, hsplit, hneu⟩
    · rw [if_neg hle]; exact ⟨r, _, _, rfl, rfl, hsplit, hneu⟩
  · -- everything else: `consume_character_escape`, then `char_node`
    have hcae : consumeAtomEscape { st with input := x :: r } = .ok (nd, { st with input := r' }) := by
      unfold consumeAtomEscape
      have d4 : (decide (0x31 ≤ x) && decide (x ≤ 0x39)) = false := by
        simp only [Bool.and_eq_false_iff, decide_eq_false_iff_not]; omega
      by_cases hk' : x = 0x6B
      · subst hk'
        -- `\\k` without named groups: the identity escape
        obtain ⟨hcn, hnm⟩ := hk rfl
        have : v = 0x6B ∧ r' = r := by
          have := hes
          simp [charEscapeLegacy, controlEscape, ESG.isOctal, hcn] at this
          exact ⟨this.1.symm, this.2.symm⟩
        obtain ⟨rfl, rfl⟩ := this
        simp [hu, hv, hnm, hnd]
      · have d5 : (x == 0x6B) = false := by simp [hk']
        simp only [d1, d2, d3, d4, d5, hu, hv, Bool.false_and, Bool.and_false, Bool.or_self, Bool.false_eq_true,
          if_false, hce, hnd]
    rw [hcae]
    exact ⟨r', nd, _, rfl, rfl, hsplit, hneu⟩

/-! ## Class atoms, Annex B mode -/

/-- The class-atom simulation of Annex B mode.  With named groups (`hn`, or the grammar's `[+N]`
parse) `\\k` is excluded from the classes of the fragment. -/
theorem atomSim_L (F : Feat) (c : Cfg) (hcu : c.u = false) (fl : Flags) (hn : Bool)
    (hu : fl.unicode = false) (hlk : F.lk = true) (hvk : F.vk = false)
    (hkn : F.nm = false → c.n = false ∧ hn = false) : AtomSimOn F c fl hn (fun _ => True) := by
  intro x r hx _ hfr
  by_cases hbs : x = 0x5C
  rotate_left
  · rw [classAtom_plain c r hbs, bracketClassAtom_plain fl hn r hbs hx]
    exact ⟨⟨_, rfl, rfl⟩, [x], rfl, neutralM_in F 0 hbs hx (.inl hvk)⟩
  subst hbs
  rcases r with _ | ⟨y, r'⟩
  · have : classAtom c [0x5C] = .bad := by unfold classAtom; rfl
    rw [this]
    unfold bracketClassAtom
    exact isSyn_synErr _
  rw [fragGo_esc_in, Bool.and_eq_true] at hfr
  simp only [inClsOk, hlk, Bool.not_true, Bool.false_or, Bool.and_eq_true, Bool.or_eq_true, bne_iff_ne, ne_eq,
    Bool.true_and, Bool.not_eq_true'] at hfr
  obtain ⟨⟨⟨⟨_, hU⟩, hC⟩, hK⟩, _⟩ := hfr
  have hk : y = 0x6B → c.n = false ∧ hn = false := by
    intro hy
    rcases hK with h | h
    · exact hkn h
    · exact absurd hy h
  by_cases hb : y = 0x62
  · subst hb
    have : classAtom c (0x5C :: 0x62 :: r') = .ok (some 8, r') := by unfold classAtom; rfl
    rw [this]
    exact ⟨⟨_, by unfold bracketClassAtom; rfl, rfl⟩, [0x5C, 0x62], rfl, neutralM_esc F 1 0x62⟩
  by_cases hcl : ESG.isClassEscLetter y = true
  · have : classAtom c (0x5C :: y :: r') = .ok (none, r') := by
      unfold classAtom; simp [hb, hcl]
    rw [this]
    refine ⟨?_, [0x5C, y], rfl, neutralM_esc F 1 y⟩
    simp only [ESG.isClassEscLetter, Bool.or_eq_true, beq_iff_eq] at hcl
    unfold bracketClassAtom
    rcases hcl with ((((h | h) | h) | h) | h) | h <;> subst h <;> exact ⟨_, rfl, fun v h => by cases h⟩
  have hcl' : ESG.isClassEscLetter y = false := by simpa using hcl
  have e1 : classAtom c (0x5C :: y :: r') =
      match charEscapeLegacy c.n true y r' with
      | some (v, r'') => .ok (some v, r'')
      | none => .bad := by
    unfold classAtom
    simp [hb, hcl', hcu]
    rfl
  rw [e1]
  have hcl2 := hcl'
  simp only [ESG.isClassEscLetter, Bool.or_eq_false_iff, beq_eq_false_iff_ne] at hcl2
  obtain ⟨⟨⟨⟨⟨c1, c2⟩, c3⟩, c4⟩, c5⟩, c6⟩ := hcl2
  by_cases hc : y = 0x63
  · -- `\\c` and a ClassControlLetter
    subst hc
    rcases r' with _ | ⟨l, r2⟩
    · rcases hC with h | h
      · exact absurd rfl h
      · cases h
    · have hl : (ESG.isAsciiLetter l || ESG.isDigit l || l == 0x5F) = true := by
        rcases hC with h | h
        · exact absurd rfl h
        · exact h
      have e2 : charEscapeLegacy c.n true 0x63 (l :: r2) = some (l % 32, r2) := by
        simp only [charEscapeLegacy, controlEscape, Nat.reduceBEq, Bool.false_eq_true, if_false, beq_self_eq_true,
          if_true, Bool.true_and]
        rw [← Bool.or_assoc, hl]; rfl
      rw [e2]
      have e3 : bracketClassAtom fl hn (0x5C :: 0x63 :: l :: r2) = .ok (some (.codePoint (l % 32)), r2) := by
        unfold bracketClassAtom
        simp only [Nat.reduceBEq, Bool.false_eq_true, if_false, beq_self_eq_true, hu, Bool.not_false, Bool.and_self,
          if_true, Bool.and_false, Bool.false_and]
        by_cases hd : (isAsciiDigit l || l == 0x5F) = true
        · simp only [hd, if_true]
        · have hal : Parse.isAsciiAlpha l = true := by
            rw [isAsciiAlpha_eq]
            have : (isAsciiDigit l || l == 0x5F) = false := by simpa using hd
            have e : isAsciiDigit l = ESG.isDigit l := rfl
            rw [e] at this
            cases h1 : ESG.isAsciiLetter l with
            | true => rfl
            | false =>
              rw [h1, Bool.false_or] at hl
              rw [hl] at this; cases this
          simp only [hd, Bool.false_eq_true, if_false, hal, if_true]
      refine ⟨⟨_, e3, rfl⟩, [0x5C, 0x63, l], rfl, ?_⟩
      refine neutralM_append (p := [0x5C, 0x63]) (neutralM_esc F 1 0x63) (neutralM_plain F 1 ?_)
      simp only [ESG.isAsciiLetter, ESG.isDigit, Bool.or_eq_true, Bool.and_eq_true, decide_eq_true_eq,
        beq_iff_eq] at hl
      refine ⟨?_, ?_, ?_, ?_, ?_, ?_⟩ <;> omega
  -- everything else: `consume_character_escape`
  have hU' : y = 0x75 → uOkL r' = true := by
    intro hy
    rcases hU with h | h
    · exact absurd hy h
    · exact h
  obtain ⟨v, r'', hes, hce⟩ := charEscL_sim c.n hn true y r' hc hU' hk
  rw [hes]
  obtain ⟨t, ht, hnt⟩ := charEscapeLegacy_neutral F 1 hc hes
  have e3 : bracketClassAtom fl hn (0x5C :: y :: r') = .ok (some (.codePoint v), r'') := by
    unfold bracketClassAtom
    have d0 : (y == 0x63) = false := by simp [hc]
    have d1 : (y == 0x62) = false := by simp [hb]
    simp [d0, d1, hu, c1, c2, c3, c4, c5, c6, hce]
  exact ⟨⟨_, e3, rfl⟩, [0x5C, y] ++ t, by rw [ht]; simp, neutralM_append (neutralM_esc F 1 y) hnt⟩

end Regress.C08Frag
