import RegressModel.Text.Utf8
/-!
# Lemmas about the UTF-8 primitives model (`RegressModel/Text/Utf8.lean`)
-/
namespace Regress.Utf8

/-! ## Encoding of one scalar -/

theorem encode_length (c : Nat) :
    (encode c).length =
      if c < 0x80 then 1 else if c < 0x800 then 2 else if c < 0x10000 then 3 else 4 := by
  unfold encode; split
  · rfl
  · split
    · rfl
    · split <;> rfl

theorem encode_length_pos (c : Nat) : 0 < (encode c).length := by
  rw [encode_length]; split <;> (try split) <;> (try split) <;> omega

theorem encode_length_le (c : Nat) : (encode c).length ≤ 4 := by
  rw [encode_length]; split <;> (try split) <;> (try split) <;> omega

theorem encode_ne_nil (c : Nat) : encode c ≠ [] := by
  intro h; have := encode_length_pos c; rw [h] at this; simp at this

theorem isScalar_le {c : Nat} (h : isScalar c = true) : c ≤ 0x10FFFF := by
  simp [isScalar] at h; omega

theorem encode_bytes_lt_256 {c : Nat} (h : isScalar c = true) : ∀ b ∈ encode c, b < 256 := by
  have hc := isScalar_le h
  intro b hb
  unfold encode at hb
  split at hb
  · simp at hb; omega
  · split at hb
    · simp at hb; omega
    · split at hb
      · simp at hb; omega
      · simp at hb; omega

theorem firstByte_eq_head {c : Nat} (h : c ≤ 0x10FFFF) : (encode c).head? = some (firstByte c) := by
  unfold encode firstByte
  split
  · rfl
  · split
    · simp; omega
    · split
      · simp; omega
      · simp; omega

theorem isSeqStart_firstByte (c : Nat) : isSeqStart (firstByte c) = true := by
  unfold firstByte isSeqStart
  split
  · simp; omega
  · split
    · simp
    · split <;> simp <;> omega

/-- All bytes of `encode c` after the first are continuation bytes. -/
theorem isCont_tail (c : Nat) : ∀ b ∈ (encode c).tail, isCont b = true := by
  intro b hb
  unfold encode at hb
  unfold isCont
  split at hb
  · simp at hb
  · split at hb
    · simp at hb; subst hb; simp; omega
    · split at hb
      · simp at hb; rcases hb with hb | hb <;> subst hb <;> simp <;> omega
      · simp at hb; rcases hb with hb | hb | hb <;> subst hb <;> simp <;> omega

/-- A continuation byte is never a sequence start. -/
theorem isSeqStart_of_isCont {b : Nat} (h : isCont b = true) : isSeqStart b = false := by
  simp [isCont] at h; simp [isSeqStart]; omega

theorem seqLen_firstByte (c : Nat) : seqLen (firstByte c) = (encode c).length := by
  rw [encode_length]
  unfold firstByte seqLen
  split
  · simp [*]
  · split
    · have : ¬ ((c / 64) % 32 + 0xC0 < 128) := by omega
      simp [this]; (repeat' split) <;> omega
    · split
      · have : ¬ ((c / 4096) % 16 + 0xE0 < 128) := by omega
        simp [this]; (repeat' split) <;> omega
      · have : ¬ ((c / 262144) % 8 + 0xF0 < 128) := by omega
        simp [this]; (repeat' split) <;> omega

/-! ## Decoding one encoded scalar found in an arbitrary byte array -/

/-- The list `l` sits in `bytes` at offset `p`. -/
def HasAt (bytes : Array Nat) (p : Nat) (l : List Nat) : Prop :=
  ∀ i, i < l.length → bytes[p + i]? = l[i]?

theorem HasAt.lt_size {bytes : Array Nat} {p : Nat} {l : List Nat} (h : HasAt bytes p l)
    (hl : 0 < l.length) : p < bytes.size := by
  have := h 0 hl
  rw [List.getElem?_eq_getElem hl] at this
  by_cases hp : p < bytes.size
  · exact hp
  · rw [Array.getElem?_eq_none (by omega)] at this; cases this

theorem HasAt.add_le_size {bytes : Array Nat} {p : Nat} {l : List Nat} (h : HasAt bytes p l) :
    p + l.length ≤ bytes.size ∨ l = [] := by
  cases l with
  | nil => right; rfl
  | cons a t =>
    left
    have := h t.length (by simp)
    rw [List.getElem?_eq_getElem (by simp)] at this
    by_cases hp : p + t.length < bytes.size
    · simp; omega
    · rw [Array.getElem?_eq_none (by omega)] at this; cases this

theorem nextRight_of_hasAt {bytes : Array Nat} {p c : Nat} (hc : isScalar c = true)
    (h : HasAt bytes p (encode c)) :
    nextRight bytes p = .ok (some (c, p + (encode c).length)) := by
  have hle := isScalar_le hc
  have hlt := h.lt_size (encode_length_pos c)
  have hne : (p == bytes.size) = false := by simp; omega
  have hlen := encode_length c
  unfold encode at h
  unfold nextRight
  rw [hne]
  by_cases h1 : c < 0x80
  · simp only [h1, if_true] at h hlen
    have h0 := h 0 (by simp)
    simp at h0
    simp [h0, h1, hlen]
  · by_cases h2 : c < 0x800
    · simp only [h1, h2, if_true, if_false] at h hlen
      have h0 := h 0 (by simp)
      have h1' := h 1 (by simp)
      simp at h0 h1'
      have hb : ¬ (192 + c / 64 < 128) := by omega
      have hs : seqLen (192 + c / 64) = 2 := by
        unfold seqLen; simp [hb]; (repeat' split) <;> omega
      have hw : w2 (192 + c / 64) (128 + c % 64) = c := by unfold w2; omega
      simp [h0, h1', hb, hs, hw, hc, hlen]
    · by_cases h3 : c < 0x10000
      · simp only [h1, h2, h3, if_true, if_false] at h hlen
        have h0 := h 0 (by simp)
        have h1' := h 1 (by simp)
        have h2' := h 2 (by simp)
        simp at h0 h1' h2'
        have hb : ¬ (224 + c / 4096 < 128) := by omega
        have hs : seqLen (224 + c / 4096) = 3 := by
          unfold seqLen; simp [hb]; (repeat' split) <;> omega
        have hw : w3 (224 + c / 4096) (128 + c / 64 % 64) (128 + c % 64) = c := by
          unfold w3; omega
        simp [h0, h1', h2', hb, hs, hw, hc, hlen]
      · simp only [h1, h2, h3, if_false] at h hlen
        have h0 := h 0 (by simp)
        have h1' := h 1 (by simp)
        have h2' := h 2 (by simp)
        have h3' := h 3 (by simp)
        simp at h0 h1' h2' h3'
        have hb : ¬ (240 + c / 262144 < 128) := by omega
        have hs : seqLen (240 + c / 262144) = 4 := by
          unfold seqLen; simp [hb]; (repeat' split) <;> omega
        have hw : w4 (240 + c / 262144) (128 + c / 4096 % 64) (128 + c / 64 % 64) (128 + c % 64) = c := by
          unfold w4; omega
        simp [h0, h1', h2', h3', hb, hs, hw, hc, hlen]

theorem HasAt.head {bytes : Array Nat} {p c : Nat} (hc : c ≤ 0x10FFFF)
    (h : HasAt bytes p (encode c)) : bytes[p]? = some (firstByte c) := by
  have := h 0 (encode_length_pos c)
  rw [← firstByte_eq_head hc, List.head?_eq_getElem?]; simpa using this

theorem nextRightPos_of_hasAt {bytes : Array Nat} {p c : Nat} (hc : c ≤ 0x10FFFF)
    (h : HasAt bytes p (encode c)) :
    nextRightPos bytes p = .ok (some (p + (encode c).length)) := by
  have hlt := h.lt_size (encode_length_pos c)
  have hne : (p == bytes.size) = false := by simp; omega
  have h0 := h.head hc
  unfold nextRightPos
  rw [hne, h0]
  simp only [Bool.false_eq_true, if_false]
  split
  · rename_i hb
    have : seqLen (firstByte c) = 1 := by unfold seqLen; simp [hb]
    rw [← seqLen_firstByte, this]
  · rw [seqLen_firstByte]

theorem nextLeft_of_hasAt {bytes : Array Nat} {q c : Nat} (hc : isScalar c = true)
    (h : HasAt bytes q (encode c)) :
    nextLeft bytes (q + (encode c).length) = .ok (some (c, q)) := by
  have hle := isScalar_le hc
  have hlen := encode_length c
  unfold encode at h
  unfold nextLeft
  by_cases h1 : c < 0x80
  · simp only [h1, if_true] at h hlen
    have h0 := h 0 (by simp)
    simp at h0
    simp [h0, h1, hlen]
  · by_cases h2 : c < 0x800
    · simp only [h1, h2, if_true, if_false] at h hlen
      have h0 := h 0 (by simp)
      have h1' := h 1 (by simp)
      simp at h0 h1'
      have hb : ¬ (128 + c % 64 < 128) := by omega
      have hy : isCont (192 + c / 64) = false := by simp [isCont]; omega
      have hw : w2 (192 + c / 64) (128 + c % 64) = c := by unfold w2; omega
      have e1 : q + 2 - 1 = q + 1 := by omega
      have e2 : q + 2 - 2 = q := by omega
      simp [hlen, e1, h0, h1', hb, hy, hw, hc]
    · by_cases h3 : c < 0x10000
      · simp only [h1, h2, h3, if_true, if_false] at h hlen
        have h0 := h 0 (by simp)
        have h1' := h 1 (by simp)
        have h2' := h 2 (by simp)
        simp at h0 h1' h2'
        have hb : ¬ (128 + c % 64 < 128) := by omega
        have hy : isCont (128 + c / 64 % 64) = true := by simp [isCont]; omega
        have hx : isCont (224 + c / 4096) = false := by simp [isCont]; omega
        have hw : w3 (224 + c / 4096) (128 + c / 64 % 64) (128 + c % 64) = c := by
          unfold w3; omega
        have e1 : q + 3 - 1 = q + 2 := by omega
        have e2 : q + 3 - 2 = q + 1 := by omega
        have e3 : q + 3 - 3 = q := by omega
        simp [hlen, e1, e2, h0, h1', h2', hb, hy, hx, hw, hc]
        (repeat' split) <;> first | rfl | omega
      · simp only [h1, h2, h3, if_false] at h hlen
        have h0 := h 0 (by simp)
        have h1' := h 1 (by simp)
        have h2' := h 2 (by simp)
        have h3' := h 3 (by simp)
        simp at h0 h1' h2' h3'
        have hb : ¬ (128 + c % 64 < 128) := by omega
        have hy : isCont (128 + c / 64 % 64) = true := by simp [isCont]; omega
        have hx : isCont (128 + c / 4096 % 64) = true := by simp [isCont]; omega
        have hw : w4 (240 + c / 262144) (128 + c / 4096 % 64) (128 + c / 64 % 64) (128 + c % 64) = c := by
          unfold w4; omega
        have e1 : q + 4 - 1 = q + 3 := by omega
        have e2 : q + 4 - 2 = q + 2 := by omega
        have e3 : q + 4 - 3 = q + 1 := by omega
        simp [hlen, e1, e2, e3, h0, h1', h2', h3', hb, hy, hx, hw, hc]
        (repeat' split) <;> first | rfl | omega

theorem nextLeftPos_of_hasAt {bytes : Array Nat} {q c : Nat} (hc : c ≤ 0x10FFFF)
    (h : HasAt bytes q (encode c)) :
    nextLeftPos bytes (q + (encode c).length) = .ok (some q) := by
  have hlen := encode_length c
  unfold encode at h
  unfold nextLeftPos
  by_cases h1 : c < 0x80
  · simp only [h1, if_true] at h hlen
    have h0 := h 0 (by simp)
    simp at h0
    simp [h0, h1, hlen]
  · by_cases h2 : c < 0x800
    · simp only [h1, h2, if_true, if_false] at h hlen
      have h0 := h 0 (by simp)
      have h1' := h 1 (by simp)
      simp at h0 h1'
      have hb : ¬ (128 + c % 64 < 128) := by omega
      have hy : isCont (192 + c / 64) = false := by simp [isCont]; omega
      have e1 : q + 2 - 1 = q + 1 := by omega
      simp [hlen, e1, h0, h1', hb, hy]
    · by_cases h3 : c < 0x10000
      · simp only [h1, h2, h3, if_true, if_false] at h hlen
        have h0 := h 0 (by simp)
        have h1' := h 1 (by simp)
        have h2' := h 2 (by simp)
        simp at h0 h1' h2'
        have hb : ¬ (128 + c % 64 < 128) := by omega
        have hy : isCont (128 + c / 64 % 64) = true := by simp [isCont]; omega
        have hx : isCont (224 + c / 4096) = false := by simp [isCont]; omega
        have e1 : q + 3 - 1 = q + 2 := by omega
        have e2 : q + 3 - 2 = q + 1 := by omega
        simp [hlen, e1, e2, h0, h1', h2', hb, hy, hx]
        (repeat' split) <;> first | rfl | omega
      · simp only [h1, h2, h3, if_false] at h hlen
        have h0 := h 0 (by simp)
        have h1' := h 1 (by simp)
        have h2' := h 2 (by simp)
        have h3' := h 3 (by simp)
        simp at h0 h1' h2' h3'
        have hb : ¬ (128 + c % 64 < 128) := by omega
        have hy : isCont (128 + c / 64 % 64) = true := by simp [isCont]; omega
        have hx : isCont (128 + c / 4096 % 64) = true := by simp [isCont]; omega
        have e1 : q + 4 - 1 = q + 3 := by omega
        have e2 : q + 4 - 2 = q + 2 := by omega
        have e3 : q + 4 - 3 = q + 1 := by omega
        simp [hlen, e1, e2, e3, h1', h2', h3', hb, hy, hx]
        (repeat' split) <;> first | rfl | omega

/-! ## Well-formed text: `text cs`, offsets `off cs k` -/

/-- The UTF-8 haystack holding the scalars `cs`. -/
def text (cs : List Nat) : Array Nat := (encodeAll cs).toArray

/-- Byte offset of the `k`-th scalar of `cs` (`off cs cs.length` is the end of the text). -/
def off (cs : List Nat) (k : Nat) : Nat := (encodeAll (cs.take k)).length

/-- Every element is a Unicode scalar value. -/
def AllScalar (cs : List Nat) : Prop := ∀ c ∈ cs, isScalar c = true

instance (cs : List Nat) : Decidable (AllScalar cs) := by unfold AllScalar; infer_instance

@[simp] theorem encodeAll_nil : encodeAll [] = [] := rfl
@[simp] theorem encodeAll_cons (c : Nat) (cs : List Nat) :
    encodeAll (c :: cs) = encode c ++ encodeAll cs := by simp [encodeAll]
@[simp] theorem encodeAll_append (as bs : List Nat) :
    encodeAll (as ++ bs) = encodeAll as ++ encodeAll bs := by simp [encodeAll]

theorem encodeAll_take_drop (cs : List Nat) (k : Nat) :
    encodeAll (cs.take k) ++ encodeAll (cs.drop k) = encodeAll cs := by
  rw [← encodeAll_append, List.take_append_drop]

theorem encodeAll_split {cs : List Nat} {k : Nat} (hk : k < cs.length) :
    encodeAll cs = encodeAll (cs.take k) ++ (encode cs[k] ++ encodeAll (cs.drop (k + 1))) := by
  rw [← encodeAll_cons, ← List.drop_eq_getElem_cons hk, encodeAll_take_drop]

@[simp] theorem size_text (cs : List Nat) : (text cs).size = (encodeAll cs).length := by simp [text]

@[simp] theorem off_zero (cs : List Nat) : off cs 0 = 0 := by simp [off]

theorem off_length (cs : List Nat) : off cs cs.length = (text cs).size := by simp [off]

theorem off_of_length_le {cs : List Nat} {k : Nat} (h : cs.length ≤ k) :
    off cs k = (text cs).size := by simp [off, List.take_of_length_le h]

theorem off_succ {cs : List Nat} {k : Nat} (hk : k < cs.length) :
    off cs (k + 1) = off cs k + (encode cs[k]).length := by
  unfold off
  rw [List.take_succ_eq_append_getElem hk, encodeAll_append, List.length_append]
  simp

theorem off_le_size (cs : List Nat) (k : Nat) : off cs k ≤ (text cs).size := by
  rw [size_text, ← encodeAll_take_drop cs k]; simp [off]

theorem off_lt_succ {cs : List Nat} {k : Nat} (hk : k < cs.length) : off cs k < off cs (k + 1) := by
  rw [off_succ hk]; have := encode_length_pos cs[k]; omega

theorem off_succ_le {cs : List Nat} {k : Nat} (hk : k < cs.length) : off cs (k + 1) ≤ off cs k + 4 := by
  rw [off_succ hk]; have := encode_length_le cs[k]; omega

theorem off_strict_mono {cs : List Nat} {k j : Nat} (hkj : k < j) (hj : j ≤ cs.length) :
    off cs k < off cs j := by
  induction j with
  | zero => omega
  | succ j ih =>
    have h1 := off_lt_succ (cs := cs) (k := j) (by omega)
    by_cases h : k = j
    · subst h; exact h1
    · have := ih (by omega) (by omega); omega

theorem off_mono {cs : List Nat} {k j : Nat} (hkj : k ≤ j) (hj : j ≤ cs.length) :
    off cs k ≤ off cs j := by
  by_cases h : k = j
  · subst h; exact Nat.le_refl _
  · exact Nat.le_of_lt (off_strict_mono (by omega) hj)

theorem off_injective {cs : List Nat} {k j : Nat} (hk : k ≤ cs.length) (hj : j ≤ cs.length)
    (h : off cs k = off cs j) : k = j := by
  by_cases h1 : k < j
  · have := off_strict_mono h1 hj; omega
  · by_cases h2 : j < k
    · have := off_strict_mono h2 hk; omega
    · omega

theorem off_lt_iff {cs : List Nat} {k j : Nat} (hk : k ≤ cs.length) (hj : j ≤ cs.length) :
    off cs k < off cs j ↔ k < j := by
  constructor
  · intro h
    by_cases h' : k < j
    · exact h'
    · have := off_mono (cs := cs) (k := j) (j := k) (by omega) hk; omega
  · intro h; exact off_strict_mono h hj

theorem hasAt_text {cs : List Nat} {k : Nat} (hk : k < cs.length) :
    HasAt (text cs) (off cs k) (encode cs[k]) := by
  intro i hi
  simp only [text, List.getElem?_toArray]
  rw [encodeAll_split hk, List.getElem?_append_right (by simp [off])]
  simp only [off, Nat.add_sub_cancel_left]
  rw [List.getElem?_append_left hi]

/-! ## Round trips -/

theorem nextRight_size (bytes : Array Nat) : nextRight bytes bytes.size = .ok none := by
  simp [nextRight]

theorem nextRightPos_size (bytes : Array Nat) : nextRightPos bytes bytes.size = .ok none := by
  simp [nextRightPos]

theorem nextLeft_zero (bytes : Array Nat) : nextLeft bytes 0 = .ok none := by
  simp [nextLeft]

theorem nextLeftPos_zero (bytes : Array Nat) : nextLeftPos bytes 0 = .ok none := by
  simp [nextLeftPos]

theorem nextRight_roundtrip {cs : List Nat} (hcs : AllScalar cs) {k : Nat} (hk : k < cs.length) :
    nextRight (text cs) (off cs k) = .ok (some (cs[k], off cs (k + 1))) := by
  rw [off_succ hk]
  exact nextRight_of_hasAt (hcs _ (List.getElem_mem hk)) (hasAt_text hk)

theorem nextRight_roundtrip_end (cs : List Nat) :
    nextRight (text cs) (off cs cs.length) = .ok none := by
  rw [off_length]; exact nextRight_size _

theorem nextRightPos_roundtrip {cs : List Nat} (hcs : AllScalar cs) {k : Nat} (hk : k < cs.length) :
    nextRightPos (text cs) (off cs k) = .ok (some (off cs (k + 1))) := by
  rw [off_succ hk]
  exact nextRightPos_of_hasAt (isScalar_le (hcs _ (List.getElem_mem hk))) (hasAt_text hk)

theorem nextRightPos_roundtrip_end (cs : List Nat) :
    nextRightPos (text cs) (off cs cs.length) = .ok none := by
  rw [off_length]; exact nextRightPos_size _

theorem nextLeft_roundtrip {cs : List Nat} (hcs : AllScalar cs) {k : Nat} (hk0 : 0 < k)
    (hk : k ≤ cs.length) :
    nextLeft (text cs) (off cs k) = .ok (some (cs[k - 1]'(by omega), off cs (k - 1))) := by
  cases k with
  | zero => omega
  | succ j =>
    have hj : j < cs.length := by omega
    rw [off_succ hj]
    simp only [Nat.add_sub_cancel]
    exact nextLeft_of_hasAt (hcs _ (List.getElem_mem hj)) (hasAt_text hj)

theorem nextLeft_roundtrip_start (cs : List Nat) : nextLeft (text cs) (off cs 0) = .ok none := by
  rw [off_zero]; exact nextLeft_zero _

theorem nextLeftPos_roundtrip {cs : List Nat} (hcs : AllScalar cs) {k : Nat} (hk0 : 0 < k)
    (hk : k ≤ cs.length) :
    nextLeftPos (text cs) (off cs k) = .ok (some (off cs (k - 1))) := by
  cases k with
  | zero => omega
  | succ j =>
    have hj : j < cs.length := by omega
    rw [off_succ hj]
    simp only [Nat.add_sub_cancel]
    exact nextLeftPos_of_hasAt (isScalar_le (hcs _ (List.getElem_mem hj))) (hasAt_text hj)

theorem nextLeftPos_roundtrip_start (cs : List Nat) :
    nextLeftPos (text cs) (off cs 0) = .ok none := by
  rw [off_zero]; exact nextLeftPos_zero _

/-! ## Boundaries -/

theorem isSeqStart_head {c b : Nat} (h : (encode c)[0]? = some b) : isSeqStart b = true := by
  unfold encode at h
  unfold isSeqStart
  (repeat' split at h) <;> simp at h <;> subst h <;> simp <;> omega

theorem isCont_of_pos_index {c i b : Nat} (hi : 0 < i) (h : (encode c)[i]? = some b) :
    isCont b = true := by
  apply isCont_tail c
  cases hl : encode c with
  | nil => rw [hl] at h; simp at h
  | cons a t =>
    rw [hl] at h
    cases i with
    | zero => omega
    | succ j =>
      simp at h
      obtain ⟨hj, rfl⟩ := List.getElem?_eq_some_iff.mp h
      simp

/-- Every byte position inside the text lies in exactly one encoded scalar. -/
theorem pos_decomp (cs : List Nat) : ∀ p, p < (encodeAll cs).length →
    ∃ k i, ∃ hk : k < cs.length, i < (encode cs[k]).length ∧ p = off cs k + i := by
  induction cs with
  | nil => intro p hp; simp at hp
  | cons c cs ih =>
    intro p hp
    by_cases h : p < (encode c).length
    · exact ⟨0, p, by simp, by simpa using h, by simp⟩
    · simp at hp
      obtain ⟨k, i, hk, hi, hpe⟩ := ih (p - (encode c).length) (by omega)
      refine ⟨k + 1, i, by simp; omega, by simpa using hi, ?_⟩
      simp [off] at hpe ⊢; omega

theorem isBoundary_off (cs : List Nat) {k : Nat} (hk : k ≤ cs.length) :
    isBoundary (text cs) (off cs k) = true := by
  unfold isBoundary
  by_cases h : k = cs.length
  · subst h; simp [off_length]
  · have hk' : k < cs.length := by omega
    have h0 := hasAt_text hk' 0 (encode_length_pos _)
    simp only [Nat.add_zero] at h0
    rw [h0]
    cases hb : (encode cs[k])[0]? with
    | none => rw [List.getElem?_eq_getElem (encode_length_pos _)] at hb; cases hb
    | some b => simp [isSeqStart_head hb]

theorem isBoundary_iff (cs : List Nat) {p : Nat} (hp : p ≤ (text cs).size) :
    isBoundary (text cs) p = true ↔ ∃ k, k ≤ cs.length ∧ p = off cs k := by
  constructor
  · intro hb
    by_cases he : p = (text cs).size
    · exact ⟨cs.length, Nat.le_refl _, by rw [off_length]; exact he⟩
    · have hlt : p < (encodeAll cs).length := by simp at hp; simp at he; omega
      obtain ⟨k, i, hk, hi, hpe⟩ := pos_decomp cs p hlt
      by_cases hi0 : i = 0
      · subst hi0; exact ⟨k, by omega, by simpa using hpe⟩
      · exfalso
        have hat := hasAt_text hk i hi
        rw [← hpe] at hat
        have hne : (p == (text cs).size) = false := by simpa using he
        unfold isBoundary at hb
        rw [hne, hat, List.getElem?_eq_getElem hi] at hb
        simp only [Bool.false_or] at hb
        have hc := isCont_of_pos_index (by omega) (List.getElem?_eq_getElem hi)
        rw [isSeqStart_of_isCont hc] at hb
        cases hb
  · rintro ⟨k, hk, rfl⟩
    exact isBoundary_off cs hk

/-- Non-vacuity / sanity: boundaries of "aé€😀" are 0,1,3,6,10. -/
example : (List.range 11).filter (isBoundary (text [0x61, 0xE9, 0x20AC, 0x1F600])) = [0, 1, 3, 6, 10] := by
  decide

/-- On well-formed text, at a boundary, none of the four decoders takes an error path (an
unchecked out-of-bounds read / `unreachable_unchecked` in the Rust code), every decoded element is
a scalar, and every returned position is again a boundary within `[0, size]`, strictly to the
right (left) of `p` and at most 4 bytes away. -/
theorem decoders_safe {cs : List Nat} (hcs : AllScalar cs) {p : Nat} (hp : p ≤ (text cs).size)
    (hb : isBoundary (text cs) p = true) :
    (∃ r, nextRight (text cs) p = .ok r ∧ (r = none ↔ p = (text cs).size) ∧
        ∀ c q, r = some (c, q) → isScalar c = true ∧ p < q ∧ q ≤ p + 4 ∧ q ≤ (text cs).size ∧
          isBoundary (text cs) q = true) ∧
    (∃ r, nextRightPos (text cs) p = .ok r ∧ (r = none ↔ p = (text cs).size) ∧
        ∀ q, r = some q → p < q ∧ q ≤ p + 4 ∧ q ≤ (text cs).size ∧
          isBoundary (text cs) q = true) ∧
    (∃ r, nextLeft (text cs) p = .ok r ∧ (r = none ↔ p = 0) ∧
        ∀ c q, r = some (c, q) → isScalar c = true ∧ q < p ∧ p ≤ q + 4 ∧
          isBoundary (text cs) q = true) ∧
    (∃ r, nextLeftPos (text cs) p = .ok r ∧ (r = none ↔ p = 0) ∧
        ∀ q, r = some q → q < p ∧ p ≤ q + 4 ∧ isBoundary (text cs) q = true) := by
  obtain ⟨k, hk, rfl⟩ := (isBoundary_iff cs hp).mp hb
  have hR : k < cs.length → off cs k < off cs (k + 1) ∧ off cs (k + 1) ≤ off cs k + 4 ∧
      off cs (k + 1) ≤ (text cs).size ∧ isBoundary (text cs) (off cs (k + 1)) = true ∧
      off cs k ≠ (text cs).size := fun h =>
    ⟨off_lt_succ h, off_succ_le h, off_le_size _ _, isBoundary_off cs (by omega), by
      have := off_lt_succ h; have := off_le_size cs (k + 1); omega⟩
  have hL : 0 < k → off cs (k - 1) < off cs k ∧ off cs k ≤ off cs (k - 1) + 4 ∧
      isBoundary (text cs) (off cs (k - 1)) = true := fun h => by
    have h1 : k - 1 < cs.length := by omega
    have e : k - 1 + 1 = k := by omega
    have a := off_lt_succ h1; have b := off_succ_le h1
    rw [e] at a b
    exact ⟨a, b, isBoundary_off cs (by omega)⟩
  refine ⟨?_, ?_, ?_, ?_⟩
  · by_cases h : k < cs.length
    · obtain ⟨a, b, c, d, e⟩ := hR h
      refine ⟨_, nextRight_roundtrip hcs h, by simpa using e, ?_⟩
      intro c' q hq
      simp only [Option.some.injEq, Prod.mk.injEq] at hq
      obtain ⟨rfl, rfl⟩ := hq
      exact ⟨hcs _ (List.getElem_mem h), a, b, c, d⟩
    · have : k = cs.length := by omega
      subst this
      refine ⟨_, nextRight_roundtrip_end cs, by simp [off_length], ?_⟩
      intro c q hq; cases hq
  · by_cases h : k < cs.length
    · obtain ⟨a, b, c, d, e⟩ := hR h
      refine ⟨_, nextRightPos_roundtrip hcs h, by simpa using e, ?_⟩
      intro q hq
      simp only [Option.some.injEq] at hq
      subst hq
      exact ⟨a, b, c, d⟩
    · have : k = cs.length := by omega
      subst this
      refine ⟨_, nextRightPos_roundtrip_end cs, by simp [off_length], ?_⟩
      intro q hq; cases hq
  · by_cases h : 0 < k
    · obtain ⟨a, b, c⟩ := hL h
      refine ⟨_, nextLeft_roundtrip hcs h hk, by simp; omega, ?_⟩
      intro c' q hq
      simp only [Option.some.injEq, Prod.mk.injEq] at hq
      obtain ⟨rfl, rfl⟩ := hq
      exact ⟨hcs _ (List.getElem_mem _), a, b, c⟩
    · have : k = 0 := by omega
      subst this
      refine ⟨_, nextLeft_roundtrip_start cs, by simp, ?_⟩
      intro c q hq; cases hq
  · by_cases h : 0 < k
    · obtain ⟨a, b, c⟩ := hL h
      refine ⟨_, nextLeftPos_roundtrip hcs h hk, by simp; omega, ?_⟩
      intro q hq
      simp only [Option.some.injEq] at hq
      subst hq
      exact ⟨a, b, c⟩
    · have : k = 0 := by omega
      subst this
      refine ⟨_, nextLeftPos_roundtrip_start cs, by simp, ?_⟩
      intro q hq; cases hq

/-! ## `match_bytes` and self-synchronisation -/

theorem slice_eq (bytes : Array Nat) (s e : Nat) :
    slice bytes s e = (bytes.toList.drop s).take (e - s) := by
  simp [slice, List.extract_eq_take_drop]

theorem drop_off (cs : List Nat) (k : Nat) :
    (encodeAll cs).drop (off cs k) = encodeAll (cs.drop k) := by
  rw [← encodeAll_take_drop cs k]; simp [off]

theorem take_off (cs : List Nat) (k : Nat) :
    (encodeAll cs).take (off cs k) = encodeAll (cs.take k) := by
  rw [← encodeAll_take_drop cs k]; simp [off]

/-- UTF-8 is prefix-free: the first encoded scalar of a byte string is determined. -/
theorem encode_prefix_inj {d e : Nat} {X Y : List Nat} (hd : d ≤ 0x10FFFF) (he : e ≤ 0x10FFFF)
    (h : encode d ++ X <+: encode e ++ Y) : d = e := by
  unfold encode at h
  (repeat' split at h) <;> simp [List.cons_prefix_cons] at h <;> omega

theorem encode_injective {d e : Nat} (hd : d ≤ 0x10FFFF) (he : e ≤ 0x10FFFF)
    (h : encode d = encode e) : d = e := by
  apply encode_prefix_inj (X := []) (Y := []) hd he
  rw [h]; exact List.prefix_refl _

theorem encodeAll_prefix_iff {ds es : List Nat} (hd : AllScalar ds) (he : AllScalar es) :
    encodeAll ds <+: encodeAll es ↔ ds <+: es := by
  constructor
  · intro h
    induction ds generalizing es with
    | nil => exact List.nil_prefix
    | cons d ds ih =>
      cases es with
      | nil =>
        exfalso
        have h1 := h.length_le
        have := encode_length_pos d
        simp only [encodeAll_cons, encodeAll_nil, List.length_append, List.length_nil] at h1; omega
      | cons e es =>
        simp only [encodeAll_cons] at h
        have hde : d = e := encode_prefix_inj (isScalar_le (hd d (by simp)))
          (isScalar_le (he e (by simp))) h
        subst hde
        rw [List.prefix_append_right_inj] at h
        rw [List.cons_prefix_cons]
        exact ⟨rfl, ih (fun c hc => hd c (by simp [hc])) (fun c hc => he c (by simp [hc])) h⟩
  · rintro ⟨t, rfl⟩
    rw [encodeAll_append]; exact List.prefix_append _ _

theorem encodeAll_injective {ds es : List Nat} (hd : AllScalar ds) (he : AllScalar es)
    (h : encodeAll ds = encodeAll es) : ds = es := by
  have h1 : ds <+: es := (encodeAll_prefix_iff hd he).mp (by rw [h]; exact List.prefix_refl _)
  have h2 : es <+: ds := (encodeAll_prefix_iff he hd).mp (by rw [h]; exact List.prefix_refl _)
  exact List.IsPrefix.eq_of_length_le h1 h2.length_le

theorem off_add_of_prefix {cs ds : List Nat} {k : Nat} (h : ds <+: cs.drop k) :
    off cs (k + ds.length) = off cs k + (encodeAll ds).length := by
  unfold off
  rw [List.take_add, encodeAll_append, List.length_append, ← List.prefix_iff_eq_take.mp h]

theorem AllScalar.drop {cs : List Nat} (h : AllScalar cs) (k : Nat) : AllScalar (cs.drop k) :=
  fun c hc => h c (List.mem_of_mem_drop hc)

theorem AllScalar.take {cs : List Nat} (h : AllScalar cs) (k : Nat) : AllScalar (cs.take k) :=
  fun c hc => h c (List.mem_of_mem_take hc)

/-- Forward matching of an encoded literal at the `k`-th scalar succeeds iff the scalars from
`k` on start with the literal's scalars; the new position is then `ds.length` scalars later. -/
theorem matchBytes_iff_chars {cs ds : List Nat} (hcs : AllScalar cs) (hds : AllScalar ds)
    (k e : Nat) :
    matchBytes (text cs) true (off cs k) (encodeAll ds) = some e ↔
      (ds <+: cs.drop k ∧ e = off cs (k + ds.length)) := by
  have hsz : (text cs).size - off cs k = (encodeAll (cs.drop k)).length := by
    rw [← drop_off]; simp
  have hsl : slice (text cs) (off cs k) (off cs k + (encodeAll ds).length) =
      (encodeAll (cs.drop k)).take (encodeAll ds).length := by
    rw [slice_eq]; simp only [text, Nat.add_sub_cancel_left]; rw [drop_off]
  unfold matchBytes tryMoveRight
  simp only [if_true, hsz]
  by_cases hlen : (encodeAll (cs.drop k)).length < (encodeAll ds).length
  · simp only [hlen, if_true]
    constructor
    · intro h; cases h
    · rintro ⟨hp, rfl⟩
      have := ((encodeAll_prefix_iff hds (hcs.drop k)).mpr hp).length_le; omega
  · simp only [hlen, if_false, hsl]
    constructor
    · intro h
      split at h
      · rename_i heq
        have hp : encodeAll ds <+: encodeAll (cs.drop k) := by
          rw [List.prefix_iff_eq_take]; exact (eq_of_beq heq).symm
        have hp' := (encodeAll_prefix_iff hds (hcs.drop k)).mp hp
        simp only [Option.some.injEq] at h
        exact ⟨hp', by rw [off_add_of_prefix hp']; exact h.symm⟩
      · cases h
    · rintro ⟨hp, rfl⟩
      have hp' := (encodeAll_prefix_iff hds (hcs.drop k)).mpr hp
      rw [← List.prefix_iff_eq_take.mp hp']
      simp [off_add_of_prefix hp]

example : matchBytes (text [0x61, 0xE9, 0x20AC, 0x1F600]) true 1 (encodeAll [0xE9, 0x20AC]) = some 6 := by
  decide

/-- Self-synchronisation, forward: matching an encoded literal from a boundary ends on a boundary. -/
theorem matchBytes_boundary {cs ds : List Nat} (hcs : AllScalar cs) (hds : AllScalar ds)
    {p e : Nat} (hp : p ≤ (text cs).size) (hb : isBoundary (text cs) p = true)
    (hm : matchBytes (text cs) true p (encodeAll ds) = some e) :
    e ≤ (text cs).size ∧ isBoundary (text cs) e = true ∧ e = p + (encodeAll ds).length := by
  obtain ⟨k, hk, rfl⟩ := (isBoundary_iff cs hp).mp hb
  obtain ⟨hpre, rfl⟩ := (matchBytes_iff_chars hcs hds k e).mp hm
  have hl := hpre.length_le
  simp at hl
  exact ⟨off_le_size _ _, isBoundary_off cs (by omega), off_add_of_prefix hpre⟩

/-- Self-synchronisation, backward: a successful backward match of a (possibly empty) encoded
literal ending at a boundary `p` starts on a boundary. -/
theorem matchBytes_boundary_back {cs ds : List Nat} {p s : Nat} (hb : isBoundary (text cs) p = true)
    (hm : matchBytes (text cs) false p (encodeAll ds) = some s) :
    s ≤ p ∧ isBoundary (text cs) s = true ∧ s + (encodeAll ds).length = p := by
  unfold matchBytes tryMoveLeft at hm
  simp only [Bool.false_eq_true, if_false] at hm
  by_cases hlen : p < (encodeAll ds).length
  · simp only [hlen, if_true] at hm; cases hm
  · simp only [hlen, if_false] at hm
    split at hm
    · rename_i heq
      simp only [Option.some.injEq] at hm
      subst hm
      have heq := eq_of_beq heq
      refine ⟨by omega, ?_, by omega⟩
      cases ds with
      | nil => simpa using hb
      | cons d ds =>
        rw [slice_eq] at heq
        have hpos := encode_length_pos d
        have hl : (encodeAll (d :: ds)).length = (encode d).length + (encodeAll ds).length := by simp
        have h0 : ((text cs).toList.drop (p - (encodeAll (d :: ds)).length))[0]? = (encode d)[0]? := by
          have := congrArg (fun l => l[0]?) heq
          rw [List.getElem?_take_of_lt (by omega)] at this
          rw [this, encodeAll_cons, List.getElem?_append_left hpos]
        rw [List.getElem?_drop] at h0
        simp only [Nat.add_zero, Array.getElem?_toList] at h0
        unfold isBoundary
        rw [h0, List.getElem?_eq_getElem hpos]
        have := isSeqStart_head (List.getElem?_eq_getElem hpos)
        simp [this]
    · cases hm

/-! ### Backward matching, exact characterisation -/

/-- UTF-8 is suffix-free as well (a lead byte is never a continuation byte). -/
theorem encode_suffix_inj {d e : Nat} {X Y : List Nat} (hd : d ≤ 0x10FFFF) (he : e ≤ 0x10FFFF)
    (h : (encode d).reverse ++ X <+: (encode e).reverse ++ Y) : d = e := by
  unfold encode at h
  (repeat' split at h) <;> simp [List.cons_prefix_cons] at h <;> omega

/-- Reversed encoding of the reversed list (so that it is a `cons`-recursive function). -/
private def rencodeAll (ds : List Nat) : List Nat := (encodeAll ds.reverse).reverse

private theorem rencodeAll_cons (d : Nat) (ds : List Nat) :
    rencodeAll (d :: ds) = (encode d).reverse ++ rencodeAll ds := by
  simp [rencodeAll]

private theorem rencodeAll_prefix {ds es : List Nat} (hd : AllScalar ds) (he : AllScalar es)
    (h : rencodeAll ds <+: rencodeAll es) : ds <+: es := by
  induction ds generalizing es with
  | nil => exact List.nil_prefix
  | cons d ds ih =>
    cases es with
    | nil =>
      exfalso
      have h1 := h.length_le
      have := encode_length_pos d
      have h0 : rencodeAll [] = [] := by simp [rencodeAll]
      rw [h0] at h1
      simp only [rencodeAll_cons, List.length_append, List.length_reverse, List.length_nil] at h1
      omega
    | cons e es =>
      simp only [rencodeAll_cons] at h
      have hde : d = e := encode_suffix_inj (isScalar_le (hd d (by simp)))
        (isScalar_le (he e (by simp))) h
      subst hde
      rw [List.prefix_append_right_inj] at h
      rw [List.cons_prefix_cons]
      exact ⟨rfl, ih (fun c hc => hd c (by simp [hc])) (fun c hc => he c (by simp [hc])) h⟩

theorem encodeAll_suffix_iff {ds es : List Nat} (hd : AllScalar ds) (he : AllScalar es) :
    encodeAll ds <:+ encodeAll es ↔ ds <:+ es := by
  constructor
  · intro h
    rw [← List.reverse_prefix] at h ⊢
    apply rencodeAll_prefix (fun c hc => hd c (by simpa using hc)) (fun c hc => he c (by simpa using hc))
    simpa [rencodeAll] using h
  · rintro ⟨t, rfl⟩
    rw [encodeAll_append]; exact List.suffix_append _ _

theorem off_sub_of_suffix {cs ds : List Nat} {k : Nat} (hk : k ≤ cs.length)
    (h : ds <:+ cs.take k) : off cs (k - ds.length) + (encodeAll ds).length = off cs k := by
  obtain ⟨t, ht⟩ := h
  have hlen : t.length + ds.length = k := by
    have := congrArg List.length ht
    simp only [List.length_append, List.length_take] at this; omega
  have ht' : cs.take (k - ds.length) = t := by
    have : cs.take (k - ds.length) = (cs.take k).take (k - ds.length) := by
      rw [List.take_take]; congr 1; omega
    rw [this, ← ht, show k - ds.length = t.length by omega, List.take_left]
  unfold off
  rw [ht', ← ht, encodeAll_append, List.length_append]

/-- Backward matching of an encoded literal ending at the `k`-th boundary succeeds iff the scalars
before `k` end with the literal's scalars; the new position is then `ds.length` scalars earlier. -/
theorem matchBytes_back_iff_chars {cs ds : List Nat} (hcs : AllScalar cs) (hds : AllScalar ds)
    {k : Nat} (hk : k ≤ cs.length) (s : Nat) :
    matchBytes (text cs) false (off cs k) (encodeAll ds) = some s ↔
      (ds <:+ cs.take k ∧ s = off cs (k - ds.length)) := by
  have hsl : (encodeAll ds).length ≤ off cs k →
      slice (text cs) (off cs k - (encodeAll ds).length) (off cs k) =
        (encodeAll (cs.take k)).drop ((encodeAll (cs.take k)).length - (encodeAll ds).length) := by
    intro hle
    rw [slice_eq, ← List.drop_take]
    simp only [text]
    rw [take_off]; rfl
  unfold matchBytes tryMoveLeft
  simp only [Bool.false_eq_true, if_false]
  by_cases hlen : off cs k < (encodeAll ds).length
  · simp only [hlen, if_true]
    constructor
    · intro h; cases h
    · rintro ⟨hp, rfl⟩
      have := off_sub_of_suffix hk hp; omega
  · simp only [hlen, if_false, hsl (by omega)]
    constructor
    · intro h
      split at h
      · rename_i heq
        have hp : encodeAll ds <:+ encodeAll (cs.take k) := by
          rw [List.suffix_iff_eq_drop]; exact (eq_of_beq heq).symm
        have hp' := (encodeAll_suffix_iff hds (hcs.take k)).mp hp
        simp only [Option.some.injEq] at h
        have := off_sub_of_suffix hk hp'
        exact ⟨hp', by omega⟩
      · cases h
    · rintro ⟨hp, rfl⟩
      have hp' := (encodeAll_suffix_iff hds (hcs.take k)).mpr hp
      rw [← List.suffix_iff_eq_drop.mp hp']
      have := off_sub_of_suffix hk hp
      simp; omega

example : matchBytes (text [0x61, 0xE9, 0x20AC, 0x1F600]) false 6 (encodeAll [0xE9, 0x20AC]) = some 1 := by
  decide

/-! ## ASCII -/

theorem ascii_decode {bytes : Array Nat} (h : ∀ b ∈ bytes, b < 128) {p : Nat} (hp : p < bytes.size) :
    nextRight bytes p = .ok (some (bytes[p], p + 1)) ∧
    nextRightPos bytes p = .ok (some (p + 1)) ∧
    nextLeft bytes (p + 1) = .ok (some (bytes[p], p)) ∧
    nextLeftPos bytes (p + 1) = .ok (some p) := by
  have hb : bytes[p] < 128 := h _ (Array.getElem_mem hp)
  have hne : (p == bytes.size) = false := by simp; omega
  refine ⟨?_, ?_, ?_, ?_⟩
  · simp [nextRight, hne, hp, hb]
  · simp [nextRightPos, hne, hp, hb]
  · simp [nextLeft, hp, hb]
  · simp [nextLeftPos, hp, hb]

theorem ascii_boundary {bytes : Array Nat} (h : ∀ b ∈ bytes, b < 128) {p : Nat} (hp : p ≤ bytes.size) :
    isBoundary bytes p = true := by
  unfold isBoundary
  by_cases he : p = bytes.size
  · simp [he]
  · have hp' : p < bytes.size := by omega
    have hb : bytes[p] < 128 := h _ (Array.getElem_mem hp')
    simp [hp', isSeqStart, hb]

/-- ASCII text is the UTF-8 text of its own bytes. -/
theorem ascii_text {cs : List Nat} (h : ∀ c ∈ cs, c < 128) : text cs = cs.toArray := by
  unfold text; congr 1
  induction cs with
  | nil => rfl
  | cons c cs ih =>
    have hc : c < 128 := h c (by simp)
    rw [encodeAll_cons, ih (fun x hx => h x (by simp [hx]))]
    simp [encode, hc]

/-! ## First bytes of a code point interval (`util::add_utf8_first_bytes_to_bitmap`) -/

/-- The inclusive range `lo ..= hi` (empty if `hi < lo`). -/
def byteRange (lo hi : Nat) : List Nat := (List.range (hi + 1 - lo)).map (lo + ·)

/-- `util::add_utf8_first_bytes_to_bitmap`: the list of bytes `b` for which `bitmap.set(b)` is
called, in order, for the inclusive code point interval `[first, last]`. -/
def firstBytesOfInterval (first last : Nat) : List Nat :=
  [ (first, min last 0x7F),              -- 1 byte range
    (max first 0x80, min last 0x7FF),    -- 2 byte range
    (max first 0x800, min last 0xFFFF),  -- 3 byte range
    (max first 0x10000, last)            -- 4 byte range
  ].flatMap fun r => if r.1 ≤ r.2 then byteRange (firstByte r.1) (firstByte r.2) else []

theorem mem_byteRange {lo hi b : Nat} : b ∈ byteRange lo hi ↔ lo ≤ b ∧ b ≤ hi := by
  simp only [byteRange, List.mem_map, List.mem_range]
  constructor
  · rintro ⟨a, ha, rfl⟩; omega
  · intro h; exact ⟨b - lo, by omega, by omega⟩

theorem mem_firstBytesOfInterval {first last b : Nat} :
    b ∈ firstBytesOfInterval first last ↔
      (first ≤ min last 0x7F ∧ firstByte first ≤ b ∧ b ≤ firstByte (min last 0x7F)) ∨
      (max first 0x80 ≤ min last 0x7FF ∧
        firstByte (max first 0x80) ≤ b ∧ b ≤ firstByte (min last 0x7FF)) ∨
      (max first 0x800 ≤ min last 0xFFFF ∧
        firstByte (max first 0x800) ≤ b ∧ b ≤ firstByte (min last 0xFFFF)) ∨
      (max first 0x10000 ≤ last ∧ firstByte (max first 0x10000) ≤ b ∧ b ≤ firstByte last) := by
  simp only [firstBytesOfInterval, List.flatMap_cons, List.flatMap_nil, List.mem_append,
    List.append_nil]
  have key : ∀ f l, (b ∈ if f ≤ l then byteRange (firstByte f) (firstByte l) else []) ↔
      (f ≤ l ∧ firstByte f ≤ b ∧ b ≤ firstByte l) := by
    intro f l
    split
    · rw [mem_byteRange]; simp [*]
    · simp [*]
  simp only [key]

theorem firstByte_range1 {c : Nat} (h : c < 0x80) : firstByte c = c := by simp [firstByte, h]
theorem firstByte_range2 {c : Nat} (h1 : 0x80 ≤ c) (h2 : c < 0x800) : firstByte c = c / 64 + 0xC0 := by
  unfold firstByte; rw [if_neg (by omega), if_pos h2]; omega
theorem firstByte_range3 {c : Nat} (h1 : 0x800 ≤ c) (h2 : c < 0x10000) :
    firstByte c = c / 4096 + 0xE0 := by
  unfold firstByte; rw [if_neg (by omega), if_neg (by omega), if_pos h2]; omega
theorem firstByte_range4 {c : Nat} (h1 : 0x10000 ≤ c) (h2 : c ≤ 0x10FFFF) :
    firstByte c = c / 262144 + 0xF0 := by
  unfold firstByte; rw [if_neg (by omega), if_neg (by omega), if_neg (by omega)]; omega

/-- `firstByte` is monotone within each of the four encoded-length classes. -/
theorem firstByte_mono_in_class {a b : Nat} (hab : a ≤ b) (hb : b ≤ 0x10FFFF)
    (hclass : b < 0x80 ∨ (0x80 ≤ a ∧ b < 0x800) ∨ (0x800 ≤ a ∧ b < 0x10000) ∨ 0x10000 ≤ a) :
    firstByte a ≤ firstByte b := by
  rcases hclass with h | ⟨h1, h2⟩ | ⟨h1, h2⟩ | h
  · rw [firstByte_range1 h, firstByte_range1 (by omega)]; exact hab
  · rw [firstByte_range2 h1 (by omega), firstByte_range2 (by omega) h2]; omega
  · rw [firstByte_range3 h1 (by omega), firstByte_range3 (by omega) h2]; omega
  · rw [firstByte_range4 h (by omega), firstByte_range4 (by omega) hb]; omega

/-- Soundness of the prefilter bitmap: the first byte of every code point of the interval is set. -/
theorem firstByte_mem_interval {first last c : Nat} (h1 : first ≤ c) (h2 : c ≤ last)
    (h3 : last ≤ 0x10FFFF) : firstByte c ∈ firstBytesOfInterval first last := by
  rw [mem_firstBytesOfInterval]
  by_cases c1 : c < 0x80
  · left
    exact ⟨by omega, firstByte_mono_in_class h1 (by omega) (Or.inl c1),
      firstByte_mono_in_class (by omega) (by omega) (Or.inl (by omega))⟩
  · by_cases c2 : c < 0x800
    · right; left
      exact ⟨by omega,
        firstByte_mono_in_class (by omega) (by omega) (Or.inr (Or.inl ⟨by omega, c2⟩)),
        firstByte_mono_in_class (by omega) (by omega) (Or.inr (Or.inl ⟨by omega, by omega⟩))⟩
    · by_cases c3 : c < 0x10000
      · right; right; left
        exact ⟨by omega,
          firstByte_mono_in_class (by omega) (by omega) (Or.inr (Or.inr (Or.inl ⟨by omega, c3⟩))),
          firstByte_mono_in_class (by omega) (by omega)
            (Or.inr (Or.inr (Or.inl ⟨by omega, by omega⟩)))⟩
      · right; right; right
        exact ⟨by omega,
          firstByte_mono_in_class (by omega) (by omega) (Or.inr (Or.inr (Or.inr (by omega)))),
          firstByte_mono_in_class h2 h3 (Or.inr (Or.inr (Or.inr (by omega))))⟩

/-- Exactness of the prefilter bitmap: every byte that is set is the first byte of some code
point of the interval. -/
theorem firstBytesOfInterval_exact {first last b : Nat} (h3 : last ≤ 0x10FFFF)
    (hb : b ∈ firstBytesOfInterval first last) :
    ∃ c, first ≤ c ∧ c ≤ last ∧ firstByte c = b := by
  rw [mem_firstBytesOfInterval] at hb
  rcases hb with ⟨hr, hlo, hhi⟩ | ⟨hr, hlo, hhi⟩ | ⟨hr, hlo, hhi⟩ | ⟨hr, hlo, hhi⟩
  · rw [firstByte_range1 (by omega)] at hlo hhi
    exact ⟨b, hlo, by omega, firstByte_range1 (by omega)⟩
  · rw [firstByte_range2 (by omega) (by omega)] at hlo hhi
    refine ⟨max (max first 0x80) ((b - 0xC0) * 64), by omega, by omega, ?_⟩
    rw [firstByte_range2 (by omega) (by omega)]; omega
  · rw [firstByte_range3 (by omega) (by omega)] at hlo hhi
    refine ⟨max (max first 0x800) ((b - 0xE0) * 4096), by omega, by omega, ?_⟩
    rw [firstByte_range3 (by omega) (by omega)]; omega
  · rw [firstByte_range4 (by omega) (by omega)] at hlo hhi
    refine ⟨max (max first 0x10000) ((b - 0xF0) * 262144), by omega, by omega, ?_⟩
    rw [firstByte_range4 (by omega) (by omega)]; omega

theorem mem_firstBytesOfInterval_iff {first last b : Nat} (h3 : last ≤ 0x10FFFF) :
    b ∈ firstBytesOfInterval first last ↔ ∃ c, first ≤ c ∧ c ≤ last ∧ firstByte c = b :=
  ⟨firstBytesOfInterval_exact h3, fun ⟨_, h1, h2, h⟩ => h ▸ firstByte_mem_interval h1 h2 h3⟩

example : firstBytesOfInterval 0x7E 0x801 = [0x7E, 0x7F] ++ byteRange 0xC2 0xDF ++ [0xE0] := by
  decide

/-! ## Non-vacuity: a concrete text with 1-, 2-, 3- and 4-byte scalars -/

private instance {α : Type} [DecidableEq α] : DecidableEq (Except Unit α) := fun a b =>
  match a, b with
  | .ok x, .ok y => if h : x = y then isTrue (by rw [h]) else isFalse (by intro e; cases e; exact h rfl)
  | .error (), .error () => isTrue rfl
  | .ok _, .error _ => isFalse (by intro e; cases e)
  | .error _, .ok _ => isFalse (by intro e; cases e)

example : AllScalar [0x61, 0xE9, 0x20AC, 0x1F600] := by decide
example : text [0x61, 0xE9, 0x20AC, 0x1F600] =
    #[0x61, 0xC3, 0xA9, 0xE2, 0x82, 0xAC, 0xF0, 0x9F, 0x98, 0x80] := by decide
example : (List.range 5).map (off [0x61, 0xE9, 0x20AC, 0x1F600]) = [0, 1, 3, 6, 10] := by decide
example : nextRight (text [0x61, 0xE9, 0x20AC, 0x1F600]) 3 = .ok (some (0x20AC, 6)) := by decide
example : nextLeft (text [0x61, 0xE9, 0x20AC, 0x1F600]) 10 = .ok (some (0x1F600, 6)) := by decide
/-- Off a boundary the decoders return garbage or reach the error (out-of-bounds read) paths, so
the boundary hypothesis of `decoders_safe` is needed. -/
example : nextRight (text [0x61, 0xE9, 0x20AC, 0x1F600]) 8 = .ok (some (0x600, 10)) ∧
    nextRight (text [0x61, 0xE9, 0x20AC, 0x1F600]) 9 = .error () := by decide
example : nextLeft (text [0x61, 0xE9, 0x20AC, 0x1F600]) 1 = .ok (some (0x61, 0)) ∧
    nextLeft #[0xA9] 1 = .error () := by decide

end Regress.Utf8
