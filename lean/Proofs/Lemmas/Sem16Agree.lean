import Proofs.Lemmas.Sem16Loop1
/-!
# `sem16` on the UTF-16 encoding of a text is the translation of `sem` on its UTF-8 encoding

For a well-formed node without byte-level nodes, entered at corresponding boundaries with
corresponding captures: `sem16 inp16 n fwd (st.mapPos (to16 cs)) =
(sem inp8 n fwd st).map (fun s => .ok (s.mapPos (to16 cs)))` (`sem16_sim`).
-/
namespace Regress.IR

open Regress.VM Regress
open Regress.Utf16 (off16 text16)

/-! ## Translating states -/

/-- The translation of a capture. -/
def capMap (f : Nat → Nat) (c : Cap) : Cap := (c.1.map f, c.2.map f)

theorem St.mapPos_caps (f : Nat → Nat) (st : St) : (st.mapPos f).caps = st.caps.map (capMap f) := rfl
theorem St.mapPos_pos (f : Nat → Nat) (st : St) : (st.mapPos f).pos = f st.pos := rfl

theorem modify_map_cap (f : Nat → Nat) (g1 g2 : Cap → Cap) (hg : ∀ c, capMap f (g1 c) = g2 (capMap f c)) :
    ∀ (caps : List Cap) (g : Nat), (caps.modify g g1).map (capMap f) = (caps.map (capMap f)).modify g g2 := by
  intro caps
  induction caps with
  | nil => intro g; simp
  | cons c caps ih =>
    intro g
    cases g with
    | zero => simp [hg]
    | succ g => simp [ih g]

theorem mapPos_setStart (f : Nat → Nat) (st : St) (g p : Nat) :
    (st.setStart g p).mapPos f = ((st.mapPos f).setStart g (f p)) := by
  simp only [St.setStart, St.mapPos]
  congr 1
  exact modify_map_cap f (fun c => (some p, c.2)) (fun c => (some (f p), c.2)) (fun c => rfl) st.caps g

theorem mapPos_setEnd (f : Nat → Nat) (st : St) (g p : Nat) :
    (st.setEnd g p).mapPos f = ((st.mapPos f).setEnd g (f p)) := by
  simp only [St.setEnd, St.mapPos]
  congr 1
  exact modify_map_cap f (fun c => (c.1, some p)) (fun c => (c.1, some (f p))) (fun c => rfl) st.caps g

theorem resetFrom_map (f : Nat → Nat) : ∀ (caps : List Cap) (i g0 g1 : Nat),
    (resetFrom caps i g0 g1).map (capMap f) = resetFrom (caps.map (capMap f)) i g0 g1 := by
  intro caps
  induction caps with
  | nil => intro _ _ _; rfl
  | cons c caps ih =>
    intro i g0 g1
    simp only [resetFrom, List.map_cons, ih]
    split <;> rfl

theorem mapPos_resetGroups (f : Nat → Nat) (st : St) (g0 g1 : Nat) :
    (st.resetGroups g0 g1).mapPos f = (st.mapPos f).resetGroups g0 g1 := by
  simp only [St.resetGroups, St.mapPos]
  congr 1
  exact resetFrom_map f st.caps 0 g0 g1

theorem mapPos_at (f : Nat → Nat) (st : St) (p : Nat) : (st.mapPos f).at (f p) = (st.at p).mapPos f := rfl

theorem mapPos_initSt (f : Nat → Nat) (n : Node) (p : Nat) : (initSt n p).mapPos f = initSt n (f p) := by
  simp [initSt, St.mapPos]

/-! ## Lists of outcomes -/

/-- The outcome of a translated success. -/
def okMap (f : Nat → Nat) (s : St) : Out := .ok (s.mapPos f)

theorem bindOut_map (f : Nat → Nat) (l : List St) (k : St → List Out) :
    bindOut (l.map (okMap f)) k = l.flatMap (fun s => k (s.mapPos f)) := by
  induction l with
  | nil => rfl
  | cons s l ih =>
    simp only [bindOut, List.map_cons, List.flatMap_cons, okMap] at ih ⊢
    rw [ih]

theorem optOut_map (f : Nat → Nat) (st : St) (o : Option Nat) :
    optOut (st.mapPos f) (o.map f) = (optSt st o).map (okMap f) := by
  cases o <;> rfl

theorem guardOut_map (f : Nat → Nat) (st : St) (b : Bool) :
    guardOut (st.mapPos f) b = (guardSt st b).map (okMap f) := by
  cases b <;> rfl

/-! ## UTF-16 is never longer than UTF-8 -/

theorem encode16_le_encode (c : Nat) : (Utf16.encode16 c).length ≤ (Utf8.encode c).length := by
  rw [Utf16.encode16_length, Utf8.encode_length]
  repeat' split
  all_goals omega

theorem off16_diff_le (cs : List Nat) {k : Nat} : ∀ {j : Nat}, k ≤ j → j ≤ cs.length →
    off16 cs j - off16 cs k ≤ Utf8.off cs j - Utf8.off cs k := by
  intro j hkj
  induction j with
  | zero => intro _; have : k = 0 := by omega
            subst this; simp
  | succ j ih =>
    intro hj
    by_cases hk : k = j + 1
    · subst hk; simp
    · have hj' : j < cs.length := by omega
      have := ih (by omega) (by omega)
      have h1 := Utf16.off16_succ hj'
      have h2 := Utf8.off_succ hj'
      have h3 := encode16_le_encode cs[j]
      have h4 := Utf16.off16_mono (cs := cs) (k := k) (j := j) (by omega) (by omega)
      have h5 := Utf8.off_mono (cs := cs) (k := k) (j := j) (by omega) (by omega)
      omega

section
variable {inp8 : Input} {inp16 : Input16} {cs : List Nat}

theorem mu16_le_mu8 (h : SameText inp8 inp16 cs) (fwd : Bool) {p : Nat} (hb : AtBoundary cs p) :
    mu16 inp16 fwd (to16 cs p) ≤ mu inp8 fwd p := by
  obtain ⟨k, hk, rfl⟩ := hb
  rw [to16_off cs hk]
  unfold mu16 mu
  cases fwd
  · simp only [Bool.false_eq_true, if_false]
    have := off16_diff_le cs (k := 0) (j := k) (Nat.zero_le _) hk
    simpa [Utf8.off] using this
  · simp only [if_true]
    rw [h.t16.len, h.t8.len, ← Utf16.off16_length, ← Utf8.off_length]
    exact off16_diff_le cs hk (Nat.le_refl _)

/-- A matcher step between boundaries moves the UTF-16 distance to the end down. -/
theorem mu16_lt_of_adv (h : SameText inp8 inp16 cs) (fwd : Bool) {p p' : Nat} (hb : AtBoundary cs p)
    (hb' : AtBoundary cs p') (hadv : Adv inp8 fwd p p') :
    mu16 inp16 fwd (to16 cs p') < mu16 inp16 fwd (to16 cs p) := by
  have hlt := to16_lt_iff (cs := cs) hb hb'
  have hlt' := to16_lt_iff (cs := cs) hb' hb
  obtain ⟨k', hk', rfl⟩ := hb'
  have hle : to16 cs (Utf8.off cs k') ≤ inp16.len := by
    rw [to16_off cs hk', h.t16.len]; exact Utf16.off16_le_size cs k'
  unfold Adv at hadv
  unfold mu16
  cases fwd
  · simp only [Bool.false_eq_true, if_false] at hadv ⊢
    exact hlt'.2 hadv
  · simp only [if_true] at hadv ⊢
    have := hlt.2 hadv.1
    omega

end

/-! ## The budget of a loop, measured through an arbitrary rank -/

/-- `loopIter_fuel` with the distance to the end replaced by any measure of the position that the
body does not increase and decreases when it moves, on the states of an invariant. -/
theorem loopIter_fuel_gen {body : St → List St} (q : Quant) (g0 g1 : Nat) (G : St → Prop) (m : Nat → Nat)
    (hreset : ∀ st, G st → G (st.resetGroups g0 g1))
    (hb : ∀ s s', G s → s' ∈ body s → G s' ∧ (s'.pos = s.pos ∨ m s'.pos < m s.pos)) :
    ∀ k k' iter entry st, G st → (q.min - iter) + m st.pos + 2 ≤ k → (q.min - iter) + m st.pos + 2 ≤ k' →
      loopIter body q g0 g1 k iter entry st = loopIter body q g0 g1 k' iter entry st := by
  intro k
  induction k with
  | zero => intro k' iter entry st _ h _; omega
  | succ k ih =>
    intro k' iter entry st hg h1 h2
    obtain ⟨k1, rfl⟩ : ∃ k1, k' = k1 + 1 := ⟨k' - 1, by omega⟩
    have key : (body (st.resetGroups g0 g1)).flatMap (loopIter body q g0 g1 k (iter + 1) st.pos) =
        (body (st.resetGroups g0 g1)).flatMap (loopIter body q g0 g1 k1 (iter + 1) st.pos) := by
      apply flatMap_congr_mem
      intro s hs
      have hadv := hb (st.resetGroups g0 g1) s (hreset st hg) hs
      have hpos : (st.resetGroups g0 g1).pos = st.pos := rfl
      rw [hpos] at hadv
      by_cases hstuck : s.pos = st.pos ∧ iter + 1 > q.min
      · rw [← hstuck.1, loopIter_stuck _ _ _ _ _ _ _ hstuck.2, loopIter_stuck _ _ _ _ _ _ _ hstuck.2]
      · have : (q.min - (iter + 1)) + m s.pos + 2 ≤ k ∧ (q.min - (iter + 1)) + m s.pos + 2 ≤ k1 := by
          by_cases hp : s.pos = st.pos
          · have : ¬ (iter + 1 > q.min) := fun hh => hstuck ⟨hp, hh⟩
            rw [hp]; omega
          · rcases hadv.2 with h | h
            · exact absurd h hp
            · omega
        exact ih k1 (iter + 1) st.pos s hadv.1 this.1 this.2
    simp only [loopIter, key]

end Regress.IR
