import Proofs.Lemmas.Frame
import Proofs.Lemmas.SafetyPk
/-!
# The backtracker refines the PikeVM also on `Loop1CharBody` (stuttering simulation)

The backtracker executes a `loop1` in ONE tick (`run_scm_loop`) and remembers the alternatives in one
record `GreedyLoop1Char { continuation, min, max }` / `NonGreedyLoop1Char { … }`; the PikeVM iterates
(one tick per character, counting in `loop1_iters`).

* `bodyFn`, `Exactly`, `UpTo`, `runScmLoop_spec`: what `run_scm_loop` computes, as relations over the
  body matcher `μ : position → result`.
* `pk_body`, `pk_loop1_tick`: what one PikeVM dispatch of the `loop1` instruction does, in terms of `μ`.
* `Snap1`: the simulation relation of `Proofs/Lemmas/Frame.lean` (`SnapRel`) extended by the `…Loop1Char`
  records.
-/
/-! ## A matcher selected for a well-formed `loop1` body consumes exactly one character

`scm_oneStep_ascii` / `scm_oneStep_utf8`: if the matcher `m` selected by `Bt.scmSelect` for the body
of a `loop1` of a `wfProg` program matches at a valid position `q` with new position `q'`, then `q'`
is exactly one `next_right_pos` / `next_left_pos` step away from `q`, and the opposite primitive
leads back from `q'` to `q` (`OneStep`). -/
namespace Regress.VM.L1
open Regress.VM Regress.VM.Safety

/-- `q'` is exactly one character after `q` in direction `fwd`, and the position-stepping primitives
invert each other there. -/
def OneStep (inp : Input) (fwd : Bool) (q q' : Nat) : Prop :=
  if fwd then inp.nextRightPos q = .ok (some q') ∧ inp.nextLeftPos q' = .ok (some q)
  else inp.nextLeftPos q = .ok (some q') ∧ inp.nextRightPos q' = .ok (some q)

/-- A valid ASCII haystack holds only bytes `< 128`. -/
def asciiOK (inp : Input) : Bool := inp.bytes.all (· < 128)

/-! ## The three shapes of a selected matcher -/

/-- `m` reads one element with `cursor::next` and tests it. -/
def ElemForm (m : Scm) (inp : Input) : Prop :=
  ∃ f : Nat → Bool, ∀ fwd p, m.matches inp fwd p =
    match Cursor.next inp fwd p with
    | .error e => .error e
    | .ok none => .ok none
    | .ok (some (c, p')) => .ok (if f c then some p' else none)

/-- `m` reads one byte with `cursor::next_byte` and accepts only bytes `< 128`. -/
def ByteForm (m : Scm) (inp : Input) : Prop :=
  ∃ f : Nat → Bool, (∀ b, f b = true → b < 128) ∧ ∀ fwd p, m.matches inp fwd p =
    match Cursor.nextByte inp fwd p with
    | .error e => .error e
    | .ok none => .ok none
    | .ok (some (b, p')) => .ok (if f b then some p' else none)

theorem nextRight_scalar {bytes : Array Nat} {p c p' : Nat}
    (h : Utf8.nextRight bytes p = .ok (some (c, p'))) : Utf8.isScalar c = true := by
  unfold Utf8.nextRight at h
  split at h
  · cases h
  · split at h
    · cases h
    · rename_i b0 _
      split at h
      · rename_i hb
        simp only [Except.ok.injEq, Option.some.injEq, Prod.mk.injEq] at h
        obtain ⟨rfl, _⟩ := h
        simp [Utf8.isScalar]; omega
      · simp only at h
        generalize (if (Utf8.seqLen b0 == 2) = true then _ else _ : Option Nat) = cp at h
        cases cp with
        | none => cases h
        | some cc =>
          simp only at h
          split at h
          · rename_i hs
            simp only [Except.ok.injEq, Option.some.injEq, Prod.mk.injEq] at h
            obtain ⟨rfl, _⟩ := h
            exact hs
          · cases h

theorem isOneCharSeq_spec {bs : List Nat} (h : isOneCharSeq bs = true) :
    ∃ c, Utf8.isScalar c = true ∧ bs = Utf8.encode c := by
  unfold isOneCharSeq at h
  split at h
  · rename_i c n hnr
    simp only [Bool.and_eq_true, beq_iff_eq] at h
    exact ⟨c, nextRight_scalar hnr, h.2.symm⟩
  · cases h

/-- The matcher selected for the body of a well-formed `loop1`. -/
theorem scmSelect_shape {prog : Prog} {inp : Input} (hw : wfProg prog = true) {ip mn : Nat}
    {mx : Option Nat} {g : Bool} (hi : prog.insns[ip]? = some (.loop1 mn mx g)) {m : Scm}
    (hm : Bt.scmSelect prog inp.kind ip = .scm m) :
    ElemForm m inp ∨ ByteForm m inp ∨ ∃ c, Utf8.isScalar c = true ∧ m = .byteSeq (Utf8.encode c) := by
  have hwi := wf_insn hw hi
  simp only [wfInsn, Bool.and_eq_true, decide_eq_true_eq] at hwi
  obtain ⟨⟨_, _⟩, hbody⟩ := hwi
  cases hb : prog.insns[ip + 1]? with
  | none => rw [hb] at hbody; cases hbody
  | some body =>
    rw [hb] at hbody
    simp only [Bool.and_eq_true] at hbody
    have hwb := wf_insn hw hb
    unfold Bt.scmSelect at hm
    rw [hb] at hm
    cases body with
    | char c =>
      simp only at hm
      cases hc : elementTryFrom inp.kind c with
      | none => rw [hc] at hm; cases hm
      | some c' =>
        rw [hc] at hm; cases hm
        exact Or.inl ⟨fun c2 => c2 == c', fun fwd p => rfl⟩
    | bracket idx =>
      simp only [wfInsn, decide_eq_true_eq] at hwb
      simp only [Array.getElem?_eq_getElem hwb] at hm
      cases hm
      exact Or.inl ⟨fun c => bracketTest prog.brackets[idx] c, fun fwd p => rfl⟩
    | asciiBracket bm =>
      cases hm
      exact Or.inr (Or.inl ⟨fun b => asciiBitmapContains bm b, fun b h => by
        simp only [asciiBitmapContains, Bool.and_eq_true, decide_eq_true_eq] at h; exact h.1,
        fun fwd p => rfl⟩)
    | matchAny =>
      cases hm
      refine Or.inl ⟨fun _ => true, fun fwd p => ?_⟩
      simp only [Scm.matches, if_true]
      cases Cursor.next inp fwd p with
      | error e => rfl
      | ok r =>
        cases r with
        | none => rfl
        | some cp => rfl
    | matchAnyExceptLineTerminator =>
      cases hm
      exact Or.inl ⟨fun c => !isLineTerminator c, fun fwd p => rfl⟩
    | charSet cs =>
      cases hm
      exact Or.inl ⟨fun c => charsetContains cs c, fun fwd p => rfl⟩
    | byteSet bs =>
      cases hm
      have hall : bs.all (· < 128) = true := by
        have := hbody.2; simpa [loop1BodyOneChar] using this
      exact Or.inr (Or.inl ⟨fun b => byteArraySetContains bs b, fun b h =>
        mem_lt_of_all hall (Bt.mem_of_byteArraySetContains h), fun fwd p => rfl⟩)
    | byteSeq bs =>
      have h6 : 1 ≤ bs.length ∧ bs.length ≤ 6 := by
        have := hbody.1; simp [scmAccepted] at this; exact this
      simp only [h6, and_self, if_true] at hm
      cases hm
      have h1 : isOneCharSeq bs = true := by
        have := hbody.2; simpa [loop1BodyOneChar] using this
      obtain ⟨c, hc, rfl⟩ := isOneCharSeq_spec h1
      exact Or.inr (Or.inr ⟨c, hc, rfl⟩)
    | _ => simp [scmAccepted] at hbody

theorem elemForm_next {m : Scm} {inp : Input} (hf : ElemForm m inp) {fwd : Bool} {q q' : Nat}
    (h : m.matches inp fwd q = .ok (some q')) : ∃ c, Cursor.next inp fwd q = .ok (some (c, q')) := by
  obtain ⟨f, hf⟩ := hf
  rw [hf] at h
  cases hr : Cursor.next inp fwd q with
  | error e => rw [hr] at h; cases h
  | ok r =>
    rw [hr] at h
    cases r with
    | none => cases h
    | some cp =>
      obtain ⟨c, p'⟩ := cp
      simp only at h
      split at h
      · cases h; exact ⟨c, rfl⟩
      · cases h

theorem byteForm_nextByte {m : Scm} {inp : Input} (hf : ByteForm m inp) {fwd : Bool} {q q' : Nat}
    (h : m.matches inp fwd q = .ok (some q')) :
    ∃ b, b < 128 ∧ Cursor.nextByte inp fwd q = .ok (some (b, q')) := by
  obtain ⟨f, hlt, hf⟩ := hf
  rw [hf] at h
  cases hr : Cursor.nextByte inp fwd q with
  | error e => rw [hr] at h; cases h
  | ok r =>
    rw [hr] at h
    cases r with
    | none => cases h
    | some cp =>
      obtain ⟨b, p'⟩ := cp
      simp only at h
      split at h
      · rename_i hfb; cases h; exact ⟨b, hlt b hfb, rfl⟩
      · cases h

/-! ## ASCII -/

/-- On ASCII input, a move by exactly one byte inside `[0, len]` is a `OneStep`. -/
theorem oneStep_ascii {inp : Input} (hk : inp.kind = .ascii) {fwd : Bool} {q q' : Nat}
    (hf : fwd = true → q' = q + 1 ∧ q' ≤ inp.len) (hb : fwd = false → q' + 1 = q ∧ q ≤ inp.len) :
    OneStep inp fwd q q' := by
  unfold OneStep
  unfold Input.len at hf hb
  cases fwd with
  | true =>
    obtain ⟨rfl, hle⟩ := hf rfl
    simp only [if_true, Input.nextRightPos, Input.nextLeftPos, hk, Input.tryMoveRight,
      Input.tryMoveLeft, Utf8.tryMoveRight, Utf8.tryMoveLeft]
    have h1 : ¬ inp.bytes.size - q < 1 := by omega
    have h2 : ¬ q + 1 < 1 := by omega
    simp [h1, h2]
  | false =>
    obtain ⟨rfl, hle⟩ := hb rfl
    simp only [Bool.false_eq_true, if_false, Input.nextRightPos, Input.nextLeftPos, hk,
      Input.tryMoveRight, Input.tryMoveLeft, Utf8.tryMoveRight, Utf8.tryMoveLeft]
    have h1 : ¬ inp.bytes.size - q' < 1 := by omega
    have h2 : ¬ q' + 1 < 1 := by omega
    simp [h1, h2]

/-- `cursor::next` on ASCII input moves by exactly one byte. -/
theorem next_ascii_one {inp : Input} (hk : inp.kind = .ascii) {fwd : Bool} {q c q' : Nat}
    (hq : q ≤ inp.len) (h : Cursor.next inp fwd q = .ok (some (c, q'))) :
    (fwd = true → q' = q + 1 ∧ q' ≤ inp.len) ∧ (fwd = false → q' + 1 = q ∧ q ≤ inp.len) := by
  unfold Input.len at hq ⊢
  cases fwd with
  | true =>
    refine ⟨fun _ => ?_, fun f => Bool.noConfusion f⟩
    simp only [Cursor.next, if_true, Input.nextRight, hk] at h
    split at h
    · cases h
    · rename_i hne
      split at h
      · cases h
      · simp only [Except.ok.injEq, Option.some.injEq, Prod.mk.injEq] at h
        simp only [beq_iff_eq] at hne
        omega
  | false =>
    refine ⟨fun f => Bool.noConfusion f, fun _ => ?_⟩
    simp only [Cursor.next, Bool.false_eq_true, if_false, Input.nextLeft, hk] at h
    split at h
    · cases h
    · rename_i hne
      split at h
      · cases h
      · simp only [Except.ok.injEq, Option.some.injEq, Prod.mk.injEq] at h
        simp only [beq_iff_eq] at hne
        omega

/-- A one-scalar encoding all of whose bytes are `< 128` is a single byte. -/
theorem encode_length_one_of_ascii {c : Nat} (h : ∀ b ∈ Utf8.encode c, b < 128) :
    (Utf8.encode c).length = 1 := by
  by_cases h1 : c < 0x80
  · simp [Utf8.encode, h1]
  · exfalso
    unfold Utf8.encode at h
    simp only [h1, if_false] at h
    split at h
    · have := h _ (List.mem_cons_self); omega
    · split at h
      · have := h _ (List.mem_cons_self); omega
      · have := h _ (List.mem_cons_self); omega

theorem mem_of_mem_slice {bytes : Array Nat} {s e b : Nat} (h : b ∈ Utf8.slice bytes s e) :
    b ∈ bytes := by
  rw [Utf8.slice_eq] at h
  exact Array.mem_def.mpr (List.mem_of_mem_drop (List.mem_of_mem_take h))

/-- A successful `match_bytes` finds the literal's bytes in the haystack. -/
theorem matchBytes_mem {bytes : Array Nat} {fwd : Bool} {pos p : Nat} {lit : List Nat}
    (h : Utf8.matchBytes bytes fwd pos lit = some p) : ∀ b ∈ lit, b ∈ bytes := by
  unfold Utf8.matchBytes at h
  cases fwd with
  | true =>
    simp only [if_true] at h
    split at h
    · cases h
    · split at h
      · rename_i heq
        have heq := eq_of_beq heq
        intro b hb; rw [← heq] at hb; exact mem_of_mem_slice hb
      · cases h
  | false =>
    simp only [Bool.false_eq_true, if_false] at h
    split at h
    · cases h
    · split at h
      · rename_i heq
        have heq := eq_of_beq heq
        intro b hb; rw [← heq] at hb; exact mem_of_mem_slice hb
      · cases h

theorem scm_oneStep_ascii {prog : Prog} {inp : Input} (hw : wfProg prog = true) (hk : inp.kind = .ascii)
    (ha : asciiOK inp = true) {ip mn : Nat} {mx : Option Nat} {g : Bool}
    (hi : prog.insns[ip]? = some (.loop1 mn mx g)) {m : Scm}
    (hm : Bt.scmSelect prog inp.kind ip = .scm m) {fwd : Bool} {q q' : Nat} (hq : q ≤ inp.len)
    (h : m.matches inp fwd q = .ok (some q')) : OneStep inp fwd q q' := by
  rcases scmSelect_shape hw hi hm with hf | hf | ⟨c, hc, rfl⟩
  · obtain ⟨c, hn⟩ := elemForm_next hf h
    obtain ⟨h1, h2⟩ := next_ascii_one hk hq hn
    exact oneStep_ascii hk h1 h2
  · obtain ⟨b, _, hn⟩ := byteForm_nextByte hf h
    obtain ⟨r, hr, hp⟩ := nextByte_ok inp fwd hq
    rw [hn] at hr
    cases hr
    obtain ⟨_, hle, h1, h2⟩ := hp b q' rfl
    exact oneStep_ascii hk (fun f => ⟨(h1 f).1, hle⟩) (fun f => ⟨(h2 f).1, hq⟩)
  · simp only [Scm.matches, Cursor.tryMatchLit, Input.matchBytes, Except.ok.injEq] at h
    have hall : ∀ b ∈ inp.bytes, b < 128 := by
      intro b hb
      have := Array.all_eq_true_iff_forall_mem.mp ha b hb
      simpa using this
    have hlen : (Utf8.encode c).length = 1 :=
      encode_length_one_of_ascii (fun b hb => hall b (matchBytes_mem h b hb))
    obtain ⟨hle, h1, h2⟩ := matchBytes_range hq h
    rw [hlen] at h1 h2
    exact oneStep_ascii hk (fun f => ⟨h1 f, hle⟩) (fun f => ⟨h2 f, hq⟩)

/-! ## UTF-8 -/

section Utf8
open Regress.Utf8
variable {inp : Input} {cs : List Nat}

theorem oneStep_utf8_fwd (ht : Utf8Text inp cs) {k : Nat} (hk : k < cs.length) :
    OneStep inp true (off cs k) (off cs (k + 1)) := by
  unfold OneStep
  simp only [if_true, Input.nextRightPos, Input.nextLeftPos, ht.kind, ht.bytes]
  refine ⟨nextRightPos_roundtrip ht.scalar hk, ?_⟩
  have := nextLeftPos_roundtrip ht.scalar (k := k + 1) (by omega) (by omega)
  simpa using this

theorem oneStep_utf8_bwd (ht : Utf8Text inp cs) {k : Nat} (hk0 : 0 < k) (hk : k ≤ cs.length) :
    OneStep inp false (off cs k) (off cs (k - 1)) := by
  unfold OneStep
  simp only [Bool.false_eq_true, if_false, Input.nextRightPos, Input.nextLeftPos, ht.kind, ht.bytes]
  refine ⟨nextLeftPos_roundtrip ht.scalar hk0 hk, ?_⟩
  have := nextRightPos_roundtrip ht.scalar (k := k - 1) (by omega)
  rwa [show k - 1 + 1 = k by omega] at this

/-- `cursor::next` from the `k`-th boundary ends at the neighbouring boundary. -/
theorem next_utf8_one (ht : Utf8Text inp cs) {fwd : Bool} {k c q' : Nat} (hk : k ≤ cs.length)
    (h : Cursor.next inp fwd (off cs k) = .ok (some (c, q'))) : OneStep inp fwd (off cs k) q' := by
  cases fwd with
  | true =>
    simp only [Cursor.next, if_true, Input.nextRight, ht.kind, ht.bytes] at h
    by_cases hlt : k < cs.length
    · rw [nextRight_roundtrip ht.scalar hlt] at h
      simp only [Except.ok.injEq, Option.some.injEq, Prod.mk.injEq] at h
      rw [← h.2]
      exact oneStep_utf8_fwd ht hlt
    · have : k = cs.length := by omega
      subst this
      rw [nextRight_roundtrip_end] at h
      cases h
  | false =>
    simp only [Cursor.next, Bool.false_eq_true, if_false, Input.nextLeft, ht.kind, ht.bytes] at h
    by_cases h0 : 0 < k
    · rw [nextLeft_roundtrip ht.scalar h0 hk] at h
      simp only [Except.ok.injEq, Option.some.injEq, Prod.mk.injEq] at h
      rw [← h.2]
      exact oneStep_utf8_bwd ht h0 hk
    · have : k = 0 := by omega
      subst this
      rw [nextLeft_roundtrip_start] at h
      cases h

/-- `cursor::next_byte` from the `k`-th boundary reading a byte `< 128` ends at the neighbouring
boundary. -/
theorem nextByte_utf8_one (ht : Utf8Text inp cs) {fwd : Bool} {k b q' : Nat} (hk : k ≤ cs.length)
    (hb : b < 128) (h : Cursor.nextByte inp fwd (off cs k) = .ok (some (b, q'))) :
    OneStep inp fwd (off cs k) q' := by
  have hle : off cs k ≤ inp.len := by unfold Input.len; rw [ht.bytes]; exact off_le_size _ _
  obtain ⟨r, hr, hp⟩ := nextByte_ok inp fwd hle
  rw [h] at hr
  cases hr
  obtain ⟨_, _, hf, hbk⟩ := hp b q' rfl
  rw [ht.bytes] at hf hbk
  apply next_utf8_one ht hk (c := b)
  cases fwd with
  | true =>
    obtain ⟨rfl, hb0⟩ := hf rfl
    have hlt := lt_of_getElem?_eq_some hb0
    have hne : (off cs k == (text cs).size) = false := beq_eq_false_iff_ne.mpr (Nat.ne_of_lt hlt)
    simp only [Cursor.next, if_true, Input.nextRight, ht.kind, ht.bytes]
    unfold nextRight
    simp only [hne, Bool.false_eq_true, if_false, hb0, hb, if_true]
  | false =>
    obtain ⟨hpp, hb0⟩ := hbk rfl
    have hq' : off cs k - 1 = q' := by omega
    have hne : (off cs k == 0) = false := beq_eq_false_iff_ne.mpr (by omega)
    simp only [Cursor.next, Bool.false_eq_true, if_false, Input.nextLeft, ht.kind, ht.bytes]
    unfold nextLeft
    simp only [hne, Bool.false_eq_true, if_false, hq', hb0, hb, if_true]

/-- `match_bytes` of a one-scalar encoding from the `k`-th boundary ends at the neighbouring
boundary. -/
theorem matchBytes_utf8_one (ht : Utf8Text inp cs) {fwd : Bool} {k c q' : Nat} (hk : k ≤ cs.length)
    (hc : isScalar c = true) (h : matchBytes (text cs) fwd (off cs k) (encode c) = some q') :
    OneStep inp fwd (off cs k) q' := by
  have hds : AllScalar [c] := by intro x hx; simp only [List.mem_singleton] at hx; subst hx; exact hc
  have he : encodeAll [c] = encode c := by simp
  rw [← he] at h
  cases fwd with
  | true =>
    obtain ⟨hpre, rfl⟩ := (matchBytes_iff_chars ht.scalar hds k q').mp h
    have hl := hpre.length_le
    simp only [List.length_cons, List.length_nil, List.length_drop] at hl
    exact oneStep_utf8_fwd ht (by omega)
  | false =>
    obtain ⟨hsuf, rfl⟩ := (matchBytes_back_iff_chars ht.scalar hds hk q').mp h
    have hl := hsuf.length_le
    simp only [List.length_cons, List.length_nil, List.length_take] at hl
    exact oneStep_utf8_bwd ht (by omega) hk

end Utf8

theorem scm_oneStep_utf8 {prog : Prog} {inp : Input} {cs : List Nat} (hw : wfProg prog = true)
    (ht : Utf8Text inp cs) {ip mn : Nat} {mx : Option Nat} {g : Bool}
    (hi : prog.insns[ip]? = some (.loop1 mn mx g)) {m : Scm}
    (hm : Bt.scmSelect prog inp.kind ip = .scm m) {fwd : Bool} {q q' : Nat} (hq : VUtf8 inp q)
    (h : m.matches inp fwd q = .ok (some q')) : OneStep inp fwd q q' := by
  obtain ⟨k, hk, rfl⟩ := (vutf8_iff ht).mp hq
  rcases scmSelect_shape hw hi hm with hf | hf | ⟨c, hc, rfl⟩
  · obtain ⟨c, hn⟩ := elemForm_next hf h
    exact next_utf8_one ht hk hn
  · obtain ⟨b, hb, hn⟩ := byteForm_nextByte hf h
    exact nextByte_utf8_one ht hk hb hn
  · simp only [Scm.matches, Cursor.tryMatchLit, Input.matchBytes, Except.ok.injEq, ht.bytes] at h
    exact matchBytes_utf8_one ht hk hc h

/-! ## Non-vacuity -/

/-- `(?:é)*` then goal: a `loop1` whose body is the two-byte sequence of `é`. -/
def exProgSeq : Prog :=
  { insns := #[.loop1 0 none true, .byteSeq [0xC3, 0xA9], .goal], brackets := #[],
    startPred := .arbitrary, loops := 0, groups := 0, names := [], flags := {} }

/-- `[ab]*` (as a `byteSet`) then goal. -/
def exProgSet : Prog :=
  { insns := #[.loop1 0 none true, .byteSet [0x61, 0x62], .goal], brackets := #[],
    startPred := .arbitrary, loops := 0, groups := 0, names := [], flags := {} }

def exInpUtf8 : Input := { kind := .utf8, bytes := Utf8.text [0x61, 0xE9, 0x62], unicode := false }
def exInpAscii : Input := { kind := .ascii, bytes := #[0x61, 0x62, 0x63], unicode := false }

example : OneStep exInpAscii false 2 1 :=
  scm_oneStep_ascii (prog := exProgSet) (ip := 0) (m := .byteArraySet [0x61, 0x62])
    (by decide +kernel) rfl (by decide +kernel) rfl rfl (by decide +kernel)
    (by decide +kernel)

example : OneStep exInpUtf8 true 1 3 :=
  scm_oneStep_utf8 (prog := exProgSeq) (cs := [0x61, 0xE9, 0x62]) (ip := 0)
    (m := .byteSeq [0xC3, 0xA9]) (by decide +kernel) ⟨rfl, rfl, by decide +kernel⟩ rfl
    rfl (by decide +kernel) (by decide +kernel)

example : OneStep exInpUtf8 false 3 1 :=
  scm_oneStep_utf8 (prog := exProgSeq) (cs := [0x61, 0xE9, 0x62]) (ip := 0)
    (m := .byteSeq [0xC3, 0xA9]) (by decide +kernel) ⟨rfl, rfl, by decide +kernel⟩ rfl
    rfl (by decide +kernel) (by decide +kernel)

end Regress.VM.L1

namespace Regress.VM.L1
open Regress.VM Regress.VM.Bt Regress.VM.Safety Regress.VM.Sim

/-! ## What `run_scm_loop` computes -/

/-- The body matcher of the `loop1` at `ip` as a function of the position (`none`: one of the
panic sites of `with_scm_loop_impl`). -/
def bodyFn (prog : Prog) (inp : Input) (fwd : Bool) (ip : Nat) :
    Option (Nat → Except Unit (Option Nat)) :=
  match scmSelect prog inp.kind ip with
  | .scm m => some (m.matches inp fwd)
  | .charNone => some (fun _ => .ok none)
  | _ => none

/-- `n` consecutive matches of `μ` from `p`: `some` end position, or `none` if one of them fails. -/
inductive Exactly (μ : Nat → Except Unit (Option Nat)) : Nat → Nat → Option Nat → Prop
  | zero (p : Nat) : Exactly μ 0 p (some p)
  | fail (n p : Nat) : μ p = .ok none → Exactly μ (n + 1) p none
  | step (n p p' : Nat) (r : Option Nat) : μ p = .ok (some p') → Exactly μ n p' r →
      Exactly μ (n + 1) p r

/-- Greedy matching of at most `limit` further characters from `p` ends at `c`. -/
inductive UpTo (μ : Nat → Except Unit (Option Nat)) : Option Nat → Nat → Nat → Prop
  | zero (p : Nat) : UpTo μ (some 0) p p
  | stop (limit : Option Nat) (p : Nat) : limit ≠ some 0 → μ p = .ok none → UpTo μ limit p p
  | step (limit : Option Nat) (p p' c : Nat) : limit ≠ some 0 → μ p = .ok (some p') →
      UpTo μ (limit.map (· - 1)) p' c → UpTo μ limit p c

theorem scmExactly_exactly (m : Scm) (inp : Input) (fwd : Bool) :
    ∀ (n p : Nat) (r : Option Nat), scmExactly m inp fwd n p = .ok r →
      Exactly (m.matches inp fwd) n p r := by
  intro n
  induction n with
  | zero => intro p r h; simp only [scmExactly] at h; cases h; exact .zero p
  | succ n ih =>
    intro p r h
    simp only [scmExactly] at h
    split at h
    · cases h
    · next hm => cases h; exact .fail n p hm
    · next p' hm => exact .step n p p' r hm (ih p' r h)

theorem scmUpTo_upTo (m : Scm) (inp : Input) (fwd : Bool) :
    ∀ (fuel : Nat) (limit : Option Nat) (p c : Nat), scmUpTo m inp fwd fuel limit p = .ok c →
      UpTo (m.matches inp fwd) limit p c := by
  intro fuel
  induction fuel with
  | zero => intro limit p c h; simp [scmUpTo] at h
  | succ fuel ih =>
    intro limit p c h
    simp only [scmUpTo] at h
    split at h
    · next hl =>
      cases h
      have : limit = some 0 := by simpa using hl
      subst this; exact .zero p
    · next hl =>
      have hl' : limit ≠ some 0 := by simpa using hl
      split at h
      · cases h
      · next hm => cases h; exact .stop limit p hl' hm
      · next p' hm => exact .step limit p p' c hl' hm (ih _ p' c h)

theorem exactly_never (n p : Nat) :
    Exactly (fun _ => (.ok none : Except Unit (Option Nat))) n p (if n = 0 then some p else none) := by
  cases n with
  | zero => exact .zero p
  | succ n => exact .fail n p rfl

theorem upTo_never (limit : Option Nat) (p : Nat) :
    UpTo (fun _ => (.ok none : Except Unit (Option Nat))) limit p p := by
  by_cases h : limit = some 0
  · subst h; exact .zero p
  · exact .stop limit p h rfl

/-- `with_scm_loop_impl`. -/
theorem withScmLoopImpl_spec {prog : Prog} {inp : Input} {fwd : Bool} {pos mn : Nat} {mx : Option Nat}
    {ip : Nat} {r : Option (Nat × Nat)} (h : withScmLoopImpl prog inp fwd pos mn mx ip = .ok r) :
    ∃ μ, bodyFn prog inp fwd ip = some μ ∧
      match r with
      | none => Exactly μ mn pos none
      | some (a, c) => Exactly μ mn pos (some a) ∧ UpTo μ (mx.map (· - mn)) a c := by
  unfold withScmLoopImpl at h
  unfold bodyFn
  split at h
  · next m hm =>
    refine ⟨_, by rw [hm], ?_⟩
    unfold runScmLoopImpl at h
    split at h
    · cases h
    · next he => cases h; exact scmExactly_exactly m inp fwd _ _ _ he
    · next a he =>
      have hE := scmExactly_exactly m inp fwd _ _ _ he
      cases mx with
      | none =>
        cases hc : scmUpTo m inp fwd (inp.len + 1) none a with
        | error e => simp [hc] at h
        | ok c =>
          simp only [hc, Except.ok.injEq] at h
          subst h
          exact ⟨hE, scmUpTo_upTo m inp fwd _ _ _ _ hc⟩
      | some v =>
        by_cases hv : v < mn
        · simp [hv] at h
        · cases hc : scmUpTo m inp fwd (inp.len + 1) (some (v - mn)) a with
          | error e => simp [hv, hc] at h
          | ok c =>
            simp only [hv, if_false, hc, Except.ok.injEq] at h
            subst h
            exact ⟨hE, scmUpTo_upTo m inp fwd _ _ _ _ hc⟩
  · next hm =>
    refine ⟨_, by rw [hm], ?_⟩
    split at h
    · next h0 =>
      cases h
      have : mn = 0 := by simpa using h0
      subst this
      exact ⟨.zero pos, upTo_never _ _⟩
    · next h0 =>
      cases h
      have : mn ≠ 0 := by simpa using h0
      have := exactly_never mn pos
      simpa [*] using this
  · cases h
  · cases h
  · cases h

/-- `with_scm_compute_max`. -/
theorem withScmComputeMax_spec {prog : Prog} {inp : Input} {fwd : Bool} {pos : Nat} {limit : Option Nat}
    {ip c : Nat} (h : withScmComputeMax prog inp fwd pos limit ip = .ok c) :
    ∃ μ, bodyFn prog inp fwd ip = some μ ∧ UpTo μ limit pos c := by
  unfold withScmComputeMax at h
  unfold bodyFn
  split at h
  · next m hm => exact ⟨_, by rw [hm], scmUpTo_upTo m inp fwd _ _ _ _ h⟩
  · next hm => cases h; exact ⟨_, by rw [hm], upTo_never _ _⟩
  · cases h
  · cases h
  · cases h

/-- **`run_scm_loop`**: the loop matches `mn` characters (to `a`), then greedily up to `mx - mn` more
(to `c`); it pushes one record iff `a ≠ c` and continues at `ip + 2` at `c` (greedy) or `a` (lazy). -/
theorem runScmLoop_spec {prog : Prog} {inp : Input} {fwd : Bool} {bts : Array BtInsn} {pos mn : Nat}
    {mx : Option Nat} {ip : Nat} {greedy : Bool} {r : Option (Nat × Nat × Array BtInsn)}
    (h : runScmLoop prog inp fwd bts pos mn mx ip greedy = .ok r) :
    ∃ μ, bodyFn prog inp fwd ip = some μ ∧
      match r with
      | none => Exactly μ mn pos none
      | some (k, p, bts') => ∃ a c, Exactly μ mn pos (some a) ∧ UpTo μ (mx.map (· - mn)) a c ∧
          k = ip + 2 ∧ p = (if greedy then c else a) ∧
          bts' = (if a != c then
            bts.push (if greedy then .greedyLoop1Char (ip + 2) a c else .nonGreedyLoop1Char (ip + 2) a c)
            else bts) := by
  unfold runScmLoop at h
  simp only [] at h
  cases greedy with
  | true =>
    simp only [if_true] at h
    split at h
    · cases h
    · next hw =>
      cases h
      obtain ⟨μ, hμ, hs⟩ := withScmLoopImpl_spec hw
      exact ⟨μ, hμ, hs⟩
    · next a c hw =>
      cases h
      obtain ⟨μ, hμ, hs⟩ := withScmLoopImpl_spec hw
      exact ⟨μ, hμ, a, c, hs.1, hs.2, rfl, rfl, rfl⟩
  | false =>
    simp only [Bool.false_eq_true, if_false] at h
    cases hw : withScmLoopImpl prog inp fwd pos mn (some mn) ip with
    | error e => rw [hw] at h; cases h
    | ok r0 =>
      obtain ⟨μ, hμ, hs⟩ := withScmLoopImpl_spec hw
      rw [hw] at h
      cases r0 with
      | none => simp only [] at h; cases h; exact ⟨μ, hμ, hs⟩
      | some ac =>
        obtain ⟨a, c0⟩ := ac
        simp only [] at h hs
        by_cases hlt : ltOpt mn mx = true
        · simp only [hlt, if_true] at h
          cases hc : withScmComputeMax prog inp fwd a (mx.map (· - mn)) ip with
          | error e => rw [hc] at h; cases h
          | ok c =>
            rw [hc] at h
            simp only [] at h
            cases h
            obtain ⟨μ', hμ', hu⟩ := withScmComputeMax_spec hc
            rw [hμ] at hμ'; cases hμ'
            exact ⟨μ, hμ, a, c, hs.1, hu, rfl, rfl, rfl⟩
        · simp only [hlt, if_false, Bool.false_eq_true] at h
          cases h
          refine ⟨μ, hμ, a, a, hs.1, ?_, rfl, rfl, rfl⟩
          have : mx.map (· - mn) = some 0 := by
            cases mx with
            | none => simp [ltOpt] at hlt
            | some v => simp only [ltOpt, decide_eq_true_eq] at hlt; simp; omega
          rw [this]; exact .zero a

/-! ## One PikeVM dispatch of the `loop1` instruction -/

/-- The result of running the body instruction of a `loop1` on the PikeVM, in terms of the result
`μr` of the body matcher at the same position. -/
inductive BodyRes (μr : Except Unit (Option Nat)) (s : Pk.State) (steps peak : Nat) : Pk.SM → Prop
  | err (e : String) : BodyRes μr s steps peak (.err e)
  | cont (p : Nat) (s' : Pk.State) : μr = .ok (some p) → s'.pos = p → s'.loops = s.loops →
      s'.groups = s.groups → s'.loop1Iters = s.loop1Iters → BodyRes μr s steps peak (.cont s' steps peak)
  | fail (s' : Pk.State) : μr = .ok none → s'.loops = s.loops → s'.groups = s.groups →
      s'.loop1Iters = s.loop1Iters → BodyRes μr s steps peak (.fail s' steps peak)

theorem body_nextElem (inp : Input) (fwd : Bool) (s : Pk.State) (g : Nat → Bool) (site : String)
    (steps peak : Nat) :
    BodyRes (match Cursor.next inp fwd s.pos with
      | .error e => .error e
      | .ok none => .ok none
      | .ok (some (c, p)) => .ok (if g c then some p else none)) s steps peak
      (Pk.nextElemArm inp fwd s (fun c => .ok (g c)) site steps peak) := by
  unfold Pk.nextElemArm
  rcases Cursor.next inp fwd s.pos with e | (_ | ⟨c, p⟩)
  · exact .err _
  · exact .fail _ rfl rfl rfl rfl
  · simp only [Pk.nextOrFail]
    by_cases hg : g c = true
    · simp only [hg, if_true]; exact .cont p _ rfl rfl rfl rfl rfl
    · simp only [hg, if_false, Bool.false_eq_true]; exact .fail _ rfl rfl rfl rfl

theorem body_scmArm (r : Except Unit (Option Nat)) (s : Pk.State) (site : String) (steps peak : Nat) :
    BodyRes r s steps peak (Pk.scmArm r s site steps peak) := by
  unfold Pk.scmArm
  rcases r with e | (_ | p)
  · exact .err _
  · exact .fail _ rfl rfl rfl rfl
  · exact .cont p _ rfl rfl rfl rfl rfl

/-- **The body of a `loop1` on the PikeVM** computes the body matcher `μ` of the backtracker. -/
theorem pk_body {prog : Prog} {inp : Input} (hok : inpOK inp = true) {fwd : Bool} {ip : Nat}
    {μ : Nat → Except Unit (Option Nat)} (hμ : bodyFn prog inp fwd ip = some μ) (look : Pk.Runner)
    (d : Nat) (s : Pk.State) (hip : s.ip = ip + 1) (steps peak : Nat) :
    BodyRes (μ s.pos) s steps peak (Pk.tryMatchState prog inp look (d + 1) s fwd steps peak) := by
  unfold bodyFn scmSelect at hμ
  rw [Pk.tryMatchState]
  rw [hip]
  cases hb : prog.insns[ip + 1]? with
  | none => simp [hb] at hμ
  | some i =>
    simp only [hb] at hμ
    cases i
    all_goals try simp only [] at hμ
    all_goals try simp only []
    all_goals try (cases hμ; done)
    case char c =>
      cases he : elementTryFrom inp.kind c with
      | some c' =>
        have := elementTryFrom_some he; subst this
        simp only [he, Option.some.injEq] at hμ; subst hμ
        have := body_nextElem inp fwd s (fun c2 => c' == c2)
          "try_match_state: Char input read out of range" steps peak
        unfold Scm.matches
        rcases hn : Cursor.next inp fwd s.pos with e | (_ | ⟨c2, p⟩) <;> simp only [hn] at this ⊢
        · exact this
        · exact this
        · have e : (c2 == c') = (c' == c2) := by
            by_cases h : c2 = c'
            · subst h; simp
            · have h' : ¬ c' = c2 := fun e => h e.symm
              rw [beq_eq_false_iff_ne.2 h, beq_eq_false_iff_ne.2 h']
          rw [e]; exact this
      | none =>
        simp only [he, Option.some.injEq] at hμ; subst hμ
        simp only []
        unfold Pk.nextElemArm
        cases hn : Cursor.next inp fwd s.pos with
        | error e => exact .err _
        | ok r =>
          rcases r with _ | ⟨c2, p⟩
          · exact .fail _ rfl rfl rfl rfl
          · simp only [Pk.nextOrFail]
            have h2 := next_elem_ok hok hn
            by_cases hc : c = c2
            · subst hc; rw [he] at h2; cases h2
            · simp only [beq_iff_eq, hc, if_false]
              exact .fail _ rfl rfl rfl rfl
    case charSet cs =>
      simp only [Option.some.injEq] at hμ; subst hμ
      exact body_nextElem inp fwd s (fun c => charsetContains cs c) _ steps peak
    case matchAny =>
      simp only [Option.some.injEq] at hμ; subst hμ
      have := body_nextElem inp fwd s (fun _ => true)
        "try_match_state: MatchAny input read out of range" steps peak
      unfold Scm.matches
      rcases hn : Cursor.next inp fwd s.pos with e | (_ | ⟨c2, p⟩) <;> simp only [hn] at this ⊢ <;>
        simpa using this
    case matchAnyExceptLineTerminator =>
      simp only [Option.some.injEq] at hμ; subst hμ
      exact body_nextElem inp fwd s (fun c => !isLineTerminator c) _ steps peak
    case bracket idx =>
      cases hbr : prog.brackets[idx]? with
      | none => simp [hbr] at hμ
      | some bc =>
        simp only [hbr, Option.some.injEq] at hμ; subst hμ
        simp only []
        exact body_nextElem inp fwd s (fun c => bracketTest bc c) _ steps peak
    case asciiBracket bm =>
      simp only [Option.some.injEq] at hμ; subst hμ
      exact body_scmArm _ s _ steps peak
    case byteSet bs =>
      simp only [Option.some.injEq] at hμ; subst hμ
      exact body_scmArm _ s _ steps peak
    case byteSeq bs =>
      by_cases hlen : 1 ≤ bs.length ∧ bs.length ≤ 6
      · simp only [hlen, and_self, if_true, Option.some.injEq] at hμ; subst hμ
        exact body_scmArm _ s _ steps peak
      · simp only [hlen, if_false] at hμ; cases hμ

/-- The PikeVM state that leaves the loop. -/
def exitState (s : Pk.State) : Pk.State := { s with ip := s.ip + 2, loop1Iters := 0 }
/-- The PikeVM state that has matched one more character. -/
def iterState (s : Pk.State) (p : Nat) : Pk.State := { s with pos := p, loop1Iters := s.loop1Iters + 1 }

/-- What one dispatch of `Loop1CharBody` does, given the result `tp` of the body (`none` also when
`iters = max`). -/
inductive L1Tick (mn : Nat) (g : Bool) (s : Pk.State) (tp : Option Nat) (steps peak : Nat) :
    Pk.SM → Prop
  | err (e : String) : L1Tick mn g s tp steps peak (.err e)
  | fail (sx : Pk.State) : tp = none → s.loop1Iters < mn → L1Tick mn g s tp steps peak (.fail sx steps peak)
  | exit : tp = none → mn ≤ s.loop1Iters → L1Tick mn g s tp steps peak (.cont (exitState s) steps peak)
  | iter (p : Nat) : tp = some p → s.loop1Iters < mn →
      L1Tick mn g s tp steps peak (.cont (iterState s p) steps peak)
  | splitG (p : Nat) : tp = some p → mn ≤ s.loop1Iters → g = true →
      L1Tick mn g s tp steps peak (.split (exitState s) (iterState s p) steps peak)
  | splitL (p : Nat) : tp = some p → mn ≤ s.loop1Iters → g = false →
      L1Tick mn g s tp steps peak (.split (iterState s p) (exitState s) steps peak)

theorem state_eta {s s' : Pk.State} (h1 : s'.loops = s.loops) (h2 : s'.groups = s.groups)
    (h3 : s'.loop1Iters = s.loop1Iters) : ({ s' with ip := s.ip, pos := s.pos } : Pk.State) = s := by
  cases s; cases s'; simp_all

theorem l1tick_tail (mn : Nat) (g : Bool) (s : Pk.State) (tp : Option Nat) (steps peak : Nat) :
    L1Tick mn g s tp steps peak
      (match tp, decide (s.loop1Iters ≥ mn) with
        | none, false => .fail s steps peak
        | none, true => .cont { s with ip := s.ip + 2, loop1Iters := 0 } steps peak
        | some tp, false => .cont { s with pos := tp, loop1Iters := s.loop1Iters + 1 } steps peak
        | some tp, true =>
          if g then
            .split { s with ip := s.ip + 2, loop1Iters := 0 }
              { s with pos := tp, loop1Iters := s.loop1Iters + 1 } steps peak
          else
            .split { s with pos := tp, loop1Iters := s.loop1Iters + 1 }
              { s with ip := s.ip + 2, loop1Iters := 0 } steps peak) := by
  cases tp with
  | none =>
    by_cases h : s.loop1Iters ≥ mn
    · simp only [h, decide_true]; exact .exit rfl h
    · simp only [h, decide_false]; exact .fail _ rfl (by omega)
  | some p =>
    by_cases h : s.loop1Iters ≥ mn
    · simp only [h, decide_true]
      cases g
      · simp only [Bool.false_eq_true, if_false]; exact .splitL p rfl h rfl
      · simp only [if_true]; exact .splitG p rfl h rfl
    · simp only [h, decide_false]; exact .iter p rfl (by omega)

/-- **One dispatch of `Loop1CharBody` on the PikeVM.** -/
theorem pk_loop1_tick {prog : Prog} {inp : Input} (hok : inpOK inp = true) {fwd : Bool} {s : Pk.State}
    {mn : Nat} {mx : Option Nat} {g : Bool} (hi : prog.insns[s.ip]? = some (.loop1 mn mx g))
    {μ : Nat → Except Unit (Option Nat)} (hμ : bodyFn prog inp fwd s.ip = some μ) (look : Pk.Runner)
    (d steps peak : Nat) (tp : Option Nat)
    (htp : if ltMax s.loop1Iters mx = true then μ s.pos = .ok tp else tp = none) :
    L1Tick mn g s tp steps peak (Pk.tryMatchState prog inp look (d + 2) s fwd steps peak) := by
  rw [Pk.tryMatchState]
  simp only [hi]
  by_cases hlt : ltMax s.loop1Iters mx = true
  · simp only [hlt, if_true] at htp ⊢
    have hb := pk_body hok hμ look d { s with ip := s.ip + 1 } rfl steps peak
    simp only [] at hb
    rw [htp] at hb
    generalize Pk.tryMatchState prog inp look (d + 1) { s with ip := s.ip + 1 } fwd steps peak = r at hb
    cases hb with
    | err e => exact .err _
    | cont p s' h1 h2 h3 h4 h5 =>
      simp only [Except.ok.injEq] at h1
      subst h1
      have e := state_eta (s := s) h3 h4 h5
      have h3' : s'.loops = s.loops := h3
      have h4' : s'.groups = s.groups := h4
      simp only [] at e ⊢
      rw [e, h2]
      simp only [h3', h4']
      exact l1tick_tail mn g s (some p) steps peak
    | fail s' h1 h3 h4 h5 =>
      simp only [Except.ok.injEq] at h1
      subst h1
      have e := state_eta (s := s) h3 h4 h5
      have h3' : s'.loops = s.loops := h3
      have h4' : s'.groups = s.groups := h4
      simp only [] at e ⊢
      rw [e]
      simp only [h3', h4']
      exact l1tick_tail mn g s none steps peak
  · simp only [hlt, if_false, Bool.false_eq_true] at htp ⊢
    subst htp
    exact l1tick_tail mn g s none steps peak

/-! ## The simulation relation with `…Loop1Char` records -/

/-- The saved PikeVM states (top first) that correspond to the choice records of `bts`, for a run in
direction `fwd`. Extends `Sim.SnapRel` by the single-char loop records:
* a dead record (`max = min`) stands for nothing;
* `GreedyLoop1Char { k, min, max }` stands for the exit states pending at `prev max, …, min`
  (top = `prev max`): defined through the record `{ k, min, prev max }` the backtracker rewrites it to;
* `NonGreedyLoop1Char { k, min, max }` stands for ONE state: the PikeVM state that iterates, at the
  `loop1` instruction `k - 2`, at the position `next min`, from which `max` is where the iteration
  stops. -/
inductive Snap1 (prog : Prog) (inp : Input) (A : Bool → Nat → Nat → Prop) (fwd : Bool) :
    Array BtInsn → Bt.State → List Pk.State → Prop
  | bottom (b : Array BtInsn) (st : Bt.State) : Snap1 prog inp A fwd (b.push .exhausted) st []
  | choice (b : Array BtInsn) (st : Bt.State) (ip pos : Nat) (s : Pk.State) (saved : List Pk.State) :
      s.ip = ip → s.pos = pos → s.loop1Iters = 0 → StRel prog ip st s → Snap1 prog inp A fwd b st saved →
      Snap1 prog inp A fwd (b.push (.setPosition ip pos)) st (s :: saved)
  | loopRec (b : Array BtInsn) (st : Bt.State) (id : Nat) (d : LoopData) (saved : List Pk.State) :
      Snap1 prog inp A fwd b { st with loops := st.loops.setIfInBounds id d } saved →
      Snap1 prog inp A fwd (b.push (.setLoopData id d)) st saved
  | groupRec (b : Array BtInsn) (st : Bt.State) (id : Nat) (d : GroupData) (saved : List Pk.State) :
      Snap1 prog inp A fwd b { st with groups := st.groups.setIfInBounds id d } saved →
      Snap1 prog inp A fwd (b.push (.setCaptureGroup id d)) st saved
  | ngl (b : Array BtInsn) (st : Bt.State) (ip origPos : Nat) (data : LoopData) (id mn : Nat)
      (mx : Option Nat) (gr : Bool) (ex : Nat) (s : Pk.State) (saved : List Pk.State) :
      prog.insns[ip]? = some (.enterLoop id mn mx gr ex) → s.ip = ip + 1 → s.pos = data.entry →
      s.loop1Iters = 0 →
      StRel prog (ip + 1)
        { st with loops := st.loops.setIfInBounds id { iters := data.iters + 1, entry := data.entry } } s →
      Snap1 prog inp A fwd b { st with loops := st.loops.setIfInBounds id { data with entry := origPos } } saved →
      Snap1 prog inp A fwd (b.push (.enterNonGreedyLoop ip origPos data)) st (s :: saved)
  | deadG (b : Array BtInsn) (st : Bt.State) (k mn : Nat) (saved : List Pk.State) :
      Snap1 prog inp A fwd b st saved → Snap1 prog inp A fwd (b.push (.greedyLoop1Char k mn mn)) st saved
  | deadL (b : Array BtInsn) (st : Bt.State) (k mn : Nat) (saved : List Pk.State) :
      Snap1 prog inp A fwd b st saved → Snap1 prog inp A fwd (b.push (.nonGreedyLoop1Char k mn mn)) st saved
  | g1 (b : Array BtInsn) (st : Bt.State) (k mn mx p : Nat) (s : Pk.State) (saved : List Pk.State) :
      mx ≠ mn → OneStep inp fwd p mx → s.ip = k → s.pos = p → s.loop1Iters = 0 → StRel prog k st s →
      Snap1 prog inp A fwd (b.push (.greedyLoop1Char k mn p)) st saved →
      Snap1 prog inp A fwd (b.push (.greedyLoop1Char k mn mx)) st (s :: saved)
  | ng1 (b : Array BtInsn) (st : Bt.State) (ip mnI : Nat) (mxI : Option Nat)
      (μ : Nat → Except Unit (Option Nat)) (mn mx j p0 : Nat) (s : Pk.State) (saved : List Pk.State) :
      mx ≠ mn → prog.insns[ip]? = some (.loop1 mnI mxI false) → bodyFn prog inp fwd ip = some μ →
      A fwd ip p0 → μ mn = .ok (some s.pos) → OneStep inp fwd mn s.pos →
      s.ip = ip → s.loop1Iters = j + 1 → mnI ≤ j + 1 → UpTo μ (mxI.map (· - (j + 1))) s.pos mx →
      StRel prog (ip + 2) st s → Snap1 prog inp A fwd b st saved →
      Snap1 prog inp A fwd (b.push (.nonGreedyLoop1Char (ip + 2) mn mx)) st (s :: saved)

/-- What `try_backtrack` does on a stack related to the saved PikeVM states: it resumes the top saved
state — except for a `NonGreedyLoop1Char` record, where the PikeVM's saved state still has to perform
the iteration (one more tick) that the backtracker's record already accounts for. -/
inductive BtSim1 (prog : Prog) (inp : Input) (A : Bool → Nat → Nat → Prop) (fwd : Bool) (r : BtRes) :
    List Pk.State → Prop
  | exhausted (st' : Bt.State) (bts' : Array BtInsn) : r = .exhausted st' bts' → BtSim1 prog inp A fwd r []
  | resumed (s : Pk.State) (saved' : List Pk.State) (st' : Bt.State) (bts' : Array BtInsn) :
      r = .resumed s.ip s.pos st' bts' → StRel prog s.ip st' s → s.loop1Iters = 0 →
      Snap1 prog inp A fwd bts' st' saved' → BtSim1 prog inp A fwd r (s :: saved')
  | lazy (s : Pk.State) (saved' : List Pk.State) (st' : Bt.State) (b : Array BtInsn) (ip mnI : Nat)
      (mxI : Option Nat) (μ : Nat → Except Unit (Option Nat)) (mx j p0 : Nat) :
      r = .resumed (ip + 2) s.pos st' (b.push (.nonGreedyLoop1Char (ip + 2) s.pos mx)) →
      prog.insns[ip]? = some (.loop1 mnI mxI false) → bodyFn prog inp fwd ip = some μ → A fwd ip p0 →
      s.ip = ip → s.loop1Iters = j + 1 → mnI ≤ j + 1 → UpTo μ (mxI.map (· - (j + 1))) s.pos mx →
      StRel prog (ip + 2) st' s → Snap1 prog inp A fwd b st' saved' → BtSim1 prog inp A fwd r (s :: saved')

theorem tryBacktrack_sim1 (prog : Prog) (inp : Input) (A : Bool → Nat → Nat → Prop) (fwd : Bool)
    {bts : Array BtInsn} {st : Bt.State} {saved : List Pk.State} (h : Snap1 prog inp A fwd bts st saved) :
    (∃ e, tryBacktrack prog inp fwd st bts = .err e) ∨
      BtSim1 prog inp A fwd (tryBacktrack prog inp fwd st bts) saved := by
  induction h with
  | bottom b st => right; exact .exhausted st _ (by rw [tryBacktrack_push])
  | choice b st ip pos s saved h1 h2 h0 h3 h4 _ =>
    right; subst h1; subst h2
    exact .resumed s saved st b (by rw [tryBacktrack_push]) h3 h0 h4
  | loopRec b st id d saved _ ih =>
    rw [tryBacktrack_push]
    simp only []
    split
    · exact ih
    · left; exact ⟨_, rfl⟩
  | groupRec b st id d saved _ ih =>
    rw [tryBacktrack_push]
    simp only []
    split
    · exact ih
    · left; exact ⟨_, rfl⟩
  | ngl b st ip origPos data id mn mx gr ex s saved h1 h2 h3 h0 h4 h5 _ =>
    rw [tryBacktrack_push]
    simp only [h1]
    split
    · right
      refine .resumed s saved _ _ (by rw [h2, h3]) (by rw [h2]; exact h4) h0 ?_
      refine .loopRec _ _ _ _ _ (.loopRec _ _ _ _ _ ?_)
      simpa [Array.setIfInBounds_setIfInBounds] using h5
    · left; exact ⟨_, rfl⟩
  | deadG b st k mn saved _ ih =>
    rw [tryBacktrack_push]
    simpa using ih
  | deadL b st k mn saved _ ih =>
    rw [tryBacktrack_push]
    simpa using ih
  | g1 b st k mn mx p s saved hne hos h1 h2 h0 h3 h4 _ =>
    right
    rw [tryBacktrack_push]
    have hne' : (mx == mn) = false := by simpa using hne
    simp only [hne', Bool.false_eq_true, if_false]
    have hstep : (if fwd = true then inp.nextLeftPos mx else inp.nextRightPos mx) = .ok (some p) := by
      unfold OneStep at hos
      cases fwd
      · simp only [Bool.false_eq_true, if_false] at hos ⊢; exact hos.2
      · simp only [if_true] at hos ⊢; exact hos.2
    rw [hstep]
    subst h1; subst h2
    exact .resumed s saved st _ rfl h3 h0 h4
  | ng1 b st ip mnI mxI μ mn mx j p0 s saved hne hi hμ hA hm hos h1 h2 h3 hu h4 h5 _ =>
    right
    rw [tryBacktrack_push]
    have hne' : (mx == mn) = false := by simpa using hne
    simp only [hne', Bool.false_eq_true, if_false]
    have hstep : (if fwd = true then inp.nextRightPos mn else inp.nextLeftPos mn) = .ok (some s.pos) := by
      unfold OneStep at hos
      cases fwd
      · simp only [Bool.false_eq_true, if_false] at hos ⊢; exact hos.1
      · simp only [if_true] at hos ⊢; exact hos.1
    rw [hstep]
    exact .lazy s saved st b ip mnI mxI μ mx j p0 rfl hi hμ hA h1 h2 h3 hu h4 h5

/-- Inversion: a dead greedy record stands for nothing. -/
theorem Snap1.of_deadG {prog : Prog} {inp : Input} {A : Bool → Nat → Nat → Prop} {fwd : Bool}
    {b : Array BtInsn} {st : Bt.State} {k mn : Nat} {saved : List Pk.State}
    (h : Snap1 prog inp A fwd (b.push (.greedyLoop1Char k mn mn)) st saved) :
    Snap1 prog inp A fwd b st saved := by
  generalize hx : b.push (BtInsn.greedyLoop1Char k mn mn) = x at h
  cases h <;> (have hx' := Array.push_eq_push.1 hx) <;> obtain ⟨hr, hb⟩ := hx' <;> try cases hr
  · subst hb; assumption
  · exact absurd rfl ‹mn ≠ mn›

/-! ## Changing dead loop slots; pushing saved groups -/

/-- The address at which a choice record resumes (the `loop1` records: their continuation). -/
def resumeIp1 : BtInsn → Option Nat
  | .setPosition ip _ => some ip
  | .enterNonGreedyLoop ip _ _ => some (ip + 1)
  | .greedyLoop1Char k _ _ => some k
  | .nonGreedyLoop1Char k _ _ => some k
  | _ => none

theorem Snap1.congr {prog : Prog} {inp : Input} {A : Bool → Nat → Nat → Prop} {fwd : Bool}
    {D : Nat → Bool} {bts : Array BtInsn} {st : Bt.State}
    {saved : List Pk.State} (h : Snap1 prog inp A fwd bts st saved) :
    ∀ {st' : Bt.State}, Agree D (fun _ => false) st' st →
      (∀ r ∈ bts, ∀ x, resumeIp1 r = some x → ∀ id, D id = true → live prog id x = false) →
      Snap1 prog inp A fwd bts st' saved := by
  induction h with
  | bottom b st => intro st' _ _; exact .bottom _ _
  | choice b st ip pos s saved h1 h2 h0 h3 _ ih =>
    intro st' ha hd
    refine .choice _ _ _ _ _ _ h1 h2 h0 (h3.congr ha ?_) (ih ha ?_)
    · exact hd _ (Array.mem_push.2 (Or.inr rfl)) ip rfl
    · exact fun r hr => hd r (Array.mem_push.2 (Or.inl hr))
  | loopRec b st id d saved _ ih =>
    intro st' ha hd
    refine .loopRec _ _ _ _ _ (ih (ha.restore prog (.setLoopData id d)) ?_)
    exact fun r hr => hd r (Array.mem_push.2 (Or.inl hr))
  | groupRec b st id d saved _ ih =>
    intro st' ha hd
    refine .groupRec _ _ _ _ _ (ih (ha.restore prog (.setCaptureGroup id d)) ?_)
    exact fun r hr => hd r (Array.mem_push.2 (Or.inl hr))
  | ngl b st ip origPos data id mn mx gr ex s saved h1 h2 h3 h0 h4 _ ih =>
    intro st' ha hd
    refine .ngl _ _ _ _ _ _ _ _ _ _ _ _ h1 h2 h3 h0 ?_ (ih (ha.restore prog (.setLoopData id _)) ?_)
    · exact h4.congr (ha.restore prog (.setLoopData id _)) (hd _ (Array.mem_push.2 (Or.inr rfl)) (ip + 1) rfl)
    · exact fun r hr => hd r (Array.mem_push.2 (Or.inl hr))
  | deadG b st k mn saved _ ih =>
    intro st' ha hd
    exact .deadG _ _ _ _ _ (ih ha (fun r hr => hd r (Array.mem_push.2 (Or.inl hr))))
  | deadL b st k mn saved _ ih =>
    intro st' ha hd
    exact .deadL _ _ _ _ _ (ih ha (fun r hr => hd r (Array.mem_push.2 (Or.inl hr))))
  | g1 b st k mn mx p s saved hne hos h1 h2 h0 h3 _ ih =>
    intro st' ha hd
    have hk := hd _ (Array.mem_push.2 (Or.inr rfl)) k rfl
    refine .g1 _ _ _ _ _ _ _ _ hne hos h1 h2 h0 (h3.congr ha hk) (ih ha ?_)
    intro r hr x hx
    rcases Array.mem_push.1 hr with hr | hr
    · exact hd r (Array.mem_push.2 (Or.inl hr)) x hx
    · subst hr; simp only [resumeIp1, Option.some.injEq] at hx; subst hx; exact hk
  | ng1 b st ip mnI mxI μ mn mx j p0 s saved hne hi hμ hA hm hos h1 h2 h3 hu h4 _ ih =>
    intro st' ha hd
    have hk := hd _ (Array.mem_push.2 (Or.inr rfl)) (ip + 2) rfl
    exact .ng1 _ _ _ _ _ _ _ _ _ _ _ _ hne hi hμ hA hm hos h1 h2 h3 hu (h4.congr ha hk)
      (ih ha (fun r hr => hd r (Array.mem_push.2 (Or.inl hr))))

/-- Pushing the saved-group records of a positive look-around. -/
theorem snap1_pushSaved {prog : Prog} {inp : Input} {A : Bool → Nat → Nat → Prop} {fwd : Bool}
    (saved : List GroupData) :
    ∀ (id : Nat) (bts : Array BtInsn) (st2 : Bt.State) (pk : List Pk.State),
      Snap1 prog inp A fwd bts (rewindL prog (savedRecs saved id).reverse st2) pk →
      Snap1 prog inp A fwd (bts ++ (savedRecs saved id).toArray) st2 pk := by
  induction saved with
  | nil => intro id bts st2 pk h; simpa [savedRecs, rewindL] using h
  | cons c rest ih =>
    intro id bts st2 pk h
    simp only [savedRecs]
    rw [append_cons_toArray]
    apply ih
    refine .groupRec _ _ _ _ _ ?_
    have hne : ∀ r ∈ (savedRecs rest (id + 1)).reverse, r ≠ .exhausted := by
      intro r hr; exact savedRecs_ne_exhausted (List.mem_reverse.1 hr)
    simp only [savedRecs, List.reverse_cons] at h
    rw [rewindL_append prog _ _ _ hne] at h
    simpa [rewindL, restore] using h

/-! ## Transport of the one-instruction simulation of `Frame.lean` -/

theorem push_eq_append_cases {b : Array BtInsn} {r : BtInsn} {pushed : List BtInsn}
    (h : b.push r = #[.exhausted] ++ pushed.toArray) :
    (pushed = [] ∧ r = .exhausted ∧ b = #[]) ∨
      ∃ l, pushed = l ++ [r] ∧ b = #[.exhausted] ++ l.toArray := by
  rcases List.eq_nil_or_concat pushed with hp | ⟨l, x, hp⟩
  · subst hp
    left
    have : b.push r = (#[] : Array BtInsn).push .exhausted := by simpa using h
    obtain ⟨h1, h2⟩ := Array.push_eq_push.1 this
    exact ⟨rfl, h1, h2⟩
  · subst hp
    right
    have : b.push r = ((#[BtInsn.exhausted] : Array BtInsn) ++ l.toArray).push x := by
      rw [h]; apply Array.ext'; simp
    obtain ⟨h1, h2⟩ := Array.push_eq_push.1 this
    subst h1
    exact ⟨l, by simp, h2⟩

/-- A `SnapRel` derivation over the records an instruction pushed (on top of a dummy bottom) can be
replayed on top of any stack related by `Snap1`. -/
theorem Snap1.rebase {prog : Prog} {inp : Input} {A : Bool → Nat → Nat → Prop} {fwd : Bool}
    {x : Array BtInsn} {stx : Bt.State} {news : List Pk.State} (h : SnapRel prog x stx news) :
    ∀ (pushed : List BtInsn), x = #[.exhausted] ++ pushed.toArray →
      (∀ r ∈ pushed, r ≠ .exhausted) → (∀ s ∈ news, s.loop1Iters = 0) →
      ∀ {bts : Array BtInsn} {saved : List Pk.State},
        Snap1 prog inp A fwd bts (rewindL prog pushed.reverse stx) saved →
        Snap1 prog inp A fwd (bts ++ pushed.toArray) stx (news ++ saved) := by
  induction h with
  | bottom b st =>
    intro pushed hx hne _ bts saved hs
    rcases push_eq_append_cases hx with ⟨rfl, -, -⟩ | ⟨l, rfl, -⟩
    · simpa [rewindL] using hs
    · exact absurd rfl (hne .exhausted (by simp))
  | choice b st ip pos s sv h1 h2 h3 _ ih =>
    intro pushed hx hne h0 bts saved hs
    rcases push_eq_append_cases hx with ⟨-, hr, -⟩ | ⟨l, rfl, hb⟩
    · cases hr
    · have e : bts ++ (l ++ [BtInsn.setPosition ip pos]).toArray = (bts ++ l.toArray).push (.setPosition ip pos) := by
        apply Array.ext'; simp
      rw [e]
      refine .choice _ _ _ _ _ _ h1 h2 (h0 s (by simp)) h3 ?_
      refine ih l hb (fun r hr => hne r (by simp [hr])) (fun s' hs' => h0 s' (by simp [hs'])) ?_
      simpa [rewindL, restore] using hs
  | loopRec b st id d sv _ ih =>
    intro pushed hx hne h0 bts saved hs
    rcases push_eq_append_cases hx with ⟨-, hr, -⟩ | ⟨l, rfl, hb⟩
    · cases hr
    · have e : bts ++ (l ++ [BtInsn.setLoopData id d]).toArray = (bts ++ l.toArray).push (.setLoopData id d) := by
        apply Array.ext'; simp
      rw [e]
      refine .loopRec _ _ _ _ _ ?_
      refine ih l hb (fun r hr => hne r (by simp [hr])) h0 ?_
      simpa [rewindL, restore] using hs
  | groupRec b st id d sv _ ih =>
    intro pushed hx hne h0 bts saved hs
    rcases push_eq_append_cases hx with ⟨-, hr, -⟩ | ⟨l, rfl, hb⟩
    · cases hr
    · have e : bts ++ (l ++ [BtInsn.setCaptureGroup id d]).toArray = (bts ++ l.toArray).push (.setCaptureGroup id d) := by
        apply Array.ext'; simp
      rw [e]
      refine .groupRec _ _ _ _ _ ?_
      refine ih l hb (fun r hr => hne r (by simp [hr])) h0 ?_
      simpa [rewindL, restore] using hs
  | ngl b st ip origPos data id mn mx gr ex s sv h1 h2 h3 h4 _ ih =>
    intro pushed hx hne h0 bts saved hs
    rcases push_eq_append_cases hx with ⟨-, hr, -⟩ | ⟨l, rfl, hb⟩
    · cases hr
    · have e : bts ++ (l ++ [BtInsn.enterNonGreedyLoop ip origPos data]).toArray =
          (bts ++ l.toArray).push (.enterNonGreedyLoop ip origPos data) := by
        apply Array.ext'; simp
      rw [e]
      refine .ngl _ _ _ _ _ _ _ _ _ _ _ _ h1 h2 h3 (h0 s (by simp)) h4 ?_
      refine ih l hb (fun r hr => hne r (by simp [hr])) (fun s' hs' => h0 s' (by simp [hs'])) ?_
      simpa [rewindL, restore, h1] using hs

/-! ## `Bt.step` only pushes: it does not depend on the stack below -/

/-- Put the stack of an `Act` on top of `b`. -/
def _root_.Regress.VM.Bt.Act.onto (b : Array BtInsn) : Act → Act
  | .cont ip pos st x => .cont ip pos st (b ++ x)
  | .back st x => .back st (b ++ x)
  | .look d n sg eg k st x => .look d n sg eg k st (b ++ x)
  | .goal p st => .goal p st
  | .err e => .err e

def _root_.Regress.VM.Bt.LoopRes.onto (b : Array BtInsn) : LoopRes → LoopRes
  | .ok n st x => .ok n st (b ++ x)
  | .err e => .err e

theorem nextOrBt_onto (r : Except Unit (Option Nat)) (site : String) (ip : Nat) (st : Bt.State)
    (b x : Array BtInsn) : nextOrBt r site ip st (b ++ x) = (nextOrBt r site ip st x).onto b := by
  unfold nextOrBt; rcases r with e | (_ | p) <;> rfl

theorem wordBoundaryAct_onto (inp : Input) (f : Nat → Bool) (invert : Bool) (ip pos : Nat) (st : Bt.State)
    (b x : Array BtInsn) :
    wordBoundaryAct inp f invert ip pos st (b ++ x) = (wordBoundaryAct inp f invert ip pos st x).onto b := by
  unfold wordBoundaryAct
  rcases peekIs (inp.peekLeft pos) f with e | prev
  · rfl
  · rcases peekIs (inp.peekRight pos) f with e | curr
    · rfl
    · simp only []; split <;> rfl

theorem lineAct_onto (r : Except Unit (Option Nat)) (multiline : Bool) (site : String) (ip pos : Nat)
    (st : Bt.State) (b x : Array BtInsn) :
    lineAct r multiline site ip pos st (b ++ x) = (lineAct r multiline site ip pos st x).onto b := by
  unfold lineAct
  rcases r with e | (_ | c)
  · rfl
  · rfl
  · simp only []; split <;> rfl

theorem groupAct_onto (g : Nat) (upd : GroupData → GroupData) (site : String) (ip pos : Nat)
    (st : Bt.State) (b x : Array BtInsn) :
    groupAct g upd site ip pos st (b ++ x) = (groupAct g upd site ip pos st x).onto b := by
  unfold groupAct
  cases st.groups[g]? with
  | none => rfl
  | some cg => simp only [Act.onto, Array.push_append]

theorem runLoop_onto (st : Bt.State) (b x : Array BtInsn) (id min : Nat) (max : Option Nat) (greedy : Bool)
    (exit pos ip : Nat) :
    runLoop st (b ++ x) id min max greedy exit pos ip = (runLoop st x id min max greedy exit pos ip).onto b := by
  unfold runLoop
  cases st.loops[id]? with
  | none => rfl
  | some ld =>
    simp only [prepareToEnterLoop]
    split
    · rfl
    · split
      · rfl
      · rfl
      · simp only [LoopRes.onto, Array.push_append]
      · split <;> simp only [LoopRes.onto, Array.push_append]

theorem runScmLoop_onto (prog : Prog) (inp : Input) (fwd : Bool) (b x : Array BtInsn) (pos min : Nat)
    (max : Option Nat) (ip : Nat) (greedy : Bool) :
    runScmLoop prog inp fwd (b ++ x) pos min max ip greedy =
      match runScmLoop prog inp fwd x pos min max ip greedy with
      | .error e => .error e
      | .ok none => .ok none
      | .ok (some (k, p, y)) => .ok (some (k, p, b ++ y)) := by
  unfold runScmLoop
  simp only []
  split
  · rfl
  · rfl
  · simp only []
    split <;> split <;> simp only [Array.push_append]

theorem step_onto (prog : Prog) (inp : Input) (ip pos : Nat) (fwd : Bool) (st : Bt.State)
    (b x : Array BtInsn) :
    step prog inp ip pos fwd st (b ++ x) = (step prog inp ip pos fwd st x).onto b := by
  unfold step
  cases prog.insns[ip]? with
  | none => rfl
  | some insn =>
    simp only []
    cases insn with
    | goal => rfl
    | justFail => rfl
    | char c =>
      simp only []
      cases elementTryFrom inp.kind c with
      | none => rfl
      | some c' => exact nextOrBt_onto ..
    | charSet cs => exact nextOrBt_onto ..
    | byteSet bs => exact nextOrBt_onto ..
    | byteSeq bs => exact nextOrBt_onto ..
    | asciiBracket bm => exact nextOrBt_onto ..
    | bracket idx =>
      simp only []
      cases prog.brackets[idx]? with
      | none => rfl
      | some bc => exact nextOrBt_onto ..
    | matchAny => exact nextOrBt_onto ..
    | matchAnyExceptLineTerminator => exact nextOrBt_onto ..
    | wordBoundary inv => exact wordBoundaryAct_onto ..
    | wordBoundaryUnicodeICase inv => exact wordBoundaryAct_onto ..
    | startOfLine ml => exact lineAct_onto ..
    | endOfLine ml => exact lineAct_onto ..
    | jump t => rfl
    | beginCaptureGroup g => exact groupAct_onto ..
    | endCaptureGroup g => exact groupAct_onto ..
    | resetCaptureGroup g => exact groupAct_onto ..
    | backRef g icase =>
      simp only []
      cases st.groups[g]? with
      | none => rfl
      | some cg =>
        simp only []
        cases cg.asRange with
        | none => rfl
        | some rng =>
          obtain ⟨rs, re⟩ := rng
          simp only []
          split <;> exact nextOrBt_onto ..
    | lookahead neg sg eg k => rfl
    | lookbehind neg sg eg k => rfl
    | alt sec => simp only [Act.onto, Array.push_append]
    | enterLoop id min max greedy exit =>
      simp only []
      cases st.loops[id]? with
      | none => rfl
      | some ld =>
        simp only [Array.push_append, runLoop_onto]
        generalize runLoop _ (x.push _) id min max greedy exit pos ip = r
        rcases r with ⟨_ | n, st', y⟩ | e <;> rfl
    | loopAgain bg =>
      simp only []
      cases prog.insns[bg]? with
      | none => rfl
      | some i =>
        cases i <;> try rfl
        simp only [runLoop_onto]
        generalize runLoop st x _ _ _ _ _ pos bg = r
        rcases r with ⟨_ | n, st', y⟩ | e <;> rfl
    | loop1 mn mx g =>
      simp only [runScmLoop_onto]
      generalize runScmLoop prog inp fwd x pos mn mx ip g = r
      rcases r with e | (_ | ⟨k, p, y⟩) <;> rfl

/-! ## Non-`loop1` instructions preserve `loop1_iters` -/

/-- The states produced have the given `loop1_iters`. -/
def ItersIs (n : Nat) : Pk.SM → Prop
  | .cont s _ _ => s.loop1Iters = n
  | .split a b _ _ => a.loop1Iters = n ∧ b.loop1Iters = n
  | .complete s _ _ => s.loop1Iters = n
  | _ => True

theorem nextOrFail_iters (v : Bool) (s : Pk.State) (steps peak : Nat) :
    ItersIs s.loop1Iters (Pk.nextOrFail v s steps peak) := by
  unfold Pk.nextOrFail; split <;> simp [ItersIs]

theorem nextElemArm_iters (inp : Input) (fwd : Bool) (s : Pk.State) (f : Nat → Except String Bool)
    (site : String) (steps peak : Nat) :
    ItersIs s.loop1Iters (Pk.nextElemArm inp fwd s f site steps peak) := by
  unfold Pk.nextElemArm
  split
  · trivial
  · trivial
  · split
    · trivial
    · exact nextOrFail_iters _ { s with pos := _ } _ _

theorem scmArm_iters (r : Except Unit (Option Nat)) (s : Pk.State) (site : String) (steps peak : Nat) :
    ItersIs s.loop1Iters (Pk.scmArm r s site steps peak) := by
  unfold Pk.scmArm; split <;> simp [ItersIs]

theorem lineArm_iters (r : Except Unit (Option Nat)) (ml : Bool) (s : Pk.State) (site : String)
    (steps peak : Nat) : ItersIs s.loop1Iters (Pk.lineArm r ml s site steps peak) := by
  unfold Pk.lineArm; split
  · trivial
  · exact nextOrFail_iters ..
  · exact nextOrFail_iters ..

theorem wordBoundaryArm_iters (inp : Input) (f : Nat → Bool) (invert : Bool) (s : Pk.State)
    (steps peak : Nat) : ItersIs s.loop1Iters (Pk.wordBoundaryArm inp f invert s steps peak) := by
  unfold Pk.wordBoundaryArm
  split
  · trivial
  · split
    · trivial
    · exact nextOrFail_iters ..

theorem groupArm_iters (g : Nat) (upd : GroupData → GroupData) (s : Pk.State) (site : String)
    (steps peak : Nat) : ItersIs s.loop1Iters (Pk.groupArm g upd s site steps peak) := by
  unfold Pk.groupArm; split
  · trivial
  · next cg _ => exact nextOrFail_iters true { s with groups := s.groups.setIfInBounds g (upd cg) } steps peak

theorem runLoop_iters (s : Pk.State) (id min : Nat) (max : Option Nat) (greedy : Bool) (exit : Nat)
    (init : Bool) (steps peak : Nat) :
    ItersIs s.loop1Iters (Pk.runLoop s id min max greedy exit init steps peak) := by
  unfold Pk.runLoop
  split
  · trivial
  · simp only []
    repeat' split
    all_goals simp [ItersIs]

theorem tms_iters {prog : Prog} {inp : Input} {look : Pk.Runner} {d : Nat} {s : Pk.State} {fwd : Bool}
    {steps peak : Nat} {insn : Insn} (hi : prog.insns[s.ip]? = some insn) (hs : simpleInsn insn = true) :
    ItersIs s.loop1Iters (Pk.tryMatchState prog inp look (d + 1) s fwd steps peak) := by
  rw [Pk.tryMatchState]
  simp only [hi]
  cases insn <;> simp only [simpleInsn, Bool.false_eq_true] at hs <;> simp only []
  case goal => rfl
  case justFail => trivial
  case char c => exact nextElemArm_iters ..
  case charSet cs => exact nextElemArm_iters ..
  case byteSeq bs => exact scmArm_iters ..
  case startOfLine ml => exact lineArm_iters ..
  case endOfLine ml => exact lineArm_iters ..
  case matchAny => exact nextElemArm_iters ..
  case matchAnyExceptLineTerminator => exact nextElemArm_iters ..
  case jump t => rfl
  case alt sec => exact ⟨rfl, rfl⟩
  case beginCaptureGroup g => exact groupArm_iters ..
  case endCaptureGroup g => exact groupArm_iters ..
  case resetCaptureGroup g => exact groupArm_iters ..
  case backRef g icase =>
    split
    · trivial
    · split
      · split <;> exact scmArm_iters ..
      · exact nextOrFail_iters ..
  case enterLoop id mn mx gr ex => exact runLoop_iters ..
  case loopAgain bg =>
    split
    · trivial
    · exact runLoop_iters { s with ip := bg } ..
    · trivial
  case bracket idx => exact nextElemArm_iters ..
  case asciiBracket bm => exact scmArm_iters ..
  case byteSet bs => exact scmArm_iters ..
  case wordBoundary inv => exact wordBoundaryArm_iters ..
  case wordBoundaryUnicodeICase inv => exact wordBoundaryArm_iters ..

/-! ## Liveness of loop slots around a `loop1` -/

theorem loopTriple_enter {prog : Prog} {t : Nat × Nat × Nat} (ht : t ∈ loopTriples prog) :
    (∃ b, prog.insns[t.2.2]? = some (.loopAgain b)) ∧
    ∃ id mn mx g ex, prog.insns[t.2.1]? = some (.enterLoop id mn mx g ex) := by
  simp only [loopTriples, List.mem_filterMap, List.mem_range] at ht
  obtain ⟨l, _, hm⟩ := ht
  split at hm
  · next e he =>
    split at hm
    · next id mn mx g ex hee =>
      cases hm
      exact ⟨⟨e, he⟩, id, mn, mx, g, ex, hee⟩
    · cases hm
  · cases hm

/-- The same loop slots are live at a `loop1` instruction and at its continuation `ip + 2`
(the two instructions `loop1`, body are neither `EnterLoop` nor `LoopAgain`). -/
theorem live_loop1 {prog : Prog} {ip mn : Nat} {mx : Option Nat} {g : Bool}
    (hi : prog.insns[ip]? = some (.loop1 mn mx g)) {body : Insn} (hb : prog.insns[ip + 1]? = some body)
    (hacc : scmAccepted body = true) (id : Nat) : live prog id (ip + 2) = live prog id ip := by
  have key : ∀ t ∈ loopTriples prog,
      (t.1 == id && decide (t.2.1 < ip + 2) && decide (ip + 2 ≤ t.2.2)) =
      (t.1 == id && decide (t.2.1 < ip) && decide (ip ≤ t.2.2)) := by
    intro t ht
    obtain ⟨⟨b, hl⟩, id', mn', mx', g', ex', he⟩ := loopTriple_enter ht
    have h1 : t.2.1 ≠ ip := by intro h; rw [h, hi] at he; cases he
    have h2 : t.2.1 ≠ ip + 1 := by
      intro h; rw [h, hb] at he; cases he; simp [scmAccepted] at hacc
    have h3 : t.2.2 ≠ ip := by intro h; rw [h, hi] at hl; cases hl
    have h4 : t.2.2 ≠ ip + 1 := by
      intro h; rw [h, hb] at hl; cases hl; simp [scmAccepted] at hacc
    have e1 : decide (t.2.1 < ip + 2) = decide (t.2.1 < ip) := by
      apply decide_eq_decide.2; omega
    have e2 : decide (ip + 2 ≤ t.2.2) = decide (ip ≤ t.2.2) ∨ ¬ (t.2.1 < ip) := by
      by_cases h : t.2.1 < ip
      · left; apply decide_eq_decide.2; omega
      · right; exact h
    rcases e2 with e2 | e2
    · rw [e1, e2]
    · rw [e1]; simp [e2]
  have gen : ∀ (l : List (Nat × Nat × Nat)) (F G : Nat × Nat × Nat → Bool),
      (∀ t ∈ l, F t = G t) → l.any F = l.any G := by
    intro l F G
    induction l with
    | nil => intro _; rfl
    | cons t ts ih =>
      intro h
      simp only [List.any_cons]
      rw [h t (by simp), ih (fun t' ht' => h t' (by simp [ht']))]
  simp only [live]
  exact gen _ _ _ key

/-! ## The position discipline inside the simulation -/

/-- The extra fact about valid input that the simulation of `loop1` needs: the matchers accepted by
`with_scm_loop_impl` advance by exactly one character (instances: `scm_oneStep_ascii`,
`scm_oneStep_utf8`). -/
def Loop1OK (prog : Prog) (inp : Input) (A : Bool → Nat → Nat → Prop) (V : Nat → Prop) : Prop :=
  ∀ {fwd : Bool} {ip pos mn : Nat} {mx : Option Nat} {g : Bool} {m : Scm} {q q' : Nat},
    A fwd ip pos → prog.insns[ip]? = some (.loop1 mn mx g) → scmSelect prog inp.kind ip = .scm m →
    V q → m.matches inp fwd q = .ok (some q') → OneStep inp fwd q q'

section Disc
variable {prog : Prog} {inp : Input} {A : Bool → Nat → Nat → Prop} {V : Nat → Prop}

/-- The body matcher at a storable position: no error; a match leads to a storable position exactly
one character further. -/
theorem body_ok (hsp : Spec prog inp A V) (hw : wfProg prog = true) (h1 : Loop1OK prog inp A V)
    {fwd : Bool} {ip pos mn : Nat} {mx : Option Nat} {g : Bool} (hA : A fwd ip pos)
    (hi : prog.insns[ip]? = some (.loop1 mn mx g)) {μ : Nat → Except Unit (Option Nat)}
    (hμ : bodyFn prog inp fwd ip = some μ) {q : Nat} (hq : V q) :
    ∃ r, μ q = .ok r ∧ ∀ q', r = some q' → V q' ∧ Moved fwd q q' ∧ OneStep inp fwd q q' := by
  unfold bodyFn at hμ
  rcases scmSelect_ok hsp hw hA hi with ⟨m, hm, hmok⟩ | hm
  · rw [hm] at hμ
    simp only [Option.some.injEq] at hμ; subst hμ
    obtain ⟨r, hr, hp⟩ := hmok q hq
    refine ⟨r, hr, ?_⟩
    intro q' hq'
    subst hq'
    exact ⟨(hp q' rfl).1, (hp q' rfl).2, h1 hA hi hm hq hr⟩
  · rw [hm] at hμ
    simp only [Option.some.injEq] at hμ; subst hμ
    exact ⟨none, rfl, fun q' h => by cases h⟩

theorem exactly_ok (hsp : Spec prog inp A V) (hw : wfProg prog = true) (h1 : Loop1OK prog inp A V)
    {fwd : Bool} {ip pos mn : Nat} {mx : Option Nat} {g : Bool} (hA : A fwd ip pos)
    (hi : prog.insns[ip]? = some (.loop1 mn mx g)) {μ : Nat → Except Unit (Option Nat)}
    (hμ : bodyFn prog inp fwd ip = some μ) {n q : Nat} {r : Option Nat} (h : Exactly μ n q r) :
    V q → ∀ a, r = some a → V a ∧ MovedLe fwd q a := by
  induction h with
  | zero p => intro hv a ha; cases ha; exact ⟨hv, MovedLe.refl _ _⟩
  | fail n p _ => intro _ a ha; cases ha
  | step n p p' r hm _ ih =>
    intro hv a ha
    obtain ⟨r', hr', hp⟩ := body_ok hsp hw h1 hA hi hμ hv
    rw [hm] at hr'; cases hr'
    obtain ⟨hv', hmv, _⟩ := hp p' rfl
    obtain ⟨h2, h3⟩ := ih hv' a ha
    exact ⟨h2, hmv.le.trans h3⟩

theorem upTo_ok (hsp : Spec prog inp A V) (hw : wfProg prog = true) (h1 : Loop1OK prog inp A V)
    {fwd : Bool} {ip pos mn : Nat} {mx : Option Nat} {g : Bool} (hA : A fwd ip pos)
    (hi : prog.insns[ip]? = some (.loop1 mn mx g)) {μ : Nat → Except Unit (Option Nat)}
    (hμ : bodyFn prog inp fwd ip = some μ) {lim : Option Nat} {q c : Nat} (h : UpTo μ lim q c) :
    V q → V c ∧ MovedLe fwd q c := by
  induction h with
  | zero p => intro hv; exact ⟨hv, MovedLe.refl _ _⟩
  | stop lim p _ _ => intro hv; exact ⟨hv, MovedLe.refl _ _⟩
  | step lim p p' c _ hm _ ih =>
    intro hv
    obtain ⟨r', hr', hp⟩ := body_ok hsp hw h1 hA hi hμ hv
    rw [hm] at hr'; cases hr'
    obtain ⟨hv', hmv, _⟩ := hp p' rfl
    obtain ⟨h2, h3⟩ := ih hv'
    exact ⟨h2, hmv.le.trans h3⟩

theorem moved_ne {fwd : Bool} {a q q' c : Nat} (h1 : MovedLe fwd a q) (h2 : Moved fwd q q')
    (h3 : MovedLe fwd q' c) : c ≠ a := by
  cases fwd
  · have := h1.2 rfl; have := h2.2 rfl; have := h3.2 rfl; omega
  · have := h1.1 rfl; have := h2.1 rfl; have := h3.1 rfl; omega

/-- One instruction of the backtracker preserves the safety invariant — or is an error. -/
theorem step_inv (hsp : Spec prog inp A V) (hw : wfProg prog = true) {b : Nat} {fwd : Bool}
    {ip pos : Nat} {st : Bt.State} {bts : Array BtInsn} (h : Inv prog A V b fwd ip pos st bts) :
    (∃ e, step prog inp ip pos fwd st bts = .err e) ∨
      SVC prog A V b fwd ip pos st bts (step prog inp ip pos fwd st bts) := by
  by_cases hord : IcaseOrdered prog ip st
  · right; exact step_vc hsp hw h hord
  · left
    unfold IcaseOrdered at hord
    simp only [Classical.not_forall] at hord
    obtain ⟨g, gd, rs, re, hi, hg, hr, hlt⟩ := hord
    refine ⟨"try_at_pos: backref_icase subinput / input read out of range", ?_⟩
    unfold step
    simp only [hi, hg, hr, if_true]
    have : backrefIcase inp fwd rs re pos = .error () := by
      unfold backrefIcase
      have : rs > re := by omega
      simp [this]
    rw [this]; rfl

/-- Safety post-condition of a run from a configuration satisfying the invariant (an error outcome is
allowed here). -/
theorem run_inv (hsp : Spec prog inp A V) (hw : wfProg prog = true) (limit : Nat) :
    ∀ sf b ip pos fwd st bts steps peak, Inv prog A V b fwd ip pos st bts →
      PostE True (QMs prog V b fwd) (StateOK prog V) (run prog inp limit sf ip pos fwd st bts steps peak) :=
  run_ruleE prog inp (Inv prog A V) (InvB prog A V) (QMs prog V) (fun _ _ st => StateOK prog V st)
    (fun _ _ pos _ _ _ _ => pos) True
    (fun g fwd ip pos st bts h => by
      rcases step_inv hsp hw h with ⟨e, he⟩ | h'
      · rw [he]; trivial
      · cases hact : step prog inp ip pos fwd st bts with
        | look d neg sg eg k st1 bts1 =>
          rw [hact] at h'
          exact ⟨h'.1, h'.2.1, fun _ => trivial, fun _ => h'.2.2.2.2⟩
        | err e => trivial
        | goal p st' => rw [hact] at h'; exact h'
        | cont a b c d => rw [hact] at h'; exact h'
        | back a b => rw [hact] at h'; exact h')
    (fun g fwd st bts h => by
      have h' := back_vc hsp hw g fwd h
      cases hr : tryBacktrack prog inp fwd st bts with
      | err e => trivial
      | exhausted a b => rw [hr] at h'; exact h'
      | resumed a b c d => rw [hr] at h'; exact h')
    limit

end Disc

/-! ## Outcomes of a stuttering simulation -/

/-- Corresponding outcomes of a backtracker run started at tick count `sB0` and a PikeVM run started
at tick count `sP0`: same match end, final states related, and the PikeVM used at least as many ticks
as the backtracker. `.error` outcomes of either machine are not compared; nothing is claimed if the
PikeVM runs out of budget; the backtracker does not run out of budget unless the PikeVM does (under
the budget hypotheses of `RunSimAt1`). -/
def OutSim2 (prog : Prog) (J : Option Nat) (sB0 sP0 : Nat) : Bt.Outcome → Pk.Outcome → Prop
  | .error _, _ => True
  | _, .error _ => True
  | _, .outOfFuel => True
  | .matched e st s _, .matched e' st' s' _ =>
    e = e' ∧ sB0 ≤ s ∧ s + sP0 ≤ s' + sB0 ∧ st'.pos = e' ∧ StRel prog st'.ip st st' ∧
      st'.loop1Iters = 0 ∧ encl prog st'.ip = J
  | .failed _ s _, .failed s' _ => sB0 ≤ s ∧ s + sP0 ≤ s' + sB0
  | _, _ => False

theorem OutSim2.errB {prog : Prog} {J : Option Nat} {a b : Nat} (e : String) (x : Pk.Outcome) :
    OutSim2 prog J a b (.error e) x := by
  cases x <;> trivial

theorem OutSim2.errP {prog : Prog} {J : Option Nat} {a b : Nat} (x : Bt.Outcome) (e : String) :
    OutSim2 prog J a b x (.error e) := by
  cases x <;> trivial

theorem OutSim2.oofP {prog : Prog} {J : Option Nat} {a b : Nat} (x : Bt.Outcome) :
    OutSim2 prog J a b x .outOfFuel := by
  cases x <;> trivial

theorem OutSim2.mono {prog : Prog} {J : Option Nat} {a b a' b' : Nat} {x : Bt.Outcome} {y : Pk.Outcome}
    (h : OutSim2 prog J a b x y) (h1 : a' ≤ a) (h2 : a + b' ≤ b + a') : OutSim2 prog J a' b' x y := by
  cases x <;> cases y <;> simp only [OutSim2] at h ⊢ <;> try trivial
  · obtain ⟨e1, e2, e3, e4⟩ := h
    exact ⟨e1, by omega, by omega, e4⟩
  · exact ⟨by omega, by omega⟩

/-! ## PikeVM ticks at a `loop1` -/

theorem ltMax_iff_lim (j : Nat) (mx : Option Nat) :
    ltMax j mx = true ↔ mx.map (· - j) ≠ some 0 := by
  cases mx with
  | none => simp [ltMax]
  | some v => simp [ltMax]; omega

theorem map_sub_succ (j : Nat) (mx : Option Nat) :
    (mx.map (· - j)).map (· - 1) = mx.map (· - (j + 1)) := by
  cases mx with
  | none => rfl
  | some v => simp [Nat.sub_sub]

theorem ltMax_of_lt {j mn : Nat} {mx : Option Nat} (h : j < mn) (hle : leMax mn mx = true) :
    ltMax j mx = true := by
  cases mx with
  | none => rfl
  | some v => simp [leMax, ltMax] at hle ⊢; omega

/-- One tick of `runStates` whose top state is at a `loop1` instruction. -/
theorem runStates_l1 {prog : Prog} {inp : Input} {P : Pk.Outcome → Prop} (hP1 : P .outOfFuel)
    (hok : inpOK inp = true) {fwd : Bool} {s : Pk.State} {mn : Nat} {mx : Option Nat} {g : Bool}
    (hi : prog.insns[s.ip]? = some (.loop1 mn mx g)) {μ : Nat → Except Unit (Option Nat)}
    (hμ : bodyFn prog inp fwd s.ip = some μ) (limit sf : Nat) (rest : Array Pk.State) (steps peak : Nat)
    (tp : Option Nat) (htp : if ltMax s.loop1Iters mx = true then μ s.pos = .ok tp else tp = none)
    (hk : ∀ sf' peak' sm, sf = sf' + 1 → steps < limit → L1Tick mn g s tp (steps + 1) peak' sm →
      P (pkAfter prog inp limit sf' rest fwd sm)) :
    P (Pk.runStates prog inp limit sf (rest.push s) fwd steps peak) := by
  cases sf with
  | zero => rw [Pk.runStates]; exact hP1
  | succ sf' =>
    rw [runStates_succ_push]
    by_cases hge : steps ≥ limit
    · simp only [hge, if_true]; exact hP1
    · simp only [hge, if_false]
      have hlt := lt_size_of_getElem? hi
      obtain ⟨d, hd⟩ : ∃ d, prog.insns.size + 1 = d + 2 := ⟨prog.insns.size - 1, by omega⟩
      rw [hd]
      exact hk sf' _ _ rfl (by omega) (pk_loop1_tick hok hi hμ _ d _ _ tp htp)

section Phases
variable {prog : Prog} {inp : Input} {A : Bool → Nat → Nat → Prop} {V : Nat → Prop}

/-- **The mandatory iterations** (`iters < min`): the PikeVM performs them one tick at a time. -/
theorem pk_min_phase {P : Pk.Outcome → Prop} (hP1 : P .outOfFuel) (hP2 : ∀ e, P (.error e))
    (hok : inpOK inp = true) {fwd : Bool} {ip mnI : Nat} {mxI : Option Nat} {g : Bool}
    (hi : prog.insns[ip]? = some (.loop1 mnI mxI g)) (hle : leMax mnI mxI = true)
    {μ : Nat → Except Unit (Option Nat)} (hμ : bodyFn prog inp fwd ip = some μ) (limit : Nat)
    (rest : Array Pk.State) {n q : Nat} {r : Option Nat} (hE : Exactly μ n q r) :
    ∀ (s : Pk.State) (sf steps peak : Nat), s.ip = ip → s.pos = q → s.loop1Iters + n = mnI →
      (r = none → ∀ sf' steps' peak', sf' < sf → steps < steps' →
        P (Pk.runStates prog inp limit sf' rest fwd steps' peak')) →
      (∀ a, r = some a → ∀ sf' steps' peak', sf' ≤ sf → steps ≤ steps' →
        P (Pk.runStates prog inp limit sf' (rest.push { s with pos := a, loop1Iters := mnI }) fwd
          steps' peak')) →
      P (Pk.runStates prog inp limit sf (rest.push s) fwd steps peak) := by
  induction hE with
  | zero p =>
    intro s sf steps peak hip hpos hit _ k2
    have e : ({ s with pos := p, loop1Iters := mnI } : Pk.State) = s := by
      cases s; simp_all
    have := k2 p rfl sf steps peak (Nat.le_refl _) (Nat.le_refl _)
    rwa [e] at this
  | fail n p hm =>
    intro s sf steps peak hip hpos hit k1 _
    subst hip; subst hpos
    have hlt : ltMax s.loop1Iters mxI = true := ltMax_of_lt (by omega) hle
    refine runStates_l1 hP1 hok hi hμ limit sf rest steps peak none (by simp [hlt, hm]) ?_
    intro sf' peak' sm hsf hst hL
    cases hL with
    | err e => exact hP2 e
    | fail sx _ _ => exact k1 rfl sf' (steps + 1) peak' (by omega) (by omega)
    | exit _ h => omega
    | iter p' h _ => cases h
    | splitG p' h _ _ => cases h
    | splitL p' h _ _ => cases h
  | step n p p' r hm _ ih =>
    intro s sf steps peak hip hpos hit k1 k2
    subst hip; subst hpos
    have hlt : ltMax s.loop1Iters mxI = true := ltMax_of_lt (by omega) hle
    refine runStates_l1 hP1 hok hi hμ limit sf rest steps peak (some p') (by simp [hlt, hm]) ?_
    intro sf' peak' sm hsf hst hL
    cases hL with
    | err e => exact hP2 e
    | fail sx h _ => cases h
    | exit h _ => cases h
    | iter p'' h _ =>
      cases h
      refine ih (iterState s p') sf' (steps + 1) peak' rfl rfl (by simp [iterState]; omega) ?_ ?_
      · intro hr sf'' steps'' peak'' h1 h2
        exact k1 hr sf'' steps'' peak'' (by omega) (by omega)
      · intro a ha sf'' steps'' peak'' h1 h2
        exact k2 a ha sf'' steps'' peak'' (by omega) (by omega)
    | splitG p'' _ h _ => omega
    | splitL p'' _ h _ => omega

/-- **The greedy phase**: every further iteration pushes the exit state; the stack of exit states is
what the record `GreedyLoop1Char { ip + 2, a, c }` stands for. -/
theorem pk_greedy_phase {P : Pk.Outcome → Prop} (hP1 : P .outOfFuel) (hP2 : ∀ e, P (.error e))
    (hok : inpOK inp = true) (hsp : Spec prog inp A V) (hw : wfProg prog = true)
    (h1 : Loop1OK prog inp A V) {fwd : Bool} {ip mnI : Nat} {mxI : Option Nat}
    (hi : prog.insns[ip]? = some (.loop1 mnI mxI true))
    {μ : Nat → Except Unit (Option Nat)} (hμ : bodyFn prog inp fwd ip = some μ) {p0 : Nat}
    (hA : A fwd ip p0) (limit : Nat) (b : Array BtInsn) (st : Bt.State) (a : Nat)
    {lim : Option Nat} {q c : Nat} (hU : UpTo μ lim q c) :
    ∀ (s : Pk.State) (saved : List Pk.State) (sf steps peak : Nat), s.ip = ip → s.pos = q →
      mnI ≤ s.loop1Iters → lim = mxI.map (· - s.loop1Iters) → V q → MovedLe fwd a q →
      StRel prog (ip + 2) st s →
      Snap1 prog inp A fwd (b.push (.greedyLoop1Char (ip + 2) a q)) st saved →
      (∀ sf' steps' peak' saved', sf' < sf → steps < steps' →
        Snap1 prog inp A fwd (b.push (.greedyLoop1Char (ip + 2) a c)) st saved' →
        P (Pk.runStates prog inp limit sf' (saved'.reverse.toArray.push
          { s with pos := c, ip := ip + 2, loop1Iters := 0 }) fwd steps' peak')) →
      P (Pk.runStates prog inp limit sf (saved.reverse.toArray.push s) fwd steps peak) := by
  induction hU with
  | zero p =>
    intro s saved sf steps peak hip hpos hmn hlim hv hle hrel hsnap k
    subst hip; subst hpos
    have hlt : ¬ ltMax s.loop1Iters mxI = true := by
      rw [ltMax_iff_lim]; simp [← hlim]
    refine runStates_l1 hP1 hok hi hμ limit sf _ steps peak none (by simp [hlt]) ?_
    intro sf' peak' sm hsf hst hL
    cases hL with
    | err e => exact hP2 e
    | fail sx _ h => omega
    | exit _ _ =>
      have := k sf' (steps + 1) peak' saved (by omega) (by omega) hsnap
      exact this
    | iter p' h _ => cases h
    | splitG p' h _ _ => cases h
    | splitL p' h _ _ => cases h
  | stop lim p hl hm =>
    intro s saved sf steps peak hip hpos hmn hlim hv hle hrel hsnap k
    subst hip; subst hpos
    have hlt : ltMax s.loop1Iters mxI = true := by
      rw [ltMax_iff_lim, ← hlim]; exact hl
    refine runStates_l1 hP1 hok hi hμ limit sf _ steps peak none (by simp [hlt, hm]) ?_
    intro sf' peak' sm hsf hst hL
    cases hL with
    | err e => exact hP2 e
    | fail sx _ h => omega
    | exit _ _ =>
      have := k sf' (steps + 1) peak' saved (by omega) (by omega) hsnap
      exact this
    | iter p' h _ => cases h
    | splitG p' h _ _ => cases h
    | splitL p' h _ _ => cases h
  | step lim p p' c hl hm _ ih =>
    intro s saved sf steps peak hip hpos hmn hlim hv hle hrel hsnap k
    subst hip; subst hpos
    have hlt : ltMax s.loop1Iters mxI = true := by
      rw [ltMax_iff_lim, ← hlim]; exact hl
    obtain ⟨r', hr', hp⟩ := body_ok hsp hw h1 hA hi hμ hv
    rw [hm] at hr'; cases hr'
    obtain ⟨hv', hmv, hos⟩ := hp p' rfl
    refine runStates_l1 hP1 hok hi hμ limit sf _ steps peak (some p') (by simp [hlt, hm]) ?_
    intro sf' peak' sm hsf hst hL
    cases hL with
    | err e => exact hP2 e
    | fail sx h _ => cases h
    | exit h _ => cases h
    | iter p'' _ h => omega
    | splitL p'' _ _ h => cases h
    | splitG p'' h _ _ =>
      cases h
      simp only [pkAfter]
      rw [← reverse_cons_toArray]
      have hrelE : StRel prog (s.ip + 2) st (exitState s) := hrel.mono rfl rfl (fun _ h => h)
      refine ih (iterState s p') (exitState s :: saved) sf' (steps + 1) peak' rfl rfl
        (by simp [iterState]; omega) (by rw [hlim, map_sub_succ]; rfl) hv' (hle.trans hmv.le)
        (hrel.mono rfl rfl (fun _ h => h)) ?_ ?_
      · exact .g1 _ _ _ _ _ _ _ _ (moved_ne hle hmv (MovedLe.refl _ _)) hos rfl rfl rfl hrelE hsnap
      · intro sf'' steps'' peak'' saved'' h1' h2' hsn
        exact k sf'' steps'' peak'' saved'' (by omega) (by omega) hsn

end Phases

/-! ## The runs -/

/-- The statement of the stuttering simulation for PikeVM structural fuel `sfP`. Budgets: the
backtracker's structural fuel is not binding (`limitB ≤ stepsB + sfB`) and its remaining tick budget
is at least the PikeVM's (`limitP - stepsP ≤ limitB - stepsB`). -/
def RunSimAt1 (prog : Prog) (inp : Input) (A : Bool → Nat → Nat → Prop) (V : Nat → Prop)
    (limitB limitP sfP : Nat) : Prop :=
  ∀ (sfB : Nat) (fwd : Bool) (st : Bt.State) (bts : Array BtInsn) (saved : List Pk.State)
    (cur : Pk.State) (stepsB stepsP peakB peakP : Nat) (J : Option Nat) (b : Nat),
    StRel prog cur.ip st cur → cur.loop1Iters = 0 → Snap1 prog inp A fwd bts st saved →
    limitB ≤ stepsB + sfB → limitP + stepsB ≤ limitB + stepsP →
    encl prog cur.ip = J → RecsIn prog (enclIs prog J) allTrue allTrue bts →
    Inv prog A V b fwd cur.ip cur.pos st bts →
    OutSim2 prog J stepsB stepsP (Bt.run prog inp limitB sfB cur.ip cur.pos fwd st bts stepsB peakB)
      (Pk.runStates prog inp limitP sfP (saved.reverse.toArray.push cur) fwd stepsP peakP)

section Runs
variable {prog : Prog} {inp : Input} {A : Bool → Nat → Nat → Prop} {V : Nat → Prop}

/-- **One lazy iteration.** The PikeVM state `s` waits at a non-greedy `loop1` (with `iters ≥ min`) at
the position where the backtracker already continues behind the loop, holding (iff further
iterations are possible, `mx ≠ s.pos`) the record `NonGreedyLoop1Char { ip + 2, s.pos, mx }`. One
PikeVM tick re-establishes the relation. -/
theorem lazy_tick (hok : inpOK inp = true) (hsp : Spec prog inp A V) (hw : wfProg prog = true)
    (h1 : Loop1OK prog inp A V) {limitB limitP m : Nat}
    (ih : ∀ m', m' < m → RunSimAt1 prog inp A V limitB limitP m') (sfB : Nat) (fwd : Bool)
    {st' : Bt.State} {bq btsX : Array BtInsn} {saved' : List Pk.State} {s : Pk.State}
    (stepsB stepsP peakB peakP : Nat) {J : Option Nat} {b : Nat} {mnI : Nat} {mxI : Option Nat}
    {μ : Nat → Except Unit (Option Nat)} {mx p0 : Nat}
    (hi : prog.insns[s.ip]? = some (.loop1 mnI mxI false)) (hμ : bodyFn prog inp fwd s.ip = some μ)
    (hA : A fwd s.ip p0) (hmn : mnI ≤ s.loop1Iters) (hu : UpTo μ (mxI.map (· - s.loop1Iters)) s.pos mx)
    (hrel : StRel prog (s.ip + 2) st' s) (hsn : Snap1 prog inp A fwd bq st' saved')
    (hX1 : mx = s.pos → Snap1 prog inp A fwd btsX st' saved')
    (hX2 : mx ≠ s.pos → btsX = bq.push (.nonGreedyLoop1Char (s.ip + 2) s.pos mx))
    (hF1 : limitB ≤ stepsB + sfB) (hF2 : limitP + stepsB ≤ limitB + stepsP + 1)
    (hJ : encl prog (s.ip + 2) = J) (hb : RecsIn prog (enclIs prog J) allTrue allTrue btsX)
    (hinv : Inv prog A V b fwd (s.ip + 2) s.pos st' btsX) :
    OutSim2 prog J stepsB (stepsP + 1)
      (run prog inp limitB sfB (s.ip + 2) s.pos fwd st' btsX stepsB peakB)
      (Pk.runStates prog inp limitP m (saved'.reverse.toArray.push s) fwd stepsP peakP) := by
  have hv : V s.pos := ((hsp.loop1 hA hi s.pos).1).mp hinv.1
  have hrelE : StRel prog (exitState s).ip st' (exitState s) := hrel.mono rfl rfl (fun _ h => h)
  generalize hlim : mxI.map (· - s.loop1Iters) = lim at hu
  have hexit : ∀ (m' peak' : Nat), m = m' + 1 → mx = s.pos →
      OutSim2 prog J stepsB (stepsP + 1)
        (run prog inp limitB sfB (s.ip + 2) s.pos fwd st' btsX stepsB peakB)
        (Pk.runStates prog inp limitP m' (saved'.reverse.toArray.push (exitState s)) fwd (stepsP + 1) peak') := by
    intro m' peak' hm hmx
    have := ih m' (by omega) sfB fwd st' btsX saved'
      (exitState s) stepsB (stepsP + 1) peakB peak' J b hrelE rfl (hX1 hmx) hF1 (by omega) hJ hb
    exact this (by simpa [exitState] using hinv)
  cases hu with
  | zero p =>
    have hlt : ¬ ltMax s.loop1Iters mxI = true := by
      rw [ltMax_iff_lim]; simp [hlim]
    refine runStates_l1 (OutSim2.oofP _) hok hi hμ limitP m _ stepsP peakP none (by simp [hlt]) ?_
    intro m' peak' sm hm hst hL
    cases hL with
    | err e => exact OutSim2.errP _ _
    | fail sx _ h => omega
    | exit _ _ => exact hexit m' peak' hm rfl
    | iter p' h _ => cases h
    | splitG p' h _ _ => cases h
    | splitL p' h _ _ => cases h
  | stop lim p hl hm' =>
    have hlt : ltMax s.loop1Iters mxI = true := by
      rw [ltMax_iff_lim, hlim]; exact hl
    refine runStates_l1 (OutSim2.oofP _) hok hi hμ limitP m _ stepsP peakP none (by simp [hlt, hm']) ?_
    intro m' peak' sm hm hst hL
    cases hL with
    | err e => exact OutSim2.errP _ _
    | fail sx _ h => omega
    | exit _ _ => exact hexit m' peak' hm rfl
    | iter p' h _ => cases h
    | splitG p' h _ _ => cases h
    | splitL p' h _ _ => cases h
  | step lim p q'' c hl hm' hu' =>
    have hlt : ltMax s.loop1Iters mxI = true := by
      rw [ltMax_iff_lim, hlim]; exact hl
    obtain ⟨r', hr', hp⟩ := body_ok hsp hw h1 hA hi hμ hv
    rw [hm'] at hr'; cases hr'
    obtain ⟨hv', hmv, hos⟩ := hp q'' rfl
    have hle := (upTo_ok hsp hw h1 hA hi hμ hu' hv').2
    have hne : mx ≠ s.pos := moved_ne (MovedLe.refl _ _) hmv hle
    refine runStates_l1 (OutSim2.oofP _) hok hi hμ limitP m _ stepsP peakP (some q'')
      (by simp [hlt, hm']) ?_
    intro m' peak' sm hm hst hL
    cases hL with
    | err e => exact OutSim2.errP _ _
    | fail sx h _ => cases h
    | exit h _ => cases h
    | iter p' _ h => omega
    | splitG p' _ _ h => cases h
    | splitL p' h _ _ =>
      cases h
      simp only [pkAfter]
      rw [← reverse_cons_toArray]
      have hsn' : Snap1 prog inp A fwd btsX st' (iterState s q'' :: saved') := by
        rw [hX2 hne]
        refine .ng1 bq st' s.ip mnI mxI μ s.pos mx s.loop1Iters p0 (iterState s q'') saved'
          hne hi hμ hA hm' hos rfl (by simp [iterState]) (by omega) ?_
          (hrel.mono rfl rfl (fun _ h => h)) hsn
        rw [← map_sub_succ, hlim]; exact hu'
      have := ih m' (by omega) sfB fwd st' _ (iterState s q'' :: saved')
        (exitState s) stepsB (stepsP + 1) peakB peak' J b hrelE rfl hsn' hF1 (by omega) hJ hb
      exact (this (by simpa [exitState] using hinv)).mono (Nat.le_refl _) (by omega)

/-- `break 'backtrack` against popping the PikeVM's stack (plus one PikeVM tick if the record resumed
is a `NonGreedyLoop1Char`). -/
theorem back_sim1 (hok : inpOK inp = true) (hsp : Spec prog inp A V) (hw : wfProg prog = true)
    (h1 : Loop1OK prog inp A V) {limitB limitP m : Nat}
    (ih : ∀ m', m' ≤ m → RunSimAt1 prog inp A V limitB limitP m') (sfB : Nat) (fwd : Bool)
    {st : Bt.State} {bts : Array BtInsn} {saved : List Pk.State} (stepsB stepsP peakB peakP : Nat)
    {J : Option Nat} {b : Nat} (hsnap : Snap1 prog inp A fwd bts st saved)
    (hF1 : limitB ≤ stepsB + sfB) (hF2 : limitP + stepsB ≤ limitB + stepsP)
    (hb : RecsIn prog (enclIs prog J) allTrue allTrue bts) (hinv : InvB prog A V b fwd st bts) :
    OutSim2 prog J stepsB stepsP (backtrackThen prog inp limitB sfB fwd st bts stepsB peakB)
      (Pk.runStates prog inp limitP m saved.reverse.toArray fwd stepsP peakP) := by
  unfold backtrackThen
  have hin := tryBacktrack_in prog (enclIs prog J) allTrue allTrue inp fwd bts.size bts st rfl hb
  have hvc := back_vc hsp hw b fwd hinv
  rcases tryBacktrack_sim1 prog inp A fwd hsnap with ⟨e, he⟩ | hres
  · rw [he]; exact OutSim2.errB _ _
  · cases hres with
    | exhausted st' bts' he =>
      rw [he]
      cases m with
      | zero => rw [Pk.runStates]; exact OutSim2.oofP _
      | succ m =>
        simp only [List.reverse_nil, runStates_empty]
        exact ⟨Nat.le_refl _, by omega⟩
    | resumed s saved' st' bts' he hrel h0 hsn =>
      rw [he] at hin hvc ⊢
      rw [reverse_cons_toArray]
      simp only [BtPost] at hvc
      simp only [BtIn, enclIs, beq_iff_eq] at hin
      exact ih m (Nat.le_refl _) sfB fwd st' bts' saved' s stepsB stepsP _ _ J b hrel h0 hsn hF1 hF2
        hin.1 hin.2.1 hvc
    | lazy s saved' st' bq ip mnI mxI μ mx j p0 he hi hμ hA hip hit hmn hu hrel hsn =>
      rw [he] at hin hvc ⊢
      rw [reverse_cons_toArray]
      simp only [BtPost] at hvc
      simp only [BtIn, enclIs, beq_iff_eq] at hin
      subst hip
      rw [← hit] at hu
      exact (lazy_tick hok hsp hw h1 (fun m' hm' => ih m' (by omega)) sfB fwd stepsB stepsP peakB peakP
        hi hμ hA (by omega) hu hrel hsn (fun hmx => by subst hmx; exact .deadL _ _ _ _ _ hsn)
        (fun _ => rfl) hF1 (by omega) hin.1 hin.2.1 hvc).mono (Nat.le_refl _) (by omega)

set_option linter.unusedSimpArgs false in
/-- **A look-around instruction**: the nested runs correspond (induction hypothesis), and so do the
continuations of the two machines. `stepsB`/`stepsP` are the tick counts after the tick of the
look-around instruction. -/
theorem look_sim1 (hs : loopsStructured prog = true) (hl : looksStructured prog = true)
    (hok : inpOK inp = true) (hsp : Spec prog inp A V) (hw : wfProg prog = true)
    (h1 : Loop1OK prog inp A V) {limitB limitP m : Nat}
    (ih : ∀ m', m' ≤ m → RunSimAt1 prog inp A V limitB limitP m') (sfB : Nat) (fwd : Bool)
    {st : Bt.State} {bts : Array BtInsn} {saved : List Pk.State} {cur : Pk.State}
    (stepsB stepsP peakB peakP : Nat) {J : Option Nat} {b : Nat} (hrel : StRel prog cur.ip st cur)
    (h0 : cur.loop1Iters = 0) (hsnap : Snap1 prog inp A fwd bts st saved)
    (hF1 : limitB ≤ stepsB + sfB) (hF2 : limitP + stepsB ≤ limitB + stepsP)
    (hJ : encl prog cur.ip = J) (hb : RecsIn prog (enclIs prog J) allTrue allTrue bts)
    (hinv : Inv prog A V b fwd cur.ip cur.pos st bts)
    {i : Insn} (hi : prog.insns[cur.ip]? = some i) {sg eg k : Nat} (hlk : lookOf i = some (sg, eg, k))
    (dirFwd negate : Bool)
    (hstep : step prog inp cur.ip cur.pos fwd st bts = .look dirFwd negate sg eg k st bts) :
    OutSim2 prog J stepsB stepsP
      (if sg > eg || eg > st.groups.size then
        .error "run_lookaround: groups.iat(start_group..end_group) out of range"
       else
        afterLook prog inp limitB sfB cur.pos fwd negate sg k (st.groups.extract sg eg).toList bts
          (Bt.run prog inp limitB sfB (cur.ip + 1) cur.pos dirFwd st #[.exhausted] stepsB peakB))
      (pkAfter prog inp limitP m saved.reverse.toArray fwd
        (Pk.lookArm (fun s0 dirFwd steps peak => Pk.runStates prog inp limitP m #[s0] dirFwd steps peak)
          dirFwd negate k cur stepsP peakP)) := by
  split
  · exact OutSim2.errB _ _
  · next hse =>
    simp only [Bool.or_eq_true, decide_eq_true_eq] at hse
    -- the safety invariant through the look-around
    have hvc : SVC prog A V b fwd cur.ip cur.pos st bts (.look dirFwd negate sg eg k st bts) := by
      rcases step_inv hsp hw hinv with ⟨e, he⟩ | h'
      · rw [hstep] at he; cases he
      · rw [hstep] at h'; exact h'
    obtain ⟨-, -, -, -, hinvN, hvcM, hvcF⟩ := hvc
    obtain ⟨-, hlook⟩ := looks_at hl hi
    obtain ⟨hE1, hL1, hL2⟩ := hlook sg eg k hlk
    obtain ⟨hk, hReg⟩ := lookClosed_region (looks_closed hl) hi hlk
    have hmem1 : cur.ip + 1 ∈ succs prog cur.ip := by
      cases i <;> simp [lookOf] at hlk <;> simp [succs, hi]
    have hmemk : k ∈ succs prog cur.ip := by
      cases i <;> simp [lookOf] at hlk <;> simp [succs, hi, hlk]
    have hsucc1 : ∀ id, live prog id (cur.ip + 1) = true → live prog id cur.ip = true :=
      fun id h => structured_succ hs hi hmem1 h
    have hsucck : ∀ id, live prog id k = true → live prog id cur.ip = true :=
      fun id h => structured_succ hs hi hmemk h
    have hdeadk : ∀ id, bodyLoop prog cur.ip k id = true → live prog id k = false := by
      intro id hbl
      cases hlv : live prog id k
      · rfl
      · have := hL2 id hbl k hlv; omega
    have hdead : ∀ r ∈ bts, ∀ x, resumeIp1 r = some x → ∀ id, bodyLoop prog cur.ip k id = true →
        live prog id x = false := by
      intro r hr x hx id hbl
      have hrin := hb r hr
      have hex : encl prog x = J := by
        cases r <;> simp only [resumeIp1, Option.some.injEq, reduceCtorEq] at hx
        · subst hx; simpa [recIn, enclIs] using hrin
        · subst hx
          simp only [recIn, Bool.and_eq_true, enclIs, beq_iff_eq] at hrin
          exact hrin.1
        · subst hx; simpa [recIn, enclIs] using hrin
        · subst hx; simpa [recIn, enclIs] using hrin
      cases hlv : live prog id x
      · rfl
      · obtain ⟨h1', h2'⟩ := hL2 id hbl x hlv
        exact absurd (hex.trans hJ.symm) (encl_body_ne hi hlk h1' h2')
    have hKJ : encl prog k = J := by
      have := (looks_at hl hi).1
      cases i <;> simp [lookOf] at hlk <;>
        simp only [insnIn, Bool.and_eq_true, enclIs, beq_iff_eq] at this <;>
        (obtain ⟨-, -, rfl⟩ := hlk; rw [this.1.2, hJ])
    -- the nested runs
    have hrel_in : StRel prog (cur.ip + 1) st { cur with ip := cur.ip + 1 } := hrel.mono rfl rfl hsucc1
    have hinner := ih m (Nat.le_refl _) sfB dirFwd st #[.exhausted] [] { cur with ip := cur.ip + 1 }
      stepsB stepsP peakB peakP (some cur.ip) cur.pos hrel_in h0 (.bottom #[] st) hF1 hF2 hE1
      (by intro r hr; simp at hr; subst hr; rfl) hinvN
    have hfp := run_in prog _ _ _ hReg inp limitB sfB (cur.ip + 1) cur.pos dirFwd st #[.exhausted] stepsB
      peakB (by simp [inBody]; omega) (by intro r hr; simp at hr; subst hr; rfl)
    have hpost := run_inv hsp hw limitB sfB cur.pos (cur.ip + 1) cur.pos dirFwd st #[.exhausted] stepsB
      peakB hinvN
    simp only [List.reverse_nil, List.push_toArray, List.nil_append] at hinner
    simp only [Pk.lookArm]
    generalize Bt.run prog inp limitB sfB (cur.ip + 1) cur.pos dirFwd st #[.exhausted] stepsB peakB = ob
      at hinner hfp hpost
    generalize Pk.runStates prog inp limitP m #[{ cur with ip := cur.ip + 1 }] dirFwd stepsP peakP = op
      at hinner
    cases ob with
    | error e => exact OutSim2.errB _ _
    | outOfFuel =>
      cases op <;> simp only [OutSim2] at hinner
      · exact OutSim2.oofP _
      · exact OutSim2.errP _ _
    | matched e st2 s2 p2 =>
      cases op with
      | error e' => exact OutSim2.errP _ _
      | failed _ _ => exact absurd hinner id
      | outOfFuel => exact OutSim2.oofP _
      | matched e' q2 s2' p2' =>
        obtain ⟨-, hle, hle2, -, hrel2, hq0, hE2⟩ := hinner
        have hF1' : limitB ≤ s2 + sfB := by omega
        have hF2' : limitP + s2 ≤ limitB + s2' := by omega
        have hq := encl_some hE2 hi hlk
        have hM := hvcM e st2 hpost
        simp only [afterLook, OutIn] at hfp ⊢
        cases negate
        · -- positive look-around matched: continue at `k`
          simp only [Bool.not_false, if_true, bne_iff_ne, ne_eq, Bool.true_eq_false, not_false_eq_true,
            pkAfter] at hM ⊢
          refine (ih m (Nat.le_refl _) sfB fwd st2 _ saved { q2 with ip := k, pos := cur.pos } s2 s2' p2 p2'
            J b ?_ hq0 ?_ hF1' hF2' hKJ ?_ hM).mono hle (by omega)
          · refine ⟨hrel2.groups, hrel2.lsize, ?_⟩
            intro id hlv
            exact hrel2.loops id (hL1 id hlv q2.ip hq.1 hq.2)
          · rw [pushSavedGroups_eq]
            apply snap1_pushSaved
            exact hsnap.congr (restoreSaved_agree prog hfp hse) hdead
          · exact recsIn_pushSaved hb _ sg eg (fun _ _ _ => rfl) (extract_length_le _ _ _)
        · -- negative look-around matched: fail
          simp only [Bool.not_true, Bool.false_eq_true, if_false, bne_self_eq_false, pkAfter,
            Bool.true_eq_false] at hM ⊢
          exact (back_sim1 hok hsp hw h1 ih sfB fwd s2 s2' p2 p2'
            (hsnap.congr (splice_restores hfp hse) hdead) hF1' hF2' hb hM).mono hle (by omega)
    | failed st2 s2 p2 =>
      cases op with
      | error e' => exact OutSim2.errP _ _
      | matched _ _ _ _ => exact absurd hinner id
      | outOfFuel => exact OutSim2.oofP _
      | failed s2' p2' =>
        obtain ⟨hle, hle2⟩ := hinner
        have hF1' : limitB ≤ s2 + sfB := by omega
        have hF2' : limitP + s2 ≤ limitB + s2' := by omega
        have hFl := hvcF st2 hpost
        simp only [afterLook, OutIn] at hfp ⊢
        have hagree := splice_restores hfp hse
        cases negate
        · -- positive look-around failed: fail
          simp only [Bool.false_eq_true, if_false, bne_self_eq_false, pkAfter] at hFl ⊢
          exact (back_sim1 hok hsp hw h1 ih sfB fwd s2 s2' p2 p2' (hsnap.congr hagree hdead) hF1' hF2' hb
            hFl).mono hle (by omega)
        · -- negative look-around failed: continue at `k` with the state before the look-around
          simp only [if_true, bne_iff_ne, ne_eq, Bool.false_eq_true, not_false_eq_true, pkAfter] at hFl ⊢
          refine (ih m (Nat.le_refl _) sfB fwd _ bts saved { cur with ip := k } s2 s2' p2 p2' J b ?_ h0
            (hsnap.congr hagree hdead) hF1' hF2' hKJ hb hFl).mono hle (by omega)
          exact (hrel.mono (p' := { cur with ip := k }) rfl rfl hsucck).congr hagree hdeadk

theorem step_loop1_eq {prog : Prog} {inp : Input} {ip pos : Nat} {fwd : Bool} {st : Bt.State}
    {bts : Array BtInsn} {mn : Nat} {mx : Option Nat} {g : Bool}
    (hi : prog.insns[ip]? = some (.loop1 mn mx g)) :
    step prog inp ip pos fwd st bts =
      match runScmLoop prog inp fwd bts pos mn mx ip g with
      | .error e => .err e
      | .ok none => .back st bts
      | .ok (some (nextIp, pos, bts)) => .cont nextIp pos st bts := by
  unfold step
  simp only [hi]
  cases runScmLoop prog inp fwd bts pos mn mx ip g with
  | error e => rfl
  | ok r => rcases r with _ | ⟨k, p, y⟩ <;> rfl

/-- **A `loop1` instruction**: one backtracker tick against the PikeVM's iteration. `stepsB`/`stepsP`
are the tick counts before the instruction. -/
theorem loop1_sim1 (hl : looksStructured prog = true)
    (hok : inpOK inp = true) (hsp : Spec prog inp A V) (hw : wfProg prog = true)
    (h1 : Loop1OK prog inp A V) {limitB limitP m : Nat}
    (ih : ∀ m', m' ≤ m → RunSimAt1 prog inp A V limitB limitP m') (sfB : Nat) (fwd : Bool)
    {st : Bt.State} {bts : Array BtInsn} {saved : List Pk.State} {cur : Pk.State}
    (stepsB stepsP peakB peakP : Nat) {J : Option Nat} {b : Nat} (hrel : StRel prog cur.ip st cur)
    (h0 : cur.loop1Iters = 0) (hsnap : Snap1 prog inp A fwd bts st saved)
    (hF1 : limitB ≤ stepsB + 1 + sfB) (hF2 : limitP + stepsB ≤ limitB + stepsP)
    (hJ : encl prog cur.ip = J) (hb : RecsIn prog (enclIs prog J) allTrue allTrue bts)
    (hinv : Inv prog A V b fwd cur.ip cur.pos st bts)
    {mn : Nat} {mx : Option Nat} {g : Bool} (hi : prog.insns[cur.ip]? = some (.loop1 mn mx g)) :
    OutSim2 prog J stepsB stepsP
      (match step prog inp cur.ip cur.pos fwd st bts with
        | .err e => .error e
        | .goal pos st => .matched pos st (stepsB + 1) peakB
        | .cont ip pos st bts' => Bt.run prog inp limitB sfB ip pos fwd st bts' (stepsB + 1) peakB
        | .back st bts' => backtrackThen prog inp limitB sfB fwd st bts' (stepsB + 1) peakB
        | .look _ _ _ _ _ _ _ => .outOfFuel)
      (Pk.runStates prog inp limitP (m + 1) (saved.reverse.toArray.push cur) fwd stepsP peakP) := by
  have hstep := step_loop1_eq (inp := inp) (pos := cur.pos) (fwd := fwd) (st := st) (bts := bts) hi
  have hinvS := step_inv hsp hw hinv
  have hinS := step_in prog (enclIs prog J) allTrue allTrue allTrue (region_encl hl J) inp cur.ip
    cur.pos fwd st bts (by simp [enclIs, hJ]) hb
  have hwi := wf_insn hw hi
  simp only [wfInsn, Bool.and_eq_true, decide_eq_true_eq] at hwi
  obtain ⟨⟨hle, _⟩, hbody⟩ := hwi
  obtain ⟨body, hbi⟩ : ∃ body, prog.insns[cur.ip + 1]? = some body := by
    cases hb' : prog.insns[cur.ip + 1]? with
    | none => rw [hb'] at hbody; cases hbody
    | some body => exact ⟨body, rfl⟩
  rw [hbi] at hbody
  simp only [Bool.and_eq_true] at hbody
  have hlive : ∀ id, live prog id (cur.ip + 2) = true → live prog id cur.ip = true := by
    intro id h; rwa [live_loop1 hi hbi hbody.1] at h
  have hv : V cur.pos := hsp.adm_v hinv.1 hi (by intro bs; simp)
  have hinvB : InvB prog A V b fwd st bts := ⟨hinv.2.2.1, hinv.2.2.2⟩
  cases hr : runScmLoop prog inp fwd bts cur.pos mn mx cur.ip g with
  | error e =>
    rw [hr] at hstep; simp only [] at hstep
    rw [hstep]; exact OutSim2.errB _ _
  | ok r =>
    obtain ⟨μ, hμ, hspec⟩ := runScmLoop_spec hr
    rw [hr] at hstep
    cases r with
    | none =>
      simp only [] at hstep hspec
      rw [hstep]
      simp only []
      refine pk_min_phase (OutSim2.oofP _) (fun e => OutSim2.errP _ e) hok hi hle hμ limitP _ hspec cur
        (m + 1) stepsP peakP rfl rfl (by simp [h0]) ?_ (fun a ha => by cases ha)
      intro _ sf' steps' peak' hlt hst
      exact (back_sim1 hok hsp hw h1 (fun m' hm' => ih m' (by omega)) sfB fwd (stepsB + 1) steps' peakB
        peak' hsnap (by omega) (by omega) hb hinvB).mono (by omega) (by omega)
    | some t =>
      obtain ⟨k, p, bts'⟩ := t
      simp only [] at hstep hspec
      obtain ⟨a, c, hE, hU, hk, hp, hbts⟩ := hspec
      rw [hstep] at hinvS hinS ⊢
      simp only []
      have hinvF : Inv prog A V b fwd k p st bts' := by
        rcases hinvS with ⟨e, he⟩ | h'
        · cases he
        · exact h'
      simp only [ActIn, enclIs, beq_iff_eq] at hinS
      obtain ⟨hJF, hbF, -⟩ := hinS
      subst hk
      obtain ⟨hva, hma⟩ := exactly_ok hsp hw h1 hinv.1 hi hμ hE hv a rfl
      obtain ⟨hvc, hmc⟩ := upTo_ok hsp hw h1 hinv.1 hi hμ hU hva
      refine pk_min_phase (OutSim2.oofP _) (fun e => OutSim2.errP _ e) hok hi hle hμ limitP _ hE cur
        (m + 1) stepsP peakP rfl rfl (by simp [h0]) (fun h => by cases h) ?_
      intro a' ha' sf' steps' peak' hle1 hle2
      cases ha'
      have hrel1 : StRel prog (cur.ip + 2) st { cur with pos := a, loop1Iters := mn } :=
        hrel.mono rfl rfl hlive
      cases g with
      | true =>
        simp only [if_true] at hp hbts
        subst hp
        refine pk_greedy_phase (OutSim2.oofP _) (fun e => OutSim2.errP _ e) hok hsp hw h1 hi hμ hinv.1
          limitP bts st a hU { cur with pos := a, loop1Iters := mn } saved sf' steps' peak' rfl rfl
          (Nat.le_refl _) rfl hva (MovedLe.refl _ _) hrel1 (.deadG _ _ _ _ _ hsnap) ?_
        intro sf'' steps'' peak'' saved'' hlt1 hlt2 hsn''
        have hF2'' : limitP + (stepsB + 1) ≤ limitB + steps'' := by
          have : stepsP < steps'' := by omega
          omega
        have hsnF : Snap1 prog inp A fwd bts' st saved'' := by
          by_cases hac : a = p
          · subst hac
            have : bts' = bts := by simpa using hbts
            rw [this]; exact hsn''.of_deadG
          · have : bts' = bts.push (.greedyLoop1Char (cur.ip + 2) a p) := by
              simp only [bne_iff_ne, ne_eq, hac, not_false_eq_true, if_true] at hbts; exact hbts
            rw [this]; exact hsn''
        have := ih sf'' (by omega) sfB fwd st bts' saved''
          { cur with pos := p, ip := cur.ip + 2, loop1Iters := 0 } (stepsB + 1) steps'' peakB peak'' J b
          (hrel.mono rfl rfl hlive) rfl hsnF (by omega) hF2'' hJF hbF hinvF
        refine OutSim2.mono this ?_ ?_ <;> omega
      | false =>
        simp only [Bool.false_eq_true, if_false] at hp hbts
        subst hp
        have hX : OutSim2 prog J (stepsB + 1) (steps' + 1)
            (run prog inp limitB sfB (cur.ip + 2) p fwd st bts' (stepsB + 1) peakB)
            (Pk.runStates prog inp limitP sf'
              (saved.reverse.toArray.push { cur with pos := p, loop1Iters := mn }) fwd steps' peak') := by
          refine lazy_tick (s := { cur with pos := p, loop1Iters := mn }) (mx := c) (bq := bts) hok hsp hw h1
            (fun m' hm' => ih m' (by omega)) sfB fwd (stepsB + 1) steps' peakB peak' hi hμ hinv.1
            (Nat.le_refl _) hU hrel1 hsnap ?_ ?_ (by omega) (by omega) hJF hbF hinvF
          · intro hca
            have : bts' = bts := by
              rw [hbts]; simp only [] at hca; simp [hca]
            rw [this]; exact hsnap
          · intro hca
            have hca' : ¬ p = c := fun h => hca h.symm
            simp only [bne_iff_ne, ne_eq, hca', not_false_eq_true, if_true] at hbts
            exact hbts
        refine OutSim2.mono hX ?_ ?_ <;> omega

/-- **Any other instruction** (those of `Sim.step_sim`): lock step. `stepsB`/`stepsP` are the tick
counts before the instruction. -/
theorem simple_sim1 (hs : loopsStructured prog = true) (hl : looksStructured prog = true)
    (hok : inpOK inp = true) (hsp : Spec prog inp A V) (hw : wfProg prog = true)
    (h1 : Loop1OK prog inp A V) {limitB limitP m : Nat}
    (ih : ∀ m', m' ≤ m → RunSimAt1 prog inp A V limitB limitP m') (sfB : Nat) (fwd : Bool)
    {st : Bt.State} {bts : Array BtInsn} {saved : List Pk.State} {cur : Pk.State}
    (stepsB stepsP peakB peakP : Nat) {J : Option Nat} {b : Nat} (hrel : StRel prog cur.ip st cur)
    (h0 : cur.loop1Iters = 0) (hsnap : Snap1 prog inp A fwd bts st saved)
    (hF1 : limitB ≤ stepsB + 1 + sfB) (hF2 : limitP + stepsB ≤ limitB + stepsP)
    (hJ : encl prog cur.ip = J) (hb : RecsIn prog (enclIs prog J) allTrue allTrue bts)
    (hinv : Inv prog A V b fwd cur.ip cur.pos st bts)
    {insn : Insn} (hinsn : prog.insns[cur.ip]? = some insn) (hsimple : simpleInsn insn = true)
    (look : Pk.Runner) (d : Nat) :
    OutSim2 prog J stepsB stepsP
      (match step prog inp cur.ip cur.pos fwd st bts with
        | .err e => .error e
        | .goal pos st => .matched pos st (stepsB + 1) peakB
        | .cont ip pos st bts' => Bt.run prog inp limitB sfB ip pos fwd st bts' (stepsB + 1) peakB
        | .back st bts' => backtrackThen prog inp limitB sfB fwd st bts' (stepsB + 1) peakB
        | .look _ _ _ _ _ _ _ => .outOfFuel)
      (pkAfter prog inp limitP m saved.reverse.toArray fwd
        (Pk.tryMatchState prog inp look (d + 1) cur fwd (stepsP + 1) peakP)) := by
  have hon : step prog inp cur.ip cur.pos fwd st bts =
      (step prog inp cur.ip cur.pos fwd st #[]).onto bts := by
    have := step_onto prog inp cur.ip cur.pos fwd st bts #[]
    simpa using this
  have hon' : step prog inp cur.ip cur.pos fwd st #[.exhausted] =
      (step prog inp cur.ip cur.pos fwd st #[]).onto #[.exhausted] := by
    have := step_onto prog inp cur.ip cur.pos fwd st #[.exhausted] #[]
    simpa using this
  have hsimple' : ∀ i, prog.insns[cur.ip]? = some i → simpleInsn i = true := by
    intro i hi; rw [hinsn] at hi; cases hi; exact hsimple
  have hsim := step_sim hs hok look d fwd (st := st) (bts := #[.exhausted]) (cur := cur) (saved := [])
    (stepsP + 1) peakP hsimple' hrel (SnapRel.bottom #[] st)
  have hfr0 := step_frame prog inp cur.ip cur.pos fwd st #[]
  have hinvS := step_inv hsp hw hinv
  have hinS := step_in prog (enclIs prog J) allTrue allTrue allTrue (region_encl hl J) inp cur.ip
    cur.pos fwd st bts (by simp [enclIs, hJ]) hb
  have hit := tms_iters (inp := inp) (look := look) (d := d) (fwd := fwd) (steps := stepsP + 1)
    (peak := peakP) hinsn hsimple
  rw [hon] at hinvS hinS ⊢
  rw [hon'] at hsim
  generalize Pk.tryMatchState prog inp look (d + 1) cur fwd (stepsP + 1) peakP = sm at hsim hit ⊢
  generalize step prog inp cur.ip cur.pos fwd st #[] = a0 at hsim hfr0 hinvS hinS ⊢
  have hF1' : limitB ≤ stepsB + 1 + sfB := hF1
  have hF2' : limitP + (stepsB + 1) ≤ limitB + (stepsP + 1) := by omega
  cases a0 with
  | err e => exact OutSim2.errB _ _
  | look d' n sg eg k st' x =>
    simp only [ActFrame] at hfr0
    obtain ⟨-, -, i, hi', hl'⟩ := hfr0
    rw [hinsn] at hi'; cases hi'
    cases insn <;> simp [simpleInsn, lookOf] at hsimple hl'
  | goal p st' =>
    simp only [Act.onto] at hsim ⊢
    cases hsim with
    | errP a e => exact OutSim2.errP _ _
    | goal hg =>
      simp only [pkAfter]
      exact ⟨rfl, by omega, by omega, rfl, hrel, h0, hJ⟩
  | cont ip' pos' st' x =>
    simp only [Act.onto] at hsim hinvS hinS ⊢
    obtain ⟨pushed, hx, hne, hrw, -⟩ := hfr0
    have hx' : x = pushed.toArray := by simpa using hx
    have hinvF : Inv prog A V b fwd ip' pos' st' (bts ++ x) := by
      rcases hinvS with ⟨e, he⟩ | h'
      · cases he
      · exact h'
    simp only [ActIn, enclIs, beq_iff_eq] at hinS
    cases hsim with
    | errP a e => exact OutSim2.errP _ _
    | cont _ _ _ _ s' e1 e2 e3 e4 =>
      subst e1; subst e2
      simp only [ItersIs] at hit
      have hsn : Snap1 prog inp A fwd (bts ++ x) st' saved := by
        have := Snap1.rebase (inp := inp) (A := A) (fwd := fwd) e4 pushed (by rw [hx']) hne
          (by intro s hs'; cases hs') (bts := bts) (saved := saved) (by rw [hrw]; exact hsnap)
        rw [hx']; simpa using this
      simp only [pkAfter]
      exact (ih m (Nat.le_refl _) sfB fwd st' _ saved s' (stepsB + 1) (stepsP + 1) peakB peakP J b e3
        (by rw [hit]; exact h0) hsn hF1' hF2' hinS.1 hinS.2.1 hinvF).mono (by omega) (by omega)
    | split _ _ _ _ s new e1 e2 e3 e4 =>
      subst e1; subst e2
      simp only [ItersIs] at hit
      have hsn : Snap1 prog inp A fwd (bts ++ x) st' (s :: saved) := by
        have := Snap1.rebase (inp := inp) (A := A) (fwd := fwd) e4 pushed (by rw [hx']) hne
          (by intro s0 hs'; simp at hs'; subst hs'; rw [hit.1]; exact h0)
          (bts := bts) (saved := saved) (by rw [hrw]; exact hsnap)
        rw [hx']; simpa using this
      simp only [pkAfter]
      rw [← reverse_cons_toArray]
      exact (ih m (Nat.le_refl _) sfB fwd st' _ (s :: saved) new (stepsB + 1) (stepsP + 1) peakB peakP J b
        e3 (by rw [hit.2]; exact h0) hsn hF1' hF2' hinS.1 hinS.2.1 hinvF).mono (by omega) (by omega)
  | back st' x =>
    simp only [Act.onto] at hsim hinvS hinS ⊢
    obtain ⟨pushed, hx, hne, hrw, -⟩ := hfr0
    have hx' : x = pushed.toArray := by simpa using hx
    have hinvF : InvB prog A V b fwd st' (bts ++ x) := by
      rcases hinvS with ⟨e, he⟩ | h'
      · cases he
      · exact h'
    simp only [ActIn] at hinS
    cases hsim with
    | errP a e => exact OutSim2.errP _ _
    | back _ _ s' e4 =>
      have hsn : Snap1 prog inp A fwd (bts ++ x) st' saved := by
        have := Snap1.rebase (inp := inp) (A := A) (fwd := fwd) e4 pushed (by rw [hx']) hne
          (by intro s hs'; cases hs') (bts := bts) (saved := saved) (by rw [hrw]; exact hsnap)
        rw [hx']; simpa using this
      simp only [pkAfter]
      exact (back_sim1 hok hsp hw h1 ih sfB fwd (stepsB + 1) (stepsP + 1) peakB peakP hsn hF1' hF2' hinS.1
        hinvF).mono (by omega) (by omega)

/-- **Stuttering simulation.** On related configurations (PikeVM stack = saved states for the choice
records of `bts`, bottom first, then the current state; positions valid) the two runs produce
corresponding outcomes, the PikeVM using at least as many ticks as the backtracker. -/
theorem run_sim1 (hs : loopsStructured prog = true) (hl : looksStructured prog = true)
    (hok : inpOK inp = true) (hsp : Spec prog inp A V) (hw : wfProg prog = true)
    (h1 : Loop1OK prog inp A V) (limitB limitP : Nat) :
    ∀ n m, m ≤ n → RunSimAt1 prog inp A V limitB limitP m := by
  intro n
  induction n with
  | zero =>
    intro m hm
    have : m = 0 := by omega
    subst this
    intro sfB fwd st bts saved cur stepsB stepsP peakB peakP J b _ _ _ _ _ _ _ _
    rw [Pk.runStates]; exact OutSim2.oofP _
  | succ n ih =>
    intro m hm
    by_cases hmn : m ≤ n
    · exact ih m hmn
    · have : m = n + 1 := by omega
      subst this
      intro sfB fwd st bts saved cur stepsB stepsP peakB peakP J b hrel h0 hsnap hF1 hF2 hJ hb hinv
      have hPoof : stepsB ≥ limitB →
          Pk.runStates prog inp limitP (n + 1) (saved.reverse.toArray.push cur) fwd stepsP peakP
            = .outOfFuel := by
        intro h
        rw [runStates_succ_push]
        have : stepsP ≥ limitP := by omega
        simp [this]
      cases sfB with
      | zero => rw [run_zero, hPoof (by omega)]; exact OutSim2.oofP _
      | succ sfB =>
        rw [run_succ]
        by_cases hgeB : stepsB ≥ limitB
        · simp only [hgeB, if_true]; rw [hPoof hgeB]; exact OutSim2.oofP _
        · simp only [hgeB, if_false]
          have hfr := step_frame prog inp cur.ip cur.pos fwd st bts
          cases hinsn : prog.insns[cur.ip]? with
          | none =>
            have : Bt.step prog inp cur.ip cur.pos fwd st bts = .err "try_at_pos: insns.iat(ip) out of range" := by
              unfold Bt.step; simp [hinsn]
            rw [this]; exact OutSim2.errB _ _
          | some insn =>
            cases hlk : lookOf insn with
            | none =>
              have hnolook : ∀ d n sg eg k st' bts',
                  step prog inp cur.ip cur.pos fwd st bts ≠ .look d n sg eg k st' bts' := by
                intro d n sg eg k st' bts' he
                rw [he] at hfr
                obtain ⟨-, -, i, hi, hl'⟩ := hfr
                rw [hinsn] at hi; cases hi; rw [hlk] at hl'; cases hl'
              by_cases hl1 : ∃ mn mx g, insn = .loop1 mn mx g
              · obtain ⟨mn, mx, g, rfl⟩ := hl1
                have key := loop1_sim1 hl hok hsp hw h1 ih sfB fwd stepsB stepsP
                  (if peakB < bts.size then bts.size else peakB) peakP hrel h0 hsnap (by omega) hF2 hJ hb
                  hinv hinsn
                cases hst : step prog inp cur.ip cur.pos fwd st bts with
                | look d n sg eg k st' bts' => exact absurd hst (hnolook d n sg eg k st' bts')
                | err e => rw [hst] at key; exact key
                | goal p st' => rw [hst] at key; exact key
                | cont a b' c d => rw [hst] at key; exact key
                | back a b' => rw [hst] at key; exact key
              · have hsimple : simpleInsn insn = true := by
                  cases insn <;> simp_all [simpleInsn, lookOf]
                rw [runStates_succ_push]
                by_cases hgeP : stepsP ≥ limitP
                · simp only [hgeP, if_true]; exact OutSim2.oofP _
                · simp only [hgeP, if_false]
                  have key := simple_sim1 hs hl hok hsp hw h1 ih sfB fwd stepsB stepsP
                    (if peakB < bts.size then bts.size else peakB)
                    (if peakP < (saved.reverse.toArray.push cur).size then
                      (saved.reverse.toArray.push cur).size else peakP)
                    hrel h0 hsnap (by omega) hF2 hJ hb hinv hinsn hsimple
                    (fun s0 dirFwd steps peak => Pk.runStates prog inp limitP n #[s0] dirFwd steps peak)
                    prog.insns.size
                  cases hst : step prog inp cur.ip cur.pos fwd st bts with
                  | look d n sg eg k st' bts' => exact absurd hst (hnolook d n sg eg k st' bts')
                  | err e => rw [hst] at key; exact key
                  | goal p st' => rw [hst] at key; exact key
                  | cont a b' c d => rw [hst] at key; exact key
                  | back a b' => rw [hst] at key; exact key
            | some t =>
              obtain ⟨sg, eg, k⟩ := t
              rw [runStates_succ_push]
              by_cases hgeP : stepsP ≥ limitP
              · simp only [hgeP, if_true]; exact OutSim2.oofP _
              · simp only [hgeP, if_false]
                cases insn <;> simp only [lookOf, Option.some.injEq, Prod.mk.injEq, reduceCtorEq] at hlk
                · next neg sg' eg' k' =>
                  obtain ⟨rfl, rfl, rfl⟩ := hlk
                  have hB : Bt.step prog inp cur.ip cur.pos fwd st bts = .look true neg sg' eg' k' st bts := by
                    unfold Bt.step; simp [hinsn]
                  rw [hB, Pk.tryMatchState]
                  simp only [hinsn]
                  exact (look_sim1 hs hl hok hsp hw h1 ih sfB fwd (stepsB + 1) (stepsP + 1) _ _ hrel h0 hsnap
                    (by omega) (by omega) hJ hb hinv hinsn rfl true neg hB).mono (by omega) (by omega)
                · next neg sg' eg' k' =>
                  obtain ⟨rfl, rfl, rfl⟩ := hlk
                  have hB : Bt.step prog inp cur.ip cur.pos fwd st bts = .look false neg sg' eg' k' st bts := by
                    unfold Bt.step; simp [hinsn]
                  rw [hB, Pk.tryMatchState]
                  simp only [hinsn]
                  exact (look_sim1 hs hl hok hsp hw h1 ih sfB fwd (stepsB + 1) (stepsP + 1) _ _ hrel h0 hsnap
                    (by omega) (by omega) hJ hb hinv hinsn rfl false neg hB).mono (by omega) (by omega)

end Runs

/-! ## Attempts -/

section Attempts
variable {prog : Prog} {inp : Input} {A : Bool → Nat → Nat → Prop} {V : Nat → Prop}

theorem stateOK_of_fresh_groups {st : Bt.State} (hg : st.groups = (freshState prog 0).groups)
    (hsz : st.loops.size = prog.loops) : StateOK prog V st := by
  refine ⟨hsz, by rw [hg]; simp [freshState], ?_⟩
  intro g gd h
  rw [hg] at h
  simp only [freshState, Array.getElem?_replicate] at h
  split at h <;> cases h
  exact ⟨fun s h => (by cases h), fun s h => (by cases h)⟩

/-- An attempt of the backtracker on a (possibly reused) matcher state with cleared groups against a
fresh attempt of the PikeVM, with tick budgets `fP ≤ fB`. -/
theorem attemptWith_sim1 (hs : loopsStructured prog = true) (hl : looksStructured prog = true)
    (hok : inpOK inp = true) (hsp : Spec prog inp A V) (hw : wfProg prog = true)
    (h1 : Loop1OK prog inp A V) (fB fP pos : Nat) (hf : fP ≤ fB) (hA : A true 0 pos)
    (st : Bt.State) (hg : st.groups = (freshState prog 0).groups) (hsz : st.loops.size = prog.loops) :
    OutSim2 prog none 0 0 (Bt.attemptWith prog inp fB pos st) (Pk.attempt prog inp fP pos) := by
  have hrel : StRel prog (Pk.initState prog pos pos).ip st (Pk.initState prog pos pos) :=
    ⟨by rw [hg]; rfl, by simp [Pk.initState, hsz], fun id h => by simp [Pk.initState, live_zero] at h⟩
  exact run_sim1 hs hl hok hsp hw h1 fB fP (fP + 1) (fP + 1) (Nat.le_refl _) fB true st #[.exhausted] []
    (Pk.initState prog pos pos) 0 0 0 0 none pos hrel rfl (.bottom #[] _) (by omega) (by omega) rfl
    (by intro r hr; simp at hr; subst hr; rfl)
    ⟨hA, MovedLe.refl _ _, stateOK_of_fresh_groups hg hsz, stackOK_init _ _⟩

/-- The initial configurations of `classicalbacktrack::verif_attempt` and `pikevm::verif_attempt`
are related, hence so are the outcomes of the attempts. -/
theorem attempt_sim1 (hs : loopsStructured prog = true) (hl : looksStructured prog = true)
    (hok : inpOK inp = true) (hsp : Spec prog inp A V) (hw : wfProg prog = true)
    (h1 : Loop1OK prog inp A V) (fB fP pos : Nat) (hf : fP ≤ fB) (hA : A true 0 pos) :
    OutSim2 prog none 0 0 (Bt.attempt prog inp fB pos) (Pk.attempt prog inp fP pos) :=
  attemptWith_sim1 hs hl hok hsp hw h1 fB fP pos hf hA (freshState prog 0) rfl (by simp [freshState])

end Attempts

end Regress.VM.L1
