import Proofs.Lemmas.E2EParse
import Proofs.Lemmas.CertsIR
import Proofs.Lemmas.CertsIR2
/-!
# Certificates, part 1: the IR-level side conditions hold of the parser's output

A third induction over the recursive descent (`consumeDisjunction` / `disjLoop` / `termLoop` /
`consumeAtom`, same skeleton as `Proofs/Lemmas/TotalParse3.lean` and `Proofs/Lemmas/E2EParse.lean`;
the facts about the parser *state* — `Inv`, `Step`, the group counter — are taken from
`Parse.descent_all`), with the invariant (`NOK M g n`): a sub-parser started with
`st.groupCount = g` builds a node `n` with

* `gscoped g (g + numGroups n) n` — capture-group scoping,
* `groupIds n = List.range' g (numGroups n)` — before `reverse_cats` the ids are handed out
  consecutively in emission (pre-)order,
* `leafOK n` — `Char`/`CharSet` payloads `≤ 0x10FFFF`, `StringSet` code points `≤ 0x10FFFF`,
* `rangesExact n` (`Proofs/Lemmas/CertsIR2.lean`) — loop and look-around ranges are exactly the ids inside,
* `refsOK M n` where `M = st.groupCountMax` is the count of the capture-group pre-scan — a numeric
  back-reference is emitted only under `group ≤ group_count_max`, a named one is `i + 1` for an index
  `i` of the name table, which the pre-scan fills with indices below its final count.

`reverse_cats` permutes the children of `Cat` nodes: `gscoped`/`leafOK`/`refsOK` are kept and
`groupIds` is permuted (`reverseCats_certs`), which gives `groupIdsDense`.

Main theorems (namespace `Regress.Certs`; all helper lemmas are in `Regress.Certs.P`): `parse_irok`
(everything but `refsOK`), `parse_rangesExact`, `parse_refs_partial` (`refsOK` for the pre-scan count
`P.preScanCount pat fl`, of which `group_count_max` is the saturation at `MAX_CAPTURE_GROUPS`).
-/
namespace Regress.Certs.P

open Regress Regress.IR Regress.Parse Regress.Keystone Regress.Closure Regress.E2E Regress.Certs

/-! ## `groupIds` -/

/-- The group ids of a list of nodes, in emission order. -/
def idsL (ns : List Node) : List Nat := (groupLists ns).map (·.1)

theorem groupIds_cat (ns : List Node) : groupIds (.cat ns) = idsL ns := by simp [groupIds, groupList, idsL]
theorem groupIds_alt (l r : Node) : groupIds (.alt l r) = groupIds l ++ groupIds r := by
  simp [groupIds, groupList]
theorem groupIds_group (id : Nat) (nm : Option (List Nat)) (c : Node) :
    groupIds (.group id nm c) = id :: groupIds c := by simp [groupIds, groupList]
theorem groupIds_look (a b : Bool) (sg eg : Nat) (c : Node) : groupIds (.look a b sg eg c) = groupIds c := by
  simp [groupIds, groupList]
theorem groupIds_loop (b : Node) (q : Quant) (g0 g1 : Nat) : groupIds (.loop b q g0 g1) = groupIds b := by
  simp [groupIds, groupList]
theorem idsL_nil : idsL [] = [] := rfl
theorem idsL_cons (n : Node) (ns : List Node) : idsL (n :: ns) = groupIds n ++ idsL ns := by
  simp [idsL, groupLists, groupIds]

theorem groupLists_append (xs ys : List Node) : groupLists (xs ++ ys) = groupLists xs ++ groupLists ys := by
  induction xs with
  | nil => simp [groupLists]
  | cons a t ih => simp [groupLists, ih]

theorem groupLists_reverse_perm (ns : List Node) : (groupLists ns.reverse).Perm (groupLists ns) := by
  induction ns with
  | nil => exact List.Perm.refl _
  | cons a t ih =>
    rw [List.reverse_cons, groupLists_append]
    simp only [groupLists, List.append_nil]
    exact (List.perm_append_comm).trans (List.Perm.append (List.Perm.refl _) ih)

/-! ## `gscoped` is monotone in the range -/

mutual
theorem gscoped_mono : ∀ (n : Node) {lo hi lo' hi' : Nat}, lo' ≤ lo → hi ≤ hi' →
    gscoped lo hi n = true → gscoped lo' hi' n = true
  | .cat ns, _, _, _, _, h1, h2, h => by
    simp only [gscoped] at h ⊢; exact gscopedList_mono ns h1 h2 h
  | .alt l r, _, _, _, _, h1, h2, h => by
    simp only [gscoped, Bool.and_eq_true] at h ⊢
    exact ⟨gscoped_mono l h1 h2 h.1, gscoped_mono r h1 h2 h.2⟩
  | .group id _ c, _, _, _, _, h1, h2, h => by
    simp only [gscoped, Bool.and_eq_true, decide_eq_true_eq] at h ⊢
    exact ⟨⟨by omega, by omega⟩, gscoped_mono c h1 h2 h.2⟩
  | .look _ _ sg eg c, _, _, _, _, h1, h2, h => by
    simp only [gscoped, Bool.and_eq_true, decide_eq_true_eq] at h ⊢
    exact ⟨⟨⟨by omega, by omega⟩, by omega⟩, h.2⟩
  | .loop b _ g0 g1, _, _, _, _, h1, h2, h => by
    simp only [gscoped, Bool.and_eq_true, Bool.or_eq_true, decide_eq_true_eq] at h ⊢
    refine ⟨⟨?_, gscoped_mono b h1 h2 h.1.2⟩, h.2⟩
    rcases h.1.1 with h' | h'
    · exact .inl h'
    · exact .inr ⟨by omega, by omega⟩
  | .loop1 b _, _, _, _, _, h1, h2, h => by
    simp only [gscoped] at h ⊢; exact gscoped_mono b h1 h2 h
  | .empty, _, _, _, _, _, _, _ => rfl
  | .goal, _, _, _, _, _, _, _ => rfl
  | .char _, _, _, _, _, _, _, _ => rfl
  | .byteSeq _, _, _, _, _, _, _, _ => rfl
  | .byteSet _, _, _, _, _, _, _, _ => rfl
  | .charSet _, _, _, _, _, _, _, _ => rfl
  | .matchAny, _, _, _, _, _, _, _ => rfl
  | .matchAnyExceptLT, _, _, _, _, _, _, _ => rfl
  | .anchor _ _, _, _, _, _, _, _, _ => rfl
  | .wordBoundary _ _, _, _, _, _, _, _, _ => rfl
  | .backRef _ _, _, _, _, _, _, _, _ => rfl
  | .bracket _, _, _, _, _, _, _, _ => rfl
  | .stringSet _ _, _, _, _, _, _, _, _ => rfl
theorem gscopedList_mono : ∀ (ns : List Node) {lo hi lo' hi' : Nat}, lo' ≤ lo → hi ≤ hi' →
    gscopedList lo hi ns = true → gscopedList lo' hi' ns = true
  | [], _, _, _, _, _, _, _ => rfl
  | n :: ns, _, _, _, _, h1, h2, h => by
    simp only [gscopedList, Bool.and_eq_true] at h ⊢
    exact ⟨gscoped_mono n h1 h2 h.1, gscopedList_mono ns h1 h2 h.2⟩
end

/-! ## The descent invariant on nodes -/

/-- What a sub-parser started with `group_count = g` builds (`M` = the pre-scan count). -/
def NOK (M g : Nat) (n : Node) : Prop :=
  gscoped g (g + numGroups n) n = true ∧ groupIds n = List.range' g (numGroups n) ∧
    leafOK n = true ∧ refsOK M n = true ∧ rangesExact n = true

/-- A list of nodes built one after the other, the first from `group_count = g`. -/
def LOK (M : Nat) : Nat → List Node → Prop
  | _, [] => True
  | g, n :: ns => NOK M g n ∧ LOK M (g + numGroups n) ns

theorem LOK_append {M : Nat} : ∀ {xs ys : List Node} {g : Nat}, LOK M g xs →
    LOK M (g + numGroupsList xs) ys → LOK M g (xs ++ ys)
  | [], _, _, _, h2 => by simpa [numGroupsList] using h2
  | x :: xs, ys, g, h1, h2 => by
    simp only [List.cons_append, LOK] at h1 ⊢
    refine ⟨h1.1, LOK_append h1.2 ?_⟩
    simp only [numGroupsList] at h2
    rwa [Nat.add_assoc]

theorem LOK_split {M : Nat} : ∀ {xs ys : List Node} {g : Nat}, LOK M g (xs ++ ys) →
    LOK M g xs ∧ LOK M (g + numGroupsList xs) ys
  | [], _, _, h => by simp [LOK, numGroupsList] at h ⊢; exact h
  | x :: xs, ys, g, h => by
    simp only [List.cons_append, LOK] at h ⊢
    have := LOK_split h.2
    simp only [numGroupsList]
    rw [← Nat.add_assoc]
    exact ⟨⟨h.1, this.1⟩, this.2⟩

theorem LOK_take_drop {M : Nat} {xs : List Node} {g : Nat} (k : Nat) (h : LOK M g xs) :
    LOK M g (xs.take k) ∧ LOK M (g + numGroupsList (xs.take k)) (xs.drop k) := by
  rw [← List.take_append_drop k xs] at h
  exact LOK_split h

theorem LOK_single {M g : Nat} {n : Node} (h : NOK M g n) : LOK M g [n] := ⟨h, trivial⟩

/-- The whole-list facts of a chain. -/
theorem LOK_list {M : Nat} : ∀ {ns : List Node} {g : Nat}, LOK M g ns →
    gscopedList g (g + numGroupsList ns) ns = true ∧ idsL ns = List.range' g (numGroupsList ns) ∧
      leafOKList ns = true ∧ refsOKList M ns = true ∧ rangesExactList ns = true
  | [], _, _ => ⟨rfl, rfl, rfl, rfl, rfl⟩
  | n :: ns, g, h => by
    obtain ⟨⟨h1, h2, h3, h4, h5⟩, ht⟩ := h
    obtain ⟨t1, t2, t3, t4, t5⟩ := LOK_list ht
    simp only [gscopedList, numGroupsList, idsL_cons, leafOKList, refsOKList, rangesExactList,
      Bool.and_eq_true]
    refine ⟨⟨gscoped_mono n (Nat.le_refl _) (by omega) h1, ?_⟩, ?_, ⟨h3, t3⟩, ⟨h4, t4⟩, ⟨h5, t5⟩⟩
    · rw [← Nat.add_assoc]; exact gscopedList_mono ns (by omega) (Nat.le_refl _) t1
    · rw [h2, t2]
      simp

theorem NOK_cat {M g : Nat} {ns : List Node} (h : LOK M g ns) : NOK M g (.cat ns) := by
  obtain ⟨h1, h2, h3, h4, h5⟩ := LOK_list h
  exact ⟨by simpa only [gscoped, numGroups] using h1, by simpa only [groupIds_cat, numGroups] using h2,
    by simpa only [leafOK] using h3, by simpa only [refsOK] using h4, by simpa only [rangesExact] using h5⟩

theorem NOK_alt {M g : Nat} {l r : Node} (hl : NOK M g l) (hr : NOK M (g + numGroups l) r) :
    NOK M g (.alt l r) := by
  have := NOK_cat (ns := [l, r]) ⟨hl, hr, trivial⟩
  obtain ⟨h1, h2, h3, h4, h5⟩ := this
  simp only [gscoped, gscopedList, numGroups, numGroupsList, groupIds_cat, idsL_cons, idsL_nil, leafOK,
    leafOKList, refsOK, refsOKList, rangesExact, rangesExactList, Bool.and_true, List.append_nil,
    Nat.add_zero] at h1 h2 h3 h4 h5
  exact ⟨by simpa only [gscoped, numGroups] using h1, by simpa only [groupIds_alt, numGroups] using h2,
    by simpa only [leafOK] using h3, by simpa only [refsOK] using h4, by simpa only [rangesExact] using h5⟩

theorem NOK_group {M g : Nat} {nm : Option (List Nat)} {c : Node} (h : NOK M (g + 1) c) :
    NOK M g (.group g nm c) := by
  obtain ⟨h1, h2, h3, h4, h5⟩ := h
  refine ⟨?_, ?_, by simpa only [leafOK] using h3, by simpa only [refsOK] using h4,
    by simpa only [rangesExact] using h5⟩
  · simp only [gscoped, numGroups, Bool.and_eq_true, decide_eq_true_eq]
    exact ⟨⟨Nat.le_refl _, decide_eq_true (by omega)⟩,
      gscoped_mono c (lo := g + 1) (hi := g + 1 + numGroups c) (by omega) (by omega) h1⟩
  · rw [groupIds_group, h2]; simp only [numGroups]; rw [List.range'_succ]

theorem NOK_look {M g : Nat} {a b : Bool} {c : Node} (h : NOK M g c) :
    NOK M g (.look a b g (g + numGroups c) c) := by
  obtain ⟨h1, h2, h3, h4, h5⟩ := h
  refine ⟨?_, by simpa only [groupIds_look, numGroups] using h2, by simpa only [leafOK] using h3,
    by simpa only [refsOK] using h4, ?_⟩
  · simp only [gscoped, numGroups, Bool.and_eq_true, decide_eq_true_eq]
    exact ⟨⟨⟨Nat.le_refl _, by omega⟩, by simp⟩, h1⟩
  · simp only [rangesExact, Bool.and_eq_true, List.all_eq_true, List.contains_iff_mem]
    refine ⟨fun x hx => ?_, h5⟩
    rw [h2]; simpa using hx

theorem NOK_loop {M g : Nat} {q : Quant} {b : Node} (h : NOK M g b) :
    NOK M g (.loop b q g (g + numGroups b)) := by
  obtain ⟨h1, h2, h3, h4, h5⟩ := h
  refine ⟨?_, by simpa only [groupIds_loop, numGroups] using h2, by simpa only [leafOK] using h3,
    by simpa only [refsOK] using h4, ?_⟩
  · simp only [gscoped, numGroups, Bool.and_eq_true, Bool.or_eq_true, decide_eq_true_eq, List.all_eq_true]
    refine ⟨⟨.inr ⟨Nat.le_refl _, by simp⟩, h1⟩, ?_⟩
    intro x hx
    rw [h2, List.mem_range'_1] at hx
    exact hx
  · simp only [rangesExact, Bool.and_eq_true, List.all_eq_true, List.contains_iff_mem]
    refine ⟨fun x hx => ?_, h5⟩
    rw [h2]; simpa using hx

/-- A node without capture groups, look-arounds and loops whose payloads are fine. -/
theorem NOK_leaf {M : Nat} {n : Node} (h0 : numGroups n = 0) (hs : ∀ lo hi, gscoped lo hi n = true)
    (hi : groupIds n = []) (hl : leafOK n = true) (hr : refsOK M n = true)
    (hx : rangesExact n = true) (g : Nat) : NOK M g n :=
  ⟨hs _ _, by rw [hi, h0]; rfl, hl, hr, hx⟩

/-! ## `make_cat`, `make_alt` -/

theorem makeCat_NOK {M g : Nat} {ns : List Node} (h : LOK M g ns) : NOK M g (makeCat ns) := by
  unfold makeCat
  split
  · exact NOK_leaf rfl (fun _ _ => rfl) rfl rfl rfl rfl g
  · exact h.1
  · exact NOK_cat h

theorem makeAltFuel_NOK {M : Nat} (fuel : Nat) (ns : List Node) (hf : ns.length ≤ fuel) :
    ∀ (g : Nat), LOK M g ns → NOK M g (makeAltFuel fuel ns) := by
  fun_induction makeAltFuel fuel ns
  · intro g _; exact NOK_leaf rfl (fun _ _ => rfl) rfl rfl rfl rfl g
  · intro g h; exact h.1
  · intro g _; exact NOK_leaf rfl (fun _ _ => rfl) rfl rfl rfl rfl g
  · rename_i fuel ns hne1 hne2 hl ih1 ih2
    intro g h
    have hlen : 2 ≤ ns.length := by
      match ns, hne1, hne2 with
      | [], h1, _ => exact absurd rfl h1
      | [x], _, h2 => exact absurd rfl (h2 x)
      | _ :: _ :: _, _, _ => simp
    have htd := LOK_take_drop (ns.length / 2) h
    have h1 := ih1 (by simp; omega) g htd.1
    refine NOK_alt h1 (ih2 (by simp; omega) _ ?_)
    rw [makeAltFuel_numGroups _ _ (by simp; omega)]
    exact htd.2

theorem makeAlt_NOK {M g : Nat} {ns : List Node} (h : LOK M g ns) : NOK M g (makeAlt ns) :=
  makeAltFuel_NOK _ _ (Nat.le_refl _) g h

/-! ## Code point bounds -/

theorem foldWith_le {tbl : List Fold.FoldRange} (hw : Fold.RowsWF tbl) {c : Nat} (hc : c ≤ 0x10FFFF) :
    Fold.foldWith tbl c ≤ 0x10FFFF := by
  unfold Fold.foldWith
  cases hf : Fold.findRow tbl c with
  | none => exact hc
  | some fr =>
    obtain ⟨h1, h2, h3⟩ := Fold.findRow_some hf
    simp only [Fold.FoldRange.apply]
    split
    · exact (hw.1 fr h1).addDelta_le_max h2 h3
    · exact hc

theorem foldWith_big {tbl : List Fold.FoldRange} (hw : Fold.RowsWF tbl) {c : Nat} (hc : 0x10FFFF < c) :
    Fold.foldWith tbl c = c := by
  apply Fold.foldWith_outside
  intro fr hfr h
  have := (hw.1 fr hfr).last_le
  omega

theorem foldCodePoint_eq (c : Nat) (u : Bool) :
    Fold.foldCodePoint c u = Fold.foldWith (if u then Fold.folds else Fold.toUppercase) c := by
  cases u <;> rfl

/-- The case class of a code point `≤ 0x10FFFF` consists of code points `≤ 0x10FFFF`. -/
theorem expand_le {c d : Nat} {ic u : Bool} (hc : c ≤ 0x10FFFF) (hd : d ∈ Fold.expandCodePoint c ic u) :
    d ≤ 0x10FFFF := by
  cases ic with
  | false => simp [Fold.expandCodePoint] at hd; omega
  | true =>
    have h := (C10.expand_iff c d u).1 hd
    rw [foldCodePoint_eq, foldCodePoint_eq] at h
    have hw : Fold.RowsWF (if u then Fold.folds else Fold.toUppercase) := by
      cases u
      · exact C10.folds_rows_wf.2
      · exact C10.folds_rows_wf.1
    by_cases hbig : 0x10FFFF < d
    · rw [foldWith_big hw hbig] at h
      have := foldWith_le hw hc
      omega
    · omega

/-! ## Leaves -/

/-- A node the descent appends that is fine from every group counter (no groups inside). -/
def LfC (M : Nat) (n : Node) : Prop := ∀ g, NOK M g n

theorem lfc_simple {M : Nat} {n : Node} (h0 : numGroups n = 0) (hs : ∀ lo hi, gscoped lo hi n = true)
    (hi : groupIds n = []) (hl : leafOK n = true) (hr : refsOK M n = true)
    (hx : rangesExact n = true := by rfl) : LfC M n :=
  fun g => NOK_leaf h0 hs hi hl hr hx g

theorem charNode_lfc {M : Nat} {fl : Flags} {c : Nat} {n : Node} (hc : c ≤ 0x10FFFF)
    (h : charNode fl c = .ok n) : LfC M n := by
  have hb : ∀ d ∈ Fold.expandCodePoint c fl.icase fl.unicode, d < U32 := fun d hd => by
    have := expand_le hc hd; unfold U32; omega
  unfold charNode at h
  split at h
  · cases h
    exact lfc_simple rfl (fun _ _ => rfl) rfl (by show decide (c < U32) = true; exact decide_eq_true (by unfold U32; omega)) rfl
  · simp only at h
    split at h
    · rename_i x heq; cases h
      exact lfc_simple rfl (fun _ _ => rfl) rfl (by simpa [leafOK, heq] using hb) rfl
    · cases h
      exact lfc_simple rfl (fun _ _ => rfl) rfl (by simpa [leafOK, List.all_eq_true] using hb) rfl
    · cases h
      exact lfc_simple rfl (fun _ _ => rfl) rfl (by simpa [leafOK, List.all_eq_true] using hb) rfl
    · cases h
      exact lfc_simple rfl (fun _ _ => rfl) rfl (by simpa [leafOK, List.all_eq_true] using hb) rfl
    · cases h

theorem mkBracket_lfc {M : Nat} (inv : Bool) (cps : CPS.IvList) : LfC M (mkBracket inv cps) :=
  lfc_simple rfl (fun _ _ => rfl) rfl rfl rfl

theorem makeBracketClass_lfc {M : Nat} (ct : ClassType) (p i : Bool) : LfC M (makeBracketClass ct p i) :=
  mkBracket_lfc _ _

/-! ## The pre-scan data in the parser state -/

/-- `group_count_max ≤ M` and every index in the name table is `< M`. -/
def SOK (M : Nat) (st : PState) : Prop :=
  st.groupCountMax ≤ M ∧ ∀ e ∈ st.named, ∀ i ∈ e.2, i < M

theorem SOK.of_eq {M : Nat} {st st' : PState} (h : SOK M st) (h1 : st'.groupCountMax = st.groupCountMax)
    (h2 : st'.named = st.named) : SOK M st' := by
  unfold SOK; rw [h1, h2]; exact h

theorem SOK.input {M : Nat} {st : PState} (h : SOK M st) (r : List Nat) : SOK M { st with input := r } := h

theorem backRef_lfc {M g : Nat} {ic : Bool} (h1 : 1 ≤ g) (h2 : g ≤ M) : LfC M (.backRef g ic) :=
  lfc_simple rfl (fun _ _ => rfl) rfl rfl (by simp [refsOK, h1, h2])

theorem backRefs_LOK {M : Nat} {ic : Bool} : ∀ (idxs : List Nat), (∀ i ∈ idxs, i < M) → ∀ g,
    LOK M g (idxs.map fun i => .backRef (i + 1) ic)
  | [], _, _ => trivial
  | i :: t, h, g => by
    refine ⟨backRef_lfc (by omega) (by have := h i (by simp); omega) g, ?_⟩
    exact backRefs_LOK t (fun j hj => h j (by simp [hj])) _

theorem stringSet_lfc {M : Nat} {strs : List (List Nat)} {ic : Bool} (h : AltsBnd strs) :
    LfC M (.stringSet strs ic) := by
  refine lfc_simple rfl (fun _ _ => rfl) rfl ?_ rfl
  simp only [leafOK, List.all_eq_true, decide_eq_true_eq]
  exact fun a ha c hc => h a ha c hc

theorem consumeAtomEscape_lfc {M : Nat} {st : PState} (hi : Parse.Inv st) (hs : SOK M st) {nd : Node}
    {st' : PState} : consumeAtomEscape st = .ok (nd, st') →
      LfC M nd ∧ st'.groupCountMax = st.groupCountMax := by
  fun_cases consumeAtomEscape st
  all_goals try simp only [*]
  all_goals try (simp [synErr, panicAt]; done)
  all_goals (have hinp := ‹st.input = _ :: _›; have hb := hi.bnd; rw [hinp] at hb)
  all_goals intro h
  all_goals try (cases h; exact ⟨makeBracketClass_lfc _ _ _, rfl⟩)
  all_goals try (cases h; exact ⟨mkBracket_lfc _ _, rfl⟩)
  -- \p{property of strings}
  · cases h
    have h1 := (propertyEscape_ens _ _).ok_of_eq ‹propertyEscape _ _ = _›
    exact ⟨stringSet_lfc h1.1, rfl⟩
  -- \1 … \9 (`u` mode)
  · rename_i hc _ _ hdl hle
    cases h
    simp only [Bool.and_eq_true, decide_eq_true_eq] at hc
    have := decimalLiteral_pos hc.1.1 hc.1.2 (by rw [← hinp]; exact hdl)
    exact ⟨backRef_lfc this (Nat.le_trans hle hs.1), rfl⟩
  -- \1 … \9 (legacy)
  · rename_i hc _ _ hdl hle
    cases h
    simp only [Bool.and_eq_true, decide_eq_true_eq] at hc
    have := decimalLiteral_pos hc.1 hc.2 (by rw [← hinp]; exact hdl)
    exact ⟨backRef_lfc this (Nat.le_trans hle hs.1), rfl⟩
  · cases h
    have hx := ‹characterEscape _ _ st.input = _›
    rw [hinp] at hx
    have h1 := (characterEscape_ens _ _ _ _ hb).ok_of_eq hx
    exact ⟨charNode_lfc h1.2 ‹charNode _ _ = _›, rfl⟩
  -- \k<name>
  · cases h
    obtain ⟨e, he, h0⟩ := mapGet_mem ‹mapGet st.named _ = _›
    have := hs.2 e he _ (by rw [h0]; exact List.mem_singleton.2 rfl)
    exact ⟨backRef_lfc (by omega) (by omega), rfl⟩
  · cases h
    obtain ⟨e, he, h0⟩ := mapGet_mem ‹mapGet st.named _ = _›
    exact ⟨fun g => NOK_cat (backRefs_LOK _ (fun i hi' => hs.2 e he i (h0 ▸ hi')) g), rfl⟩
  · cases h
    exact ⟨charNode_lfc hb.head ‹charNode _ _ = _›, rfl⟩
  · cases h
    have hx := ‹characterEscape _ _ st.input = _›
    rw [hinp] at hx
    have h1 := (characterEscape_ens _ _ _ _ hb).ok_of_eq hx
    exact ⟨charNode_lfc h1.2 ‹charNode _ _ = _›, rfl⟩

/-! ## The node of a `v`-mode class -/

theorem mem_insertByLenDesc' (x a : List Nat) : ∀ (l : List (List Nat)),
    a ∈ insertByLenDesc x l → a = x ∨ a ∈ l
  | [] => by simp [insertByLenDesc]
  | y :: ys => by
    simp only [insertByLenDesc]
    split
    · simp
    · simp only [List.mem_cons]
      rintro (h | h)
      · exact .inr (.inl h)
      · rcases mem_insertByLenDesc' x a ys h with h | h
        · exact .inl h
        · exact .inr (.inr h)

theorem mem_sortByLenDesc' {a : List Nat} {l : List (List Nat)} (h : a ∈ sortByLenDesc l) : a ∈ l := by
  unfold sortByLenDesc at h
  have : ∀ (l acc : List (List Nat)), a ∈ l.foldl (fun acc x => insertByLenDesc x acc) acc →
      a ∈ l ∨ a ∈ acc := by
    intro l
    induction l with
    | nil => intro acc h; exact .inr h
    | cons x t ih =>
      intro acc h
      simp only [List.foldl_cons] at h
      rcases ih _ h with h | h
      · exact .inl (List.mem_cons_of_mem _ h)
      · rcases mem_insertByLenDesc' _ _ _ h with h | h
        · exact .inl (by simp [h])
        · exact .inr h
  rcases this l [] h with h | h
  · exact h
  · cases h

theorem altsIntoNode_lfc {M : Nat} {alts : List (List Nat)} (ic : Bool) (h : AltsBnd alts) :
    LfC M (altsIntoNode alts ic) :=
  stringSet_lfc (fun a ha => h a (mem_sortByLenDesc' ha))

theorem altPair_lfc {M : Nat} {a b : Node} (ha : LfC M a) (hb : LfC M b) : LfC M (makeAlt [a, b]) :=
  fun g => makeAlt_NOK (ns := [a, b]) ⟨ha g, hb _, trivial⟩

theorem empty_lfc {M : Nat} : LfC M .empty := lfc_simple rfl (fun _ _ => rfl) rfl rfl rfl

theorem classSetNode_lfc {M : Nat} {cs : ClassSet} (hs : CSOK cs) (icase neg : Bool) :
    LfC M (cs.node icase neg) := by
  have hne : ∀ (s : ClassSet), AltsBnd s.alts → LfC M (s.nonemptyNode icase neg) := by
    intro s hs
    unfold ClassSet.nonemptyNode
    simp only
    generalize (if icase = true then Fold.addIcaseCodePoints s.cps else s.cps) = cp
    by_cases h1 : s.alts.isEmpty = true
    · rw [if_pos h1]; exact mkBracket_lfc _ _
    · rw [if_neg h1]
      by_cases h2 : cp.isEmpty = true
      · rw [if_pos h2]; exact altsIntoNode_lfc _ hs
      · rw [if_neg h2]; exact altPair_lfc (altsIntoNode_lfc _ hs) (mkBracket_lfc _ _)
  have ha := absorbSingleCharacters_ok hs
  unfold ClassSet.node
  simp only
  split
  · exact altPair_lfc (hne _ (ha.2.filter _)) empty_lfc
  · exact hne _ (ha.2.filter _)

/-! ## The pieces of `consumeAtom` -/

/-- What `consumeAtom` adds to `result` (`gs`: the group counter `result` was started from): the
part before `startOffset` continues the chain from `gs`, the quantifiable part starts at the group
counter of the state `consumeAtom` was called in. -/
def AtomC (M gs : Nat) (st : PState) (out : AtomOut) : Prop :=
  LOK M gs (out.result.take out.startOffset) ∧ LOK M st.groupCount (out.result.drop out.startOffset) ∧
    out.st.groupCountMax = st.groupCountMax

theorem atomC_node {M gs : Nat} {st st' : PState} {result : List Node} {n : Node} {qa : Bool}
    (hr : LOK M gs result) (hn : NOK M st.groupCount n) (hm : st'.groupCountMax = st.groupCountMax) :
    AtomC M gs st ⟨result ++ [n], st', result.length, qa⟩ := by
  refine ⟨?_, ?_, hm⟩
  · show LOK M gs ((result ++ [n]).take result.length)
    rw [List.take_left]; exact hr
  · show LOK M st.groupCount ((result ++ [n]).drop result.length)
    rw [List.drop_left]; exact LOK_single hn

theorem atomC_leaf {M gs : Nat} {st st' : PState} {result : List Node} {n : Node} {qa : Bool}
    (hr : LOK M gs result) (hn : LfC M n) (hm : st'.groupCountMax = st.groupCountMax) :
    AtomC M gs st ⟨result ++ [n], st', result.length, qa⟩ := atomC_node hr (hn _) hm

theorem two_chars_C {M gs : Nat} {st st' : PState} {fl : Flags} {result : List Node} {out : AtomOut}
    (hr : LOK M gs result)
    (h : (match charNode fl 0x5C, charNode fl 0x63 with
      | .ok a, .ok b => (.ok ⟨result ++ [a, b], st', result.length + 1, true⟩ : Res AtomOut)
      | .error e, _ => .error e
      | _, .error e => .error e) = .ok out) (hm : st'.groupCountMax = st.groupCountMax) :
    AtomC M gs st out := by
  split at h
  · rename_i a b ha hb
    cases h
    have la : LfC M a := charNode_lfc (by omega) ha
    have lb : LfC M b := charNode_lfc (by omega) hb
    have e : result ++ [a, b] = (result ++ [a]) ++ [b] := by simp
    refine ⟨?_, ?_, hm⟩
    · show LOK M gs ((result ++ [a, b]).take (result.length + 1))
      rw [e, show result.length + 1 = (result ++ [a]).length by simp, List.take_left]
      exact LOK_append hr (LOK_single (la _))
    · show LOK M st.groupCount ((result ++ [a, b]).drop (result.length + 1))
      rw [e, show result.length + 1 = (result ++ [a]).length by simp, List.drop_left]
      exact LOK_single (lb _)
  · cases h
  · cases h

theorem tryConsume_gcm (c : Nat) (st : PState) : (tryConsume c st).2.groupCountMax = st.groupCountMax := by
  unfold tryConsume
  split
  · split <;> rfl
  · rfl

theorem tryConsume_gcm' {c : Nat} {st st' : PState} {b : Bool} (h : tryConsume c st = (b, st')) :
    st'.groupCountMax = st.groupCountMax := by
  have := tryConsume_gcm c st; rw [h] at this; exact this

theorem tryConsumeStr_gcm' {s : List Nat} {st st' : PState} {b : Bool} (h : tryConsumeStr s st = (b, st')) :
    st'.groupCountMax = st.groupCountMax := by
  unfold tryConsumeStr at h
  split at h <;> (cases h; rfl)

/-- What the pieces need to know about `cd = consumeDisjunction fuel`, below the state `st`. -/
def CDC (M : Nat) (cd : PState → Res (Node × PState)) (st : PState) : Prop :=
  ∀ st' p, Parse.Inv st' → st'.input.length < st.input.length → SOK M st' → cd st' = .ok p →
    NOK M st'.groupCount p.1 ∧ p.2.groupCountMax = st'.groupCountMax

/-- A node built after advancing. -/
def GroupC (M : Nat) (st : PState) (r : Res (Node × PState × Bool)) : Prop :=
  ∀ nd st1 qa, r = .ok (nd, st1, qa) → NOK M st.groupCount nd ∧ st1.groupCountMax = st.groupCountMax

theorem closeParenA_C {M gs : Nat} {st : PState} {result : List Node} {r : Res (Node × PState × Bool)}
    {out : AtomOut} (hr : LOK M gs result) (hg : GroupC M st r)
    (h : closeParenA result result.length r = .ok out) : AtomC M gs st out := by
  unfold closeParenA at h
  split at h
  · cases h
  · rename_i nd st1 qa
    have h1 := hg nd st1 qa rfl
    split at h
    · rename_i st2 heq
      cases h
      exact atomC_node hr h1.1 ((tryConsume_gcm' heq).trans h1.2)
    · cases h

theorem lookA_C {M : Nat} {cd : PState → Res (Node × PState)} {st st1 : PState} (hcd : CDOk cd st)
    (hcc : CDC M cd st) (ha : Adv st st1) (hs : SOK M st1) (hm : st1.groupCountMax = st.groupCountMax)
    (negate backwards qa : Bool) : GroupC M st (lookA cd st1 negate backwards qa) := by
  intro nd st2 qa' h
  unfold lookA at h
  simp only at h
  split at h
  · cases h
  · rename_i contents st3 heq
    have h1 : DisjPost st1 (contents, st3) := (hcd st1 ha.1.inv ha.2.1).ok_of_eq heq
    have h2 := hcc st1 _ ha.1.inv ha.2.1 hs heq
    have hg : st3.groupCount = st1.groupCount + numGroups contents := h1.2.2
    cases h
    rw [hg, ← ha.2.2]
    exact ⟨NOK_look h2.1, h2.2.trans hm⟩

/-- A plain group-like continuation: `cd st1`, node passed through with the same groups. -/
theorem cdA_C {M : Nat} {cd : PState → Res (Node × PState)} {st st1 : PState}
    (hcc : CDC M cd st) (ha : Adv st st1) (hs : SOK M st1) (hm : st1.groupCountMax = st.groupCountMax) :
    GroupC M st (match cd st1 with
      | .error e => .error e
      | .ok (nd, st) => .ok (nd, st, true)) := by
  intro nd st2 qa' h
  split at h
  · cases h
  · rename_i nd' st3 heq
    cases h
    have h2 := hcc st1 _ ha.1.inv ha.2.1 hs heq
    rw [← ha.2.2]
    exact ⟨h2.1, h2.2.trans hm⟩

theorem atomBackslashA_C {M gs : Nat} {st : PState} (hi : Parse.Inv st) (hs : SOK M st) {rest0 : List Nat}
    {result : List Node} {out : AtomOut} (hr : LOK M gs result) (hinp : st.input = 0x5C :: rest0)
    (h : atomBackslashA st result = .ok out) : AtomC M gs st out := by
  unfold atomBackslashA at h
  rw [consume_eq hinp] at h
  have ha0 : Adv st { st with input := rest0 } := adv_input hi (by rw [hinp]; ssuf_tac)
  simp only at h
  split at h
  · cases h
  · rename_i e rest
    split at h
    · cases h; exact atomC_leaf hr (lfc_simple rfl (fun _ _ => rfl) rfl rfl rfl) rfl
    · split at h
      · cases h; exact atomC_leaf hr (lfc_simple rfl (fun _ _ => rfl) rfl rfl rfl) rfl
      · split at h
        · split at h
          · rename_i n rest2
            split at h
            · split at h
              · cases h
              · rename_i nd heq
                cases h
                exact atomC_leaf hr (charNode_lfc (by have := Nat.mod_lt n (show 0 < 32 by omega); omega) heq) rfl
            · exact two_chars_C hr h rfl
          · exact two_chars_C hr h rfl
        · split at h
          · cases h
          · rename_i nd st2 heq
            cases h
            have h1 := consumeAtomEscape_lfc ha0.1.inv (hs.input _) heq
            exact atomC_leaf hr h1.1 h1.2

theorem atomCaptureA_C {M gs : Nat} {cd : PState → Res (Node × PState)} {st : PState} (hi : Parse.Inv st)
    (hs : SOK M st) (hcc : CDC M cd st) {c : Nat} {rest0 : List Nat}
    {result : List Node} {out : AtomOut} (hr : LOK M gs result) (hinp : st.input = c :: rest0)
    (h : atomCaptureA cd st result = .ok out) : AtomC M gs st out := by
  unfold atomCaptureA at h
  rw [consume_eq hinp] at h
  simp only at h
  split at h
  · cases h
  · rename_i hlt
    simp only [ge_iff_le, Nat.not_le] at hlt
    have hi1 : Parse.Inv { st with input := rest0, groupCount := st.groupCount + 1 } :=
      ⟨hi.named, hi.depth, by show st.groupCount + 1 ≤ _; omega, hi.loops, (hinp ▸ hi.bnd).tail⟩
    split at h
    · cases h
    · rename_i groupName st3 heq
      have h3 : Step { st with input := rest0, groupCount := st.groupCount + 1 } st3 ∧
          st3.groupCount = st.groupCount + 1 ∧ st3.groupCountMax = st.groupCountMax := by
        split at heq
        · rename_i st2 hq
          obtain ⟨r2, hr2, rfl⟩ := tryConsumeStr_true hq
          have hnm := tryConsumeName_ens r2
          split at heq
          · cases heq
          · cases heq
          · rename_i name rest he'
            cases heq
            have hsuf : rest <:+ r2 := hnm.ok_of_eq he'
            have hr2' : r2 <:+ rest0 := by
              have : rest0 = [0x3F] ++ r2 := hr2
              rw [this]; exact List.suffix_append _ _
            exact ⟨Step.input hi1 (hsuf.trans hr2'), rfl, rfl⟩
        · rename_i st2 hq
          cases heq
          rw [tryConsumeStr_false hq]
          exact ⟨Step.refl hi1, rfl, rfl⟩
      have hlen : st3.input.length < st.input.length := by
        have := h3.1.suf.length_le
        simp only [hinp, List.length_cons] at *
        omega
      refine closeParenA_C hr ?_ h
      intro nd st4 qa hh
      split at hh
      · cases hh
      · rename_i contents st5 heq'
        cases hh
        have h2 := hcc st3 _ h3.1.inv hlen (hs.of_eq h3.2.2 h3.1.named) heq'
        rw [h3.2.1] at h2
        exact ⟨NOK_group h2.1, h2.2.trans h3.2.2⟩

theorem Adv.gcm_lookbehind {st st1 : PState} (h : st1.groupCountMax = st.groupCountMax) :
    ({ st1 with hasLookbehind := true } : PState).groupCountMax = st.groupCountMax := h

theorem atomParenA_C {M gs : Nat} {cd : PState → Res (Node × PState)} {st : PState} (hi : Parse.Inv st)
    (hs : SOK M st) (hcd : CDOk cd st) (hcc : CDC M cd st) {rest0 : List Nat}
    {result : List Node} {out : AtomOut} (hr : LOK M gs result) (hinp : st.input = 0x28 :: rest0)
    (h : atomParenA cd st result = .ok out) : AtomC M gs st out := by
  unfold atomParenA at h
  simp only at h
  split at h
  · rename_i st1 h1
    have ha := tryConsumeStr_adv hi (by simp) h1
    have hm := tryConsumeStr_gcm' h1
    exact closeParenA_C hr (lookA_C hcd hcc ha (hs.of_eq hm ha.1.named) hm _ _ _) h
  · rename_i st1 h1
    rw [tryConsumeStr_false h1] at h
    split at h
    · rename_i st2 h2
      have ha := tryConsumeStr_adv hi (by simp) h2
      have hm := tryConsumeStr_gcm' h2
      exact closeParenA_C hr (lookA_C hcd hcc ha (hs.of_eq hm ha.1.named) hm _ _ _) h
    · rename_i st2 h2
      rw [tryConsumeStr_false h2] at h
      split at h
      · rename_i st3 h3
        have ha := (tryConsumeStr_adv hi (by simp) h3).lookbehind
        have hm := tryConsumeStr_gcm' h3
        exact closeParenA_C hr (lookA_C hcd hcc ha (hs.of_eq hm ha.1.named) hm _ _ _) h
      · rename_i st3 h3
        rw [tryConsumeStr_false h3] at h
        split at h
        · rename_i st4 h4
          have ha := (tryConsumeStr_adv hi (by simp) h4).lookbehind
          have hm := tryConsumeStr_gcm' h4
          exact closeParenA_C hr (lookA_C hcd hcc ha (hs.of_eq hm ha.1.named) hm _ _ _) h
        · rename_i st4 h4
          rw [tryConsumeStr_false h4] at h
          split at h
          · rename_i st5 h5
            have ha := tryConsumeStr_adv hi (by simp) h5
            have hm := tryConsumeStr_gcm' h5
            exact closeParenA_C hr (cdA_C hcc ha (hs.of_eq hm ha.1.named) hm) h
          · rename_i st5 h5
            rw [tryConsumeStr_false h5] at h
            split at h
            · cases h
            · rename_i mods rest hm
              obtain ⟨cur, rest', hinp', hrr⟩ := modifierGroupHead_some hm
              have hss : SSuf rest (cur :: rest') := (modifierScan_ens _ _).ok_of_eq hrr.symm
              have ha : Adv st { st with input := rest, flags := applyMods st.flags mods } := by
                have := adv_input hi (r := rest) (by
                  rw [hinp']; exact SSuf.of_tail _ (suf_cons _ hss.1))
                exact ⟨⟨⟨hi.named, hi.depth, hi.groups, hi.loops, this.1.inv.bnd⟩, this.1.suf, rfl, rfl⟩,
                  this.2.1, rfl⟩
              refine closeParenA_C hr ?_ h
              intro nd st7 qa hh
              split at hh
              · cases hh
              · rename_i nd' st6 heq'
                cases hh
                have h2 := hcc _ _ ha.1.inv ha.2.1 (hs.of_eq rfl rfl) heq'
                exact ⟨h2.1, h2.2⟩
            · exact atomCaptureA_C hi hs hcc hr hinp h

theorem atomClassSetA_C {M gs : Nat} {st : PState} (hi : Parse.Inv st) {c : Nat} {rest0 : List Nat}
    {result : List Node} {out : AtomOut} (hr : LOK M gs result) (hinp : st.input = c :: rest0)
    (h : atomClassSetA st result = .ok out) : AtomC M gs st out := by
  unfold atomClassSetA at h
  rw [consume_eq hinp] at h
  simp only at h
  have hi0 : Parse.Inv { st with input := rest0 } :=
    (Step.input hi (by rw [hinp]; exact suf_cons _ (suf_refl _))).inv
  have h1 := tryConsume_step (c := 0x5E) hi0
  have hg1 := tryConsume_gcm 0x5E { st with input := rest0 }
  generalize tryConsume 0x5E { st with input := rest0 } = tc at *
  obtain ⟨negateSet, st1⟩ := tc
  simp only at h1 h hg1
  have hce := (classSet_all st.flags (!st1.named.isEmpty) (2 * st1.input.length + 4)).expr
    { inp := st1.input, depth := st1.depth }
    ⟨by show 2 * st1.input.length + 2 ≤ _; omega, h1.1.inv.bnd, h1.1.inv.depth⟩
  split at h
  · cases h
  · rename_i cs cst heq
    split at h
    · cases h
    · cases h
      have h2 : CSPost _ (cs, cst) := hce.ok_of_eq heq
      exact atomC_leaf hr (classSetNode_lfc h2.1 _ _) hg1

theorem atomCharA_C {M gs : Nat} {st : PState} {c' : Nat} {rest0 : List Nat}
    {result : List Node} {out : AtomOut} (hr : LOK M gs result) (c : Nat) (hc : c ≤ 0x10FFFF)
    (hinp : st.input = c' :: rest0) (h : atomCharA st result c = .ok out) : AtomC M gs st out := by
  unfold atomCharA at h
  rw [consume_eq hinp] at h
  simp only at h
  split at h
  · cases h
  · rename_i nd heq
    cases h
    exact atomC_leaf hr (charNode_lfc hc heq) rfl

theorem atomBraceA_C {M gs : Nat} {st : PState} (hi : Parse.Inv st) {c' : Nat} {rest0 : List Nat}
    {result : List Node} {out : AtomOut} (hr : LOK M gs result)
    (hinp : st.input = c' :: rest0) (h : atomBraceA st result = .ok out) : AtomC M gs st out := by
  unfold atomBraceA at h
  split at h
  · cases h
  · cases h
  · rw [consume_eq hinp] at h
    simp only at h
    split at h
    · cases h
    · rename_i nd heq
      cases h
      exact atomC_leaf hr (charNode_lfc (hinp ▸ hi.bnd).head heq) rfl

theorem bracketLoop_lfc {M : Nat} (fl : Flags) (hn inv : Bool) : ∀ (fuel : Nat) (inp : List Nat)
    (cps : CPS.IvList) (n : Node) (rest : List Nat), bracketLoop fl hn inv fuel inp cps = .ok (n, rest) →
    LfC M n := by
  intro fuel
  induction fuel with
  | zero => intro inp cps n rest h; simp [bracketLoop, panicAt] at h
  | succ k ih =>
    intro inp cps n rest h
    unfold bracketLoop at h
    simp only at h
    split at h
    · cases h
    · split at h
      · cases h; exact mkBracket_lfc _ _
      · split at h
        · cases h
        · exact ih _ _ _ _ h
        · split at h
          · split at h
            · cases h
            · exact ih _ _ _ _ h
            · split at h
              · split at h
                · cases h
                · exact ih _ _ _ _ h
              · split at h
                · cases h
                · exact ih _ _ _ _ h
          · exact ih _ _ _ _ h

theorem consumeBracket_lfc {M : Nat} {fl : Flags} {hn : Bool} {inp : List Nat} {n : Node} {rest : List Nat}
    (h : consumeBracket fl hn inp = .ok (n, rest)) : LfC M n := by
  unfold consumeBracket at h
  split at h
  · cases h
  · exact bracketLoop_lfc _ _ _ _ _ _ _ _ h

theorem consumeAtomA_C {M gs : Nat} {cd : PState → Res (Node × PState)} {st : PState} (hi : Parse.Inv st)
    (hs : SOK M st) (hcd : CDOk cd st) (hcc : CDC M cd st) {c : Nat} {rest0 : List Nat}
    {result : List Node} {out : AtomOut} (hr : LOK M gs result) (hinp : st.input = c :: rest0)
    (h : consumeAtomA cd st result c = .ok out) : AtomC M gs st out := by
  have hcb : c ≤ 0x10FFFF := (hinp ▸ hi.bnd).head
  unfold consumeAtomA at h
  simp only at h
  split at h
  · rw [consume_eq hinp] at h; cases h
    exact atomC_leaf hr (lfc_simple rfl (fun _ _ => rfl) rfl rfl rfl) rfl
  split at h
  · rw [consume_eq hinp] at h; cases h
    exact atomC_leaf hr (lfc_simple rfl (fun _ _ => rfl) rfl rfl rfl) rfl
  split at h
  · rename_i hc
    simp only [beq_iff_eq] at hc; subst hc
    exact atomBackslashA_C hi hs hr hinp h
  split at h
  · rw [consume_eq hinp] at h; cases h
    refine atomC_leaf hr ?_ rfl
    split <;> exact lfc_simple rfl (fun _ _ => rfl) rfl rfl rfl
  split at h
  · rename_i hc
    simp only [beq_iff_eq] at hc; subst hc
    exact atomParenA_C hi hs hcd hcc hr hinp h
  split at h
  · exact atomClassSetA_C hi hr hinp h
  split at h
  · split at h
    · cases h
    · rename_i nd rest heq
      cases h
      exact atomC_leaf hr (consumeBracket_lfc heq) rfl
  split at h
  · exact atomBraceA_C hi hr hinp h
  split at h
  · cases h
  split at h
  · cases h
  · exact atomCharA_C hr c hcb hinp h

/-! ## The descent -/

/-- The induction hypothesis / conclusion of the descent at a given amount of fuel. -/
structure DescC (M : Nat) (fuel : Nat) : Prop where
  disj : ∀ st p, Parse.Inv st → 4 * st.input.length + 4 ≤ fuel → SOK M st →
    consumeDisjunction fuel st = .ok p → NOK M st.groupCount p.1 ∧ p.2.groupCountMax = st.groupCountMax
  dloop : ∀ st terms p gs, Parse.Inv st → 4 * st.input.length + 3 ≤ fuel → SOK M st → POutList terms →
    LOK M gs terms → st.groupCount = gs + numGroupsList terms → disjLoop fuel st terms = .ok p →
    LOK M gs p.1 ∧ p.2.groupCountMax = st.groupCountMax
  tloop : ∀ st result p gs, Parse.Inv st → 4 * st.input.length + 2 ≤ fuel → SOK M st → POutList result →
    LOK M gs result → st.groupCount = gs + numGroupsList result → termLoop fuel st result = .ok p →
    NOK M gs p.1 ∧ p.2.groupCountMax = st.groupCountMax
  atom : ∀ st result c rest out gs, Parse.Inv st → st.input = c :: rest → 4 * st.input.length + 1 ≤ fuel →
    SOK M st → LOK M gs result → consumeAtom fuel st result c = .ok out → AtomC M gs st out

theorem termLoop_stepC {M : Nat} (fuel : Nat) (ih : DescC M fuel) (st : PState) (result : List Node)
    (p : Node × PState) (gs : Nat) (hi : Parse.Inv st) (hf : 4 * st.input.length + 2 ≤ fuel + 1)
    (hs : SOK M st) (hr : POutList result) (hl : LOK M gs result)
    (hg : st.groupCount = gs + numGroupsList result) :
    termLoop (fuel + 1) st result = .ok p → NOK M gs p.1 ∧ p.2.groupCountMax = st.groupCountMax := by
  generalize hfu : fuel + 1 = f
  fun_cases termLoop f st result
  all_goals try simp only [*]
  all_goals try (simp [synErr, limErr, panicAt]; done)
  all_goals try (simp at hfu; done)
  all_goals try (cases hfu)
  · intro h; cases h; exact ⟨makeCat_NOK hl, rfl⟩
  · intro h; cases h; exact ⟨makeCat_NOK hl, rfl⟩
  · -- no quantifier
    rename_i head r _ out _ _ rest hq hinp hx
    intro h
    have hA : AtomOutPost st result out := ((descent_all fuel).atom st result _ _ hi hinp (by omega)).ok_of_eq hx
    have hC := ih.atom st result _ _ out gs hi hinp (by omega) hs hl hx
    obtain ⟨pre, added, hres, hoff, hpre, hpre0, hadd, hstep, hlen, hgc⟩ := hA
    have hqs : rest <:+ out.st.input := (quantifier_ens _ _).ok_of_eq hq
    have hs1 := Step.input hstep.inv hqs
    have hl' := hqs.length_le
    have hpo : POutList out.result := by
      rw [hres, POutList_append, POutList_append]; exact ⟨⟨hr, hpre⟩, hadd⟩
    have htake : out.result.take out.startOffset = result ++ pre := by
      rw [hres, hoff, ← List.length_append]; exact List.take_left
    have hng : numGroupsList (out.result.take out.startOffset) = numGroupsList result := by
      rw [htake, Parse.numGroupsList_append, hpre0]; rfl
    have hlo : LOK M gs out.result := by
      rw [← List.take_append_drop out.startOffset out.result]
      refine LOK_append hC.1 ?_
      rw [hng, ← hg]; exact hC.2.1
    have := ih.tloop { out.st with input := rest } out.result p gs hs1.inv
      (by show 4 * rest.length + 2 ≤ fuel; omega) (hs.of_eq hC.2.2 hstep.named) hpo hlo
      (by show out.st.groupCount = _
          rw [hgc, hres, Parse.numGroupsList_append, Parse.numGroupsList_append, hpre0, hg]; omega) h
    exact ⟨this.1, this.2.trans hC.2.2⟩
  · -- a quantified atom
    rename_i head r _ out _ _ quant rest hq _ _ hqok hle _ _ hloops _ _ hinp hx
    intro h
    have hA : AtomOutPost st result out := ((descent_all fuel).atom st result _ _ hi hinp (by omega)).ok_of_eq hx
    have hC := ih.atom st result _ _ out gs hi hinp (by omega) hs hl hx
    obtain ⟨pre, added, hres, hoff, hpre, hpre0, hadd, hstep, hlen, hgc⟩ := hA
    have hqs : rest <:+ out.st.input := (quantifier_ens _ _).ok_of_eq hq
    have hl' := hqs.length_le
    have hloops' : out.st.loopCount < Gen.MAX_LOOPS := by
      have : ¬ out.st.loopCount ≥ Gen.MAX_LOOPS := hloops
      omega
    have hi2 : Parse.Inv { out.st with input := rest, loopCount := out.st.loopCount + 1 } :=
      ⟨hstep.inv.named, hstep.inv.depth, hstep.inv.groups, by show out.st.loopCount + 1 ≤ _; omega,
        hstep.inv.bnd.suf hqs⟩
    have hdrop : out.result.drop out.startOffset = added := by
      rw [hres, hoff, ← List.length_append]; exact List.drop_left
    have htake : out.result.take out.startOffset = result ++ pre := by
      rw [hres, hoff, ← List.length_append]; exact List.take_left
    have hng : numGroupsList (result ++ pre) = numGroupsList result := by
      rw [Parse.numGroupsList_append, hpre0]; rfl
    obtain ⟨hC1, hC2, hC3⟩ := hC
    rw [htake] at hC1
    rw [hdrop] at hC2
    have h : termLoop fuel { out.st with input := rest, loopCount := out.st.loopCount + 1 }
      (out.result.take out.startOffset ++
        [.loop (makeCat (out.result.drop out.startOffset)) quant st.groupCount out.st.groupCount]) = .ok p := h
    rw [hdrop, htake] at h
    have hloop : POut (.loop (makeCat added) quant st.groupCount out.st.groupCount) :=
      ⟨makeCat_POut hadd, quantOk_of_check hqok, by rw [makeCat_numGroups]; exact hgc⟩
    have hpo : POutList (result ++ pre ++ [.loop (makeCat added) quant st.groupCount out.st.groupCount]) := by
      rw [POutList_append, POutList_append]; exact ⟨⟨hr, hpre⟩, hloop, trivial⟩
    have hlo : LOK M gs (result ++ pre ++ [.loop (makeCat added) quant st.groupCount out.st.groupCount]) := by
      refine LOK_append hC1 (LOK_single ?_)
      rw [hng, ← hg, hgc, ← makeCat_numGroups]
      exact NOK_loop (makeCat_NOK hC2)
    have := ih.tloop { out.st with input := rest, loopCount := out.st.loopCount + 1 } _ p gs hi2
      (by show 4 * rest.length + 2 ≤ fuel; omega) (hs.of_eq hC3 hstep.named) hpo hlo
      (by show out.st.groupCount = _
          rw [hgc, Parse.numGroupsList_append, Parse.numGroupsList_append, hpre0, hg]
          simp only [numGroupsList, numGroups, makeCat_numGroups]; omega) h
    exact ⟨this.1, this.2.trans hC3⟩

theorem disjLoop_stepC {M : Nat} (fuel : Nat) (ih : DescC M fuel) (st : PState) (terms : List Node)
    (p : List Node × PState) (gs : Nat) (hi : Parse.Inv st) (hf : 4 * st.input.length + 3 ≤ fuel + 1)
    (hs : SOK M st) (hr : POutList terms) (hl : LOK M gs terms)
    (hg : st.groupCount = gs + numGroupsList terms) (h : disjLoop (fuel + 1) st terms = .ok p) :
    LOK M gs p.1 ∧ p.2.groupCountMax = st.groupCountMax := by
  rw [disjLoop] at h
  split at h
  · cases h
  · rename_i t st1 heq
    have h1 : TLoopPost st [] (t, st1) := ((descent_all fuel).tloop st [] hi (by omega) trivial).ok_of_eq heq
    have hC := ih.tloop st [] (t, st1) st.groupCount hi (by omega) hs trivial trivial
      (by simp [numGroupsList]) heq
    have hg1 : st1.groupCount = st.groupCount + numGroups t := by
      have := h1.2.2; simpa [numGroupsList] using this
    have hpo : POutList (terms ++ [t]) := by rw [POutList_append]; exact ⟨hr, h1.1, trivial⟩
    have hlo : LOK M gs (terms ++ [t]) := LOK_append hl (LOK_single (by rw [← hg]; exact hC.1))
    simp only at h
    split at h
    · rename_i st2 htc
      obtain ⟨rest, hrest, rfl⟩ := tryConsume_true htc
      have hs2 : Step st1 { st1 with input := rest } :=
        Step.input h1.2.1.inv (by rw [hrest]; exact suf_cons _ (suf_refl _))
      have hl' := h1.2.1.suf.length_le
      have := ih.dloop _ _ p gs hs2.inv (by
        show 4 * rest.length + 3 ≤ fuel
        rw [hrest] at hl'; simp only [List.length_cons] at hl'; omega)
        (hs.of_eq hC.2 h1.2.1.named) hpo hlo
        (by show st1.groupCount = _
            rw [Parse.numGroupsList_append, hg1, hg]; simp only [numGroupsList]; omega) h
      exact ⟨this.1, this.2.trans hC.2⟩
    · rename_i st2 htc
      rw [tryConsume_false htc] at h
      cases h
      exact ⟨hlo, hC.2⟩

theorem consumeDisjunction_stepC {M : Nat} (fuel : Nat) (ih : DescC M fuel) (st : PState)
    (p : Node × PState) (hi : Parse.Inv st) (hf : 4 * st.input.length + 4 ≤ fuel + 1) (hs : SOK M st)
    (h : consumeDisjunction (fuel + 1) st = .ok p) :
    NOK M st.groupCount p.1 ∧ p.2.groupCountMax = st.groupCountMax := by
  rw [consumeDisjunction] at h
  simp only at h
  split at h
  · cases h
  · rename_i hd
    have hd' : st.depth + 1 ≤ Gen.MAX_NESTING_DEPTH := by
      have : ¬ st.depth + 1 > Gen.MAX_NESTING_DEPTH := hd
      omega
    have hi1 : Parse.Inv { st with depth := st.depth + 1 } := ⟨hi.named, hd', hi.groups, hi.loops, hi.bnd⟩
    split at h
    · cases h
    · rename_i terms st1 heq
      cases h
      have := ih.dloop { st with depth := st.depth + 1 } [] (terms, st1) st.groupCount hi1
        (by show 4 * st.input.length + 3 ≤ fuel; omega) hs trivial trivial (by simp [numGroupsList]) heq
      exact ⟨makeAlt_NOK this.1, this.2⟩

theorem consumeAtom_stepC {M : Nat} (fuel : Nat) (ih : DescC M fuel) (st : PState) (result : List Node)
    (c : Nat) (rest : List Nat) (out : AtomOut) (gs : Nat) (hi : Parse.Inv st) (hinp : st.input = c :: rest)
    (hf : 4 * st.input.length + 1 ≤ fuel + 1) (hs : SOK M st) (hl : LOK M gs result)
    (h : consumeAtom (fuel + 1) st result c = .ok out) : AtomC M gs st out := by
  rw [consumeAtom_succ] at h
  refine consumeAtomA_C hi hs ?_ ?_ hl hinp h
  · intro st' hi' hl'
    exact (descent_all fuel).disj st' hi' (by omega)
  · intro st' p hi' hl' hs' hp
    exact ih.disj st' p hi' (by omega) hs' hp

/-- The descent, for every amount of fuel. -/
theorem descC_all (M : Nat) (fuel : Nat) : DescC M fuel := by
  induction fuel with
  | zero =>
    refine ⟨?_, ?_, ?_, ?_⟩
    · intro st _ _ h; omega
    · intro st _ _ _ _ h; omega
    · intro st _ _ _ _ h; omega
    · intro st _ _ _ _ _ _ _ h; omega
  | succ fuel ih =>
    exact ⟨fun st p hi hf hs h => consumeDisjunction_stepC fuel ih st p hi hf hs h,
      fun st terms p gs hi hf hs hr hl hg h => disjLoop_stepC fuel ih st terms p gs hi hf hs hr hl hg h,
      fun st result p gs hi hf hs hr hl hg h => termLoop_stepC fuel ih st result p gs hi hf hs hr hl hg h,
      fun st result c rest out gs hi hinp hf hs hl h =>
        consumeAtom_stepC fuel ih st result c rest out gs hi hinp hf hs hl h⟩

/-! ## `finalize` (`reverse_cats`) -/

theorem gscopedList_append (lo hi : Nat) (xs ys : List Node) :
    gscopedList lo hi (xs ++ ys) = (gscopedList lo hi xs && gscopedList lo hi ys) := by
  induction xs with
  | nil => simp [gscopedList]
  | cons a t ih => simp [gscopedList, ih, Bool.and_assoc]

theorem gscopedList_reverse (lo hi : Nat) (ns : List Node) :
    gscopedList lo hi ns.reverse = gscopedList lo hi ns := by
  induction ns with
  | nil => rfl
  | cons x xs ih => simp [List.reverse_cons, gscopedList_append, gscopedList, ih, Bool.and_comm]

theorem leafOKList_append (xs ys : List Node) : leafOKList (xs ++ ys) = (leafOKList xs && leafOKList ys) := by
  induction xs with
  | nil => simp [leafOKList]
  | cons a t ih => simp [leafOKList, ih, Bool.and_assoc]

theorem leafOKList_reverse (ns : List Node) : leafOKList ns.reverse = leafOKList ns := by
  induction ns with
  | nil => rfl
  | cons x xs ih => simp [List.reverse_cons, leafOKList_append, leafOKList, ih, Bool.and_comm]

theorem refsOKList_append (N : Nat) (xs ys : List Node) :
    refsOKList N (xs ++ ys) = (refsOKList N xs && refsOKList N ys) := by
  induction xs with
  | nil => simp [refsOKList]
  | cons a t ih => simp [refsOKList, ih, Bool.and_assoc]

theorem refsOKList_reverse (N : Nat) (ns : List Node) : refsOKList N ns.reverse = refsOKList N ns := by
  induction ns with
  | nil => rfl
  | cons x xs ih => simp [List.reverse_cons, refsOKList_append, refsOKList, ih, Bool.and_comm]

/-- What `reverse_cats` keeps. -/
def SameC (n n' : Node) : Prop :=
  (∀ lo hi, gscoped lo hi n' = gscoped lo hi n) ∧ leafOK n' = leafOK n ∧ l1ok n' = l1ok n ∧
    (∀ N, refsOK N n' = refsOK N n) ∧ (groupList n').Perm (groupList n) ∧ rangesExact n' = rangesExact n

def SameCList (ns ns' : List Node) : Prop :=
  (∀ lo hi, gscopedList lo hi ns' = gscopedList lo hi ns) ∧ leafOKList ns' = leafOKList ns ∧
    (∀ N, refsOKList N ns' = refsOKList N ns) ∧ (groupLists ns').Perm (groupLists ns) ∧
    rangesExactList ns' = rangesExactList ns

theorem SameC.refl (n : Node) : SameC n n := ⟨fun _ _ => rfl, rfl, rfl, fun _ => rfl, List.Perm.refl _, rfl⟩

theorem rangesExactList_append (xs ys : List Node) :
    rangesExactList (xs ++ ys) = (rangesExactList xs && rangesExactList ys) := by
  induction xs with
  | nil => simp [rangesExactList]
  | cons a t ih => simp [rangesExactList, ih, Bool.and_assoc]

theorem rangesExactList_reverse (ns : List Node) : rangesExactList ns.reverse = rangesExactList ns := by
  induction ns with
  | nil => rfl
  | cons x xs ih => simp [List.reverse_cons, rangesExactList_append, rangesExactList, ih, Bool.and_comm]

theorem groupIds_perm {n n' : Node} (h : (groupList n').Perm (groupList n)) :
    (groupIds n').Perm (groupIds n) := by unfold groupIds; exact h.map _

theorem contains_all_perm {n n' : Node} (h : (groupList n').Perm (groupList n)) (s k : Nat) :
    (List.range' s k).all (fun g => (groupIds n').contains g) =
      (List.range' s k).all (fun g => (groupIds n).contains g) := by
  congr 1
  funext g
  exact (groupIds_perm h).contains_eq

mutual
theorem reverseCats_sameC : ∀ (b : Bool) (n n' : Node), reverseCats b n = .ok n' → SameC n n'
  | b, .cat ns, n', h => by
    simp only [Parse.reverseCats] at h
    split at h
    · cases h
    · rename_i ns' heq
      cases h
      obtain ⟨h1, h2, h3, h4, h5⟩ := reverseCatsList_sameC b ns ns' heq
      cases b
      · exact ⟨fun lo hi => by simpa [gscoped] using h1 lo hi, by simpa [leafOK] using h2, rfl,
          fun N => by simpa [refsOK] using h3 N, by simpa [groupList] using h4,
          by simpa [rangesExact] using h5⟩
      · refine ⟨fun lo hi => ?_, ?_, rfl, fun N => ?_, ?_, ?_⟩
        · simp only [gscoped, if_true, gscopedList_reverse]; exact h1 lo hi
        · simp only [leafOK, if_true, leafOKList_reverse]; exact h2
        · simp only [refsOK, if_true, refsOKList_reverse]; exact h3 N
        · simp only [groupList, if_true]; exact (groupLists_reverse_perm ns').trans h4
        · simp only [rangesExact, if_true, rangesExactList_reverse]; exact h5
  | b, .alt l r, n', h => by
    simp only [Parse.reverseCats] at h
    split at h
    · rename_i l' r' hl hr
      cases h
      obtain ⟨a1, a2, _, a4, a5, a6⟩ := reverseCats_sameC b l l' hl
      obtain ⟨b1, b2, _, b4, b5, b6⟩ := reverseCats_sameC b r r' hr
      exact ⟨fun lo hi => by simp only [gscoped, a1, b1], by simp only [leafOK, a2, b2], rfl,
        fun N => by simp only [refsOK, a4, b4], by simp only [groupList]; exact a5.append b5,
        by simp only [rangesExact, a6, b6]⟩
    · cases h
    · cases h
  | b, .group id name c, n', h => by
    simp only [Parse.reverseCats] at h
    split at h
    · cases h
    · rename_i c' hc
      cases h
      obtain ⟨a1, a2, _, a4, a5, a6⟩ := reverseCats_sameC b c c' hc
      exact ⟨fun lo hi => by simp only [gscoped, a1], by simp only [leafOK, a2], rfl,
        fun N => by simp only [refsOK, a4], by simp only [groupList]; exact a5.cons _,
        by simp only [rangesExact, a6]⟩
  | b, .look ng bw sg eg c, n', h => by
    simp only [Parse.reverseCats] at h
    split at h
    · cases h
    · rename_i c' hc
      cases h
      obtain ⟨a1, a2, _, a4, a5, a6⟩ := reverseCats_sameC bw c c' hc
      exact ⟨fun lo hi => by simp only [gscoped, a1], by simp only [leafOK, a2], rfl,
        fun N => by simp only [refsOK, a4], by simp only [groupList]; exact a5,
        by simp only [rangesExact, a6, contains_all_perm a5]⟩
  | b, .loop l q g0 g1, n', h => by
    simp only [Parse.reverseCats] at h
    split at h
    · cases h
    · rename_i l' hl
      cases h
      obtain ⟨a1, a2, _, a4, a5, a6⟩ := reverseCats_sameC b l l' hl
      refine ⟨fun lo hi => ?_, by simp only [leafOK, a2], rfl,
        fun N => by simp only [refsOK, a4], by simp only [groupList]; exact a5,
        by simp only [rangesExact, a6, contains_all_perm a5]⟩
      simp only [gscoped, a1]
      have : (groupIds l').all (fun g => decide (g0 ≤ g) && decide (g < g1)) =
          (groupIds l).all (fun g => decide (g0 ≤ g) && decide (g < g1)) :=
        List.Perm.all_eq (groupIds_perm a5)
      rw [this]
  | b, .loop1 l q, n', h => by
    simp only [Parse.reverseCats] at h
    split at h
    · cases h
    · rename_i l' hl
      cases h
      obtain ⟨a1, a2, a3, a4, a5, a6⟩ := reverseCats_sameC b l l' hl
      exact ⟨fun lo hi => by simp only [gscoped, a1], by simp only [leafOK, a2, a3], rfl,
        fun N => by simp only [refsOK, a4], by simp only [groupList]; exact a5,
        by simp only [rangesExact, a6]⟩
  | b, .byteSeq bs, n', h => by simp [Parse.reverseCats, panicAt] at h
  | b, .byteSet _, n', h => by simp only [Parse.reverseCats] at h; cases h; exact SameC.refl _
  | b, .empty, n', h => by simp only [Parse.reverseCats] at h; cases h; exact SameC.refl _
  | b, .goal, n', h => by simp only [Parse.reverseCats] at h; cases h; exact SameC.refl _
  | b, .char _, n', h => by simp only [Parse.reverseCats] at h; cases h; exact SameC.refl _
  | b, .charSet _, n', h => by simp only [Parse.reverseCats] at h; cases h; exact SameC.refl _
  | b, .matchAny, n', h => by simp only [Parse.reverseCats] at h; cases h; exact SameC.refl _
  | b, .matchAnyExceptLT, n', h => by simp only [Parse.reverseCats] at h; cases h; exact SameC.refl _
  | b, .anchor _ _, n', h => by simp only [Parse.reverseCats] at h; cases h; exact SameC.refl _
  | b, .wordBoundary _ _, n', h => by simp only [Parse.reverseCats] at h; cases h; exact SameC.refl _
  | b, .backRef _ _, n', h => by simp only [Parse.reverseCats] at h; cases h; exact SameC.refl _
  | b, .bracket _, n', h => by simp only [Parse.reverseCats] at h; cases h; exact SameC.refl _
  | b, .stringSet _ _, n', h => by simp only [Parse.reverseCats] at h; cases h; exact SameC.refl _
theorem reverseCatsList_sameC : ∀ (b : Bool) (ns ns' : List Node), reverseCatsList b ns = .ok ns' →
    SameCList ns ns'
  | b, [], ns', h => by
    simp only [reverseCatsList] at h; cases h
    exact ⟨fun _ _ => rfl, rfl, fun _ => rfl, List.Perm.refl _, rfl⟩
  | b, n :: ns, ns', h => by
    simp only [reverseCatsList] at h
    split at h
    · rename_i n1 ns1 hn hns
      cases h
      obtain ⟨a1, a2, _, a4, a5, a6⟩ := reverseCats_sameC b n n1 hn
      obtain ⟨b1, b2, b4, b5, b6⟩ := reverseCatsList_sameC b ns ns1 hns
      exact ⟨fun lo hi => by simp only [gscopedList, a1, b1], by simp only [leafOKList, a2, b2],
        fun N => by simp only [refsOKList, a4, b4], by simp only [groupLists]; exact a5.append b5,
        by simp only [rangesExactList, a6, b6]⟩
    · cases h
    · cases h
end

/-! ## The capture-group pre-scan -/

/-- The `(` arm of the pre-scan: is the group capturing, its name, the input after the head. -/
def scanParen (rest : List Nat) : Res (Bool × Option (List Nat) × List Nat) :=
  match rest with
  | 0x3F :: rest2 =>
    match tryConsumeName rest2 with
    | .error e => .error e
    | .ok (some name, rest3) => .ok (true, some name, rest3)
    | .ok (none, rest3) => .ok (false, none, rest3)
  | _ => .ok (true, none, rest)

/-- The number of capturing `(` the pre-scan (`scanLoop`) counts, without the saturation at
`MAX_CAPTURE_GROUPS` (same control flow as `scanLoop`, everything but the count dropped; `us` is
`flags.unicode_sets`, the only flag the pre-scan looks at). -/
def capCount (us : Bool) : Nat → List Nat → Nat
  | 0, _ => 0
  | fuel+1, inp =>
    match inp with
    | [] => 0
    | c :: rest =>
      if c == 0x5C then capCount us fuel (rest.drop 1)
      else if c == 0x5B then
        capCount us fuel (if us then skipBracketV rest 1 else skipBracket rest)
      else if c == 0x28 then
        match scanParen rest with
        | .error _ => 0
        | .ok (isCapturing, _, rest') => capCount us fuel rest' + (if isCapturing then 1 else 0)
      else capCount us fuel rest

theorem scanParen_some {rest : List Nat} {b : Bool} {nm r : List Nat}
    (h : scanParen rest = .ok (b, some nm, r)) : b = true := by
  unfold scanParen at h
  split at h
  · split at h
    · cases h
    · cases h; rfl
    · cases h
  · cases h

theorem mapPush_forall {P : Nat → Prop} {m : List (List Nat × List Nat)} {k : List Nat} {v : Nat}
    (h : ∀ e ∈ m, ∀ i ∈ e.2, P i) (hv : P v) : ∀ e ∈ mapPush m k v, ∀ i ∈ e.2, P i := by
  induction m with
  | nil =>
    intro e he i hi
    simp [mapPush] at he; subst he
    simp at hi; subst hi; exact hv
  | cons x xs ih =>
    obtain ⟨k', vs⟩ := x
    unfold mapPush
    split
    · intro e he i hi
      simp only [List.mem_cons] at he
      rcases he with rfl | he
      · simp only [List.mem_append, List.mem_singleton] at hi
        rcases hi with hi | rfl
        · exact h (k', vs) (by simp) i hi
        · exact hv
      · exact h e (by simp [he]) i hi
    · intro e he i hi
      simp only [List.mem_cons] at he
      rcases he with rfl | he
      · exact h (k', vs) (by simp) i hi
      · exact ih (fun e he => h e (by simp [he])) e he i hi

/-- The pre-scan count is `capCount`, saturated; the name table holds indices below `capCount`
(`T0`: the unsaturated count so far). -/
theorem scanLoop_count (fl : Flags) : ∀ (fuel : Nat) (inp : List Nat) (sc sc' : Scan) (T0 : Nat),
    scanLoop fl fuel inp sc = .ok sc' → sc.gmax = min T0 Gen.MAX_CAPTURE_GROUPS →
    (∀ e ∈ sc.named, ∀ i ∈ e.2, i < T0) →
    sc'.gmax = min (T0 + capCount fl.unicodeSets fuel inp) Gen.MAX_CAPTURE_GROUPS ∧
      ∀ e ∈ sc'.named, ∀ i ∈ e.2, i < T0 + capCount fl.unicodeSets fuel inp := by
  intro fuel
  induction fuel with
  | zero => intro inp sc sc' T0 h; simp [scanLoop, panicAt] at h
  | succ k ih =>
    intro inp sc sc' T0 h hg hn
    unfold scanLoop at h
    unfold capCount
    cases inp with
    | nil => simp only at h; cases h; exact ⟨by simpa using hg, by simpa using hn⟩
    | cons c rest =>
      simp only at h ⊢
      by_cases h1 : (c == 0x5C) = true
      · rw [if_pos h1] at h ⊢; exact ih _ _ _ _ h hg hn
      rw [if_neg h1] at h ⊢
      by_cases h2 : (c == 0x5B) = true
      · rw [if_pos h2] at h ⊢; exact ih _ _ _ _ h hg hn
      rw [if_neg h2] at h ⊢
      by_cases h3 : (c == 0x28) = true
      · rw [if_pos h3] at h ⊢
        split at h
        · cases h
        · rename_i isCap groupName rest' heq
          have heq' : scanParen rest = .ok (isCap, groupName, rest') := heq
          rw [heq']
          simp only
          have hcap : ∀ nm, groupName = some nm → isCap = true := fun nm hnm =>
            scanParen_some (hnm ▸ heq')
          have := ih _ _ _ (T0 + (if isCap = true then 1 else 0)) h ?_ ?_
          · have e : ∀ a b : Nat, T0 + (a + b) = T0 + b + a := by intros; omega
            rw [e]; exact this
          · cases isCap <;> cases groupName <;> simp only [Gen.MAX_CAPTURE_GROUPS] at hg ⊢ <;>
              (try simp) <;> (try split) <;> omega
          · cases groupName with
            | none =>
              cases isCap
              · exact fun e he i hi => by have := hn e he i hi; simp; omega
              · exact fun e he i hi => by have := hn e he i hi; simp; omega
            | some nm =>
              have hc := hcap nm rfl
              subst hc
              refine mapPush_forall (fun e he i hi => by have := hn e he i hi; simp; omega) ?_
              simp only [Gen.MAX_CAPTURE_GROUPS] at hg
              simp; omega
      rw [if_neg h3] at h ⊢
      by_cases h4 : (c == 0x29) = true
      · rw [if_pos h4] at h
        split at h <;> exact ih _ _ _ _ h hg hn
      rw [if_neg h4] at h
      by_cases h5 : (c == 0x7C) = true
      · rw [if_pos h5] at h; exact ih _ _ _ _ h hg hn
      · rw [if_neg h5] at h; exact ih _ _ _ _ h hg hn

/-! ## `parse` -/

/-- The flags `try_parse` works with (`v` implies `u`). -/
def parseFlags (fl : Flags) : Flags := if fl.unicodeSets then { fl with unicode := true } else fl

/-- The initial parser state of `parse pat fl`. -/
def initState (pat : List Nat) (fl : Flags) : PState := { input := pat, flags := parseFlags fl }

/-- The number of capturing `(` the pre-scan of `parse pat fl` counts, before the saturation at
`MAX_CAPTURE_GROUPS`. -/
def preScanCount (pat : List Nat) (fl : Flags) : Nat := capCount fl.unicodeSets (pat.length + 1) pat

theorem parseFlags_unicodeSets (fl : Flags) : (parseFlags fl).unicodeSets = fl.unicodeSets := by
  unfold parseFlags; split <;> rfl

theorem parseCaptureGroups_count {st st1 : PState} (h0 : st.groupCountMax = 0) (hn : st.named = [])
    (h : parseCaptureGroups st = .ok st1) :
    st1.groupCountMax =
        min (capCount st.flags.unicodeSets (st.input.length + 1) st.input) Gen.MAX_CAPTURE_GROUPS ∧
      SOK (capCount st.flags.unicodeSets (st.input.length + 1) st.input) st1 := by
  unfold parseCaptureGroups at h
  split at h
  · cases h
  · rename_i sc hsc
    split at h
    · cases h
    · cases h
      have := scanLoop_count _ _ _ _ _ 0 hsc (by simp [h0]) (by simp [hn])
      simp only [Nat.zero_add] at this
      refine ⟨this.1, ?_, this.2⟩
      show sc.gmax ≤ _
      rw [this.1]; exact Nat.min_le_left _ _

/-- The descent part of `parse`: the tree before `reverse_cats` (`body0`) and after (`body`). -/
theorem parse_core {pat : List Nat} {fl : Flags} {re : Regex} (hb : ∀ c ∈ pat, c ≤ 0x10FFFF)
    (hp : parse pat fl = .ok re) :
    ∃ st1 body0 body, parseCaptureGroups (initState pat fl) = .ok st1 ∧
      st1.groupCountMax = min (preScanCount pat fl) Gen.MAX_CAPTURE_GROUPS ∧
      NOK (preScanCount pat fl) 0 body0 ∧ SameC body0 body ∧ numGroups body = numGroups body0 ∧
      re.node = .cat [body, .goal] := by
  unfold parse at hp
  simp only at hp
  have hst : ({ input := pat, flags := if fl.unicodeSets = true then
    { icase := fl.icase, multiline := fl.multiline, dotAll := fl.dotAll, noOpt := fl.noOpt, unicode := true,
      unicodeSets := fl.unicodeSets } else fl } : PState) = initState pat fl := rfl
  rw [hst] at hp
  have hi0 : Parse.Inv (initState pat fl) :=
    ⟨by intro e he; simp [initState] at he, by simp [initState, Gen.MAX_NESTING_DEPTH],
      by simp [initState, Gen.MAX_CAPTURE_GROUPS], by simp [initState, Gen.MAX_LOOPS], hb⟩
  unfold tryParse at hp
  split at hp
  · cases hp
  · rename_i st1 hcg
    obtain ⟨h1, h2, h3, h4, h5⟩ := parseCaptureGroups_inv hi0.named hcg
    have hi1 : Parse.Inv st1 := ⟨h1, h3 ▸ hi0.depth, h4 ▸ hi0.groups, h5 ▸ hi0.loops, h2 ▸ hi0.bnd⟩
    have hcnt := parseCaptureGroups_count (st := initState pat fl) rfl rfl hcg
    have hT : capCount (initState pat fl).flags.unicodeSets ((initState pat fl).input.length + 1)
        (initState pat fl).input = preScanCount pat fl := by
      show capCount (parseFlags fl).unicodeSets _ _ = _
      rw [parseFlags_unicodeSets]; rfl
    rw [hT] at hcnt
    have hg0 : st1.groupCount = 0 := h4
    unfold parseBody at hp
    split at hp
    · cases hp
    · rename_i body st2 hcd
      have hk := (descC_all (preScanCount pat fl) _).disj _ _ hi1 (by unfold parseFuel; omega) hcnt.2 hcd
      rw [hg0] at hk
      split at hp
      · split at hp <;> cases hp
      · unfold finalize at hp
        split at hp
        · split at hp
          · cases hp
          · rename_i n hrev
            cases hp
            have hcat : makeCat [body, Node.goal] = .cat [body, .goal] := rfl
            simp only [hcat, Parse.reverseCats, reverseCatsList] at hrev
            split at hrev
            · cases hrev
            · rename_i ns' hl
              split at hl
              · rename_i b' t' hb' ht'
                cases hl
                cases ht'
                cases hrev
                have hs := E2E.reverseCats_same false body b' hb'
                exact ⟨st1, body, b', hcg, hcnt.1, hk.1, reverseCats_sameC false body b' hb', hs.2.2.2, rfl⟩
              · cases hl
              · cases hl
        · cases hp
          exact ⟨st1, body, body, hcg, hcnt.1, hk.1, SameC.refl _, rfl, rfl⟩

theorem dense_of_perm {n : Node} {k : Nat} (h : (groupIds n).Perm (List.range' 0 k)) :
    groupIdsDense n = true := by
  have hlen : (groupIds n).length = k := by rw [h.length_eq]; simp
  unfold groupIdsDense
  simp only [Bool.and_eq_true, decide_eq_true_eq, List.all_eq_true, List.contains_iff_mem, hlen]
  refine ⟨⟨h.nodup_iff.2 (List.nodup_range' 1), ?_⟩, ?_⟩
  · intro i hi
    have := (List.mem_range'_1.1 (h.mem_iff.1 hi)).2
    omega
  · intro i hi
    exact h.mem_iff.2 (List.mem_range'_1.2 ⟨Nat.zero_le _, by simpa using hi⟩)

end Regress.Certs.P

namespace Regress.Certs

open Regress Regress.IR Regress.Parse Regress.Keystone Regress.Closure Regress.E2E Regress.Certs.P

/-- **The IR-level side conditions of the program certificates hold of the parser's output** —
all but `refsOK (numGroups re.node)`, see `parse_refs_partial`. -/
theorem parse_irok {pat : List Nat} {fl : IR.Flags} {re : Regex} (hb : ∀ c ∈ pat, c ≤ 0x10FFFF)
    (hp : Parse.parse pat fl = .ok re) :
    gscoped 0 (numGroups re.node) re.node = true ∧ leafOK re.node = true ∧ endsOK re.node = true ∧
    Closure.groupIdsDense re.node = true := by
  obtain ⟨st1, body0, body, _, _, hk, hs, hn, hre⟩ := parse_core hb hp
  obtain ⟨k1, k2, k3, _, _⟩ := hk
  obtain ⟨s1, s2, _, _, s5, _⟩ := hs
  rw [hre]
  refine ⟨?_, ?_, ?_, ?_⟩
  · simp only [gscoped, gscopedList, numGroups, numGroupsList, Bool.and_true, Nat.add_zero]
    rw [s1, hn]
    simpa using k1
  · simp only [leafOK, leafOKList, Bool.and_true]
    rw [s2]; exact k3
  · simp [endsOK, endsOKList]
  · apply dense_of_perm (k := numGroups body0)
    have : groupIds (.cat [body, .goal]) = groupIds body := by
      simp [groupIds, groupList, groupLists]
    rw [this, ← k2]
    exact s5.map _

/-- **Back-references are within the pre-scan count.**  `gmax = preScanCount pat fl` is the number of
capturing `(` the capture-group pre-scan counts (`group_count_max` is that count, saturated at
`MAX_CAPTURE_GROUPS`); every back-reference of the parsed tree names a group `1 ≤ g ≤ gmax`. -/
theorem parse_refs_partial {pat : List Nat} {fl : IR.Flags} {re : Regex} (hb : ∀ c ∈ pat, c ≤ 0x10FFFF)
    (hp : Parse.parse pat fl = .ok re) :
    ∃ gmax st1, gmax = preScanCount pat fl ∧ Parse.parseCaptureGroups (initState pat fl) = .ok st1 ∧
      st1.groupCountMax = min gmax Gen.MAX_CAPTURE_GROUPS ∧ refsOK gmax re.node = true := by
  obtain ⟨st1, body0, body, h1, h2, hk, hs, _, hre⟩ := parse_core hb hp
  refine ⟨_, st1, rfl, h1, h2, ?_⟩
  rw [hre]
  simp only [refsOK, refsOKList, Bool.and_true]
  rw [hs.2.2.2.1]; exact hk.2.2.2.1

/-- **The group ranges of loops and look-arounds of the parser's output are exact** (every id in
the range is the id of a capture group of the body / the contents). -/
theorem parse_rangesExact {pat : List Nat} {fl : IR.Flags} {re : Regex} (hb : ∀ c ∈ pat, c ≤ 0x10FFFF)
    (hp : Parse.parse pat fl = .ok re) : rangesExact re.node = true := by
  obtain ⟨st1, body0, body, _, _, hk, hs, _, hre⟩ := parse_core hb hp
  rw [hre]
  simp only [rangesExact, rangesExactList, Bool.and_true]
  rw [hs.2.2.2.2.2]; exact hk.2.2.2.2

/-! ## Non-vacuity -/

/- ASCII pattern literal: `pat! "a|b"` elaborates to the list literal `[97, 124, 98]`. -/
open Lean in
local macro "pat!" s:str : term => do
  let cs := s.getString.toList.map (fun c => Syntax.mkNumLit (toString c.toNat))
  `(([$(cs.toArray),*] : List Nat))

/-- An accepted pattern with a look-behind (so `reverse_cats` runs), nested groups, a loop over groups,
a numeric and a named back-reference: the hypotheses of `parse_irok` / `parse_refs_partial` hold,
and (evaluated) the whole of `irOK` does. -/
example : (∀ c ∈ pat! "(?<=(a)(b))\\2(?:(?<n>c)|(d))+\\k<n>", c ≤ 0x10FFFF) ∧
    (match parse (pat! "(?<=(a)(b))\\2(?:(?<n>c)|(d))+\\k<n>") { icase := true } with
      | .ok re => irOK2 re.node && numGroups re.node == 4 &&
          preScanCount (pat! "(?<=(a)(b))\\2(?:(?<n>c)|(d))+\\k<n>") { icase := true } == 4
      | _ => false) = true := by
  constructor
  · decide
  · decide +kernel

#print axioms parse_irok
#print axioms parse_refs_partial
#print axioms parse_rangesExact

end Regress.Certs
