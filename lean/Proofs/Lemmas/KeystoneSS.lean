import Proofs.Lemmas.KeystoneFrag
import Proofs.Lemmas.KeystoneEmitSS
/-!
# Keystone, part 5e: byte-sequence chunks and `StringSet`
-/
namespace Regress.Keystone

open Regress.VM Regress.VM.Pk Regress.IR Regress.Gen
open Regress.VM.Bt (LoopData GroupData)

theorem seqOpt_append (prog : Prog) (inp : Input) (fwd : Bool) (caps : List Cap) :
    ∀ (a c : List Insn) (pos : Nat), seqOpt prog inp fwd caps (a ++ c) pos =
      match seqOpt prog inp fwd caps a pos with
      | none => none
      | some p => seqOpt prog inp fwd caps c p
  | [], c, pos => rfl
  | i :: a, c, pos => by
    simp only [List.cons_append, seqOpt]
    cases insnStep prog inp fwd caps pos i with
    | none => rfl
    | some p => exact seqOpt_append prog inp fwd caps a c p

theorem seqOpt_bytes_fwd (prog : Prog) (inp : Input) (caps : List Cap) :
    ∀ (chs : List (List Nat)) (pos : Nat),
      seqOpt prog inp true caps (chs.map Insn.byteSeq) pos = inp.matchBytes true pos chs.flatten
  | [], pos => by simp [seqOpt, matchBytes_nil]
  | c :: chs, pos => by
    simp only [List.map_cons, seqOpt, insnStep, insnOpt, List.flatten_cons]
    rw [matchBytes_append_fwd]
    cases inp.matchBytes true pos c with
    | none => rfl
    | some p => exact seqOpt_bytes_fwd prog inp caps chs p

theorem seqOpt_bytes_bwd (prog : Prog) (inp : Input) (caps : List Cap) :
    ∀ (chs : List (List Nat)) (pos : Nat),
      seqOpt prog inp false caps (chs.reverse.map Insn.byteSeq) pos = inp.matchBytes false pos chs.flatten
  | [], pos => by simp [seqOpt, matchBytes_nil]
  | c :: chs, pos => by
    simp only [List.reverse_cons, List.map_append, List.map_cons, List.map_nil, List.flatten_cons]
    rw [seqOpt_append, seqOpt_bytes_bwd prog inp caps chs pos, matchBytes_append_bwd]
    cases inp.matchBytes false pos chs.flatten with
    | none => rfl
    | some p =>
      simp only [seqOpt, insnStep, insnOpt]
      cases inp.matchBytes false p c <;> rfl

theorem chunksFuel_flatten (size : Nat) : ∀ (fuel : Nat) (l : List Nat), l.length ≤ fuel → 0 < size →
    (chunksFuel size fuel l).flatten = l
  | 0, l, h, _ => by
    have : l = [] := List.length_eq_zero_iff.1 (by omega)
    subst this; rfl
  | fuel + 1, l, h, hs => by
    simp only [chunksFuel]
    split
    · rename_i he
      have : l = [] := by simpa using he
      subst this; rfl
    · rename_i he
      have hne : l ≠ [] := by simpa using he
      have hpos : 0 < l.length := List.length_pos_iff.2 hne
      rw [List.flatten_cons, chunksFuel_flatten size fuel (l.drop size) (by simp; omega) hs,
        List.take_append_drop]

theorem chunks_flatten (l : List Nat) : (chunks MAX_BYTE_SEQ_LENGTH l).flatten = l :=
  chunksFuel_flatten _ _ _ (Nat.le_refl _) (by decide)


/-! ## Pieces -/

/-- What a `literal::Piece` matches. -/
def pieceStep (inp : Input) (fwd : Bool) (pos : Nat) : Piece → Option Nat
  | .char c => charStep inp fwd pos (fun c2 => c2 == c)
  | .byteSequence bs => inp.matchBytes fwd pos bs
  | .byteSet bs => byteStep inp fwd pos (fun b => bs.contains b)
  | .charSet cs => charStep inp fwd pos (charsetContains cs)

/-- Pieces one after the other. -/
def foldPieces (inp : Input) (fwd : Bool) : List Piece → Nat → Option Nat
  | [], pos => some pos
  | p :: ps, pos =>
    match pieceStep inp fwd pos p with
    | none => none
    | some q => foldPieces inp fwd ps q

theorem foldPieces_append (inp : Input) (fwd : Bool) : ∀ (a c : List Piece) (pos : Nat),
    foldPieces inp fwd (a ++ c) pos =
      match foldPieces inp fwd a pos with
      | none => none
      | some q => foldPieces inp fwd c q
  | [], c, pos => rfl
  | p :: a, c, pos => by
    simp only [List.cons_append, foldPieces]
    cases pieceStep inp fwd pos p with
    | none => rfl
    | some q => exact foldPieces_append inp fwd a c q

theorem seqOpt_single (prog : Prog) (inp : Input) (fwd : Bool) (caps : List Cap) (i : Insn) (pos : Nat)
    {o : Option Nat} (h : insnOpt prog inp fwd caps pos i = some o) :
    seqOpt prog inp fwd caps [i] pos = o := by
  simp only [seqOpt, insnStep, h]
  cases o <;> rfl

/-- The code of a piece computes the piece. -/
theorem piece_sem (prog : Prog) (inp : Input) (fwd : Bool) {p : Piece} {c : List Insn}
    (h : pieceInsns (!fwd) p = some c) :
    (∀ i ∈ c, IsSimple prog inp fwd i) ∧
      ∀ caps pos, seqOpt prog inp fwd caps c pos = pieceStep inp fwd pos p := by
  cases p with
  | char ch =>
    simp only [pieceInsns] at h; cases h
    refine ⟨fun i hi => ?_, fun caps pos => seqOpt_single _ _ _ _ _ _ rfl⟩
    simp at hi; subst hi
    exact fun caps pos => ⟨_, rfl⟩
  | byteSequence bs =>
    simp only [pieceInsns] at h; cases h
    refine ⟨fun i hi => ?_, fun caps pos => ?_⟩
    · obtain ⟨ch, _, rfl⟩ := List.mem_map.1 hi
      exact fun caps pos => ⟨_, rfl⟩
    · simp only [pieceStep]
      cases fwd
      · simp only [bytesChunks, Bool.not_false, if_true]
        rw [seqOpt_bytes_bwd, chunks_flatten]
      · simp only [bytesChunks, Bool.not_true, Bool.false_eq_true, if_false]
        rw [seqOpt_bytes_fwd, chunks_flatten]
  | byteSet bs =>
    simp only [pieceInsns] at h
    cases hb : byteSetInsn bs with
    | none => rw [hb] at h; cases h
    | some i =>
      rw [hb] at h; cases h
      refine ⟨fun j hj => ?_, fun caps pos => seqOpt_single _ _ _ _ _ _ (leaf_byteSet prog inp fwd caps pos hb)⟩
      simp at hj; subst hj
      exact fun caps pos => ⟨_, leaf_byteSet prog inp fwd caps pos hb⟩
  | charSet chs =>
    simp only [pieceInsns] at h
    cases hb : charSetInsn chs with
    | none => rw [hb] at h; cases h
    | some i =>
      rw [hb] at h; cases h
      refine ⟨fun j hj => ?_, fun caps pos => seqOpt_single _ _ _ _ _ _ (leaf_charSet prog inp fwd caps pos hb)⟩
      simp at hj; subst hj
      exact fun caps pos => ⟨_, leaf_charSet prog inp fwd caps pos hb⟩

theorem pieces_sem (prog : Prog) (inp : Input) (fwd : Bool) : ∀ (ps : List Piece) (c : List Insn),
    piecesInsns (!fwd) ps = some c →
    (∀ i ∈ c, IsSimple prog inp fwd i) ∧
      ∀ caps pos, seqOpt prog inp fwd caps c pos = foldPieces inp fwd ps pos
  | [], c, h => by
    simp only [piecesInsns] at h; cases h
    exact ⟨fun i hi => by simp at hi, fun caps pos => rfl⟩
  | p :: ps, c, h => by
    simp only [piecesInsns] at h
    cases h1 : pieceInsns (!fwd) p with
    | none => simp [h1] at h
    | some c1 =>
      cases h2 : piecesInsns (!fwd) ps with
      | none => simp [h1, h2] at h
      | some c2 =>
        simp only [h1, h2] at h; cases h
        obtain ⟨s1, e1⟩ := piece_sem prog inp fwd h1
        obtain ⟨s2, e2⟩ := pieces_sem prog inp fwd ps c2 h2
        refine ⟨fun i hi => ?_, fun caps pos => ?_⟩
        · rcases List.mem_append.1 hi with hi | hi
          · exact s1 i hi
          · exact s2 i hi
        · rw [seqOpt_append, e1]
          simp only [foldPieces]
          cases pieceStep inp fwd pos p with
          | none => rfl
          | some q => exact e2 caps q

/-! ## `lower_code_point_sequence` -/

theorem stepSeq_append (step : Nat → Nat → Option Nat) : ∀ (a c : List Nat) (pos : Nat),
    stepSeq step (a ++ c) pos =
      match stepSeq step a pos with
      | none => none
      | some q => stepSeq step c q
  | [], c, pos => rfl
  | x :: a, c, pos => by
    simp only [List.cons_append, stepSeq]
    cases step pos x with
    | none => rfl
    | some q => exact stepSeq_append step a c q

/-- The effect of lowering one code point on the accumulated pieces, in both directions. -/
def OneStep (inp : Input) (icase : Bool) (acc acc' : List Piece) (cp : Nat) : Prop :=
  (∀ pos, foldPieces inp true acc' pos =
    match foldPieces inp true acc pos with
    | none => none
    | some q => cpStep inp icase true q cp) ∧
  (∀ pos, foldPieces inp false acc'.reverse pos =
    match cpStep inp icase false pos cp with
    | none => none
    | some q => foldPieces inp false acc.reverse q)

/-- Appending a piece that matches what the code point matches. -/
theorem oneStep_snoc (inp : Input) (icase : Bool) (acc : List Piece) (p : Piece) (cp : Nat)
    (h : ∀ fwd pos, pieceStep inp fwd pos p = cpStep inp icase fwd pos cp) :
    OneStep inp icase acc (acc ++ [p]) cp := by
  refine ⟨fun pos => ?_, fun pos => ?_⟩
  · rw [foldPieces_append]
    cases foldPieces inp true acc pos with
    | none => rfl
    | some q =>
      simp only [foldPieces, h]
      cases cpStep inp icase true q cp <;> rfl
  · simp only [List.reverse_append, List.reverse_cons, List.reverse_nil, List.nil_append, List.cons_append,
      foldPieces, h]

/-- Extending the trailing byte sequence. -/
theorem oneStep_merge (inp : Input) (icase : Bool) (d : List Piece) (prev enc : List Nat) (cp : Nat)
    (h : ∀ fwd pos, inp.matchBytes fwd pos enc = cpStep inp icase fwd pos cp) :
    OneStep inp icase (d ++ [.byteSequence prev]) (d ++ [.byteSequence (prev ++ enc)]) cp := by
  refine ⟨fun pos => ?_, fun pos => ?_⟩
  · rw [foldPieces_append, foldPieces_append]
    cases foldPieces inp true d pos with
    | none => rfl
    | some q =>
      simp only [foldPieces, pieceStep]
      rw [matchBytes_append_fwd]
      cases inp.matchBytes true q prev with
      | none => rfl
      | some q' =>
        simp only [h]
        cases cpStep inp icase true q' cp <;> rfl
  · simp only [List.reverse_append, List.reverse_cons, List.reverse_nil, List.nil_append, List.cons_append,
      foldPieces, pieceStep]
    rw [matchBytes_append_bwd, h]
    cases cpStep inp icase false pos cp with
    | none => rfl
    | some q => rfl

theorem lower_step (inp : Input) (icase : Bool) (cp : Nat) (cps : List Nat) (acc pieces : List Piece)
    (h : lowerLoop icase inp.unicode (cp :: cps) acc = .ok pieces) :
    ∃ acc', lowerLoop icase inp.unicode cps acc' = .ok pieces ∧ OneStep inp icase acc acc' cp := by
  simp only [lowerLoop] at h
  split at h
  · cases h
  · rename_i c0 hch
    split at h
    · rename_i hsc
      have hcp : ∀ fwd pos, inp.matchBytes fwd pos (Utf8.encode c0) = cpStep inp icase fwd pos cp := by
        intro fwd pos; simp only [cpStep, hch, hsc, if_true]
      split at h
      · rename_i prev hlast
        refine ⟨_, h, ?_⟩
        have hsplit := getLast_split acc _ hlast
        rw [hsplit]
        simp only [List.dropLast_concat]
        exact oneStep_merge inp icase _ prev _ cp hcp
      · exact ⟨_, h, oneStep_snoc inp icase acc _ cp (fun fwd pos => by simp only [pieceStep]; exact hcp fwd pos)⟩
    · rename_i hsc
      refine ⟨_, h, oneStep_snoc inp icase acc _ cp (fun fwd pos => ?_)⟩
      simp only [pieceStep, cpStep, hch, hsc, Bool.false_eq_true, if_false]
  · rename_i hne1 hne2
    split at h
    · refine ⟨_, h, oneStep_snoc inp icase acc _ cp (fun fwd pos => ?_)⟩
      have hcs : ∀ (l : List Nat), l = Fold.expandCodePoint cp icase inp.unicode →
          cpStep inp icase fwd pos cp =
            if l.all (fun c => decide (c ≤ 0x7F)) then byteStep inp fwd pos (fun b => l.contains b)
            else charStep inp fwd pos (charsetContains l) := by
        intro l hl
        unfold cpStep
        rw [← hl]
        split
        next _ c => exact absurd hl.symm (hne2 c)
        next => rfl
      rw [hcs _ rfl]
      split <;> rename_i hall <;> simp only [pieceStep]
    · cases h

theorem lower_sem (inp : Input) (icase : Bool) : ∀ (cps : List Nat) (acc pieces : List Piece),
    lowerLoop icase inp.unicode cps acc = .ok pieces →
    (∀ pos, foldPieces inp true pieces pos =
      match foldPieces inp true acc pos with
      | none => none
      | some q => stepSeq (cpStep inp icase true) cps q) ∧
    (∀ pos, foldPieces inp false pieces.reverse pos =
      match stepSeq (cpStep inp icase false) cps.reverse pos with
      | none => none
      | some q => foldPieces inp false acc.reverse q)
  | [], acc, pieces, h => by
    simp only [lowerLoop] at h; cases h
    refine ⟨fun pos => ?_, fun pos => ?_⟩
    · cases foldPieces inp true acc pos <;> rfl
    · rfl
  | cp :: cps, acc, pieces, h => by
    obtain ⟨acc', h', hs⟩ := lower_step inp icase cp cps acc pieces h
    obtain ⟨ih1, ih2⟩ := lower_sem inp icase cps acc' pieces h'
    refine ⟨fun pos => ?_, fun pos => ?_⟩
    · rw [ih1, hs.1]
      cases foldPieces inp true acc pos with
      | none => rfl
      | some q => rfl
    · rw [ih2, List.reverse_cons, stepSeq_append]
      cases stepSeq (cpStep inp icase false) cps.reverse pos with
      | none => rfl
      | some q =>
        simp only [stepSeq]
        rw [hs.2]
        cases cpStep inp icase false q cp <;> rfl

/-- The code of an alternative of a `StringSet` computes `cpSeq`. -/
theorem cps_sem (prog : Prog) (inp : Input) (icase fwd : Bool) {cps : List Nat} {c : List Insn}
    (h : cpsInsns inp.unicode (!fwd) icase cps = some c) :
    (∀ i ∈ c, IsSimple prog inp fwd i) ∧
      ∀ caps pos, seqOpt prog inp fwd caps c pos = cpSeq inp icase fwd cps pos := by
  unfold cpsInsns lowerCodePointSequence at h
  split at h
  · cases h
  · rename_i pieces hl
    obtain ⟨hs, he⟩ := pieces_sem prog inp fwd _ c h
    refine ⟨hs, fun caps pos => ?_⟩
    rw [he]
    obtain ⟨l1, l2⟩ := lower_sem inp icase cps [] pieces hl
    unfold cpSeq
    cases fwd
    · simp only [Bool.not_false, if_true, Bool.false_eq_true, if_false]
      rw [l2]
      cases stepSeq (cpStep inp icase false) cps.reverse pos <;> rfl
    · simp only [Bool.not_true, Bool.false_eq_true, if_false, if_true]
      rw [l1]; rfl

/-! ## The `Alt`/`Jump` chain -/

theorem InsnsAt.left {I : Array Insn} {b : Nat} {x y : List Insn} (h : InsnsAt I b (x ++ y)) : InsnsAt I b x := by
  intro i hi
  have := h i (by simp; omega)
  rwa [List.getElem_append_left hi] at this

theorem InsnsAt.right {I : Array Insn} {b : Nat} {x y : List Insn} (h : InsnsAt I b (x ++ y)) :
    InsnsAt I (b + x.length) y := by
  intro i hi
  have := h (x.length + i) (by simp; omega)
  rw [List.getElem_append_right (by omega)] at this
  simpa [Nat.add_assoc] using this

section
variable {prog : Prog} {inp : Input} {limit : Nat}

theorem run_strSet {fwd : Bool} (e l : Nat) : ∀ (codes : List (List Insn)) (b : Nat),
    (∀ c ∈ codes, ∀ i ∈ c, IsSimple prog inp fwd i) →
    InsnsAt prog.insns b (strSetInsns e b codes) → e = b + (strSetInsns e b codes).length →
    ∀ (s : State) (σ : St), Rel σ s → s.ip = b →
    ∀ (rest : Array State) (sf steps peak : Nat),
      Fine (runStates prog inp limit sf (rest.push s) fwd steps peak) →
      Tries prog inp limit fwd (Out e l 0 s) rest
        (codes.flatMap (fun c => optSt σ (seqOpt prog inp fwd σ.caps c σ.pos)))
        (runStates prog inp limit sf (rest.push s) fwd steps peak)
  | [], b, _, hat, _, s, σ, hrel, hip, rest, sf, steps, peak, hf => by
    simp only [strSetInsns] at hat
    have hi : prog.insns[s.ip]? = some .justFail := by
      have := hat 0 (by simp)
      simpa [At, hip] using this
    obtain ⟨sf', steps', peak', he⟩ := run_simple (o := none) hi rfl hf
    exact Tries.nil_of_eq he
  | [c], b, hs, hat, he, s, σ, hrel, hip, rest, sf, steps, peak, hf => by
    simp only [strSetInsns] at hat he
    have hr := run_seq c s b (hs c (by simp)) hat hip rest sf steps peak hf
    rw [show seqOpt prog inp fwd (capsOfState s) c s.pos = seqOpt prog inp fwd σ.caps c σ.pos by
      rw [hrel.caps, hrel.pos]] at hr
    simp only [List.flatMap_cons, List.flatMap_nil, List.append_nil]
    cases hq : seqOpt prog inp fwd σ.caps c σ.pos with
    | none =>
      rw [hq] at hr
      obtain ⟨sf', steps', peak', he'⟩ := hr
      exact Tries.nil_of_eq he'
    | some p =>
      rw [hq] at hr
      obtain ⟨sf', steps', peak', he'⟩ := hr
      exact Tries.single (t := { s with pos := p, ip := b + c.length })
        ⟨⟨rfl, hrel.caps, hrel.l1⟩, he.symm, LoopsFrame.of_eq rfl⟩ he'
  | c :: c2 :: cs, b, hs, hat, he, s, σ, hrel, hip, rest, sf, steps, peak, hf => by
    simp only [strSetInsns] at hat he
    -- the layout
    have hAlt : prog.insns[s.ip]? = some (.alt (b + c.length + 2)) := by
      have := hat 0 (by simp)
      simpa [At, hip] using this
    have hC : InsnsAt prog.insns (b + 1) c := by
      have := (hat.left.left).right
      simpa using this
    have hJ : At prog.insns (b + 1 + c.length) (.jump e) := by
      have h0 := (hat.left).right 0 (by simp)
      have : b + 1 + c.length = b + ([Insn.alt (b + c.length + 2)] ++ c).length + 0 := by simp; omega
      rw [this]; exact h0
    have hR : InsnsAt prog.insns (b + c.length + 2) (strSetInsns e (b + c.length + 2) (c2 :: cs)) := by
      have := hat.right
      simp only [List.length_append, List.length_cons, List.length_nil] at this
      rw [show b + (0 + 1 + c.length + (0 + 1)) = b + c.length + 2 by omega] at this
      exact this
    have heR : e = b + c.length + 2 + (strSetInsns e (b + c.length + 2) (c2 :: cs)).length := by
      simp only [List.length_append, List.length_cons, List.length_nil] at he
      omega
    -- the alternatives after this one, from the pending state
    have htail : ∀ (sf' steps' peak' : Nat),
        Fine (runStates prog inp limit sf' (rest.push { s with ip := b + c.length + 2 }) fwd steps' peak') →
        Tries prog inp limit fwd (Out e l 0 s) rest
          ((c2 :: cs).flatMap (fun c => optSt σ (seqOpt prog inp fwd σ.caps c σ.pos)))
          (runStates prog inp limit sf' (rest.push { s with ip := b + c.length + 2 }) fwd steps' peak') := by
      intro sf' steps' peak' hf'
      exact run_strSet e l (c2 :: cs) (b + c.length + 2) (fun c' hc' => hs c' (by simp [hc'])) hR heR
        { s with ip := b + c.length + 2 } σ ⟨hrel.pos, hrel.caps, hrel.l1⟩ rfl rest sf' steps' peak' hf'
    obtain ⟨sf1, steps1, peak1, he1⟩ := run_alt hAlt hf
    rw [he1] at hf ⊢
    have hr := run_seq c { s with ip := s.ip + 1 } (b + 1) (hs c (by simp)) hC (by simp [hip])
      (rest.push { s with ip := b + c.length + 2 }) sf1 steps1 peak1 hf
    have heq : seqOpt prog inp fwd (capsOfState { s with ip := s.ip + 1 }) c
        ({ s with ip := s.ip + 1 } : State).pos = seqOpt prog inp fwd σ.caps c σ.pos := by
      rw [show capsOfState { s with ip := s.ip + 1 } = σ.caps from hrel.caps]
      exact congrArg _ hrel.pos
    rw [heq] at hr
    rw [List.flatMap_cons]
    cases hq : seqOpt prog inp fwd σ.caps c σ.pos with
    | none =>
      rw [hq] at hr
      obtain ⟨sf', steps', peak', he'⟩ := hr
      rw [he'] at hf ⊢
      simpa [optSt] using htail sf' steps' peak' hf
    | some p =>
      rw [hq] at hr
      obtain ⟨sf', steps', peak', he'⟩ := hr
      rw [he'] at hf ⊢
      obtain ⟨sf2, steps2, peak2, he2⟩ := run_jump
        (s := { s with pos := p, ip := b + 1 + c.length }) (by exact hJ) hf
      rw [he2] at hf ⊢
      simp only [optSt, List.singleton_append]
      refine ⟨#[{ s with ip := b + c.length + 2 }], sf2, steps2, peak2, { s with pos := p, ip := e },
        ⟨⟨rfl, hrel.caps, hrel.l1⟩, rfl, LoopsFrame.of_eq rfl⟩, ?_, ?_⟩
      · rw [← Array.push_eq_append]
      · intro sf'' steps'' peak'' hf''
        rw [← Array.push_eq_append] at hf'' ⊢
        exact htail sf'' steps'' peak'' hf''

/-- `StringSet`. -/
theorem frag_stringSet {cs : List Nat} {alts : List (List Nat)} {icase fwd : Bool} {b e l : Nat}
    (hc : Code prog.insns prog.brackets inp.unicode (.stringSet alts icase) (!fwd) b e l) :
    Frag prog inp limit cs (.stringSet alts icase) fwd b e l := by
  simp only [Code] at hc
  obtain ⟨codes, hcodes, hat, he⟩ := hc
  -- every alternative's code computes `cpSeq`
  have key : ∀ (alts : List (List Nat)) (codes : List (List Insn)),
      allSome (alts.map (cpsInsns inp.unicode (!fwd) icase)) = some codes →
      (∀ c ∈ codes, ∀ i ∈ c, IsSimple prog inp fwd i) ∧
      ∀ (σ : St), codes.flatMap (fun c => optSt σ (seqOpt prog inp fwd σ.caps c σ.pos)) =
        alts.flatMap (fun a => optSt σ (cpSeq inp icase fwd a σ.pos)) := by
    intro alts
    induction alts with
    | nil =>
      intro codes h
      simp only [List.map_nil, allSome] at h; cases h
      exact ⟨fun c hc => by simp at hc, fun σ => rfl⟩
    | cons a as ih =>
      intro codes h
      simp only [List.map_cons, allSome] at h
      cases h1 : cpsInsns inp.unicode (!fwd) icase a with
      | none => simp [h1] at h
      | some c =>
        cases h2 : allSome (as.map (cpsInsns inp.unicode (!fwd) icase)) with
        | none => simp [h1, h2] at h
        | some cs' =>
          simp only [h1, h2] at h; cases h
          obtain ⟨s1, e1⟩ := cps_sem prog inp icase fwd h1
          obtain ⟨s2, e2⟩ := ih cs' h2
          refine ⟨fun c' hc' => ?_, fun σ => ?_⟩
          · rcases List.mem_cons.1 hc' with rfl | hc'
            · exact s1
            · exact s2 c' hc'
          · simp only [List.flatMap_cons, e1, e2]
  obtain ⟨hs, hsem⟩ := key alts codes hcodes
  intro s σ hrel _ hip rest sf steps peak hf
  simp only [sem]
  rw [← hsem σ]
  exact run_strSet e l codes b hs hat he s σ hrel hip rest sf steps peak hf

end

end Regress.Keystone
