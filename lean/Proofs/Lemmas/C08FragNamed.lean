import Proofs.Lemmas.C08FragCls
/-!
# C08 fragment equivalence: group names

The crate's `try_consume_named_capture_group_name` (`tryConsumeName`, `nameChar`, `nameLoop`) against
the grammar's `GroupName` (`groupName`, `groupNameGo`, `nameChar`), for input made of Unicode scalar
values: the same names (as code point lists, `\u` escapes resolved) and the same rest.
-/
namespace Regress.C08Frag
open Regress Regress.IR Regress.Parse Regress.ESG

/-! ## The identifier tables -/

theorem idStart_ascii : ∀ c, c < 0x80 → Packed.mem Parse.idStartRanges c = ESG.isAsciiLetter c := by
  decide +kernel

theorem idCont_ascii : ∀ c, c < 0x80 →
    (Packed.mem Parse.idContinueRanges c || c == 0x24 || c == 0x5F) =
      (ESG.isAsciiLetter c || ESG.isDigit c || c == 0x24 || c == 0x5F) := by
  decide +kernel

theorem id_no_surrogates :
    (Parse.idStartRanges.all fun iv => decide (iv.2 < 0xD800) || decide (0xDFFF < iv.1)) = true ∧
    (Parse.idContinueRanges.all fun iv => decide (iv.2 < 0xD800) || decide (0xDFFF < iv.1)) = true := by
  decide +kernel

theorem mem_no_surrogate {l : List (Nat × Nat)}
    (h : (l.all fun iv => decide (iv.2 < 0xD800) || decide (0xDFFF < iv.1)) = true) {v : Nat}
    (hv : 0xD800 ≤ v ∧ v ≤ 0xDFFF) : Packed.mem l v = false := by
  unfold Packed.mem
  rw [List.any_eq_false]
  intro iv hiv
  rw [List.all_eq_true] at h
  have := h iv hiv
  simp only [Bool.or_eq_true, decide_eq_true_eq] at this
  simp only [Bool.and_eq_true, decide_eq_true_eq, not_and, Nat.not_le]
  omega

theorem tabs_idStart : tabs.idStart = Parse.idStartRanges := rfl
theorem tabs_idCont : tabs.idCont = Parse.idContinueRanges := rfl

/-- IdentifierStartChar: the crate's test is the grammar's. -/
theorem isIdStart_sim (c : Nat) : Parse.isIdStart c = ESG.isIdStart tabs c := by
  unfold Parse.isIdStart ESG.isIdStart
  by_cases hc : c < 0x80
  · rw [if_pos hc, idStart_ascii c hc]
  · rw [if_neg hc, tabs_idStart]
    have h1 : (c == 0x24) = false := by simp; omega
    have h2 : (c == 0x5F) = false := by simp; omega
    simp only [h1, h2, Bool.or_false]
    rfl

/-- IdentifierPartChar: the crate's test is the grammar's. -/
theorem isIdContinue_sim (c : Nat) : Parse.isIdContinue c = ESG.isIdPart tabs c := by
  unfold Parse.isIdContinue ESG.isIdPart
  by_cases hc : c < 0x80
  · rw [if_pos hc]
    have h1 : (c == 0x200C) = false := by simp; omega
    have h2 : (c == 0x200D) = false := by simp; omega
    simp only [h1, h2, Bool.or_false]
    exact idCont_ascii c hc
  · rw [if_neg hc, tabs_idCont]
    have h1 : (c == 0x24) = false := by simp; omega
    have h2 : (c == 0x5F) = false := by simp; omega
    simp only [h1, h2, Bool.or_false]
    have : Packed.mem Parse.idContinueRanges c = memIv Parse.idContinueRanges c := rfl
    rw [this]
    cases memIv Parse.idContinueRanges c <;> cases (c == 0x200C) <;> cases (c == 0x200D) <;> rfl

theorem isIdStart_surrogate {v : Nat} (hv : 0xD800 ≤ v ∧ v ≤ 0xDFFF) : ESG.isIdStart tabs v = false := by
  unfold ESG.isIdStart
  rw [if_neg (by omega), tabs_idStart]
  exact mem_no_surrogate id_no_surrogates.1 hv

theorem isIdPart_surrogate {v : Nat} (hv : 0xD800 ≤ v ∧ v ≤ 0xDFFF) : ESG.isIdPart tabs v = false := by
  unfold ESG.isIdPart
  rw [if_neg (by omega), tabs_idCont]
  have h1 : (v == 0x200C) = false := by simp; omega
  have h2 : (v == 0x200D) = false := by simp; omega
  simp only [h1, h2, Bool.false_or]
  exact mem_no_surrogate id_no_surrogates.2 hv

theorem isIdStart_bs : ESG.isIdStart tabs 0x5C = false := by decide
theorem isIdPart_bs : ESG.isIdPart tabs 0x5C = false := by decide

/-- An identifier character is an ordinary character for the scanners. -/
theorem isIdPart_plain (t : Tabs) {c : Nat} (h : ESG.isIdPart t c = true) : Plain c := by
  unfold ESG.isIdPart at h
  by_cases hc : c < 0x80
  · rw [if_pos hc] at h
    simp only [ESG.isAsciiLetter, ESG.isDigit, Bool.or_eq_true, Bool.and_eq_true, decide_eq_true_eq,
      beq_iff_eq] at h
    refine ⟨?_, ?_, ?_, ?_, ?_, ?_⟩ <;> omega
  · refine ⟨?_, ?_, ?_, ?_, ?_, ?_⟩ <;> omega

theorem isIdStart_plain (t : Tabs) {c : Nat} (h : ESG.isIdStart t c = true) : Plain c := by
  unfold ESG.isIdStart at h
  by_cases hc : c < 0x80
  · rw [if_pos hc] at h
    simp only [ESG.isAsciiLetter, Bool.or_eq_true, Bool.and_eq_true, decide_eq_true_eq,
      beq_iff_eq] at h
    refine ⟨?_, ?_, ?_, ?_, ?_, ?_⟩ <;> omega
  · refine ⟨?_, ?_, ?_, ?_, ?_, ?_⟩ <;> omega

/-! ## One name character -/

/-- One name character followed by the identifier test `P`. -/
def ckE (P : Nat → Bool) (s : List Nat) : Option (Nat × List Nat) :=
  match ESG.nameChar s with
  | some (c, r) => if P c then some (c, r) else none
  | none => none

def ckC (P : Nat → Bool) (s : List Nat) : Option (Nat × List Nat) :=
  match Parse.nameChar s with
  | some (c, r) => if P c then some (c, r) else none
  | none => none

theorem isChar_not_lead {a : Nat} (h : Parse.isChar a = true) : ESG.isLead a = false := by
  simp only [Parse.isChar, Bool.or_eq_true, Bool.and_eq_true, decide_eq_true_eq] at h
  simp only [ESG.isLead, Bool.and_eq_false_iff, decide_eq_false_iff_not]
  omega

theorem not_isChar_surrogate {e : Nat} (h1 : e ≤ 0x10FFFF) (h2 : Parse.isChar e = false) :
    0xD800 ≤ e ∧ e ≤ 0xDFFF := by
  simp only [Parse.isChar, Bool.or_eq_false_iff, Bool.and_eq_false_iff, decide_eq_false_iff_not] at h2
  omega

/-- A name character with its identifier test: crate and grammar agree. -/
theorem ck_sim (P : Nat → Bool) (hP1 : P 0x5C = false) (hP2 : ∀ v, 0xD800 ≤ v ∧ v ≤ 0xDFFF → P v = false)
    (s : List Nat) (hs : AllChar s) : ckE P s = ckC P s := by
  unfold ckE ckC
  rcases s with _ | ⟨a, rest⟩
  · rfl
  have ha := hs.head
  by_cases hbs : a = 0x5C
  · subst hbs
    by_cases hu : ∃ r, rest = 0x75 :: r
    · obtain ⟨r, rfl⟩ := hu
      have e1 : ESG.nameChar (0x5C :: 0x75 :: r) = uEscapeU r := by unfold ESG.nameChar; rfl
      have e2 : Parse.nameChar (0x5C :: 0x75 :: r) =
          match tryEscapeUnicodeSequence r with
          | (some e, rest3) => if Parse.isChar e then some (e, rest3) else none
          | (none, _) => none := by
        unfold Parse.nameChar
        have : Parse.isChar 0x5C = true := by decide
        simp only [this, Bool.not_true, Bool.false_eq_true, if_false, beq_self_eq_true, if_true]
        rfl
      rw [e1, e2, uEsc_sim r hs.tail.tail]
      have hval := tryEscapeUnicodeSequence_val r
      rcases htr : tryEscapeUnicodeSequence r with ⟨_ | e, r3⟩
      · rfl
      · rw [htr] at hval
        have he := hval e rfl
        simp only [optPair]
        by_cases hce : Parse.isChar e = true
        · simp [hce]
        · have := hP2 e (not_isChar_surrogate he (by simpa using hce))
          simp [hce, this]
    · have e1 : ESG.nameChar (0x5C :: rest) = none := by
        rcases rest with _ | ⟨y, r⟩
        · rfl
        · have hy : y ≠ 0x75 := fun e => hu ⟨r, by rw [e]⟩
          unfold ESG.nameChar
          simp [hy]
      have e2 : Parse.nameChar (0x5C :: rest) = some (0x5C, rest) := by
        have hc : Parse.isChar 0x5C = true := by decide
        unfold Parse.nameChar
        simp only [hc, Bool.not_true, Bool.false_eq_true, if_false, beq_self_eq_true, if_true]
        rcases rest with _ | ⟨y, r⟩
        · rfl
        · have hy : y ≠ 0x75 := fun e => hu ⟨r, by rw [e]⟩
          simp [hy]
      rw [e1, e2]
      simp [hP1]
  · have e1 : ESG.nameChar (a :: rest) = some (a, rest) := by
      unfold ESG.nameChar
      split
      · rename_i heq; cases heq; exact absurd rfl hbs
      · rename_i heq; cases heq; exact absurd rfl hbs
      · rename_i a' b r _ _ heq
        cases heq
        simp [isChar_not_lead ha]
      · rename_i heq; cases heq; rfl
      · rename_i heq; cases heq
    have e2 : Parse.nameChar (a :: rest) = some (a, rest) := by
      unfold Parse.nameChar
      simp [ha, hbs]
    rw [e1, e2]

/-! ## The name loops -/

theorem esNameChar_plain {a : Nat} (rest : List Nat) (hbs : a ≠ 0x5C) (ha : Parse.isChar a = true) :
    ESG.nameChar (a :: rest) = some (a, rest) := by
  unfold ESG.nameChar
  split
  · rename_i heq; cases heq; exact absurd rfl hbs
  · rename_i heq; cases heq; exact absurd rfl hbs
  · rename_i a' b r _ _ heq
    cases heq
    simp [isChar_not_lead ha]
  · rename_i heq; cases heq; rfl
  · rename_i heq; cases heq

/-- What a checked name character consumes is neutral for the scanners (in both modes). -/
theorem ckE_neutral (F : Feat) (m : Nat) {P : Nat → Bool} (hP : ∀ c, P c = true → Plain c) {s : List Nat}
    {c : Nat} {r : List Nat} (hs : AllChar s) (h : ckE P s = some (c, r)) :
    ∃ t, s = t ++ r ∧ NeutralM F m t := by
  unfold ckE at h
  split at h
  · rename_i c' r' hn
    split at h
    · rename_i hpc
      cases h
      rcases s with _ | ⟨a, rest⟩
      · simp [ESG.nameChar] at hn
      by_cases hbs : a = 0x5C
      · subst hbs
        rcases rest with _ | ⟨y, r0⟩
        · simp [ESG.nameChar] at hn
        · by_cases hy : y = 0x75
          · subst hy
            have e1 : ESG.nameChar (0x5C :: 0x75 :: r0) = uEscapeU r0 := by unfold ESG.nameChar; rfl
            rw [e1] at hn
            obtain ⟨t, ht, hnt⟩ := uEscapeU_neutral F m hn
            exact ⟨[0x5C, 0x75] ++ t, by rw [ht]; simp, neutralM_append (neutralM_esc F m 0x75) hnt⟩
          · unfold ESG.nameChar at hn
            simp [hy] at hn
      · have e1 : ESG.nameChar (a :: rest) = some (a, rest) := by
          unfold ESG.nameChar
          split
          · rename_i heq; cases heq; exact absurd rfl hbs
          · rename_i heq; cases heq; exact absurd rfl hbs
          · rename_i a' b r _ _ heq
            cases heq
            simp [isChar_not_lead hs.head]
          · rename_i heq; cases heq; rfl
          · rename_i heq; cases heq
        rw [e1] at hn
        cases hn
        exact ⟨[c], rfl, neutralM_plain F m (hP c hpc)⟩
    · cases h
  · cases h

theorem ckE_len {P : Nat → Bool} {s : List Nat} {c : Nat} {r : List Nat} (h : ckE P s = some (c, r)) :
    r.length < s.length := by
  unfold ckE at h
  split at h
  · rename_i c' r' hn
    split at h
    · cases h; exact nameChar_len _ _ _ hn
    · cases h
  · cases h

theorem gn_gt (t : Tabs) (fuel : Nat) (r acc : List Nat) :
    groupNameGo t (fuel + 1) (0x3E :: r) acc = if acc.isEmpty then none else some (acc.reverse, r) := by
  rw [groupNameGo]

theorem gn_other (t : Tabs) (fuel : Nat) {s : List Nat} (acc : List Nat) (hs : ∀ r, s ≠ 0x3E :: r) :
    groupNameGo t (fuel + 1) s acc =
      match ckE (fun c => if acc.isEmpty then ESG.isIdStart t c else ESG.isIdPart t c) s with
      | some (c, r) => groupNameGo t fuel r (c :: acc)
      | none => none := by
  rw [groupNameGo]
  · unfold ckE
    cases ESG.nameChar s with
    | none => rfl
    | some p =>
      obtain ⟨c, r⟩ := p
      simp only
      cases acc.isEmpty <;> simp only [Bool.false_eq_true, if_false, if_true] <;> split <;> rfl
  · intro r h; exact hs r h

theorem nl_nil (fuel : Nat) (acc orig : List Nat) : nameLoop (fuel + 1) [] acc orig = .ok (none, orig) := by
  rw [nameLoop.eq_def]

theorem nl_gt (fuel : Nat) (r acc orig : List Nat) :
    nameLoop (fuel + 1) (0x3E :: r) acc orig = .ok (some acc, r) := by
  rw [nameLoop.eq_def]; rfl

theorem nl_other (fuel : Nat) {c0 : Nat} (rest0 acc orig : List Nat) (hc : c0 ≠ 0x3E) :
    nameLoop (fuel + 1) (c0 :: rest0) acc orig =
      match ckC Parse.isIdContinue (c0 :: rest0) with
      | some (c, r) => nameLoop fuel r (acc ++ [c]) orig
      | none => .ok (none, orig) := by
  rw [nameLoop.eq_def]
  have : (c0 == 0x3E) = false := by simp [hc]
  simp only [this, Bool.false_eq_true, if_false]
  unfold ckC
  cases Parse.nameChar (c0 :: rest0) with
  | none => rfl
  | some p => obtain ⟨c, r⟩ := p; simp only; split <;> rfl

theorem isIdPart_ckC : ckC Parse.isIdContinue = ckC (ESG.isIdPart tabs) := by
  have : Parse.isIdContinue = ESG.isIdPart tabs := funext isIdContinue_sim
  rw [this]

theorem isIdStart_ckC : ckC Parse.isIdStart = ckC (ESG.isIdStart tabs) := by
  have : Parse.isIdStart = ESG.isIdStart tabs := funext isIdStart_sim
  rw [this]

/-- The loops after the first name character. -/
theorem nameLoop_sim : ∀ (fe : Nat) (s acc : List Nat), acc ≠ [] → AllChar s → s.length < fe →
    ∀ (fc : Nat) (orig : List Nat), s.length < fc →
    match groupNameGo tabs fe s acc with
    | some (nm, r1) => nameLoop fc s acc.reverse orig = .ok (some nm, r1)
    | none => nameLoop fc s acc.reverse orig = .ok (none, orig) := by
  intro fe
  induction fe with
  | zero => intro s acc _ _ h; omega
  | succ fe ih =>
    intro s acc hacc hch hfe fc orig hfc
    obtain ⟨fc', rfl⟩ : ∃ fc', fc = fc' + 1 := ⟨fc - 1, by omega⟩
    have he : acc.isEmpty = false := by cases acc with | nil => exact absurd rfl hacc | cons _ _ => rfl
    rcases s with _ | ⟨c0, rest0⟩
    · rw [gn_other tabs fe acc (by intro r h; cases h), nl_nil]
      simp [ckE, ESG.nameChar]
    · by_cases hc : c0 = 0x3E
      · subst hc
        rw [gn_gt, nl_gt]; simp [he]
      · rw [gn_other tabs fe acc (by intro r h; cases h; exact hc rfl), nl_other fc' rest0 _ orig hc]
        simp only [he, Bool.false_eq_true, if_false]
        rw [isIdPart_ckC, ← ck_sim (ESG.isIdPart tabs) isIdPart_bs (fun v hv => isIdPart_surrogate hv) _ hch]
        cases hck : ckE (ESG.isIdPart tabs) (c0 :: rest0) with
        | none => rfl
        | some p =>
          obtain ⟨c, r⟩ := p
          simp only
          have hlen := ckE_len hck
          obtain ⟨p, hp, _⟩ := ckE_neutral { e := false, k := false } 0 (fun c h => isIdPart_plain tabs h) hch hck
          have hchr : AllChar r := by rw [hp] at hch; exact hch.append_right
          have := ih r (c :: acc) (by simp) hchr (by simp only [List.length_cons] at hfe hlen; omega) fc' orig
            (by simp only [List.length_cons] at hfc hlen; omega)
          simpa using this


/-- **Group names**: for input made of Unicode scalar values the crate reads the same name (with the
same rest) as the grammar, or both read none. -/
theorem groupName_sim (r : List Nat) (hch : AllChar r) :
    match groupName tabs r with
    | some (nm, r1) => tryConsumeName (0x3C :: r) = .ok (some nm, r1)
    | none => tryConsumeName (0x3C :: r) = .ok (none, r) := by
  have htc : tryConsumeName (0x3C :: r) =
      match ckC Parse.isIdStart r with
      | some (c, rest) => nameLoop (rest.length + 1) rest [c] r
      | none => .ok (none, r) := by
    unfold tryConsumeName ckC
    simp only
    cases Parse.nameChar r with
    | none => rfl
    | some p => obtain ⟨c, rest⟩ := p; simp only; split <;> rfl
  rw [htc, isIdStart_ckC, ← ck_sim (ESG.isIdStart tabs) isIdStart_bs (fun v hv => isIdStart_surrogate hv) r hch]
  unfold groupName
  by_cases hgt : ∃ r', r = 0x3E :: r'
  · obtain ⟨r', rfl⟩ := hgt
    rw [gn_gt]
    have : ckE (ESG.isIdStart tabs) (0x3E :: r') = none := by
      unfold ckE
      rw [esNameChar_plain r' (by decide) hch.head]
      have : ESG.isIdStart tabs 0x3E = false := by decide
      simp [this]
    rw [this]; rfl
  · rw [gn_other tabs _ [] (fun r' h => hgt ⟨r', h⟩)]
    simp only [List.isEmpty_nil, if_true]
    cases hck : ckE (ESG.isIdStart tabs) r with
    | none => rfl
    | some p =>
      obtain ⟨c, r'⟩ := p
      simp only
      have hlen := ckE_len hck
      obtain ⟨p, hp, _⟩ := ckE_neutral { e := false, k := false } 0 (fun c h => isIdStart_plain tabs h) hch hck
      have hchr : AllChar r' := by rw [hp] at hch; exact hch.append_right
      have := nameLoop_sim r.length r' [c] (by simp) hchr hlen (r'.length + 1) r (by omega)
      simpa using this


/-- What a group name (up to its `>`) consumes is neutral for the scanners. -/
theorem gnGo_neutral (F : Feat) (m : Nat) (t : Tabs) : ∀ (fuel : Nat) (s acc nm r1 : List Nat), AllChar s →
    groupNameGo t fuel s acc = some (nm, r1) → ∃ p, s = p ++ 0x3E :: r1 ∧ NeutralM F m p := by
  intro fuel
  induction fuel with
  | zero => intro s acc nm r1 _ h; simp [groupNameGo] at h
  | succ fuel ih =>
    intro s acc nm r1 hch h
    by_cases hgt : ∃ r', s = 0x3E :: r'
    · obtain ⟨r', rfl⟩ := hgt
      rw [gn_gt] at h
      split at h
      · cases h
      · cases h; exact ⟨[], rfl, neutralM_nil F m⟩
    · rw [gn_other t fuel acc (fun r' h => hgt ⟨r', h⟩)] at h
      cases hck : ckE (fun c => if acc.isEmpty then ESG.isIdStart t c else ESG.isIdPart t c) s with
      | none => rw [hck] at h; cases h
      | some p =>
        obtain ⟨c, r'⟩ := p
        rw [hck] at h
        simp only at h
        obtain ⟨t1, ht1, hn1⟩ := ckE_neutral F m (by
          intro c hc
          split at hc
          · exact isIdStart_plain t hc
          · exact isIdPart_plain t hc) hch hck
        have hchr : AllChar r' := by rw [ht1] at hch; exact hch.append_right
        obtain ⟨p2, hp2, hn2⟩ := ih r' _ nm r1 hchr h
        exact ⟨t1 ++ p2, by rw [ht1, hp2]; simp, neutralM_append hn1 hn2⟩

theorem groupName_neutral (F : Feat) (m : Nat) (t : Tabs) {r nm r1 : List Nat} (hch : AllChar r)
    (h : groupName t r = some (nm, r1)) : ∃ p, r = p ++ 0x3E :: r1 ∧ NeutralM F m p :=
  gnGo_neutral F m t _ r [] nm r1 hch h

/-- `namedAhead` in terms of the grammar's `groupName`. -/
theorem namedAhead_lt (r0 : List Nat) (hch : AllChar r0) :
    namedAhead (0x3C :: r0) = (groupName tabs r0).map (·.1) := by
  have := groupName_sim r0 hch
  unfold namedAhead
  cases hg : groupName tabs r0 with
  | none => rw [hg] at this; rw [this]; rfl
  | some p => obtain ⟨nm, r1⟩ := p; rw [hg] at this; rw [this]; rfl

/-- The whole of `<name>` is neutral outside a class. -/
theorem name_neutral (F : Feat) {r0 nm r1 : List Nat} (hch : AllChar r0)
    (h : groupName tabs r0 = some (nm, r1)) : ∃ p, 0x3C :: r0 = p ++ r1 ∧ Neutral F p := by
  obtain ⟨p, hp, hn⟩ := groupName_neutral F 0 tabs hch h
  refine ⟨0x3C :: (p ++ [0x3E]), by rw [hp]; simp, ?_⟩
  have h1 : Neutral F [0x3C] := neutral_plain F (by refine ⟨?_, ?_, ?_, ?_, ?_, ?_⟩ <;> decide)
  have h2 : Neutral F [0x3E] := neutral_plain F (by refine ⟨?_, ?_, ?_, ?_, ?_, ?_⟩ <;> decide)
  exact neutral_append (p := [0x3C]) h1 (neutral_append hn h2)

end Regress.C08Frag
