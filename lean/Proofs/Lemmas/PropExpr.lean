import RegressModel.Syntax.Parse
/-!
# Lemmas for `Proofs/PropExpr.lean`: the loop of `try_consume_unicode_property_escape`

`Props.consumeEscapeLoop us inp buf name` is the `while let Some(c) = self.peek()` loop of
`Parser::try_consume_unicode_property_escape` (`buf` = `buffer` as a packed name, `name` = the
property name seen before `=`).  Text is a list of code points.
-/
namespace Regress.PropExpr
open Regress Regress.Props

/-- A character the lexer accepts inside a name or value: `c.is_ascii_alphanumeric() || c == '_'`. -/
def PChar (c : Nat) : Bool := isAsciiAlnum c || c == 0x5F

/-- `buffer` after pushing the characters of `l` (`Packed.nameOfBytes` continues from `buf`;
the empty buffer is `1`). -/
def enc (buf : Nat) (l : List Nat) : Nat := l.foldl (fun b c => b * 256 + c) buf

theorem PChar_ne_close {c : Nat} (h : PChar c = true) : c ≠ 0x7D := by
  intro hc; subst hc; simp [PChar, isAsciiAlnum] at h

theorem PChar_ne_eq {c : Nat} (h : PChar c = true) : c ≠ 0x3D := by
  intro hc; subst hc; simp [PChar, isAsciiAlnum] at h

theorem eq_not_PChar : PChar 0x3D = false := by decide

/-- After the `=` (`name = some n`) a further `=` before the closing brace makes the loop fail:
the `'=' if name.is_none()` arm does not apply and `=` is not a name character. -/
theorem loop_some_eq_none (us : Bool) (tail : List Nat) (n : Nat) :
    ∀ (xs : List Nat) (buf : Nat), 0x3D ∈ xs → 0x7D ∉ xs →
      consumeEscapeLoop us (xs ++ 0x7D :: tail) buf (some n) = none := by
  intro xs
  induction xs with
  | nil => intro buf h; simp at h
  | cons c cs ih =>
    intro buf hmem hclose
    have hc : c ≠ 0x7D := fun h => hclose (by simp [h])
    have hcs : 0x7D ∉ cs := fun h => hclose (by simp [h])
    simp only [List.cons_append, consumeEscapeLoop, beq_iff_eq, hc, if_false, Option.isNone_some,
      Bool.and_false, Bool.false_eq_true]
    split
    · rename_i hp
      have hne : c ≠ 0x3D := PChar_ne_eq (by simpa [PChar] using hp)
      exact ih _ (by simpa [hne.symm] using hmem) hcs
    · rfl

/-- Two `=` before the closing brace make the loop fail, from any state. -/
theorem loop_two_eq_none (us : Bool) (tail : List Nat) :
    ∀ (xs : List Nat) (buf : Nat) (name : Option Nat), 2 ≤ xs.count 0x3D → 0x7D ∉ xs →
      consumeEscapeLoop us (xs ++ 0x7D :: tail) buf name = none := by
  intro xs
  induction xs with
  | nil => intro buf name h; simp at h
  | cons c cs ih =>
    intro buf name hcount hclose
    have hc : c ≠ 0x7D := fun h => hclose (by simp [h])
    have hcs : 0x7D ∉ cs := fun h => hclose (by simp [h])
    by_cases he : c = 0x3D
    · subst he
      have h1 : 1 ≤ cs.count 0x3D := by simpa using hcount
      have hmem : 0x3D ∈ cs := List.count_pos_iff.mp h1
      cases name with
      | some n => exact loop_some_eq_none us tail n (0x3D :: cs) buf (by simp) hclose
      | none =>
        simp only [List.cons_append, consumeEscapeLoop]
        simp only [show ((0x3D : Nat) == 0x7D) = false by decide, Bool.false_eq_true, if_false,
          beq_self_eq_true, Option.isNone_none, Bool.and_self, if_true]
        split
        · exact loop_some_eq_none us tail _ cs 1 hmem hcs
        · rfl
    · have hcount' : 2 ≤ cs.count 0x3D := by
        rw [List.count_cons_of_ne (by exact fun h => he h)] at hcount; exact hcount
      have hbe : (c == 0x3D) = false := by simpa using he
      simp only [List.cons_append, consumeEscapeLoop, beq_iff_eq, hc, if_false, hbe, Bool.false_and,
        Bool.false_eq_true]
      split
      · exact ih _ _ hcount' hcs
      · rfl

/-- What a successful run of the loop has read: `body }`, where `body` is either name characters
only (looked up with the `name` the loop started with), or -- only if no `=` had been seen --
`nm = val` with `nm` a property name. -/
theorem loop_shape (us : Bool) :
    ∀ (inp : List Nat) (buf : Nat) (name : Option Nat) (k : Kind) (rest : List Nat),
      consumeEscapeLoop us inp buf name = some (k, rest) →
      ∃ body, inp = body ++ 0x7D :: rest ∧
        ((body.all PChar = true ∧ propertyFromStr (enc buf body) name us = some k) ∨
         (name = none ∧ ∃ nm val n, body = nm ++ 0x3D :: val ∧ nm.all PChar = true ∧
            val.all PChar = true ∧ propertyNameFromStr (enc buf nm) = some n ∧
            propertyFromStr (enc 1 val) (some n) us = some k)) := by
  intro inp
  induction inp with
  | nil => intro buf name k rest h; simp [consumeEscapeLoop] at h
  | cons c cs ih =>
    intro buf name k rest h
    unfold consumeEscapeLoop at h
    split at h
    · rename_i hc
      simp only [beq_iff_eq] at hc; subst hc
      split at h
      · rename_i k' hk
        cases h
        exact ⟨[], rfl, .inl ⟨rfl, hk⟩⟩
      · cases h
    · split at h
      · rename_i hc
        simp only [Bool.and_eq_true, beq_iff_eq, Option.isNone_iff_eq_none] at hc
        obtain ⟨hc, hn⟩ := hc
        subst hc; subst hn
        split at h
        · rename_i n hn
          obtain ⟨body, hb, hshape⟩ := ih _ _ _ _ h
          rcases hshape with ⟨hall, hk⟩ | ⟨hnone, _⟩
          · exact ⟨0x3D :: body, by simp [hb], .inr ⟨rfl, [], body, n, rfl, rfl, hall, hn, hk⟩⟩
          · cases hnone
        · cases h
      · split at h
        · rename_i hp
          have hp' : PChar c = true := by simpa [PChar] using hp
          obtain ⟨body, hb, hshape⟩ := ih _ _ _ _ h
          refine ⟨c :: body, by simp [hb], ?_⟩
          rcases hshape with ⟨hall, hk⟩ | ⟨hnone, nm, val, n, hbody, hnm, hval, hn, hk⟩
          · exact .inl ⟨by simp [hp', hall], hk⟩
          · exact .inr ⟨hnone, c :: nm, val, n, by simp [hbody], by simp [hp', hnm], hval, hn, hk⟩
        · cases h

end Regress.PropExpr
