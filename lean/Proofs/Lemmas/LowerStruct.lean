import Proofs.Lemmas.LowerRev
/-!
# ES specification ⇒ IR semantics: groups, look-arounds, sequences

Simulation lemmas for the constructs that carry a sub-matcher: capture groups (both directions),
look-ahead / look-behind (positive and negative), and the two accumulating compilers of the
specification (`compileAlternative` is left recursive: it is unfolded here into "first term, then
the rest" forward and "the rest, then first term" backward).
-/
namespace Regress.Lower

open Regress Regress.IR Regress.VM Regress.Parse

/-! ## Order of positions -/

theorem idx_le_of_adv_fwd {inp : Input} {cs : List Nat} {x y : ES.State} {st s : St} (hx : Rel cs x st)
    (hy : Rel cs y s) (h : WeakAdv inp true st.pos s.pos) : x.endIndex ≤ y.endIndex := by
  rcases Nat.lt_or_ge y.endIndex x.endIndex with hlt | hge
  · have := (Utf8.off_lt_iff hy.idx hx.idx).2 hlt
    rw [← hy.pos, ← hx.pos] at this
    rcases h with h | h
    · omega
    · simp [Adv] at h; omega
  · exact hge

theorem idx_le_of_adv_bwd {inp : Input} {cs : List Nat} {x y : ES.State} {st s : St} (hx : Rel cs x st)
    (hy : Rel cs y s) (h : WeakAdv inp false st.pos s.pos) : y.endIndex ≤ x.endIndex := by
  rcases Nat.lt_or_ge x.endIndex y.endIndex with hlt | hge
  · have := (Utf8.off_lt_iff hx.idx hy.idx).2 hlt
    rw [← hy.pos, ← hx.pos] at this
    rcases h with h | h
    · omega
    · simp [Adv] at h; omega
  · exact hge

/-! ## Capture groups -/

/-- `Atom :: ( GroupSpecifier? Disjunction )`, as `compileNode` builds it. -/
def groupMatcher (m : ES.Matcher) (back : Bool) (pi : Nat) : ES.Matcher :=
  ⟨fun fuel x c =>
    m.run fuel x (fun y =>
      c { endIndex := y.endIndex
          captures := ES.setCapture y.captures (pi + 1)
            (some (if dirOf back = .forward then (x.endIndex, y.endIndex) else (y.endIndex, x.endIndex))) })⟩

theorem sim_group {inp : Input} {cs : List Nat} (total : Nat) (m : ES.Matcher) (body : Node) (back : Bool)
    (pi hi : Nat) (name : Option (List Nat))
    (hbody : Sim inp cs total m body (!back) (pi + 1) hi)
    (hin : InRange (pi + 1) hi body) (hhi : pi + 1 ≤ hi) :
    Sim inp cs total (groupMatcher m back pi) (.group pi name body) (!back) pi hi := by
  intro fuel x st c k hr hl hf hc
  have hpi : st.caps[pi]? = some (none, none) := hf.2 pi (Nat.le_refl _) (by omega)
  cases back with
  | false =>
    simp only [Bool.not_false, sem, if_true, groupMatcher, dirOf_false] at hc ⊢
    rw [findSome?_map']
    have hr' : Rel cs x (st.setStart pi st.pos) := hr.setStart_open st.pos hpi
    have hfr0 : Frame pi (pi + 1) st (st.setStart pi st.pos) := frame_setStart st pi st.pos pi (pi + 1) (by omega) (by omega)
    have hf' : Fresh (st.setStart pi st.pos) (pi + 1) hi := (hf.mono (by omega) (Nat.le_refl _)).of_frame hfr0 (Or.inr (Nat.le_refl _))
    apply hbody fuel x _ _ _ hr' (by simpa using hl) hf'
    intro y s hs hys
    have hfs := sem_frame inp (pi + 1) hi body true _ s hin hs
    have hcap : s.caps[pi]? = some (some (Utf8.off cs x.endIndex), none) := by
      rw [hfs.2 pi (Or.inl (by omega))]
      simp only [St.setStart]
      rw [modify_getElem?_eq _ _ hpi, hr.pos]
    have hadv := sem_adv inp body true _ s hs
    have hle : x.endIndex ≤ y.endIndex := idx_le_of_adv_fwd hr' hys hadv
    exact hc _ _ (List.mem_map.2 ⟨s, hs, rfl⟩) (hys.close_fwd hcap hle)
  | true =>
    simp only [Bool.not_true, sem, Bool.false_eq_true, if_false, groupMatcher, dirOf_true, reduceCtorEq] at hc ⊢
    rw [findSome?_map']
    have hr' : Rel cs x (st.setEnd pi st.pos) := hr.setEnd_open st.pos hpi
    have hfr0 : Frame pi (pi + 1) st (st.setEnd pi st.pos) := frame_setEnd st pi st.pos pi (pi + 1) (by omega) (by omega)
    have hf' : Fresh (st.setEnd pi st.pos) (pi + 1) hi := (hf.mono (by omega) (Nat.le_refl _)).of_frame hfr0 (Or.inr (Nat.le_refl _))
    apply hbody fuel x _ _ _ hr' (by simpa using hl) hf'
    intro y s hs hys
    have hfs := sem_frame inp (pi + 1) hi body false _ s hin hs
    have hcap : s.caps[pi]? = some (none, some (Utf8.off cs x.endIndex)) := by
      rw [hfs.2 pi (Or.inl (by omega))]
      simp only [St.setEnd]
      rw [modify_getElem?_eq _ _ hpi, hr.pos]
    have hadv := sem_adv inp body false _ s hs
    have hle : y.endIndex ≤ x.endIndex := idx_le_of_adv_bwd hr' hys hadv
    exact hc _ _ (List.mem_map.2 ⟨s, hs, rfl⟩) (hys.close_bwd hcap hle hr.idx)

/-! ## Look-arounds -/

theorem sim_look_pos {inp : Input} {cs : List Nat} (total : Nat) (m : ES.Matcher) (body : Node)
    (ahead fwd : Bool) (lo hi sg eg : Nat) (hbody : Sim inp cs total m body ahead lo hi) :
    Sim inp cs total (ES.positiveLookMatcher m) (.look false (!ahead) sg eg body) fwd lo hi := by
  intro fuel x st c k hr hl hf hc
  have hb := hbody fuel x st (fun y => .success y) some hr hl hf
    (fun y s _ hys => ⟨s, rfl, hys⟩)
  rw [← head?_eq_findSome?] at hb
  simp only [sem, Bool.not_not] at hc ⊢
  simp only [ES.positiveLookMatcher]
  cases hrun : m.run fuel x (fun y => .success y) with
  | outOfFuel => trivial
  | failure =>
    rw [hrun] at hb
    simp only [ResRel] at hb
    have : sem inp body ahead st = [] := List.head?_eq_none_iff.1 hb
    rw [this]; rfl
  | success y =>
    rw [hrun] at hb
    obtain ⟨s, hs, hys⟩ := hb
    cases hsem : sem inp body ahead st with
    | nil => rw [hsem] at hs; cases hs
    | cons s0 t =>
      rw [hsem] at hs hc
      simp only [List.head?_cons, Option.some.injEq] at hs
      subst hs
      simp only [Bool.false_eq_true, if_false, findSome?_single] at hc ⊢
      exact hc _ _ (by simp) (hr.look hys)

theorem sim_look_neg {inp : Input} {cs : List Nat} (total : Nat) (m : ES.Matcher) (body : Node)
    (ahead fwd : Bool) (lo hi sg eg : Nat) (hbody : Sim inp cs total m body ahead lo hi) :
    Sim inp cs total (ES.negativeLookMatcher m) (.look true (!ahead) sg eg body) fwd lo hi := by
  intro fuel x st c k hr hl hf hc
  have hb := hbody fuel x st (fun y => .success y) some hr hl hf
    (fun y s _ hys => ⟨s, rfl, hys⟩)
  rw [← head?_eq_findSome?] at hb
  simp only [sem, Bool.not_not] at hc ⊢
  simp only [ES.negativeLookMatcher]
  cases hrun : m.run fuel x (fun y => .success y) with
  | outOfFuel => trivial
  | failure =>
    rw [hrun] at hb
    simp only [ResRel] at hb
    have : sem inp body ahead st = [] := List.head?_eq_none_iff.1 hb
    rw [this] at hc ⊢
    simp only [if_true, findSome?_single] at hc ⊢
    exact hc _ _ (by simp) hr
  | success y =>
    rw [hrun] at hb
    obtain ⟨s, hs, _⟩ := hb
    cases hsem : sem inp body ahead st with
    | nil => rw [hsem] at hs; cases hs
    | cons s0 t => simp [ResRel]

/-! ## `compileAlternative` unfolded -/

theorem compileAlternative_fwd (input : Array Nat) (pattern : ES.Node) (rer : ES.RER) :
    ∀ (ts : List ES.Node) (acc : ES.Matcher) (pi fuel : Nat) (x : ES.State) (c : ES.Cont),
      (ES.compileAlternative input pattern acc ts rer .forward pi).run fuel x c =
        acc.run fuel x (fun y => (ES.compileAlternative input pattern ES.emptyMatcher ts rer .forward pi).run fuel y c)
  | [], acc, pi, fuel, x, c => by simp [ES.compileAlternative, ES.emptyMatcher]
  | t :: ts, acc, pi, fuel, x, c => by
    simp only [ES.compileAlternative]
    rw [compileAlternative_fwd input pattern rer ts]
    simp only [ES.matchSequence]
    congr 1
    funext y
    rw [compileAlternative_fwd input pattern rer ts ⟨fun fuel x c =>
      ES.emptyMatcher.run fuel x fun y => (ES.compileNode input pattern t rer .forward pi).run fuel y c⟩]
    simp [ES.emptyMatcher]

theorem compileAlternative_bwd (input : Array Nat) (pattern : ES.Node) (rer : ES.RER) :
    ∀ (ts : List ES.Node) (acc : ES.Matcher) (pi fuel : Nat) (x : ES.State) (c : ES.Cont),
      (ES.compileAlternative input pattern acc ts rer .backward pi).run fuel x c =
        (ES.compileAlternative input pattern ES.emptyMatcher ts rer .backward pi).run fuel x
          (fun y => acc.run fuel y c)
  | [], acc, pi, fuel, x, c => by simp [ES.compileAlternative, ES.emptyMatcher]
  | t :: ts, acc, pi, fuel, x, c => by
    simp only [ES.compileAlternative]
    rw [compileAlternative_bwd input pattern rer ts,
      compileAlternative_bwd input pattern rer ts (ES.matchSequence ES.emptyMatcher _ _)]
    simp [ES.matchSequence, ES.emptyMatcher]

/-- forward: first term, then the rest -/
theorem compileAlternative_cons_fwd (input : Array Nat) (pattern : ES.Node) (rer : ES.RER) (t : ES.Node)
    (ts : List ES.Node) (pi fuel : Nat) (x : ES.State) (c : ES.Cont) :
    (ES.compileAlternative input pattern ES.emptyMatcher (t :: ts) rer .forward pi).run fuel x c =
      (ES.compileNode input pattern t rer .forward pi).run fuel x (fun y =>
        (ES.compileAlternative input pattern ES.emptyMatcher ts rer .forward (pi + ES.countParens t)).run fuel y c) := by
  simp only [ES.compileAlternative]
  rw [compileAlternative_fwd]
  simp [ES.matchSequence, ES.emptyMatcher]

/-- backward: the rest, then the first term -/
theorem compileAlternative_cons_bwd (input : Array Nat) (pattern : ES.Node) (rer : ES.RER) (t : ES.Node)
    (ts : List ES.Node) (pi fuel : Nat) (x : ES.State) (c : ES.Cont) :
    (ES.compileAlternative input pattern ES.emptyMatcher (t :: ts) rer .backward pi).run fuel x c =
      (ES.compileAlternative input pattern ES.emptyMatcher ts rer .backward (pi + ES.countParens t)).run fuel x
        (fun y => (ES.compileNode input pattern t rer .backward pi).run fuel y c) := by
  simp only [ES.compileAlternative]
  rw [compileAlternative_bwd]
  simp [ES.matchSequence, ES.emptyMatcher]

/-! ## Flags -/

/-- The RegExp Record of the specification against the parser's flags. -/
structure FlagsRel (rer : ES.RER) (fl : IR.Flags) : Prop where
  icase : rer.ignoreCase = fl.icase
  multiline : rer.multiline = fl.multiline
  dotAll : rer.dotAll = fl.dotAll
  unicode : rer.hasEitherUnicodeFlag = fl.unicode
  unicodeSets : rer.unicodeSets = fl.unicodeSets

theorem FlagsRel.ofFlags (f : ES.Flags) (n : Nat) : FlagsRel (ES.RER.ofFlags f n) (irFlags f) :=
  ⟨rfl, rfl, rfl, rfl, rfl⟩

theorem FlagsRel.mods {rer : ES.RER} {fl : IR.Flags} (h : FlagsRel rer fl) (add rem : ES.Mods) :
    FlagsRel (ES.updateModifiers rer add rem) (applyMods fl (modsOf add rem)) := by
  obtain ⟨h1, h2, h3, h4, h5⟩ := h
  refine ⟨?_, ?_, ?_, ?_, ?_⟩
  · simp only [ES.updateModifiers, applyMods, modsOf]
    cases add.i <;> cases rem.i <;> cases add.m <;> cases rem.m <;> cases add.s <;> cases rem.s <;> simp [h1]
  · simp only [ES.updateModifiers, applyMods, modsOf]
    cases add.i <;> cases rem.i <;> cases add.m <;> cases rem.m <;> cases add.s <;> cases rem.s <;> simp [h2]
  · simp only [ES.updateModifiers, applyMods, modsOf]
    cases add.i <;> cases rem.i <;> cases add.m <;> cases rem.m <;> cases add.s <;> cases rem.s <;> simp [h3]
  · simp only [ES.updateModifiers, applyMods, modsOf, ES.RER.hasEitherUnicodeFlag] at h4 ⊢
    cases add.i <;> cases rem.i <;> cases add.m <;> cases rem.m <;> cases add.s <;> cases rem.s <;> simp [h4]
  · simp only [ES.updateModifiers, applyMods, modsOf]
    cases add.i <;> cases rem.i <;> cases add.m <;> cases rem.m <;> cases add.s <;> cases rem.s <;> simp [h5]

/-! ## Group numbers of named groups -/

mutual
theorem namedGroups_bound : ∀ (n : ES.Node) (pi : Nat) (p : List Nat × Nat), p ∈ ES.namedGroups n pi →
    pi + 1 ≤ p.2 ∧ p.2 ≤ pi + ES.countParens n
  | .group _ name n, pi, p, h => by
    simp only [ES.namedGroups, List.mem_append] at h
    simp only [ES.countParens]
    rcases h with h | h
    · cases name with
      | none => simp at h
      | some nm => simp at h; subst h; simp
    · have := namedGroups_bound n (pi + 1) p h; omega
  | .cat ns, pi, p, h => by
    simp only [ES.namedGroups] at h; simp only [ES.countParens]; exact namedGroupsList_bound ns pi p h
  | .alt ns, pi, p, h => by
    simp only [ES.namedGroups] at h; simp only [ES.countParens]; exact namedGroupsList_bound ns pi p h
  | .nc n, pi, p, h => by
    simp only [ES.namedGroups] at h; simp only [ES.countParens]; exact namedGroups_bound n pi p h
  | .mod _ _ n, pi, p, h => by
    simp only [ES.namedGroups] at h; simp only [ES.countParens]; exact namedGroups_bound n pi p h
  | .look _ _ n, pi, p, h => by
    simp only [ES.namedGroups] at h; simp only [ES.countParens]; exact namedGroups_bound n pi p h
  | .quant _ _ _ n, pi, p, h => by
    simp only [ES.namedGroups] at h; simp only [ES.countParens]; exact namedGroups_bound n pi p h
  | .empty, _, _, h => by simp [ES.namedGroups] at h
  | .char _, _, _, h => by simp [ES.namedGroups] at h
  | .dot, _, _, h => by simp [ES.namedGroups] at h
  | .bol, _, _, h => by simp [ES.namedGroups] at h
  | .eol, _, _, h => by simp [ES.namedGroups] at h
  | .wb, _, _, h => by simp [ES.namedGroups] at h
  | .nwb, _, _, h => by simp [ES.namedGroups] at h
  | .bref _, _, _, h => by simp [ES.namedGroups] at h
  | .nref _, _, _, h => by simp [ES.namedGroups] at h
  | .esc _, _, _, h => by simp [ES.namedGroups] at h
  | .prop _ _ _, _, _, h => by simp [ES.namedGroups] at h
  | .cls _ _, _, _, h => by simp [ES.namedGroups] at h
  | .vcls _ _ _, _, _, h => by simp [ES.namedGroups] at h
theorem namedGroupsList_bound : ∀ (ns : List ES.Node) (pi : Nat) (p : List Nat × Nat),
    p ∈ ES.namedGroupsList ns pi → pi + 1 ≤ p.2 ∧ p.2 ≤ pi + ES.countParensList ns
  | [], _, _, h => by simp [ES.namedGroupsList] at h
  | n :: ns, pi, p, h => by
    simp only [ES.namedGroupsList, List.mem_append] at h
    simp only [ES.countParensList]
    rcases h with h | h
    · have := namedGroups_bound n pi p h; omega
    · have := namedGroupsList_bound ns (pi + ES.countParens n) p h; omega
end

theorem groupSpecifiers_bound (pattern : ES.Node) (name : List Nat) (i : Nat)
    (h : i ∈ ES.groupSpecifiersThatMatch pattern name) : 1 ≤ i ∧ i ≤ ES.countParens pattern := by
  simp only [ES.groupSpecifiersThatMatch, List.mem_filterMap] at h
  obtain ⟨p, hp, hi⟩ := h
  have := namedGroups_bound pattern 0 p hp
  split at hi
  · simp at hi; omega
  · cases hi

/-! ## The statement about one node -/

/-- What is proved about one node and its finalized IR. -/
def NodeSim (inp : Input) (cs : List Nat) (total : Nat) (pattern : ES.Node) (n : ES.Node) (rer : ES.RER)
    (pi : Nat) (back : Bool) (ir ir' : Node) : Prop :=
  Sim inp cs total (ES.compileNode cs.toArray pattern n rer (dirOf back) pi) ir' (!back) pi
      (pi + ES.countParens n) ∧
    InRange pi (pi + ES.countParens n) ir' ∧ numGroups ir' = ES.countParens n ∧
    (back = false → hasLookbehind n = false → ir' = ir)

theorem NodeSim.leaf {inp : Input} {cs : List Nat} {total : Nat} {pattern n : ES.Node} {rer : ES.RER} {pi : Nat}
    {back : Bool} {ir : Node} (hrv : Parse.reverseCats back ir = .ok ir) (hc : ES.countParens n = 0)
    (hng : numGroups ir = 0) (hin : InRange pi pi ir)
    (h : Sim inp cs total (ES.compileNode cs.toArray pattern n rer (dirOf back) pi) ir (!back) pi pi) :
    ∃ ir', Parse.reverseCats back ir = .ok ir' ∧ NodeSim inp cs total pattern n rer pi back ir ir' :=
  ⟨ir, hrv, by rw [NodeSim, hc]; exact ⟨h, hin, hng, fun _ _ => rfl⟩⟩


end Regress.Lower
