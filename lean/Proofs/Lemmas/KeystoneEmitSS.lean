import Proofs.Lemmas.KeystoneCode
/-!
# Keystone, part 4a: `emit_string_set`

The block that `emitStringSet emitPiece` appends: for every alternative but the last
`Alt next; <code points>; Jump end`, then the code points of the last alternative
(`strSetInsns`), every `Jump` patched to the end of the block.
-/
namespace Regress.Keystone

open Regress.VM Regress.IR Regress.Gen

/-- `s'` is `s` with the block `c` appended to the instructions. -/
def Block (s s' : EmitState) (c : List Insn) : Prop :=
  s' = { s with insns := s.insns ++ c.toArray }

theorem Block.nil (s : EmitState) : Block s s [] := by simp [Block]

theorem Block.emitInsn (i : Insn) (s : EmitState) : Block s (emitInsn i s) [i] := by
  simp [Block, VM.emitInsn]

theorem Block.trans {a b c : EmitState} {x y : List Insn} (h1 : Block a b x) (h2 : Block b c y) :
    Block a c (x ++ y) := by
  unfold Block at *
  rw [h2, h1]
  simp [Array.append_assoc]

theorem Block.size {s s' : EmitState} {c : List Insn} (h : Block s s' c) :
    s'.insns.size = s.insns.size + c.length := by
  rw [h]; simp

theorem Block.uni {s s' : EmitState} {c : List Insn} (h : Block s s' c) : s'.unicode = s.unicode := by
  rw [h]

theorem Block.lb {s s' : EmitState} {c : List Insn} (h : Block s s' c) : s'.inLookbehind = s.inLookbehind := by
  rw [h]

theorem emitAll_block {α} (f : α → EmitM) (g : α → List Insn) :
    ∀ (as : List α) (s s' : EmitState), (∀ a ∈ as, ∀ s s', f a s = .ok s' → Block s s' (g a)) →
      emitAll f as s = .ok s' → Block s s' (as.flatMap g)
  | [], s, s', _, h => by simp only [emitAll] at h; cases h; exact Block.nil s
  | a :: as, s, s', hf, h => by
    simp only [emitAll] at h
    split at h
    · cases h
    · rename_i s1 h1
      rw [List.flatMap_cons]
      exact (hf a (by simp) s s1 h1).trans
        (emitAll_block f g as s1 s' (fun b hb => hf b (by simp [hb])) h)

theorem emitByteSetInsn_ok {bytes : List Nat} {s s' : EmitState} (h : emitByteSetInsn bytes s = .ok s') :
    ∃ i, byteSetInsn bytes = some i ∧ s' = emitInsn i s := by
  unfold emitByteSetInsn at h
  unfold byteSetInsn
  split at h <;> rename_i hl <;> simp only [hl] <;> first | (cases h; exact ⟨_, rfl, rfl⟩) | cases h

theorem emitCharSet_ok {chars : List Nat} {s s' : EmitState} (h : emitCharSet chars s = .ok s') :
    ∃ i, charSetInsn chars = some i ∧ s' = emitInsn i s := by
  unfold emitCharSet at h
  unfold charSetInsn
  split at h
  · cases h; exact ⟨_, rfl, rfl⟩
  · split at h
    · cases h
    · rename_i hl
      cases h
      exact ⟨_, by dsimp only; rw [if_neg hl], rfl⟩

theorem emitByteSequence_ok {bytes : List Nat} {s s' : EmitState} (h : emitByteSequence bytes s = .ok s') :
    Block s s' ((bytesChunks s.inLookbehind bytes).map Insn.byteSeq) := by
  have key : ∀ (cs : List (List Nat)) (s s' : EmitState), emitAll emitByteSequenceInsn cs s = .ok s' →
      Block s s' (cs.map Insn.byteSeq) := by
    intro cs s s' h
    have := emitAll_block emitByteSequenceInsn (fun c => [Insn.byteSeq c]) cs s s' (fun a _ s s' h => by
      unfold emitByteSequenceInsn at h
      split at h
      · cases h; exact Block.emitInsn _ s
      · cases h) h
    have e : ∀ cs : List (List Nat), cs.flatMap (fun c => [Insn.byteSeq c]) = cs.map Insn.byteSeq := by
      intro cs
      induction cs with
      | nil => rfl
      | cons a t ih => simp [ih]
    rwa [e] at this
  unfold emitByteSequence at h
  unfold bytesChunks
  cases hlb : s.inLookbehind with
  | true => simp only [hlb, if_true] at h ⊢; exact key _ _ _ h
  | false => simp only [hlb, Bool.false_eq_true, if_false] at h ⊢; exact key _ _ _ h

/-! ## Pieces -/

theorem emitPiece_ok {p : Piece} {s s' : EmitState} (h : emitPiece p s = .ok s') :
    ∃ c, pieceInsns s.inLookbehind p = some c ∧ Block s s' c := by
  cases p with
  | char c =>
    simp only [emitPiece] at h; cases h
    exact ⟨_, rfl, Block.emitInsn _ s⟩
  | byteSequence bytes =>
    simp only [emitPiece] at h
    exact ⟨_, rfl, emitByteSequence_ok h⟩
  | byteSet bytes =>
    simp only [emitPiece] at h
    obtain ⟨i, hi, rfl⟩ := emitByteSetInsn_ok h
    exact ⟨[i], by simp [pieceInsns, hi], Block.emitInsn i s⟩
  | charSet chars =>
    simp only [emitPiece] at h
    obtain ⟨i, hi, rfl⟩ := emitCharSet_ok h
    exact ⟨[i], by simp [pieceInsns, hi], Block.emitInsn i s⟩

theorem emitPieces_ok : ∀ (ps : List Piece) (s s' : EmitState), emitAll emitPiece ps s = .ok s' →
    ∃ c, piecesInsns s.inLookbehind ps = some c ∧ Block s s' c
  | [], s, s', h => by
    simp only [emitAll] at h; cases h
    exact ⟨[], rfl, Block.nil s⟩
  | p :: ps, s, s', h => by
    simp only [emitAll] at h
    split at h
    · cases h
    · rename_i s1 h1
      obtain ⟨c1, hc1, hb1⟩ := emitPiece_ok h1
      obtain ⟨c2, hc2, hb2⟩ := emitPieces_ok ps s1 s' h
      rw [hb1.lb] at hc2
      exact ⟨c1 ++ c2, by simp [piecesInsns, hc1, hc2], hb1.trans hb2⟩

theorem emitCodePointSequence_ok {cps : List Nat} {icase : Bool} {s s' : EmitState}
    (h : emitCodePointSequence emitPiece cps icase s = .ok s') :
    ∃ c, cpsInsns s.unicode s.inLookbehind icase cps = some c ∧ Block s s' c := by
  unfold emitCodePointSequence at h
  unfold cpsInsns
  split at h
  · cases h
  · rename_i pieces hl
    rw [hl]
    exact emitPieces_ok _ s s' h

/-! ## The chain -/

/-- The code of the alternatives before the last one, placed at `b`, jumping to `e`. -/
def priorsCode (e : Nat) : Nat → List (List Insn) → List Insn
  | _, [] => []
  | b, c :: cs => [Insn.alt (b + c.length + 2)] ++ c ++ [Insn.jump e] ++ priorsCode e (b + c.length + 2) cs

/-- The positions of its `Jump`s. -/
def jumpPositions : Nat → List (List Insn) → List Nat
  | _, [] => []
  | b, c :: cs => (b + c.length + 1) :: jumpPositions (b + c.length + 2) cs

theorem priorsCode_length (e : Nat) : ∀ (b : Nat) (cs : List (List Insn)),
    (priorsCode e b cs).length = (priorsCode 0 b cs).length
  | _, [] => rfl
  | b, c :: cs => by simp [priorsCode, priorsCode_length e (b + c.length + 2) cs]

theorem strSetInsns_snoc (e : Nat) : ∀ (b : Nat) (cs : List (List Insn)) (cl : List Insn),
    strSetInsns e b (cs ++ [cl]) = priorsCode e b cs ++ cl
  | _, [], cl => by simp [strSetInsns, priorsCode]
  | b, c :: cs, cl => by
    have ih := strSetInsns_snoc e (b + c.length + 2) cs cl
    cases hcs : cs ++ [cl] with
    | nil => simp at hcs
    | cons x xs =>
      rw [hcs] at ih
      simp only [List.cons_append, hcs, strSetInsns, priorsCode, ih, List.append_assoc]

theorem set_mid (A : Array Insn) (P R : List Insn) (x y : Insn) :
    (A ++ (P ++ x :: R).toArray).set! (A.size + P.length) y = A ++ (P ++ y :: R).toArray := by
  apply Array.ext'
  simp only [Array.set!_eq_setIfInBounds, Array.toList_setIfInBounds, Array.toList_append]
  rw [← List.append_assoc, ← List.append_assoc]
  have : A.size + P.length = (A.toList ++ P).length := by simp
  rw [this, List.set_append_right _ _ (Nat.le_refl _)]
  simp

theorem get_mid (A : Array Insn) (P R : List Insn) (x : Insn) :
    (A ++ (P ++ x :: R).toArray)[A.size + P.length]? = some x := by
  rw [Array.getElem?_append]
  simp

theorem fixInsn_ok' {idx : Nat} {upd : Insn → Option Insn} {err : EmitErr} {s s' : EmitState}
    (h : fixInsn idx upd err s = .ok s') :
    ∃ insn insn', s.insns[idx]? = some insn ∧ upd insn = some insn' ∧
      s' = { s with insns := s.insns.set! idx insn' } := by
  unfold fixInsn at h
  split at h
  · cases h
  · rename_i insn hi
    split at h
    · cases h
    · rename_i insn' hu
      cases h
      exact ⟨insn, insn', hi, hu, rfl⟩

/-- The `for cps in priors` loop. -/
theorem emitStringSetPriors_ok (icase : Bool) : ∀ (priors : List (List Nat)) (fix : List Nat)
    (s s1 : EmitState) (fix1 : List Nat),
    emitStringSetPriors emitPiece icase priors fix s = .ok (s1, fix1) →
    ∃ codes, allSome (priors.map (cpsInsns s.unicode s.inLookbehind icase)) = some codes ∧
      Block s s1 (priorsCode 0 s.insns.size codes) ∧ fix1 = fix ++ jumpPositions s.insns.size codes
  | [], fix, s, s1, fix1, h => by
    simp only [emitStringSetPriors] at h
    cases h
    exact ⟨[], rfl, Block.nil s, by simp [jumpPositions]⟩
  | cps :: rest, fix, s, s1, fix1, h => by
    simp only [emitStringSetPriors, emitInsnOffset, nextOffset] at h
    split at h
    · cases h
    · rename_i sB hB
      split at h
      · cases h
      · rename_i sD hD
        obtain ⟨c, hc, hbB⟩ := emitCodePointSequence_ok hB
        obtain ⟨i, i', hi, hu, rfl⟩ := fixInsn_ok' hD
        have hsB : sB.insns = s.insns ++ (([] : List Insn) ++ Insn.alt 0 :: c).toArray := by
          rw [hbB]; simp [emitInsn]
        have hsC : (emitInsn (.jump 0) sB).insns = s.insns ++ (([] : List Insn) ++ Insn.alt 0 :: (c ++ [Insn.jump 0])).toArray := by
          simp [emitInsn, hsB]
        have hi' : i' = .alt (s.insns.size + c.length + 2) := by
          rw [hsC] at hi
          have := get_mid s.insns [] (c ++ [Insn.jump 0]) (.alt 0)
          simp only [List.length_nil, Nat.add_zero] at this
          rw [this] at hi; cases hi
          have hsz : (emitInsn (.jump 0) sB).insns.size = s.insns.size + c.length + 2 := by
            rw [hsC]; simp; omega
          simpa [setAltSecondary, hsz] using hu.symm
        subst hi'
        have hblk : Block s { emitInsn (.jump 0) sB with
            insns := (emitInsn (.jump 0) sB).insns.set! s.insns.size (.alt (s.insns.size + c.length + 2)) }
            ([Insn.alt (s.insns.size + c.length + 2)] ++ c ++ [Insn.jump 0]) := by
          unfold Block
          have := set_mid s.insns [] (c ++ [Insn.jump 0]) (.alt 0) (.alt (s.insns.size + c.length + 2))
          simp only [List.length_nil, Nat.add_zero] at this
          rw [hsC, this, hbB]
          simp [emitInsn]
        obtain ⟨codes, hcodes, hbR, hfix⟩ := emitStringSetPriors_ok icase rest _ _ s1 fix1 h
        have hsz : ({ emitInsn (.jump 0) sB with
            insns := (emitInsn (.jump 0) sB).insns.set! s.insns.size (.alt (s.insns.size + c.length + 2)) } :
            EmitState).insns.size = s.insns.size + c.length + 2 := by
          rw [hblk.size]; simp; omega
        rw [hsz] at hbR hfix
        have hu1 : ({ emitInsn (.jump 0) sB with
            insns := (emitInsn (.jump 0) sB).insns.set! s.insns.size (.alt (s.insns.size + c.length + 2)) } :
            EmitState).unicode = s.unicode := hblk.uni
        have hl1 : ({ emitInsn (.jump 0) sB with
            insns := (emitInsn (.jump 0) sB).insns.set! s.insns.size (.alt (s.insns.size + c.length + 2)) } :
            EmitState).inLookbehind = s.inLookbehind := hblk.lb
        rw [hu1, hl1] at hcodes
        refine ⟨c :: codes, ?_, ?_, ?_⟩
        · have hc' : cpsInsns s.unicode s.inLookbehind icase cps = some c := hc
          simp [allSome, hc', hcodes]
        · have := hblk.trans hbR
          simpa [priorsCode, List.append_assoc] using this
        · rw [hfix]
          have : sB.insns.size = s.insns.size + c.length + 1 := by rw [hsB]; simp; omega
          simp [jumpPositions, this]

/-- Patching the `Jump`s. -/
theorem fixJumps_ok (e : Nat) (X : List Insn) : ∀ (codes : List (List Insn)) (s0 s2 s' : EmitState),
    Block s0 s2 (priorsCode 0 s0.insns.size codes ++ X) →
    emitAll (fun jumpIdx => fixInsn jumpIdx (setJumpTarget e) .shouldBeJump)
      (jumpPositions s0.insns.size codes) s2 = .ok s' →
    Block s0 s' (priorsCode e s0.insns.size codes ++ X)
  | [], s0, s2, s', hb, h => by
    simp only [jumpPositions, emitAll] at h
    cases h
    simpa [priorsCode] using hb
  | c :: cs, s0, s2, s', hb, h => by
    simp only [jumpPositions, emitAll] at h
    split at h
    · cases h
    · rename_i s3 h3
      obtain ⟨i, i', hi, hu, rfl⟩ := fixInsn_ok' h3
      have hs2 : s2.insns = s0.insns ++
          ((Insn.alt (s0.insns.size + c.length + 2) :: c) ++ Insn.jump 0 ::
            (priorsCode 0 (s0.insns.size + c.length + 2) cs ++ X)).toArray := by
        rw [hb]; simp [priorsCode, List.append_assoc]
      have hidx : s0.insns.size + c.length + 1 = s0.insns.size + (Insn.alt (s0.insns.size + c.length + 2) :: c).length := by
        simp; omega
      have hi' : i' = .jump e := by
        rw [hs2, hidx, get_mid] at hi; cases hi
        simpa [setJumpTarget] using hu.symm
      subst hi'
      -- the prefix up to and including the patched `Jump`
      have hpre : Block s0 { s0 with insns := s0.insns ++
          ((Insn.alt (s0.insns.size + c.length + 2) :: c) ++ [Insn.jump e]).toArray }
          ([Insn.alt (s0.insns.size + c.length + 2)] ++ c ++ [Insn.jump e]) := by
        simp [Block]
      have hsz : ({ s0 with insns := s0.insns ++
          ((Insn.alt (s0.insns.size + c.length + 2) :: c) ++ [Insn.jump e]).toArray } : EmitState).insns.size =
          s0.insns.size + c.length + 2 := by simp; omega
      have hb3 : Block { s0 with insns := s0.insns ++
          ((Insn.alt (s0.insns.size + c.length + 2) :: c) ++ [Insn.jump e]).toArray }
          { s2 with insns := s2.insns.set! (s0.insns.size + c.length + 1) (.jump e) }
          (priorsCode 0 (s0.insns.size + c.length + 2) cs ++ X) := by
        unfold Block
        rw [hs2, hidx, set_mid, hb]
        simp [List.append_assoc]
      have ih := fixJumps_ok e X cs _ _ s' (by rw [hsz]; exact hb3) (by rw [hsz]; exact h)
      rw [hsz] at ih
      have := hpre.trans ih
      simpa [priorsCode, List.append_assoc] using this

theorem getLast_split {α} : ∀ (l : List α) (x : α), l.getLast? = some x → l = l.dropLast ++ [x]
  | [], _, h => by simp at h
  | [a], x, h => by simp at h; simp [h]
  | a :: b :: t, x, h => by
    have : (b :: t).getLast? = some x := by simpa [List.getLast?_cons_cons] using h
    have ih := getLast_split (b :: t) x this
    simp only [List.dropLast_cons_cons, List.cons_append]
    rw [← ih]

theorem allSome_append {α} : ∀ (l1 l2 : List (Option α)) (a b : List α),
    allSome l1 = some a → allSome l2 = some b → allSome (l1 ++ l2) = some (a ++ b)
  | [], l2, a, b, h1, h2 => by simp only [allSome] at h1; cases h1; simpa using h2
  | x :: l1, l2, a, b, h1, h2 => by
    cases x with
    | none => simp [allSome] at h1
    | some v =>
      cases hvs : allSome l1 with
      | none => simp [allSome, hvs] at h1
      | some vs =>
        simp only [allSome, hvs] at h1
        cases h1
        simp [allSome, allSome_append l1 l2 vs b hvs h2]

/-- **`emit_string_set`.** -/
theorem emitStringSet_ok {alts : List (List Nat)} {icase : Bool} {s s' : EmitState}
    (h : emitStringSet emitPiece alts icase s = .ok s') :
    ∃ codes, allSome (alts.map (cpsInsns s.unicode s.inLookbehind icase)) = some codes ∧
      Block s s' (strSetInsns s'.insns.size s.insns.size codes) := by
  unfold emitStringSet at h
  split at h
  · rename_i hl
    cases h
    have : alts = [] := by
      cases alts with
      | nil => rfl
      | cons a t => simp [List.getLast?_cons] at hl
    subst this
    exact ⟨[], rfl, by simpa [strSetInsns] using Block.emitInsn .justFail s⟩
  · rename_i last hl
    dsimp only at h
    split at h
    · cases h
    · rename_i s1 fixups hp
      split at h
      · cases h
      · rename_i s2 hlast
        obtain ⟨codes, hcodes, hb1, hfix⟩ := emitStringSetPriors_ok icase _ _ _ _ _ hp
        obtain ⟨cl, hcl, hb2⟩ := emitCodePointSequence_ok hlast
        rw [hb1.uni, hb1.lb] at hcl
        simp only [List.nil_append] at hfix
        subst hfix
        simp only [nextOffset] at h
        have hb12 := hb1.trans hb2
        have hfin := fixJumps_ok s2.insns.size cl codes s s2 s' hb12 h
        have hsz : s'.insns.size = s2.insns.size := by
          have h1 := hfin.size
          have h2 := hb12.size
          simp only [List.length_append] at h1 h2
          rw [priorsCode_length s2.insns.size] at h1
          omega
        refine ⟨codes ++ [cl], ?_, ?_⟩
        · have hsplit := getLast_split alts last hl
          rw [hsplit, List.map_append]
          exact allSome_append _ _ _ _ hcodes (by simp [allSome, hcl])
        · rw [strSetInsns_snoc, hsz]; exact hfin

end Regress.Keystone
