import Proofs.Lemmas.LowerLoop
/-!
# ES specification ⇒ IR semantics: `make_cat`, `make_alt`, `reverse_cats`

The semantics of what `make_cat` / `make_alt` build, and how `finalize`'s `Node::reverse_cats` walk
(`Parse.reverseCats`) commutes with them.
-/
namespace Regress.Lower

open Regress Regress.IR Regress.VM Regress.Parse

/-! ## `reverseCatsList` -/

theorem reverseCatsList_cons {b : Bool} {n : Node} {ns l : List Node} :
    reverseCatsList b (n :: ns) = .ok l ↔
      ∃ n' ns', reverseCats b n = .ok n' ∧ reverseCatsList b ns = .ok ns' ∧ l = n' :: ns' := by
  simp only [reverseCatsList]
  cases h1 : reverseCats b n <;> cases h2 : reverseCatsList b ns <;> simp
  exact eq_comm

theorem reverseCatsList_length {b : Bool} : ∀ {ns l : List Node}, reverseCatsList b ns = .ok l → l.length = ns.length
  | [], l, h => by simp [reverseCatsList] at h; subst h; rfl
  | n :: ns, l, h => by
    obtain ⟨n', ns', _, h2, rfl⟩ := reverseCatsList_cons.1 h
    simp [reverseCatsList_length h2]

theorem reverseCatsList_append {b : Bool} : ∀ {xs ys l1 l2 : List Node},
    reverseCatsList b xs = .ok l1 → reverseCatsList b ys = .ok l2 → reverseCatsList b (xs ++ ys) = .ok (l1 ++ l2)
  | [], ys, l1, l2, h1, h2 => by simp [reverseCatsList] at h1; subst h1; simpa using h2
  | x :: xs, ys, l1, l2, h1, h2 => by
    obtain ⟨n', ns', h3, h4, rfl⟩ := reverseCatsList_cons.1 h1
    rw [List.cons_append, reverseCatsList_cons]
    exact ⟨n', ns' ++ l2, h3, reverseCatsList_append h4 h2, rfl⟩

theorem reverseCatsList_split {b : Bool} : ∀ {xs ys l : List Node}, reverseCatsList b (xs ++ ys) = .ok l →
    ∃ l1 l2, reverseCatsList b xs = .ok l1 ∧ reverseCatsList b ys = .ok l2 ∧ l = l1 ++ l2
  | [], ys, l, h => ⟨[], l, by simp [reverseCatsList], by simpa using h, rfl⟩
  | x :: xs, ys, l, h => by
    rw [List.cons_append, reverseCatsList_cons] at h
    obtain ⟨n', ns', h3, h4, rfl⟩ := h
    obtain ⟨l1, l2, h5, h6, rfl⟩ := reverseCatsList_split h4
    exact ⟨n' :: l1, l2, reverseCatsList_cons.2 ⟨n', l1, h3, h5, rfl⟩, h6, rfl⟩

/-! ## `make_cat` -/

theorem sem_makeCat (inp : Input) (xs : List Node) (fwd : Bool) (st : St) :
    sem inp (makeCat xs) fwd st = semCat inp xs fwd st := by
  match xs with
  | [] => simp [makeCat, sem, semCat]
  | [x] => simp [makeCat, semCat_singleton]
  | x :: y :: r => simp [makeCat, sem]

theorem inRange_makeCat {lo hi : Nat} {xs : List Node} (h : ∀ x ∈ xs, InRange lo hi x) :
    InRange lo hi (makeCat xs) := by
  match xs with
  | [] => simp [makeCat, InRange]
  | [x] => simpa [makeCat] using h
  | x :: y :: r => simpa [makeCat, InRange] using h

/-- `reverse_cats` on what `make_cat` built. -/
theorem reverseCats_makeCat {b : Bool} {xs : List Node} {ir' : Node} (h : reverseCats b (makeCat xs) = .ok ir') :
    ∃ xs', reverseCatsList b xs = .ok xs' ∧ ir' = makeCat (if b then xs'.reverse else xs') := by
  match xs with
  | [] =>
    simp [makeCat, Parse.reverseCats] at h
    exact ⟨[], by simp [reverseCatsList], by subst h; simp [makeCat]⟩
  | [x] =>
    simp only [makeCat] at h
    refine ⟨[ir'], reverseCatsList_cons.2 ⟨ir', [], h, by simp [reverseCatsList], rfl⟩, ?_⟩
    cases b <;> simp [makeCat]
  | x :: y :: r =>
    simp only [makeCat, Parse.reverseCats] at h
    cases hl : reverseCatsList b (x :: y :: r) with
    | error e => rw [hl] at h; cases h
    | ok l =>
      rw [hl] at h
      simp only [Except.ok.injEq] at h
      refine ⟨l, rfl, ?_⟩
      have hlen := reverseCatsList_length hl
      subst h
      match l, hlen with
      | a :: b' :: t, _ =>
        cases b
        · simp [makeCat]
        · simp only [if_true]
          have : ((a :: b' :: t).reverse).length = t.length + 2 := by simp
          match hr : (a :: b' :: t).reverse, this with
          | p :: q :: u, _ => simp [makeCat]

/-! ## `make_alt` -/

theorem makeAltFuel_two (fuel : Nat) (x y : Node) (r : List Node) :
    makeAltFuel (fuel + 1) (x :: y :: r) =
      .alt (makeAltFuel fuel ((x :: y :: r).take ((x :: y :: r).length / 2)))
        (makeAltFuel fuel ((x :: y :: r).drop ((x :: y :: r).length / 2))) := by
  simp [makeAltFuel]

theorem sem_makeAltFuel (inp : Input) (fwd : Bool) (st : St) :
    ∀ (fuel : Nat) (xs : List Node), xs ≠ [] → xs.length ≤ fuel →
      sem inp (makeAltFuel fuel xs) fwd st = xs.flatMap (fun x => sem inp x fwd st) := by
  intro fuel
  induction fuel with
  | zero => intro xs hne hl; cases xs <;> simp_all
  | succ fuel ih =>
    intro xs hne hl
    match xs, hne with
    | [x], _ => simp [makeAltFuel]
    | x :: y :: r, _ =>
      rw [makeAltFuel_two]
      simp only [sem]
      have hlen : (x :: y :: r).length = r.length + 2 := by simp
      have h1 : ((x :: y :: r).take ((x :: y :: r).length / 2)) ≠ [] := by
        intro h; have := congrArg List.length h; simp at this; omega
      have h2 : ((x :: y :: r).drop ((x :: y :: r).length / 2)) ≠ [] := by
        intro h; have := congrArg List.length h; simp at this; omega
      rw [ih _ h1 (by simp at hl ⊢; omega), ih _ h2 (by simp at hl ⊢; omega), ← List.flatMap_append,
        List.take_append_drop]

theorem sem_makeAlt (inp : Input) (fwd : Bool) (st : St) (xs : List Node) (hne : xs ≠ []) :
    sem inp (makeAlt xs) fwd st = xs.flatMap (fun x => sem inp x fwd st) :=
  sem_makeAltFuel inp fwd st xs.length xs hne (Nat.le_refl _)

theorem inRange_makeAltFuel {lo hi : Nat} : ∀ (fuel : Nat) (xs : List Node), (∀ x ∈ xs, InRange lo hi x) →
    InRange lo hi (makeAltFuel fuel xs) := by
  intro fuel
  induction fuel with
  | zero =>
    intro xs h
    match xs with
    | [] => simp [makeAltFuel, InRange]
    | [x] => simpa [makeAltFuel] using h
    | x :: y :: r => simp [makeAltFuel, InRange]
  | succ fuel ih =>
    intro xs h
    match xs with
    | [] => simp [makeAltFuel, InRange]
    | [x] => simpa [makeAltFuel] using h
    | x :: y :: r =>
      rw [makeAltFuel_two]
      simp only [InRange]
      exact ⟨ih _ (fun z hz => h z (List.mem_of_mem_take hz)), ih _ (fun z hz => h z (List.mem_of_mem_drop hz))⟩

theorem makeAltFuel_ge2 (fuel : Nat) (xs : List Node) (h : 2 ≤ xs.length) :
    makeAltFuel (fuel + 1) xs =
      .alt (makeAltFuel fuel (xs.take (xs.length / 2))) (makeAltFuel fuel (xs.drop (xs.length / 2))) := by
  match xs, h with
  | x :: y :: r, _ => exact makeAltFuel_two fuel x y r

/-- `reverse_cats` on what `make_alt` built. -/
theorem reverseCats_makeAltFuel {b : Bool} : ∀ (fuel : Nat) (xs : List Node) (ir' : Node), xs ≠ [] →
    xs.length ≤ fuel → reverseCats b (makeAltFuel fuel xs) = .ok ir' →
    ∃ xs', reverseCatsList b xs = .ok xs' ∧ ir' = makeAltFuel fuel xs' := by
  intro fuel
  induction fuel with
  | zero => intro xs ir' hne hl; cases xs <;> simp_all
  | succ fuel ih =>
    intro xs ir' hne hl h
    match xs, hne with
    | [x], _ =>
      simp only [makeAltFuel] at h
      exact ⟨[ir'], reverseCatsList_cons.2 ⟨ir', [], h, by simp [reverseCatsList], rfl⟩, by simp [makeAltFuel]⟩
    | x :: y :: r, _ =>
      rw [makeAltFuel_two] at h
      simp only [Parse.reverseCats] at h
      have hlen : (x :: y :: r).length = r.length + 2 := by simp
      have h1 : ((x :: y :: r).take ((x :: y :: r).length / 2)) ≠ [] := by
        intro h; have := congrArg List.length h; simp at this; omega
      have h2 : ((x :: y :: r).drop ((x :: y :: r).length / 2)) ≠ [] := by
        intro h; have := congrArg List.length h; simp at this; omega
      cases hL : reverseCats b (makeAltFuel fuel ((x :: y :: r).take ((x :: y :: r).length / 2))) with
      | error e => rw [hL] at h; simp at h
      | ok l' =>
        cases hR : reverseCats b (makeAltFuel fuel ((x :: y :: r).drop ((x :: y :: r).length / 2))) with
        | error e => rw [hL, hR] at h; simp at h
        | ok r' =>
          rw [hL, hR] at h
          simp only [Except.ok.injEq] at h
          obtain ⟨xl, hxl, rfl⟩ := ih _ _ h1 (by simp at hl ⊢; omega) hL
          obtain ⟨xr, hxr, rfl⟩ := ih _ _ h2 (by simp at hl ⊢; omega) hR
          have hall := reverseCatsList_append hxl hxr
          rw [List.take_append_drop] at hall
          refine ⟨xl ++ xr, hall, ?_⟩
          have hl1 := reverseCatsList_length hxl
          have hl2 := reverseCatsList_length hxr
          have hl3 := reverseCatsList_length hall
          have hxl_len : xl.length = (xl ++ xr).length / 2 := by
            rw [hl3, hl1]; simp; omega
          rw [makeAltFuel_ge2 _ _ (by rw [hl3]; simp), ← hxl_len, List.take_left, List.drop_left]
          exact h.symm

theorem reverseCats_makeAlt {b : Bool} {xs : List Node} {ir' : Node} (hne : xs ≠ [])
    (h : reverseCats b (makeAlt xs) = .ok ir') :
    ∃ xs', reverseCatsList b xs = .ok xs' ∧ ir' = makeAlt xs' := by
  obtain ⟨xs', h1, h2⟩ := reverseCats_makeAltFuel xs.length xs ir' hne (Nat.le_refl _) h
  exact ⟨xs', h1, by rw [h2, makeAlt, reverseCatsList_length h1]⟩

/-! ## Number of capture groups -/

theorem numGroupsList_append (xs ys : List Node) :
    numGroupsList (xs ++ ys) = numGroupsList xs + numGroupsList ys := by
  induction xs with
  | nil => simp [numGroupsList]
  | cons x xs ih => simp [numGroupsList, ih]; omega

theorem numGroupsList_reverse (xs : List Node) : numGroupsList xs.reverse = numGroupsList xs := by
  induction xs with
  | nil => rfl
  | cons x xs ih => simp [numGroupsList, numGroupsList_append, ih]; omega

theorem numGroups_makeCat (xs : List Node) : numGroups (makeCat xs) = numGroupsList xs := by
  match xs with
  | [] => simp [makeCat, numGroups, numGroupsList]
  | [x] => simp [makeCat, numGroupsList]
  | x :: y :: r => simp [makeCat, numGroups]

theorem numGroups_makeAltFuel : ∀ (fuel : Nat) (xs : List Node), xs.length ≤ fuel →
    numGroups (makeAltFuel fuel xs) = numGroupsList xs := by
  intro fuel
  induction fuel with
  | zero => intro xs hl; cases xs <;> simp_all [makeAltFuel, numGroups, numGroupsList]
  | succ fuel ih =>
    intro xs hl
    match xs with
    | [] => simp [makeAltFuel, numGroups, numGroupsList]
    | [x] => simp [makeAltFuel, numGroupsList]
    | x :: y :: r =>
      rw [makeAltFuel_two]
      simp only [numGroups]
      rw [ih _ (by simp at hl ⊢; omega), ih _ (by simp at hl ⊢; omega), ← numGroupsList_append,
        List.take_append_drop]

theorem numGroups_makeAlt (xs : List Node) : numGroups (makeAlt xs) = numGroupsList xs :=
  numGroups_makeAltFuel xs.length xs (Nat.le_refl _)

/-! ## `reverse_cats` succeeds on what `make_cat` / `make_alt` built from successful children -/

theorem reverseCats_makeCat_ok {b : Bool} {xs xs' : List Node} (h : reverseCatsList b xs = .ok xs') :
    Parse.reverseCats b (makeCat xs) = .ok (makeCat (if b then xs'.reverse else xs')) := by
  match xs with
  | [] =>
    simp only [reverseCatsList, Except.ok.injEq] at h; subst h
    cases b <;> simp [makeCat, Parse.reverseCats]
  | [x] =>
    obtain ⟨x', l, hx, hl, rfl⟩ := reverseCatsList_cons.1 h
    simp only [reverseCatsList, Except.ok.injEq] at hl; subst hl
    cases b <;> simpa [makeCat] using hx
  | x :: y :: r =>
    have hlen := reverseCatsList_length h
    simp only [makeCat, Parse.reverseCats, h]
    match xs', hlen with
    | a :: b' :: t, _ =>
      cases b
      · simp [makeCat]
      · simp only [if_true]
        have : ((a :: b' :: t).reverse).length = t.length + 2 := by simp
        match hr : (a :: b' :: t).reverse, this with
        | p :: q :: u, _ => simp [makeCat]

theorem reverseCats_makeAltFuel_ok {b : Bool} : ∀ (fuel : Nat) (xs xs' : List Node), xs ≠ [] → xs.length ≤ fuel →
    reverseCatsList b xs = .ok xs' → Parse.reverseCats b (makeAltFuel fuel xs) = .ok (makeAltFuel fuel xs') := by
  intro fuel
  induction fuel with
  | zero => intro xs xs' hne hl; cases xs <;> simp_all
  | succ fuel ih =>
    intro xs xs' hne hl h
    match xs, hne with
    | [x], _ =>
      obtain ⟨x', l, hx, hl', rfl⟩ := reverseCatsList_cons.1 h
      simp only [reverseCatsList, Except.ok.injEq] at hl'; subst hl'
      simpa [makeAltFuel] using hx
    | x :: y :: r, _ =>
      have hlen : (x :: y :: r).length = r.length + 2 := by simp
      have h1 : ((x :: y :: r).take ((x :: y :: r).length / 2)) ≠ [] := by
        intro h; have := congrArg List.length h; simp at this; omega
      have h2 : ((x :: y :: r).drop ((x :: y :: r).length / 2)) ≠ [] := by
        intro h; have := congrArg List.length h; simp at this; omega
      have hsplit := h
      rw [← List.take_append_drop ((x :: y :: r).length / 2) (x :: y :: r)] at hsplit
      obtain ⟨l1, l2, hl1, hl2, rfl⟩ := reverseCatsList_split hsplit
      have e1 := ih _ _ h1 (by simp at hl ⊢; omega) hl1
      have e2 := ih _ _ h2 (by simp at hl ⊢; omega) hl2
      rw [makeAltFuel_two]
      simp only [Parse.reverseCats, e1, e2]
      have hll1 := reverseCatsList_length hl1
      have hll := reverseCatsList_length h
      have hxl_len : l1.length = (l1 ++ l2).length / 2 := by
        rw [hll, hll1]; simp; omega
      rw [makeAltFuel_ge2 _ _ (by rw [hll]; simp), ← hxl_len, List.take_left, List.drop_left]

theorem reverseCats_makeAlt_ok {b : Bool} {xs xs' : List Node} (hne : xs ≠ []) (h : reverseCatsList b xs = .ok xs') :
    Parse.reverseCats b (makeAlt xs) = .ok (makeAlt xs') := by
  rw [makeAlt, makeAlt, reverseCatsList_length h]
  exact reverseCats_makeAltFuel_ok xs.length xs xs' hne (Nat.le_refl _) h

end Regress.Lower
