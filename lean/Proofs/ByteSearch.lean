import Proofs.Lemmas.ByteSearchTie
/-!
# `src/bytesearch.rs`: the byte-level prefilter searches and the two bitmaps

Model: `RegressModel/VM/ByteSearch.lean` (line by line; panic sites are `Except.error`, every array
access is a checked `l[i]?`). Lemmas: `Proofs/Lemmas/ByteSearch{Bits,Sets,Ascii,Find,Tie}.lean`.

Standing hypotheses, all decidable:
* `bm.WF` — the type invariant of `ByteBitmap([u16; 16])` / `AsciiBitmap([u8; 16])`: sixteen words,
  each below `2^16` / `2^8`;
* `∀ b ∈ bytes, b < 256` — the haystack is a `&[u8]`.

Parameters of `unsafe_find_in_slice` that the Rust source does not fix and the theorems quantify
over: the alignment `alignOffset = bytes.as_ptr().align_offset(4)` (*any* `Nat`: `0..3` on real
targets, anything under Miri) and the target endianness `e`.

Trusted (specified, not modelled): `memchr::memchr/memchr2/memchr3`, `memchr::memmem::Finder::find`,
`u16::count_ones`, and the behaviour of `<[u8]>::align_to::<u32>` (`alignTo`; the main theorem is also
proved against its documented contract only, `bitmap_find_parts_spec`).
-/
namespace Regress.ByteSearch

open Regress

/-! ## The nibble trick -/

/-- For the chunk `c` made of the bytes `b0 b1 b2 b3` in address order (either endianness), byte `k`
(in address order, `to_ne_bytes`) of `(c >> 4) & 0x0F0F0F0F` is `bk >> 4` and byte `k` of
`c & 0x0F0F0F0F` is `bk & 0xF`; and `c` is a `u32`. -/
theorem nibble_trick (e : Endian) {b0 b1 b2 b3 : Nat} (h0 : b0 < 256) (h1 : b1 < 256)
    (h2 : b2 < 256) (h3 : b3 < 256) :
    byteIdxs e (u32OfNeBytes e b0 b1 b2 b3) = (b0 >>> 4, b1 >>> 4, b2 >>> 4, b3 >>> 4) ∧
    bitIdxs e (u32OfNeBytes e b0 b1 b2 b3) = (b0 &&& 0xF, b1 &&& 0xF, b2 &&& 0xF, b3 &&& 0xF) ∧
    u32OfNeBytes e b0 b1 b2 b3 < 2 ^ 32 :=
  ⟨nibble_hi e h0 h1 h2 h3, nibble_lo e h0 h1 h2 h3, u32OfNeBytes_lt e h0 h1 h2 h3⟩

/-- The little-endian statement in plain arithmetic. -/
theorem nibble_trick_le {b0 b1 b2 b3 : Nat} (h0 : b0 < 256) (h1 : b1 < 256) (h2 : b2 < 256)
    (h3 : b3 < 256) :
    let c := b0 + 256 * b1 + 65536 * b2 + 16777216 * b3
    let hi := (c >>> 4) &&& 0x0F0F0F0F
    let lo := c &&& 0x0F0F0F0F
    (hi % 256 = b0 >>> 4 ∧ (hi >>> 8) % 256 = b1 >>> 4 ∧ (hi >>> 16) % 256 = b2 >>> 4 ∧
      (hi >>> 24) % 256 = b3 >>> 4) ∧
    (lo % 256 = b0 &&& 0xF ∧ (lo >>> 8) % 256 = b1 &&& 0xF ∧ (lo >>> 16) % 256 = b2 &&& 0xF ∧
      (lo >>> 24) % 256 = b3 &&& 0xF) := by
  have hhi := nibble_hi_le h0 h1 h2 h3
  have hlo := nibble_lo_le h0 h1 h2 h3
  simp only [byteIdxs, bitIdxs, u32ToNeBytes, u32OfNeBytes, Prod.mk.injEq] at hhi hlo
  exact ⟨⟨hhi.1, hhi.2.1, hhi.2.2.1, hhi.2.2.2⟩, ⟨hlo.1, hlo.2.1, hlo.2.2.1, hlo.2.2.2⟩⟩

example : byteIdxs .little 0xFF7A6100 = (0x0, 0x6, 0x7, 0xF) ∧ bitIdxs .little 0xFF7A6100 = (0x0, 0x1, 0xA, 0xF) := by
  decide

/-! ## `ByteBitmap`: `contains`, `set`, `new`, `bitor`, `bitnot`, `count_bits`, `as_array` -/

/-- `contains` never panics on a `u8` and decides membership in the denoted set `bm.mem`
(bit `v & 0xF` of word `v >> 4`). -/
theorem contains_spec {bm : ByteBitmap} (hwf : bm.WF) {v : Nat} (hv : v < 256) :
    bm.contains v = .ok (bm.mem v) :=
  ByteBitmap.contains_ok hwf hv

/-- `set(v)` never panics on a `u8`, keeps the invariant, and adds exactly `v`:
afterwards `contains(u) = (contains(u) before) || u == v`. -/
theorem contains_set {bm : ByteBitmap} (hwf : bm.WF) {v : Nat} (hv : v < 256) :
    ∃ bm', bm.set v = .ok bm' ∧ bm'.WF ∧
      ∀ u, u < 256 → bm'.contains u = .ok (bm.mem u || u == v) := by
  have hs := ByteBitmap.set_ok hwf hv
  have hwf' := ByteBitmap.set_wf hwf hv hs
  exact ⟨_, hs, hwf', fun u hu => by
    rw [ByteBitmap.contains_ok hwf' hu, ByteBitmap.mem_set hwf hv hs]⟩

/-- `ByteBitmap::new(bytes)` is the set of the bytes listed. -/
theorem new_spec {bytes : List Nat} (hb : ∀ b ∈ bytes, b < 256) :
    ∃ bm, ByteBitmap.new bytes = .ok bm ∧ bm.WF ∧ ∀ u, bm.mem u = bytes.contains u :=
  ByteBitmap.new_ok hb

/-- `bitor` is the union. -/
theorem bitor_spec {a b : ByteBitmap} (ha : a.WF) (hb : b.WF) :
    ∃ r, a.bitor b = .ok r ∧ r.WF ∧ ∀ u, r.mem u = (a.mem u || b.mem u) := by
  have h := ByteBitmap.bitor_ok ha hb
  exact ⟨_, h, ByteBitmap.bitor_wf ha hb h, ByteBitmap.mem_bitor ha hb h⟩

/-- `bitnot` is the complement within `0..=255`, and keeps the invariant. -/
theorem bitnot_contains {bm : ByteBitmap} (hwf : bm.WF) {v : Nat} (hv : v < 256) :
    bm.bitnot.WF ∧ bm.bitnot.contains v = .ok (!bm.mem v) := by
  refine ⟨ByteBitmap.bitnot_wf hwf, ?_⟩
  rw [ByteBitmap.contains_ok (ByteBitmap.bitnot_wf hwf) hv, ByteBitmap.mem_bitnot hwf hv]

/-- `to_vec` (the listing `(0..=255).filter(contains)`): no panic; strictly ascending; exactly the
members. -/
theorem to_vec_spec {bm : ByteBitmap} (hwf : bm.WF) :
    bm.toVec = .ok bm.members ∧ bm.members.Pairwise (· < ·) ∧
      ∀ v, v ∈ bm.members ↔ (v < 256 ∧ bm.contains v = .ok true) := by
  refine ⟨ByteBitmap.toVec_ok hwf, ByteBitmap.members_sorted bm, ?_⟩
  intro v
  rw [ByteBitmap.mem_members hwf]
  constructor
  · intro h
    have hv := ByteBitmap.mem_lt hwf h
    exact ⟨hv, by rw [ByteBitmap.contains_ok hwf hv, h]⟩
  · rintro ⟨hv, h⟩
    rw [ByteBitmap.contains_ok hwf hv] at h
    exact Except.ok.inj h

/-- `count_bits` is the number of bytes contained. -/
theorem count_bits_spec {bm : ByteBitmap} (hwf : bm.WF) :
    bm.countBits = bm.members.length ∧ bm.countBits ≤ 256 := by
  refine ⟨ByteBitmap.countBits_eq hwf, ?_⟩
  rw [ByteBitmap.countBits_eq hwf]
  have := List.length_filter_le bm.mem (List.range 256)
  simpa [ByteBitmap.members] using this

/-- `as_array::<N>()`: panics (`array[idx]` out of bounds) iff `N < count_bits()`; otherwise the
members ascending, padded with zeroes. -/
theorem as_array_spec {bm : ByteBitmap} (hwf : bm.WF) (N : Nat) :
    bm.asArray N =
      if bm.countBits ≤ N then .ok (bm.members ++ List.replicate (N - bm.countBits) 0)
      else .error .asArrayIndex := by
  rw [ByteBitmap.countBits_eq hwf]
  exact ByteBitmap.asArray_ok hwf N

/-- The callers (`startpredicate.rs resolve_to_insn`: `match bm.count_bits() { 1 => …as_array::<1>(),
2 => …<2>, 3 => …<3> }`) instantiate `N = count_bits()`: no panic, exactly the members. -/
theorem as_array_callers {bm : ByteBitmap} (hwf : bm.WF) :
    bm.asArray bm.countBits = .ok bm.members := by
  rw [as_array_spec hwf, if_pos (Nat.le_refl _)]
  simp

/-! ## The representation map `[u16; 16]` ↔ the 256-bit `Nat` of `IR.ByteBitmap` (`StartPred.lean`) -/

/-- `toIR` commutes with `default`, `contains`, `set`, `new`, `bitor`, the listing and `count_bits`. -/
theorem repr_commutes :
    ByteBitmap.default.toIR = IR.ByteBitmap.empty ∧
    (∀ (bm : ByteBitmap), bm.WF → ∀ v, v < 256 →
      bm.contains v = .ok (bm.toIR.contains v)) ∧
    (∀ (bm bm' : ByteBitmap), bm.WF → ∀ v, v < 256 → bm.set v = .ok bm' →
      bm'.toIR = bm.toIR.set v) ∧
    (∀ (bytes : List Nat) (r : ByteBitmap), (∀ b ∈ bytes, b < 256) → ByteBitmap.new bytes = .ok r →
      r.toIR = IR.ByteBitmap.new bytes) ∧
    (∀ (a b r : ByteBitmap), a.WF → b.WF → a.bitor b = .ok r → r.toIR = a.toIR.bitor b.toIR) ∧
    (∀ (bm : ByteBitmap), bm.WF → bm.toVec = .ok bm.toIR.toList) ∧
    (∀ (bm : ByteBitmap), bm.WF → bm.countBits = bm.toIR.countBits) :=
  ⟨ByteBitmap.toIR_default,
   fun bm hwf v hv => by rw [ByteBitmap.contains_ok hwf hv, ByteBitmap.toIR_contains hwf],
   fun _ _ hwf _ hv h => ByteBitmap.toIR_set hwf hv h,
   fun _ _ hb h => ByteBitmap.toIR_new hb h,
   fun _ _ _ ha hb h => ByteBitmap.toIR_bitor ha hb h,
   fun bm hwf => by rw [ByteBitmap.toVec_ok hwf, ByteBitmap.toIR_toList hwf],
   fun bm hwf => (ByteBitmap.toIR_countBits hwf).symm⟩

/-- The map is a bijection between well-formed bitmaps and numbers below `2^256`. -/
theorem repr_bijective :
    (∀ (bm : ByteBitmap), bm.WF → bm.toIR.bits < 2 ^ 256) ∧
    (∀ (b : IR.ByteBitmap), (ByteBitmap.ofIR b).WF) ∧
    (∀ (b : IR.ByteBitmap), b.bits < 2 ^ 256 → (ByteBitmap.ofIR b).toIR = b) :=
  ⟨fun _ hwf => ByteBitmap.toNat_lt hwf, ByteBitmap.ofIR_wf, ByteBitmap.toIR_ofIR⟩

/-! ## `ByteBitmap::find_in` -/

/-- **`bitmap_find_spec`.** For every bitmap, every byte slice, every alignment of the slice (any
`align_offset`, in particular the prefix lengths 0, 1, 2, 3) and either endianness,
`unsafe_find_in_slice` does not panic (no bitmap index out of range, no shift overflow) and returns
the first index whose byte is in the set. -/
theorem bitmap_find_spec (e : Endian) {bm : ByteBitmap} (hwf : bm.WF) (bytes : List Nat)
    (hb : ∀ b ∈ bytes, b < 256) (alignOffset : Nat) :
    unsafeFindInSlice e bm bytes alignOffset = .ok (firstIdx bm.mem bytes) :=
  unsafeFindInSlice_ok e hwf bytes hb alignOffset

/-- The same against the documented contract of `align_to` only: *any* split of the slice into a
prefix, a whole number of 4-byte chunks and a suffix. -/
theorem bitmap_find_parts_spec (e : Endian) {bm : ByteBitmap} (hwf : bm.WF) (pre mid suffix : List Nat)
    (hmid : mid.length % 4 = 0) (hb : ∀ b ∈ pre ++ mid ++ suffix, b < 256) :
    unsafeFindInParts e bm pre (chunksU32 e mid) suffix = .ok (firstIdx bm.mem (pre ++ mid ++ suffix)) :=
  unsafeFindInParts_ok e hwf pre mid suffix hmid hb

/-- The model's `alignTo` does split the slice the way the contract says (and the way the
throw-away probe observed: `|prefix| = min(align_offset, len)`, `|suffix| = (len - |prefix|) % 4`). -/
theorem align_to_split (e : Endian) (bytes : List Nat) (offset : Nat) :
    ∃ pre mid suffix, alignTo e bytes offset = (pre, chunksU32 e mid, suffix) ∧
      pre ++ mid ++ suffix = bytes ∧ mid.length % 4 = 0 ∧
      pre.length = min offset bytes.length ∧ suffix.length = (bytes.length - pre.length) % 4 :=
  alignTo_split e bytes offset

/-- What "first index" means: `some i` iff `i` is the least index whose byte is contained, `none`
iff no byte is contained. -/
theorem bitmap_find_least (e : Endian) {bm : ByteBitmap} (hwf : bm.WF) (bytes : List Nat)
    (hb : ∀ b ∈ bytes, b < 256) (alignOffset : Nat) :
    ∃ r, unsafeFindInSlice e bm bytes alignOffset = .ok r ∧
      (∀ i, r = some i ↔ ∃ h : i < bytes.length, bm.mem bytes[i] = true ∧
        ∀ j (hj : j < i), bm.mem (bytes[j]'(by omega)) = false) ∧
      (r = none ↔ ∀ b ∈ bytes, bm.mem b = false) :=
  ⟨_, bitmap_find_spec e hwf bytes hb alignOffset, firstIdx_eq_some_iff _ _, firstIdx_eq_none_iff _ _⟩

/-- **`unsafe_eq_safe`** (C15 for this function): the two `cfg` branches of
`<ByteBitmap as ByteSearcher>::find_in` agree — whatever the alignment and endianness the default
build runs with. -/
theorem unsafe_eq_safe (e : Endian) {bm : ByteBitmap} (hwf : bm.WF) (bytes : List Nat)
    (hb : ∀ b ∈ bytes, b < 256) (alignOffset : Nat) :
    bm.findIn false e bytes alignOffset = bm.findIn true e bytes alignOffset := by
  simp only [ByteBitmap.findIn, Bool.false_eq_true, if_false, if_true]
  rw [bitmap_find_spec e hwf bytes hb, safeFindLoop_ok hwf bytes hb 0]
  cases firstIdx bm.mem bytes <;> simp

/-- `Input::find_bytes(pos, &bitmap)` = the abstract scan `VM.findBytesPred (.set …)` of
`Search.lean`, for the `StartPred.set` that lists the bitmap (either `cfg` branch, any alignment). -/
theorem bitmap_find_eq_findBytes (prohibitUnsafe : Bool) (e : Endian) {bm : ByteBitmap} (hwf : bm.WF)
    (bytes : Array Nat) (hb : ∀ b ∈ bytes.toList, b < 256) (pos alignOffset : Nat) :
    (bm.findIn prohibitUnsafe e (bytes.toList.drop pos) alignOffset).map (Option.map (· + pos))
      = .ok (VM.findBytesPred (.set bm.members) bytes pos) := by
  have hb' : ∀ b ∈ bytes.toList.drop pos, b < 256 := fun b h => hb b (List.mem_of_mem_drop h)
  have hfind : bm.findIn prohibitUnsafe e (bytes.toList.drop pos) alignOffset
      = .ok (firstIdx bm.mem (bytes.toList.drop pos)) := by
    cases prohibitUnsafe
    · rw [← bitmap_find_spec e hwf _ hb' alignOffset]; rfl
    · rw [← unsafe_eq_safe e hwf _ hb' alignOffset, ← bitmap_find_spec e hwf _ hb' alignOffset]; rfl
  rw [hfind, VM.findBytesPred, findFirst_eq bytes _ _ pos rfl]
  have hcongr : firstIdx (fun b => bm.members.contains b) (bytes.toList.drop pos)
      = firstIdx bm.mem (bytes.toList.drop pos) := by
    apply firstIdx_congr
    intro b _
    cases h : bm.mem b
    · apply Bool.eq_false_iff.mpr
      intro hc
      rw [List.contains_iff_mem, ByteBitmap.mem_members hwf] at hc
      rw [hc] at h; cases h
    · rw [List.contains_iff_mem, ByteBitmap.mem_members hwf]; exact h
  rw [hcongr]
  rfl

/-- The same with the bitmap given as the `IR.ByteBitmap` of the start-predicate model. -/
theorem bitmap_find_eq_findBytes_ir (prohibitUnsafe : Bool) (e : Endian) {bm : ByteBitmap}
    (hwf : bm.WF) (bytes : Array Nat) (hb : ∀ b ∈ bytes.toList, b < 256) (pos alignOffset : Nat) :
    (bm.findIn prohibitUnsafe e (bytes.toList.drop pos) alignOffset).map (Option.map (· + pos))
      = .ok (VM.findBytesPred (.set bm.toIR.toList) bytes pos) := by
  rw [ByteBitmap.toIR_toList hwf]
  exact bitmap_find_eq_findBytes prohibitUnsafe e hwf bytes hb pos alignOffset

/-! ## `[u8; N]`, `ByteArraySet`, `memmem::Finder`, `EmptyString`, `charset_contains` -/

theorem nat_beq_decide (a b : Nat) : (a == b) = decide (a = b) := by
  by_cases h : a = b <;> simp [h]

/-- `ByteArraySet::contains` is membership in the array. -/
theorem byte_array_set_contains (s : ByteArraySet) (b : Nat) : s.contains b = s.toList.contains b := by
  cases s <;>
    simp [ByteArraySet.contains, ByteArraySet.toList, set2Contains, set3Contains, set4Contains,
      Bool.or_assoc, nat_beq_decide]

/-- `ByteArraySet::find_in` (`memchr2`, `memchr3`, the loop for `[u8; 4]`) is the first index whose
byte is in the array. -/
theorem byte_array_set_find_spec (s : ByteArraySet) (rhs : List Nat) :
    s.findIn rhs = firstIdx (fun b => s.toList.contains b) rhs := by
  have hc : ∀ b, s.contains b = s.toList.contains b := byte_array_set_contains s
  cases s with
  | a2 s => exact firstIdx_congr (fun b _ => hc b)
  | a3 s => exact firstIdx_congr (fun b _ => hc b)
  | a4 s =>
    simp only [ByteArraySet.findIn, set4FindIn, set4FindLoop_ok]
    rw [firstIdx_congr (p := set4Contains s) (q := fun b => (ByteArraySet.a4 s).toList.contains b)
      (fun b _ => hc b)]
    cases firstIdx _ rhs <;> simp

/-- `<[u8; 1/2/3] as ByteSearcher>::find_in` behind `Input::find_bytes` = `VM.findBytesPred (.set …)`
(`StartPredicate::ByteSet1/2/3`). -/
theorem array_find_eq_findBytes (bytes : Array Nat) (pos a0 a1 a2 : Nat) :
    (findIn1 a0 (bytes.toList.drop pos)).map (· + pos) = VM.findBytesPred (.set [a0]) bytes pos ∧
    (findIn2 a0 a1 (bytes.toList.drop pos)).map (· + pos) = VM.findBytesPred (.set [a0, a1]) bytes pos ∧
    (findIn3 a0 a1 a2 (bytes.toList.drop pos)).map (· + pos)
      = VM.findBytesPred (.set [a0, a1, a2]) bytes pos := by
  simp only [VM.findBytesPred, findFirst_eq bytes _ _ pos rfl, findIn1, findIn2, findIn3, memchr,
    memchr2, memchr3]
  refine ⟨?_, ?_, ?_⟩ <;> congr 1 <;> apply firstIdx_congr <;> intro b _ <;>
    simp [Bool.or_assoc, nat_beq_decide]

/-- The literal search: `Finder::find` returns the least index at which the needle occurs
(this *is* the specification assumed of `memmem`, spelled out). -/
theorem literal_find_spec (needle rhs : List Nat) (i : Nat) :
    finderFindIn needle rhs = some i ↔
      (rhs.drop i).take needle.length = needle ∧ i ≤ rhs.length ∧
        ∀ j, j < i → (rhs.drop j).take needle.length ≠ needle := by
  rw [finderFindIn, memmemFind_eq_some_iff, isPrefixOf_iff_take]
  constructor
  · rintro ⟨h1, h2, h3⟩
    refine ⟨h1, h2, fun j hj hc => ?_⟩
    have := h3 j hj
    rw [(isPrefixOf_iff_take needle _).mpr hc] at this
    cases this
  · rintro ⟨h1, h2, h3⟩
    refine ⟨h1, h2, fun j hj => ?_⟩
    apply Bool.eq_false_iff.mpr
    intro hc
    exact h3 j hj ((isPrefixOf_iff_take needle _).mp hc)

/-- `<memmem::Finder as ByteSearcher>::find_in` behind `Input::find_bytes` =
`VM.findBytesPred (.seq needle)`. -/
theorem literal_find_eq_findBytes (bytes : Array Nat) (needle : List Nat) (pos : Nat)
    (hpos : pos ≤ bytes.size) :
    (finderFindIn needle (bytes.toList.drop pos)).map (· + pos)
      = VM.findBytesPred (.seq needle) bytes pos := by
  rw [VM.findBytesPred, findSeq_eq bytes needle _ pos hpos rfl]
  rfl

/-- `EmptyString` behind `Input::find_bytes` = `VM.findBytesPred .arbitrary`. -/
theorem empty_find_eq_findBytes (bytes : Array Nat) (pos : Nat) :
    (emptyStringFindIn (bytes.toList.drop pos)).map (· + pos) = VM.findBytesPred .arbitrary bytes pos := by
  simp [emptyStringFindIn, VM.findBytesPred]

/-- `charset_contains` is membership (and is the `VM.charsetContains` of `Input.lean`). -/
theorem charset_contains_spec (set : List Nat) (c : Nat) :
    charsetContains set c = set.contains c ∧ charsetContains set c = VM.charsetContains set c := by
  refine ⟨?_, rfl⟩
  unfold charsetContains
  suffices h : ∀ acc, set.foldl (fun result v => result || v == c) acc = (acc || set.contains c) by
    simpa using h false
  induction set with
  | nil => intro acc; simp
  | cons x xs ih =>
    intro acc
    rw [List.foldl_cons, ih]
    by_cases hx : x = c
    · subst hx; simp
    · have : ¬ c = x := fun h => hx h.symm
      simp [hx, this, nat_beq_decide]

/-! ## `AsciiBitmap` -/

/-- `contains(v)` never panics on any `u8` ("The value does NOT have to be ASCII") and is
`v < 128 ∧ bit v % 8 of byte v / 8`. -/
theorem ascii_contains_spec {bm : AsciiBitmap} (hwf : bm.WF) {v : Nat} (hv : v < 256) :
    bm.contains v = .ok (bm.mem v) ∧ (128 ≤ v → bm.mem v = false) := by
  refine ⟨AsciiBitmap.contains_ok hwf hv, fun h => ?_⟩
  have : ¬ v < 128 := by omega
  simp [AsciiBitmap.mem, this]

/-- **The exact domain of `AsciiBitmap::set`**: it succeeds iff `v < 128` — for `128 ≤ v` it panics
in every build (the `debug_assert!` with debug assertions, `self.0[v >> 3]` out of bounds without);
when it succeeds it keeps the invariant and adds exactly `v`. -/
theorem ascii_set_spec (dbg : Bool) {bm : AsciiBitmap} (hwf : bm.WF) (v : Nat) :
    (v < 128 → ∃ bm', bm.set dbg v = .ok bm' ∧ bm'.WF ∧
        ∀ u, u < 256 → bm'.contains u = .ok (bm.mem u || u == v)) ∧
    (128 ≤ v → bm.set dbg v = .error (if dbg then .asciiSetDebugAssert else .asciiIndex)) := by
  refine ⟨fun hv => ?_, fun hv => AsciiBitmap.set_err dbg hwf hv⟩
  have hs := AsciiBitmap.set_ok dbg hwf hv
  have hwf' := AsciiBitmap.set_wf dbg hwf hv hs
  exact ⟨_, hs, hwf', fun u hu => by
    rw [AsciiBitmap.contains_ok hwf' hu, AsciiBitmap.mem_set dbg hwf hv hs]⟩

/-- The representation map `[u8; 16]` → the 128-bit `Nat` of `VM.AsciiBitmap` (`Emit.lean`) commutes
with `contains` and `set`. -/
theorem ascii_repr_commutes (dbg : Bool) {bm : AsciiBitmap} (hwf : bm.WF) :
    AsciiBitmap.default.toVM = ⟨0⟩ ∧ bm.toVM.bits < 2 ^ 128 ∧
    (∀ v, v < 256 → bm.contains v = .ok (bm.toVM.contains v)) ∧
    (∀ v bm', v < 128 → bm.set dbg v = .ok bm' → bm'.toVM = bm.toVM.set v) :=
  ⟨AsciiBitmap.toVM_default, AsciiBitmap.toNat_lt hwf,
   fun v hv => by rw [AsciiBitmap.contains_ok hwf hv, AsciiBitmap.toVM_contains hwf],
   fun _ _ hv h => AsciiBitmap.toVM_set dbg hwf hv h⟩

/-- **Where the callers guarantee `< 128`.** The only caller of `AsciiBitmap::set` is `emit.rs
bracket_as_ascii`, which returns `None` as soon as an interval has `last >= 128` and otherwise sets
`first..=last`: run on the real `[u8; 16]` (`bracketAsAsciiBytes`), for *any* interval list, it never
panics, and it computes what the 128-bit-number model `VM.bracketAsAsciiLoop` computes. -/
theorem bracket_as_ascii_no_panic (dbg : Bool) (ivs : List (Nat × Nat)) :
    ∃ r, bracketAsAsciiBytes dbg ivs AsciiBitmap.default = .ok r ∧ (∀ x ∈ r, x.WF) ∧
      r.map AsciiBitmap.toVM = VM.bracketAsAsciiLoop ivs ⟨0⟩ := by
  have := bracketAsAsciiBytes_ok dbg ivs AsciiBitmap.default AsciiBitmap.default_wf
  rwa [AsciiBitmap.toVM_default] at this

/-! ## No index out of range, no shift overflow -/

/-- Every array access and every shift of `bytesearch.rs` is in range on well-typed arguments: all
the functions of the model return `.ok` (the only panics left are the two documented ones,
`as_array::<N>` with `N < count_bits()` and `AsciiBitmap::set` of a non-ASCII byte). -/
theorem no_index_out_of_range (e : Endian) {bm bm2 : ByteBitmap} (hwf : bm.WF) (hwf2 : bm2.WF)
    {abm : AsciiBitmap} (hawf : abm.WF) (bytes : List Nat) (hb : ∀ b ∈ bytes, b < 256) :
    (∀ v, v < 256 → (bm.contains v).isOk) ∧
    (∀ v, v < 256 → (bm.set v).isOk) ∧
    (ByteBitmap.new bytes).isOk ∧
    (bm.bitor bm2).isOk ∧
    bm.toVec.isOk ∧
    (∀ N, bm.countBits ≤ N → (bm.asArray N).isOk) ∧
    (∀ off pu, (bm.findIn pu e bytes off).isOk) ∧
    (∀ v, v < 256 → (abm.contains v).isOk) ∧
    (∀ v dbg, v < 128 → (abm.set dbg v).isOk) := by
  refine ⟨fun v hv => ?_, fun v hv => ?_, ?_, ?_, ?_, fun N hN => ?_, fun off pu => ?_,
    fun v hv => ?_, fun v dbg hv => ?_⟩
  · rw [ByteBitmap.contains_ok hwf hv]; rfl
  · rw [ByteBitmap.set_ok hwf hv]; rfl
  · obtain ⟨r, hr, _⟩ := ByteBitmap.new_ok hb; rw [hr]; rfl
  · rw [ByteBitmap.bitor_ok hwf hwf2]; rfl
  · rw [ByteBitmap.toVec_ok hwf]; rfl
  · rw [as_array_spec hwf, if_pos hN]; rfl
  · cases pu
    · rw [unsafe_eq_safe e hwf bytes hb off]
      simp only [ByteBitmap.findIn, if_true]; rw [safeFindLoop_ok hwf bytes hb 0]; rfl
    · simp only [ByteBitmap.findIn, if_true]; rw [safeFindLoop_ok hwf bytes hb 0]; rfl
  · rw [AsciiBitmap.contains_ok hawf hv]; rfl
  · rw [AsciiBitmap.set_ok dbg hawf hv]; rfl

/-! ## `format_bitmap` (the `Debug` impls): a cosmetic defect -/

/-- `while end <= 256 && contains(end as u8)`: at `end = 256` the cast wraps to `0`, so a bitmap that
contains both `255` and `0` is printed with a range ending in `256`: `ByteBitmap[0 255-256]`
(confirmed on the real code). Items are `(idx, end)`, printed `idx-(end-1)`. -/
theorem format_bitmap_prints_256 :
    formatItems (fun v => v == 0 || v == 255) 258 0 = [(0, 1), (255, 257)] := by decide +kernel

/-! ## Non-vacuity -/

instance {α : Type} [DecidableEq α] : DecidableEq (Except Err α)
  | .ok a, .ok b => if h : a = b then isTrue (by rw [h]) else isFalse (fun h' => h (Except.ok.inj h'))
  | .error a, .error b =>
    if h : a = b then isTrue (by rw [h]) else isFalse (fun h' => h (Except.error.inj h'))
  | .ok _, .error _ => isFalse (fun h => nomatch h)
  | .error _, .ok _ => isFalse (fun h => nomatch h)


/-- `ByteBitmap::new(b"az\xff")`. -/
def exBitmap : ByteBitmap := ⟨[0, 0, 0, 0, 0, 0, 2, 1024, 0, 0, 0, 0, 0, 0, 0, 32768]⟩

example : ByteBitmap.new [0x61, 0x7a, 0xff] = .ok exBitmap := by decide +kernel
example : exBitmap.WF := by decide
example : exBitmap.members = [0x61, 0x7a, 0xff] := by decide +kernel
example : exBitmap.countBits = 3 ∧ exBitmap.asArray 3 = .ok [0x61, 0x7a, 0xff] := by decide +kernel
example : exBitmap.asArray 2 = .error .asArrayIndex := by decide +kernel
example : exBitmap.toIR = IR.ByteBitmap.new [0x61, 0x7a, 0xff] := by decide +kernel

/-- A haystack of 11 bytes whose first member of the set is at index 6: found in the prefix, the
body or the suffix depending on the alignment. -/
def exHay : List Nat := [1, 2, 3, 4, 5, 6, 0x7a, 8, 0x61, 10, 11]

example : ∀ b ∈ exHay, b < 256 := by decide
example : (alignTo .little exHay 0).1.length = 0 ∧ (alignTo .little exHay 0).2.2.length = 3 := by decide +kernel
example : (alignTo .little exHay 3).1.length = 3 ∧ (alignTo .little exHay 3).2.1.length = 2 := by decide +kernel
example : unsafeFindInSlice .little exBitmap exHay 0 = .ok (some 6) := by decide +kernel
example : unsafeFindInSlice .little exBitmap exHay 1 = .ok (some 6) := by decide +kernel
example : unsafeFindInSlice .little exBitmap exHay 2 = .ok (some 6) := by decide +kernel
example : unsafeFindInSlice .little exBitmap exHay 3 = .ok (some 6) := by decide +kernel
example : unsafeFindInSlice .big exBitmap exHay 3 = .ok (some 6) := by decide +kernel
example : safeFindLoop exBitmap exHay 0 = .ok (some 6) := by decide +kernel
example : unsafeFindInSlice .little exBitmap.bitnot [0x61, 0x7a, 0xff, 0x61, 0x7a] 1 = .ok none := by decide +kernel
example : VM.findBytesPred (.set exBitmap.members) (exHay.toArray) 7 = some 8 := by decide +kernel
/-- A non-`u8` in the haystack is outside the model's domain: the model reports the index panic. -/
example : unsafeFindInSlice .little exBitmap [256] 0 = .error .bitmapIndex := by decide +kernel
example : finderFindIn [2, 3] [1, 2, 2, 3, 2, 3] = some 2 ∧ finderFindIn [] [] = some 0 ∧
    finderFindIn [9] [1, 2] = none := by decide +kernel
example : (ByteArraySet.a4 (1, 2, 3, 4)).findIn [9, 8, 3, 1] = some 2 := by decide +kernel
example : (AsciiBitmap.default.set true 0x41).map (fun b => b.contains 0x41) = .ok (.ok true) := by decide +kernel
example : AsciiBitmap.default.set false 128 = .error .asciiIndex ∧
    AsciiBitmap.default.set true 128 = .error .asciiSetDebugAssert := by decide +kernel
example : bracketAsAsciiBytes false [(0x30, 0x39), (0x61, 0x7a)] AsciiBitmap.default
    = .ok (some ⟨[0, 0, 0, 0, 0, 0, 255, 3, 0, 0, 0, 0, 254, 255, 255, 7]⟩) := by decide +kernel
example : bracketAsAsciiBytes false [(0x30, 0x39), (0x7f, 0x80)] AsciiBitmap.default = .ok none := by decide +kernel

/-- The main theorems instantiated on the concrete inputs above (the hypotheses are satisfiable). -/
example : unsafeFindInSlice .little exBitmap exHay 3 = .ok (firstIdx exBitmap.mem exHay) :=
  bitmap_find_spec .little (by decide) exHay (by decide) 3
example : exBitmap.findIn false .big exHay 2 = exBitmap.findIn true .big exHay 2 :=
  unsafe_eq_safe .big (by decide) exHay (by decide) 2
example : (exBitmap.findIn false .little (exHay.toArray.toList.drop 7) 1).map (Option.map (· + 7))
    = .ok (VM.findBytesPred (.set exBitmap.members) exHay.toArray 7) :=
  bitmap_find_eq_findBytes false .little (by decide) exHay.toArray (by decide) 7 1
example : firstIdx exBitmap.mem exHay = some 6 := by decide +kernel

#print axioms nibble_trick
#print axioms nibble_trick_le
#print axioms contains_spec
#print axioms contains_set
#print axioms new_spec
#print axioms bitor_spec
#print axioms bitnot_contains
#print axioms to_vec_spec
#print axioms count_bits_spec
#print axioms as_array_spec
#print axioms as_array_callers
#print axioms repr_commutes
#print axioms repr_bijective
#print axioms bitmap_find_spec
#print axioms bitmap_find_parts_spec
#print axioms align_to_split
#print axioms bitmap_find_least
#print axioms unsafe_eq_safe
#print axioms bitmap_find_eq_findBytes
#print axioms bitmap_find_eq_findBytes_ir
#print axioms byte_array_set_contains
#print axioms byte_array_set_find_spec
#print axioms array_find_eq_findBytes
#print axioms literal_find_spec
#print axioms literal_find_eq_findBytes
#print axioms empty_find_eq_findBytes
#print axioms charset_contains_spec
#print axioms ascii_contains_spec
#print axioms ascii_set_spec
#print axioms ascii_repr_commutes
#print axioms bracket_as_ascii_no_panic
#print axioms no_index_out_of_range
#print axioms format_bitmap_prints_256

end Regress.ByteSearch
