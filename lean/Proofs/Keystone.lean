import Proofs.Lemmas.KeystoneTop
import Proofs.Lemmas.SemWf
import Proofs.C04Sem
import Proofs.C06
import Proofs.C05
/-!
# Keystone: the bytecode that `emit` produces for an IR node, run by the PikeVM, computes the IR
semantics of the node

Ingredients (all in `Proofs/Lemmas/Keystone*.lean`):

* `Code I B uni n lb b e l` — the layout of the code of `n` inside a program (`KeystoneCode`), and
  `emitNode_spec`: `emitNode n s = .ok s'` appends exactly such a block, for every node kind
  (`KeystoneEmit`, `KeystoneEmitSS` for `emit_string_set`).
* `Tries` — the decomposition of the outcome of a PikeVM run into one try per success of the IR
  semantics, in priority order (`KeystoneRun`); `Rel σ s` — the machine state `s` represents the
  semantic state `σ`: same position, same capture table (`start`/`end` separately), `loop1Iters = 0`;
  the loop slots are unconstrained (`KeystoneInsn`).
* `Frag … n fwd b e l` — the continuation-style correctness statement for the code of `n` at
  `[b, e)` (`KeystoneFrag`), proved by induction on `n` in `frag_node` (`KeystoneMain`), with the
  combinators `frag_alt`, `frag_group`, `fragList_cons`, `frag_byteSeq` (16-byte chunks, reversed in a
  look-behind), `frag_stringSet` (`KeystoneSS`: the `Alt`/`Jump` chain, `lower_code_point_sequence`),
  `loop1_run` (`KeystoneLoop1`: the `loop1Iters` protocol against `loop1Iter`), `frag_loop`
  (`KeystoneLoop`: `EnterLoop`/`ResetCaptureGroup`s/`LoopAgain` against `loopIter`, induction on the
  iteration budget), `frag_look` (`KeystoneLook`: the nested run, first success of the body).
* `attempt_sem` — a whole program (`KeystoneTop`).

Side conditions on the IR (decidable, `kok`/`rootOK`; all hold for the 586 IR trees — optimized and
unoptimized — of a `rvharness compiler` run): `Goal` only as the very last thing the root does;
back-references name a group `≥ 1`; a loop maximum is not the literal `usize::MAX`; the body of a
`Loop1CharBody` is a one-instruction matcher; at most `65536` loops (`LoopID` is a `u16`) and fewer
than `2^32` groups; `WF` (C03).  On the input: well-formed UTF-8, attempts at char boundaries,
`Utf8Input::unicode` equal to the regex flag.

All statements are about outcomes that are `Fine`: neither `.outOfFuel` nor `.error`.  An `.error`
is excluded by C06 for well-formed programs (`keystone_attempt_safe`), `.outOfFuel` by a large
enough budget (C05).  Tick counts are not related (the statements are modulo `steps`/`peak`).
-/
namespace Regress.Keystone

open Regress.VM Regress.VM.Pk Regress.IR

/-- **Keystone, fragment form.** Let the code of `n` (emitted in look-behind context `!fwd`, loops
numbered from `l`) sit at `[b, e)` of `prog`.  Whenever the PikeVM runs a stack whose top state `s`
is positioned at `b` and represents the semantic state `σ` (same position and captures,
`loop1Iters = 0`, all offsets on char boundaries), a fine outcome is the outcome of trying, in
order, one state per element of `sem inp n fwd σ` — each positioned at `e`, representing that
element, with the loop slots of the loops outside `n` untouched — above the untouched rest of the
stack, and finally (when all tries are exhausted, in particular when `sem … = []`) running the
rest of the stack. -/
theorem keystone_fragment {prog : Prog} {inp : Input} {limit : Nat} {cs : List Nat}
    (ht : Utf8Text inp cs) (n : Node) (fwd : Bool) (b e l : Nat)
    (hk : kok n = true) (hw : WF n) (hnl : numLoops n ≤ 65536)
    (hc : Code prog.insns prog.brackets inp.unicode n (!fwd) b e l) :
    ∀ (s : State) (σ : St), Rel σ s → Good cs σ → s.ip = b →
      ∀ (rest : Array State) (sf steps peak : Nat),
        Fine (runStates prog inp limit sf (rest.push s) fwd steps peak) →
        Tries prog inp limit fwd (Out e l (numLoops n) s) rest (sem inp n fwd σ)
          (runStates prog inp limit sf (rest.push s) fwd steps peak) :=
  frag_node ht inp.unicode rfl n fwd b e l hk hw hnl hc

/-- `emit` lays out the code of the root node at `[0, size)`. -/
theorem keystone_emit_layout {r : Regex} {prog : Prog} (he : emit r = .ok prog) :
    Code prog.insns prog.brackets r.flags.unicode r.node false 0 prog.insns.size 0 :=
  (emit_code he).1

/-- **Keystone, whole program.** One PikeVM attempt at a char boundary `p` on the emitted program,
if it ends neither out of fuel nor in an error, ends exactly as the IR semantics says: it fails iff
`sem` has no success, and otherwise it matches with the end position and the captures of the first
success. -/
theorem keystone_attempt {r : Regex} {prog : Prog} {inp : Input} {cs : List Nat} {p : Nat}
    (he : emit r = .ok prog) (hu : r.flags.unicode = inp.unicode) (hroot : rootOK r.node = true) (hw : WF r.node)
    (hng : numGroups r.node < 4294967296) (hnl : numLoops r.node ≤ 65536)
    (ht : Utf8Text inp cs) (hb : AtBoundary cs p) (fuel : Nat)
    (hf : Fine (Pk.attempt prog inp fuel p)) :
    match firstMatch inp r.node p with
    | none => ∃ steps peak, Pk.attempt prog inp fuel p = .failed steps peak
    | some σ => ∃ st steps peak, Pk.attempt prog inp fuel p = .matched σ.pos st steps peak ∧
        capsOfState st = σ.caps :=
  attempt_first he hu hroot hw hng hnl ht hb fuel hf

/-! ## Compositions -/

/-- `Pk.capsOf` is the capture table of `capsOfState` read through `GroupData::as_range`. -/
theorem capsOf_eq (st : State) : Pk.capsOf st = (capsOfState st).map capRange := by
  simp only [Pk.capsOf, capsOfState, List.map_map]
  apply List.map_congr_left
  intro g _
  cases g with
  | mk a b => cases a <;> cases b <;> rfl

/-- **With C06 (no `.error`).** For a program that passes the structural checks of C06
(`wfProg`, `noIcaseBackref`, a phase certificate), the only proviso left is the tick budget. -/
theorem keystone_attempt_safe {r : Regex} {prog : Prog} {inp : Input} {cs : List Nat} {p : Nat}
    {c : Safety.Cert}
    (he : emit r = .ok prog) (hu : r.flags.unicode = inp.unicode) (hroot : rootOK r.node = true) (hw : WF r.node)
    (hng : numGroups r.node < 4294967296) (hnl : numLoops r.node ≤ 65536)
    (hwp : wfProg prog = true) (hnb : Safety.noIcaseBackref prog = true) (hc : Safety.checkCert prog c = true)
    (ht : Utf8Text inp cs) (hb : AtBoundary cs p) (fuel : Nat)
    (hfuel : Pk.attempt prog inp fuel p ≠ .outOfFuel) :
    match firstMatch inp r.node p with
    | none => ∃ steps peak, Pk.attempt prog inp fuel p = .failed steps peak
    | some σ => ∃ st steps peak, Pk.attempt prog inp fuel p = .matched σ.pos st steps peak ∧
        capsOfState st = σ.caps := by
  have hv : Safety.VUtf8 inp p := ⟨AtBoundary.le_len ht hb, (atBoundary_iff ht (AtBoundary.le_len ht hb)).1 hb⟩
  have hsafe := C06.pk_safe_utf8 hwp hnb hc (⟨ht.kind, ht.bytes, ht.scalar⟩ : Safety.Utf8Text inp cs) hv p fuel
  have hf : Fine (Pk.attempt prog inp fuel p) := by
    unfold Pk.attempt
    cases ho : Pk.attemptAt prog inp fuel p p with
    | error e => rw [ho] at hsafe; exact hsafe.elim
    | outOfFuel => exact absurd ho hfuel
    | matched _ _ _ _ => trivial
    | failed _ _ => trivial
  exact keystone_attempt he hu hroot hw hng hnl ht hb fuel hf

/-- **With C06 and C05 (no proviso left).** For a program without look-arounds that passes the
structural checks of C05 (`Pk.loopProg`, `Pk.loop1Scm`) and C06, every budget of at least
`3 ^ Pk.rankBound prog |haystack|` ticks gives exactly the answer of the IR semantics. -/
theorem keystone_attempt_total {r : Regex} {prog : Prog} {inp : Input} {cs : List Nat} {p : Nat}
    {c : Safety.Cert}
    (he : emit r = .ok prog) (hu : r.flags.unicode = inp.unicode) (hroot : rootOK r.node = true) (hw : WF r.node)
    (hng : numGroups r.node < 4294967296) (hnl : numLoops r.node ≤ 65536)
    (hwp : wfProg prog = true) (hnb : Safety.noIcaseBackref prog = true) (hc : Safety.checkCert prog c = true)
    (hlp : Pk.loopProg prog = true) (hl1 : Pk.loop1Scm prog = true)
    (ht : Utf8Text inp cs) (hb : AtBoundary cs p) (fuel : Nat)
    (hfuel : 3 ^ Pk.rankBound prog inp.bytes.size ≤ fuel) :
    match firstMatch inp r.node p with
    | none => ∃ steps peak, Pk.attempt prog inp fuel p = .failed steps peak
    | some σ => ∃ st steps peak, Pk.attempt prog inp fuel p = .matched σ.pos st steps peak ∧
        capsOfState st = σ.caps :=
  keystone_attempt_safe he hu hroot hw hng hnl hwp hnb hc ht hb fuel
    (C05.pk_loop_attempt_terminates prog hlp hl1 inp fuel p hfuel).1

/-- **With C03 (the optimizer).** Compile = `optimize` then `emit`: an attempt on the program
emitted for the *optimized* IR ends as the IR semantics of the *unoptimized* IR says. (The side
conditions `rootOK`, `numLoops` concern the tree that is emitted.) -/
theorem keystone_optimized {r r' : Regex} {prog : Prog} {inp : Input} {cs : List Nat} {p : Nat} {ofuel : Nat}
    (hopt : optimize ofuel r = .ok r') (he : emit r' = .ok prog) (hw : WF r.node)
    (hu : r'.flags.unicode = inp.unicode) (hroot : rootOK r'.node = true)
    (hng : numGroups r.node < 4294967296) (hnl : numLoops r'.node ≤ 65536)
    (ht : Utf8Text inp cs) (hb : AtBoundary cs p) (fuel : Nat)
    (hf : Fine (Pk.attempt prog inp fuel p)) :
    match firstMatch inp r.node p with
    | none => ∃ steps peak, Pk.attempt prog inp fuel p = .failed steps peak
    | some σ => ∃ st steps peak, Pk.attempt prog inp fuel p = .matched σ.pos st steps peak ∧
        capsOfState st = σ.caps := by
  obtain ⟨hw', hg', _⟩ := C03.optimize_preserves ht hopt hw
  rw [← C03.optimize_same_attempt ht hopt hw hb]
  exact keystone_attempt he hu hroot hw' (by rw [hg']; exact hng) hnl ht hb fuel hf

/-- **For C04Sem (the search).** At a char boundary the attempt of the PikeVM search environment
(`VM/Search.lean`) is the attempt of the search environment of the IR semantics (`semEnv`, the one
the prefilter theorems `C04Sem.prefilter_transparent_ir` etc. are about). -/
theorem keystone_searchEnv {r : Regex} {prog : Prog} {inp : Input} {cs : List Nat} {p : Nat}
    (he : emit r = .ok prog) (hu : r.flags.unicode = inp.unicode) (hroot : rootOK r.node = true) (hw : WF r.node)
    (hng : numGroups r.node < 4294967296) (hnl : numLoops r.node ≤ 65536)
    (ht : Utf8Text inp cs) (hb : AtBoundary cs p) (fuel : Nat)
    (hf : Fine (Pk.attempt prog inp fuel p)) (sp : StartPred) :
    (searchEnvPk prog inp fuel).attempt p = (semEnv inp r.node sp).attempt p := by
  have hbd : Utf8.isBoundary inp.bytes p = true := (atBoundary_iff ht (AtBoundary.le_len ht hb)).1 hb
  have := keystone_attempt he hu hroot hw hng hnl ht hb fuel hf
  simp only [searchEnvPk, semEnv, hbd, if_true]
  cases hm : firstMatch inp r.node p with
  | none =>
    rw [hm] at this
    obtain ⟨steps, peak, h⟩ := this
    rw [h]; rfl
  | some σ =>
    rw [hm] at this
    obtain ⟨st, steps, peak, h, hcaps⟩ := this
    rw [h]
    simp only [Option.map_some, capsOf_eq, hcaps]

/-! ## Non-vacuity -/

/-- `/(a|bc)\1/`-like IR (`Cat [Group 0 (Alt 'a' "bc"), BackRef 1, Goal]`). -/
def exRegex : Regex :=
  { node := .cat [.group 0 none (.alt (.byteSeq [0x61]) (.byteSeq [0x62, 0x63])), .backRef 1 false, .goal],
    flags := {} }

def exProg : Prog :=
  { insns := #[.beginCaptureGroup 0, .alt 4, .byteSeq [0x61], .jump 5, .byteSeq [0x62, 0x63],
      .endCaptureGroup 0, .backRef 0 false, .goal],
    brackets := #[], loops := 0, groups := 1, flags := {}, names := [], startPred := .set [0x61, 0x62] }

def exInp : Input := { kind := .utf8, bytes := Utf8.text [0x62, 0x63, 0x62, 0x63], unicode := false }

theorem exInp_text : Utf8Text exInp [0x62, 0x63, 0x62, 0x63] := ⟨rfl, rfl, by decide⟩

theorem exEmit : emit exRegex = .ok exProg := by
  have h : (match emit exRegex with | .ok p => decide (p = exProg) | .error _ => false) = true := by
    decide +kernel
  cases he : emit exRegex with
  | error e => rw [he] at h; cases h
  | ok p => rw [he] at h; simp at h; rw [h]
theorem exRoot : rootOK exRegex.node = true := by decide
theorem exWF : WF exRegex.node := wfNode_sound _ (by decide +kernel)

/-- The whole-program theorem applies to the example (at offset 0, every budget). -/
example (fuel : Nat) (hf : Fine (Pk.attempt exProg exInp fuel 0)) :
    match firstMatch exInp exRegex.node 0 with
    | none => ∃ steps peak, Pk.attempt exProg exInp fuel 0 = .failed steps peak
    | some σ => ∃ st steps peak, Pk.attempt exProg exInp fuel 0 = .matched σ.pos st steps peak ∧
        capsOfState st = σ.caps :=
  keystone_attempt exEmit rfl exRoot exWF (by decide) (by decide) exInp_text ⟨0, by decide, rfl⟩ fuel hf
#guard (match Pk.attempt exProg exInp 100 0 with
  | .matched e st _ _ => e == 4 && capsOfState st == [(some 0, some 2)] | _ => false)
#guard (match firstMatch exInp exRegex.node 0 with
  | some σ => σ.pos == 4 && σ.caps == [(some 0, some 2)] | none => false)

/-- … and, the example program being look-around free and passing the checks of C05/C06, for every
budget above the C05 bound without any proviso. -/
example (fuel : Nat) (hfuel : 3 ^ Pk.rankBound exProg exInp.bytes.size ≤ fuel) :
    match firstMatch exInp exRegex.node 0 with
    | none => ∃ steps peak, Pk.attempt exProg exInp fuel 0 = .failed steps peak
    | some σ => ∃ st steps peak, Pk.attempt exProg exInp fuel 0 = .matched σ.pos st steps peak ∧
        capsOfState st = σ.caps :=
  keystone_attempt_total (c := Safety.mkCert exProg) exEmit rfl exRoot exWF (by decide) (by decide)
    (by decide +kernel) (by decide +kernel) (by decide +kernel) (by decide +kernel) (by decide +kernel)
    exInp_text ⟨0, by decide, rfl⟩ fuel hfuel

/-- The IR of `/(?:a|b)*c+(x{2,3}?)\1(?=d)|(?<!y)z/` after optimization: a `Loop` with an `Alt` body,
two `Loop1CharBody`s (greedy unbounded, lazy bounded), a capture group, a back-reference, a positive
look-ahead, a negative look-behind. `exProg2` is the dump of the real compiler
(`rvharness probe`); the emitter model reproduces it (`exEmit2`). -/
def exRegex2 : Regex :=
  { node := .cat [.alt
      (.cat [.loop (.alt (.byteSeq [0x61]) (.byteSeq [0x62])) ⟨0, none, true⟩ 0 0, .byteSeq [0x63],
        .loop1 (.byteSeq [0x63]) ⟨0, none, true⟩,
        .group 0 none (.cat [.byteSeq [0x78, 0x78], .loop1 (.byteSeq [0x78]) ⟨0, some 1, false⟩]),
        .backRef 1 false, .look false false 1 1 (.byteSeq [0x64])])
      (.cat [.look true true 1 1 (.byteSeq [0x79]), .byteSeq [0x7a]]), .goal],
    flags := {} }

def exProg2 : Prog :=
  { insns := #[.alt 20, .enterLoop 0 0 none true 7, .alt 5, .byteSeq [0x61], .jump 6, .byteSeq [0x62],
      .loopAgain 1, .byteSeq [0x63], .loop1 0 none true, .byteSeq [0x63], .beginCaptureGroup 0,
      .byteSeq [0x78, 0x78], .loop1 0 (some 1) false, .byteSeq [0x78], .endCaptureGroup 0,
      .backRef 0 false, .lookahead false 1 1 19, .byteSeq [0x64], .goal, .jump 24,
      .lookbehind true 1 1 23, .byteSeq [0x79], .goal, .byteSeq [0x7a], .goal],
    brackets := #[], loops := 1, groups := 1, flags := {}, names := [], startPred := .arbitrary }

/-- "abccxxxxd" -/
def exInp2 : Input :=
  { kind := .utf8, bytes := Utf8.text [0x61, 0x62, 0x63, 0x63, 0x78, 0x78, 0x78, 0x78, 0x64], unicode := false }

theorem exInp2_text : Utf8Text exInp2 [0x61, 0x62, 0x63, 0x63, 0x78, 0x78, 0x78, 0x78, 0x64] :=
  ⟨rfl, rfl, by decide⟩

theorem exEmit2 : emit exRegex2 = .ok exProg2 := by
  have h : (match emit exRegex2 with | .ok p => decide (p = exProg2) | .error _ => false) = true := by
    decide +kernel
  cases he : emit exRegex2 with
  | error e => rw [he] at h; cases h
  | ok p => rw [he] at h; simp at h; rw [h]
theorem exRoot2 : rootOK exRegex2.node = true := by decide +kernel
theorem exWF2 : WF exRegex2.node := wfNode_sound _ (by decide +kernel)

/-- The real engine reports `0..8 [Some(4..6)]` for this haystack; so do both models. -/
example : (match Pk.attempt exProg2 exInp2 1000 0 with
  | .matched e st _ _ => e == 8 && capsOfState st == [(some 4, some 6)] | _ => false) = true := by decide +kernel
example : (match firstMatch exInp2 exRegex2.node 0 with
  | some σ => σ.pos == 8 && σ.caps == [(some 4, some 6)] | none => false) = true := by decide +kernel

example (fuel : Nat) (hf : Fine (Pk.attempt exProg2 exInp2 fuel 0)) :
    match firstMatch exInp2 exRegex2.node 0 with
    | none => ∃ steps peak, Pk.attempt exProg2 exInp2 fuel 0 = .failed steps peak
    | some σ => ∃ st steps peak, Pk.attempt exProg2 exInp2 fuel 0 = .matched σ.pos st steps peak ∧
        capsOfState st = σ.caps :=
  keystone_attempt exEmit2 rfl exRoot2 exWF2 (by decide) (by decide +kernel) exInp2_text
    ⟨0, by decide, rfl⟩ fuel hf

/-- The IR of `/[\q{abc|d|ef}]x/v` (a `StringSet`); `exProg3` is the dump of the real compiler. -/
def exRegex3 : Regex :=
  { node := .cat [.alt (.stringSet [[0x61, 0x62, 0x63], [0x65, 0x66]] false) (.byteSeq [0x64]),
      .byteSeq [0x78], .goal],
    flags := { unicode := true, unicodeSets := true } }

def exProg3 : Prog :=
  { insns := #[.alt 6, .alt 4, .byteSeq [0x61, 0x62, 0x63], .jump 5, .byteSeq [0x65, 0x66], .jump 7,
      .byteSeq [0x64], .byteSeq [0x78], .goal],
    brackets := #[], loops := 0, groups := 0, flags := { unicode := true, unicodeSets := true }, names := [],
    startPred := .arbitrary }

/-- "efx" -/
def exInp3 : Input := { kind := .utf8, bytes := Utf8.text [0x65, 0x66, 0x78], unicode := true }

theorem exInp3_text : Utf8Text exInp3 [0x65, 0x66, 0x78] := ⟨rfl, rfl, by decide⟩

theorem exEmit3 : emit exRegex3 = .ok exProg3 := by
  have h : (match emit exRegex3 with | .ok p => decide (p = exProg3) | .error _ => false) = true := by
    decide +kernel
  cases he : emit exRegex3 with
  | error e => rw [he] at h; cases h
  | ok p => rw [he] at h; simp at h; rw [h]

example : (match Pk.attempt exProg3 exInp3 1000 0 with | .matched e _ _ _ => e == 3 | _ => false) = true := by
  decide +kernel

example (fuel : Nat) (hf : Fine (Pk.attempt exProg3 exInp3 fuel 0)) :
    match firstMatch exInp3 exRegex3.node 0 with
    | none => ∃ steps peak, Pk.attempt exProg3 exInp3 fuel 0 = .failed steps peak
    | some σ => ∃ st steps peak, Pk.attempt exProg3 exInp3 fuel 0 = .matched σ.pos st steps peak ∧
        capsOfState st = σ.caps :=
  keystone_attempt exEmit3 rfl (by decide +kernel) (wfNode_sound _ (by decide +kernel)) (by decide)
    (by decide +kernel) exInp3_text ⟨0, by decide, rfl⟩ fuel hf

end Regress.Keystone

#print axioms Regress.Keystone.keystone_fragment
#print axioms Regress.Keystone.keystone_emit_layout
#print axioms Regress.Keystone.keystone_attempt
#print axioms Regress.Keystone.keystone_attempt_safe
#print axioms Regress.Keystone.keystone_attempt_total
#print axioms Regress.Keystone.keystone_optimized
#print axioms Regress.Keystone.keystone_searchEnv
