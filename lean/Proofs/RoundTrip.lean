import Proofs.Lemmas.RoundTripTop
import Proofs.Lemmas.RoundTripVClassScan
import Proofs.Lemmas.RoundTripBound
import Proofs.Certs
import Proofs.ESTerm
/-!
# RoundTrip — the parser inverts the canonical printer: pattern TEXT in, ES specification out

The chain "ES AST `a` —`Lower.toIR`→ IR —optimizer→ IR —emitter→ bytecode —PikeVM / backtracker→ result"
was proved link by link (`Proofs/Lower.lean`, `Proofs/ESTerm.lean`, `Proofs/C03.lean`,
`Proofs/Keystone.lean`, `Proofs/C02Full.lean`, `Proofs/Certs.lean`), except for the link between the
pattern *text* and the AST it denotes, which was tied by a differential only (`lower` op).  This file
closes that link from the printing side.

`Print.printPattern f a` (`RegressModel/Spec/Print.lean`) is a total, canonical printer from the ES AST
to pattern text.  **`parse_print`**: for every flags `f` and every AST `a` with printable names
(`lexOK`) and without conflicting duplicate group names (`noDup`), if `toIR f a = .ok r` then the parser model
maps the printed text to the same regex: `Parse.parse (printPattern f a) (irFlags f) = .ok r`.  So for the
text `printPattern f a` *every* step from text to result is a theorem
(`printed_pattern_correct_pk` / `printed_pattern_correct_bt`).

All four stages are proved, by one induction over the AST (`Proofs/Lemmas/RoundTrip*.lean`):
A characters, `.`, anchors, `\b \B`, sequences, alternations, groups, look-arounds, quantifiers;
B back-references, named groups and `\k<name>` (with the capture-group pre-scan);
C class escapes, `\p{…}`, legacy / `u`-mode brackets; D `v`-mode class sets with nested classes,
`&&`, `--`, `\q{…}`, and modifier groups.

## Hypotheses

* `lexOK a`: group names are identifiers of valid code points (the printer prints them raw), property
  names are packed ASCII names (`Packed.nameOfBytes` of letters, digits, `_`).
* `noDup a`: two groups with the same name are in different alternatives of a common disjunction (ES2025
  duplicate named groups).  This is the specification's early error: it follows from
  `ES.groupNames a = .ok _` (`noDup_of_groupNames`).  It cannot be dropped: `toIR` does not model the
  parser's duplicate check (`check_duplicate_conflicts`), so for `/(?<a>x)(?<a>y)/` `toIR` succeeds where
  the parser — model and real engine — reports "Duplicate capture group name" (example below).  The proof
  follows the alternative paths that `collect_named_group_locations` records
  (`Proofs/Lemmas/RoundTripPaths*.lean`).
* `toIR f a = .ok r`: the AST is lowerable (bounds in order and below `usize::MAX`, back-references in
  range, names resolvable, limits respected, classes of the kind the flags select).
* in the corollaries additionally: `Lower.supported` (the fragment of `lower_attempt_total`), `cpOK a`
  (literal code points `≤ 0x10FFFF`) and `maxOK r.node` (as in `Proofs/Certs.lean`).

## Files

`RoundTripBase` (hex / decimal / quantifier text), `RoundTripDefs` (the four statements per node and
their generic implications), `RoundTripAtoms`, `RoundTripGroups`, `RoundTripNames`, `RoundTripMods`,
`RoundTripProp`, `RoundTripClass`, `RoundTripVClass{,2,3}` (the constructor cases), `RoundTripDescent`
(the induction), `RoundTripScan`, `RoundTripScanNode`, `RoundTripPrescan`, `RoundTripVClassScan`,
`RoundTripPaths{,2,3,4,5}` (the capture-group pre-scan and its duplicate check), `RoundTripNF`
(normal form, nesting depth), `RoundTripBound` (code points), `RoundTripTop` (`try_parse`).

## Validation before proving

`parse (printPattern f a) = toIR f a` was first checked by evaluation on 7 500 generated ASTs
(`rvharness lower`, seeds 7 and 11: 0 differences), and for 399 of them the program the REAL engine
compiles from the printed text (`rvharness probe`) is the program the Lean pipeline compiles from it.

Only the direction "`toIR` succeeds ⇒ the parser returns the same regex" holds in general: e.g. for
`[\p{Lu}]` without `u`/`v` the parser reads `\p` as an identity escape and succeeds while `toIR` reports
the AST as invalid.  Under `printable` (which contains "`toIR` succeeds") the equivalence
`parse_print_iff` follows.
-/
namespace Regress.RoundTrip

open Regress Regress.IR Regress.VM Regress.Lower Regress.Print

/-! ## 1. The parser inverts the printer -/

/-- The class-atom cases and the class pre-scan cases of the induction. -/
theorem classAtoms (P : ES.Node) (T : Nat) : ClassAtoms P T :=
  ⟨atom_prop, atom_cls, atom_vcls⟩

/-- **`parse_print`.**  For every flags `f` and AST `a` with printable names and no conflicting duplicates: if
`toIR f a` is the regex `r` then the parser returns `r` on the printed text. -/
theorem parse_print {f : ES.Flags} {a : ES.Node} {r : Regex}
    (hlex : lexOK a = true) (hnames : noDup a = true) (hir : toIR f a = .ok r) :
    Parse.parse (printPattern f a) (irFlags f) = .ok r :=
  parse_print_core classAtoms (clsScan _) (vclsScan _) hlex hnames hir

/-- The printable class: printable names, no conflicting duplicate names, lowerable. -/
def printable (f : ES.Flags) (a : ES.Node) : Bool :=
  lexOK a && noDup a && (toIR f a).toBool

/-- **`parse_print_iff`.**  On the printable class the parser on the printed text and `toIR` on the AST
return the same regex. -/
theorem parse_print_iff {f : ES.Flags} {a : ES.Node} (hp : printable f a = true) (r : Regex) :
    Parse.parse (printPattern f a) (irFlags f) = .ok r ↔ toIR f a = .ok r := by
  simp only [printable, Bool.and_eq_true] at hp
  obtain ⟨⟨hlex, hnames⟩, hok⟩ := hp
  cases hir : toIR f a with
  | error e => rw [hir] at hok; cases hok
  | ok r0 =>
    rw [parse_print hlex hnames hir]
    constructor
    · intro h; cases h; rfl
    · intro h; cases h; rfl

/-- `parse_print` for an AST that passes the specification's duplicate-name early error (`ES.groupNames`). -/
theorem parse_print_of_groupNames {f : ES.Flags} {a : ES.Node} {r : Regex} {l : List (List Nat)}
    (hlex : lexOK a = true) (hnames : ES.groupNames a = .ok l) (hir : toIR f a = .ok r) :
    Parse.parse (printPattern f a) (irFlags f) = .ok r :=
  parse_print hlex (noDup_of_groupNames hnames) hir

/-- Every code point of the printed pattern is `≤ 0x10FFFF` (what `Proofs/Certs.lean` asks of a pattern). -/
theorem printPattern_bound (f : ES.Flags) (a : ES.Node) (hc : cpOK a = true) (hl : lexOK a = true) :
    ∀ c ∈ printPattern f a, c ≤ 0x10FFFF :=
  printPattern_le f a hc hl

/-! ## 2. Text in, specification out -/

theorem toIR_flags {f : ES.Flags} {a : ES.Node} {r : Regex} (h : toIR f a = .ok r) : r.flags = irFlags f := by
  simp only [toIR] at h
  split at h
  · cases h
  · split at h
    · cases h
    · split at h
      · split at h
        · cases h
        · cases h; rfl
      · cases h; rfl

/-- **The printed pattern compiles**: for a printable AST with code points `≤ 0x10FFFF` the pipeline
`Regex::from_unicode` on the printed text returns a program (the same for every sufficient optimizer
fuel). -/
theorem printed_pattern_compiles {f : ES.Flags} {a : ES.Node} {r : Regex}
    (hlex : lexOK a = true) (hnames : noDup a = true) (hcp : cpOK a = true) (hir : toIR f a = .ok r) :
    ∃ prog, ∀ fuel, C07.compileFuel (printPattern f a) (irFlags f) ≤ fuel →
      C07.compile fuel (printPattern f a) (irFlags f) = .ok prog := by
  have hp := parse_print hlex hnames hir
  rcases C07.compile_total (printPattern f a) (irFlags f) (printPattern_bound f a hcp hlex) with h | ⟨m, h⟩ | ⟨m, h⟩
  · exact h
  · have := h 0
    simp only [C07.compile, hp] at this
    split at this
    · cases this
    · split at this <;> cases this
  · have := h 0
    simp only [C07.compile, hp] at this
    split at this
    · cases this
    · split at this <;> cases this

section
variable {f : ES.Flags} {a : ES.Node} {r : Regex} {prog : Prog} {ofuel : Nat} {inp : Input} {cs : List Nat}

/-- **`printed_pattern_correct_pk`** (kept: `supported`, `maxOK`).  For every supported AST `a`, flags `f`,
UTF-8 haystack `cs` and start index `i`: the program compiled from the *text* `printPattern f a`, run by
the PikeVM model from the byte offset of `i`, returns exactly what the ECMAScript specification
prescribes for `a` at `i` — both fail, or both match with the same end and the same captures. -/
theorem printed_pattern_correct_pk
    (hsup : supported (normalize a) (irFlags f) (normalize a) = true)
    (hlex : lexOK a = true) (hnames : noDup a = true) (hcp : cpOK a = true)
    (hir : toIR f a = .ok r) (hmax : E2E.maxOK r.node = true)
    (hc : C07.compile ofuel (printPattern f a) (irFlags f) = .ok prog)
    (ht : Utf8Text inp cs) (hiu : inp.unicode = (f.u || f.v))
    (i : Nat) (hi : i ≤ cs.length) (fuelES fuelVM : Nat)
    (hfES : ES.esFuelBound a cs.length ≤ fuelES) (hfVM : Pk.lookBound prog inp.len ≤ fuelVM) :
    match ES.matchAt cs.toArray a (ES.RER.ofFlags f (ES.countParens a)) fuelES i with
    | .outOfFuel => False
    | .failure => ∃ steps peak, Pk.attempt prog inp fuelVM (Utf8.off cs i) = .failed steps peak
    | .success y => ∃ st steps peak,
        Pk.attempt prog inp fuelVM (Utf8.off cs i) = .matched (Utf8.off cs y.endIndex) st steps peak ∧
        Rel cs y { pos := Utf8.off cs y.endIndex, caps := Keystone.capsOfState st } := by
  have hb := printPattern_bound f a hcp hlex
  have hp := parse_print hlex hnames hir
  obtain ⟨re', C⟩ := EndToEnd.compiled_tree hb hp hc hmax
  have hu : prog.flags.unicode = inp.unicode := by
    rw [C.pflags, toIR_flags hir, hiu]; rfl
  have hpk := Certs.compile_correct_pk_total hb hp hc hmax ht hu (p := Utf8.off cs i) ⟨i, hi, rfl⟩ fuelVM hfVM
  rcases lower_attempt_total hsup hir ht hiu i hi fuelES hfES with ⟨hm, hfm⟩ | ⟨y, s, hm, hfm, hrel⟩
  · rw [hm]
    rw [hfm] at hpk
    exact hpk
  · rw [hm]
    rw [hfm] at hpk
    obtain ⟨st, steps, peak, ho, hcaps⟩ := hpk
    refine ⟨st, steps, peak, by rw [ho, hrel.pos], ?_⟩
    rw [hcaps, ← hrel.pos]
    exact hrel

/-- **`printed_pattern_correct_bt`** (kept: `supported`, `maxOK`).  The same for the backtracking
executor; the capture ranges it reports (`Bt.capsOf`) are those of an IR state related (`Rel`) to the
specification's result. -/
theorem printed_pattern_correct_bt
    (hsup : supported (normalize a) (irFlags f) (normalize a) = true)
    (hlex : lexOK a = true) (hnames : noDup a = true) (hcp : cpOK a = true)
    (hir : toIR f a = .ok r) (hmax : E2E.maxOK r.node = true)
    (hc : C07.compile ofuel (printPattern f a) (irFlags f) = .ok prog)
    (ht : Utf8Text inp cs) (hiu : inp.unicode = (f.u || f.v))
    (i : Nat) (hi : i ≤ cs.length) (fuelES fuelVM : Nat)
    (hfES : ES.esFuelBound a cs.length ≤ fuelES) (hfVM : Pk.lookBound prog inp.len ≤ fuelVM) :
    match ES.matchAt cs.toArray a (ES.RER.ofFlags f (ES.countParens a)) fuelES i with
    | .outOfFuel => False
    | .failure => ∃ st steps peak, Bt.attempt prog inp fuelVM (Utf8.off cs i) = .failed st steps peak
    | .success y => ∃ st steps peak s,
        Bt.attempt prog inp fuelVM (Utf8.off cs i) = .matched (Utf8.off cs y.endIndex) st steps peak ∧
        Rel cs y s ∧ Bt.capsOf st = s.caps.map capRange := by
  have hb := printPattern_bound f a hcp hlex
  have hp := parse_print hlex hnames hir
  obtain ⟨re', C⟩ := EndToEnd.compiled_tree hb hp hc hmax
  have hu : prog.flags.unicode = inp.unicode := by
    rw [C.pflags, toIR_flags hir, hiu]; rfl
  have hbt := Certs.compile_correct_bt hb hp hc hmax ht hu (p := Utf8.off cs i) ⟨i, hi, rfl⟩ fuelVM hfVM
  rcases lower_attempt_total hsup hir ht hiu i hi fuelES hfES with ⟨hm, hfm⟩ | ⟨y, s, hm, hfm, hrel⟩
  · rw [hm]
    rw [hfm] at hbt
    exact hbt
  · rw [hm]
    rw [hfm] at hbt
    obtain ⟨st, steps, peak, ho, hcaps⟩ := hbt
    exact ⟨st, steps, peak, s, by rw [ho, hrel.pos], hrel, hcaps⟩

end

/-! ## 3. Non-vacuity -/

section Examples

open Lean in
local macro "pat!" s:str : term => do
  let cs := s.getString.toList.map (fun c => Syntax.mkNumLit (toString c.toNat))
  `(([$(cs.toArray),*] : List Nat))

/-- `/(?<=a)(?<n>b|c)\k<n>\1{1,2}?/`: a look-behind, a named group, a named and a numeric back-reference,
a lazy counted quantifier. -/
def ex1 : ES.Node :=
  .cat [.look false false (.char 0x61), .group 1 (some [0x6E]) (.alt [.char 0x62, .char 0x63]), .nref [0x6E],
    .quant 1 (some 2) false (.bref 1)]

example : printPattern {} ex1 = pat! "(?<=a)(?<n>b|c)\\k<n>\\1{1,2}?" := by decide

theorem ex1_printable : printable {} ex1 = true := by decide +kernel
theorem ex1_lex : lexOK ex1 = true := by decide +kernel
theorem ex1_names : noDup ex1 = true := by decide +kernel
theorem ex1_cp : cpOK ex1 = true := by decide +kernel
theorem ex1_sup : supported (normalize ex1) (irFlags {}) (normalize ex1) = true := by decide +kernel

/-- `parse_print` applies to `ex1`: the parser on the printed text returns what `toIR` returns. -/
example : ∃ r, toIR {} ex1 = .ok r ∧ Parse.parse (printPattern {} ex1) (irFlags {}) = .ok r := by
  have hok : (toIR {} ex1).toBool = true := by decide +kernel
  cases h : toIR {} ex1 with
  | error e => rw [h] at hok; cases hok
  | ok r => exact ⟨r, rfl, parse_print ex1_lex ex1_names h⟩

/-- The shape `Cat [Cat [LookBehind(a), Group 0 "n" (Alt b c), BackRef 1, Loop{1,2,lazy}(BackRef 1)], Goal]`. -/
def ex1Shape : Node → Bool
  | .cat [.cat [.look false true 0 0 (.char 0x61), .group 0 (some [0x6E]) (.alt (.char 0x62) (.char 0x63)),
      .backRef 1 false, .loop (.backRef 1 false) q 1 1], .goal] =>
    q.min == 1 && q.max == some 2 && !q.greedy
  | _ => false

/-- … and that regex is the sequence look-behind, named group, back-reference, lazy loop (evaluated). -/
example : (match Parse.parse (printPattern {} ex1) (irFlags {}) with
    | .ok r => ex1Shape r.node
    | .error _ => false) = true := by decide +kernel

def ex1Check : Bool :=
  match toIR {} ex1 with
  | .error _ => false
  | .ok r =>
    E2E.maxOK r.node &&
      (match C07.compile (C07.compileFuel (printPattern {} ex1) (irFlags {})) (printPattern {} ex1) (irFlags {}) with
       | .ok _ => true
       | .error _ => false)

theorem ex1Check_ok : ex1Check = true := by decide +kernel

/-- "abbb" -/
def ex1Inp : Input := { kind := .utf8, bytes := Utf8.text [0x61, 0x62, 0x62, 0x62], unicode := false }
theorem ex1Text : Utf8Text ex1Inp [0x61, 0x62, 0x62, 0x62] := ⟨rfl, rfl, by decide⟩

/-- `printed_pattern_correct_pk` / `_bt` apply to `ex1` on "abbb" from index 1: the program compiled from
the printed text agrees with the specification for every sufficient pair of budgets. -/
example : ∃ r prog, toIR {} ex1 = .ok r ∧
    C07.compile (C07.compileFuel (printPattern {} ex1) (irFlags {})) (printPattern {} ex1) (irFlags {}) = .ok prog ∧
    ∀ (fuelES fuelVM : Nat), ES.esFuelBound ex1 4 ≤ fuelES → Pk.lookBound prog ex1Inp.len ≤ fuelVM →
      (match ES.matchAt ([0x61, 0x62, 0x62, 0x62] : List Nat).toArray ex1 (ES.RER.ofFlags {} (ES.countParens ex1))
          fuelES 1 with
       | .outOfFuel => False
       | .failure => ∃ steps peak,
          Pk.attempt prog ex1Inp fuelVM (Utf8.off [0x61, 0x62, 0x62, 0x62] 1) = .failed steps peak
       | .success y => ∃ st steps peak,
          Pk.attempt prog ex1Inp fuelVM (Utf8.off [0x61, 0x62, 0x62, 0x62] 1) =
            .matched (Utf8.off [0x61, 0x62, 0x62, 0x62] y.endIndex) st steps peak ∧
          Rel [0x61, 0x62, 0x62, 0x62] y
            { pos := Utf8.off [0x61, 0x62, 0x62, 0x62] y.endIndex, caps := Keystone.capsOfState st }) ∧
      (match ES.matchAt ([0x61, 0x62, 0x62, 0x62] : List Nat).toArray ex1 (ES.RER.ofFlags {} (ES.countParens ex1))
          fuelES 1 with
       | .outOfFuel => False
       | .failure => ∃ st steps peak,
          Bt.attempt prog ex1Inp fuelVM (Utf8.off [0x61, 0x62, 0x62, 0x62] 1) = .failed st steps peak
       | .success y => ∃ st steps peak s,
          Bt.attempt prog ex1Inp fuelVM (Utf8.off [0x61, 0x62, 0x62, 0x62] 1) =
            .matched (Utf8.off [0x61, 0x62, 0x62, 0x62] y.endIndex) st steps peak ∧
          Rel [0x61, 0x62, 0x62, 0x62] y s ∧ Bt.capsOf st = s.caps.map capRange) := by
  have hc := ex1Check_ok
  unfold ex1Check at hc
  cases h1 : toIR {} ex1 with
  | error e => rw [h1] at hc; cases hc
  | ok r =>
    rw [h1] at hc
    simp only [Bool.and_eq_true] at hc
    obtain ⟨hmax, hc⟩ := hc
    cases h2 : C07.compile (C07.compileFuel (printPattern {} ex1) (irFlags {})) (printPattern {} ex1) (irFlags {}) with
    | error e => rw [h2] at hc; cases hc
    | ok prog =>
      refine ⟨r, prog, rfl, rfl, fun fuelES fuelVM hfe hfv => ⟨?_, ?_⟩⟩
      · exact printed_pattern_correct_pk ex1_sup ex1_lex ex1_names ex1_cp h1 hmax h2 ex1Text rfl 1 (by decide)
          fuelES fuelVM hfe hfv
      · exact printed_pattern_correct_bt ex1_sup ex1_lex ex1_names ex1_cp h1 hmax h2 ex1Text rfl 1 (by decide)
          fuelES fuelVM hfe hfv

/-- The specification side of that instance: the match `1..4` with group 1 = `1..2`. -/
example : ES.esFuelBound ex1 4 ≤ 8 := by decide
example : ES.matchAt #[0x61, 0x62, 0x62, 0x62] ex1 (ES.RER.ofFlags {} (ES.countParens ex1)) 8 1 =
    .success ⟨4, [some (1, 2)]⟩ := by decide +kernel

/-- `/[a\x30-\x39\q{xy|z}[^\w&&[a-f]]]\p{Lu}{0,}|(?i-s:.)/v`: a `v`-mode class set with a range, a string
disjunction and a nested negated intersection, a property escape under a quantifier, a modifier group. -/
def ex2 : ES.Node :=
  .alt [.cat [.vcls false .union [.c 0x61, .r 0x30 0x39, .q [[0x78, 0x79], [0x7A]],
      .cls true .inter [.esc .w, .cls false .union [.r 0x61 0x66]]],
    .quant 0 none true (.prop false 0 (Packed.nameOfBytes [0x4C, 0x75]))],
   .mod { i := true } { s := true } .dot]

example : printPattern { v := true } ex2 =
    pat! "[a\\x30-\\x39\\q{xy|z}[^\\w&&[a-f]]]\\p{Lu}{0,}|(?i-s:.)" := by decide +kernel

theorem ex2_printable : printable { v := true } ex2 = true := by decide +kernel

example : ∃ r, toIR { v := true } ex2 = .ok r ∧
    Parse.parse (printPattern { v := true } ex2) (irFlags { v := true }) = .ok r := by
  have hp := ex2_printable
  simp only [printable, Bool.and_eq_true] at hp
  cases h : toIR { v := true } ex2 with
  | error e => rw [h] at hp; cases hp.2
  | ok r => exact ⟨r, rfl, parse_print hp.1.1 hp.1.2 h⟩

/-- `/[\d\x2d-\x2f\p{sc=Greek}][^€]/u`: legacy-syntax brackets under `u` with a class escape, a range,
a script property and a negated class. -/
def ex3 : ES.Node :=
  .cat [.cls false [.esc .d, .r 0x2D 0x2F, .prop false 2 (Packed.nameOfBytes [0x47, 0x72, 0x65, 0x65, 0x6B])],
    .cls true [.c 0x20AC]]

example : printPattern { u := true } ex3 = pat! "[\\d\\x2d-\\x2f\\p{sc=Greek}][^\\u20ac]" := by decide +kernel

theorem ex3_printable : printable { u := true } ex3 = true := by decide +kernel

example : ∃ r, toIR { u := true } ex3 = .ok r ∧
    Parse.parse (printPattern { u := true } ex3) (irFlags { u := true }) = .ok r := by
  have hp := ex3_printable
  simp only [printable, Bool.and_eq_true] at hp
  cases h : toIR { u := true } ex3 with
  | error e => rw [h] at hp; cases hp.2
  | ok r => exact ⟨r, rfl, parse_print hp.1.1 hp.1.2 h⟩

/-- `/(?<d>a)\k<d>|(?:(?<d>b)|c(?<d>d))+/`: the same name in three different alternatives (ES2025 duplicate
named groups), nested in a quantified group; `\k<d>` refers to all three. -/
def ex4 : ES.Node :=
  .alt [.cat [.group 1 (some [0x64]) (.char 0x61), .nref [0x64]],
    .quant 1 none true (.alt [.group 2 (some [0x64]) (.char 0x62),
      .cat [.char 0x63, .group 3 (some [0x64]) (.char 0x64)]])]

example : printPattern {} ex4 = pat! "(?<d>a)\\k<d>|(?:(?<d>b)|c(?<d>d)){1,}" := by decide +kernel

theorem ex4_printable : printable {} ex4 = true := by decide +kernel

example : ∃ r, toIR {} ex4 = .ok r ∧ Parse.parse (printPattern {} ex4) (irFlags {}) = .ok r := by
  have hp := ex4_printable
  simp only [printable, Bool.and_eq_true] at hp
  cases h : toIR {} ex4 with
  | error e => rw [h] at hp; cases hp.2
  | ok r => exact ⟨r, rfl, parse_print hp.1.1 hp.1.2 h⟩

/-- Only one direction holds outside the printable class: `[\p{Lu}]` without `u`/`v` is accepted by the
parser (`\p` is an identity escape there) but is not a valid AST for `toIR`. -/
example : (toIR {} (.cls false [.prop false 0 (Packed.nameOfBytes [0x4C, 0x75])])).toBool = false ∧
    (Parse.parse (printPattern {} (.cls false [.prop false 0 (Packed.nameOfBytes [0x4C, 0x75])])) (irFlags {})).toBool
      = true := by decide +kernel

/-- The hypothesis `noDup` cannot be dropped: `/(?<a>x)(?<a>y)/` lowers (`toIR` has no duplicate
check) but the parser rejects the printed text ("Duplicate capture group name"). -/
example : (toIR {} (.cat [.group 1 (some [0x61]) (.char 0x78), .group 2 (some [0x61]) (.char 0x79)])).toBool = true ∧
    (Parse.parse (printPattern {} (.cat [.group 1 (some [0x61]) (.char 0x78), .group 2 (some [0x61]) (.char 0x79)]))
      (irFlags {})).toBool = false := by decide +kernel

end Examples

end Regress.RoundTrip

#print axioms Regress.RoundTrip.parse_print
#print axioms Regress.RoundTrip.parse_print_iff
#print axioms Regress.RoundTrip.parse_print_of_groupNames
#print axioms Regress.RoundTrip.printPattern_bound
#print axioms Regress.RoundTrip.printed_pattern_compiles
#print axioms Regress.RoundTrip.printed_pattern_correct_pk
#print axioms Regress.RoundTrip.printed_pattern_correct_bt
