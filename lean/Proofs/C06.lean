import Proofs.Lemmas.SafetyPk
/-!
# C06 — memory safety / panic freedom of the two interpreters

The models `Regress.VM.Bt` (`src/classicalbacktrack.rs`) and `Regress.VM.Pk` (`src/pikevm.rs`) turn
every unchecked read, `unreachable_unchecked` and panic of the Rust code into an explicit
`Outcome.error site`. The theorems below say that no such result is reachable from a well-formed
program (`wfProg`, evaluated by the test harness on every program the real compiler emits) on valid
input, and that every reported position is in range (and, for UTF-8 input, a char boundary).

`Bt.Post QM QF o` / `Pk.PkPost … o` are *false* on `.error _`, so each theorem contains "no error".
-/
namespace Regress.C06
open Regress.VM Regress.VM.Safety

/-! ## Shared -/

theorem wf_size_pos {prog : Prog} (hw : wfProg prog = true) : 0 < prog.insns.size := by
  simp only [wfProg, Bool.and_eq_true, Bool.or_eq_true, beq_iff_eq] at hw
  obtain ⟨⟨⟨⟨⟨⟨h1, _⟩, _⟩, _⟩, _⟩, _⟩, _⟩ := hw
  rw [Array.back?_eq_getElem?] at h1
  rcases h1 with h1 | h1 <;> exact Nat.lt_of_le_of_lt (Nat.zero_le _) (lt_of_getElem?_eq_some h1)

theorem Bt.Post.mono {QM QM' : Nat → Bt.State → Prop} {QF QF' : Bt.State → Prop} {o : Bt.Outcome}
    (h : Bt.Post QM QF o) (hm : ∀ e st, QM e st → QM' e st) (hf : ∀ st, QF st → QF' st) :
    Bt.Post QM' QF' o := by
  cases o with
  | matched e st _ _ => exact hm e st h
  | failed st _ _ => exact hf st h
  | outOfFuel => trivial
  | error _ => exact h

/-- The fresh matcher state is good (for any storable-position predicate). -/
theorem freshState_ok (prog : Prog) (V : Nat → Prop) (entry : Nat) :
    Bt.StateOK prog V (Bt.freshState prog entry) := by
  refine ⟨by simp [Bt.freshState], by simp [Bt.freshState], ?_⟩
  intro g gd h
  simp only [Bt.freshState, Array.getElem?_replicate] at h
  split at h <;> cases h
  exact ⟨fun s h => (by cases h), fun s h => (by cases h)⟩

theorem initState_ok (prog : Prog) (V : Nat → Prop) (pos entry : Nat) :
    Pk.DataOK prog V (Pk.initState prog pos entry) := by
  refine ⟨by simp [Pk.initState], by simp [Pk.initState], ?_⟩
  intro g gd h
  simp only [Pk.initState, Array.getElem?_replicate] at h
  split at h <;> cases h
  exact ⟨fun s h => (by cases h), fun s h => (by cases h)⟩

/-- Every reported capture of a good state consists of storable positions. -/
theorem caps_ok {prog : Prog} {V : Nat → Prop} {st : Bt.State} (h : Bt.StateOK prog V st) :
    ∀ s e, some (s, e) ∈ Bt.capsOf st → V s ∧ V e := by
  intro s e hm
  simp only [Bt.capsOf, List.mem_map] at hm
  obtain ⟨gd, hgd, hr⟩ := hm
  rw [Array.mem_toList_iff, Array.mem_iff_getElem?] at hgd
  obtain ⟨i, hi⟩ := hgd
  have hok := h.gok i gd hi
  unfold Bt.GroupData.asRange at hr
  split at hr
  · rename_i s' e' h1 h2; cases hr; exact ⟨hok.1 _ h1, hok.2 _ h2⟩
  · cases hr

theorem pk_caps_ok {prog : Prog} {V : Nat → Prop} {st : Pk.State} (h : Pk.DataOK prog V st) :
    ∀ s e, some (s, e) ∈ Pk.capsOf st → V s ∧ V e := by
  intro s e hm
  simp only [Pk.capsOf, List.mem_map] at hm
  obtain ⟨gd, hgd, hr⟩ := hm
  rw [Array.mem_toList_iff, Array.mem_iff_getElem?] at hgd
  obtain ⟨i, hi⟩ := hgd
  have hok := h.gok i gd hi
  unfold Bt.GroupData.asRange at hr
  split at hr
  · rename_i s' e' h1 h2; cases hr; exact ⟨hok.1 _ h1, hok.2 _ h2⟩
  · cases hr

/-! ## Stage 1 — ASCII input

`noIcaseBackref prog` excludes `BackRef { icase: true }`: for that instruction `backref_icase`
slices the haystack with the *unchecked* range `start..end` of the group, which is safe only if
`start ≤ end`; this ordering is a property of the emitter's `ResetCaptureGroup` discipline that the
structural check `wfProg` does not capture (see the report). -/

/-- General form: any configuration satisfying the invariant `Bt.Inv` (see `SafetyBt`). -/
theorem bt_run_safe_ascii {prog : Prog} {inp : Input} (hw : wfProg prog = true)
    (hnb : noIcaseBackref prog = true) (hk : inp.kind = .ascii) (limit sf b ip pos : Nat) (fwd : Bool)
    (st : Bt.State) (bts : Array Bt.BtInsn) (steps peak : Nat)
    (hinv : Bt.Inv prog (AsciiA prog inp) (· ≤ inp.len) b fwd ip pos st bts) :
    Bt.Post (Bt.QMs prog (· ≤ inp.len) b fwd) (Bt.StateOK prog (· ≤ inp.len))
      (Bt.run prog inp limit sf ip pos fwd st bts steps peak) :=
  Bt.run_safe (specAscii hw hk) hw hnb limit sf b ip pos fwd st bts steps peak hinv

/-- **`bt_safe_ascii` + `bt_result_in_range`.** A forward run from instruction 0 with the stack
`[Exhausted]` on a good state: no error; a match ends at `e` with `pos ≤ e ≤ len` and leaves a good
state (all group ends `≤ len`); a failure leaves a good state. -/
theorem bt_safe_ascii {prog : Prog} {inp : Input} (hw : wfProg prog = true)
    (hnb : noIcaseBackref prog = true) (hk : inp.kind = .ascii) {pos : Nat} (hp : pos ≤ inp.len)
    {st : Bt.State} (hst : Bt.StateOK prog (· ≤ inp.len) st) (sf limit : Nat) :
    Bt.Post (fun e st' => pos ≤ e ∧ e ≤ inp.len ∧ Bt.StateOK prog (· ≤ inp.len) st')
      (Bt.StateOK prog (· ≤ inp.len))
      (Bt.run prog inp limit sf 0 pos true st #[.exhausted] 0 0) := by
  have := bt_run_safe_ascii hw hnb hk limit sf pos 0 pos true st #[.exhausted] 0 0
    ⟨⟨wf_size_pos hw, hp⟩, MovedLe.refl _ _, hst, Bt.stackOK_init _ _⟩
  exact Bt.Post.mono this (fun e st' h => ⟨h.2.1.1 rfl, h.1, h.2.2⟩) (fun _ h => h)

theorem bt_attemptWith_safe_ascii {prog : Prog} {inp : Input} (hw : wfProg prog = true)
    (hnb : noIcaseBackref prog = true) (hk : inp.kind = .ascii) {pos : Nat} (hp : pos ≤ inp.len)
    {st : Bt.State} (hst : Bt.StateOK prog (· ≤ inp.len) st) (fuel : Nat) :
    Bt.Post (fun e st' => pos ≤ e ∧ e ≤ inp.len ∧ Bt.StateOK prog (· ≤ inp.len) st')
      (Bt.StateOK prog (· ≤ inp.len)) (Bt.attemptWith prog inp fuel pos st) :=
  bt_safe_ascii hw hnb hk hp hst fuel fuel

/-- One attempt on a fresh matcher: no error; the match range and every capture are within the
haystack. -/
theorem bt_attemptFresh_safe_ascii {prog : Prog} {inp : Input} (hw : wfProg prog = true)
    (hnb : noIcaseBackref prog = true) (hk : inp.kind = .ascii) {pos : Nat} (hp : pos ≤ inp.len)
    (fuel : Nat) :
    Bt.Post (fun e st' => pos ≤ e ∧ e ≤ inp.len ∧
        ∀ s e', some (s, e') ∈ Bt.capsOf st' → s ≤ inp.len ∧ e' ≤ inp.len)
      (fun _ => True) (Bt.attemptFresh prog inp fuel pos) :=
  Bt.Post.mono (bt_attemptWith_safe_ascii hw hnb hk hp (freshState_ok prog _ 0) fuel)
    (fun _ _ h => ⟨h.1, h.2.1, caps_ok h.2.2⟩) (fun _ _ => trivial)

/-- General form for the PikeVM: any stack of good threads. -/
theorem pk_run_safe_ascii {prog : Prog} {inp : Input} (hw : wfProg prog = true)
    (hnb : noIcaseBackref prog = true) (hk : inp.kind = .ascii) (limit sf : Nat)
    (states : Array Pk.State) (fwd : Bool) (steps peak b : Nat)
    (hall : Pk.AllOK prog (AsciiA prog inp) (· ≤ inp.len) b fwd states) :
    Pk.PkPost prog (· ≤ inp.len) b fwd (Pk.runStates prog inp limit sf states fwd steps peak) :=
  Pk.runStates_safe (specAscii hw hk) hw hnb limit sf states fwd steps peak b hall

/-- **`pk_safe_ascii` + `pk_result_in_range`.** One PikeVM attempt: no error; on a match
`pos ≤ e ≤ len`, `e` is the position of the returned state, and all captures are within the
haystack. -/
theorem pk_safe_ascii {prog : Prog} {inp : Input} (hw : wfProg prog = true)
    (hnb : noIcaseBackref prog = true) (hk : inp.kind = .ascii) {pos : Nat} (hp : pos ≤ inp.len)
    (entry fuel : Nat) :
    match Pk.attemptAt prog inp fuel pos entry with
    | .error _ => False
    | .matched e st _ _ => pos ≤ e ∧ e ≤ inp.len ∧ e = st.pos ∧
        ∀ s e', some (s, e') ∈ Pk.capsOf st → s ≤ inp.len ∧ e' ≤ inp.len
    | _ => True := by
  have := pk_run_safe_ascii hw hnb hk fuel (fuel + 1) #[Pk.initState prog pos entry] true 0 0 pos
    (Pk.AllOK.single ⟨⟨wf_size_pos hw, hp⟩, MovedLe.refl _ _, initState_ok prog _ pos entry⟩)
  unfold Pk.attemptAt Pk.tryAtPos
  cases hr : Pk.runStates prog inp fuel (fuel + 1) #[Pk.initState prog pos entry] true 0 0 with
  | error e => rw [hr] at this; exact this
  | matched e st _ _ => rw [hr] at this; exact ⟨this.2.2.1.1 rfl, this.2.1, this.1, pk_caps_ok this.2.2.2⟩
  | failed _ _ => trivial
  | outOfFuel => trivial

/-! ### Non-vacuity: a real program (`rvharness probe "" '(?<=(a+))b\1|c{2,3}?[^x]*'`) -/

/-- Dump of `/(?<=(a+))b\1|c{2,3}?[^x]*/`: a look-behind with a capture group, greedy and non-greedy
`loop1`, a back-reference, a bracket. -/
def exProg1 : Prog :=
  { insns := #[.alt 11,
      .lookbehind false 0 1 8,
      .beginCaptureGroup 0,
      .byteSeq [0x61],
      .loop1 0 none true,
      .byteSeq [0x61],
      .endCaptureGroup 0,
      .goal,
      .byteSeq [0x62],
      .backRef 0 false,
      .jump 16,
      .byteSeq [0x63, 0x63],
      .loop1 0 (some 1) false,
      .byteSeq [0x63],
      .loop1 0 none true,
      .bracket 0,
      .goal],
    brackets := #[{ invert := true, ivs := [(0x78, 0x78)] }],
    loops := 0, groups := 1, flags := {  }, names := [], startPred := .set [0x62, 0x63] }

#guard (match parseProg "P~0~1~-~-|S~set~62~63|B~0~1~78-78|I~alt~11|I~lookbehind~0~0~1~8|I~begin~0|I~byteseq~61|I~loop1~0~inf~1|I~byteseq~61|I~end~0|I~goal|I~byteseq~62|I~backref~0~0|I~jump~16|I~byteseq~63~63|I~loop1~0~1~0|I~byteseq~63|I~loop1~0~inf~1|I~bracket~0|I~goal|" with
  | .ok p => p == exProg1 | .error _ => false)

example : wfProg exProg1 = true ∧ noIcaseBackref exProg1 = true := by decide +kernel

/-- "aabaa" as ASCII input. -/
def exInp1 : Input := { kind := .ascii, bytes := #[0x61, 0x61, 0x62, 0x61, 0x61], unicode := false }

#guard (match Bt.attemptFresh exProg1 exInp1 1000 2 with
  | .matched e st _ _ => e == 5 && Bt.capsOf st == [some (0, 2)] | _ => false)
#guard (match Pk.attempt exProg1 exInp1 1000 2 with
  | .matched e st _ _ => e == 5 && Pk.capsOf st == [some (0, 2)] | _ => false)

example (fuel : Nat) :
    Bt.Post (fun e st' => 2 ≤ e ∧ e ≤ 5 ∧ ∀ s e', some (s, e') ∈ Bt.capsOf st' → s ≤ 5 ∧ e' ≤ 5)
      (fun _ => True) (Bt.attemptFresh exProg1 exInp1 fuel 2) :=
  bt_attemptFresh_safe_ascii (by decide +kernel) (by decide +kernel) rfl (by decide) fuel

/-! ## Stage 2 — UTF-8 input, every `byteSeq` chunk a whole number of characters

`Utf8Text inp cs`: `inp.kind = .utf8`, `inp.bytes = (Utf8.encodeAll cs).toArray`, every element of
`cs` a scalar value. `VUtf8 inp p`: `p ≤ inp.len ∧ Utf8.isBoundary inp.bytes p`.
`Bt.StateOK prog (VUtf8 inp) st`: `st.loops.size = prog.loops`, `st.groups.size = prog.groups`, every
`Some` group end is a boundary `≤ len`. -/

theorem bt_run_safe_utf8_partial {prog : Prog} {inp : Input} {cs : List Nat} (hw : wfProg prog = true)
    (hnb : noIcaseBackref prog = true) (hns : noSplitChunks prog = true) (h : Utf8Text inp cs)
    (limit sf b ip pos : Nat) (fwd : Bool) (st : Bt.State) (bts : Array Bt.BtInsn) (steps peak : Nat)
    (hinv : Bt.Inv prog (Utf8A prog inp) (VUtf8 inp) b fwd ip pos st bts) :
    Bt.Post (Bt.QMs prog (VUtf8 inp) b fwd) (Bt.StateOK prog (VUtf8 inp))
      (Bt.run prog inp limit sf ip pos fwd st bts steps peak) :=
  Bt.run_safe (specUtf8Plain hw hns h) hw hnb limit sf b ip pos fwd st bts steps peak hinv

/-- **`bt_safe_utf8_partial`.** No error; a match ends on a boundary `e` with `pos ≤ e ≤ len`; the
final state (match or failure) holds only boundaries. -/
theorem bt_safe_utf8_partial {prog : Prog} {inp : Input} {cs : List Nat} (hw : wfProg prog = true)
    (hnb : noIcaseBackref prog = true) (hns : noSplitChunks prog = true) (h : Utf8Text inp cs)
    {pos : Nat} (hp : VUtf8 inp pos) {st : Bt.State} (hst : Bt.StateOK prog (VUtf8 inp) st)
    (sf limit : Nat) :
    Bt.Post (fun e st' => pos ≤ e ∧ VUtf8 inp e ∧ Bt.StateOK prog (VUtf8 inp) st')
      (Bt.StateOK prog (VUtf8 inp))
      (Bt.run prog inp limit sf 0 pos true st #[.exhausted] 0 0) := by
  have := bt_run_safe_utf8_partial hw hnb hns h limit sf pos 0 pos true st #[.exhausted] 0 0
    ⟨⟨wf_size_pos hw, hp⟩, MovedLe.refl _ _, hst, Bt.stackOK_init _ _⟩
  exact Bt.Post.mono this (fun e st' h => ⟨h.2.1.1 rfl, h.1, h.2.2⟩) (fun _ h => h)

/-- One attempt on a fresh matcher, Stage 2. -/
theorem bt_attemptFresh_safe_utf8_partial {prog : Prog} {inp : Input} {cs : List Nat}
    (hw : wfProg prog = true) (hnb : noIcaseBackref prog = true) (hns : noSplitChunks prog = true)
    (h : Utf8Text inp cs) {pos : Nat} (hp : VUtf8 inp pos) (fuel : Nat) :
    Bt.Post (fun e st' => pos ≤ e ∧ VUtf8 inp e ∧
        ∀ s e', some (s, e') ∈ Bt.capsOf st' → VUtf8 inp s ∧ VUtf8 inp e')
      (fun _ => True) (Bt.attemptFresh prog inp fuel pos) :=
  Bt.Post.mono (bt_safe_utf8_partial hw hnb hns h hp (freshState_ok prog _ 0) fuel fuel)
    (fun _ _ h => ⟨h.1, h.2.1, caps_ok h.2.2⟩) (fun _ _ => trivial)

theorem pk_safe_of_spec {prog : Prog} {inp : Input} {A : Bool → Nat → Nat → Prop} {V : Nat → Prop}
    (hs : Spec prog inp A V) (hw : wfProg prog = true) (hnb : noIcaseBackref prog = true)
    {pos : Nat} (hA : A true 0 pos) (entry fuel : Nat) :
    match Pk.attemptAt prog inp fuel pos entry with
    | .error _ => False
    | .matched e st _ _ => pos ≤ e ∧ V e ∧ e = st.pos ∧
        ∀ s e', some (s, e') ∈ Pk.capsOf st → V s ∧ V e'
    | _ => True := by
  have := Pk.runStates_safe hs hw hnb fuel (fuel + 1) #[Pk.initState prog pos entry] true 0 0 pos
    (Pk.AllOK.single ⟨hA, MovedLe.refl _ _, initState_ok prog _ pos entry⟩)
  unfold Pk.attemptAt Pk.tryAtPos
  cases hr : Pk.runStates prog inp fuel (fuel + 1) #[Pk.initState prog pos entry] true 0 0 with
  | error e => rw [hr] at this; exact this
  | matched e st _ _ => rw [hr] at this; exact ⟨this.2.2.1.1 rfl, this.2.1, this.1, pk_caps_ok this.2.2.2⟩
  | failed _ _ => trivial
  | outOfFuel => trivial

/-- **`pk_safe_utf8_partial`.** -/
theorem pk_safe_utf8_partial {prog : Prog} {inp : Input} {cs : List Nat} (hw : wfProg prog = true)
    (hnb : noIcaseBackref prog = true) (hns : noSplitChunks prog = true) (h : Utf8Text inp cs)
    {pos : Nat} (hp : VUtf8 inp pos) (entry fuel : Nat) :
    match Pk.attemptAt prog inp fuel pos entry with
    | .error _ => False
    | .matched e st _ _ => pos ≤ e ∧ VUtf8 inp e ∧ e = st.pos ∧
        ∀ s e', some (s, e') ∈ Pk.capsOf st → VUtf8 inp s ∧ VUtf8 inp e'
    | _ => True :=
  pk_safe_of_spec (specUtf8Plain hw hns h) hw hnb ⟨wf_size_pos hw, hp⟩ entry fuel

/-! ## Stage 3 — UTF-8 input, literals split inside a character

`checkCert prog c` (see `SafetyCommon`): `c` assigns to every instruction its direction and the
*phase* (distance to the next char boundary) of the positions at which it is entered; the check is
local (one instruction and its successors). `mkCert prog` computes the canonical certificate in one
pass; `wfProgUtf8 prog = wfProg prog && checkCert prog (mkCert prog)`. -/

theorem cert_start {prog : Prog} {c : Cert} (hw : wfProg prog = true) (hc : checkCert prog c = true)
    {inp : Input} {cs : List Nat} (h : Utf8Text inp cs) {pos : Nat} (hp : VUtf8 inp pos) :
    CertA prog c cs true 0 pos := by
  simp only [checkCert, Bool.and_eq_true, beq_iff_eq] at hc
  exact ⟨wf_size_pos hw, 0, hc.1, (ph_zero_iff h).mpr hp⟩

theorem bt_run_safe_utf8 {prog : Prog} {inp : Input} {cs : List Nat} {c : Cert}
    (hw : wfProg prog = true) (hnb : noIcaseBackref prog = true) (hc : checkCert prog c = true)
    (h : Utf8Text inp cs)
    (limit sf b ip pos : Nat) (fwd : Bool) (st : Bt.State) (bts : Array Bt.BtInsn) (steps peak : Nat)
    (hinv : Bt.Inv prog (CertA prog c cs) (VUtf8 inp) b fwd ip pos st bts) :
    Bt.Post (Bt.QMs prog (VUtf8 inp) b fwd) (Bt.StateOK prog (VUtf8 inp))
      (Bt.run prog inp limit sf ip pos fwd st bts steps peak) :=
  Bt.run_safe (specUtf8Cert hw hc h) hw hnb limit sf b ip pos fwd st bts steps peak hinv

/-- **`bt_safe_utf8`** (no `noSplitChunks`). -/
theorem bt_safe_utf8 {prog : Prog} {inp : Input} {cs : List Nat} {c : Cert} (hw : wfProg prog = true)
    (hnb : noIcaseBackref prog = true) (hc : checkCert prog c = true) (h : Utf8Text inp cs)
    {pos : Nat} (hp : VUtf8 inp pos) {st : Bt.State} (hst : Bt.StateOK prog (VUtf8 inp) st)
    (sf limit : Nat) :
    Bt.Post (fun e st' => pos ≤ e ∧ VUtf8 inp e ∧ Bt.StateOK prog (VUtf8 inp) st')
      (Bt.StateOK prog (VUtf8 inp))
      (Bt.run prog inp limit sf 0 pos true st #[.exhausted] 0 0) := by
  have := bt_run_safe_utf8 hw hnb hc h limit sf pos 0 pos true st #[.exhausted] 0 0
    ⟨cert_start hw hc h hp, MovedLe.refl _ _, hst, Bt.stackOK_init _ _⟩
  exact Bt.Post.mono this (fun e st' h => ⟨h.2.1.1 rfl, h.1, h.2.2⟩) (fun _ h => h)

/-- One attempt on a fresh matcher, Stage 3, with the computed certificate. -/
theorem bt_attemptFresh_safe_utf8 {prog : Prog} {inp : Input} {cs : List Nat}
    (hw : wfProgUtf8 prog = true) (hnb : noIcaseBackref prog = true)
    (h : Utf8Text inp cs) {pos : Nat} (hp : VUtf8 inp pos) (fuel : Nat) :
    Bt.Post (fun e st' => pos ≤ e ∧ VUtf8 inp e ∧
        ∀ s e', some (s, e') ∈ Bt.capsOf st' → VUtf8 inp s ∧ VUtf8 inp e')
      (fun _ => True) (Bt.attemptFresh prog inp fuel pos) := by
  simp only [wfProgUtf8, Bool.and_eq_true] at hw
  exact Bt.Post.mono (bt_safe_utf8 hw.1 hnb hw.2 h hp (freshState_ok prog _ 0) fuel fuel)
    (fun _ _ h => ⟨h.1, h.2.1, caps_ok h.2.2⟩) (fun _ _ => trivial)

/-- **`pk_safe_utf8`** (no `noSplitChunks`). -/
theorem pk_safe_utf8 {prog : Prog} {inp : Input} {cs : List Nat} {c : Cert} (hw : wfProg prog = true)
    (hnb : noIcaseBackref prog = true) (hc : checkCert prog c = true) (h : Utf8Text inp cs)
    {pos : Nat} (hp : VUtf8 inp pos) (entry fuel : Nat) :
    match Pk.attemptAt prog inp fuel pos entry with
    | .error _ => False
    | .matched e st _ _ => pos ≤ e ∧ VUtf8 inp e ∧ e = st.pos ∧
        ∀ s e', some (s, e') ∈ Pk.capsOf st → VUtf8 inp s ∧ VUtf8 inp e'
    | _ => True :=
  pk_safe_of_spec (specUtf8Cert hw hc h) hw hnb (cert_start hw hc h hp) entry fuel

/-! ### Non-vacuity (UTF-8) -/

/-- Dump of `/(?<=(é+))b\1|c{2,3}?[^x]*/` (look-behind, `loop1`, back-reference, multi-byte literal). -/
def exProg2 : Prog :=
  { insns := #[.alt 11,
      .lookbehind false 0 1 8,
      .beginCaptureGroup 0,
      .byteSeq [0xc3, 0xa9],
      .loop1 0 none true,
      .byteSeq [0xc3, 0xa9],
      .endCaptureGroup 0,
      .goal,
      .byteSeq [0x62],
      .backRef 0 false,
      .jump 16,
      .byteSeq [0x63, 0x63],
      .loop1 0 (some 1) false,
      .byteSeq [0x63],
      .loop1 0 none true,
      .bracket 0,
      .goal],
    brackets := #[{ invert := true, ivs := [(0x78, 0x78)] }],
    loops := 0, groups := 1, flags := {  }, names := [], startPred := .set [0x62, 0x63] }

#guard (match parseProg "P~0~1~-~-|S~set~62~63|B~0~1~78-78|I~alt~11|I~lookbehind~0~0~1~8|I~begin~0|I~byteseq~c3~a9|I~loop1~0~inf~1|I~byteseq~c3~a9|I~end~0|I~goal|I~byteseq~62|I~backref~0~0|I~jump~16|I~byteseq~63~63|I~loop1~0~1~0|I~byteseq~63|I~loop1~0~inf~1|I~bracket~0|I~goal|" with
  | .ok p => p == exProg2 | .error _ => false)

example : wfProg exProg2 = true ∧ noIcaseBackref exProg2 = true ∧ noSplitChunks exProg2 = true ∧
    wfProgUtf8 exProg2 = true := by decide +kernel

/-- "éébéé" -/
def exInp2 : Input :=
  { kind := .utf8, bytes := Utf8.text [0xE9, 0xE9, 0x62, 0xE9, 0xE9], unicode := false }

theorem exInp2_text : Utf8Text exInp2 [0xE9, 0xE9, 0x62, 0xE9, 0xE9] := ⟨rfl, rfl, by decide⟩

#guard (match Bt.attemptFresh exProg2 exInp2 1000 4 with
  | .matched e st _ _ => e == 9 && Bt.capsOf st == [some (0, 4)] | _ => false)

example (fuel : Nat) :
    Bt.Post (fun e st' => 4 ≤ e ∧ VUtf8 exInp2 e ∧
        ∀ s e', some (s, e') ∈ Bt.capsOf st' → VUtf8 exInp2 s ∧ VUtf8 exInp2 e')
      (fun _ => True) (Bt.attemptFresh exProg2 exInp2 fuel 4) :=
  bt_attemptFresh_safe_utf8_partial (by decide +kernel) (by decide +kernel) (by decide +kernel)
    exInp2_text (by decide +kernel) fuel

/-- Dump of `/aααααααα€€x|(?<=zééééééééé€€€)q\b/`: a 22-byte and a 28-byte literal, each split into two
`byteSeq` chunks *inside* a character (after the lead byte `e2` of `€` resp. `c3` of `é`), the second
one inside a look-behind (chunks in reverse order, matched right to left). -/
def exProg3 : Prog :=
  { insns := #[.alt 4,
      .byteSeq [0x61, 0xce, 0xb1, 0xce, 0xb1, 0xce, 0xb1, 0xce, 0xb1, 0xce, 0xb1, 0xce, 0xb1, 0xce, 0xb1, 0xe2],
      .byteSeq [0x82, 0xac, 0xe2, 0x82, 0xac, 0x78],
      .jump 10,
      .lookbehind false 0 0 8,
      .byteSeq [0xa9, 0xc3, 0xa9, 0xe2, 0x82, 0xac, 0xe2, 0x82, 0xac, 0xe2, 0x82, 0xac],
      .byteSeq [0x7a, 0xc3, 0xa9, 0xc3, 0xa9, 0xc3, 0xa9, 0xc3, 0xa9, 0xc3, 0xa9, 0xc3, 0xa9, 0xc3, 0xa9, 0xc3],
      .goal,
      .byteSeq [0x71],
      .wordBoundary false,
      .goal],
    brackets := #[],
    loops := 0, groups := 0, flags := {  }, names := [], startPred := .set [0x61, 0x71] }

#guard (match parseProg "P~0~0~-~-|S~set~61~71|I~alt~4|I~byteseq~61~ce~b1~ce~b1~ce~b1~ce~b1~ce~b1~ce~b1~ce~b1~e2|I~byteseq~82~ac~e2~82~ac~78|I~jump~10|I~lookbehind~0~0~0~8|I~byteseq~a9~c3~a9~e2~82~ac~e2~82~ac~e2~82~ac|I~byteseq~7a~c3~a9~c3~a9~c3~a9~c3~a9~c3~a9~c3~a9~c3~a9~c3|I~goal|I~byteseq~71|I~wb~0|I~goal|" with
  | .ok p => p == exProg3 | .error _ => false)

/-- The split chunks are not whole characters, but the phase certificate validates. -/
example : wfProg exProg3 = true ∧ noIcaseBackref exProg3 = true ∧ noSplitChunks exProg3 = false ∧
    wfProgUtf8 exProg3 = true := by decide +kernel

/-- The computed certificate: directions and phases (`2` after `…e2`, `1` after `a9…` backwards). -/
example : mkCert exProg3 =
    { dir := #[true, true, true, true, true, false, false, false, true, true, true],
      ph := #[0, 0, 2, 0, 0, 0, 1, 0, 0, 0, 0] } := by decide +kernel

/-- "zééééééééé€€€q" -/
def exInp3 : Input :=
  { kind := .utf8,
    bytes := Utf8.text [0x7A, 0xE9, 0xE9, 0xE9, 0xE9, 0xE9, 0xE9, 0xE9, 0xE9, 0xE9, 0x20AC, 0x20AC, 0x20AC, 0x71],
    unicode := false }

theorem exInp3_text : Utf8Text exInp3
    [0x7A, 0xE9, 0xE9, 0xE9, 0xE9, 0xE9, 0xE9, 0xE9, 0xE9, 0xE9, 0x20AC, 0x20AC, 0x20AC, 0x71] :=
  ⟨rfl, rfl, by decide⟩

#guard (match Bt.attemptFresh exProg3 exInp3 1000 28 with | .matched e _ _ _ => e == 29 | _ => false)
#guard (match Pk.attempt exProg3 exInp3 1000 28 with | .matched e _ _ _ => e == 29 | _ => false)

example (fuel : Nat) :
    Bt.Post (fun e st' => 28 ≤ e ∧ VUtf8 exInp3 e ∧
        ∀ s e', some (s, e') ∈ Bt.capsOf st' → VUtf8 exInp3 s ∧ VUtf8 exInp3 e')
      (fun _ => True) (Bt.attemptFresh exProg3 exInp3 fuel 28) :=
  bt_attemptFresh_safe_utf8 (by decide +kernel) (by decide +kernel) exInp3_text (by decide +kernel) fuel

/-! ## `attempt_state_restored`

`BacktrackExecutor` reuses one `MatchAttempter` (one `State`) for all the attempts of a search.
* The **capture groups** after a failed attempt are exactly those before it (every group mutation
  has an undo record, and the bottom `Exhausted` is reached only after all of them were undone) —
  provided the look-around bodies are *confined* (`Bt.lookConfined`: control flow stays in the body and
  only the groups `start_group..end_group` are written there; true of all emitted programs). No other
  hypothesis is needed (not even `wfProg`; error results are vacuous).
* The **loop data** are *not* restored: a successful look-around discards its backtrack stack, and
  with it the undo records of the loops it entered (counterexample below). This is harmless, since
  `EnterLoop` re-initialises the loop data, but `st' = st` is false. -/

theorem attempt_state_restored {prog : Prog} (inp : Input) (hlc : Bt.lookConfined prog = true)
    (fuel pos : Nat) (st : Bt.State) {st' : Bt.State} {s p : Nat}
    (h : Bt.attemptWith prog inp fuel pos st = .failed st' s p) : st'.groups = st.groups :=
  Bt.attempt_groups_restored hlc fuel fuel 0 pos true st 0 0 h

/-- The same for the general `run` (any start instruction, direction and counters). -/
theorem run_groups_restored {prog : Prog} (inp : Input) (hlc : Bt.lookConfined prog = true)
    (limit sf ip pos : Nat) (fwd : Bool) (st : Bt.State) (steps peak : Nat) {st' : Bt.State}
    {s p : Nat}
    (h : Bt.run prog inp limit sf ip pos fwd st #[.exhausted] steps peak = .failed st' s p) :
    st'.groups = st.groups :=
  Bt.attempt_groups_restored hlc limit sf ip pos fwd st steps peak h

example : Bt.lookConfined exProg1 = true ∧ Bt.lookConfined exProg2 = true ∧
    Bt.lookConfined exProg3 = true := by decide +kernel

/-- Dump of `/(?=(?:ab)*)c/`. -/
def exProg4 : Prog :=
  { insns := #[.lookahead false 0 0 5,
      .enterLoop 0 0 none true 4,
      .byteSeq [0x61, 0x62],
      .loopAgain 1,
      .goal,
      .byteSeq [0x63],
      .goal],
    brackets := #[],
    loops := 1, groups := 0, flags := {  }, names := [], startPred := .set [0x63] }

#guard (match parseProg "P~1~0~-~-|S~set~63|I~lookahead~0~0~0~5|I~enterloop~0~0~inf~1~4|I~byteseq~61~62|I~loopagain~1|I~goal|I~byteseq~63|I~goal|" with
  | .ok p => p == exProg4 | .error _ => false)

/-- **Counterexample for the loop data**: the attempt of `/(?=(?:ab)*)c/` on `"abx"` at 0 fails and
leaves `loops[0] = { iters := 1, entry := 0 }` instead of the initial `{ iters := 0, entry := 0 }`. -/
example :
    (match Bt.attemptFresh exProg4 { kind := .utf8, bytes := #[0x61, 0x62, 0x78], unicode := false } 100 0 with
      | .failed st' _ _ => st'.loops == #[{ iters := 1, entry := 0 }]
      | _ => false) = true ∧
    (Bt.freshState exProg4 0).loops = #[{ iters := 0, entry := 0 }] := by decide +kernel

/-! ## Without `noIcaseBackref`: the ordering certificate

`checkOrd prog c` (see `SafetyCommon`): a data-flow certificate `c` (per reachable instruction and
group: *clean* / *open* / *unknown*), checked locally, from which `start ≤ end` follows for every
group at every reachable configuration — which makes the unchecked slice of `backref_icase` safe.
`mkOrd prog` computes the canonical certificate. Together with `Bt.lookConfined` (look-around bodies
closed, writing only their own groups) this removes the restriction on `BackRef { icase: true }`,
and additionally yields: every reported capture has `start ≤ end`, and a failed attempt restores the
groups. The attempt must start with all groups unset (as `BacktrackExecutor` and `PikeVMExecutor`
do: fresh state, `successful_match` clears the groups, a failed attempt restores them). -/

/-- The complete decidable well-formedness hypothesis. -/
def wfProgFull (prog : Prog) : Bool :=
  wfProg prog && checkCert prog (mkCert prog) && Bt.lookConfined prog && checkOrd prog (mkOrd prog)

theorem caps_ordered {st : Bt.State}
    (h : ∀ (g : Nat) (gd : Bt.GroupData), st.groups[g]? = some gd → Ordered gd) :
    ∀ s e, some (s, e) ∈ Bt.capsOf st → s ≤ e := by
  intro s e hm
  simp only [Bt.capsOf, List.mem_map] at hm
  obtain ⟨gd, hgd, hr⟩ := hm
  rw [Array.mem_toList_iff, Array.mem_iff_getElem?] at hgd
  obtain ⟨i, hi⟩ := hgd
  have ho := h i gd hi
  unfold Bt.GroupData.asRange at hr
  split at hr
  · rename_i s' e' h1 h2; cases hr; exact ho _ _ h1 h2
  · cases hr

/-- Generic form for the backtracking executor. -/
theorem bt_safe_of_spec {prog : Prog} {inp : Input} {A : Bool → Nat → Nat → Prop} {V : Nat → Prop}
    (hs : Spec prog inp A V) (hw : wfProg prog = true) {c : OrdCert} (hchk : checkOrd prog c = true)
    (hlc : Bt.lookConfined prog = true) {pos : Nat} (hA : A true 0 pos) {st : Bt.State}
    (hst : Bt.StateOK prog V st)
    (hclean : ∀ (g : Nat) (gd : Bt.GroupData), st.groups[g]? = some gd → gd = ⟨none, none⟩)
    (sf limit : Nat) :
    Bt.Post (fun e st' => pos ≤ e ∧ V e ∧ Bt.StateOK prog V st' ∧
        ∀ s e', some (s, e') ∈ Bt.capsOf st' → V s ∧ V e' ∧ s ≤ e')
      (fun st' => Bt.StateOK prog V st' ∧ st'.groups = st.groups)
      (Bt.run prog inp limit sf 0 pos true st #[.exhausted] 0 0) := by
  have := Bt.run_safe_ord hs hw hchk hlc limit sf (pos, (none, st.groups)) 0 pos true st
    #[.exhausted] 0 0 (Bt.tinv_init (wf_size_pos hw) hchk hA hst hclean)
  refine Bt.Post.mono this ?_ (fun _ h => h)
  intro e st' h
  obtain ⟨⟨hv, hb, hst'⟩, _, hord⟩ := h
  exact ⟨hb.1 rfl, hv, hst', fun s e' hm =>
    ⟨(caps_ok hst' s e' hm).1, (caps_ok hst' s e' hm).2, caps_ordered hord s e' hm⟩⟩

/-- Generic form for the PikeVM. -/
theorem pk_safe_of_spec_ord {prog : Prog} {inp : Input} {A : Bool → Nat → Nat → Prop} {V : Nat → Prop}
    (hs : Spec prog inp A V) (hw : wfProg prog = true) {c : OrdCert} (hchk : checkOrd prog c = true)
    (hlc : Bt.lookConfined prog = true) {pos : Nat} (hA : A true 0 pos) (entry fuel : Nat) :
    match Pk.attemptAt prog inp fuel pos entry with
    | .error _ => False
    | .matched e st _ _ => pos ≤ e ∧ V e ∧ e = st.pos ∧
        ∀ s e', some (s, e') ∈ Pk.capsOf st → V s ∧ V e' ∧ s ≤ e'
    | _ => True := by
  have hinit : Pk.PT prog A V c (pos, (none, (Pk.initState prog pos entry).groups)) true
      (Pk.initState prog pos entry) := by
    refine ⟨⟨hA, MovedLe.refl _ _, initState_ok prog _ pos entry⟩, trivial, ⟨rfl, fun _ _ => rfl⟩, ?_⟩
    simp only [checkOrd, Bool.and_eq_true, beq_iff_eq] at hchk
    refine ⟨_, hchk.1, ?_⟩
    intro g gd hg
    simp only [Pk.initState, Array.getElem?_replicate] at hg
    split at hg
    · cases hg
      rename_i hlt
      exact ⟨1, by simp [hlt], sem_reset _ _⟩
    · cases hg
  have := Pk.runStates_safe_ord hs hw hchk hlc fuel (fuel + 1) #[Pk.initState prog pos entry] true 0 0
    (pos, (none, (Pk.initState prog pos entry).groups)) trivial (by
      intro i s hi
      have : i = 0 := by
        have := lt_of_getElem?_eq_some hi; simp at this; omega
      subst this
      simp at hi; subst hi
      exact hinit)
  unfold Pk.attemptAt Pk.tryAtPos
  cases hr : Pk.runStates prog inp fuel (fuel + 1) #[Pk.initState prog pos entry] true 0 0 with
  | error e => rw [hr] at this; exact this.1
  | matched e st _ _ =>
    rw [hr] at this
    obtain ⟨⟨h1, h2, h3, h4⟩, _, hord⟩ := this
    have hcaps : ∀ s e', some (s, e') ∈ Pk.capsOf st → s ≤ e' :=
      caps_ordered (st := { loops := st.loops, groups := st.groups }) hord
    exact ⟨h3.1 rfl, h2, h1, fun s e' hm =>
      ⟨(pk_caps_ok h4 s e' hm).1, (pk_caps_ok h4 s e' hm).2, hcaps s e' hm⟩⟩
  | failed _ _ => trivial
  | outOfFuel => trivial

/-- **C06, ASCII input, backtracking executor, no restriction on the instructions.** No error;
a match `[pos', e)`… ends at `pos ≤ e ≤ len`, every capture `(s, e')` has `s ≤ e' ≤ len`; a failed
attempt restores the groups. -/
theorem bt_safe_ascii_full {prog : Prog} {inp : Input} (hw : wfProg prog = true) {c : OrdCert}
    (hchk : checkOrd prog c = true) (hlc : Bt.lookConfined prog = true) (hk : inp.kind = .ascii)
    {pos : Nat} (hp : pos ≤ inp.len) {st : Bt.State} (hst : Bt.StateOK prog (· ≤ inp.len) st)
    (hclean : ∀ (g : Nat) (gd : Bt.GroupData), st.groups[g]? = some gd → gd = ⟨none, none⟩)
    (sf limit : Nat) :
    Bt.Post (fun e st' => pos ≤ e ∧ e ≤ inp.len ∧ Bt.StateOK prog (· ≤ inp.len) st' ∧
        ∀ s e', some (s, e') ∈ Bt.capsOf st' → s ≤ inp.len ∧ e' ≤ inp.len ∧ s ≤ e')
      (fun st' => Bt.StateOK prog (· ≤ inp.len) st' ∧ st'.groups = st.groups)
      (Bt.run prog inp limit sf 0 pos true st #[.exhausted] 0 0) :=
  bt_safe_of_spec (specAscii hw hk) hw hchk hlc ⟨wf_size_pos hw, hp⟩ hst hclean sf limit

/-- **C06, UTF-8 input, backtracking executor, no restriction** (phase certificate `cc` for the split
literals, ordering certificate `c`). -/
theorem bt_safe_utf8_full {prog : Prog} {inp : Input} {cs : List Nat} (hw : wfProg prog = true)
    {cc : Cert} (hcc : checkCert prog cc = true) {c : OrdCert} (hchk : checkOrd prog c = true)
    (hlc : Bt.lookConfined prog = true) (h : Utf8Text inp cs) {pos : Nat} (hp : VUtf8 inp pos)
    {st : Bt.State} (hst : Bt.StateOK prog (VUtf8 inp) st)
    (hclean : ∀ (g : Nat) (gd : Bt.GroupData), st.groups[g]? = some gd → gd = ⟨none, none⟩)
    (sf limit : Nat) :
    Bt.Post (fun e st' => pos ≤ e ∧ VUtf8 inp e ∧ Bt.StateOK prog (VUtf8 inp) st' ∧
        ∀ s e', some (s, e') ∈ Bt.capsOf st' → VUtf8 inp s ∧ VUtf8 inp e' ∧ s ≤ e')
      (fun st' => Bt.StateOK prog (VUtf8 inp) st' ∧ st'.groups = st.groups)
      (Bt.run prog inp limit sf 0 pos true st #[.exhausted] 0 0) :=
  bt_safe_of_spec (specUtf8Cert hw hcc h) hw hchk hlc (cert_start hw hcc h hp) hst hclean sf limit

theorem freshState_clean (prog : Prog) (entry : Nat) :
    ∀ (g : Nat) (gd : Bt.GroupData), (Bt.freshState prog entry).groups[g]? = some gd → gd = ⟨none, none⟩ := by
  intro g gd h
  simp only [Bt.freshState, Array.getElem?_replicate] at h
  split at h <;> cases h
  rfl

/-- **C06 for one attempt of the backtracking executor on a fresh matcher** (UTF-8, decidable
hypothesis `wfProgFull`). -/
theorem bt_attemptFresh_safe_full {prog : Prog} {inp : Input} {cs : List Nat}
    (hw : wfProgFull prog = true) (h : Utf8Text inp cs) {pos : Nat} (hp : VUtf8 inp pos) (fuel : Nat) :
    Bt.Post (fun e st' => pos ≤ e ∧ VUtf8 inp e ∧
        ∀ s e', some (s, e') ∈ Bt.capsOf st' → VUtf8 inp s ∧ VUtf8 inp e' ∧ s ≤ e')
      (fun st' => st'.groups = (Bt.freshState prog 0).groups)
      (Bt.attemptFresh prog inp fuel pos) := by
  simp only [wfProgFull, Bool.and_eq_true] at hw
  obtain ⟨⟨⟨h1, h2⟩, h3⟩, h4⟩ := hw
  exact Bt.Post.mono (bt_safe_utf8_full h1 h2 h4 h3 h hp (freshState_ok prog _ 0)
    (freshState_clean prog 0) fuel fuel) (fun _ _ h => ⟨h.1, h.2.1, h.2.2.2⟩) (fun _ h => h.2)

/-- **C06, ASCII input, PikeVM, no restriction.** -/
theorem pk_safe_ascii_full {prog : Prog} {inp : Input} (hw : wfProg prog = true) {c : OrdCert}
    (hchk : checkOrd prog c = true) (hlc : Bt.lookConfined prog = true) (hk : inp.kind = .ascii)
    {pos : Nat} (hp : pos ≤ inp.len) (entry fuel : Nat) :
    match Pk.attemptAt prog inp fuel pos entry with
    | .error _ => False
    | .matched e st _ _ => pos ≤ e ∧ e ≤ inp.len ∧ e = st.pos ∧
        ∀ s e', some (s, e') ∈ Pk.capsOf st → s ≤ inp.len ∧ e' ≤ inp.len ∧ s ≤ e'
    | _ => True :=
  pk_safe_of_spec_ord (specAscii hw hk) hw hchk hlc ⟨wf_size_pos hw, hp⟩ entry fuel

/-- **C06, UTF-8 input, PikeVM, no restriction.** -/
theorem pk_safe_utf8_full {prog : Prog} {inp : Input} {cs : List Nat} (hw : wfProg prog = true)
    {cc : Cert} (hcc : checkCert prog cc = true) {c : OrdCert} (hchk : checkOrd prog c = true)
    (hlc : Bt.lookConfined prog = true) (h : Utf8Text inp cs) {pos : Nat} (hp : VUtf8 inp pos)
    (entry fuel : Nat) :
    match Pk.attemptAt prog inp fuel pos entry with
    | .error _ => False
    | .matched e st _ _ => pos ≤ e ∧ VUtf8 inp e ∧ e = st.pos ∧
        ∀ s e', some (s, e') ∈ Pk.capsOf st → VUtf8 inp s ∧ VUtf8 inp e' ∧ s ≤ e'
    | _ => True :=
  pk_safe_of_spec_ord (specUtf8Cert hw hcc h) hw hchk hlc (cert_start hw hcc h hp) entry fuel

/-! ### Non-vacuity: case-insensitive back-references -/

/-- Dump of `/(?:(é)|b)*?\1(?<=(É)\2)/i`: two `BackRef { icase: true }`, one of them inside a
look-behind and *before* its group in execution order, a capture group reset in a loop. -/
def exProg5 : Prog :=
  { insns := #[.enterLoop 0 0 none false 9,
      .resetCaptureGroup 0,
      .alt 7,
      .beginCaptureGroup 0,
      .charSet [0xc9, 0xe9, 0xc9, 0xc9],
      .endCaptureGroup 0,
      .jump 8,
      .byteSet [0x42, 0x62],
      .loopAgain 0,
      .backRef 0 true,
      .lookbehind false 1 2 16,
      .backRef 1 true,
      .beginCaptureGroup 1,
      .charSet [0xc9, 0xe9, 0xc9, 0xc9],
      .endCaptureGroup 1,
      .goal,
      .goal],
    brackets := #[],
    loops := 1, groups := 2, flags := { icase := true }, names := [], startPred := .arbitrary }

#guard (match parseProg "P~1~2~i-~-|S~arbitrary|I~enterloop~0~0~inf~0~9|I~reset~0|I~alt~7|I~begin~0|I~charset~c9~e9~c9~c9|I~end~0|I~jump~8|I~byteset~42~62|I~loopagain~0|I~backref~0~1|I~lookbehind~0~1~2~16|I~backref~1~1|I~begin~1|I~charset~c9~e9~c9~c9|I~end~1|I~goal|I~goal|" with
  | .ok p => p == exProg5 | .error _ => false)

example : noIcaseBackref exProg5 = false ∧ wfProgFull exProg5 = true := by decide +kernel

example : wfProgFull exProg1 = true ∧ wfProgFull exProg2 = true ∧ wfProgFull exProg3 = true ∧
    wfProgFull exProg4 = true := by decide +kernel

/-- "éÉ" -/
def exInp5 : Input := { kind := .utf8, bytes := Utf8.text [0xE9, 0xC9], unicode := false }

theorem exInp5_text : Utf8Text exInp5 [0xE9, 0xC9] := ⟨rfl, rfl, by decide⟩

#guard (match Bt.attemptFresh exProg5 exInp5 1000 0 with
  | .matched e st _ _ => e == 4 && Bt.capsOf st == [some (0, 2), some (2, 4)] | _ => false)
#guard (match Pk.attempt exProg5 exInp5 1000 0 with
  | .matched e st _ _ => e == 4 && Pk.capsOf st == [some (0, 2), some (2, 4)] | _ => false)

example (fuel : Nat) :
    Bt.Post (fun e st' => 0 ≤ e ∧ VUtf8 exInp5 e ∧
        ∀ s e', some (s, e') ∈ Bt.capsOf st' → VUtf8 exInp5 s ∧ VUtf8 exInp5 e' ∧ s ≤ e')
      (fun st' => st'.groups = (Bt.freshState exProg5 0).groups)
      (Bt.attemptFresh exProg5 exInp5 fuel 0) :=
  bt_attemptFresh_safe_full (by decide +kernel) exInp5_text (by decide +kernel) fuel

#print axioms bt_safe_ascii
#print axioms bt_attemptFresh_safe_ascii
#print axioms pk_safe_ascii
#print axioms bt_safe_utf8_partial
#print axioms pk_safe_utf8_partial
#print axioms bt_safe_utf8
#print axioms bt_attemptFresh_safe_utf8
#print axioms pk_safe_utf8
#print axioms attempt_state_restored
#print axioms bt_safe_ascii_full
#print axioms bt_safe_utf8_full
#print axioms bt_attemptFresh_safe_full
#print axioms pk_safe_ascii_full
#print axioms pk_safe_utf8_full

end Regress.C06
