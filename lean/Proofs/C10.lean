import RegressModel.Unicode.Fold
import RegressModel.Gen.OracleFold
import Proofs.Lemmas.Fold

/-!
# C10 — case-insensitive matching is Unicode 17 simple case folding (u/v) or the ES legacy rule

Model: `RegressModel/Unicode/Fold.lean` (of `src/unicode.rs`, over the tables generated from
`src/unicodetables.rs` on this run). Reference: `RegressModel/Gen/OracleFold.lean`, a snapshot of
V8 / ICU 78.2 (Unicode 17.0).

Every "for all code points" statement below is proved for **all** `c : Nat` — nothing is sampled.
The finite part is closed by kernel evaluation (`decide +kernel`) of a checker over the table rows
or over the finite *graph* of a table (`graph tbl`: all pairs `(c, add_delta c)` of transforming
code points, ≈ 1 500 pairs); `Proofs/Lemmas/Fold.lean` proves that each checker implies the
quantified statement.
-/

namespace Regress.C10
open Regress.Fold Regress.CPS

/-! ## 1. The row tables are well-formed -/

/-- Rows of `FOLDS` and of `TO_UPPERCASE`: `len ≥ 1`, `modulo ∈ {1,2,4,8,16}` (a power of two whose
mask fits `PREDICATE_MASK_BITS`), `delta ≠ 0`, `add_delta` never underflows on the row
(`neg → |delta| ≤ first`), images and sources stay `≤ 0x10FFFF`; rows are sorted by `first` and
pairwise disjoint. This is what `binary_search_by` and `add_delta`'s `debug_assert!` need.
(`RowsWF`, `RowOk` are defined in `Proofs/Lemmas/Fold.lean`.) -/
theorem folds_rows_wf : RowsWF folds ∧ RowsWF toUppercase :=
  ⟨rowsWF_spec (by decide +kernel), rowsWF_spec (by decide +kernel)⟩

/-- The Rust predicate `(offset & predicate_mask()) == 0` is the model's `offset % modulo == 0` on
every row of both tables. -/
theorem mask_is_mod {fr : FoldRange} (h : fr ∈ folds ∨ fr ∈ toUppercase) (offset : Nat) :
    (offset &&& (fr.modulo - 1) == 0) = (offset % fr.modulo == 0) := by
  rcases h with h | h
  · exact (folds_rows_wf.1.1 fr h).mask_eq_mod offset
  · exact (folds_rows_wf.2.1 fr h).mask_eq_mod offset

example : folds.length = 208 ∧ toUppercase.length = 202 := by decide +kernel

/-! ## 2. Outside the rows `fold` is the identity; inside, the row is unique -/

theorem fold_outside_identity {c : Nat} (h : ∀ fr ∈ folds, ¬ (fr.first ≤ c ∧ c ≤ fr.last)) :
    fold c = c := foldWith_outside h

theorem uppercase_outside_identity {c : Nat}
    (h : ∀ fr ∈ toUppercase, ¬ (fr.first ≤ c ∧ c ≤ fr.last)) : uppercase c = c :=
  foldWith_outside h

/-- The row found by the search is *the* row containing `c`. -/
theorem findRow_folds_unique {c : Nat} {fr : FoldRange} (hfr : fr ∈ folds) (h1 : fr.first ≤ c)
    (h2 : c ≤ fr.last) : findRow folds c = some fr ∧ fold c = fr.apply c :=
  ⟨folds_rows_wf.1.findRow_eq hfr h1 h2, folds_rows_wf.1.foldWith_row hfr h1 h2⟩

theorem findRow_toUppercase_unique {c : Nat} {fr : FoldRange} (hfr : fr ∈ toUppercase)
    (h1 : fr.first ≤ c) (h2 : c ≤ fr.last) :
    findRow toUppercase c = some fr ∧ uppercase c = fr.apply c :=
  ⟨folds_rows_wf.2.findRow_eq hfr h1 h2, folds_rows_wf.2.foldWith_row hfr h1 h2⟩

example : fold 0x10FFFF = 0x10FFFF ∧ fold 0x30 = 0x30 := by decide +kernel

/-- The transcription of `fold` / `uppercase` with std's `binary_search_by` never indexes out of
bounds and returns exactly the model's `fold` / `uppercase` (which use `findRow`), for every `cu`. -/
theorem fold_bin_faithful (cu : Nat) :
    foldBinWith folds cu = some (fold cu) ∧ foldBinWith toUppercase cu = some (uppercase cu) :=
  ⟨folds_rows_wf.1.foldBinWith_eq cu, folds_rows_wf.2.foldBinWith_eq cu⟩

/-- The transcription of `fold_interval`'s `FOLDS.equal_range_by(..)` with the real
`equal_range_by` never panics and selects exactly the rows of the linear-scan model, for every
non-empty interval. -/
theorem overlapRows_faithful {iv : Interval} (hiv : iv.first ≤ iv.last) :
    overlapRowsBin folds iv = some (overlapRows folds iv) :=
  folds_rows_wf.1.overlapRowsBin_eq hiv

example : foldBinWith folds 0x212A = some 0x6B ∧ foldBinWith folds 0x2000 = some 0x2000 ∧
    (overlapRowsBin folds ⟨0x61, 0x100⟩).map List.length = some 4 := by decide +kernel

/-! ## The finite graphs -/

/-- All pairs `(c, fold c)` with `fold c ≠ c`. -/
def GF : List (Nat × Nat) := graph folds
/-- All pairs `(c, uppercase c)` with `uppercase c ≠ c`. -/
def GU : List (Nat × Nat) := graph toUppercase

theorem GF_fun : Fun GF := folds_rows_wf.1.graph_fun
theorem GU_fun : Fun GU := folds_rows_wf.2.graph_fun
theorem GF_valsOk : valsOk GF = true := by decide +kernel
theorem GU_valsOk : valsOk GU = true := by decide +kernel

theorem fold_eq_app (c : Nat) : fold c = app GF c := folds_rows_wf.1.foldWith_eq_app c
theorem uppercase_eq_app (c : Nat) : uppercase c = app GU c := folds_rows_wf.2.foldWith_eq_app c

example : GF.length = 1512 ∧ GU.length = 1505 := by decide +kernel

/-! ## 3. `fold` is idempotent (and so is `uppercase`) -/

theorem GF_idem : idemCheck GF = true := by decide +kernel
theorem GU_idem : idemCheck GU = true := by decide +kernel

theorem fold_idempotent (c : Nat) : fold (fold c) = fold c := by
  simp only [fold_eq_app]; exact idem_lift GF_fun GF_valsOk GF_idem c

theorem uppercase_idempotent (c : Nat) : uppercase (uppercase c) = uppercase c := by
  simp only [uppercase_eq_app]; exact idem_lift GU_fun GU_valsOk GU_idem c

example : fold 0x212A = 0x6B ∧ fold 0x6B = 0x6B ∧ fold 0x1E9E = 0xDF := by decide +kernel

/-- Folded code points are code points. -/
theorem fold_le_max {c : Nat} (h : c ≤ 0x10FFFF) : fold c ≤ 0x10FFFF := by
  by_cases hc : fold c = c
  · rw [hc]; exact h
  · rw [fold_eq_app] at hc ⊢
    exact (folds_rows_wf.1.graph_val (key_of_app_ne hc)).2.1

theorem uppercase_le_max {c : Nat} (h : c ≤ 0x10FFFF) : uppercase c ≤ 0x10FFFF := by
  by_cases hc : uppercase c = c
  · rw [hc]; exact h
  · rw [uppercase_eq_app] at hc ⊢
    exact (folds_rows_wf.2.graph_val (key_of_app_ne hc)).2.1

theorem scalar_check : (GF.all (fun p => isScalar p.2) && GU.all (fun p => isScalar p.2)) = true := by
  decide +kernel

/-- Folding never produces a surrogate, so `UTF8CharProperties::fold`'s
`char::from_u32(..).unwrap_or(c)` never takes the fallback. -/
theorem utf8Fold_eq {c : Nat} (hc : isScalar c = true) (unicode : Bool) :
    utf8Fold c unicode = foldCodePoint c unicode := by
  have hs := scalar_check
  simp only [Bool.and_eq_true, List.all_eq_true] at hs
  have key : isScalar (foldCodePoint c unicode) = true := by
    cases unicode <;> simp only [foldCodePoint, if_true, Bool.false_eq_true, if_false]
    · by_cases h : uppercase c = c
      · rw [h]; exact hc
      · rw [uppercase_eq_app] at h ⊢; exact hs.2 _ (key_of_app_ne h)
    · by_cases h : fold c = c
      · rw [h]; exact hc
      · rw [fold_eq_app] at h ⊢; exact hs.1 _ (key_of_app_ne h)
  simp [utf8Fold, key]

/-! ## 6. Compile-time expansion = match-time folding -/

/-- `unfold_char c` is exactly the set of code points with the same `fold` (u/v mode). -/
theorem unfold_iff (c d : Nat) : d ∈ unfoldChar c ↔ fold d = fold c :=
  mem_unfoldCharWith folds_rows_wf.1 fold_idempotent c d

/-- `unfold_uppercase_char c` is exactly the set of code points with the same `uppercase`
(legacy mode). -/
theorem unfold_upper_iff (c d : Nat) : d ∈ unfoldUppercaseChar c ↔ uppercase d = uppercase c :=
  mem_unfoldCharWith folds_rows_wf.2 uppercase_idempotent c d

/-- Results are strictly ascending (sorted, no duplicates), as `sort_unstable(); dedup()` promise. -/
theorem unfold_sorted (c : Nat) :
    (unfoldChar c).Pairwise (· < ·) ∧ (unfoldUppercaseChar c).Pairwise (· < ·) :=
  ⟨unfoldCharWith_sorted _ _, unfoldCharWith_sorted _ _⟩

/-- `expand_code_point` and match-time `fold_equals` agree for both `icase` modes. -/
theorem expand_iff (c d : Nat) (unicode : Bool) :
    d ∈ expandCodePoint c true unicode ↔ foldCodePoint d unicode = foldCodePoint c unicode := by
  cases unicode
  · simpa [expandCodePoint, foldCodePoint] using unfold_upper_iff c d
  · simpa [expandCodePoint, foldCodePoint] using unfold_iff c d

theorem expand_iff_foldEquals (c d : Nat) (unicode : Bool) :
    d ∈ expandCodePoint c true unicode ↔ foldEquals d c unicode = true := by
  rw [expand_iff]
  simp only [foldEquals, Bool.or_eq_true, beq_iff_eq]
  constructor
  · exact Or.inr
  · rintro (h | h)
    · rw [h]
    · exact h

theorem expand_nocase (c d : Nat) (unicode : Bool) : d ∈ expandCodePoint c false unicode ↔ d = c := by
  simp [expandCodePoint]

example : unfoldChar 0x6B = [0x4B, 0x6B, 0x212A] ∧ unfoldUppercaseChar 0x6B = [0x4B, 0x6B] ∧
    unfoldChar 0x3B8 = [0x398, 0x3B8, 0x3D1, 0x3F4] := by decide +kernel

/-! ## 7. `MAX_CHAR_SET_LENGTH` is never exceeded -/

theorem GF_mult : multCheck GF = true := by decide +kernel
theorem GU_mult : multCheck GU = true := by decide +kernel

/-- `unfold_char` / `unfold_uppercase_char` return at most `MAX_CHAR_SET_LENGTH = 4` code points, so
the panic "Unicode case fold exceeded maximum expansion" is unreachable. -/
theorem unfold_le_4 (c : Nat) :
    (unfoldChar c).length ≤ Gen.MAX_CHAR_SET_LENGTH ∧
    (unfoldUppercaseChar c).length ≤ Gen.MAX_CHAR_SET_LENGTH := by
  constructor
  · exact class_le_four GF_mult (unfoldCharWith_nodup _ _)
      (fun d hd => by rw [← fold_eq_app]; exact (unfold_iff c d).1 hd)
  · exact class_le_four GU_mult (unfoldCharWith_nodup _ _)
      (fun d hd => by rw [← uppercase_eq_app]; exact (unfold_upper_iff c d).1 hd)

theorem expand_le_4 (c : Nat) (icase unicode : Bool) :
    (expandCodePoint c icase unicode).length ≤ Gen.MAX_CHAR_SET_LENGTH := by
  unfold expandCodePoint
  cases icase <;> cases unicode <;> simp
  · decide
  · decide
  · exact (unfold_le_4 c).2
  · exact (unfold_le_4 c).1

/-- The bound is attained. -/
example : (unfoldChar 0x3B8).length = 4 ∧ (unfoldUppercaseChar 0x3B9).length = 4 := by
  decide +kernel

/-! ## 9. ASCII and the `\b`/`\w` fold table -/

theorem ascii_check : (List.range 128).all
    (fun c => fold c == asciiLower c && uppercase c == asciiUpper c) = true := by decide +kernel

/-- On ASCII, `fold` is `to_ascii_lowercase` and `uppercase` is `to_ascii_uppercase`: the ASCII
matcher (`ASCIICharProperties::fold`) agrees with the Unicode one. -/
theorem ascii_fold_agrees {c : Nat} (h : c < 128) :
    fold c = asciiLower c ∧ uppercase c = asciiUpper c := by
  have := List.all_eq_true.1 ascii_check c (List.mem_range.2 h)
  simpa using this

theorem ascii_foldCodePoint {c : Nat} (h : c < 128) (unicode : Bool) :
    foldCodePoint c unicode = asciiFold c unicode := by
  cases unicode <;> simp [foldCodePoint, asciiFold, ascii_fold_agrees h]

/-- ASCII is closed under both canonicalizations. -/
theorem fold_ascii_closed {c : Nat} (h : c < 128) : fold c < 128 ∧ uppercase c < 128 := by
  rw [(ascii_fold_agrees h).1, (ascii_fold_agrees h).2]
  simp only [asciiLower, asciiUpper]
  constructor <;> split <;> simp_all <;> omega

theorem GF_into_ascii :
    GF.filter (fun p => decide (128 ≤ p.1) && decide (p.2 < 128)) = [(0x17F, 0x73), (0x212A, 0x6B)] := by
  decide +kernel

theorem GU_into_ascii :
    GU.filter (fun p => decide (128 ≤ p.1) && decide (p.2 < 128)) = [(0x131, 0x49), (0x17F, 0x53)] := by
  decide +kernel

/-- The non-ASCII code points that `fold` sends into ASCII are exactly ſ U+017F (→ `s`) and
K U+212A (→ `k`). -/
theorem fold_into_ascii (c : Nat) : (128 ≤ c ∧ fold c < 128) ↔ (c = 0x17F ∨ c = 0x212A) := by
  constructor
  · rintro ⟨h1, h2⟩
    have hne : app GF c ≠ c := by rw [← fold_eq_app]; omega
    have hm := key_of_app_ne hne
    rw [← fold_eq_app] at hm
    have : (c, fold c) ∈ GF.filter (fun p => decide (128 ≤ p.1) && decide (p.2 < 128)) :=
      List.mem_filter.2 ⟨hm, by simp [h1, h2]⟩
    rw [GF_into_ascii] at this
    simp only [List.mem_cons, Prod.mk.injEq, List.not_mem_nil, or_false] at this
    omega
  · rintro (rfl | rfl) <;> decide +kernel

/-- The non-ASCII code points that the regress `uppercase` table sends into ASCII are exactly
ı U+0131 (→ `I`) and ſ U+017F (→ `S`). (ES legacy `Canonicalize` forbids both; see
`legacy_differs_exactly`.) -/
theorem uppercase_into_ascii (c : Nat) :
    (128 ≤ c ∧ uppercase c < 128) ↔ (c = 0x131 ∨ c = 0x17F) := by
  constructor
  · rintro ⟨h1, h2⟩
    have hne : app GU c ≠ c := by rw [← uppercase_eq_app]; omega
    have hm := key_of_app_ne hne
    rw [← uppercase_eq_app] at hm
    have : (c, uppercase c) ∈ GU.filter (fun p => decide (128 ≤ p.1) && decide (p.2 < 128)) :=
      List.mem_filter.2 ⟨hm, by simp [h1, h2]⟩
    rw [GU_into_ascii] at this
    simp only [List.mem_cons, Prod.mk.injEq, List.not_mem_nil, or_false] at this
    omega
  · rintro (rfl | rfl) <;> decide +kernel

theorem isWordChar_lt {c : Nat} (h : isWordChar c = true) : c < 128 := by
  simp only [isWordChar, Bool.or_eq_true, Bool.and_eq_true, decide_eq_true_eq, beq_iff_eq] at h
  omega

/-- `nonascii_folds_to_ascii_word_char` is exactly "non-ASCII and folds to an ASCII word char". -/
theorem word_fold_table (c : Nat) :
    nonasciiFoldsToAsciiWordChar c = true ↔ (c ≥ 128 ∧ isWordChar (fold c) = true) := by
  have e : nonasciiFoldsToAsciiWordChar c = true ↔ (c = 0x17F ∨ c = 0x212A) := by
    simp [nonasciiFoldsToAsciiWordChar, Gen.wordFoldExtras]
  rw [e]
  constructor
  · rintro (rfl | rfl) <;> decide +kernel
  · rintro ⟨h1, h2⟩
    exact (fold_into_ascii c).1 ⟨h1, isWordChar_lt h2⟩

theorem ascii_word_check : (List.range 128).all
    (fun c => isWordChar (asciiLower c) == isWordChar c) = true := by decide +kernel

/-- `is_word_char_unicode_icase c` is `is_word_char (fold c)`, for every `c`. -/
theorem isWordCharUnicodeIcase_eq (c : Nat) : isWordCharUnicodeIcase c = isWordChar (fold c) := by
  rw [Bool.eq_iff_iff]
  unfold isWordCharUnicodeIcase
  rw [Bool.or_eq_true, word_fold_table]
  by_cases hc : c < 128
  · have h1 := List.all_eq_true.1 ascii_word_check c (List.mem_range.2 hc)
    simp only [beq_iff_eq] at h1
    rw [(ascii_fold_agrees hc).1, h1]
    constructor
    · rintro (h | ⟨h, -⟩)
      · exact h
      · omega
    · exact Or.inl
  · constructor
    · rintro (h | ⟨-, h⟩)
      · exact absurd (isWordChar_lt h) hc
      · exact h
    · intro h; exact Or.inr ⟨by omega, h⟩

example : nonasciiFoldsToAsciiWordChar 0x212A = true ∧ isWordChar (fold 0x212A) = true ∧
    isWordCharUnicodeIcase 0x17F = true ∧ isWordCharUnicodeIcase 0x131 = false := by decide +kernel

/-! ## 5. `uppercase` versus ES legacy `Canonicalize` -/

def LEGL : List (Nat × Nat) := Packed.decode Oracle.LEGACY_len Oracle.LEGACY

/-- ECMAScript legacy `Canonicalize` (non-`u`/`v` mode) as observed in V8 / ICU 78.2. -/
def legacyCanon (c : Nat) : Nat := (List.lookup c LEGL).getD c

theorem LEGL_ok : (keysAsc LEGL && valsOk LEGL) = true := by decide +kernel
theorem LEGL_fun : Fun LEGL := keysAsc_fun (by have := LEGL_ok; simp only [Bool.and_eq_true] at this; exact this.1)
theorem LEGL_valsOk : valsOk LEGL = true := by have := LEGL_ok; simp only [Bool.and_eq_true] at this; exact this.2

/-- **Defect F8.** The code points on which regress's `uppercase` (the bare simple upper-case
mapping) differs from ES legacy `Canonicalize`, with (`uppercase c`, `legacyCanon c`):

* `0x131` ı: (`0x49` 'I', `0x131`) and `0x17F` ſ: (`0x53` 'S', `0x17F`) — ES forbids mapping a
  non-ASCII code point to ASCII;
* the 27 Greek letters with ypogegrammeni whose *full* upper case has two characters, so ES keeps
  them unchanged while regress maps them to the title-case capital:
  `0x1F80..0x1F87` → `0x1F88..0x1F8F`, `0x1F90..0x1F97` → `0x1F98..0x1F9F`,
  `0x1FA0..0x1FA7` → `0x1FA8..0x1FAF`, `0x1FB3` → `0x1FBC`, `0x1FC3` → `0x1FCC`, `0x1FF3` → `0x1FFC`
  (ES: all unchanged).

On all 29, `legacyCanon c = c`. -/
def D : List Nat :=
  [0x131, 0x17F,
   0x1F80, 0x1F81, 0x1F82, 0x1F83, 0x1F84, 0x1F85, 0x1F86, 0x1F87,
   0x1F90, 0x1F91, 0x1F92, 0x1F93, 0x1F94, 0x1F95, 0x1F96, 0x1F97,
   0x1FA0, 0x1FA1, 0x1FA2, 0x1FA3, 0x1FA4, 0x1FA5, 0x1FA6, 0x1FA7,
   0x1FB3, 0x1FC3, 0x1FF3]

theorem legacy_diff_check : diffCheck GU LEGL D = true := by decide +kernel

/-- `uppercase` differs from ES legacy `Canonicalize` exactly on `D`. -/
theorem legacy_differs_exactly (c : Nat) : uppercase c ≠ legacyCanon c ↔ c ∈ D := by
  rw [uppercase_eq_app]
  exact diff_lift GU_fun GU_valsOk LEGL_fun LEGL_valsOk legacy_diff_check c

theorem uppercase_is_es_legacy_partial {c : Nat} (h : c ∉ D) : uppercase c = legacyCanon c :=
  Classical.byContradiction fun hne => h ((legacy_differs_exactly c).1 hne)

/-- The requested property `∀ c, uppercase c = legacyCanon c` is **false** on this tree. -/
theorem uppercase_is_not_es_legacy : ¬ ∀ c, uppercase c = legacyCanon c := by
  intro h
  exact (legacy_differs_exactly 0x17F).2 (by decide) (h 0x17F)

/-- The values on `D`. -/
theorem legacy_values_on_D :
    D.map (fun c => (c, uppercase c, legacyCanon c)) =
      [(0x131, 0x49, 0x131), (0x17F, 0x53, 0x17F),
       (0x1F80, 0x1F88, 0x1F80), (0x1F81, 0x1F89, 0x1F81), (0x1F82, 0x1F8A, 0x1F82),
       (0x1F83, 0x1F8B, 0x1F83), (0x1F84, 0x1F8C, 0x1F84), (0x1F85, 0x1F8D, 0x1F85),
       (0x1F86, 0x1F8E, 0x1F86), (0x1F87, 0x1F8F, 0x1F87),
       (0x1F90, 0x1F98, 0x1F90), (0x1F91, 0x1F99, 0x1F91), (0x1F92, 0x1F9A, 0x1F92),
       (0x1F93, 0x1F9B, 0x1F93), (0x1F94, 0x1F9C, 0x1F94), (0x1F95, 0x1F9D, 0x1F95),
       (0x1F96, 0x1F9E, 0x1F96), (0x1F97, 0x1F9F, 0x1F97),
       (0x1FA0, 0x1FA8, 0x1FA0), (0x1FA1, 0x1FA9, 0x1FA1), (0x1FA2, 0x1FAA, 0x1FA2),
       (0x1FA3, 0x1FAB, 0x1FA3), (0x1FA4, 0x1FAC, 0x1FA4), (0x1FA5, 0x1FAD, 0x1FA5),
       (0x1FA6, 0x1FAE, 0x1FA6), (0x1FA7, 0x1FAF, 0x1FA7),
       (0x1FB3, 0x1FBC, 0x1FB3), (0x1FC3, 0x1FCC, 0x1FC3), (0x1FF3, 0x1FFC, 0x1FF3)] := by
  decide +kernel

example : uppercase 0x17F = 0x53 ∧ legacyCanon 0x17F = 0x17F ∧ uppercase 0x3C3 = legacyCanon 0x3C3 ∧
    legacyCanon 0xB5 = 0x39C := by decide +kernel

/-! ## 4. `fold` is Unicode 17 simple case folding -/

def SCFL : List (Nat × Nat) := Packed.decode Oracle.SCF_len Oracle.SCF

/-- The canonical representative (smallest member) of `c`'s Unicode 17 simple-case-folding class, as
observed in V8 / ICU 78.2; identity on singleton classes. -/
def scfRep (c : Nat) : Nat := (List.lookup c SCFL).getD c

theorem SCFL_ok : (keysAsc SCFL && valsOk SCFL) = true := by decide +kernel
theorem SCFL_fun : Fun SCFL := keysAsc_fun (by have := SCFL_ok; simp only [Bool.and_eq_true] at this; exact this.1)
theorem SCFL_valsOk : valsOk SCFL = true := by have := SCFL_ok; simp only [Bool.and_eq_true] at this; exact this.2

theorem GF_SCF : relCheck GF SCFL = true := by decide +kernel
theorem SCF_GF : relCheck SCFL GF = true := by decide +kernel

/-- `fold c` is in `c`'s Unicode class. -/
theorem scfRep_fold (c : Nat) : scfRep (fold c) = scfRep c := by
  rw [fold_eq_app]; exact rel_lift SCFL_fun SCFL_valsOk GF_SCF c

/-- the Unicode representative of `c` has the same `fold`. -/
theorem fold_scfRep (c : Nat) : fold (scfRep c) = fold c := by
  simp only [fold_eq_app]; exact rel_lift GF_fun GF_valsOk SCF_GF c

/-- Two code points have the same regress `fold` iff they are in the same Unicode 17 simple case
folding class. -/
theorem fold_is_scf17 (c d : Nat) : fold c = fold d ↔ scfRep c = scfRep d :=
  rel_iff scfRep_fold fold_scfRep c d

example : scfRep 0x212A = 0x4B ∧ scfRep 0x6B = 0x4B ∧ fold 0x212A = fold 0x4B ∧
    scfRep 0x1E9E = 0xDF ∧ scfRep 0x3C2 = 0x3A3 ∧ scfRep 0x130 = 0x130 := by decide +kernel

/-! ## 8. `add_icase_code_points` is the closure under "same fold" -/

/-- `fold_interval(iv, recv)` adds to `recv` exactly the folds of those code points of `iv` that do
not fold to themselves (the stride walk `start_aligned` / `cu += modulo` is exact). -/
theorem foldInterval_mem (iv : Interval) {recv : IvList} (hr : WF recv) (x : Nat) :
    mem (foldInterval iv recv) x ↔
      mem recv x ∨ ∃ c, iv.first ≤ c ∧ c ≤ iv.last ∧ fold c ≠ c ∧ x = fold c :=
  (foldIntervalWith_spec folds_rows_wf.1 iv hr).2 x

theorem foldInterval_wf (iv : Interval) {recv : IvList} (hr : WF recv) :
    WF (foldInterval iv recv) := by
  unfold foldInterval
  exact (foldIntervalWith_spec folds_rows_wf.1 iv hr).1

/-- `unfold_interval(iv, recv)` adds to `recv` exactly the code points that do not fold to
themselves and whose fold lies in `iv`. -/
theorem unfoldInterval_mem (iv : Interval) {recv : IvList} (hr : WF recv) (x : Nat) :
    mem (unfoldInterval iv recv) x ↔
      mem recv x ∨ (fold x ≠ x ∧ iv.first ≤ fold x ∧ fold x ≤ iv.last) :=
  (unfoldIntervalWith_spec folds_rows_wf.1 iv hr).2 x

/-- `WF (unfoldInterval iv recv)`, stated through an equation: `unfoldInterval iv recv` is a fold over
the 208 literal rows, and Lean's elaborator exhausts its recursion depth trying to put a statement
of the literal form `WF (unfoldInterval iv recv)` in weak-head normal form. Use as
`unfoldInterval_wf iv hr rfl`. -/
theorem unfoldInterval_wf (iv : Interval) {recv : IvList} (hr : WF recv) {out : IvList}
    (h : out = unfoldInterval iv recv) : WF out :=
  unfoldIntervalWith_wf_eq folds_rows_wf.1 iv hr h

/-- For every well-formed set `s`, `add_icase_code_points(s)` contains exactly the code points
that have the same `fold` as some member of `s`. -/
theorem add_icase_spec {s : IvList} (hs : WF s) (c : Nat) :
    mem (addIcaseCodePoints s) c ↔ ∃ d, mem s d ∧ fold c = fold d :=
  (addIcaseCodePointsWith_spec folds_rows_wf.1 fold_idempotent hs).2 c

theorem add_icase_wf {s : IvList} (hs : WF s) : WF (addIcaseCodePoints s) := by
  unfold addIcaseCodePoints
  exact (addIcaseCodePointsWith_spec folds_rows_wf.1 fold_idempotent hs).1

/-- Compile-time class closure, compile-time literal expansion and match-time folding are one and
the same relation (u/v mode). -/
theorem add_icase_iff_unfold {s : IvList} (hs : WF s) (c : Nat) :
    mem (addIcaseCodePoints s) c ↔ ∃ d, mem s d ∧ c ∈ unfoldChar d := by
  rw [add_icase_spec hs]
  exact exists_congr fun d => and_congr Iff.rfl (unfold_iff d c).symm

/-- In terms of the oracle: the closure under Unicode 17 simple case folding classes. -/
theorem add_icase_scf17 {s : IvList} (hs : WF s) (c : Nat) :
    mem (addIcaseCodePoints s) c ↔ ∃ d, mem s d ∧ scfRep c = scfRep d := by
  rw [add_icase_spec hs]
  exact exists_congr fun d => and_congr Iff.rfl (fold_is_scf17 c d)

/-- Non-vacuity: `[a-z]` closes to `[A-Za-zſK]`; a strided table row (`modulo = 2`) is walked. -/
example : WF [⟨0x61, 0x7A⟩] ∧ WF [⟨0x101, 0x104⟩] := by decide
example :
    addIcaseCodePoints [⟨0x61, 0x7A⟩] = [⟨0x41, 0x5A⟩, ⟨0x61, 0x7A⟩, ⟨0x17F, 0x17F⟩, ⟨0x212A, 0x212A⟩] ∧
    addIcaseCodePoints [⟨0x101, 0x104⟩] = [⟨0x100, 0x105⟩] ∧
    foldInterval ⟨0x101, 0x104⟩ [] = [⟨0x103, 0x103⟩, ⟨0x105, 0x105⟩] ∧
    unfoldInterval ⟨0x101, 0x104⟩ [] = [⟨0x100, 0x100⟩, ⟨0x102, 0x102⟩] := by decide +kernel

#print axioms folds_rows_wf
#print axioms mask_is_mod
#print axioms fold_outside_identity
#print axioms findRow_folds_unique
#print axioms fold_bin_faithful
#print axioms overlapRows_faithful
#print axioms fold_idempotent
#print axioms utf8Fold_eq
#print axioms uppercase_idempotent
#print axioms fold_le_max
#print axioms unfold_iff
#print axioms unfold_upper_iff
#print axioms expand_iff
#print axioms expand_iff_foldEquals
#print axioms unfold_le_4
#print axioms expand_le_4
#print axioms ascii_fold_agrees
#print axioms fold_ascii_closed
#print axioms fold_into_ascii
#print axioms uppercase_into_ascii
#print axioms word_fold_table
#print axioms isWordCharUnicodeIcase_eq
#print axioms legacy_differs_exactly
#print axioms uppercase_is_es_legacy_partial
#print axioms uppercase_is_not_es_legacy
#print axioms legacy_values_on_D
#print axioms fold_is_scf17
#print axioms foldInterval_mem
#print axioms unfoldInterval_mem
#print axioms add_icase_spec
#print axioms add_icase_wf
#print axioms add_icase_iff_unfold
#print axioms add_icase_scf17

end Regress.C10
