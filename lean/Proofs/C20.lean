import Proofs.Lemmas.Searcher
/-!
# C20 — `RegexSearcher` (`core::str::pattern::Searcher` / `ReverseSearcher` for `&Regex`)

Model: `RegressModel/Api/Searcher.lean` (the code as repaired by "fix: make the Pattern searcher's
steps tile the haystack"). Contract vocabulary (`tilesFrom`, `onBoundaries`, `matchesOf`, `firstMatch`,
`IsIter`, `CtxOK`): `Proofs/Lemmas/SearcherSpec.lean`. Lemmas: `Proofs/Lemmas/Searcher.lean`.
The defects of the previous code (witnesses on its model): `Proofs/Lemmas/Regressions.lean`.

Result: under `CtxOK` (what C06/C09 give for the real engine) the searcher satisfies the contract of
`Searcher` and `ReverseSearcher`:
* `forward_tiles`       — the steps of `next()` tile `[0, len)` on char boundaries, the `Match` steps are
                          exactly the matches of `find_iter`, no panic, at most `2·len + 1` steps;
* `backward_is_reverse` — the steps of `next_back()` are the same steps in reverse order;
* `interleaved_tiles`   — for ANY interleaving of `next` / `next_back`, the steps handed out from the
                          front, then those not yet handed out, then those handed out from the back
                          (reversed) are that same list, nothing is left once either direction has
                          returned `Done` (`interleaved_contract`; `interleaved_finishes`: that
                          happens within `2·len + 2` calls), and after that every call returns `Done`
                          (`done_forever`);
* `first_match_step`, `last_match_step` — what `str::find` / `str::rfind` see.
-/
namespace Regress.C20
open Regress.Api

/-! ## 1. Forwards -/

/-- **forward_tiles.** Under `CtxOK`, repeated `next()` on a fresh searcher
(a) never panics (neither the `find_from` assertion nor the slice nor the index) and
(b) returns `Done` after at most `2·len + 1` other steps (so the model's fuel `2·len + 2` suffices, and
    any larger fuel gives the same list); those steps
(c) tile `[0, len)`: the first starts at 0, each starts where the previous one ended, the last ends at
    `len`, `Match(s, e)` has `s ≤ e`, `Reject(s, e)` has `s < e`, none is `Done`;
(d) have all their endpoints on char boundaries;
(e) contain as `Match` steps exactly the matches of `find_iter` (empty ones included), in order:
    `matchesOf steps` is the `lastIndex` unfold from 0, and the only one. -/
theorem forward_tiles (ctx : SearchCtx) (H : CtxOK ctx) :
    ∃ steps, forwardSteps ctx = some steps ∧
      (∀ fuel, steps.length + 1 ≤ fuel → forwardStepsFuel ctx fuel RegexSearcher.new = some steps) ∧
      steps.length ≤ 2 * ctx.len + 1 ∧
      tilesFrom ctx.len 0 steps = true ∧
      onBoundaries ctx steps = true ∧
      IsIter ctx 0 (matchesOf steps) ∧
      (∀ ms, IsIter ctx 0 ms → matchesOf steps = ms) := by
  obtain ⟨steps, s', hrun, hlen, htile, hbd, hit⟩ :=
    run_exists H _ 0 (some 0) (Nat.le_refl _) (FwdInv_new H)
  have hlen' : steps.length + 1 ≤ 2 * ctx.len + 2 := by
    have := fwdMeasure_new (ctx := ctx); unfold RegexSearcher.new at this; omega
  have hfuel := forwardStepsFuel_of_run hrun rfl
  exact ⟨steps, hfuel _ hlen', hfuel, by omega, htile, hbd, hit,
    fun ms hms => IsIterO_unique _ _ _ hit hms⟩

/-! ## 2. Backwards -/

/-- **backward_is_reverse.** The steps of repeated `next_back()` on a fresh searcher (until `Done`) are
exactly the forward steps in reverse order (no panic, the loop of `next_back` terminates within the
model's fuel). -/
theorem backward_is_reverse (ctx : SearchCtx) (H : CtxOK ctx) :
    ∃ steps, forwardSteps ctx = some steps ∧ backwardSteps ctx = some steps.reverse := by
  obtain ⟨steps, s', hrun, hlen, htile, _, _⟩ :=
    run_exists H _ 0 (some 0) (Nat.le_refl _) (FwdInv_new H)
  have hlen' : steps.length + 1 ≤ 2 * ctx.len + 2 := by
    have := fwdMeasure_new (ctx := ctx); unfold RegexSearcher.new at this; omega
  refine ⟨steps, forwardStepsFuel_of_run hrun rfl _ hlen', ?_⟩
  have hnb := nextBack_of_run (s := RegexSearcher.new) rfl hrun hlen'
  have h2 := backwardStepsFuel_some (ctx := ctx) steps.length steps
    { s' with remaining := some (steps, 0) } (2 * ctx.len + 2) rfl rfl hrun.no_done hlen'
  rw [← h2]
  show backwardStepsFuel ctx (2 * ctx.len + 1 + 1) _ = backwardStepsFuel ctx (2 * ctx.len + 1 + 1) _
  simp only [backwardStepsFuel, hnb]

/-! ## 3. Any interleaving -/

/-- **interleaved_tiles.** Take ANY sequence `ops` of `next` (`true`) / `next_back` (`false`) calls on a
fresh searcher (the run stops when both directions have returned `Done`). Then no call panics, and with
`all` the forward step list of `forward_tiles`:
* the steps returned by `next` (in call order), then some list `mid` (the steps not handed out yet),
  then the reverse of the steps returned by `next_back` (in call order) are exactly `all` — so what has
  been handed out tiles a prefix and a suffix of the haystack in order, on boundaries, without overlap;
* as soon as either direction has returned `Done`, `mid` is empty: everything has been handed out,
  exactly once (in particular when the run is `finished`: `fronts ++ backs.reverse = all`);
* steps returned after a `Done` of the same direction would be counted in `fronts` / `backs`: there are
  none. -/
theorem interleaved_tiles (ctx : SearchCtx) (H : CtxOK ctx) (ops : List Bool) :
    ∃ all r mid, forwardSteps ctx = some all ∧ runOps ctx ops = .ok r ∧
      r.fronts ++ mid ++ r.backs.reverse = all ∧
      (r.frontDone = true ∨ r.backDone = true → mid = []) ∧
      (r.finished = true → r.fronts ++ r.backs.reverse = all) := by
  obtain ⟨all, s', hrun, hlen, _⟩ := run_exists H _ 0 (some 0) (Nat.le_refl _) (FwdInv_new H)
  have hlen' : all.length + 1 ≤ 2 * ctx.len + 2 := by
    have := fwdMeasure_new (ctx := ctx); unfold RegexSearcher.new at this; omega
  obtain ⟨r, mid, hr, hi, _⟩ :=
    run_inter hlen' ops RunResult.init all 0 (Inter.init hrun) (.inr (.inr (Nat.zero_le _)))
  obtain ⟨h1, h2⟩ := hi.sound
  refine ⟨all, r, mid, forwardStepsFuel_of_run hrun rfl _ hlen', hr, h1, h2, ?_⟩
  intro hfin
  have hfd : r.frontDone = true := by
    simp only [RunResult.finished, Bool.and_eq_true] at hfin; exact hfin.1
  have := h2 (.inl hfd)
  subst this
  simpa using h1

/-- **interleaved_contract** (`interleaved_tiles` + `forward_tiles`). In any interleaving, once either
direction has returned `Done`, the steps returned by `next` followed by the reverse of the steps returned
by `next_back` tile `[0, len)` on char boundaries, and their `Match` steps are exactly the matches of
`find_iter`: every piece of the haystack has been handed out exactly once, from one side or the other. -/
theorem interleaved_contract (ctx : SearchCtx) (H : CtxOK ctx) (ops : List Bool) (r : RunResult)
    (hr : runOps ctx ops = .ok r) (hdone : r.frontDone = true ∨ r.backDone = true) :
    tilesFrom ctx.len 0 (r.fronts ++ r.backs.reverse) = true ∧
      onBoundaries ctx (r.fronts ++ r.backs.reverse) = true ∧
      (∀ ms, IsIter ctx 0 ms → matchesOf (r.fronts ++ r.backs.reverse) = ms) := by
  obtain ⟨all, r', mid, h1, h2, h3, h4, _⟩ := interleaved_tiles ctx H ops
  rw [hr] at h2; cases h2
  have := h4 hdone
  subst this
  obtain ⟨all', h1', _, _, ht, hb, _, hu⟩ := forward_tiles ctx H
  rw [h1] at h1'; cases h1'
  simp only [List.append_nil] at h3
  rw [h3]
  exact ⟨ht, hb, hu⟩

/-- **interleaved_finishes** (the schedule as fuel). Whatever the first `2·len + 1` calls are, as soon
as `next` and `next_back` have each been called once more, both have returned `Done`. -/
theorem interleaved_finishes (ctx : SearchCtx) (H : CtxOK ctx) (pre post : List Bool)
    (hpre : 2 * ctx.len + 1 ≤ pre.length) (hf : true ∈ post) (hb : false ∈ post) :
    ∃ r, runOps ctx (pre ++ post) = .ok r ∧ r.finished = true := by
  obtain ⟨all, s', hrun, hlen, _⟩ := run_exists H _ 0 (some 0) (Nat.le_refl _) (FwdInv_new H)
  have hlen' : all.length + 1 ≤ 2 * ctx.len + 2 := by
    have := fwdMeasure_new (ctx := ctx); unfold RegexSearcher.new at this; omega
  obtain ⟨r1, mid1, hr1, hi1, hp1, _⟩ :=
    run_inter hlen' pre RunResult.init all 0 (Inter.init hrun) (.inr (.inr (Nat.zero_le _)))
  have hmid : mid1 = [] := by
    apply hi1.mid_nil_of_progress
    rcases hp1 with h | h | h
    · exact .inl h
    · exact .inr (.inl h)
    · exact .inr (.inr (by omega))
  obtain ⟨r, mid, hr, _, _, _, _, hnil⟩ := run_inter hlen' post r1 mid1 0 hi1 (.inr (.inr (Nat.zero_le _)))
  obtain ⟨_, h1, h2⟩ := hnil hmid
  refine ⟨r, ?_, by simp [RunResult.finished, h1 hf, h2 hb]⟩
  simp [runOps, runOpsFrom_append, hr1, hr]

/-- **done_forever.** Once either direction has returned `Done` in a run, every further call, in either
direction, returns `Done` (and does not panic). -/
theorem done_forever (ctx : SearchCtx) (H : CtxOK ctx) (ops : List Bool) (r : RunResult)
    (hr : runOps ctx ops = .ok r) (hdone : r.frontDone = true ∨ r.backDone = true)
    (more : List Bool) :
    callSteps ctx more r.state = .ok (List.replicate more.length .done) := by
  obtain ⟨all, s', hrun, hlen, _⟩ := run_exists H _ 0 (some 0) (Nat.le_refl _) (FwdInv_new H)
  have hlen' : all.length + 1 ≤ 2 * ctx.len + 2 := by
    have := fwdMeasure_new (ctx := ctx); unfold RegexSearcher.new at this; omega
  obtain ⟨r', mid, hr', hi, _⟩ :=
    run_inter hlen' ops RunResult.init all 0 (Inter.init hrun) (.inr (.inr (Nat.zero_le _)))
  have : r' = r := by
    have h := hr'; unfold runOps at hr; rw [hr] at h; cases h; rfl
  subst this
  have hmid := hi.sound.2 hdone
  subst hmid
  exact hi.exhausted.callSteps more

/-! ## 4. What `str::find` / `str::rfind` see -/

/-- **first_match_step.** The first `Match` step from the front is `find_from(h, 0).next()`, i.e.
`regex.find(h)` (`none` = there is no `Match` step). -/
theorem first_match_step (ctx : SearchCtx) (H : CtxOK ctx) :
    ∃ steps, forwardSteps ctx = some steps ∧ firstMatch steps = ctx.findFrom 0 := by
  obtain ⟨steps, h1, _, _, _, _, hit, _⟩ := forward_tiles ctx H
  refine ⟨steps, h1, ?_⟩
  rw [firstMatch_eq_head]
  unfold IsIter at hit
  cases hm : matchesOf steps with
  | nil => rw [hm] at hit; simp only [IsIterO] at hit; simp [hit]
  | cons m ms => rw [hm] at hit; simp only [IsIterO] at hit; simp [hit.1]

/-- **last_match_step.** The first `Match` step from the back is the last match of `find_iter`
(`none` = there is none). -/
theorem last_match_step (ctx : SearchCtx) (H : CtxOK ctx) (ms : List (Nat × Nat))
    (hms : IsIter ctx 0 ms) :
    ∃ steps, backwardSteps ctx = some steps ∧ firstMatch steps = ms.getLast? := by
  obtain ⟨all, h1, h2⟩ := backward_is_reverse ctx H
  obtain ⟨all', h1', _, _, _, _, _, huniq⟩ := forward_tiles ctx H
  rw [h1] at h1'; cases h1'
  refine ⟨all.reverse, h2, ?_⟩
  rw [firstMatch_eq_head, matchesOf_reverse, huniq ms hms, List.head?_reverse]

/-! ## Non-vacuity: pattern `\d*`, haystack `"ab12cd"` (6 ASCII bytes; empty and non-empty matches) -/

/-- `Regex::new(r"\d*").find_from("ab12cd", p).next()` for every `p`. -/
def digitsFindFrom (p : Nat) : Option (Nat × Nat) :=
  if p = 2 then some (2, 4) else if p = 3 then some (3, 4) else if p ≤ 6 then some (p, p) else none

/-- `Regex::new(r"\d*").find_iter("ab12cd")` drained. -/
def digitsMatches : List (Nat × Nat) := [(0, 0), (1, 1), (2, 4), (4, 4), (5, 5), (6, 6)]

def digitsCtx : SearchCtx :=
  { len := 6, findFrom := digitsFindFrom, isBoundary := fun p => decide (p ≤ 6),
    nextBoundary := fun e => if e < 6 then some (e + 1) else none }

/-- The steps the real searcher returns here (checked against the Rust code). -/
def digitsExpected : List SearchStep :=
  [.match 0 0, .reject 0 1, .match 1 1, .reject 1 2, .match 2 4, .match 4 4, .reject 4 5,
   .match 5 5, .reject 5 6, .match 6 6]

theorem digitsCtx_ok : CtxOK digitsCtx := ctxOK_of_check (by decide)

/-- The model computes the expected steps … -/
theorem digits_steps : forwardSteps digitsCtx = some digitsExpected := by decide
/-- … which are the reverse from the back … -/
theorem digits_steps_back : backwardSteps digitsCtx = some digitsExpected.reverse := by decide
/-- … and `digitsMatches` is the iterator's output. -/
theorem digits_iter : IsIter digitsCtx 0 digitsMatches := by decide

example : tilesFrom 6 0 digitsExpected = true := by decide
example : matchesOf digitsExpected = digitsMatches := by decide
example : firstMatch digitsExpected = some (0, 0) ∧ firstMatch digitsExpected.reverse = some (6, 6) := by
  decide

/-- `forward_tiles` instantiated. -/
example : ∃ steps, forwardSteps digitsCtx = some steps ∧ tilesFrom 6 0 steps = true ∧
    matchesOf steps = digitsMatches := by
  obtain ⟨steps, h1, _, _, h2, _, _, h3⟩ := forward_tiles digitsCtx digitsCtx_ok
  exact ⟨steps, h1, h2, h3 _ digits_iter⟩

/-- The other theorems instantiated. -/
example : ∃ steps, forwardSteps digitsCtx = some steps ∧ backwardSteps digitsCtx = some steps.reverse :=
  backward_is_reverse digitsCtx digitsCtx_ok
example : ∃ steps, backwardSteps digitsCtx = some steps ∧ firstMatch steps = some (6, 6) :=
  last_match_step digitsCtx digitsCtx_ok digitsMatches digits_iter
example : ∃ r, runOps digitsCtx (List.replicate 13 true ++ [false, true]) = .ok r ∧ r.finished = true :=
  interleaved_finishes digitsCtx digitsCtx_ok _ _ (by decide) (by decide) (by decide)

/-- An interleaving: `next, next_back, next_back, next, next, next_back, …` (period 6), 12 calls. -/
def digitsOps : List Bool :=
  [true, false, false, true, true, false, true, false, false, true, true, false]

example : (runOps digitsCtx digitsOps).toOption.map
      (fun r => (r.fronts, r.backs, r.frontDone, r.backDone)) =
    some ([.match 0 0, .reject 0 1, .match 1 1, .reject 1 2, .match 2 4],
          [.match 6 6, .reject 5 6, .match 5 5, .reject 4 5, .match 4 4], true, true) := by decide

/-! ### A multi-byte haystack: pattern `x*` on `"aé€😀b"` (11 bytes, boundaries 0 1 3 6 10 11) -/

def multiCtx : SearchCtx :=
  SearchCtx.ofMatches 11 [0, 1, 3, 6, 10, 11] [(0, 0), (1, 1), (3, 3), (6, 6), (10, 10), (11, 11)]

theorem multiCtx_ok : CtxOK multiCtx := ctxOK_of_check (by decide)

/-- As returned by the Rust code. -/
example : forwardSteps multiCtx =
    some [.match 0 0, .reject 0 1, .match 1 1, .reject 1 3, .match 3 3, .reject 3 6, .match 6 6,
          .reject 6 10, .match 10 10, .reject 10 11, .match 11 11] := by decide

/-! ### No match at all (`z` on `"abc"`), and the empty haystack with the empty pattern -/

example : forwardSteps (SearchCtx.ofMatches 3 [0, 1, 2, 3] []) = some [.reject 0 3] := by decide
example : backwardSteps (SearchCtx.ofMatches 3 [0, 1, 2, 3] []) = some [.reject 0 3] := by decide
example : forwardSteps (SearchCtx.ofMatches 0 [0] [(0, 0)]) = some [.match 0 0] := by decide

/-! ### Non-empty matches only: `\d+` on `"ab12cd3"`; a lookbehind: `(?<=a)b` on `"abab"` -/

example : forwardSteps (SearchCtx.ofMatches 7 [0, 1, 2, 3, 4, 5, 6, 7] [(2, 4), (6, 7)]) =
    some [.reject 0 2, .match 2 4, .reject 4 6, .match 6 7] := by decide

example : forwardSteps (SearchCtx.ofMatches 4 [0, 1, 2, 3, 4] [(1, 2), (3, 4)]) =
    some [.reject 0 1, .match 1 2, .reject 2 3, .match 3 4] := by decide

#print axioms forward_tiles
#print axioms backward_is_reverse
#print axioms interleaved_tiles
#print axioms interleaved_contract
#print axioms interleaved_finishes
#print axioms done_forever
#print axioms first_match_step
#print axioms last_match_step
#print axioms digitsCtx_ok
#print axioms digits_steps

end Regress.C20
