import Proofs.Lemmas.Searcher
/-!
# C20 — `RegexSearcher` (`core::str::pattern::Searcher` / `ReverseSearcher` for `&Regex`)

Model: `RegressModel/Api/Searcher.lean`. Contract vocabulary (`tilesFrom`, `tilesBackFrom`,
`onBoundaries`, `matchesOf`, `IsIter`, `ForwardOK`): `Proofs/Lemmas/SearcherSpec.lean`.

Result: the contract ("adjacent, non-overlapping, covering the whole haystack") is **violated** as
soon as a match is empty — both by `next` and by `next_back`, and `next_back` even loses a
non-empty match. It **holds** for `next` when no match is empty (`forward_tiles_partial`).
-/
namespace Regress.C20
open Regress.Api

/-! ## (a) Counterexamples: pattern `\d*`, haystack `"ab12cd"` (6 ASCII bytes) -/

/-- `Regex::new(r"\d*").find_from("ab12cd", p).next()` for every `p`. -/
def digitsFindFrom (p : Nat) : Option (Nat × Nat) :=
  if p = 2 then some (2, 4) else if p = 3 then some (3, 4) else if p ≤ 6 then some (p, p) else none

/-- `Regex::new(r"\d*").find_iter("ab12cd")` drained. -/
def digitsMatches : List (Nat × Nat) := [(0, 0), (1, 1), (2, 4), (4, 4), (5, 5), (6, 6)]

def digitsCtx : SearchCtx :=
  { len := 6, findFrom := digitsFindFrom, allMatches := digitsMatches, isBoundary := fun _ => true }

/-- The steps a contract-abiding searcher would have to return here. -/
def digitsExpected : List SearchStep :=
  [.match 0 0, .reject 0 1, .match 1 1, .reject 1 2, .match 2 4, .match 4 4, .reject 4 5,
   .match 5 5, .reject 5 6, .match 6 6]

example : tilesFrom 6 0 digitsExpected = true := by decide
example : matchesOf digitsExpected = digitsMatches := by decide

/-- **forward_gap_witness.** `next()` returns `Match(0,0)` and then `Match(1,1)`: the byte range
`[0,1)` is never reported (no `Reject(0,1)`), and likewise `[1,2)`, `[4,5)`, `[5,6)`. The steps do
not tile the haystack, so `str::split`, `str::matches` etc. built on this searcher lose text. -/
theorem forward_gap_witness :
    forwardSteps digitsCtx =
      some [.match 0 0, .match 1 1, .match 2 4, .match 4 4, .match 5 5, .match 6 6] ∧
    (∀ steps, forwardSteps digitsCtx = some steps → tilesFrom digitsCtx.len 0 steps = false) := by
  refine ⟨by decide, ?_⟩
  intro steps hs
  have h : forwardSteps digitsCtx =
      some [.match 0 0, .match 1 1, .match 2 4, .match 4 4, .match 5 5, .match 6 6] := by decide
  rw [h] at hs; cases hs; decide

/-- The very first two calls already break adjacency. -/
theorem forward_gap_first_two :
    (RegexSearcher.new digitsCtx).next digitsCtx =
      .ok (.match 0 0, { currentPos := 1, done := false, reversePos := 6, reverseDone := false }) ∧
    RegexSearcher.next digitsCtx
        { currentPos := 1, done := false, reversePos := 6, reverseDone := false } =
      .ok (.match 1 1, { currentPos := 2, done := false, reversePos := 6, reverseDone := false }) := by
  constructor <;> rfl

/-- **backward_witness.** `next_back()` on the same input returns
`Match(6,6), Match(5,5), Match(4,4), Reject(1,3), Match(1,1), Match(0,0)`:
* the ranges `[5,6)`, `[4,5)`, `[3,4)`, `[0,1)` are never reported (no tiling), and
* the only non-empty match `Match(2,4)` ("12") is **lost** — half of it is even inside
  `Reject(1,3)` — although `next()` reports it. -/
theorem backward_witness :
    backwardSteps digitsCtx =
      some [.match 6 6, .match 5 5, .match 4 4, .reject 1 3, .match 1 1, .match 0 0] ∧
    (∀ steps, backwardSteps digitsCtx = some steps →
      tilesBackFrom digitsCtx.len steps = false ∧ (2, 4) ∉ matchesOf steps) ∧
    (∀ steps, forwardSteps digitsCtx = some steps → (2, 4) ∈ matchesOf steps) := by
  have hb : backwardSteps digitsCtx =
      some [.match 6 6, .match 5 5, .match 4 4, .reject 1 3, .match 1 1, .match 0 0] := by decide
  have hf : forwardSteps digitsCtx =
      some [.match 0 0, .match 1 1, .match 2 4, .match 4 4, .match 5 5, .match 6 6] := by decide
  refine ⟨hb, ?_, ?_⟩
  · intro steps hs; rw [hb] at hs; cases hs; decide
  · intro steps hs; rw [hf] at hs; cases hs; decide

/-- A smaller witness: the empty pattern on `"a"` (matches `(0,0)` and `(1,1)`). Forwards the
searcher returns `Match(0,0), Match(1,1)` and never accounts for the byte `a`; the `&str` pattern
`""` returns `Match(0,0), Reject(0,1), Match(1,1)`. -/
def emptyCtx : SearchCtx :=
  { len := 1, findFrom := fun p => if p ≤ 1 then some (p, p) else none,
    allMatches := [(0, 0), (1, 1)], isBoundary := fun _ => true }

theorem forward_gap_witness_empty_pattern :
    forwardSteps emptyCtx = some [.match 0 0, .match 1 1] ∧
    tilesFrom 1 0 [.match 0 0, .match 1 1] = false ∧
    tilesFrom 1 0 [.match 0 0, .reject 0 1, .match 1 1] = true ∧
    backwardSteps emptyCtx = some [.match 1 1, .match 0 0] ∧
    tilesBackFrom 1 [.match 1 1, .match 0 0] = false := by decide

/-! ## (b) Without empty matches the forward searcher satisfies the contract -/

/-- **forward_tiles_partial.** If every match found by `find_from` is non-empty (`ForwardOK`), then
repeated `next()` never panics, terminates within the model's fuel, and the steps before `Done`
* tile `[0, len)` exactly (adjacent, non-overlapping, covering),
* lie on char boundaries, and
* their `Match` steps are exactly the matches of `find_iter` (`allMatches`), in order. -/
theorem forward_tiles_partial (ctx : SearchCtx) (H : ForwardOK ctx) :
    ∃ steps, forwardSteps ctx = some steps ∧
      tilesFrom ctx.len 0 steps = true ∧
      onBoundaries ctx steps = true ∧
      matchesOf steps = ctx.allMatches := by
  unfold forwardSteps RegexSearcher.new
  exact forward_from H _ 0 ctx.allMatches ctx.len false (by omega) (by omega) H.boundary_zero H.all_iter

/-! ### Non-vacuity: pattern `\d+` on `"ab12cd3"` (matches `[2,4)` and `[6,7)`) -/

def plusCtx : SearchCtx :=
  { len := 7
    findFrom := fun p => if p ≤ 2 then some (2, 4) else if p = 3 then some (3, 4)
                         else if p ≤ 6 then some (6, 7) else none
    allMatches := [(2, 4), (6, 7)]
    isBoundary := fun _ => true }

theorem plusCtx_ok : ForwardOK plusCtx where
  find_range := by
    intro p s e _ h
    simp only [plusCtx] at h ⊢
    split at h
    · cases h; omega
    · split at h
      · cases h; omega
      · split at h
        · cases h; omega
        · cases h
  find_restart := by
    intro p s e _ h
    simp only [plusCtx] at h ⊢
    split at h
    · cases h; simp
    · split at h
      · cases h; simp
      · split at h
        · cases h; simp
        · cases h
  find_boundary := by intro p s e _ _; simp [plusCtx]
  boundary_zero := rfl
  boundary_len := rfl
  all_iter := by
    refine ⟨by decide, by decide, ?_⟩
    show plusCtx.findFrom 7 = none
    decide

example : forwardSteps plusCtx =
    some [.reject 0 2, .match 2 4, .reject 4 6, .match 6 7] := by decide
example : ∃ steps, forwardSteps plusCtx = some steps ∧ tilesFrom 7 0 steps = true ∧
    onBoundaries plusCtx steps = true ∧ matchesOf steps = [(2, 4), (6, 7)] :=
  forward_tiles_partial plusCtx plusCtx_ok
/-- Backwards, without empty matches, the model also tiles on this example. -/
example : backwardSteps plusCtx =
    some [.match 6 7, .reject 4 6, .match 2 4, .reject 0 2] := by decide

/-- `digitsCtx` fails exactly the non-emptiness hypothesis. -/
example : ¬ ForwardOK digitsCtx := by
  intro H
  have := H.find_range 0 0 0 (by decide) (by decide)
  omega

#print axioms forward_gap_witness
#print axioms forward_gap_first_two
#print axioms backward_witness
#print axioms forward_gap_witness_empty_pattern
#print axioms forward_tiles_partial

end Regress.C20
