import Proofs.Lemmas.Iter
/-!
# C09 — the match iterator (`exec::Matches` over `next_match*`)

Model: `RegressModel/Api/Iter.lean`. Specification vocabulary (`Reach`, `orbit`, `first`,
`advance`, `unfoldIter`, `ChainFrom`, `Consec`, `Succeeds`, `PrefilterAdmissible`):
`Proofs/Lemmas/IterSpec.lean`. Helper lemmas: `Proofs/Lemmas/Iter.lean`.

All theorems are about an abstract `SearchEnv` satisfying `EnvOK` (in-range behaviour of
`try_at_pos`, `next_right_pos`, `find_bytes`).
-/
namespace Regress.C09
open Regress.Api

variable {env : SearchEnv}

/-! ## Fuel -/

/-- The `loop` of `next_match_with_prefix_search` terminates within `len + 1 - pos` iterations:
any larger fuel gives the same result as the fuel `len + 2` used by the model. -/
theorem nextMatchPrefix_fuel_suffices (h : EnvOK env) {pos fuel : Nat} (hp : pos ≤ env.len)
    (hf : env.len + 1 - pos ≤ fuel) :
    nextMatchPrefixFuel env fuel pos = nextMatchPrefix env pos := by
  unfold nextMatchPrefix
  rcases Nat.le_total fuel (env.len + 2) with hle | hle
  · exact prefixFuel_stable_le h hp _ _ hf hle
  · exact (prefixFuel_stable_le h hp _ _ (by omega) hle).symm

/-- Draining the iterator needs at most `len + 2 - c` calls of `next`. -/
theorem collect_fuel_suffices (h : EnvOK env) (k : Kind) {c fuel : Nat} (hc : c ≤ env.len)
    (hf : env.len + 2 - c ≤ fuel) :
    Matches.collectFuel env k fuel ⟨some c⟩ = Matches.collect env k ⟨some c⟩ := by
  unfold Matches.collect
  rcases Nat.le_total fuel (env.len + 2) with hle | hle
  · exact collectFuel_stable_le h k hc _ _ hf hle
  · exact (collectFuel_stable_le h k hc _ _ (by omega) hle).symm

/-! ## Meaning of `first` -/

/-- `first env c = some (s, e, caps)` iff `s` is the least position reachable from `c` (by
`next_right_pos` steps) at which the match attempt succeeds, and `(e, caps)` is its result. -/
theorem first_spec_some (h : EnvOK env) {c : Nat} (hc : c ≤ env.len) (s e : Nat) (caps : Caps) :
    first env c = some (s, e, caps) ↔
      (Reach env c s ∧ env.attempt s = some (e, caps) ∧
        ∀ r, Reach env c r → r < s → env.attempt r = none) :=
  first_some_iff h _ c (Nat.le_refl _) hc s e caps

/-- `first env c = none` iff no attempt succeeds at any position reachable from `c`. -/
theorem first_spec_none (h : EnvOK env) {c : Nat} (hc : c ≤ env.len) :
    first env c = none ↔ ∀ r, Reach env c r → env.attempt r = none :=
  first_none_iff h _ c (Nat.le_refl _) hc

/-- `orbit` lists exactly the reachable positions. -/
theorem mem_orbit (h : EnvOK env) {p : Nat} (hp : p ≤ env.len) (r : Nat) :
    r ∈ orbit env p ↔ Reach env p r :=
  mem_orbit_iff h _ p (Nat.le_refl _) hp r

/-! ## C04/C09: the prefix search is transparent -/

/-- **prefilter_transparent.** With an admissible prefix search, `next_match_with_prefix_search`
returns exactly what the plain scan (`bytesearch::EmptyString`, `find_bytes = Some`) returns —
the same match, the same captures, the same `next_start`. -/
theorem prefilter_transparent (h : EnvOK env) (ha : PrefilterAdmissible env) {p : Nat}
    (hp : p ≤ env.len) :
    nextMatchPrefix env p = nextMatchPrefix { env with findBytes := some } p :=
  prefilter_transparent_aux h ha _ p (Nat.le_refl _) hp

/-- The trivial prefix search is admissible. -/
theorem admissible_of_id (h : EnvOK env) (hid : ∀ p, p ≤ env.len → env.findBytes p = some p) :
    PrefilterAdmissible env where
  some_reach := by
    intro p q hp hq; rw [hid p hp] at hq; cases hq; exact Reach.refl _
  some_skip := by
    intro p q r hp hq hr hlt
    rw [hid p hp] at hq; cases hq
    have := hr.le h hp; omega
  none_skip := by
    intro p r hp hq; rw [hid p hp] at hq; cases hq

/-- One `next_match` of the backtracking executor with an admissible prefix search is `first`. -/
theorem nextMatch_eq_first (h : EnvOK env) (ha : PrefilterAdmissible env) {pos : Nat}
    (hp : pos ≤ env.len) :
    nextMatch env .btPrefix pos = (first env pos).map (toStep env) := by
  show nextMatchPrefix env pos = _
  rw [prefilter_transparent h ha hp]
  exact plain_eq_first h hp

/-- One `next_match` of the PikeVM (non-anchored) is `first`; it does not depend on `findBytes`. -/
theorem pike_nextMatch_eq_first (h : EnvOK env) {pos : Nat} (hp : pos ≤ env.len) :
    nextMatch env (.pike false) pos = (first env pos).map (toStep env) := by
  show pikeNextMatch env false pos = _
  simp only [pikeNextMatch, Bool.false_eq_true, if_false]
  rw [pikeStd_eq_prefix]
  exact plain_eq_first h hp

/-! ## The iterator is the unfold of `first` / `advance` -/

theorem collectK_eq_unfold (h : EnvOK env) (k : Kind)
    (hk : ∀ pos, pos ≤ env.len → nextMatch env k pos = (first env pos).map (toStep env))
    (start : Nat) : collectK env k start = unfoldIter env start := by
  unfold collectK unfoldIter Matches.collect Matches.new initialPosition
  by_cases hs : start ≤ env.len
  · have : ¬ (env.len - 0 < start) := by omega
    simp only [this, if_false, hs, if_true, Nat.zero_add]
    exact collectFuel_eq_unfoldFuel h k hk _ start hs
  · have : env.len - 0 < start := by omega
    simp only [this, if_true, hs, if_false]
    rw [collectFuel_none, unfoldFuel_none]

/-- **iter_is_unfold.** `find_from(text, start)` drained (backtracking executor, any admissible
prefix search — in particular `Arbitrary`/`EmptyString`) is the unfold: starting from the cursor
`start`, repeatedly take `first env cursor` and continue from `advance`. -/
theorem iter_is_unfold (h : EnvOK env) (ha : PrefilterAdmissible env) (start : Nat) :
    collect env start = unfoldIter env start :=
  collectK_eq_unfold h .btPrefix (fun _ hp => nextMatch_eq_first h ha hp) start

/-- The `Arbitrary` start predicate (`find_bytes = Some`) as a special case. -/
theorem iter_is_unfold_plain (h : EnvOK env) (hid : ∀ p, p ≤ env.len → env.findBytes p = some p)
    (start : Nat) : collect env start = unfoldIter env start :=
  iter_is_unfold h (admissible_of_id h hid) start

/-- The non-anchored PikeVM iterator is the same unfold. -/
theorem iter_is_unfold_pike (h : EnvOK env) (start : Nat) :
    collectK env (.pike false) start = unfoldIter env start :=
  collectK_eq_unfold h (.pike false) (fun _ hp => pike_nextMatch_eq_first h hp) start

/-- `initial_position(offset)` is `Some(offset)` iff `offset ≤ len`. -/
theorem initialPosition_eq (offset : Nat) :
    initialPosition env offset = if offset ≤ env.len then some offset else none := by
  unfold initialPosition
  by_cases h : offset ≤ env.len
  · have : ¬ (env.len < offset) := by omega
    simp [this, h]
  · have : env.len < offset := by omega
    simp [this, h]

/-! ## Order, disjointness, count (every executor kind) -/

/-- **iter_chain.** The results lie in `[start, len]`, are well-formed ranges, and each starts at
or after the end of its predecessor (strictly after, if the predecessor is empty). -/
theorem iter_chain (h : EnvOK env) (k : Kind) (start : Nat) :
    ChainFrom env.len start (collectK env k start) := by
  unfold collectK Matches.collect Matches.new initialPosition
  by_cases hs : start ≤ env.len
  · have : ¬ (env.len - 0 < start) := by omega
    simp only [this, if_false, Nat.zero_add]
    exact collectFuel_chain h k _ start hs
  · have : env.len - 0 < start := by omega
    simp only [this, if_true]
    rw [collectFuel_none]; trivial

/-- **iter_increasing.** Consecutive results `a, b` satisfy `a.end ≤ b.start`, `a.start < b.start`,
and `b` starts strictly after an empty `a`. -/
theorem iter_increasing (h : EnvOK env) (k : Kind) (start : Nat) :
    Consec Succeeds (collectK env k start) :=
  ChainFrom_consec _ _ (iter_chain h k start)

/-- **iter_disjoint.** Any two results (not only consecutive ones) are disjoint and ordered. -/
theorem iter_disjoint (h : EnvOK env) (k : Kind) (start : Nat) :
    (collectK env k start).Pairwise
      (fun a b => a.range.2 ≤ b.range.1 ∧ a.range.1 < b.range.1) := by
  have hc := iter_chain h k start
  generalize collectK env k start = ms at hc
  induction ms generalizing start with
  | nil => exact List.Pairwise.nil
  | cons a l ih =>
    unfold ChainFrom at hc
    refine List.Pairwise.cons ?_ (ih _ hc.2.2.2)
    intro b hb
    have := (ChainFrom_bounds _ _ hc.2.2.2 b hb).1
    split at this <;> omega

/-- Every result is a range inside `[start, len]`. -/
theorem iter_in_range (h : EnvOK env) (k : Kind) (start : Nat) :
    ∀ m ∈ collectK env k start,
      start ≤ m.range.1 ∧ m.range.1 ≤ m.range.2 ∧ m.range.2 ≤ env.len :=
  ChainFrom_bounds _ _ (iter_chain h k start)

/-- Every result is what the matcher returned at its start position (end, captures), and carries
the regex's group names. -/
theorem iter_sound (h : EnvOK env) (k : Kind) (start : Nat) :
    ∀ m ∈ collectK env k start,
      env.attempt m.range.1 = some (m.range.2, m.captures) ∧ m.names = env.names := by
  unfold collectK Matches.collect Matches.new
  rw [initialPosition_eq]
  split
  · next hs => exact collectFuel_att h k _ start hs
  · rw [collectFuel_none]; intro m hm; simp at hm

/-- **iter_count_le.** -/
theorem iter_count_le (h : EnvOK env) (k : Kind) (start : Nat) (_hs : start ≤ env.len) :
    (collectK env k start).length ≤ env.len - start + 1 := by
  have := ChainFrom_length _ _ (iter_chain h k start)
  omega

/-- **iter_fused.** When `next` returns `None` the iterator state is unchanged, so every later
`next` recomputes the same `None` (there is no `done` flag; `position` keeps its value). -/
theorem iter_fused (k : Kind) (it it' : Matches) (hn : it.next env k = (none, it')) :
    it' = it ∧ it'.next env k = (none, it') := by
  have hit : it' = it := by
    unfold Matches.next at hn
    split at hn
    · exact (Prod.mk.inj hn).2.symm
    · split at hn
      · exact (Prod.mk.inj hn).2.symm
      · simp at hn
  exact ⟨hit, by rw [hit] at hn ⊢; exact hn⟩

/-- After the first `None`, every further call returns `None` (iterated form). -/
theorem iter_fused_iterate (k : Kind) (it it' : Matches) (hn : it.next env k = (none, it')) :
    ∀ n : Nat, (Nat.repeat (fun s => (s.next env k).2) n it').next env k = (none, it') := by
  have ⟨_, h2⟩ := iter_fused k it it' hn
  intro n
  induction n with
  | zero => exact h2
  | succ n ih =>
    simp only [Nat.repeat]
    have hrep : ∀ m : Nat, Nat.repeat (fun s => (s.next env k).2) m it' = it' := by
      intro m
      induction m with
      | zero => rfl
      | succ m ihm => simp only [Nat.repeat, ihm, h2]
    rw [hrep n, h2]
    exact h2

/-- **start_beyond_end_empty.** (`initial_position` is `None`; no `EnvOK` needed.) -/
theorem start_beyond_end_empty (k : Kind) (start : Nat) (hs : start > env.len) :
    collectK env k start = [] := by
  unfold collectK Matches.collect Matches.new initialPosition
  have : env.len - 0 < start := by omega
  simp only [this, if_true]
  exact collectFuel_none k _

/-! ## Anchored regexes -/

/-- **anchored_only_at_pos.** `next_match_anchored(pos)` consults the matcher only at `pos`: it is
unchanged if `attempt` is altered anywhere else; a returned match starts at `pos`; and if the
attempt at `pos` fails the result is `None` (no scanning). Same for the anchored PikeVM branch. -/
theorem anchored_only_at_pos (pos : Nat) (att' : Nat → Option (Nat × Caps))
    (hatt : att' pos = env.attempt pos) :
    nextMatchAnchored { env with attempt := att' } pos = nextMatchAnchored env pos ∧
    pikeNextMatch { env with attempt := att' } true pos = pikeNextMatch env true pos ∧
    (∀ m ns, nextMatchAnchored env pos = some (m, ns) → m.range.1 = pos) ∧
    (env.attempt pos = none → nextMatchAnchored env pos = none ∧ pikeNextMatch env true pos = none) := by
  refine ⟨?_, ?_, ?_, ?_⟩
  · simp only [nextMatchAnchored, hatt]; rfl
  · simp only [pikeNextMatch, if_true, hatt]; rfl
  · intro m ns hm
    unfold nextMatchAnchored at hm
    split at hm
    · simp only [Option.some.injEq, Prod.mk.injEq] at hm
      rw [← hm.1]; rfl
    · simp at hm
  · intro hn
    simp [nextMatchAnchored, pikeNextMatch, hn]

/-- The first result of an anchored iterator, if any, starts exactly at `start`. -/
theorem anchored_first_at_start (start : Nat) (m : MatchR) (ms : List MatchR)
    (hm : collectK env .btAnchored start = m :: ms) : m.range.1 = start := by
  unfold collectK Matches.collect Matches.new at hm
  rw [initialPosition_eq] at hm
  split at hm
  · rw [collectFuel_succ_some] at hm
    split at hm
    · simp at hm
    · next m' ns hm' =>
      simp only [List.cons.injEq] at hm
      rw [← hm.1]
      exact (anchored_only_at_pos start env.attempt rfl).2.2.1 m' ns hm'
  · rw [collectFuel_none] at hm; simp at hm

/-! ## Non-vacuity: a concrete environment

Haystack of 4 one-byte chars; the regex matches `[1,3)` at 1 (one capture group `[1,2)`) and the
empty string at 3; the prefix search knows that matches can only start at 1 or 3. -/

def exEnv : SearchEnv where
  len := 4
  attempt := fun p => if p = 1 then some (3, [some (1, 2)]) else if p = 3 then some (3, [none]) else none
  nextRightPos := fun p => if p < 4 then some (p + 1) else none
  findBytes := fun p => if p ≤ 1 then some 1 else if p ≤ 3 then some 3 else none

theorem exEnv_ok : EnvOK exEnv where
  attempt_range := by
    intro p e c _ ha
    simp only [exEnv] at ha ⊢
    split at ha
    · simp at ha; omega
    · split at ha
      · simp at ha; omega
      · simp at ha
  next_gt := by
    intro p q _ hq
    simp only [exEnv] at hq ⊢
    split at hq
    · simp at hq; omega
    · simp at hq
  find_range := by
    intro p q _ hq
    simp only [exEnv] at hq ⊢
    split at hq
    · simp at hq; omega
    · split at hq
      · simp at hq; omega
      · simp at hq

theorem exEnv_reach_succ (p : Nat) (hp : p < 4) : Reach exEnv p (p + 1) :=
  Reach.step (by simp [exEnv, hp]) (Reach.refl _)

theorem exEnv_admissible : PrefilterAdmissible exEnv where
  some_reach := by
    intro p q hp hq
    simp only [exEnv] at hq hp
    split at hq
    · cases hq
      rcases (by omega : p = 0 ∨ p = 1) with rfl | rfl
      · exact exEnv_reach_succ 0 (by omega)
      · exact Reach.refl _
    · split at hq
      · cases hq
        rcases (by omega : p = 2 ∨ p = 3) with rfl | rfl
        · exact exEnv_reach_succ 2 (by omega)
        · exact Reach.refl _
      · simp at hq
  some_skip := by
    intro p q r hp hq hr hlt
    have hle := hr.le exEnv_ok hp
    simp only [exEnv] at hq hp hle ⊢
    split at hq
    · cases hq
      have : r = 0 := by omega
      subst this; simp
    · split at hq
      · cases hq
        have : r = 2 := by omega
        subst this; simp
      · simp at hq
  none_skip := by
    intro p r hp hq hr
    have hle := hr.le exEnv_ok hp
    simp only [exEnv] at hq hp hle ⊢
    split at hq
    · simp at hq
    · split at hq
      · simp at hq
      · have : r = 4 := by omega
        subst this; simp

/-- The concrete iterator output: a non-empty match followed by an adjacent empty one. -/
example : collect exEnv 0 =
    [{ range := (1, 3), captures := [some (1, 2)], names := [] },
     { range := (3, 3), captures := [none], names := [] }] := by decide

example : unfoldIter exEnv 0 = collect exEnv 0 := by decide
example : collect exEnv 0 = unfoldIter exEnv 0 := iter_is_unfold exEnv_ok exEnv_admissible 0
example : Consec Succeeds (collect exEnv 0) := iter_increasing exEnv_ok .btPrefix 0
example : (collect exEnv 0).length ≤ 4 - 0 + 1 := iter_count_le exEnv_ok .btPrefix 0 (by decide)
example : collect exEnv 5 = [] := start_beyond_end_empty .btPrefix 5 (by decide)
example : nextMatchPrefix exEnv 0 = nextMatchPrefix { exEnv with findBytes := some } 0 :=
  prefilter_transparent exEnv_ok exEnv_admissible (by decide)
/-- The iterator really keeps its position on failure: after the last match `position = some 4`,
and `next` returns `None` again and again from there. -/
example : (Matches.next exEnv .btPrefix ⟨some 4⟩) = (none, ⟨some 4⟩) := by decide
/-- An anchored iterator started at 0 finds nothing although there is a match at 1. -/
example : collectK exEnv .btAnchored 0 = [] := by decide
example : collectK exEnv .btAnchored 1 =
    [{ range := (1, 3), captures := [some (1, 2)], names := [] },
     { range := (3, 3), captures := [none], names := [] }] := by decide

#print axioms nextMatchPrefix_fuel_suffices
#print axioms collect_fuel_suffices
#print axioms first_spec_some
#print axioms first_spec_none
#print axioms prefilter_transparent
#print axioms iter_is_unfold
#print axioms iter_is_unfold_plain
#print axioms iter_is_unfold_pike
#print axioms iter_chain
#print axioms iter_increasing
#print axioms iter_disjoint
#print axioms iter_in_range
#print axioms iter_sound
#print axioms iter_count_le
#print axioms iter_fused
#print axioms iter_fused_iterate
#print axioms start_beyond_end_empty
#print axioms anchored_only_at_pos
#print axioms anchored_first_at_start

end Regress.C09
