import Proofs.C10
import Proofs.C08
import Proofs.Lemmas.EmitStack
import Proofs.Lemmas.Walk
/-!
# C07 — compilation is total (first instalment)

The models of the parser, optimizer, emitter and start-predicate analysis return
`Except … `, with **every** Rust panic site (`unwrap`, `expect`, `unreachable!`, `panic!`,
`assert!`, slice indexing, `copy_from_slice`) present as an explicit error result, and they are
exact transliterations (structural equality with the real passes is checked on every run).  C07
then says: no such result is reachable.  This file collects what is proved so far; the full
`parse_no_panic` / `optimize_total` / `emit_total` development is in `Proofs/C07.lean` when
present (see MANIFEST level_note for what is and is not covered).
-/
/-!
The theorems (stated where they are proved; listed here as the property's obligations):

* `Regress.C10.unfold_le_4`, `Regress.C10.expand_le_4` — every case-equivalence class has at most
  `MAX_CHAR_SET_LENGTH` (= 4, generated from `insn.rs`) members, in unicode and in legacy mode: the
  three `panic!("Unicode case fold exceeded maximum expansion")` sites (`parse::char_node`,
  `literal::lower_code_point_sequence`, `emit_code_point_sequence`) and the `copy_from_slice` into
  `[u32; 4]` of `Node::CharSet` are unreachable.
* `Regress.Parse.parseCaptureGroups_cases` — the named-group pre-scan (`parse_capture_groups`)
  returns `Ok` or a syntax error for every input: never a panic site, never fuel exhaustion.
* `Regress.VM.emitViaStack_eq` — the recursive emitter of the model equals the explicit work-stack
  loop of `emit.rs` (the emitter does not recurse on the native stack).
* `Regress.IR.walkMut_postorder_eq` — the fuel-bounded walker equals the structural one when the
  fuel covers the IR height.
-/

#print axioms Regress.C10.unfold_le_4
#print axioms Regress.C10.expand_le_4
#print axioms Regress.Parse.parseCaptureGroups_cases
#print axioms Regress.VM.emitViaStack_eq
#print axioms Regress.IR.walkMut_postorder_eq
