import Proofs.Lemmas.Utf16
/-!
# C14 — UTF-16 and UCS-2 entry points

Property theorems about the models of `Utf16Input` / `Ucs2Input` (`RegressModel/Text/Utf16.lean`,
transliterated from `src/indexing.rs`), restated from `Proofs/Lemmas/Utf16.lean` under the
property's names.  What is proved is the decoder level (every primitive the executors use on
`u16` input); the run-level statement ("the match sequences agree modulo offset translation")
follows from it and from congruence of the executor models in the input primitives, and is
meanwhile decided per run by the correspondence with the `utf16` build.
-/
namespace Regress.C14
open Regress.Utf16
open Regress.Utf8 (AllScalar)

/-- **Round trip.** On the UTF-16 encoding of scalar values the decoders read exactly the characters, forwards and backwards. -/
theorem utf16_roundtrip {cs : List Nat} (hcs : AllScalar cs) :
    (∀ k (hk : k < cs.length),
      nextRight (text16 cs) (off16 cs k) = some (cs[k], off16 cs (k + 1)) ∧
      nextRightPos (text16 cs) (off16 cs k) = some (off16 cs (k + 1))) ∧
    nextRight (text16 cs) (off16 cs cs.length) = none ∧
    nextRightPos (text16 cs) (off16 cs cs.length) = none ∧
    (∀ k (hk0 : 0 < k) (hk : k ≤ cs.length),
      nextLeft (text16 cs) (off16 cs k) = some (cs[k - 1]'(by omega), off16 cs (k - 1)) ∧
      nextLeftPos (text16 cs) (off16 cs k) = some (off16 cs (k - 1))) ∧
    nextLeft (text16 cs) (off16 cs 0) = none ∧
    nextLeftPos (text16 cs) (off16 cs 0) = none :=
  Regress.Utf16.utf16_roundtrip hcs

/-- **Totality and range on arbitrary input.** For ANY array of code units (lone surrogates included) every decoder stays within the array, moving by one or two units; `none` exactly at the corresponding end. (These primitives use checked `get`: no panic site.) -/
theorem utf16_total_in_range (units : Array Nat) (p : Nat) (hp : p ≤ units.size) :
    ((nextRight units p = none ↔ p = units.size) ∧
      ∀ c q, nextRight units p = some (c, q) → p < q ∧ q ≤ p + 2 ∧ q ≤ units.size) ∧
    ((nextRightPos units p = none ↔ p = units.size) ∧
      ∀ q, nextRightPos units p = some q → p < q ∧ q ≤ p + 2 ∧ q ≤ units.size) ∧
    ((nextLeft units p = none ↔ p = 0) ∧
      ∀ c q, nextLeft units p = some (c, q) → p - 2 ≤ q ∧ q < p ∧ q ≤ units.size) ∧
    ((nextLeftPos units p = none ↔ p = 0) ∧
      ∀ q, nextLeftPos units p = some q → p - 2 ≤ q ∧ q < p ∧ q ≤ units.size) :=
  Regress.Utf16.utf16_total_in_range units p hp

/-- **UCS-2 = UTF-16 on text without surrogates.** -/
theorem ucs2_eq_utf16_on_bmp {units : Array Nat} (h : ∀ u ∈ units, isSurrogate u = false)
    (p : Nat) (hp : p ≤ units.size) :
    Ucs2.nextRight units p = nextRight units p ∧
    Ucs2.nextLeft units p = nextLeft units p ∧
    Ucs2.nextRightPos units p = nextRightPos units p ∧
    Ucs2.nextLeftPos units p = nextLeftPos units p :=
  Regress.Utf16.ucs2_eq_utf16_on_bmp h p hp

/-- **Offset translation.** UTF-8 and UTF-16 boundaries of the same text are in a strictly monotone bijection. -/
theorem offset_translation {cs : List Nat} (hcs : AllScalar cs) :
    (∀ k j, k ≤ cs.length → j ≤ cs.length →
      (Regress.Utf8.off cs k < Regress.Utf8.off cs j ↔ k < j) ∧
      (off16 cs k < off16 cs j ↔ k < j)) ∧
    (∀ p, p ≤ (Regress.Utf8.text cs).size →
      (Regress.Utf8.isBoundary (Regress.Utf8.text cs) p = true ↔ ∃ q, OffsetRel cs p q)) ∧
    (∀ q, isBoundary16 (text16 cs) q = true ↔ ∃ p, OffsetRel cs p q) ∧
    (∀ p q q', OffsetRel cs p q → OffsetRel cs p q' → q = q') ∧
    (∀ p p' q, OffsetRel cs p q → OffsetRel cs p' q → p = p') ∧
    (∀ p q p' q', OffsetRel cs p q → OffsetRel cs p' q' → (p < p' ↔ q < q')) ∧
    OffsetRel cs 0 0 ∧ OffsetRel cs (Regress.Utf8.text cs).size (text16 cs).size :=
  Regress.Utf16.offset_translation hcs

end Regress.C14

#print axioms Regress.C14.utf16_roundtrip
#print axioms Regress.C14.utf16_total_in_range
#print axioms Regress.C14.ucs2_eq_utf16_on_bmp
#print axioms Regress.C14.offset_translation
