import RegressModel.Syntax.Parse
/-!
# C08 — decision lemmas about the parser model (`RegressModel/Syntax/Parse.lean`)

`Parse.parse pattern flags` is the model of `parse::try_parse`; patterns are lists of code points.
`accepted r` : the parser returns `Ok`;  `rejected r` : it returns a *syntax* error (not a limit
error, not a panic, not fuel exhaustion).

Two kinds of statements:

* GENERAL: for every continuation `rest` of the pattern and all 64 flag combinations
  (`close_first_not_accepted`, `nothing_to_repeat_first_not_accepted`).  These say "not accepted"
  (`≠ .ok _`), which is what can be shown without a termination argument for the capture-group
  pre-scan; for the one-character patterns themselves `rejected` is proved.
* INSTANCES: concrete patterns, for ALL 64 flag combinations unless said otherwise, by kernel
  evaluation of the model (`decide +kernel`).
-/
namespace Regress.C08
open Regress Regress.IR Regress.Parse

/-- The parser returned `Ok`. -/
def accepted (r : Res Regex) : Bool :=
  match r with
  | .ok _ => true
  | .error _ => false

/-- The parser returned a syntax error. -/
def rejected (r : Res Regex) : Bool :=
  match r with
  | .error (.syntax _) => true
  | _ => false

/- ASCII pattern literal: `pat! "a|b"` elaborates to the list literal `[97, 124, 98]` of its
code points (a macro, so that no `String` function has to be evaluated by the kernel). -/
open Lean in
macro "pat!" s:str : term => do
  let cs := s.getString.toList.map (fun c => Syntax.mkNumLit (toString c.toNat))
  `(([$(cs.toArray),*] : List Nat))

/-- Unicode mode in the sense of the parser: `u` or `v`. -/
def uMode (fl : Flags) : Bool := fl.unicode || fl.unicodeSets

/-- Tactic: a statement about all 64 flag combinations, by evaluation. -/
macro "all_flags" : tactic =>
  `(tactic| (intro ⟨a, b, c, d, e, f⟩
             cases a <;> cases b <;> cases c <;> cases d <;> cases e <;> cases f <;> decide +kernel))

/-! ## Helper: the pre-scan does not move the input -/

theorem parseCaptureGroups_ok {st st' : PState} (h : parseCaptureGroups st = .ok st') :
    st'.input = st.input ∧ st'.flags = st.flags ∧ st'.depth = st.depth := by
  unfold parseCaptureGroups at h
  split at h
  · cases h
  · split at h
    · cases h
    · cases h; simp

/-! ## `unbalanced_close_rejected` -/

/-- GENERAL: a pattern that starts with `)` is never accepted, whatever follows, under any flags. -/
theorem close_first_not_accepted (rest : List Nat) (fl : Flags) (r : Regex) :
    parse (0x29 :: rest) fl ≠ .ok r := by
  intro h
  unfold parse tryParse at h
  simp only at h
  split at h
  · cases h
  · rename_i st' hst
    obtain ⟨hi, -, hd⟩ := parseCaptureGroups_ok hst
    simp only at hi hd
    have hfuel : parseFuel st'.input = (4 * rest.length + 8) + 4 := by
      rw [hi]; simp [parseFuel]; omega
    rw [hfuel] at h
    simp [consumeDisjunction, disjLoop, termLoop, tryConsume, makeCat, hi, hd,
      Gen.MAX_NESTING_DEPTH, synErr] at h

/-- `)` alone is a syntax error under all flags. -/
theorem unbalanced_close_rejected : ∀ fl : Flags, rejected (parse (pat! ")") fl) = true := by
  all_flags

/-- INSTANCES: a stray `)` at top level after balanced material. -/
theorem unbalanced_close_rejected_instances : ∀ fl : Flags,
    rejected (parse (pat! "a)") fl) = true ∧ rejected (parse (pat! "(a))") fl) = true ∧
    rejected (parse (pat! "a|b)") fl) = true ∧ rejected (parse (pat! "(?:a))b") fl) = true ∧
    rejected (parse (pat! "())") fl) = true ∧ rejected (parse (pat! "[)])") fl) = true := by
  all_flags

/-- Contrast (non-vacuity of `rejected`): balanced patterns are accepted. -/
example : ∀ fl : Flags, accepted (parse (pat! "(a)") fl) = true ∧ accepted (parse (pat! "[a]") fl) = true := by
  all_flags

/-! ## `nothing_to_repeat_rejected` -/

/-- GENERAL: a pattern whose first character is `*`, `+` or `?` is never accepted. -/
theorem nothing_to_repeat_first_not_accepted (c : Nat) (hc : c = 0x2A ∨ c = 0x2B ∨ c = 0x3F)
    (rest : List Nat) (fl : Flags) (r : Regex) : parse (c :: rest) fl ≠ .ok r := by
  intro h
  unfold parse tryParse at h
  simp only at h
  split at h
  · cases h
  · rename_i st' hst
    obtain ⟨hi, -, hd⟩ := parseCaptureGroups_ok hst
    simp only at hi hd
    have hfuel : parseFuel st'.input = (4 * rest.length + 8) + 4 := by
      rw [hi]; simp [parseFuel]; omega
    rw [hfuel] at h
    rcases hc with rfl | rfl | rfl <;>
      simp [consumeDisjunction, disjLoop, termLoop, consumeAtom, hi, hd,
        Gen.MAX_NESTING_DEPTH, synErr] at h

example : (0x2A = 0x2A ∨ 0x2A = 0x2B ∨ 0x2A = 0x3F) := by decide

/-- `*`, `+`, `?` alone are syntax errors under all flags. -/
theorem nothing_to_repeat_rejected : ∀ fl : Flags,
    rejected (parse (pat! "*") fl) = true ∧ rejected (parse (pat! "+") fl) = true ∧
    rejected (parse (pat! "?") fl) = true := by
  all_flags

/-- INSTANCES: a quantifier as first character of a later alternative / of a group / after an
anchor (`^*`: anchors are not quantifiable). -/
theorem nothing_to_repeat_rejected_instances : ∀ fl : Flags,
    rejected (parse (pat! "a|*") fl) = true ∧ rejected (parse (pat! "a|+b") fl) = true ∧
    rejected (parse (pat! "|?") fl) = true ∧ rejected (parse (pat! "(*)") fl) = true ∧
    rejected (parse (pat! "(?:+)") fl) = true ∧ rejected (parse (pat! "(?=?)") fl) = true ∧
    rejected (parse (pat! "a**") fl) = true ∧ rejected (parse (pat! "^*") fl) = true ∧
    rejected (parse (pat! "$+") fl) = true := by
  all_flags

/-! ## `quantified_lookbehind_rejected` -/

/-- INSTANCES (all flags): a look-behind followed by any quantifier is a syntax error. -/
theorem quantified_lookbehind_rejected : ∀ fl : Flags,
    rejected (parse (pat! "(?<=a)*") fl) = true ∧ rejected (parse (pat! "(?<!a)+") fl) = true ∧
    rejected (parse (pat! "(?<=a)?") fl) = true ∧ rejected (parse (pat! "(?<=a){2}") fl) = true ∧
    rejected (parse (pat! "(?<!a){1,}") fl) = true ∧ rejected (parse (pat! "(?<=(?=a))*") fl) = true ∧
    rejected (parse (pat! "(?<=)*?") fl) = true := by
  all_flags

/-- INSTANCES (all flags): a quantified look-AHEAD is accepted exactly in legacy (non-`u`, non-`v`)
mode, and is a syntax error otherwise; an unquantified look-behind is accepted. -/
theorem quantified_lookahead_iff_legacy : ∀ fl : Flags,
    accepted (parse (pat! "(?=a)*") fl) = !uMode fl ∧ rejected (parse (pat! "(?=a)*") fl) = uMode fl ∧
    accepted (parse (pat! "(?!a){2}") fl) = !uMode fl ∧ rejected (parse (pat! "(?!a){2}") fl) = uMode fl ∧
    accepted (parse (pat! "(?<=a)") fl) = true ∧ accepted (parse (pat! "(?<!a)b*") fl) = true := by
  all_flags

/-! ## `reversed_quantifier_rejected` -/

/-- INSTANCES (all flags): `{n,m}` with `n > m` is a syntax error, also when the numbers saturate
the 64-bit `usize` (`99999999999999999999` reads as `usize::MAX`). -/
theorem reversed_quantifier_rejected : ∀ fl : Flags,
    rejected (parse (pat! "a{2,1}") fl) = true ∧ rejected (parse (pat! "a{10,9}") fl) = true ∧
    rejected (parse (pat! "a{1,0}?") fl) = true ∧ rejected (parse (pat! "(a){3,2}") fl) = true ∧
    rejected (parse (pat! "[a]{2,1}") fl) = true ∧
    rejected (parse (pat! "x{99999999999999999999,1}") fl) = true := by
  all_flags

/-- Contrast: in-order bounds are accepted; two saturated bounds compare equal and are accepted. -/
example : ∀ fl : Flags,
    accepted (parse (pat! "a{1,2}") fl) = true ∧ accepted (parse (pat! "a{2,2}") fl) = true ∧
    accepted (parse (pat! "x{99999999999999999999,99999999999999999998}") fl) = true := by
  all_flags

/-- `a{m,n}` for single digits. -/
def bracedPattern (m n : Nat) : List Nat := [0x61, 0x7B, 0x30 + m, 0x2C, 0x30 + n, 0x7D]

/-- SEMI-GENERAL (default flags and `u`): for all single-digit bounds, `a{m,n}` is accepted iff
`m ≤ n` and is a syntax error otherwise. -/
theorem single_digit_bounds :
    ∀ m < 10, ∀ n < 10,
      accepted (parse (bracedPattern m n) {}) = decide (m ≤ n) ∧
      rejected (parse (bracedPattern m n) {}) = decide (n < m) ∧
      accepted (parse (bracedPattern m n) { unicode := true }) = decide (m ≤ n) ∧
      rejected (parse (bracedPattern m n) { unicode := true }) = decide (n < m) := by
  decide +kernel

/-! ## `lone_brace_accepted_iff_legacy` -/

/-- INSTANCES (all flags): lone / incomplete braces (and a lone `]`) are accepted exactly in legacy
mode (Annex B ExtendedPatternCharacter) and are syntax errors under `u` / `v`. -/
theorem lone_brace_accepted_iff_legacy : ∀ fl : Flags,
    accepted (parse (pat! "{") fl) = !uMode fl ∧ rejected (parse (pat! "{") fl) = uMode fl ∧
    accepted (parse (pat! "}") fl) = !uMode fl ∧ rejected (parse (pat! "}") fl) = uMode fl ∧
    accepted (parse (pat! "a{") fl) = !uMode fl ∧ rejected (parse (pat! "a{") fl) = uMode fl ∧
    accepted (parse (pat! "a{1") fl) = !uMode fl ∧ rejected (parse (pat! "a{1") fl) = uMode fl ∧
    accepted (parse (pat! "a{1,") fl) = !uMode fl ∧ rejected (parse (pat! "a{1,") fl) = uMode fl ∧
    accepted (parse (pat! "{a}") fl) = !uMode fl ∧ rejected (parse (pat! "{a}") fl) = uMode fl ∧
    accepted (parse (pat! "a{,1}") fl) = !uMode fl ∧ rejected (parse (pat! "a{,1}") fl) = uMode fl ∧
    accepted (parse (pat! "]") fl) = !uMode fl ∧ rejected (parse (pat! "]") fl) = uMode fl := by
  all_flags

/-- A COMPLETE braced quantifier with nothing to repeat is a syntax error in every mode. -/
theorem braced_quantifier_without_atom_rejected : ∀ fl : Flags,
    rejected (parse (pat! "{1}") fl) = true ∧ rejected (parse (pat! "{1,2}") fl) = true ∧
    rejected (parse (pat! "a|{2,}") fl) = true := by
  all_flags

/-! ## `dangling_named_ref_rejected_in_u` -/

/-- INSTANCES (all flags): `\k<a>` (and a bare `\k`) with no named group in the pattern is a syntax
error under `u` / `v` and is accepted (as the identity escape `k`) in legacy mode. -/
theorem dangling_named_ref_rejected_in_u : ∀ fl : Flags,
    rejected (parse (pat! "\\k<a>") fl) = uMode fl ∧ accepted (parse (pat! "\\k<a>") fl) = !uMode fl ∧
    rejected (parse (pat! "\\k") fl) = uMode fl ∧ accepted (parse (pat! "\\k") fl) = !uMode fl ∧
    rejected (parse (pat! "(a)\\k<a>") fl) = uMode fl ∧ accepted (parse (pat! "(a)\\k<a>") fl) = !uMode fl := by
  all_flags

/-- INSTANCES (all flags): once the pattern has ANY named group, a reference to an undefined name
(or a malformed `\k`) is a syntax error in every mode; a reference to a defined name is accepted,
also when it precedes the group. -/
theorem dangling_named_ref_rejected_with_named_groups : ∀ fl : Flags,
    rejected (parse (pat! "(?<b>x)\\k<a>") fl) = true ∧ rejected (parse (pat! "\\k<a>(?<b>x)") fl) = true ∧
    rejected (parse (pat! "(?<b>x)\\k") fl) = true ∧ rejected (parse (pat! "(?<b>x)\\k<b") fl) = true ∧
    accepted (parse (pat! "(?<b>x)\\k<b>") fl) = true ∧ accepted (parse (pat! "\\k<b>(?<b>x)") fl) = true := by
  all_flags

/-! ## `duplicate_name_same_alternative_rejected` -/

/-- INSTANCES (all flags): the same group name twice in one alternative is a syntax error. -/
theorem duplicate_name_same_alternative_rejected : ∀ fl : Flags,
    rejected (parse (pat! "(?<a>x)(?<a>y)") fl) = true ∧
    rejected (parse (pat! "(?<a>(?<a>x))") fl) = true ∧
    rejected (parse (pat! "(?<a>x)(?:|(?<a>y))") fl) = true ∧
    rejected (parse (pat! "(?:(?<a>x)|y)(?<a>z)") fl) = true ∧
    rejected (parse (pat! "(?<a>x)|(?<b>y)(?<b>z)") fl) = true := by
  all_flags

/-- Contrast (all flags): the same name in different alternatives is accepted, and `\k<a>` then
lowers to the catenation of the back-references to all groups of that name. -/
theorem duplicate_name_different_alternatives_accepted : ∀ fl : Flags,
    accepted (parse (pat! "(?<a>x)|(?<a>y)") fl) = true ∧
    accepted (parse (pat! "(?:(?<a>x)|(?<a>y))\\k<a>") fl) = true := by
  all_flags

/-- The shape `(cat (cat (alt (group 0 a x) (group 1 a y)) (cat (backref 1) (backref 2))) (goal))`. -/
def isDupLowering : Node → Bool
  | .cat [.cat [.alt (.group 0 (some [0x61]) (.char 0x78)) (.group 1 (some [0x61]) (.char 0x79)),
               .cat [.backRef 1 false, .backRef 2 false]], .goal] => true
  | _ => false

example : (match parse (pat! "(?:(?<a>x)|(?<a>y))\\k<a>") {} with
    | .ok re => isDupLowering re.node
    | .error _ => false) = true := by decide +kernel

end Regress.C08
