import RegressModel.Syntax.Parse
import Proofs.Lemmas.Parse
/-!
# C08 — decision lemmas about the parser model (`RegressModel/Syntax/Parse.lean`)

`Parse.parse pattern flags` is the model of `parse::try_parse`; patterns are lists of code points.
`accepted r` : the parser returns `Ok`;  `rejected r` : it returns a *syntax* error (not a limit
error, not a panic, not fuel exhaustion).

Two kinds of statements:

* GENERAL: for every continuation `rest` of the pattern and all 64 flag combinations
  (`close_first_rejected`, `nothing_to_repeat_first_rejected`, `unicode_lone_bracket_first_rejected`).
  They use `Proofs/Lemmas/Parse.lean` (`parseCaptureGroups_cases`: the capture-group pre-scan returns
  `Ok` or a syntax error; it cannot panic or run out of fuel).
* INSTANCES: concrete patterns, for ALL 64 flag combinations unless said otherwise, by kernel
  evaluation of the model (`decide +kernel`).
-/
namespace Regress.C08
open Regress Regress.IR Regress.Parse

/-- The parser returned `Ok`. -/
def accepted (r : Res Regex) : Bool :=
  match r with
  | .ok _ => true
  | .error _ => false

/-- The parser returned a syntax error. -/
def rejected (r : Res Regex) : Bool :=
  match r with
  | .error (.syntax _) => true
  | _ => false

/- ASCII pattern literal: `pat! "a|b"` elaborates to the list literal `[97, 124, 98]` of its
code points (a macro, so that no `String` function has to be evaluated by the kernel). -/
open Lean in
macro "pat!" s:str : term => do
  let cs := s.getString.toList.map (fun c => Syntax.mkNumLit (toString c.toNat))
  `(([$(cs.toArray),*] : List Nat))

/-- Unicode mode in the sense of the parser: `u` or `v`. -/
def uMode (fl : Flags) : Bool := fl.unicode || fl.unicodeSets

/-- Tactic: a statement about all 64 flag combinations, by evaluation. -/
macro "all_flags" : tactic =>
  `(tactic| (intro ⟨a, b, c, d, e, f⟩
             cases a <;> cases b <;> cases c <;> cases d <;> cases e <;> cases f <;> decide +kernel))

/-! ## Helper: the pre-scan does not move the input -/

theorem parseCaptureGroups_ok {st st' : PState} (h : parseCaptureGroups st = .ok st') :
    st'.input = st.input ∧ st'.flags = st.flags ∧ st'.depth = st.depth := by
  unfold parseCaptureGroups at h
  split at h
  · cases h
  · split at h
    · cases h
    · cases h; simp

/-- Shape of the general proofs: if, for every state the pre-scan can return, the main descent
fails with a syntax error, then the pattern is rejected. -/
theorem rejected_of_descent (pattern : List Nat) (fl : Flags)
    (h : ∀ st' : PState, st'.input = pattern →
      st'.flags = (if fl.unicodeSets then { fl with unicode := true } else fl) → st'.depth = 0 →
      ∃ msg, parseBody st' = .error (.syntax msg)) :
    rejected (parse pattern fl) = true := by
  unfold parse tryParse
  simp only
  rcases parseCaptureGroups_cases
    { input := pattern, flags := if fl.unicodeSets then { fl with unicode := true } else fl }
    with ⟨st', hst⟩ | ⟨msg, hst⟩
  · rw [hst]
    obtain ⟨hi, hf, hd⟩ := parseCaptureGroups_ok hst
    obtain ⟨msg, hm⟩ := h st' hi hf hd
    simp only
    rw [hm]; rfl
  · rw [hst]; rfl

/-! ## `unbalanced_close_rejected` -/

/-- GENERAL: a pattern that starts with `)` is a syntax error, whatever follows, under any flags. -/
theorem close_first_rejected (rest : List Nat) (fl : Flags) :
    rejected (parse (0x29 :: rest) fl) = true := by
  apply rejected_of_descent
  intro st' hi _ hd
  have hfuel : parseFuel st'.input = (4 * rest.length + 8) + 4 := by
    rw [hi]; simp [parseFuel]; omega
  unfold parseBody
  rw [hfuel]
  simp [consumeDisjunction, disjLoop, termLoop, tryConsume, makeCat, hi, hd,
    Gen.MAX_NESTING_DEPTH, synErr]

/-- `)` alone is a syntax error under all flags. -/
theorem unbalanced_close_rejected : ∀ fl : Flags, rejected (parse (pat! ")") fl) = true := by
  all_flags

/-- INSTANCES: a stray `)` at top level after balanced material. -/
theorem unbalanced_close_rejected_instances : ∀ fl : Flags,
    rejected (parse (pat! "a)") fl) = true ∧ rejected (parse (pat! "(a))") fl) = true ∧
    rejected (parse (pat! "a|b)") fl) = true ∧ rejected (parse (pat! "(?:a))b") fl) = true ∧
    rejected (parse (pat! "())") fl) = true ∧ rejected (parse (pat! "[)])") fl) = true := by
  all_flags

/-- Contrast (non-vacuity of `rejected`): balanced patterns are accepted. -/
example : ∀ fl : Flags, accepted (parse (pat! "(a)") fl) = true ∧ accepted (parse (pat! "[a]") fl) = true := by
  all_flags

/-! ## `nothing_to_repeat_rejected` -/

/-- GENERAL: a pattern whose first character is `*`, `+` or `?` is a syntax error, whatever
follows, under any flags. -/
theorem nothing_to_repeat_first_rejected (c : Nat) (hc : c = 0x2A ∨ c = 0x2B ∨ c = 0x3F)
    (rest : List Nat) (fl : Flags) : rejected (parse (c :: rest) fl) = true := by
  apply rejected_of_descent
  intro st' hi _ hd
  have hfuel : parseFuel st'.input = (4 * rest.length + 8) + 4 := by
    rw [hi]; simp [parseFuel]; omega
  unfold parseBody
  rw [hfuel]
  rcases hc with rfl | rfl | rfl <;>
    simp [consumeDisjunction, disjLoop, termLoop, consumeAtom, hi, hd,
      Gen.MAX_NESTING_DEPTH, synErr] <;>
    split <;> simp

/-- Non-vacuity of the hypothesis. -/
example : (0x2A = 0x2A ∨ 0x2A = 0x2B ∨ 0x2A = 0x3F) := by decide

/-- `*`, `+`, `?` alone are syntax errors under all flags. -/
theorem nothing_to_repeat_rejected : ∀ fl : Flags,
    rejected (parse (pat! "*") fl) = true ∧ rejected (parse (pat! "+") fl) = true ∧
    rejected (parse (pat! "?") fl) = true := by
  all_flags

/-- INSTANCES: a quantifier as first character of a later alternative / of a group / after an
anchor (`^*`: anchors are not quantifiable). -/
theorem nothing_to_repeat_rejected_instances : ∀ fl : Flags,
    rejected (parse (pat! "a|*") fl) = true ∧ rejected (parse (pat! "a|+b") fl) = true ∧
    rejected (parse (pat! "|?") fl) = true ∧ rejected (parse (pat! "(*)") fl) = true ∧
    rejected (parse (pat! "(?:+)") fl) = true ∧ rejected (parse (pat! "(?=?)") fl) = true ∧
    rejected (parse (pat! "a**") fl) = true ∧ rejected (parse (pat! "^*") fl) = true ∧
    rejected (parse (pat! "$+") fl) = true := by
  all_flags

/-! ## `quantified_lookbehind_rejected` -/

/-- INSTANCES (all flags): a look-behind followed by any quantifier is a syntax error. -/
theorem quantified_lookbehind_rejected : ∀ fl : Flags,
    rejected (parse (pat! "(?<=a)*") fl) = true ∧ rejected (parse (pat! "(?<!a)+") fl) = true ∧
    rejected (parse (pat! "(?<=a)?") fl) = true ∧ rejected (parse (pat! "(?<=a){2}") fl) = true ∧
    rejected (parse (pat! "(?<!a){1,}") fl) = true ∧ rejected (parse (pat! "(?<=(?=a))*") fl) = true ∧
    rejected (parse (pat! "(?<=)*?") fl) = true := by
  all_flags

/-- INSTANCES (all flags): a quantified look-AHEAD is accepted exactly in legacy (non-`u`, non-`v`)
mode, and is a syntax error otherwise; an unquantified look-behind is accepted. -/
theorem quantified_lookahead_iff_legacy : ∀ fl : Flags,
    accepted (parse (pat! "(?=a)*") fl) = !uMode fl ∧ rejected (parse (pat! "(?=a)*") fl) = uMode fl ∧
    accepted (parse (pat! "(?!a){2}") fl) = !uMode fl ∧ rejected (parse (pat! "(?!a){2}") fl) = uMode fl ∧
    accepted (parse (pat! "(?<=a)") fl) = true ∧ accepted (parse (pat! "(?<!a)b*") fl) = true := by
  all_flags

/-! ## `reversed_quantifier_rejected` -/

/-- INSTANCES (all flags): `{n,m}` with `n > m` is a syntax error, also when the numbers saturate
the 64-bit `usize` (`99999999999999999999` reads as `usize::MAX`). -/
theorem reversed_quantifier_rejected : ∀ fl : Flags,
    rejected (parse (pat! "a{2,1}") fl) = true ∧ rejected (parse (pat! "a{10,9}") fl) = true ∧
    rejected (parse (pat! "a{1,0}?") fl) = true ∧ rejected (parse (pat! "(a){3,2}") fl) = true ∧
    rejected (parse (pat! "[a]{2,1}") fl) = true ∧
    rejected (parse (pat! "x{99999999999999999999,1}") fl) = true := by
  all_flags

/-- INSTANCES (all flags): two bounds that BOTH saturate the 64-bit `usize` are still compared (by
their digit strings, `decimal_digits`): a reversed pair is a syntax error, also with leading zeros
and with different lengths.  (Before the fix "reversed quantifier bounds beyond usize::MAX are an
error" both read as `usize::MAX` and the pair was accepted.) -/
theorem reversed_saturated_quantifier_rejected : ∀ fl : Flags,
    rejected (parse (pat! "x{99999999999999999999,99999999999999999998}") fl) = true ∧
    rejected (parse (pat! "x{0099999999999999999999,99999999999999999998}") fl) = true ∧
    rejected (parse (pat! "x{100000000000000000000,99999999999999999999}") fl) = true ∧
    rejected (parse (pat! "x{18446744073709551616,18446744073709551615}") fl) = true := by
  all_flags

/-- Contrast: in-order bounds are accepted; two saturated bounds in order (or equal, also up to
leading zeros) are accepted. -/
example : ∀ fl : Flags,
    accepted (parse (pat! "a{1,2}") fl) = true ∧ accepted (parse (pat! "a{2,2}") fl) = true ∧
    accepted (parse (pat! "x{99999999999999999998,99999999999999999999}") fl) = true ∧
    accepted (parse (pat! "x{99999999999999999999,99999999999999999999}") fl) = true ∧
    accepted (parse (pat! "x{99999999999999999999,099999999999999999999}") fl) = true := by
  all_flags

/-- `a{m,n}` for single digits. -/
def bracedPattern (m n : Nat) : List Nat := [0x61, 0x7B, 0x30 + m, 0x2C, 0x30 + n, 0x7D]

/-- SEMI-GENERAL (default flags and `u`): for all single-digit bounds, `a{m,n}` is accepted iff
`m ≤ n` and is a syntax error otherwise. -/
theorem single_digit_bounds :
    ∀ m < 10, ∀ n < 10,
      accepted (parse (bracedPattern m n) {}) = decide (m ≤ n) ∧
      rejected (parse (bracedPattern m n) {}) = decide (n < m) ∧
      accepted (parse (bracedPattern m n) { unicode := true }) = decide (m ≤ n) ∧
      rejected (parse (bracedPattern m n) { unicode := true }) = decide (n < m) := by
  decide +kernel

/-! ## `lone_brace_accepted_iff_legacy` -/

/-- INSTANCES (all flags): lone / incomplete braces (and a lone `]`) are accepted exactly in legacy
mode (Annex B ExtendedPatternCharacter) and are syntax errors under `u` / `v`. -/
theorem lone_brace_accepted_iff_legacy : ∀ fl : Flags,
    accepted (parse (pat! "{") fl) = !uMode fl ∧ rejected (parse (pat! "{") fl) = uMode fl ∧
    accepted (parse (pat! "}") fl) = !uMode fl ∧ rejected (parse (pat! "}") fl) = uMode fl ∧
    accepted (parse (pat! "a{") fl) = !uMode fl ∧ rejected (parse (pat! "a{") fl) = uMode fl ∧
    accepted (parse (pat! "a{1") fl) = !uMode fl ∧ rejected (parse (pat! "a{1") fl) = uMode fl ∧
    accepted (parse (pat! "a{1,") fl) = !uMode fl ∧ rejected (parse (pat! "a{1,") fl) = uMode fl ∧
    accepted (parse (pat! "{a}") fl) = !uMode fl ∧ rejected (parse (pat! "{a}") fl) = uMode fl ∧
    accepted (parse (pat! "a{,1}") fl) = !uMode fl ∧ rejected (parse (pat! "a{,1}") fl) = uMode fl ∧
    accepted (parse (pat! "]") fl) = !uMode fl ∧ rejected (parse (pat! "]") fl) = uMode fl := by
  all_flags

/-- GENERAL: under `u` or `v`, a pattern whose first character is `]`, `{` or `}` is a syntax
error, whatever follows. -/
theorem unicode_lone_bracket_first_rejected (c : Nat) (hc : c = 0x5D ∨ c = 0x7B ∨ c = 0x7D)
    (rest : List Nat) (fl : Flags) (hu : uMode fl = true) : rejected (parse (c :: rest) fl) = true := by
  apply rejected_of_descent
  intro st' hi hfl hd
  have hun : st'.flags.unicode = true := by
    rw [hfl]; unfold uMode at hu
    cases h1 : fl.unicodeSets <;> simp_all
  have hfuel : parseFuel st'.input = (4 * rest.length + 8) + 4 := by
    rw [hi]; simp [parseFuel]; omega
  unfold parseBody
  rw [hfuel]
  rcases hc with rfl | rfl | rfl <;>
    simp [consumeDisjunction, disjLoop, termLoop, consumeAtom, hi, hd, hun,
      Gen.MAX_NESTING_DEPTH, synErr]

/-- Non-vacuity of the hypotheses. -/
example : uMode { unicode := true } = true ∧ (0x7B = 0x5D ∨ 0x7B = 0x7B ∨ 0x7B = 0x7D) := by decide

/-- A COMPLETE braced quantifier with nothing to repeat is a syntax error in every mode. -/
theorem braced_quantifier_without_atom_rejected : ∀ fl : Flags,
    rejected (parse (pat! "{1}") fl) = true ∧ rejected (parse (pat! "{1,2}") fl) = true ∧
    rejected (parse (pat! "a|{2,}") fl) = true := by
  all_flags

/-! ## `dangling_named_ref_rejected_in_u` -/

/-- INSTANCES (all flags): `\k<a>` (and a bare `\k`) with no named group in the pattern is a syntax
error under `u` / `v` and is accepted (as the identity escape `k`) in legacy mode. -/
theorem dangling_named_ref_rejected_in_u : ∀ fl : Flags,
    rejected (parse (pat! "\\k<a>") fl) = uMode fl ∧ accepted (parse (pat! "\\k<a>") fl) = !uMode fl ∧
    rejected (parse (pat! "\\k") fl) = uMode fl ∧ accepted (parse (pat! "\\k") fl) = !uMode fl ∧
    rejected (parse (pat! "(a)\\k<a>") fl) = uMode fl ∧ accepted (parse (pat! "(a)\\k<a>") fl) = !uMode fl := by
  all_flags

/-- INSTANCES (all flags): once the pattern has ANY named group, a reference to an undefined name
(or a malformed `\k`) is a syntax error in every mode; a reference to a defined name is accepted,
also when it precedes the group. -/
theorem dangling_named_ref_rejected_with_named_groups : ∀ fl : Flags,
    rejected (parse (pat! "(?<b>x)\\k<a>") fl) = true ∧ rejected (parse (pat! "\\k<a>(?<b>x)") fl) = true ∧
    rejected (parse (pat! "(?<b>x)\\k") fl) = true ∧ rejected (parse (pat! "(?<b>x)\\k<b") fl) = true ∧
    accepted (parse (pat! "(?<b>x)\\k<b>") fl) = true ∧ accepted (parse (pat! "\\k<b>(?<b>x)") fl) = true := by
  all_flags

/-! ## `duplicate_name_same_alternative_rejected` -/

/-- INSTANCES (all flags): the same group name twice in one alternative is a syntax error. -/
theorem duplicate_name_same_alternative_rejected : ∀ fl : Flags,
    rejected (parse (pat! "(?<a>x)(?<a>y)") fl) = true ∧
    rejected (parse (pat! "(?<a>(?<a>x))") fl) = true ∧
    rejected (parse (pat! "(?<a>x)(?:|(?<a>y))") fl) = true ∧
    rejected (parse (pat! "(?:(?<a>x)|y)(?<a>z)") fl) = true ∧
    rejected (parse (pat! "(?<a>x)|(?<b>y)(?<b>z)") fl) = true := by
  all_flags

/-- Contrast (all flags): the same name in different alternatives is accepted, and `\k<a>` then
lowers to the catenation of the back-references to all groups of that name. -/
theorem duplicate_name_different_alternatives_accepted : ∀ fl : Flags,
    accepted (parse (pat! "(?<a>x)|(?<a>y)") fl) = true ∧
    accepted (parse (pat! "(?:(?<a>x)|(?<a>y))\\k<a>") fl) = true := by
  all_flags

/-- The shape `(cat (cat (alt (group 0 a x) (group 1 a y)) (cat (backref 1) (backref 2))) (goal))`. -/
def isDupLowering : Node → Bool
  | .cat [.cat [.alt (.group 0 (some [0x61]) (.char 0x78)) (.group 1 (some [0x61]) (.char 0x79)),
               .cat [.backRef 1 false, .backRef 2 false]], .goal] => true
  | _ => false

example : (match parse (pat! "(?:(?<a>x)|(?<a>y))\\k<a>") {} with
    | .ok re => isDupLowering re.node
    | .error _ => false) = true := by decide +kernel

end Regress.C08

#print axioms Regress.C08.close_first_rejected
#print axioms Regress.C08.unbalanced_close_rejected
#print axioms Regress.C08.unbalanced_close_rejected_instances
#print axioms Regress.C08.nothing_to_repeat_first_rejected
#print axioms Regress.C08.nothing_to_repeat_rejected
#print axioms Regress.C08.nothing_to_repeat_rejected_instances
#print axioms Regress.C08.quantified_lookbehind_rejected
#print axioms Regress.C08.quantified_lookahead_iff_legacy
#print axioms Regress.C08.reversed_quantifier_rejected
#print axioms Regress.C08.reversed_saturated_quantifier_rejected
#print axioms Regress.C08.single_digit_bounds
#print axioms Regress.C08.lone_brace_accepted_iff_legacy
#print axioms Regress.C08.unicode_lone_bracket_first_rejected
#print axioms Regress.C08.braced_quantifier_without_atom_rejected
#print axioms Regress.C08.dangling_named_ref_rejected_in_u
#print axioms Regress.C08.dangling_named_ref_rejected_with_named_groups
#print axioms Regress.C08.duplicate_name_same_alternative_rejected
#print axioms Regress.C08.duplicate_name_different_alternatives_accepted
