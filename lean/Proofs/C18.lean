import RegressModel.Api.Escape
/-!
# C18 (first half) — `regress::escape`

Model: `RegressModel/Api/Escape.lean` (`escapeChars` = the pushed chars, `escape` = the UTF-8 bytes,
`unescape` = reading an escaped string back). The second half of C18 (parsing `escape s` yields the
literal `s`) is proved against the parser model elsewhere.
-/
namespace Regress.C18
open Regress.Api

/-- The output of `escape` as a concatenation of blocks: `[c]` with `c` not special, or
`['\\', c]` with `c` special. -/
inductive Blocks : List Nat → Prop
  | nil : Blocks []
  | plain {c : Nat} {l : List Nat} : isSpecial c = false → Blocks l → Blocks (c :: l)
  | esc {c : Nat} {l : List Nat} : isSpecial c = true → Blocks l → Blocks (0x5C :: c :: l)

/-- The block belonging to one input char. -/
def block (c : Nat) : List Nat := if isSpecial c then [0x5C, c] else [c]

theorem unescape_cons_ne {c : Nat} (hc : c ≠ 0x5C) (l : List Nat) :
    unescape (c :: l) = c :: unescape l := by
  cases l with
  | nil => rfl
  | cons d l => simp [unescape, hc]

theorem not_special_ne_backslash {c : Nat} (h : isSpecial c = false) : c ≠ 0x5C := by
  intro hc; subst hc; simp [isSpecial] at h

/-- `escape` is a per-char map: every char produces its own block. -/
theorem escape_blockwise (s : List Nat) : escapeChars s = s.flatMap block := by
  induction s with
  | nil => rfl
  | cons c cs ih =>
    simp only [escapeChars, List.flatMap_cons, block]
    split <;> simp [ih]

/-- **escape_only_prefixes.** Dropping each inserted backslash (and keeping the char after it
verbatim) gives back the input: `escape` only inserts prefixes, it changes and drops nothing. -/
theorem escape_only_prefixes (s : List Nat) : unescape (escapeChars s) = s := by
  induction s with
  | nil => rfl
  | cons c cs ih =>
    simp only [escapeChars]
    split
    · simp [unescape, ih]
    · next h =>
      have h' : isSpecial c = false := by simpa using h
      rw [unescape_cons_ne (not_special_ne_backslash h'), ih]

/-- **escape_no_bare_syntax.** The output is a concatenation of blocks `[c]` (`c` not one of the
14 syntax characters) and `['\\', c]` (`c` one of them): no syntax character occurs bare, and a
backslash occurs only as an inserted prefix or as the escaped char of a `\\\\` block. -/
theorem escape_no_bare_syntax (s : List Nat) : Blocks (escapeChars s) := by
  induction s with
  | nil => exact Blocks.nil
  | cons c cs ih =>
    simp only [escapeChars]
    split
    · next h => exact Blocks.esc h ih
    · next h => exact Blocks.plain (by simpa using h) ih

/-- A decidable reading of "no bare syntax character": scanning left to right, a backslash must be
followed by a char (which is skipped), and any other char must not be special. -/
def wellEscaped : List Nat → Bool
  | [] => true
  | [c] => !isSpecial c
  | c :: d :: l => if c == 0x5C then wellEscaped l else !isSpecial c && wellEscaped (d :: l)

theorem wellEscaped_cons_plain {c : Nat} (h : isSpecial c = false) (l : List Nat) :
    wellEscaped (c :: l) = wellEscaped l := by
  have hc := not_special_ne_backslash h
  cases l with
  | nil => simp [wellEscaped, h]
  | cons d l => simp [wellEscaped, h, hc]

theorem wellEscaped_of_blocks {l : List Nat} (h : Blocks l) : wellEscaped l = true := by
  induction h with
  | nil => rfl
  | plain hc _ ih => rw [wellEscaped_cons_plain hc]; exact ih
  | esc _ _ ih => simpa [wellEscaped] using ih

theorem escape_wellEscaped (s : List Nat) : wellEscaped (escapeChars s) = true :=
  wellEscaped_of_blocks (escape_no_bare_syntax s)

/-- **escape_length** (in chars): one extra char per special char. -/
theorem escape_length (s : List Nat) :
    (escapeChars s).length = s.length + (s.filter isSpecial).length := by
  induction s with
  | nil => rfl
  | cons c cs ih =>
    simp only [escapeChars, List.filter_cons]
    split <;> simp [ih] <;> omega

theorem encodeAll_cons (c : Nat) (l : List Nat) :
    Utf8.encodeAll (c :: l) = Utf8.encode c ++ Utf8.encodeAll l := by
  simp [Utf8.encodeAll]

/-- `escape` on the byte level: each special char gets the single byte `0x5C` in front of its
(unchanged) UTF-8 encoding. -/
theorem escape_bytes (s : List Nat) :
    escape s = s.flatMap (fun c => if isSpecial c then 0x5C :: Utf8.encode c else Utf8.encode c) := by
  unfold escape
  induction s with
  | nil => rfl
  | cons c cs ih =>
    simp only [escapeChars, List.flatMap_cons]
    split
    · rw [encodeAll_cons, encodeAll_cons, ih]; simp [Utf8.encode]
    · rw [encodeAll_cons, ih]

/-- **escape_length** (in bytes): one extra byte per special char. -/
theorem escape_length_bytes (s : List Nat) :
    (escape s).length = (Utf8.encodeAll s).length + (s.filter isSpecial).length := by
  unfold escape
  induction s with
  | nil => rfl
  | cons c cs ih =>
    simp only [escapeChars, List.filter_cons]
    split
    · rw [encodeAll_cons, encodeAll_cons, encodeAll_cons]
      simp only [List.length_append, List.length_cons, ih]
      have : (Utf8.encode 0x5C).length = 1 := by decide
      omega
    · rw [encodeAll_cons, encodeAll_cons]
      simp only [List.length_append, ih]
      omega

/-- A string without special chars is returned unchanged. -/
theorem escape_noop (s : List Nat) (h : ∀ c ∈ s, isSpecial c = false) : escapeChars s = s := by
  induction s with
  | nil => rfl
  | cons c cs ih =>
    have hc := h c (List.mem_cons_self ..)
    simp only [escapeChars, hc]
    simp [ih (fun d hd => h d (List.mem_cons_of_mem _ hd))]

/-- `isSpecial` is exactly membership in the 14-character list of the `match` arm. -/
theorem isSpecial_iff (c : Nat) :
    isSpecial c = true ↔
      c ∈ [0x5C, 0x5E, 0x24, 0x2E, 0x7C, 0x3F, 0x2A, 0x2B, 0x28, 0x29, 0x5B, 0x5D, 0x7B, 0x7D] := by
  simp [isSpecial, or_assoc]

/-! ## Examples (the doc-test strings of `escape`) -/

/-- `escape("$100 + tax (15%)") = "\\$100 \\+ tax \\(15%\\)"`. -/
example : escapeChars [0x24, 0x31, 0x30, 0x30, 0x20, 0x2B, 0x20, 0x28, 0x31, 0x35, 0x25, 0x29] =
    [0x5C, 0x24, 0x31, 0x30, 0x30, 0x20, 0x5C, 0x2B, 0x20, 0x5C, 0x28, 0x31, 0x35, 0x25, 0x5C, 0x29] := by
  decide
/-- A backslash followed by a special char: `a\.` becomes `a\\\.`; reading it back gives `a\.`. -/
example : escapeChars [0x61, 0x5C, 0x2E] = [0x61, 0x5C, 0x5C, 0x5C, 0x2E] := by decide
example : unescape [0x61, 0x5C, 0x5C, 0x5C, 0x2E] = [0x61, 0x5C, 0x2E] := by decide
/-- Non-ASCII chars are untouched: `é.` (bytes C3 A9 5C 2E). -/
example : escape [0xE9, 0x2E] = [0xC3, 0xA9, 0x5C, 0x2E] := by decide

#print axioms escape_blockwise
#print axioms escape_only_prefixes
#print axioms escape_no_bare_syntax
#print axioms escape_wellEscaped
#print axioms escape_length
#print axioms escape_bytes
#print axioms escape_length_bytes
#print axioms escape_noop
#print axioms isSpecial_iff

end Regress.C18
